#!/usr/bin/env python3
"""tools/placedemo.py <seeded-dir> <worktree> place|remove|dirs — puts the demo test files of a seeded change where its demo_path.txt says."""
import os, re, shutil, sys
S, WT, act = sys.argv[1], sys.argv[2], sys.argv[3]
txt = open(os.path.join(S, 'demo_path.txt')).read() if os.path.exists(os.path.join(S, 'demo_path.txt')) else ''
files = sorted(f for f in os.listdir(S) if f.endswith('_test.go'))
pairs = []
for m in re.finditer(r'(\S+_test\.go)\s*->\s*((?:x|app|types)/\S+_test\.go)', txt):
    if m.group(1) in files:
        pairs.append((m.group(1), m.group(2)))
if not pairs:
    fs = re.findall(r'file\s*:\s*(\S+_test\.go)', txt)
    ps = re.findall(r'place\s*:\s*((?:x|app|types)/\S+_test\.go)', txt)
    pairs = [(f, p) for f, p in zip(fs, ps) if f in files]
if not pairs:
    ps = re.findall(r'((?:x|app|types)/[A-Za-z0-9_/.-]+_test\.go)', txt)
    if files and ps:
        if len(files) == 1:
            pairs = [(files[0], ps[0])]
        else:
            d = os.path.dirname(ps[0])
            pairs = [(f, os.path.join(d, 'zz_seeded_' + f)) for f in files]
if act == 'dirs':
    print(' '.join(sorted(set('./' + os.path.dirname(p) + '/' for _, p in pairs))))
elif act == 'place':
    for f, p in pairs:
        os.makedirs(os.path.join(WT, os.path.dirname(p)), exist_ok=True)
        shutil.copy(os.path.join(S, f), os.path.join(WT, p))
elif act == 'remove':
    for _, p in pairs:
        try:
            os.remove(os.path.join(WT, p))
        except FileNotFoundError:
            pass
