#!/usr/bin/env python3
"""tools/mkseeded.py — copy confirmed seeded changes from the scratch area into /verif/seeded/<ID>-<VAR>/.

Input  : /tmp/seeded/<ID>/<VAR>/{patch.diff,*_test.go,demo_path.txt,notes.md}  (written by the sub-agents)
         /tmp/seeded/results/<ID>-<VAR>.json                                   (written by tools/evalmut.sh)
Output : /verif/seeded/<ID>-<VAR>/{patch.diff,demo files,demo_path.txt,notes.md,meta.json} and seeded/INDEX.md
Only changes whose confirmation is complete (demo passes clean, fails with the change, suite passes with it) are kept.
"""
import json, os, re, shutil, sys, glob

SRC = '/tmp/seeded'
DST = '/verif/seeded'
OVERRIDE = {
    # code that never runs on the live chain: the begin blockers of x/auction and x/liquidation are commented out
    'C10-A': 'not-reachable-on-a-running-chain: the changed lines are only executed by the generation-1 auction begin blocker, whose body is commented out in x/auction/module.go; no transaction or block can reach them, so no user-visible behaviour changes and a monitor of real executions has nothing to observe. The demo calls the keeper function directly.',
    'C13-B': 'not-reachable-on-a-running-chain: closeSurplusAuction is only called from the generation-1 auction begin blocker, whose body is commented out in x/auction/module.go (generation-1 surplus auctions are never even started on a live chain). The demo calls the keeper-level BeginBlocker directly.',
}

# missed for a stated reason other than reachability (verdict stays "missed")
MISSED_WHY = {
    'C18-G': 'not decided by the statement as written: it needs a history of saving-rate changes (rate -> 0 -> rate), which the statement does not quantify over, and the sharper bound that would see it ("nothing accrues at the present rate for time before the last rate change") does not hold on the unchanged tree either: when the collector cannot pay a locker\'s settlement at a rate change, LockerIterateRewards leaves the locker\'s stamp untouched and the next calculation pays the new rate from the old stamp (tried, fired on the unchanged tree at seed 0, withdrawn).',
}

def needs(notes):
    out, on = [], False
    for line in notes.splitlines():
        if re.match(r'^##+ ', line):
            on = bool(re.search(r'(needed|manifest|[Tt]rigger|[Nn]eeds)', line))
            continue
        if on and line.strip():
            out.append(line.rstrip())
    return '\n'.join(out[:25])

def main():
    os.makedirs(DST, exist_ok=True)
    rows = []
    for rj in sorted(glob.glob(SRC + '/results/*.json')):
        r = json.load(open(rj))
        key = '%s-%s' % (r['id'], r['var'])
        s = '%s/%s/%s' % (SRC, r['id'], r['var'])
        if not os.path.exists(s + '/patch.diff'):
            continue
        confirmed = r.get('build') == 'ok' and r.get('demo_on_clean') == 'pass' and r.get('demo_with_change') == 'FAIL' and str(r.get('suite_with_change', '')).startswith('ok')
        if not confirmed:
            print('skip (not confirmed):', key, r)
            continue
        d = '%s/%s' % (DST, key)
        os.makedirs(d, exist_ok=True)
        for f in os.listdir(s):
            if f == 'patch.diff' or f.endswith('_test.go') or f in ('demo_path.txt', 'notes.md') or f.endswith('.go'):
                shutil.copy(s + '/' + f, d + '/' + (f if not f.endswith('_test.go') else f + '.txt'))
        notes = open(s + '/notes.md').read() if os.path.exists(s + '/notes.md') else ''
        title = notes.splitlines()[0].lstrip('# ').strip() if notes else ''
        files = re.findall(r'^diff --git a/(\S+)', open(s + '/patch.diff').read(), re.M)
        caught = [c for c in r['checks'] if c['rc'] == 1]
        verdict = 'caught' if any(c['check'] == r['id'] for c in caught) else ('caught-by-other-check' if caught else 'missed')
        if key in OVERRIDE and verdict == 'missed':
            verdict = 'out-of-reach'
        meta = {
            'property': r['id'], 'variant': r['var'], 'title': title, 'changed_files': files,
            'needs_in_order_to_manifest': needs(notes),
            'confirmed_by_me': {
                'how': 'tools/evalmut.sh %s %s on a scratch worktree of /repo HEAD: demo placed as demo_path.txt says and the whole package run with go test (clean tree, then with patch.diff applied), then go test -vet=off -count=1 ./... with the change applied and the demo removed' % (r['id'], r['var']),
                'builds_with_change': r['build'], 'demo_on_clean_tree': r['demo_on_clean'], 'demo_with_change': r['demo_with_change'], 'existing_suite_with_change': r['suite_with_change'],
                'note': r.get('demo_note', ''),
            },
            'checks_run_against_it': [{'command': 'REPO=<worktree with change> ./check %s quick (VERIF_SEED=0)' % c['check'], 'exit': c['rc'], 'violation_labels': c['labels'].split()} for c in r['checks']],
            'verdict': verdict,
        }
        if key in OVERRIDE:
            meta['why_not_caught'] = OVERRIDE[key]
        if key in MISSED_WHY and verdict == 'missed':
            meta['why_not_caught'] = MISSED_WHY[key]
        json.dump(meta, open(d + '/meta.json', 'w'), indent=1)
        rows.append((key, title, verdict, ' '.join(sorted(set(l for c in caught for l in c['labels'].split())))[:400]))
    with open(DST + '/INDEX.md', 'w') as f:
        f.write('# Seeded changes (each breaks one property, compiles, passes the existing suite)\n\n')
        f.write('Demo files are stored with a `.txt` suffix so that nothing under /verif is picked up by `go test`; strip the suffix when placing them as `demo_path.txt` says.\n\n')
        f.write('Every patch applies to the /repo commit it was evaluated on (752df4e for A-F and the fifth-wave G/H, 45e232c for the sixth-wave G/H); all but two still apply to the final tree: C09-C and C09-G edit the position arithmetic of the vault sweep that the repair 14e53bd replaced afterwards (see note_on_final_tree in their meta.json; C09-G has a re-based patch next to the original).\n\n')
        f.write('| id | change | verdict | labels that fired (quick tier, seed 0) |\n|---|---|---|---|\n')
        for k, t, v, l in rows:
            f.write('| %s | %s | %s | %s |\n' % (k, t.replace('|', '/'), v, l.replace('|', '/')))
    print(len(rows), 'seeded changes written')

if __name__ == '__main__':
    main()
