#!/usr/bin/env bash
# tools/evalall.sh <parallel> "<ID> <VARs> [extra checks]" ...  — one worker per ID (A then B), at most <parallel> IDs at once
P=$1; shift
printf '%s\n' "$@" | xargs -P $P -I{} bash -c 'set -- {}; ID=$1; VARS=$2; shift 2; for V in $(echo $VARS | fold -w1); do /verif/tools/evalmut.sh $ID $V x "$@"; done' 
