#!/usr/bin/env python3
"""Regenerates /verif/MANIFEST.json from the table below (kept here so the file is always schema-valid)."""
import json, os, sys
HERE = os.path.dirname(os.path.dirname(os.path.abspath(__file__)))
ALL = ["C%02d" % i for i in range(1, 21)]

CHECKS = {
 "C08": dict(
   level="exploration",
   technique="runtime invariant monitor on lending books after every tx and block + exact LTV oracle with interval slack on successful borrow/draw messages + payout bounds, over a seeded hostile lend workload with boundary-solved amounts",
   text="Two pools sharing transit assets, e-mode and stable-borrow pairs, 5 users, all twelve lend messages with tiny / typical / LTV-boundary-solved / +1 / whole-balance amounts, block gaps 1 s..2 y so interest and rewards accrue, price moves and crashes with borrows seized by the generation-2 begin blocker. After every event: published total lent == sum over lend positions of available-to-borrow + collateral pledged to open, not handed-over borrows; totals borrowed (variable/stable) == sum of principal of open non-liquidated borrows; successful borrow/draw only if debt value <= collateral value x applicable LTV (same-pool, e-mode, inter-pool product) and the pool held the coins; withdraw/close-lend pay <= available and leave pledged collateral untouched.",
   note="MsgDepositBorrow is not LTV-checked (the statement bounds borrow and draw); liquidate messages and auction settlement of borrows are not part of this workload.",
   design="§4 C08"),
 "C16": dict(
   level="exploration",
   technique="differential replay of a recorded execution stream (tx bytes, block boundaries, environment actions) on fresh instances: sequentially, concurrently under the Go race detector, and in a fresh child process with GOMAXPROCS=1; comparison of tx result digests, app hashes and per-store dump hashes",
   text="A seeded mixed workload (vaults, stable mint, lockers, liquidations and auctions of both generations, limit bids, price moves, time gaps) is executed once while everything fed to the application is recorded together with digests of every tx result (code, data, gas, events), the app hash of every block and the hash of every KV store after every begin block. The tape is replayed on R fresh instances one after the other, on R instances running concurrently in one process built with -race (a race report ends the shard with a dedicated exit status and is a violation), and in a new process with a different scheduler configuration. Map-iteration order is re-randomised by the runtime on every range, so each replay is an independent draw.",
   note="The free-text log of a tx result is excluded from the digest (for recovered panics it contains a goroutine stack). Workloads of other fixtures (liquidity, lend) join through c16Recorders when registered.",
   design="§4 C16"),
 "C20": dict(
   level="exploration",
   technique="differential monitoring across an export/import boundary: every method of every comdex gRPC Query service (enumerated from the registered descriptors) asked with all small-id / known-address requests on both chains, id counters and typed keeper snapshots compared, then a recorded continuation replayed on the re-imported chain with tx-result and final-state comparison",
   text="States reached by feature-set-rotated CDP workloads (vaults; +lockers; +generation-2 liquidations and Dutch bids; everything incl. generation-1 liquidate messages and limit bids) are exported with ExportAppStateAndValidators and a fresh app is initialised from the JSON. ~22k query requests over 350 non-history query methods per quick run are compared byte for byte; 16 id counters and the typed snapshot (vaults, totals, locked vaults, auctions, net fees, lockers, balances, supply, limit bids, prices) are compared; when the import is clean a continuation of a few hundred txs and blocks recorded on the original chain is replayed on the imported one and tx results (code, data, events) and the final typed state must be identical.",
   note="History / archive queries (closed auctions, past bids, locked-vault history) are excluded: the statement is about live positions, custody, parameters, prices and counters. Gas used is excluded from the continuation comparison. The harness re-applies its own price-feeder configuration after the import (the bandoracle state loss is reported as its own finding). Many genesis gaps need new protobuf fields and are recorded as open findings, see known_findings.json.",
   design="§4 C20"),
 "C12": dict(
   level="exploration",
   technique="paired execution with a positive control on reachable states (real signed txs): non-owner and forged-sender attempts must fail with an identical full-state dump, then the owner succeeds on the same state; reflection over the custom contract message union x chain id x sender",
   text="For vault (deposit/withdraw/draw/repay/deposit-and-draw/close), locker (deposit/withdraw/close), limit-bid (withdraw/cancel) positions reached by the mixed workload, 3 non-owners attempt each message both as themselves and with the owner forged as sender; every attempt must return a non-zero code and leave the hash of every store (except the two the ante handler writes: account sequences, wasm tx counter) unchanged; then the owner's identical message must succeed (123 live controls per quick run). Kill switch: non-admin vs admin. Custom messages: all 20 variants (enumerated by reflection) dispatched through the real CustomMessenger on chain ids comdex-1 and comdex-test3 from random senders and the other network's contracts (must be rejected, no state change) and from the designated contracts (must pass the sender guard).",
   note="The designated contract addresses are the ones configured in app/wasm/message_plugin.go at this commit (hard-coded in the harness as the specification). Liquidity (orders, farms) and lend positions are covered through c12Extra when their fixtures are linked in.",
   design="§4 C12"),
 "C14": dict(
   level="exploration",
   technique="paired execution with positive control per matrix cell: control ON -> real tx must fail with identical state dump, control OFF -> same message succeeds; shutdown cells and price-dependence detection via the message router on spy-decorated forks; sweep cells over two consecutive real blocks",
   text="Cells: {vault create/deposit/withdraw/draw/deposit-and-draw/repay/close, stable-mint create/deposit, locker create/deposit} x breaker on/off per app (toggled by the real admin kill-switch message); operations whose handler reads an asset's price record (detected by the spy multistore on a fork) x that price inactive/active, incl. liquidate messages of both generations; block with breaker on seizes nothing and opens no auction for the app while the next block with breaker off does; emergency shutdown executed (within / after cool-off) -> draw, deposit-and-draw, create, stable-mint deposit must fail without state change and withdraw must fail after cool-off, decided on forks of the same state.",
   note="Shutdown status is set on the fork through the esm keeper (there is no message that un-executes a shutdown, so on/off cannot be toggled on the real state). Lend cells are added through the lend fixture when linked in.",
   design="§4 C14"),
 "C15": dict(
   level="fault_enumeration",
   technique="fault injection by a harness-side spy multistore: for sampled blocks every (wrapped step, k-th KV operation) crash point of the begin/end block hooks is injected on forks of the committed state; plus environment-fault episodes and an always-on panic-escape monitor on real ABCI blocks",
   text="At sampled block boundaries of the mixed CDP workload (pending liquidations, live auctions of both generations, limit bids, lockers) the hooks of all modules are re-run on CacheMultiStore forks under a decorator that sees every ApplyFuncIfNoError branch, its KV operations and its Write(); a panic is injected before the k-th operation of step s for every s and k (exhaustive per explored block). Oracle: the hook returns normally, the failed step's branch is never written, no write of it reaches an enclosing context, and the resulting state is identical to the run faulted at k=1 (so nothing of the step is visible and the remaining units were processed identically). The recording run is validated against the real BeginBlock. Environment faults (inactive/absent/zero prices, drained module accounts, deleted auction params, changed whitelisting, vault counter != list length, market crash with long gaps) are applied to reachable states before real blocks; an escaping panic or a half-applied seizure is a violation.",
   note="Injected faults are panics at store accesses of steps opened by types.ApplyFuncIfNoError (recognised by the caller frame of Context.CacheContext); unwrapped code is only exposed to the environment faults. Exhaustive per explored block, not over all reachable blocks. Generation-1 liquidation/auction hooks are not wired into the module manager and are not explored.",
   design="§4 C15"),
 "C18": dict(
   level="exploration",
   technique="metamorphic runtime monitoring of the real accrual and rate functions (relations between outputs on related inputs) plus an independent 320-bit big.Float reference; in-situ twin positions with split vs merged interest calculation",
   text="Full grid (14 principals to 2^63-1, 20 rates in [0,10] incl. 1e-18 steps, 21 times 0..30y incl. adjacent pairs) plus 60k random points per shard for CalculationOfRewards (vault stability fee and locker savings), CalculateLendReward, CalculateBorrowInterest, CalculateStableInterest: non-negative, zero at t=0, monotone in t/P/r, sub-additive within the derived last-place tolerance, reference value; borrow/lend APR curves over 14k parameter sets and 497k utilisation points: monotone, base at U=0, continuous at the kink, lend <= borrow; twin vaults/borrows/lends with split vs merged calculation on stored records.",
   note="Principals above int64 are excluded per the quantifier. Locker savings in situ are covered through the shared CalculationOfRewards only.",
   design="§4 C18"),
 "C04": dict(
   level="exploration",
   technique="runtime invariant monitor at quiescent points (after every tx, after EndBlock+Commit, after BeginBlock) over a seeded hostile liquidity workload of real signed transactions on 3 apps x 4 pairs",
   text="All 15 liquidity message kinds (pairs, basic/ranged pools, deposits, withdrawals, limit/market/MM orders, cancels, farm/unfarm and combinations), amounts tiny to whole balance, crossing prices, lifespans to max+1, block gaps 5 s..13 h, drained pools; after every step: global escrow >= pending deposit + withdraw coins, each pair escrow >= remaining offer coins of live orders, module account == active+queued farmed pool coins per pool, zero-supply pools disabled, pool-coin supply changes == executed deposits/withdrawals of that pool.",
   note="Sums are recomputed by the harness from request/order/farmer records read through the keeper.",
   design="§4 C04"),
 "C07": dict(
   level="exploration",
   technique="runtime per-order ledger monitor: exact per-step balance accounting of dedicated orderer accounts and swap-fee collectors, pair-escrow equality, cancel / MM-cancel implications, over the shared liquidity workload with every (app id, pair id) combination where the two differ",
   text="5 orderer accounts do nothing but orders, so their balances are explained exactly: placement takes offer + floor(offer*rate), fills follow received-coin deltas, termination returns remaining + reserve - floor(executed*rate); pair escrow == sum over live orders; an owner cancel of an earlier-batch order must succeed; after MM cancel/replace no earlier MM order of that owner in that pair is live; a tx only terminates its signer's orders. Swap fee rates {0,0.003,0.05}, all order types and endings (completed, expired, cancelled, cancel-all, MM replace).",
   note="Market-making orders carry no swap-fee reserve in the code; modelled as intended (the statement is silent). The swap fee rate is constant per run.",
   design="§4 C07"),
 "C09": dict(
   level="exploration",
   technique="runtime monitor on seizure events (exact ratio with interval slack decides safety) + per-vault bounded-progress counter advanced every block (liveness restated as: seized within 2*ceil(L/batch)+2 sweeps) + hand-over coin/auction-count checks",
   text="Vault populations on a generation-1 app (liquidate messages) and a generation-2 app (per-block sweep, batch size {1,2,5,200}, plus messages), oracle price drops/crashes/recoveries, other vaults opened and closed between sweeps. Every seizure: collateral value / total debt (recorded post-accrual debt) must be below the liquidation ratio beyond rounding; every block: a clearly unsafe, eligible vault may survive at most the bounded number of sweeps; seizure moves exactly the recorded collateral into auction custody and opens exactly one auction.",
   note="Vault side only in this check (borrow liquidations are exercised by the lend workload of C08). The generation-1 sweep is not wired into the module manager at this commit (x/liquidation/module.go BeginBlock is commented out), so liveness is decided for generation-2-enabled apps and generation-1 seizures come from messages. Unbounded 'eventually' is out of reach of a finite run and is restated as the bounded-progress law.",
   design="§4 C09"),
 "C10": dict(
   level="exploration",
   technique="runtime conservation monitor: custody identity of both auction module accounts after every event (records account for every coin), cumulative and per-bid exchange-rate oracle on observed balance deltas, posted-price trace checks",
   text="Liquidation workload with 8 bidders (tiny/partial/exact/oversized bids, bids across price updates and restarts, limit bids auto-filled). After every tx and block: custody == remaining collateral + collected debt of live Dutch auctions + standing English bids + limit-bid deposits + booked fees (+ parked surplus lots, unsolicited coins); per bid: cumulative paid <= target, cumulative collateral <= seized, received <= (paid+bonus) buys at the posted price + one unit of each coin; posted price non-increasing between restarts, within [end, start], start <= oracle*premium.",
   note="Generation-1 Dutch auctions exist only through liquidate messages and their price is never updated (x/auction BeginBlock is not wired at this commit). Bids by the auction's keeper/owner are excluded from the per-bid price law because incentive/remainder land on the same account.",
   design="§4 C10"),
 "C11": dict(
   level="exploration",
   technique="runtime monitor on English-style bids (improvement, same-tx refund, custody delta, single winner, losers' net flow zero) and a per-depositor limit-bid ledger with attacker-chosen amount/denom in withdraw messages",
   text="Surplus and debt auctions of generation 2 are opened by the real begin blocker from collector net fees; bidders place equal / barely improving / non-improving / large bids; at the end exactly the standing bidder receives the lot and every other participant's net flow is zero. Limit bids: withdraw/cancel pay only the deposited asset, at most the caller's own outstanding deposit less the stated fee; recorded total == sum of deposits; custody >= deposits. Hostile withdrawals: deposit+1, 1000x, whole custody, other denom held by the module.",
   note="Generation-1 surplus/debt auctions can only be started by the generation-1 auction begin blocker, which is not wired at this commit; they are out of reach of real blocks.",
   design="§4 C11"),
 "C06": dict(
   level="exploration",
   technique="runtime monitoring of the real amm.Deposit / Withdraw / CreateRangedPool / Price on an exhaustively enumerated small domain plus wide seeded inputs to 10^40, exact big.Int/big.Rat oracles; in-situ checks on reserve balances and pool-coin supply around executed requests",
   text="Exhaustive domain (all reserves/shares/offers <= 8 quick, <= 12 thorough, also scaled by 10^9..10^30, fees {0,0.003,0.5}) and ~1M random cases per quick run: deposit takes <= offered, reserves per share never fall by more than 10^-17 relative, withdrawal <= pro-rata*(1-fee), last shares return whole reserves, ranged pool price within [min,max] over grid and random (min,max,initial) triples incl. one-sided pools; the same laws on bank balances around keeper ExecuteDepositRequest/ExecuteWithdrawRequest.",
   note="The share-rate clause is decided in the statement's own tolerance form (reserve per share does not fall by more than 1e-17 relative). Division-by-zero panics of pool constructors on extreme admissible triples are counted, not judged (the statement does not forbid them).",
   design="§4 C06"),
 "C19": dict(
   level="exploration",
   technique="runtime monitoring: exhaustive enumeration of the real epoch-split function for n<=64 plus in-situ monitors on gauges / farmers / custody after every block of a seeded farming workload (exact big.Rat share oracle)",
   text="(1) SplitTotalAmountPerEpoch on all n<=64, d in [n,n+200] and random pairs to 2^64: n entries summing to d. (2) Real pairs/pools/gauges (plain and master/child) created by transactions, 1-12 farmers, price regimes incl. huge farmed values, block gaps to 25 days with skipped epochs; every block: paid <= allocation of the epochs that ran, cumulative <= deposit, each farmer's payout <= share*allocation*(1+1e-12)+1, rewards custody >= remaining of active gauges + programmes.",
   note="Share check only for asset decimals that are powers of ten and basic pools; swap fees fed by sends to the fee collector address; only the locker external-reward programme is exercised.",
   design="§4 C19"),
 "C05": dict(
   level="exploration",
   technique="runtime monitoring of the real matching engine on generated crossing order books with fill-counting orders (observed fills), exact big.Int/big.Rat conservation and limit oracles; in-situ balance laws around ExecuteRequests",
   text="About 24k generated books per quick run (0-40 orders per side on 1-6 adjacent ticks, amounts 1..10^30, tick precision 1-4, with/without last price, basic and ranged pool orders from the real PoolOrders) go through FindMatchPrice / MatchAtSinglePrice / Match; the harness's own amm.Order implementation counts individual fills; base conservation, quote dust in [0, #fills), per-order offer/amount/limit-price bounds and strictly positive receipts are decided exactly. A second part places real orders by transactions and checks balance-level laws around batch execution.",
   note="Per-fill tolerances are checked in the pure part only; in situ only balance-level laws (individual fills are not observable there). Buy orders whose offer coin is below price*amount are unreachable through message validation and not generated.",
   design="§4 C05"),
 "C01": dict(
   level="exploration",
   technique="runtime invariant monitor at quiescent points (after every delivered tx and every block) over a seeded hostile CDP workload; shadow set of vaults awaiting auction settlement",
   text="Real signed vault / stable-mint / locker / liquidate / bid transactions and real ABCI blocks (time gaps, oracle price moves, generation-1 and generation-2 liquidations and auctions) are driven on several fee configurations; after every event custody-per-collateral-denom, vault count and per-product collateral-locked / tokens-minted identities are recomputed from the records with big.Int and compared; a violation is attributed to the event in which the discrepancy changed. Held on what was observed.",
   note="Trusts: keeper getters used for reading, the observed awaiting-settlement set (seizure = vault vanishes and a locked vault naming it appears). Generation-1 sweeps are not wired into the module manager at this commit, so generation-1 seizures come from liquidate messages only.",
   design="§4 C01"),
 "C02": dict(
   level="exploration",
   technique="runtime monitor: supply vs recorded principal after every event + per-message balance-delta oracle (big.Int), over fee configurations and decimal-scale pairs",
   text="The harness never mints a debt denom, so supply <= recorded principal (== in histories without liquidation) is checked exactly after every tx and block; every successful mint / repay / close / stable-mint message is checked for supply delta = principal delta, collector delta = floor(principal*fee), user delta = principal - fee. Held on what was observed.",
   note="Interest and closing fees are not part of the principal sum (they are paid out of existing supply).",
   design="§4 C02"),
 "C03": dict(
   level="exploration",
   technique="boundary-directed runtime monitoring: amounts solved with exact rationals to land on the minimum ratio / floor / ceiling, boundary-1/boundary/boundary+1 attempted, exact CR with interval slack as oracle",
   text="For generated (product, oracle prices from 1 to 2^40, decimals 6/8/12/18, debt size, 0..3 interest accruals over up to 5 years) the collateral amount that makes the exact ratio equal the product minimum is solved and create/withdraw/draw are attempted around it; on success the exact ratio (principal + accrued interest) must be >= minimum within the slack of the three Dec roundings; principal >= floor for touched vaults; sum of principal <= ceiling after mints; operations needing an inactive price must fail.",
   note="Debt value is read as principal + accrued interest (the code also adds the closing fee for draw/withdraw, which is stricter).",
   design="§4 C03"),
 "C13": dict(
   level="exploration",
   technique="runtime invariant monitor on locker and collector books after every event + conservation oracle (net-fee delta = collector coin delta)",
   text="Mixed CDP workload with lockers, savings rates {0,0.1,0.3}, fee-generating vault operations, liquidation penalties and surplus/debt flags; after every event: deposited total = sum of locker balances, locker custody >= deposits, withdraw/close pay exactly requested/full balance, collector custody >= sum of net fees, net fees never negative, and the change of recorded net fees equals the change of collector custody (minus unsolicited sends).",
   note="Net-fee records are read per (app, asset) with the single-record getter for every asset of the universe.",
   design="§4 C13"),
 "C17": dict(
   level="exploration",
   technique="runtime monitor: reference ring model compared with the real price record after every sample (exhaustive short sample sequences + real begin-block oracle pipeline)",
   text="Every sample sequence up to a length bound over a 5-letter alphabet (small, equal, 2^64-1, 2^63, zero) for window sizes {1,2,3,5,8,20} and several accepted-gap settings is fed to the real UpdatePriceList and, in a second workload, through the real bandoracle->market begin blockers of ABCI blocks; after every sample a reference ring (math/big) decides activity, mean, zero-sample deactivation and consumer errors. Held-on-what-was-observed, exhaustive within the stated bounds.",
   note="Trusts the reference ring (mon/ring.go, 40 lines) and the harness model of the feed protocol (fresh/stale request ids). Window size is fixed per sequence as the statement says.",
   design="§4 C17"),
}

NOT_YET = {}

# sentences appended to the level text of checks that grew after their first registration (see DESIGN.md §9/§10)
ADDENDA = {
 "C01": " In every second run the whole emergency shutdown of one app is driven with real messages and blocks (governance-token deposits, execute, price snapshot, cool-off traffic, redemption of vaults / stable-mint vaults / collector, collateral redemption by debt holders) and app-reserve top-ups occur.",
 "C02": " Debt registered for emergency redemption (esm AssetToAmount, debt side) is part of the principal sum; every second run ends with a complete emergency shutdown of one app; app-reserve top-ups occur in the liquidation runs.",
 "C04": " The workload includes same-tick order crowds with partial counter-fills and a stray foreign coin sent to a pool's reserve account before its last provider leaves.",
 "C05": " After every in-situ batch the stored order records are asserted as well (never filled beyond the amount, over the order's whole life), and resting-order scenarios (a long-lived buy order filled partly at a better price, then more sell liquidity than it has left, batch after batch) are run.",
 "C09": " Per-asset slow ramps (one volatile asset falls 1.5 % per block while the other rests), forced inter-pool borrows through the first and the second transit asset, tail probes (a fresh vault / borrow at the end of the list turns unsafe while the population rests, for list lengths covering every residue modulo the batch size) and a final crash with a quiet period complete the random phase.",
 "C10": " The app reserve is funded (small and large amounts) so that collateral-shortage closings occur; limit bids are aimed at the discount bucket a live auction is about to enter so that automatic fills (whole and partial deposits, several bidders per bucket) happen; one run in three ends with an emergency shutdown while auctions are running (hand-back of unsold collateral).",
 "C11": " Automatic fills of aimed limit bids are observed in blocks; in every block no user wallet may be debited; app-reserve top-ups make shortage closings reachable.",
 "C12": " Amounts a hostile sender solves from public state are used as well (exactly the available balance of a lend position, whole collateral, whole debt, whole locker balance, whole limit-bid deposit), and for contract messages every address field of the body is additionally set to each designated contract's address.",
 "C14": " Further cells: lend withdraw (small / exactly-available); shutdown cells after the esm begin blocker has taken its price snapshot; on an unsafe vault the liquidate message (on a fork) and the sweep (real block) with exactly one of the two feeds the auction needs inactive; breaker sweeps on a young chain where an app's first fees (debt auction due) or large fees (surplus auction due) and the admin's kill-switch message share a block, with the breaker-off block as positive control.",
 "C15": " A fourth part runs the CDP workload on the real bandoracle->market feed (per-asset zero-rate outages of 1..6 rounds, band outages, short responses, absurd values, several window sizes / accepted gaps); environment faults include 'positions unsafe while exactly one needed feed is down'; the explored boundaries include the liquidity begin block at a 150th height (swap-fee conversion) and the block in which the emergency-shutdown hooks perform the redemption.",
 "C16": " Four tapes per workload: CDP (with reserve top-ups, aimed limit bids, legacy governance proposals passing the app's ante decorators and a complete emergency shutdown), liquidity, liquidity crowds (several same-tick orders of very different sizes, partial counter-fill, every block) and lend.",
 "C18": " Savings credited by real locker messages (top-up, withdrawal, reward calculation) inside the CDP workload are compared with the 320-bit accrual of the balance held before the message over the time since the locker's last stamp (zero at zero elapsed time).",
 "C19": " Governance switches the denomination swap fees are distributed in while swap-fee gauges hold undistributed remainders.",
 "C20": " Kill-switch records exist at export time (one app switched on and off, the other left on in half of the rounds) and the continuation contains registry (MsgAddAsset with a used name / a used denom / a new asset) and control messages; app-reserve top-ups are part of the 'everything' feature set.",
}

# second half of the build (clause audit, builder sub-agents, third wave of seeded changes)
ADDENDA2 = {
 "C01": " Governance changes fees / minimum ratio / penalty of products while vaults are open; the shutdown picks the app with the most partly paid running auctions, so that hand-backs of partly paid auctions are observed. Vault messages occasionally name another product of the same app (valid but hostile).",
 "C02": " In blocks that hand a seized vault back during a shutdown, supply minus recorded principal may not grow (what the hand-back takes off the books is covered by what it burns), whatever slack earlier events left; governance parameter changes occur mid-run.",
 "C03": " Fixed (non-oracle) debt prices away from par, an inactive debt-asset feed, creation under an inactive price and larger position sizes are part of the workload. Stable-mint products: after a successful create / deposit the principal on the product's stable-mint vaults does not exceed the ceiling in force; governance sets the ceiling 1000 tokens above what is outstanding, then mint / redeem (fee part stays in circulation) / mints around the room left.",
 "C05": " All order kinds (limit, market, market-making batches) take part in the in-situ batches.",
 "C06": " A liquidity world (deposits, withdrawals, farming, orders over real blocks) is monitored as well: shares minted in an end block must be matched by the deposit offered. The world workload includes withdraw messages that offer another pool's coin.",
 "C07": " Governance changes the pair's swap-fee rate while orders rest; violations that need such a change carry their own labels (open finding).",
 "C08": " Liquidation runs end with a generation-1 phase (seizure by MsgLiquidateBorrow at deep and at just-above-threshold ratios, MsgPlaceDutchLendBid, reserve funding); in every second universe the lend app has id 3 as on the production chain, which makes the reserve-funding handler's settlement of generation-1 auctions reachable: its simple case is aimed at and must keep the books, the other cases are classified (open finding). Books are asserted after every settling bid, after mid-run fund / rate-parameter changes and after generation-1 second rounds.",
 "C09": " Liquidate messages of both generations for vaults and borrows (safe, unsafe, exactly at the threshold by exact rational prices: nothing may be seized), hand-over laws for seized borrows (custody delta equals recorded collateral, exactly one auction, lend position reduced), every open borrow must be on the list the sweep walks (with a scenario in which a seizure closes lend position n while another borrow carries number n), and price-outage starvation probes (a position the sweep cannot handle must not starve the ones behind it).",
 "C10": " A close-out ledger per ending generation-2 auction (burn, collector, keeper incentive, initiator, owner remainder, nobody else), price / deposit / collateral laws for automatic limit-bid fills, externally initiated auctions, fixture variants for bonus / penalty / incentive / auction flags; generation-1 lend auctions are also closed while the oracle keeps moving against the borrower (second round opened by the closing bid) and custody must be empty whenever no auction is live.",
 "C11": " Bidder ledgers cover externally initiated auctions and generation-1 lend bids. English surplus bids are also sent in a foreign denomination (first bid and outbid).",
 "C12": " All 71 registered message types are enumerated from the interface registry and classified (owner-gated, donation, admin, open); a type without class or without a driven case fails the run's floor. Cancel-all by a non-owner is sent without a pair list, naming the owner's pair and naming every pair.",
 "C13": " Booked fees are attributed per app (a message of app A may not change app B's books); governance changes the locker saving rate mid-run and one run in three ends with an emergency shutdown.",
 "C14": " Lend cells (borrow-open kinds, borrow-alternate, sweeps and liquidate messages of both generations under the breaker and with one feed down) and the generation-1 liquidate message naming its own / another listed / an unlisted app id under the breaker. Cells with both controls on (breaker and executed shutdown; inside / after the cool-off, before / after the price snapshot): what the breaker refuses stays refused.",
 "C15": " Environment faults also run on the lend and liquidity universes; a rewards universe (gauges incl. a deposit above 2^64, reward programmes, epoch blocks) and a lend day-boundary scenario (chain started at height 14388, a depreciated pool, the 14400th and 28800th blocks explored) are part of the exploration. A scenario seizes several vaults of one product in one sweep and matches one limit bid against all their auctions in one explored block; for every injected unit failure the wrapped steps enclosing the unit must still commit (the other units' work is kept).",
 "C16": " Further tapes: rewards gauges, reward programmes and the real oracle feed. In the lend tape governance adds a third and a fourth pool (cross-pool pairs get their ids then).",
 "C18": " Locker settlement is also checked when governance changes the saving rate between two interactions. The utilisation the chain derives its rates from must equal debt/(cash+debt) of the driven pool state; the rate laws are judged for every driven state whatever utilisation is reported.",
 "C19": " Locker, vault and lend reward programmes run next to gauges in one rewards account: per-programme payout never exceeds what the programme still has, per-recipient share bounds, custody of the rewards account after every begin block. No programme ever pays more than its own undistributed remainder.",
 "C20": " Generic round trips run on the lend, lend-with-liquidations, rewards and liquidity universes with every registered query method; records a reported gap loses are copied to the imported chain by the harness so that the continuation still decides everything else; restored lend id counters may never be below a live position id. Which app keeps its breaker on at export alternates between the lower and the higher app id.",
 "C04": " Hostile withdraw messages name one pool and offer another pool's coin (same app, other app with the same pool number, the named pool's whole supply).",
}

def main():
    checks = []
    for pid in ALL:
        if pid not in CHECKS:
            continue
        c = CHECKS[pid]
        checks.append({
            "property_id": pid,
            "quick_cmd": "./check %s quick" % pid,
            "thorough_cmd": "./check %s thorough" % pid,
            "evidence_file": "/verif/evidence/%s.json" % pid,
            "replay_cmd_template": "./check %s quick --replay {path}" % pid,
            "engine": "harness",
            "level_claimed": {"category": c["level"], "text": c["text"] + ADDENDA.get(pid, "") + ADDENDA2.get(pid, ""), "design_ref": c["design"]},
            "level_note": c["note"],
            "technique": c["technique"],
        })
    na = [{"property_id": p, "reason": NOT_YET.get(p, "check not built yet in this round (planned, see DESIGN.md §4); no claim is made")} for p in ALL if p not in CHECKS]
    m = {
        "version": 1,
        "setup_cmd": "./build.sh 1",
        "hooks": {
            "guard": "verif",
            "enable": "go test -tags verif (the harness is always built with -tags verif; no guarded source exists in /repo today)",
            "baseline_off_cmd": "cd /repo && GOFLAGS=-mod=mod go test -json -vet=off -count=1 -timeout 25m ./...",
            "source_commits": [],
            "add_only": True,
        },
        "engines": [{"name": "harness", "path": "/verif/harness", "serves_properties": [c["property_id"] for c in checks],
                     "kind_free_text": "Go test binary linked against /repo's working tree (replace directive); real app instances, signed txs via DeliverTx, real ABCI blocks; monitors + reference models in math/big; one child process per shard; evidence merged by harness/ev/cmd/merge"}],
        "checks": checks,
        "notes": "Technique family: runtime monitoring. ./check <ID> <tier> rebuilds the harness from /repo's working tree on every call. Exit 0 held, 1 violation (VIOLATION line), 2 inconclusive. known_findings.json is matched by label.",
        "not_applicable": na,
    }
    with open(os.path.join(HERE, "MANIFEST.json"), "w") as f:
        json.dump(m, f, indent=1)
        f.write("\n")
    try:
        import jsonschema
        jsonschema.validate(m, json.load(open("/root/.vp/MANIFEST.schema.json")))
        print("MANIFEST.json valid;", len(checks), "checks,", len(na), "not claimed")
    except ImportError:
        print("jsonschema not importable; wrote MANIFEST.json unvalidated")

main()
