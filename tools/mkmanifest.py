#!/usr/bin/env python3
"""Regenerates /verif/MANIFEST.json from the table below (kept here so the file is always schema-valid)."""
import json, os, sys
HERE = os.path.dirname(os.path.dirname(os.path.abspath(__file__)))
ALL = ["C%02d" % i for i in range(1, 21)]

CHECKS = {
 "C17": dict(
   level="exploration",
   technique="runtime monitor: reference ring model compared with the real price record after every sample (exhaustive short sample sequences + real begin-block oracle pipeline)",
   text="Every sample sequence up to a length bound over a 5-letter alphabet (small, equal, 2^64-1, 2^63, zero) for window sizes {1,2,3,5,8,20} and several accepted-gap settings is fed to the real UpdatePriceList and, in a second workload, through the real bandoracle->market begin blockers of ABCI blocks; after every sample a reference ring (math/big) decides activity, mean, zero-sample deactivation and consumer errors. Held-on-what-was-observed, exhaustive within the stated bounds.",
   note="Trusts the reference ring (mon/ring.go, 40 lines) and the harness model of the feed protocol (fresh/stale request ids). Window size is fixed per sequence as the statement says.",
   design="§4 C17"),
}

NOT_YET = {}

def main():
    checks = []
    for pid in ALL:
        if pid not in CHECKS:
            continue
        c = CHECKS[pid]
        checks.append({
            "property_id": pid,
            "quick_cmd": "./check %s quick" % pid,
            "thorough_cmd": "./check %s thorough" % pid,
            "evidence_file": "/verif/evidence/%s.json" % pid,
            "replay_cmd_template": "./check %s quick --replay {path}" % pid,
            "engine": "harness",
            "level_claimed": {"category": c["level"], "text": c["text"], "design_ref": c["design"]},
            "level_note": c["note"],
            "technique": c["technique"],
        })
    na = [{"property_id": p, "reason": NOT_YET.get(p, "check not built yet in this round (planned, see DESIGN.md §4); no claim is made")} for p in ALL if p not in CHECKS]
    m = {
        "version": 1,
        "setup_cmd": "./build.sh 1",
        "hooks": {
            "guard": "verif",
            "enable": "go test -tags verif (the harness is always built with -tags verif; no guarded source exists in /repo today)",
            "baseline_off_cmd": "cd /repo && GOFLAGS=-mod=mod go test -json -vet=off -count=1 -timeout 25m ./...",
            "source_commits": [],
            "add_only": True,
        },
        "engines": [{"name": "harness", "path": "/verif/harness", "serves_properties": [c["property_id"] for c in checks],
                     "kind_free_text": "Go test binary linked against /repo's working tree (replace directive); real app instances, signed txs via DeliverTx, real ABCI blocks; monitors + reference models in math/big; one child process per shard; evidence merged by harness/ev/cmd/merge"}],
        "checks": checks,
        "notes": "Technique family: runtime monitoring. ./check <ID> <tier> rebuilds the harness from /repo's working tree on every call. Exit 0 held, 1 violation (VIOLATION line), 2 inconclusive. known_findings.json is matched by label.",
        "not_applicable": na,
    }
    with open(os.path.join(HERE, "MANIFEST.json"), "w") as f:
        json.dump(m, f, indent=1)
        f.write("\n")
    try:
        import jsonschema
        jsonschema.validate(m, json.load(open("/root/.vp/MANIFEST.schema.json")))
        print("MANIFEST.json valid;", len(checks), "checks,", len(na), "not claimed")
    except ImportError:
        print("jsonschema not importable; wrote MANIFEST.json unvalidated")

main()
