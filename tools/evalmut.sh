#!/usr/bin/env bash
# tools/evalmut.sh <ID> <A|B> <lane> [extra check ids...]
# Confirms a seeded change (builds, demo fails with / passes without, full suite passes with it)
# and runs the property's quick check against the changed worktree. Writes /tmp/seeded/results/<ID>-<VAR>.json
set -u
ID=$1; VAR=$2; LANE=${3:-0}; shift 3 || true
EXTRA="$@"
export GOFLAGS=-mod=mod GOPROXY=off GOSUMDB=off GOTOOLCHAIN=local
WT=/tmp/wtm-$ID; S=/tmp/seeded/$ID/$VAR; OUT=/tmp/seeded/results; mkdir -p $OUT
LV=/tmp/verif-lane-$ID-$VAR
R=$OUT/$ID-$VAR
log() { echo "[$ID-$VAR] $*" >> $R.log; }
: > $R.log
git -C $WT checkout -q -- . ; git -C $WT clean -fdq; git -C $WT checkout -q --detach $(git -C /repo rev-parse HEAD)
if ! git -C $WT apply --check $S/patch.diff 2>>$R.log; then echo "{\"id\":\"$ID\",\"var\":\"$VAR\",\"status\":\"patch-does-not-apply\"}" > $R.json; exit 0; fi
# demo placement (tools/placedemo.py reads demo_path.txt: "file -> path" lines, "file:/place:" pairs, or a single path)
PD="python3 /verif/tools/placedemo.py $S $WT"
DDIRS=$($PD dirs)
demo_clean=unknown; demo_mut=unknown
if [ -n "$DDIRS" ]; then
  $PD place
  if (cd $WT && go test -vet=off -count=1 $DDIRS >>$R.log 2>&1); then demo_clean=pass; else demo_clean=FAIL; fi
fi
git -C $WT apply $S/patch.diff
[ -n "$DDIRS" ] && $PD place
build=ok; (cd $WT && go build ./... >>$R.log 2>&1) || build=FAIL
if [ -n "$DDIRS" ]; then
  if (cd $WT && go test -vet=off -count=1 $DDIRS >>$R.log 2>&1); then demo_mut=pass; else demo_mut=FAIL; fi
  $PD remove
fi
suite=ok
if [ "${SKIP_SUITE:-0}" = 1 ] && [ -s $R.suite ] && grep -q "^ok" $R.suite && ! grep -q "^FAIL" $R.suite; then suite=ok-earlier-run
else (cd $WT && go test -vet=off -count=1 -timeout 25m ./... > $R.suite 2>&1); if grep -q "^FAIL" $R.suite; then suite=FAIL; fi; fi
# the check, from a private copy of /verif
rm -rf $LV; mkdir -p $LV; (cd /verif && tar cf - --exclude=evidence --exclude=.git --exclude=harness/bin . ) | (cd $LV && tar xf -)
mkdir -p $LV/evidence
res=""
for C in $ID $EXTRA; do
  o=$(cd $LV && REPO=$WT VERIF_EVIDENCE_DIR=$LV/evidence ./check $C quick 2>&1); rc=$?
  labs=$(echo "$o" | grep '^VIOLATION' | sed 's/.*label=\([^ ]*\).*/\1/' | sort -u | tr '\n' ' ')
  res="$res{\"check\":\"$C\",\"rc\":$rc,\"labels\":\"$labs\"},"
  echo "$o" | cut -c1-400 >> $R.log
done
git -C $WT checkout -q -- . ; git -C $WT clean -fdq; git -C $WT checkout -q --detach $(git -C /repo rev-parse HEAD)
echo "{\"id\":\"$ID\",\"var\":\"$VAR\",\"build\":\"$build\",\"demo_on_clean\":\"$demo_clean\",\"demo_with_change\":\"$demo_mut\",\"suite_with_change\":\"$suite\",\"checks\":[${res%,}]}" > $R.json
cat $R.json
