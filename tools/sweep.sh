#!/usr/bin/env bash
# tools/sweep.sh <tier> <seed>...   — runs every claimed check (or $SWEEP_IDS) for every seed, prints one line per run
cd "$(dirname "$0")/.."
TIER=${1:-quick}; shift
SEEDS=${@:-0 1 2 7 42 12345}
IDS=${SWEEP_IDS:-$(python3 -c "import json;print(' '.join(c['property_id'] for c in json.load(open('MANIFEST.json'))['checks']))")}
export VERIF_EVIDENCE_DIR=${VERIF_EVIDENCE_DIR:-$(pwd)/evidence-sweep}
mkdir -p "$VERIF_EVIDENCE_DIR"
for s in $SEEDS; do
  for id in $IDS; do
    out=$(VERIF_SEED=$s ./check $id $TIER 2>&1)
    rc=$?
    echo "seed=$s $id rc=$rc $(echo "$out" | grep -c '^VIOLATION') violations $(echo "$out" | grep -c '^KNOWN-FINDING') known | $(echo "$out" | grep '^property=' | cut -c1-160)"
    if [ $rc -ne 0 ]; then echo "$out" | grep -v '^KNOWN-FINDING' | grep -v '^property=' | cut -c1-400 | sed 's/^/    /'; fi
  done
done
