#!/usr/bin/env bash
# build.sh [race]  — (re)generate harness/go.mod from $REPO/go.mod and build the test binary
set -eu
cd "$(dirname "$0")/harness"
REPO=${REPO:-/repo}
export GOFLAGS=-mod=mod GOPROXY=off GOSUMDB=off GOTOOLCHAIN=local
RACE=${1:-0}
(
  flock 9
  sed -e 's#^module .*#module verif#' "$REPO/go.mod" > go.mod.new
  cat >> go.mod.new <<EOT

require github.com/comdex-official/comdex v0.0.0
replace github.com/comdex-official/comdex => $REPO
EOT
  if ! cmp -s go.mod.new go.mod 2>/dev/null; then mv go.mod.new go.mod; else rm go.mod.new; fi
  cmp -s "$REPO/go.sum" go.sum 2>/dev/null || cp "$REPO/go.sum" go.sum
  mkdir -p bin
  go build -o bin/merge ./ev/cmd/merge
  go test -c -tags verif -o bin/props.test ./props
  if [ "$RACE" = "1" ]; then
    go test -c -race -tags verif -o bin/props.race.test ./props
  fi
) 9>/var/lock/verif-build.lock
