// merge folds the shard files of one check run into evidence/<ID>.json,
// applies the known-findings filter and prints the verdict lines.
package main

import (
	"encoding/binary"
	"encoding/json"
	"flag"
	"fmt"
	"os"
	"path/filepath"
	"sort"
	"strings"

	"verif/ev"
)

type known struct {
	Property string `json:"property"`
	Label    string `json:"label"`
	Status   string `json:"status"`
	Commit   string `json:"commit,omitempty"`
	What     string `json:"what"`
}

func main() {
	id := flag.String("id", "", "")
	tier := flag.String("tier", "quick", "")
	seed := flag.Int64("seed", 0, "")
	nsh := flag.Int("nshards", 1, "")
	dir := flag.String("dir", "/verif/evidence", "")
	knownPath := flag.String("known", "/verif/known_findings.json", "")
	wall := flag.Float64("wall", 0, "")
	flag.Parse()

	var kf struct {
		Findings []known `json:"findings"`
	}
	if bz, err := os.ReadFile(*knownPath); err == nil {
		if err := json.Unmarshal(bz, &kf); err != nil {
			fmt.Printf("INCONCLUSIVE property=%s cannot parse %s: %v\n", *id, *knownPath, err)
			os.Exit(2)
		}
	}
	open := map[string]known{}
	for _, k := range kf.Findings {
		if k.Property == *id && k.Status == "open" {
			open[k.Label] = k
		}
	}

	var inconclusive []string
	counters := map[string]int64{}
	floors := map[string]int64{}
	var samples []interface{}
	var assumptions, notes []string
	seenA := map[string]bool{}
	var viol []ev.Violation
	var evals int64
	hashes := map[uint64]struct{}{}
	var sumDistinct int64
	exhaustive := true
	rule, level := "", "exploration"
	extra := map[string]interface{}{}
	for i := 0; i < *nsh; i++ {
		base := filepath.Join(*dir, "shards", fmt.Sprintf("%s.shard%d", *id, i))
		rcb, _ := os.ReadFile(base + ".rc")
		rc := strings.TrimSpace(string(rcb))
		bz, err := os.ReadFile(base + ".json")
		if err != nil && rc == "66" {
			// the race detector ended the shard (GORACE halt_on_error=1 exitcode=66) before any evidence was written
			if out, _ := os.ReadFile(base + ".out"); strings.Contains(string(out), "WARNING: DATA RACE") {
				viol = append(viol, ev.Violation{Label: *id + "/data-race", What: "the Go race detector reported a data race while application instances ran concurrently (shard ended by the detector)", Replay: base + ".out"})
				continue
			}
		}
		if err != nil {
			inconclusive = append(inconclusive, fmt.Sprintf("shard %d wrote no evidence (rc=%s, see %s.out)", i, rc, base))
			continue
		}
		var s ev.Shard
		if err := json.Unmarshal(bz, &s); err != nil {
			inconclusive = append(inconclusive, fmt.Sprintf("shard %d evidence unreadable: %v", i, err))
			continue
		}
		if rc == "66" {
			// the race detector reported a data race (GORACE exitcode=66): shared mutable state between application instances
			viol = append(viol, ev.Violation{Label: *id + "/data-race", What: "the Go race detector reported a data race while application instances ran concurrently", Replay: base + ".out"})
		} else if !s.Done {
			inconclusive = append(inconclusive, fmt.Sprintf("shard %d did not finish (rc=%s, see %s.out)", i, rc, base))
		} else if rc != "0" && rc != "1" {
			inconclusive = append(inconclusive, fmt.Sprintf("shard %d exit status %s (see %s.out)", i, rc, base))
		}
		evals += s.Evaluations
		sumDistinct += s.Distinct
		for k, v := range s.Counters {
			if strings.HasPrefix(k, "max_") {
				if counters[k] < v {
					counters[k] = v
				}
			} else {
				counters[k] += v
			}
		}
		for k, v := range s.Floors {
			floors[k] = v
		}
		for _, x := range s.Samples {
			if len(samples) < 8 {
				samples = append(samples, x)
			}
		}
		for _, a := range s.Assumptions {
			if !seenA[a] {
				seenA[a] = true
				assumptions = append(assumptions, a)
			}
		}
		for _, a := range s.Notes {
			if !seenA["n:"+a] {
				seenA["n:"+a] = true
				notes = append(notes, a)
			}
		}
		viol = append(viol, s.Violations...)
		exhaustive = exhaustive && s.Exhaustive
		rule, level = s.Rule, s.Level
		for k, v := range s.Extra {
			if _, ok := extra[k]; !ok {
				extra[k] = v
			}
		}
		if hb, err := os.ReadFile(base + ".hashes"); err == nil {
			for j := 0; j+8 <= len(hb); j += 8 {
				hashes[binary.LittleEndian.Uint64(hb[j:])] = struct{}{}
			}
		}
	}
	distinct := int64(len(hashes))
	for k, f := range floors {
		if counters[k] < f {
			inconclusive = append(inconclusive, fmt.Sprintf("observation floor not reached: %s=%d < %d", k, counters[k], f))
		}
	}
	if evals == 0 {
		inconclusive = append(inconclusive, "no oracle evaluation happened")
	}

	// verdict lines
	byLabel := map[string][]ev.Violation{}
	var labels []string
	for _, v := range viol {
		if _, ok := byLabel[v.Label]; !ok {
			labels = append(labels, v.Label)
		}
		byLabel[v.Label] = append(byLabel[v.Label], v)
	}
	sort.Strings(labels)
	nviol, nknown := 0, 0
	var knownSeen []string
	for _, l := range labels {
		v := byLabel[l][0]
		if k, ok := open[l]; ok {
			fmt.Printf("KNOWN-FINDING: property=%s %s — %s (witness %s)\n", *id, l, k.What, v.Replay)
			nknown++
			knownSeen = append(knownSeen, l)
			continue
		}
		nviol++
		fmt.Printf("VIOLATION property=%s replay=%s label=%s what=%s\n", *id, v.Replay, l, v.What)
	}

	cov := map[string]interface{}{
		"evaluations":         evals,
		"distinct_nontrivial": distinct,
		"rule":                rule,
		"samples":             samples,
		"counters":            counters,
		"shards":              *nsh,
		"sum_of_per_shard_distinct": sumDistinct,
	}
	if exhaustive {
		cov["exhaustive"] = true
	}
	for k, v := range extra {
		cov[k] = v
	}
	if len(notes) > 0 {
		cov["notes"] = notes
	}
	if len(knownSeen) > 0 {
		cov["known_findings_observed"] = knownSeen
	}
	if len(inconclusive) > 0 {
		cov["inconclusive"] = inconclusive
	}
	if len(samples) == 0 {
		cov["samples"] = []interface{}{"(no sample recorded)"}
	}
	out := map[string]interface{}{
		"property_id": *id, "tier": *tier, "seed": *seed, "level": level,
		"coverage": cov, "assumptions": assumptions, "wall_s": *wall, "violations": nviol,
	}
	if assumptions == nil {
		out["assumptions"] = []string{}
	}
	bz, _ := json.MarshalIndent(out, "", " ")
	_ = os.WriteFile(filepath.Join(*dir, *id+".json"), append(bz, '\n'), 0o644)

	fmt.Printf("property=%s tier=%s seed=%d shards=%d evaluations=%d distinct=%d violations=%d known=%d wall=%.1fs\n", *id, *tier, *seed, *nsh, evals, distinct, nviol, nknown, *wall)
	if nviol > 0 {
		os.Exit(1)
	}
	if len(inconclusive) > 0 {
		for _, s := range inconclusive {
			fmt.Printf("INCONCLUSIVE property=%s %s\n", *id, s)
		}
		os.Exit(2)
	}
	os.Exit(0)
}
