// Package ev collects what the monitors of one shard observed and writes it
// to a shard file; cmd/merge folds shard files into /verif/evidence/<ID>.json.
package ev

import (
	"encoding/binary"
	"encoding/json"
	"fmt"
	"hash/fnv"
	"os"
	"path/filepath"
	"sort"
	"strconv"
	"sync"
	"time"
)

type Violation struct {
	Label  string      `json:"label"`
	What   string      `json:"what"`
	Detail interface{} `json:"detail,omitempty"`
	Replay string      `json:"replay"`
}

type Shard struct {
	Property    string            `json:"property"`
	Shard       int               `json:"shard"`
	NShards     int               `json:"nshards"`
	Seed        int64             `json:"seed"`
	Tier        string            `json:"tier"`
	Evaluations int64             `json:"evaluations"`
	Distinct    int64             `json:"distinct"`
	Rule        string            `json:"rule"`
	Samples     []interface{}     `json:"samples"`
	Counters    map[string]int64  `json:"counters"`
	Floors      map[string]int64  `json:"floors"`
	Assumptions []string          `json:"assumptions"`
	Notes       []string          `json:"notes"`
	Violations  []Violation       `json:"violations"`
	Exhaustive  bool              `json:"exhaustive"`
	Done        bool              `json:"done"`
	WallS       float64           `json:"wall_s"`
	Level       string            `json:"level"`
	Extra       map[string]interface{} `json:"extra,omitempty"`
}

type Rec struct {
	mu       sync.Mutex
	s        Shard
	distinct map[uint64]struct{}
	labels   map[string]int
	nViol    int // every Violate call, kept or suppressed
	start    time.Time
	dir      string
	maxSamples int
	scratch  bool
}

const maxHashes = 4 << 20

func Env(name, def string) string {
	if v := os.Getenv(name); v != "" {
		return v
	}
	return def
}

func EnvInt(name string, def int64) int64 {
	if v := os.Getenv(name); v != "" {
		n, err := strconv.ParseInt(v, 10, 64)
		if err == nil {
			return n
		}
	}
	return def
}

func Tier() string   { return Env("VERIF_TIER", "quick") }
func Thorough() bool { return Tier() == "thorough" }
func Seed() int64    { return EnvInt("VERIF_SEED", 0) }
func ShardNo() int   { return int(EnvInt("VERIF_SHARD", 0)) }
func NShards() int   { return int(EnvInt("VERIF_NSHARDS", 1)) }

// Pick returns q in the quick tier and t in the thorough tier.
func Pick(q, t int) int {
	if Thorough() {
		return t
	}
	return q
}

func New(property, level, rule string) *Rec {
	dir := Env("VERIF_EVIDENCE_DIR", "/verif/evidence")
	_ = os.MkdirAll(filepath.Join(dir, "shards"), 0o755)
	_ = os.MkdirAll(filepath.Join(dir, "replay"), 0o755)
	r := &Rec{distinct: map[uint64]struct{}{}, labels: map[string]int{}, start: time.Now(), dir: dir, maxSamples: 6}
	r.s = Shard{Property: property, Shard: ShardNo(), NShards: NShards(), Seed: Seed(), Tier: Tier(), Rule: rule,
		Counters: map[string]int64{}, Floors: map[string]int64{}, Level: level, Extra: map[string]interface{}{}}
	return r
}

func (r *Rec) Eval(n int64) { r.mu.Lock(); r.s.Evaluations += n; r.mu.Unlock() }

// Distinct records one abstract case; returns true when it was new.
func (r *Rec) Distinct(parts ...interface{}) bool {
	h := fnv.New64a()
	for _, p := range parts {
		fmt.Fprintf(h, "%v|", p)
	}
	k := h.Sum64()
	r.mu.Lock()
	defer r.mu.Unlock()
	if _, ok := r.distinct[k]; ok {
		return false
	}
	if len(r.distinct) < maxHashes {
		r.distinct[k] = struct{}{}
	}
	return true
}

func (r *Rec) Count(name string, n int64) { r.mu.Lock(); r.s.Counters[name] += n; r.mu.Unlock() }
func (r *Rec) Max(name string, n int64) {
	r.mu.Lock()
	if r.s.Counters[name] < n {
		r.s.Counters[name] = n
	}
	r.mu.Unlock()
}
func (r *Rec) Get(name string) int64 { r.mu.Lock(); defer r.mu.Unlock(); return r.s.Counters[name] }

// Floor: the merged counter must reach n over all shards or the run is inconclusive.
func (r *Rec) Floor(name string, n int64) { r.mu.Lock(); r.s.Floors[name] = n; r.mu.Unlock() }
func (r *Rec) Assume(a string)            { r.mu.Lock(); r.s.Assumptions = append(r.s.Assumptions, a); r.mu.Unlock() }
func (r *Rec) Note(a string)              { r.mu.Lock(); r.s.Notes = append(r.s.Notes, a); r.mu.Unlock() }
func (r *Rec) SetExhaustive(b bool)       { r.mu.Lock(); r.s.Exhaustive = b; r.mu.Unlock() }
func (r *Rec) SetExtra(k string, v interface{}) { r.mu.Lock(); r.s.Extra[k] = v; r.mu.Unlock() }

func (r *Rec) Sample(v interface{}) {
	r.mu.Lock()
	if len(r.s.Samples) < r.maxSamples {
		r.s.Samples = append(r.s.Samples, v)
	}
	r.mu.Unlock()
}

// LabelCounts returns how often each violation label was raised so far (suppressed repeats included).
func (r *Rec) LabelCounts() map[string]int {
	r.mu.Lock()
	defer r.mu.Unlock()
	out := make(map[string]int, len(r.labels))
	for k, v := range r.labels {
		out[k] = v
	}
	return out
}

// NViolations counts every reported violation, including those whose witness was not kept because the label already
// had three (callers compare the number before and after a step to learn whether the step found a difference).
func (r *Rec) NViolations() int { r.mu.Lock(); defer r.mu.Unlock(); return r.nViol }

// Violate records a violation under a narrow label. At most 3 witnesses per
// label are kept; each gets a replay file. The shard file is flushed at once.
func (r *Rec) Violate(label, what string, detail interface{}) {
	if r.scratch {
		return
	}
	r.mu.Lock()
	r.nViol++
	r.labels[label]++
	n := r.labels[label]
	if n > 3 {
		r.s.Counters["violations_suppressed_same_label"]++
		r.mu.Unlock()
		return
	}
	path := filepath.Join(r.dir, "replay", fmt.Sprintf("%s-seed%d-shard%d-%d.json", r.s.Property, r.s.Seed, r.s.Shard, len(r.s.Violations)))
	v := Violation{Label: label, What: what, Detail: detail, Replay: path}
	r.s.Violations = append(r.s.Violations, v)
	rp := map[string]interface{}{"property": r.s.Property, "seed": r.s.Seed, "shard": r.s.Shard, "nshards": r.s.NShards, "tier": r.s.Tier, "label": label, "what": what, "detail": detail}
	bz, _ := json.MarshalIndent(rp, "", " ")
	_ = os.WriteFile(path, bz, 0o644)
	r.mu.Unlock()
	fmt.Printf("shard-violation property=%s label=%s what=%s replay=%s\n", r.s.Property, label, what, path)
	r.Flush(false)
}

func (r *Rec) Flush(done bool) {
	if r.scratch {
		return
	}
	r.mu.Lock()
	defer r.mu.Unlock()
	r.s.Done = done
	r.s.Distinct = int64(len(r.distinct))
	r.s.WallS = time.Since(r.start).Seconds()
	base := filepath.Join(r.dir, "shards", fmt.Sprintf("%s.shard%d", r.s.Property, r.s.Shard))
	bz, err := json.MarshalIndent(&r.s, "", " ")
	if err != nil {
		// a sample that cannot be marshalled must not lose the run
		r.s.Samples = []interface{}{fmt.Sprintf("unmarshallable samples: %v", err)}
		bz, _ = json.MarshalIndent(&r.s, "", " ")
	}
	_ = os.WriteFile(base+".json", bz, 0o644)
	if done {
		keys := make([]uint64, 0, len(r.distinct))
		for k := range r.distinct {
			keys = append(keys, k)
		}
		sort.Slice(keys, func(i, j int) bool { return keys[i] < keys[j] })
		buf := make([]byte, 8*len(keys))
		for i, k := range keys {
			binary.LittleEndian.PutUint64(buf[8*i:], k)
		}
		_ = os.WriteFile(base+".hashes", buf, 0o644)
	}
}

// Finish flushes and returns the process exit intent: true if violations.
func (r *Rec) Finish() bool {
	r.Flush(true)
	return r.NViolations() > 0
}

// NewScratch returns a recorder whose content is never written anywhere (used when a
// fixture is only built for replaying, not monitored).
func NewScratch() *Rec {
	r := &Rec{distinct: map[uint64]struct{}{}, labels: map[string]int{}, start: time.Now(), dir: os.TempDir(), maxSamples: 0}
	r.s = Shard{Property: "scratch", Counters: map[string]int64{}, Floors: map[string]int64{}, Extra: map[string]interface{}{}}
	r.scratch = true
	return r
}
