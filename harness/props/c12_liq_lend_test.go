package props

import (
	"sort"
	"testing"

	sdk "github.com/cosmos/cosmos-sdk/types"

	lendtypes "github.com/comdex-official/comdex/x/lend/types"
	liqtypes "github.com/comdex-official/comdex/x/liquidity/types"

	"verif/ev"
	"verif/sim"
)

func init() {
	c12ExtraFns = append(c12ExtraFns, c12Liquidity, c12Lend)
}

func acctOf(c *sim.Chain, addr string) *sim.Acct {
	for _, a := range c.Accts {
		if a.Addr.String() == addr {
			return a
		}
	}
	return nil
}

func othersOf(c *sim.Chain, owner *sim.Acct, n int) []*sim.Acct {
	var o []*sim.Acct
	for _, a := range c.Accts {
		if a != owner && len(o) < n {
			o = append(o, a)
		}
	}
	return o
}

// c12Liquidity: orders, market-making orders and farm positions.
func c12Liquidity(t *testing.T, rec *ev.Rec) {
	v := ev.ShardNo()
	w := liqNewWorld(t, ev.NewScratch(), rng("C12-liq-setup", v), v, nil)
	defer w.c.Close()
	w.rnd = rng("C12-liq", v)
	c := w.c
	keys := storeKeys(c)
	for round := 0; round < ev.Pick(3, 10); round++ {
		for b := 0; b < 6; b++ {
			for k := 2 + w.rnd.Intn(6); k > 0; k-- {
				w.randomOp()
			}
			w.nextBlock(w.blockGap())
		}
		// place fresh long-lived orders so that the owners' controls are live, then let one block pass
		for _, a := range w.orderers {
			w.opLimit(a)
			w.opMM(a)
		}
		w.nextBlock(6e9)
		for _, app := range w.apps {
			orders := w.liveOrders(app)
			sort.Slice(orders, func(i, j int) bool { return orders[i].Id < orders[j].Id })
			seenOwner := map[string]bool{}
			n := 0
			for _, o := range orders {
				pair, found := c.App.LiquidityKeeper.GetPair(c.Ctx(), app, o.PairId)
				if !found || o.BatchId >= pair.CurrentBatchId || n >= 3 {
					continue
				}
				owner := acctOf(c, o.Orderer)
				if owner == nil {
					continue
				}
				n++
				o := o
				runPaired(c, rec, keys, pairedCase{name: "liquidity/cancel-order", owner: owner, mk: func(a *sim.Acct) sdk.Msg {
					return liqtypes.NewMsgCancelOrder(app, a.Addr, o.PairId, o.Id)
				}}, othersOf(c, owner, 3))
				if !seenOwner[o.Orderer] {
					seenOwner[o.Orderer] = true
					// cancel-all / MM cancel are keyed by the sender: a non-owner's message must not touch the owner's orders
					before := len(w.liveOrders(app))
					for _, x := range othersOf(c, owner, 2) {
						// without a pair list, naming the owner's pair, naming every pair of the app
						c.Deliver(x, liqtypes.NewMsgCancelAllOrders(app, x.Addr, nil))
						c.Deliver(x, liqtypes.NewMsgCancelAllOrders(app, x.Addr, []uint64{o.PairId}))
						var all []uint64
						for _, pr := range c.App.LiquidityKeeper.GetAllPairs(c.Ctx(), app) {
							all = append(all, pr.Id)
						}
						c.Deliver(x, liqtypes.NewMsgCancelAllOrders(app, x.Addr, all))
						rec.Count("cancel_all_by_others_naming_the_owners_pair", 1)
						c.Deliver(x, liqtypes.NewMsgCancelMMOrder(app, x.Addr, o.PairId))
					}
					rec.Eval(1)
					stillOwners := 0
					for _, lo := range w.liveOrders(app) {
						if lo.Orderer == o.Orderer {
							stillOwners++
						}
					}
					ownersBefore := 0
					for _, lo := range orders {
						if lo.Orderer == o.Orderer {
							ownersBefore++
						}
					}
					_ = before
					rec.Count("cancel_all_by_others_checked", 1)
					if stillOwners < ownersBefore-1 { // -1: the order cancelled by its owner in the paired case above
						rec.Violate("C12/liquidity/cancel-all-by-non-owner-terminated-owner-orders", "orders of one account were terminated by another account's cancel-all / cancel-MM message", map[string]interface{}{"app": app, "owner": owner.Name, "orders_before": ownersBefore, "orders_after": stillOwners})
					}
				}
			}
		}
		// farm positions
		for _, app := range w.apps {
			for _, pool := range c.App.LiquidityKeeper.GetAllPools(c.Ctx(), app) {
				for _, lp := range w.lps {
					act, q := w.farmed(lp, pool)
					tot := act.Add(q)
					if !tot.IsPositive() {
						continue
					}
					amt := tot.QuoRaw(3).AddRaw(1)
					pool, lp := pool, lp
					runPaired(c, rec, keys, pairedCase{name: "liquidity/unfarm", owner: lp, mk: func(a *sim.Acct) sdk.Msg {
						return liqtypes.NewMsgUnfarm(app, pool.Id, a.Addr, sdk.NewCoin(pool.PoolCoinDenom, amt))
					}}, nonFarmers(w, pool, lp))
					break
				}
			}
		}
	}
}

// nonFarmers: accounts without a farm position in the pool (their unfarm must fail).
func nonFarmers(w *liqWorld, pool liqtypes.Pool, owner *sim.Acct) []*sim.Acct {
	var out []*sim.Acct
	for _, a := range w.c.Accts {
		if a == owner || len(out) >= 3 {
			continue
		}
		act, q := w.farmed(a, pool)
		if act.Add(q).IsZero() {
			out = append(out, a)
		}
	}
	return out
}

// c12Lend: lend and borrow positions named by id.
func c12Lend(t *testing.T, rec *ev.Rec) {
	v := ev.ShardNo()
	e := c08Setup(t, ev.NewScratch(), rng("C12-lend-setup", v), 0, v%3, false)
	defer e.c.Close()
	e.rnd = rng("C12-lend", v)
	c := e.c
	keys := storeKeys(c)
	for round := 0; round < ev.Pick(2, 8) && !e.panicked; round++ {
		for i := 0; i < 250 && !e.panicked; i++ {
			if e.rnd.Intn(100) < 20 {
				e.blockStep()
			} else {
				e.txStep()
			}
		}
		s := e.snap()
		var lids, bids []uint64
		for id := range s.lends {
			lids = append(lids, id)
		}
		for id, b := range s.borrows {
			if !b.IsLiquidated {
				bids = append(bids, id)
			}
		}
		sort.Slice(lids, func(i, j int) bool { return lids[i] < lids[j] })
		sort.Slice(bids, func(i, j int) bool { return bids[i] < bids[j] })
		if len(lids) > 4 {
			lids = lids[:4]
		}
		if len(bids) > 3 {
			bids = bids[:3]
		}
		for li, id := range lids {
			l := s.lends[id]
			owner := acctOf(c, l.Owner)
			if owner == nil {
				continue
			}
			denom := e.u.Assets[l.AssetID].Denom
			small := sdk.NewCoin(denom, sdk.NewInt(1000))
			cases := []pairedCase{
				{name: "lend/deposit", owner: owner, mk: func(a *sim.Acct) sdk.Msg { return lendtypes.NewMsgDeposit(a.Addr.String(), id, small) }},
				{name: "lend/withdraw", owner: owner, mk: func(a *sim.Acct) sdk.Msg { return lendtypes.NewMsgWithdraw(a.Addr.String(), id, small) }},
				// amounts a hostile sender would solve from the public state of the position
				{name: "lend/withdraw/amount-in-plus-1", owner: owner, mk: func(a *sim.Acct) sdk.Msg {
					return lendtypes.NewMsgWithdraw(a.Addr.String(), id, sdk.NewCoin(denom, l.AmountIn.Amount.AddRaw(1)))
				}},
			}
			if li%2 == 0 {
				cases = append(cases, pairedCase{name: "lend/close-lend", owner: owner, mk: func(a *sim.Acct) sdk.Msg { return lendtypes.NewMsgCloseLend(a.Addr.String(), id) }})
			} else {
				cases = append(cases, pairedCase{name: "lend/withdraw/exactly-available", owner: owner, mk: func(a *sim.Acct) sdk.Msg {
					amt := sdk.NewInt(1)
					if cur, found := c.App.LendKeeper.GetLend(c.Ctx(), id); found && !cur.AvailableToBorrow.IsNil() && cur.AvailableToBorrow.IsPositive() {
						amt = cur.AvailableToBorrow
					}
					return lendtypes.NewMsgWithdraw(a.Addr.String(), id, sdk.NewCoin(denom, amt))
				}})
			}
			for _, pc := range cases {
				runPaired(c, rec, keys, pc, othersOf(c, owner, 3))
			}
		}
		for bi, id := range bids {
			b, ok := e.snap().borrows[id]
			if !ok {
				continue
			}
			l, ok := e.snap().lends[b.LendingID]
			if !ok {
				continue
			}
			owner := acctOf(c, l.Owner)
			if owner == nil {
				continue
			}
			one := sdk.NewCoin(b.AmountOut.Denom, sdk.NewInt(1000))
			oneIn := sdk.NewCoin(b.AmountIn.Denom, sdk.NewInt(1000))
			for _, pc := range []pairedCase{
				{name: "lend/repay", owner: owner, mk: func(a *sim.Acct) sdk.Msg { return lendtypes.NewMsgRepay(a.Addr.String(), id, one) }},
				{name: "lend/repay/whole-debt", owner: owner, mk: func(a *sim.Acct) sdk.Msg {
					return lendtypes.NewMsgRepay(a.Addr.String(), id, sdk.NewCoin(b.AmountOut.Denom, b.AmountOut.Amount.Add(b.InterestAccumulated.TruncateInt())))
				}},
				{name: "lend/draw", owner: owner, mk: func(a *sim.Acct) sdk.Msg { return lendtypes.NewMsgDraw(a.Addr.String(), id, one) }},
				{name: "lend/deposit-borrow", owner: owner, mk: func(a *sim.Acct) sdk.Msg { return lendtypes.NewMsgDepositBorrow(a.Addr.String(), id, oneIn) }},
				{name: "lend/borrow-against-foreign-lend", owner: owner, mk: func(a *sim.Acct) sdk.Msg {
					return lendtypes.NewMsgBorrow(a.Addr.String(), b.LendingID, b.PairID, false, oneIn, one)
				}},
			} {
				runPaired(c, rec, keys, pc, othersOf(c, owner, 3))
			}
			// both of these end the position when the owner's control succeeds: one of them per borrow, alternating
			last := pairedCase{name: "lend/repay-withdraw", owner: owner, mk: func(a *sim.Acct) sdk.Msg { return lendtypes.NewMsgRepayWithdraw(a.Addr.String(), id) }}
			if (bi+round)%2 == 0 {
				last = pairedCase{name: "lend/close-borrow", owner: owner, mk: func(a *sim.Acct) sdk.Msg { return lendtypes.NewMsgCloseBorrow(a.Addr.String(), id) }}
			}
			runPaired(c, rec, keys, last, othersOf(c, owner, 3))
		}
	}
}
