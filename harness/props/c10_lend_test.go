package props

import (
	"fmt"
	"math/big"
	"sort"
	"testing"
	"time"

	sdk "github.com/cosmos/cosmos-sdk/types"

	auctiontypes "github.com/comdex-official/comdex/x/auction/types"
	auctionsV2types "github.com/comdex-official/comdex/x/auctionsV2/types"
	lendtypes "github.com/comdex-official/comdex/x/lend/types"
	liqtypes "github.com/comdex-official/comdex/x/liquidation/types"
	liqV2types "github.com/comdex-official/comdex/x/liquidationsV2/types"

	"verif/ev"
	"verif/sim"
)

// lendView builds a cdpU view over a lend universe so that the typed snapshot and the auction monitors can be reused.
func lendView(e *c08Env) *cdpU {
	u := &cdpU{c: e.c, byDenom: map[string]*uAsset{}, byID: map[uint64]*uAsset{}, prodByID: map[uint64]*uProduct{}, cdpApps: []uint64{e.u.App}}
	seen := map[string]bool{}
	for _, a := range e.c.App.AssetKeeper.GetAssets(e.c.Ctx()) {
		ua := &uAsset{ID: a.Id, Name: a.Name, Denom: a.Denom, Dec: a.Decimals.BigInt(), Oracle: a.IsOraclePriceRequired, Mint: a.IsCdpMintable}
		u.assets = append(u.assets, ua)
		u.byDenom[a.Denom] = ua
		u.byID[a.Id] = ua
		if !seen[a.Denom] {
			seen[a.Denom] = true
			u.denoms = append(u.denoms, a.Denom)
		}
	}
	sort.Strings(u.denoms)
	return u
}

var dbgLendBid func(string)

// c10LendRun: Dutch auctions of seized borrows (non-zero auction bonus, proceeds returned to the lending pool).
func c10LendRun(t *testing.T, rec *ev.Rec, run int) {
	variant := ev.ShardNo()*3 + run
	e := c08Setup(t, ev.NewScratch(), rng("C10-lend-setup", variant), run, variant%3, true)
	defer e.c.Close()
	e.rnd = rng("C10-lend", variant)
	c := e.c
	u := lendView(e)
	mon := newC10Mon(u, rec)
	last := u.snap()
	observe := func(ev *cdpEvent) {
		post := u.snap()
		mon.Observe(last, post, ev)
		last = post
	}
	// the app's reserve fund (auctions draw on it when the collateral does not cover the target): large in two
	// variants out of three, small in the third, so that both "covers the shortage" and "cannot cover it" occur
	for _, id := range e.u.Order {
		amt := sdk.NewInt(200_000_000_000)
		if variant%3 == 2 {
			amt = sdk.NewInt(50_000)
		}
		msg := &liqV2types.MsgAppReserveFundsRequest{From: c.Accts[5].Addr.String(), AppId: e.u.App, AssetId: id, TokenQuantity: sdk.NewCoin(e.u.Assets[id].Denom, amt)}
		res := c.Deliver(c.Accts[5], msg)
		observe(&cdpEvent{Kind: "tx", Op: "reserve_fund", Signer: c.Accts[5], Msg: msg, Res: res, Desc: fmt.Sprintf("%s%s", amt, e.u.Assets[id].Denom)})
	}
	startPrice := map[uint64]uint64{}
	for _, id := range e.u.Order {
		startPrice[id], _ = e.u.Price(id)
	}
	steps := ev.Pick(3000, 20000)
	for i := 0; i < steps && !e.panicked; i++ {
		x := e.rnd.Intn(100)
		switch {
		case x < 55:
			e.txStep()
			observe(&cdpEvent{Kind: "tx", Op: "lend-op"})
		case x < 75:
			// price move (observed as its own event, so that the block sees the price the hooks see), then a real block
			if e.rnd.Intn(3) == 0 {
				id := e.u.Order[e.rnd.Intn(len(e.u.Order))]
				p, _ := e.u.Price(id)
				np := p * uint64(70+e.rnd.Intn(50)) / 100
				if np == 0 {
					np = 1
				}
				e.u.SetPrice(id, np, true)
				observe(&cdpEvent{Kind: "env", Op: "price", Desc: fmt.Sprintf("%s %d -> %d", e.u.Assets[id].Denom, p, np)})
			}
			gap := time.Duration(1+e.rnd.Intn(600)) * time.Second
			if e.rnd.Intn(6) == 0 {
				gap = time.Duration(1+e.rnd.Intn(5)) * time.Hour
			}
			c.NextBlock(gap)
			rec.Count("blocks", 1)
			observe(&cdpEvent{Kind: "block", Op: "next", Desc: fmt.Sprintf("h=%d", c.Header.Height)})
		default:
			// a bid on a live auction of a seized borrow
			var live []auctionsV2types.Auction
			for _, a := range last.AucV2 {
				if a.AuctionType {
					live = append(live, a)
				}
			}
			if len(live) == 0 {
				if e.rnd.Intn(3) == 0 { // provoke seizures
					for _, id := range e.u.Order {
						if d := e.u.Assets[id].Denom; d == "uatom" || d == "uosmo" {
							p, _ := e.u.Price(id)
							e.u.SetPrice(id, p*8/10+1, true)
						}
					}
					observe(&cdpEvent{Kind: "env", Op: "price", Desc: "drop"})
				}
				continue
			}
			sort.Slice(live, func(i, j int) bool { return live[i].AuctionId < live[j].AuctionId })
			a := live[e.rnd.Intn(len(live))]
			bidder := c.Accts[e.rnd.Intn(len(c.Accts))]
			rem := a.DebtToken.Amount
			var amt sdk.Int
			switch e.rnd.Intn(6) {
			case 0:
				amt = sdk.NewInt(1)
			case 1:
				amt = rem
			case 2:
				amt = rem.AddRaw(1)
			case 3:
				amt = rem.MulRaw(3)
			default:
				amt = rem.MulRaw(int64(1 + e.rnd.Intn(98))).QuoRaw(100).AddRaw(1)
			}
			msg := &auctionsV2types.MsgPlaceMarketBidRequest{AuctionId: a.AuctionId, Bidder: bidder.Addr.String(), Amount: sdk.NewCoin(a.DebtToken.Denom, amt)}
			res := c.Deliver(bidder, msg)
			rec.Count("op_bid_market_v2_lend_attempted", 1)
			if res.OK() {
				rec.Count("op_bid_market_v2_lend_ok", 1)
			} else {
				rec.Count("lend_bid_rejected: "+c08LogClass(res.Log), 1)
				if dbgLendBid != nil {
					dbgLendBid(res.Log)
				}
			}
			observe(&cdpEvent{Kind: "tx", Op: "bid_market_v2", Signer: bidder, Msg: msg, Res: res, Desc: fmt.Sprintf("auction=%d amt=%s rem=%s", a.AuctionId, amt, rem)})
		}
	}
	for id, p := range startPrice {
		e.u.SetPrice(id, p, true)
	}
	observe(&cdpEvent{Kind: "env", Op: "price", Desc: "prices back at their start values"})
	c.NextBlock(6 * time.Second)
	observe(&cdpEvent{Kind: "block", Op: "next", Desc: fmt.Sprintf("h=%d", c.Header.Height)})
	c10LendGen1Phase(e, rec, ev.Pick(30, 120))
	rec.Floor("auctions_opened_gen1_lend", 3)
	rec.Floor("bids_checked_gen1-lend", 5)
	if run == 0 {
		rec.Sample(map[string]interface{}{"universe": "lend auctions", "variant": variant, "history_tail": e.tail(6)})
	}
}

// c10LendGen1Phase: generation-1 lend Dutch auctions (opened by the liquidate-borrow message of x/liquidation, bid on
// with x/auction MsgPlaceDutchLendBidRequest). The generation-1 begin blockers are not wired at this commit, so the
// posted price of such an auction never moves; what real transactions reach is decided:
//
//	per bid      paid in total <= target, received in total <= what the seizure moved into custody, and the bidder
//	             receives no more than the payment plus the advertised bonus buys at the posted price
//	at the end   with no generation-1 lend auction left, nothing of it remains in generation-1 auction custody
func c10LendGen1Phase(e *c08Env, rec *ev.Rec, rounds int) {
	c := e.c
	m := &c09LendMon{e: e, rec: ev.NewScratch()}
	custody := func() map[string]*big.Int {
		out := map[string]*big.Int{}
		for _, id := range e.u.Order {
			d := e.u.Assets[id].Denom
			out[d] = c.Bal(c.ModAddr(auctiontypes.ModuleName), d).BigInt()
		}
		return out
	}
	type led struct {
		target, seized, paid, recv *big.Int
		coll, debt                 string
	}
	ledgers := map[uint64]*led{}
	seizedSince := map[string]*big.Int{} // collateral taken into custody by the auctions opened since custody was last back at its base
	base := custody()
	if len(e.gen1LendAuctions()) != 0 {
		return
	}
	settle := func(ctxDesc string, l *led) {
		if len(e.gen1LendAuctions()) != 0 {
			return
		}
		rec.Eval(1)
		rec.Count("gen1_lend_custody_checks_with_no_live_auction", 1)
		now := custody()
		for _, id := range e.u.Order {
			d := e.u.Assets[id].Denom
			if now[d].Cmp(base[d]) != 0 {
				// signature of the recorded finding (the bonus share of the unsold part is not returned): the
				// remainder is a small fraction (at most the bonus rate, 5 %) of what the last auction took into custody
				lab := "C10/custody/gen1-lend/remainder-with-no-live-auction"
				if rem, sz := bigSub(now[d], base[d]), seizedSince[d]; rem.Sign() > 0 && sz != nil && sz.Sign() > 0 && new(big.Int).Mul(new(big.Int).Sub(rem, big.NewInt(2)), big.NewInt(100)).Cmp(new(big.Int).Mul(sz, big.NewInt(6))) <= 0 { // two units of rounding
					lab += "/within-bonus-share-of-last-auction"
				}
				rec.Violate(lab, fmt.Sprintf("no generation-1 lend auction is live but the auction module holds %s%s more than before the first one opened", bigSub(now[d], base[d]), d),
					map[string]interface{}{"denom": d, "held": now[d].String(), "held_before": base[d].String(), "after": ctxDesc, "last_auction_moved_into_custody": l.seized.String(), "last_auction_bidders_received": l.recv.String(), "last_auction_bidders_paid": l.paid.String(), "last_auction_target": l.target.String(), "history_tail": e.tail(8)})
				base[d] = now[d] // report each remainder once
			}
		}
		seizedSince = map[string]*big.Int{}
	}
	for round := 0; round < rounds && !e.panicked; round++ {
		// a fresh position close to its bound every other round, so that the phase does not depend on what the
		// long history before it has left
		var b lendtypes.BorrowAsset
		ok := false
		if round%2 == 0 {
			before := c.App.LendKeeper.GetUserBorrowIDCounter(c.Ctx())
			e.force = []string{"same-pool", "inter-pool", "same-pool", "emode"}[(round/2)%4]
			e.txStep()
			if id := c.App.LendKeeper.GetUserBorrowIDCounter(c.Ctx()); id > before {
				b, ok = c.App.LendKeeper.GetBorrow(c.Ctx(), id)
			}
		}
		if !ok {
			b, ok = m.pickBorrow(e.snap(), false)
		}
		if !ok {
			continue
		}
		asset, old := m.moveToRatio(b, int64(1050+e.rnd.Intn(400)))
		if old == 0 {
			continue
		}
		who := c.Accts[e.rnd.Intn(len(c.Accts))]
		before := custody()
		known := map[uint64]bool{}
		for _, a := range e.gen1LendAuctions() {
			known[a.AuctionId] = true
		}
		res, _ := e.deliver(who, &liqtypes.MsgLiquidateBorrowRequest{From: who.Addr.String(), BorrowId: b.ID})
		e.log(fmt.Sprintf("%s sends the generation-1 liquidate message for borrow %d (in=%s out=%s) -> ok=%v", who.Name, b.ID, b.AmountIn, b.AmountOut, res.OK()))
		// in a third of the rounds the oracle does not recover before the auction is closed but moves a little further
		// against the borrower: the position is then still unsafe after the sale and the close starts a second round
		adverse := round%3 == 1
		if adverse {
			pnow, _ := e.u.Price(asset)
			e.u.SetPrice(asset, pnow*uint64(88+e.rnd.Intn(9))/100+1, true)
			e.log(fmt.Sprintf("price %s moves further against the borrower: %d", e.u.Assets[asset].Denom, pnow))
		} else {
			e.u.SetPrice(asset, old, true)
		}
		after := custody()
		for _, a := range e.gen1LendAuctions() {
			if known[a.AuctionId] {
				continue
			}
			d := a.OutflowTokenInitAmount.Denom
			ledgers[a.AuctionId] = &led{target: a.InflowTokenTargetAmount.Amount.BigInt(), seized: bigSub(after[d], before[d]), paid: new(big.Int), recv: new(big.Int), coll: d, debt: a.InflowTokenTargetAmount.Denom}
			if seizedSince[d] == nil {
				seizedSince[d] = new(big.Int)
			}
			seizedSince[d].Add(seizedSince[d], ledgers[a.AuctionId].seized)
			rec.Count("auctions_opened_gen1_lend", 1)
		}
		// bids until the auctions are gone (or nobody can bid any more)
		for k := 0; k < 8; k++ {
			as := e.gen1LendAuctions()
			if len(as) == 0 {
				break
			}
			a := as[e.rnd.Intn(len(as))]
			l := ledgers[a.AuctionId]
			lv, found := c.App.LiquidationKeeper.GetLockedVault(c.Ctx(), a.AppId, a.LockedVaultId)
			var bidder *sim.Acct
			for _, x := range c.Accts {
				if found && x.Addr.String() != lv.Owner && (bidder == nil || e.rnd.Intn(3) == 0) {
					bidder = x
				}
			}
			if l == nil || bidder == nil {
				break
			}
			left := a.OutflowTokenCurrentAmount.Amount
			var amt sdk.Int
			cls := ""
			switch x := e.rnd.Intn(100); {
			case x < 10:
				amt, cls = sdk.NewInt(int64(1+e.rnd.Intn(100))), "tiny"
			case x < 45:
				amt, cls = left, "all-collateral"
			case x < 52:
				amt, cls = left.AddRaw(1), "all-collateral+1"
			default:
				amt, cls = left.MulRaw(int64(1+e.rnd.Intn(98))).QuoRaw(100).AddRaw(1), "partial"
			}
			p0, r0 := c.Bal(bidder.Addr, l.debt), c.Bal(bidder.Addr, l.coll)
			res, _ := e.deliver(bidder, auctiontypes.NewMsgPlaceDutchLendBid(bidder.Addr.String(), a.AuctionId, sdk.NewCoin(l.coll, amt), a.AppId, a.AuctionMappingId))
			desc := fmt.Sprintf("%s bids for %s%s on generation-1 lend auction %d (left %s, raised %s of %s, posted price %s, debt price %s) [%s] -> ok=%v", bidder.Name, amt, l.coll, a.AuctionId, a.OutflowTokenCurrentAmount, a.InflowTokenCurrentAmount, a.InflowTokenTargetAmount, a.OutflowTokenCurrentPrice, a.InflowTokenCurrentPrice, cls, res.OK())
			e.log(desc)
			rec.Count("op_bid_gen1_lend_attempted", 1)
			if !res.OK() {
				rec.Count("gen1_lend_bid_rejected: "+c08LogClass(res.Log), 1)
				continue
			}
			rec.Count("op_bid_gen1_lend_ok", 1)
			paid := bigSub(p0.BigInt(), c.Bal(bidder.Addr, l.debt).BigInt())
			recv := bigSub(c.Bal(bidder.Addr, l.coll).BigInt(), r0.BigInt())
			if l.coll == l.debt {
				continue
			}
			rec.Eval(1)
			rec.Count("bids_checked_gen1-lend", 1)
			l.paid.Add(l.paid, paid)
			l.recv.Add(l.recv, recv)
			w := map[string]interface{}{"bid": desc, "paid": paid.String(), "received": recv.String(), "target": l.target.String(), "moved_into_custody_at_seizure": l.seized.String(), "paid_so_far": l.paid.String(), "received_so_far": l.recv.String(), "history_tail": e.tail(6)}
			if l.paid.Cmp(l.target) > 0 {
				rec.Violate("C10/bid/gen1-lend/bidders-paid-more-than-target", fmt.Sprintf("bidders paid %s in total, target %s", l.paid, l.target), w)
			}
			if l.recv.Cmp(l.seized) > 0 {
				rec.Violate("C10/bid/gen1-lend/bidders-received-more-than-seized", fmt.Sprintf("bidders received %s in total, the seizure moved %s into custody", l.recv, l.seized), w)
			}
			collA, debtA := e.u.ByDenom[l.coll], e.u.ByDenom[l.debt]
			pair, _ := e.pair(lv.ExtendedPairId)
			par, _ := c.App.LendKeeper.GetAssetRatesParams(c.Ctx(), pair.AssetIn)
			if collA != nil && debtA != nil && a.OutflowTokenCurrentPrice.IsPositive() {
				// received <= (paid + 1) * (1 + bonus) * debtPrice/debtDec / postedPrice * collDec + 2
				v := new(big.Rat).SetFrac(bigAdd(paid, big.NewInt(1)), debtA.Decimals)
				v.Mul(v, c08DecRat(a.InflowTokenCurrentPrice))
				v.Quo(v, c08DecRat(a.OutflowTokenCurrentPrice))
				v.Mul(v, new(big.Rat).SetInt(collA.Decimals))
				v.Mul(v, new(big.Rat).Add(big.NewRat(1, 1), c08DecRat(par.LiquidationBonus)))
				v.Add(v, big.NewRat(2, 1))
				if new(big.Rat).SetInt(recv).Cmp(v) > 0 {
					w["bound"] = v.FloatString(3)
					rec.Violate("C10/bid/gen1-lend/received-more-than-paid-plus-bonus-buys-at-posted-price", fmt.Sprintf("received %s, at the posted price the payment plus the bonus buys at most %s", recv, v.FloatString(3)), w)
				}
			}
			still := false
			for _, x := range e.gen1LendAuctions() {
				if x.AuctionId == a.AuctionId {
					still = true
				}
				if ledgers[x.AuctionId] == nil {
					// opened by the closing bid itself: the position was still unsafe after the sale (second round)
					lot := x.OutflowTokenInitAmount.Amount.BigInt()
					sz := bigAdd(bigAdd(lot, floorMulDec(lot, par.LiquidationBonus)), big.NewInt(1))
					d := x.OutflowTokenInitAmount.Denom
					ledgers[x.AuctionId] = &led{target: x.InflowTokenTargetAmount.Amount.BigInt(), seized: sz, paid: new(big.Int), recv: new(big.Int), coll: d, debt: x.InflowTokenTargetAmount.Denom}
					if seizedSince[d] == nil {
						seizedSince[d] = new(big.Int)
					}
					seizedSince[d].Add(seizedSince[d], sz)
					rec.Count("auctions_opened_gen1_lend_second_round", 1)
				}
			}
			if !still {
				rec.Count("auctions_closed_gen1_lend", 1)
				settle(desc, l)
			}
		}
		if adverse {
			e.u.SetPrice(asset, old, true)
		}
		c.NextBlock(6 * time.Second)
	}
}
