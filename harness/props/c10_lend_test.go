package props

import (
	liqV2types "github.com/comdex-official/comdex/x/liquidationsV2/types"
	"fmt"
	"sort"
	"testing"
	"time"

	sdk "github.com/cosmos/cosmos-sdk/types"

	auctionsV2types "github.com/comdex-official/comdex/x/auctionsV2/types"

	"verif/ev"
)

// lendView builds a cdpU view over a lend universe so that the typed snapshot and the auction monitors can be reused.
func lendView(e *c08Env) *cdpU {
	u := &cdpU{c: e.c, byDenom: map[string]*uAsset{}, byID: map[uint64]*uAsset{}, prodByID: map[uint64]*uProduct{}, cdpApps: []uint64{e.u.App}}
	seen := map[string]bool{}
	for _, a := range e.c.App.AssetKeeper.GetAssets(e.c.Ctx()) {
		ua := &uAsset{ID: a.Id, Name: a.Name, Denom: a.Denom, Dec: a.Decimals.BigInt(), Oracle: a.IsOraclePriceRequired, Mint: a.IsCdpMintable}
		u.assets = append(u.assets, ua)
		u.byDenom[a.Denom] = ua
		u.byID[a.Id] = ua
		if !seen[a.Denom] {
			seen[a.Denom] = true
			u.denoms = append(u.denoms, a.Denom)
		}
	}
	sort.Strings(u.denoms)
	return u
}

var dbgLendBid func(string)

// c10LendRun: Dutch auctions of seized borrows (non-zero auction bonus, proceeds returned to the lending pool).
func c10LendRun(t *testing.T, rec *ev.Rec, run int) {
	variant := ev.ShardNo()*3 + run
	e := c08Setup(t, ev.NewScratch(), rng("C10-lend-setup", variant), run, variant%3, true)
	defer e.c.Close()
	e.rnd = rng("C10-lend", variant)
	c := e.c
	u := lendView(e)
	mon := newC10Mon(u, rec)
	last := u.snap()
	observe := func(ev *cdpEvent) {
		post := u.snap()
		mon.Observe(last, post, ev)
		last = post
	}
	// the app's reserve fund (auctions draw on it when the collateral does not cover the target): large in two
	// variants out of three, small in the third, so that both "covers the shortage" and "cannot cover it" occur
	for _, id := range e.u.Order {
		amt := sdk.NewInt(200_000_000_000)
		if variant%3 == 2 {
			amt = sdk.NewInt(50_000)
		}
		msg := &liqV2types.MsgAppReserveFundsRequest{From: c.Accts[5].Addr.String(), AppId: e.u.App, AssetId: id, TokenQuantity: sdk.NewCoin(e.u.Assets[id].Denom, amt)}
		res := c.Deliver(c.Accts[5], msg)
		observe(&cdpEvent{Kind: "tx", Op: "reserve_fund", Signer: c.Accts[5], Msg: msg, Res: res, Desc: fmt.Sprintf("%s%s", amt, e.u.Assets[id].Denom)})
	}
	steps := ev.Pick(3000, 20000)
	for i := 0; i < steps && !e.panicked; i++ {
		x := e.rnd.Intn(100)
		switch {
		case x < 55:
			e.txStep()
			observe(&cdpEvent{Kind: "tx", Op: "lend-op"})
		case x < 75:
			// price move (observed as its own event, so that the block sees the price the hooks see), then a real block
			if e.rnd.Intn(3) == 0 {
				id := e.u.Order[e.rnd.Intn(len(e.u.Order))]
				p, _ := e.u.Price(id)
				np := p * uint64(70+e.rnd.Intn(50)) / 100
				if np == 0 {
					np = 1
				}
				e.u.SetPrice(id, np, true)
				observe(&cdpEvent{Kind: "env", Op: "price", Desc: fmt.Sprintf("%s %d -> %d", e.u.Assets[id].Denom, p, np)})
			}
			gap := time.Duration(1+e.rnd.Intn(600)) * time.Second
			if e.rnd.Intn(6) == 0 {
				gap = time.Duration(1+e.rnd.Intn(5)) * time.Hour
			}
			c.NextBlock(gap)
			rec.Count("blocks", 1)
			observe(&cdpEvent{Kind: "block", Op: "next", Desc: fmt.Sprintf("h=%d", c.Header.Height)})
		default:
			// a bid on a live auction of a seized borrow
			var live []auctionsV2types.Auction
			for _, a := range last.AucV2 {
				if a.AuctionType {
					live = append(live, a)
				}
			}
			if len(live) == 0 {
				if e.rnd.Intn(3) == 0 { // provoke seizures
					for _, id := range e.u.Order {
						if d := e.u.Assets[id].Denom; d == "uatom" || d == "uosmo" {
							p, _ := e.u.Price(id)
							e.u.SetPrice(id, p*8/10+1, true)
						}
					}
					observe(&cdpEvent{Kind: "env", Op: "price", Desc: "drop"})
				}
				continue
			}
			sort.Slice(live, func(i, j int) bool { return live[i].AuctionId < live[j].AuctionId })
			a := live[e.rnd.Intn(len(live))]
			bidder := c.Accts[e.rnd.Intn(len(c.Accts))]
			rem := a.DebtToken.Amount
			var amt sdk.Int
			switch e.rnd.Intn(6) {
			case 0:
				amt = sdk.NewInt(1)
			case 1:
				amt = rem
			case 2:
				amt = rem.AddRaw(1)
			case 3:
				amt = rem.MulRaw(3)
			default:
				amt = rem.MulRaw(int64(1 + e.rnd.Intn(98))).QuoRaw(100).AddRaw(1)
			}
			msg := &auctionsV2types.MsgPlaceMarketBidRequest{AuctionId: a.AuctionId, Bidder: bidder.Addr.String(), Amount: sdk.NewCoin(a.DebtToken.Denom, amt)}
			res := c.Deliver(bidder, msg)
			rec.Count("op_bid_market_v2_lend_attempted", 1)
			if res.OK() {
				rec.Count("op_bid_market_v2_lend_ok", 1)
			} else {
				l := res.Log
				if len(l) > 90 {
					l = l[len(l)-90:]
				}
				rec.Count("lend_bid_rejected: "+l, 1)
				if dbgLendBid != nil {
					dbgLendBid(res.Log)
				}
			}
			observe(&cdpEvent{Kind: "tx", Op: "bid_market_v2", Signer: bidder, Msg: msg, Res: res, Desc: fmt.Sprintf("auction=%d amt=%s rem=%s", a.AuctionId, amt, rem)})
		}
	}
	if run == 0 {
		rec.Sample(map[string]interface{}{"universe": "lend auctions", "variant": variant, "history_tail": e.tail(6)})
	}
}
