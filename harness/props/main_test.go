package props

import (
	"fmt"
	"hash/fnv"
	"math/rand"
	"os"
	"testing"

	"verif/ev"
	"verif/sim"
)

func TestMain(m *testing.M) {
	sim.InitProcess()
	code := m.Run()
	sim.Cleanup()
	os.Exit(code)
}

// rng returns the shard's PRNG stream for a property (no wall clock anywhere).
func rng(property string, extra ...interface{}) *rand.Rand {
	h := fnv.New64a()
	fmt.Fprintf(h, "%s|%d|%d|%v", property, ev.Seed(), ev.ShardNo(), extra)
	return rand.New(rand.NewSource(int64(h.Sum64())))
}

// finish flushes evidence and fails the test process with status 1 when
// violations were recorded.
func finish(t *testing.T, r *ev.Rec) {
	if t.Failed() && r.NViolations() == 0 {
		// the test was ended by t.Fatalf / a failed harness assertion, not by a property violation: the shard's
		// evidence must not count as a completed run (merge reports it as inconclusive)
		r.Flush(false)
		return
	}
	if r.Finish() {
		t.Fail()
	}
}

// mine reports whether case i belongs to this shard.
func mine(i int) bool { return i%ev.NShards() == ev.ShardNo() }
