package props

import (
	"fmt"
	"math/big"
	"math/rand"
	"sort"
	"strings"
	"testing"

	sdkmath "cosmossdk.io/math"

	"github.com/comdex-official/comdex/x/liquidity/amm"
	liqtypes "github.com/comdex-official/comdex/x/liquidity/types"

	"verif/ev"
	"verif/mon"
)

// ---------------------------------------------------------------------------
// observing order: the harness's own amm.Order. Every individual fill the real
// matching code performs on it is seen (FillOrder ends with SetOpenAmount).
// ---------------------------------------------------------------------------

type c05Order struct {
	*amm.BaseOrder
	id    uint64 // user order id (0 for pool orders)
	batch uint64 // 0 for pool orders
	pool  int    // 0 = user order, otherwise 1-based pool number
	cls   string
	fills int
	calls int
	seenOpen, seenPaid, seenRecv sdkmath.Int
	log   []string
}

func newC05Order(dir amm.OrderDirection, price sdkmath.LegacyDec, amt, offer sdkmath.Int) *c05Order {
	return &c05Order{BaseOrder: amm.NewBaseOrder(dir, price, amt, offer), seenOpen: amt, seenPaid: sdkmath.ZeroInt(), seenRecv: sdkmath.ZeroInt()}
}

func (o *c05Order) observe(how string) {
	if o.OpenAmount.Equal(o.seenOpen) && o.PaidOfferCoinAmount.Equal(o.seenPaid) && o.ReceivedDemandCoinAmount.Equal(o.seenRecv) {
		return
	}
	o.fills++
	if len(o.log) < 6 {
		o.log = append(o.log, fmt.Sprintf("%sfill#%d base=%s paid+=%s received+=%s", how, o.fills,
			o.seenOpen.Sub(o.OpenAmount), o.PaidOfferCoinAmount.Sub(o.seenPaid), o.ReceivedDemandCoinAmount.Sub(o.seenRecv)))
	}
	o.seenOpen, o.seenPaid, o.seenRecv = o.OpenAmount, o.PaidOfferCoinAmount, o.ReceivedDemandCoinAmount
}

// SetOpenAmount is the last mutation of amm.FillOrder: one call = one individual fill.
func (o *c05Order) SetOpenAmount(a sdkmath.Int) {
	o.calls++
	o.BaseOrder.SetOpenAmount(a)
	o.observe("")
}

func (o *c05Order) GetBatchID() uint64 { return o.batch }

// HasPriority mirrors x/liquidity/types: larger amount first, then user orders
// by id before pool orders, pool orders by pool id.
func (o *c05Order) HasPriority(other amm.Order) bool {
	if !o.Amount.Equal(other.GetAmount()) {
		return o.BaseOrder.HasPriority(other)
	}
	ot, ok := other.(*c05Order)
	if !ok {
		return false
	}
	switch {
	case o.pool == 0 && ot.pool == 0:
		return o.id < ot.id
	case o.pool == 0:
		return true
	case ot.pool == 0:
		return false
	}
	return o.pool < ot.pool
}

func (o *c05Order) String() string {
	d := "S"
	if o.Direction == amm.Buy {
		d = "B"
	}
	who := fmt.Sprintf("user id=%d batch=%d", o.id, o.batch)
	if o.pool != 0 {
		who = fmt.Sprintf("pool#%d", o.pool)
	}
	return fmt.Sprintf("%s %s price=%s amount=%s offer=%s", d, who, o.Price, o.Amount, o.OfferCoinAmount)
}

func (o *c05Order) result() string {
	return fmt.Sprintf("%s => open=%s paid=%s received=%s fills=%d [%s]", o.String(), o.OpenAmount, o.PaidOfferCoinAmount, o.ReceivedDemandCoinAmount, o.fills, strings.Join(o.log, "; "))
}

// c05Pool wraps a real amm pool and is the Orderer handed to amm.PoolOrders, so
// pool orders are observing orders too (the keeper uses types.PoolOrderer the same way).
type c05Pool struct {
	amm.Pool
	no   int
	desc string
	made []*c05Order
}

func (p *c05Pool) Order(dir amm.OrderDirection, price sdkmath.LegacyDec, amt sdkmath.Int) amm.Order {
	o := newC05Order(dir, price, amt, amm.OfferCoinAmount(dir, price, amt))
	o.pool = p.no
	o.cls = "pool"
	p.made = append(p.made, o)
	return o
}

// ---------------------------------------------------------------------------
// generation
// ---------------------------------------------------------------------------

var c05Ten18 = new(big.Int).Exp(big.NewInt(10), big.NewInt(18), nil)

func c05Rat(d sdkmath.LegacyDec) *big.Rat { return new(big.Rat).SetFrac(d.BigInt(), c05Ten18) }

func c05Pow10(n int) *big.Int { return new(big.Int).Exp(big.NewInt(10), big.NewInt(int64(n)), nil) }

// c05Between returns a number with between lo and hi decimal digits.
func c05Digits(rnd *rand.Rand, lo, hi int) *big.Int {
	d := lo + rnd.Intn(hi-lo+1)
	min := c05Pow10(d - 1)
	span := new(big.Int).Mul(min, big.NewInt(9))
	v := new(big.Int).Rand(rnd, span)
	v.Add(v, min)
	if rnd.Intn(4) == 0 && d > 2 { // round numbers: quote products without fraction
		z := c05Pow10(1 + rnd.Intn(d-1))
		v.Div(v, z).Mul(v, z)
		if v.Sign() == 0 {
			v.Set(min)
		}
	}
	return v
}

var c05Classes = []string{"one", "two", "tiny", "small", "typical", "large", "huge", "near-inverse-price"}

func c05Amount(rnd *rand.Rand, cls string, price sdkmath.LegacyDec) *big.Int {
	switch cls {
	case "one":
		return big.NewInt(1)
	case "two":
		return big.NewInt(2)
	case "tiny":
		return big.NewInt(int64(3 + rnd.Intn(28)))
	case "small":
		return big.NewInt(int64(31 + rnd.Intn(4970)))
	case "typical":
		return c05Digits(rnd, 5, 10)
	case "large":
		return c05Digits(rnd, 11, 19)
	case "huge":
		return c05Digits(rnd, 20, 31)
	case "near-inverse-price":
		// amounts whose quote value is a handful of smallest units: k/price +- 1
		k := int64(1 + rnd.Intn(5))
		v := new(big.Int).Mul(big.NewInt(k), c05Ten18)
		v.Div(v, price.BigInt())
		v.Add(v, big.NewInt(int64(rnd.Intn(3)-1)))
		if v.Sign() <= 0 {
			v.SetInt64(1)
		}
		return v
	}
	panic(cls)
}

// ceil(price*amt) in integers
func c05CeilMul(price sdkmath.LegacyDec, amt *big.Int) *big.Int {
	v := new(big.Int).Mul(price.BigInt(), amt)
	v.Add(v, new(big.Int).Sub(c05Ten18, big.NewInt(1)))
	return v.Div(v, c05Ten18)
}

type c05Book struct {
	mode      string
	prec      int
	ticks     []sdkmath.LegacyDec
	users     []*c05Order
	pools     []*c05Pool
	lastPrice *sdkmath.LegacyDec
	ratio     sdkmath.LegacyDec
	classes   []string
	direct    sdkmath.LegacyDec
}

func c05GenBook(rnd *rand.Rand) (b *c05Book) {
	b = &c05Book{}
	b.prec = 1 + rnd.Intn(4)
	// centre price
	var e int
	switch x := rnd.Intn(10); {
	case x < 6:
		e = rnd.Intn(7) - 3
	case x < 9:
		e = rnd.Intn(17) - 8
	default:
		e = rnd.Intn(27) - 13
	}
	mant := int64(1_000_000 + rnd.Intn(9_000_000)) // 1.000000 .. 9.999999
	// price = mant * 10^(e-6); as an 18-decimals integer: mant * 10^(e+12)
	pi := new(big.Int).Mul(big.NewInt(mant), c05Pow10(e+13))
	pi.Div(pi, big.NewInt(10))
	centre := sdkmath.LegacyNewDecFromBigIntWithPrec(pi, 18)
	if centre.LT(amm.LowestTick(b.prec)) {
		centre = amm.LowestTick(b.prec)
	}
	idx0 := amm.TickToIndex(amm.PriceToDownTick(centre, b.prec), b.prec)
	nT := 1 + rnd.Intn(6)
	for k := 0; k < nT; k++ {
		b.ticks = append(b.ticks, amm.TickFromIndex(idx0+k, b.prec))
	}
	// amount profile of the book: 1..3 classes
	nc := 1 + rnd.Intn(3)
	for len(b.classes) < nc {
		c := c05Classes[rnd.Intn(len(c05Classes))]
		b.classes = append(b.classes, c)
	}
	side := func() int {
		switch x := rnd.Intn(10); {
		case x < 1:
			return 0
		case x < 5:
			return 1 + rnd.Intn(4)
		case x < 8:
			return 1 + rnd.Intn(12)
		}
		return rnd.Intn(41)
	}
	nb, ns := side(), side()
	var id uint64
	dupAmt := map[string]*big.Int{}
	mk := func(dir amm.OrderDirection) {
		id++
		price := b.ticks[rnd.Intn(len(b.ticks))]
		cls := b.classes[rnd.Intn(len(b.classes))]
		amt := c05Amount(rnd, cls, price)
		if prev, ok := dupAmt[cls]; ok && rnd.Intn(4) == 0 {
			amt = prev // equal amounts: ties in priority, equal proportions
		}
		dupAmt[cls] = amt
		var offer *big.Int
		if dir == amm.Buy {
			offer = c05CeilMul(price, amt)
			switch rnd.Intn(10) { // an order that was partially filled at better prices keeps a surplus
			case 0:
				offer.Add(offer, big.NewInt(1))
			case 1:
				offer.Add(offer, big.NewInt(int64(rnd.Intn(1000))))
			case 2:
				offer.Add(offer, new(big.Int).Div(offer, big.NewInt(int64(2+rnd.Intn(50)))))
			}
		} else {
			offer = new(big.Int).Set(amt)
		}
		o := newC05Order(dir, price, sdkmath.NewIntFromBigInt(amt), sdkmath.NewIntFromBigInt(offer))
		o.id = id
		o.batch = uint64(1 + rnd.Intn(4))
		if rnd.Intn(3) == 0 {
			o.batch = 4 // most orders of a batch are fresh
		}
		o.cls = cls
		b.users = append(b.users, o)
	}
	for i := 0; i < nb; i++ {
		mk(amm.Buy)
	}
	for i := 0; i < ns; i++ {
		mk(amm.Sell)
	}
	rnd.Shuffle(len(b.users), func(i, j int) { b.users[i], b.users[j] = b.users[j], b.users[i] })

	// pools
	np := 0
	if rnd.Intn(2) == 0 {
		np = 1 + rnd.Intn(3)
	}
	for i := 0; i < np; i++ {
		if p := c05GenPool(rnd, b, i+1); p != nil {
			b.pools = append(b.pools, p)
		}
	}

	// mode
	switch x := rnd.Intn(20); {
	case x < 9:
		b.mode = "match-last"
	case x < 16:
		b.mode = "single-found"
	default:
		b.mode = "single-direct"
	}
	off := rnd.Intn(nT+4) - 2
	if idx0+off < 0 {
		off = 0
	}
	lp := amm.TickFromIndex(idx0+off, b.prec)
	switch b.mode {
	case "match-last":
		b.lastPrice = &lp
		b.ratio = sdkmath.LegacyNewDecWithPrec(1, 1)
		switch rnd.Intn(10) {
		case 0:
			b.ratio = sdkmath.LegacyNewDecWithPrec(1, 2)
		case 1:
			b.ratio = sdkmath.LegacyNewDecWithPrec(3, 1)
		}
	case "single-direct":
		b.direct = lp
	}
	return b
}

// c05Crafted: sell 1250 (older batch), buy 1261 and sell 1250 (current batch), all at 0.08.
func c05Crafted(mode string) *c05Book {
	price := sdkmath.LegacyNewDecWithPrec(8, 2)
	b := &c05Book{mode: mode, prec: 4, ticks: []sdkmath.LegacyDec{price}, classes: []string{"crafted"}}
	mk := func(id, batch uint64, dir amm.OrderDirection, amt int64) {
		a := big.NewInt(amt)
		offer := a
		if dir == amm.Buy {
			offer = c05CeilMul(price, a)
		}
		o := newC05Order(dir, price, sdkmath.NewIntFromBigInt(a), sdkmath.NewIntFromBigInt(offer))
		o.id, o.batch, o.cls = id, batch, "crafted"
		b.users = append(b.users, o)
	}
	mk(1, 1, amm.Sell, 1250)
	mk(2, 2, amm.Buy, 1261)
	mk(3, 2, amm.Sell, 1250)
	switch mode {
	case "match-last":
		b.lastPrice = &price
		b.ratio = sdkmath.LegacyNewDecWithPrec(1, 1)
	case "single-direct":
		b.direct = price
	}
	return b
}

func c05GenPool(rnd *rand.Rand, b *c05Book, no int) (p *c05Pool) {
	defer func() {
		if r := recover(); r != nil {
			p = nil
		}
	}()
	base := b.ticks[rnd.Intn(len(b.ticks))]
	dev := []int64{0, 1, -1, 10, -10, 100, -100, 500, -500, 2000, -2000}[rnd.Intn(11)] // 1e-4 units
	pp := base.Mul(sdkmath.LegacyNewDec(10000 + dev)).QuoInt64(10000)
	if !pp.IsPositive() {
		return nil
	}
	ycls := []string{"small", "typical", "typical", "large", "large", "huge"}[rnd.Intn(6)]
	ry := c05Amount(rnd, ycls, pp)
	rx := c05CeilMul(pp, ry)
	if rx.Sign() == 0 {
		return nil
	}
	rxI, ryI := sdkmath.NewIntFromBigInt(rx), sdkmath.NewIntFromBigInt(ry)
	if rnd.Intn(2) == 0 {
		var bp *amm.BasicPool
		if rnd.Intn(2) == 0 {
			var err error
			bp, err = amm.CreateBasicPool(rxI, ryI)
			if err != nil {
				return nil
			}
		} else {
			bp = amm.NewBasicPool(rxI, ryI, amm.InitialPoolCoinSupply(rxI, ryI))
		}
		return &c05Pool{Pool: bp, no: no, desc: fmt.Sprintf("basic rx=%s ry=%s ps=%s", rxI, ryI, bp.PoolCoinSupply())}
	}
	fr := func() sdkmath.LegacyDec { // 0.2% .. 50%
		return sdkmath.LegacyNewDecWithPrec(int64([]int{2, 5, 10, 30, 100, 250, 500}[rnd.Intn(7)]), 3)
	}
	minP := pp.Mul(sdkmath.LegacyOneDec().Sub(fr()))
	maxP := pp.Mul(sdkmath.LegacyOneDec().Add(fr()))
	initial := pp
	switch rnd.Intn(8) {
	case 0:
		initial = minP
	case 1:
		initial = maxP
	}
	if rnd.Intn(3) == 0 {
		// direct construction with arbitrary reserves inside the range (the way the keeper rebuilds it every batch)
		if rnd.Intn(6) == 0 {
			rxI = sdkmath.ZeroInt()
		} else if rnd.Intn(6) == 0 {
			ryI = sdkmath.ZeroInt()
		}
		if minP.LT(amm.MinPoolPrice) || maxP.GT(amm.MaxPoolPrice) {
			return nil
		}
		rp := amm.NewRangedPool(rxI, ryI, sdkmath.NewInt(1_000_000_000_000), minP, maxP)
		return &c05Pool{Pool: rp, no: no, desc: fmt.Sprintf("ranged(new) rx=%s ry=%s ps=%s min=%s max=%s", rxI, ryI, rp.PoolCoinSupply(), minP, maxP)}
	}
	rp, err := amm.CreateRangedPool(rxI, ryI, minP, maxP, initial)
	if err != nil {
		return nil
	}
	ax, ay := rp.Balances()
	return &c05Pool{Pool: rp, no: no, desc: fmt.Sprintf("ranged(create) rx=%s ry=%s ps=%s min=%s max=%s initial=%s", ax, ay, rp.PoolCoinSupply(), minP, maxP, initial)}
}

// ---------------------------------------------------------------------------
// running the real matching code
// ---------------------------------------------------------------------------

type c05Run struct {
	matchPrice sdkmath.LegacyDec
	diff       sdkmath.Int
	matched    bool
	found      bool // single-found: FindMatchPrice result
	dir        amm.PriceDirection
	panicked   interface{}
	stage      string
}

// c05Execute drives the book the way keeper.Match does (x/liquidity/keeper/swap.go:672-704).
func c05Execute(b *c05Book) (r c05Run) {
	defer func() {
		if p := recover(); p != nil {
			r.panicked = p
		}
	}()
	r.stage = "build"
	ob := amm.NewOrderBook()
	for _, o := range b.users {
		ob.AddOrder(o)
	}
	addAt := func(price sdkmath.LegacyDec) {
		for _, pool := range b.pools {
			buyAmt := pool.BuyAmountOver(price, true)
			if buyAmt.IsPositive() {
				ob.AddOrder(pool.Order(amm.Buy, price, buyAmt))
			}
			sellAmt := pool.SellAmountUnder(price, true)
			if sellAmt.IsPositive() {
				ob.AddOrder(pool.Order(amm.Sell, price, sellAmt))
			}
		}
	}
	switch b.mode {
	case "single-found":
		r.stage = "FindMatchPrice"
		ov := amm.MultipleOrderViews{ob.MakeView()}
		for _, pool := range b.pools {
			ov = append(ov, pool)
		}
		r.matchPrice, r.found = amm.FindMatchPrice(ov, b.prec)
		if !r.found {
			return
		}
		r.stage = "pool-orders"
		addAt(r.matchPrice)
		r.stage = "MatchAtSinglePrice"
		r.diff, r.matched = ob.MatchAtSinglePrice(r.matchPrice)
	case "single-direct":
		r.stage = "pool-orders"
		r.matchPrice = b.direct
		addAt(b.direct)
		r.stage = "MatchAtSinglePrice"
		r.diff, r.matched = ob.MatchAtSinglePrice(b.direct)
	case "match-last":
		r.stage = "pool-orders"
		lowest, highest := liqtypes.PriceLimits(*b.lastPrice, b.ratio, b.prec)
		for _, pool := range b.pools {
			ob.AddOrder(amm.PoolOrders(pool, pool, lowest, highest, b.prec)...)
		}
		r.stage = "Match"
		r.dir = ob.PriceDirection(*b.lastPrice)
		r.matchPrice, r.diff, r.matched = ob.Match(*b.lastPrice)
	}
	return
}

func (b *c05Book) all() []*c05Order {
	all := append([]*c05Order(nil), b.users...)
	for _, p := range b.pools {
		all = append(all, p.made...)
	}
	return all
}

func (b *c05Book) witness(r c05Run, focus []int) map[string]interface{} {
	w := map[string]interface{}{"mode": b.mode, "tick_precision": b.prec}
	if b.lastPrice != nil {
		w["last_price"] = b.lastPrice.String()
		w["max_price_limit_ratio"] = b.ratio.String()
	}
	if b.mode == "single-direct" {
		w["match_at"] = b.direct.String()
	}
	var us []string
	for _, o := range b.users {
		us = append(us, o.String())
	}
	w["user_orders_in_insertion_order"] = us
	var ps []string
	for _, p := range b.pools {
		ps = append(ps, fmt.Sprintf("pool#%d %s", p.no, p.desc))
	}
	w["pools"] = ps
	if !r.matchPrice.IsNil() {
		w["match_price"] = r.matchPrice.String()
	}
	if !r.diff.IsNil() {
		w["quote_coin_diff"] = r.diff.String()
	}
	w["matched"] = r.matched
	all := b.all()
	var res []string
	for _, i := range focus {
		if i >= 0 && i < len(all) {
			res = append(res, "OFFENDING: "+all[i].result())
		}
	}
	n := 0
	for _, o := range all {
		if (o.fills > 0 || o.pool != 0) && n < 60 {
			res = append(res, o.result())
			n++
		}
	}
	w["results_of_filled_and_pool_orders"] = res
	return w
}

func c05Bucket(n int) string {
	switch {
	case n == 0:
		return "0"
	case n == 1:
		return "1"
	case n <= 3:
		return "2-3"
	case n <= 8:
		return "4-8"
	case n <= 20:
		return "9-20"
	}
	return "21+"
}

func TestC05(t *testing.T) {
	rec := ev.New("C05", "exploration", "seeded random order books driven through the real amm matching code the way keeper.Match does: tick precision 1-4, centre price 10^-13..10^13, 1-6 adjacent ticks, 0-40 orders per side with amounts from classes {1,2,tiny,small,typical,large,huge<=10^31,~k/price}, batch ids 1-4, buy offers exact or with surplus, 0-3 basic/ranged pools near the centre; modes: Match(lastPrice) with amm.PoolOrders inside the price limits, FindMatchPrice+MatchAtSinglePrice, MatchAtSinglePrice at a chosen tick. Orders are the harness's own amm.Order so every individual fill is observed. Plus hand-made smallest books, and an in-situ part: message-valid limit orders (own account each) and basic pools placed by real transactions on fresh pairs, 1-3 batches run by keeper.ExecuteRequests between two snapshots of bank balances and order records. distinct = (mode, precision, #ticks, order-count buckets per side, amount classes, pool kinds, matched, price direction, fills bucket, dust zero/non-zero, partial fills present)")
	defer finish(t, rec)
	rnd := rng("C05")
	n := ev.Pick(6000, 150000)
	samples := 0
	judge := func(b *c05Book) {
		notAdded := 0
		for _, o := range b.users {
			if !amm.MatchableAmount(o, o.GetPrice()).IsPositive() {
				notAdded++
			}
		}
		r := c05Execute(b)
		rec.Count("books", 1)
		rec.Count("books_mode_"+b.mode, 1)
		rec.Count(fmt.Sprintf("books_tick_precision_%d", b.prec), 1)
		if notAdded > 0 {
			rec.Count("user_orders_not_bookable_zero_quote", int64(notAdded))
		}
		if len(b.pools) > 0 {
			rec.Count("books_with_pools", 1)
		}
		if r.panicked != nil {
			// the statement does not forbid a panic; nothing is applied by the keeper in that case
			rec.Count("books_panicked", 1)
			rec.Count("panic_"+r.stage+"_"+panicClass(r.panicked), 1)
			if rec.Get("books_panicked") <= 3 {
				rec.Note(fmt.Sprintf("panic at stage %s: %v; witness %v", r.stage, r.panicked, b.witness(r, nil)))
			}
			return
		}
		all := b.all()
		for _, o := range all {
			o.observe("unannounced-") // mutations that did not go through SetOpenAmount
		}
		fills, poolOrders, poolFills, partial, multi := 0, 0, 0, 0, 0
		for _, o := range all {
			fills += o.fills
			if o.pool != 0 {
				poolOrders++
				if o.fills > 0 {
					poolFills++
				}
			}
			if o.fills > 0 && o.OpenAmount.IsPositive() {
				partial++
			}
			if o.fills > 1 {
				multi++
			}
		}
		if b.mode == "single-found" {
			if r.found {
				rec.Count("find_match_price_found", 1)
			} else {
				rec.Count("find_match_price_not_found", 1)
			}
		}
		if poolOrders > 0 {
			rec.Count("books_with_pool_orders", 1)
			rec.Count("pool_orders", int64(poolOrders))
		}
		if !r.matched {
			rec.Count("books_not_matched", 1)
			if fills > 0 {
				rec.Count("books_not_matched_but_fills_observed", 1)
			}
			return
		}
		// ---- oracle
		rec.Eval(1)
		obs := make([]mon.C05Order, len(all))
		for k, o := range all {
			obs[k] = mon.C05Order{Buy: o.Direction == amm.Buy, Pool: o.pool != 0, Price: c05Rat(o.Price), Amount: o.Amount.BigInt(), Offer: o.OfferCoinAmount.BigInt(),
				Open: o.OpenAmount.BigInt(), Paid: o.PaidOfferCoinAmount.BigInt(), Received: o.ReceivedDemandCoinAmount.BigInt(), Fills: o.fills}
		}
		var diff *big.Int
		if !r.diff.IsNil() {
			diff = r.diff.BigInt()
		}
		fails, _ := mon.C05Laws(obs, diff)
		if len(fails) > 0 {
			rec.Count("books_breaking_a_law", 1)
		}
		seen := map[string]bool{}
		for _, f := range fails {
			label := fmt.Sprintf("C05/%s/%s", b.mode, f.Law)
			var focus []int
			if f.Order >= 0 {
				kind := "user-order"
				if obs[f.Order].Pool {
					kind = "pool-order"
				}
				label += "/" + kind
				focus = []int{f.Order}
			}
			if seen[label] {
				continue
			}
			seen[label] = true
			rec.Violate(label, f.What, b.witness(r, focus))
		}
		// ---- what was observed
		rec.Count("books_matched", 1)
		rec.Count("fills_observed", int64(fills))
		rec.Max("max_fills_in_one_book", int64(fills))
		if poolFills > 0 {
			rec.Count("books_matched_with_pool_order_filled", 1)
			rec.Count("pool_orders_filled", int64(poolFills))
		}
		if partial > 0 {
			rec.Count("books_with_partially_filled_order", 1)
			rec.Count("orders_partially_filled", int64(partial))
		}
		if multi > 0 {
			rec.Count("orders_filled_more_than_once", int64(multi))
		}
		if notAdded > 0 {
			rec.Count("books_matched_with_unbookable_dust_orders", 1)
		}
		dust := "zero"
		if diff != nil && diff.Sign() > 0 {
			dust = "positive"
			rec.Count("books_with_positive_dust", 1)
			if diff.Cmp(big.NewInt(int64(fills-1))) == 0 {
				rec.Count("books_dust_equals_fills_minus_one", 1)
			}
		} else {
			rec.Count("books_with_zero_dust", 1)
		}
		if b.mode == "match-last" {
			rec.Count("match_direction_"+r.dir.String(), 1)
			if !r.matchPrice.Equal(*b.lastPrice) {
				rec.Count("match_price_moved_from_last_price", 1)
			}
		}
		clsSeen := map[string]bool{}
		for _, o := range all {
			if o.fills > 0 && !clsSeen[o.cls] {
				clsSeen[o.cls] = true
				rec.Count("books_with_filled_order_of_class_"+o.cls, 1)
			}
		}
		var kinds []string
		for _, p := range b.pools {
			kinds = append(kinds, strings.SplitN(p.desc, " ", 2)[0])
		}
		sort.Strings(kinds)
		nb, ns := 0, 0
		for _, o := range b.users {
			if o.Direction == amm.Buy {
				nb++
			} else {
				ns++
			}
		}
		cls := append([]string(nil), b.classes...)
		sort.Strings(cls)
		rec.Distinct(b.mode, b.prec, len(b.ticks), c05Bucket(nb), c05Bucket(ns), strings.Join(cls, ","), strings.Join(kinds, ","), r.dir, c05Bucket(fills), dust, partial > 0, multi > 0)
		if samples < 6 && len(all) <= 8 && fills >= 3 && (samples%2 == 0) == (poolFills > 0) {
			samples++
			foc := []int{}
			rec.Sample(b.witness(r, foc))
		}
	}
	// hand-made books first (shard 0): the smallest message-valid book on which the
	// remainder of a partially matched sell tick is worth less than one quote unit
	if ev.ShardNo() == 0 {
		for _, mode := range []string{"single-found", "match-last", "single-direct"} {
			judge(c05Crafted(mode))
			rec.Count("books_crafted", 1)
		}
	}
	for i := 0; i < n; i++ {
		judge(c05GenBook(rnd))
	}
	c05InSitu(t, rec)
	rec.Floor("books_matched", 2000)
	rec.Floor("fills_observed", 20000)
	rec.Floor("books_matched_with_pool_order_filled", 300)
	rec.Floor("books_with_partially_filled_order", 500)
	rec.Floor("orders_filled_more_than_once", 100)
	rec.Floor("books_with_positive_dust", 500)
	rec.Floor("user_orders_not_bookable_zero_quote", 100)
	rec.Floor("insitu_batches_matched", 20)
	rec.Assume("orders enter a batch the way keeper.ExecuteMatching builds them: a buy order's offer coin covers ceil(price*amount) (types.NewUserOrder caps the amount by remaining offer / price), a sell order's offer coin equals its amount, pool orders come from the real pool functions with offer = amm.OfferCoinAmount")
	rec.Assume("in situ: every order of a pair has its own account, so a buyer's base balance and a seller's quote balance change only by what matching pays out; what a sell order paid is read from its stored open amount, what a buy order paid from its stored remaining offer coin")
	rec.Assume("a panic inside the matching code is counted, not judged: the statement speaks about the results matching produces")
	rec.Assume("an individual fill = one amm.FillOrder call on one order, observed as a SetOpenAmount call after which open/paid/received differ from the previous observation")
}
