package props

import (
	"fmt"
	"math/big"
	"sort"
	"time"

	sdk "github.com/cosmos/cosmos-sdk/types"

	lendtypes "github.com/comdex-official/comdex/x/lend/types"
	liqtypes "github.com/comdex-official/comdex/x/liquidation/types"
	liqV2types "github.com/comdex-official/comdex/x/liquidationsV2/types"

	"verif/inject"
	"verif/sim"
)

// C14, lend cells beyond the plain breaker refusals of c14Lend:
//   * opening a borrow (MsgBorrow on a pair the owner has no borrow on yet, MsgBorrowAlternate by an account without
//     a position) under the breaker,
//   * the borrow sweep and the liquidate messages (both generations) of the lend app under the breaker: a block
//     with the breaker on seizes no borrow of the app, the next block with the breaker off does,
//   * every lend message whose positive control reads an oracle price: with that price inactive the real
//     transaction must fail with an identical full-state dump, with the price active again it must succeed,
//   * an unsafe borrow with the collateral or the debt feed inactive: neither a liquidate message nor the sweep of a
//     real block may seize it.

type c14LendCell struct {
	name   string
	signer *sim.Acct
	msg    sdk.Msg
}

// c14LendCandidates proposes messages; the caller keeps the ones that are live on a fork of the present state.
func c14LendCandidates(e *c08Env) (open []c14LendCell, reading []c14LendCell) {
	c := e.c
	s := e.snap()
	app := e.u.App
	var lids []uint64
	for id := range s.lends {
		lids = append(lids, id)
	}
	sort.Slice(lids, func(i, j int) bool { return lids[i] < lids[j] })
	hasBorrowOn := func(owner string, pair uint64) bool {
		for _, b := range s.borrows {
			if l, ok := s.lends[b.LendingID]; ok && l.Owner == owner && b.PairID == pair {
				return true
			}
		}
		return false
	}
	// a new borrow against an existing lend position: a tenth of what is available, loan at 40 % of the bound
	for _, lid := range lids {
		l := s.lends[lid]
		owner := acctOf(c, l.Owner)
		if owner == nil || !l.AvailableToBorrow.GT(sdk.NewInt(20_000_000)) {
			continue
		}
		for _, pid := range e.pairsFor(l.AssetID, l.PoolID) {
			p, ok := e.pair(pid)
			if !ok || hasBorrowOn(l.Owner, pid) || p.AssetIn != l.AssetID {
				continue
			}
			in, out := e.u.Assets[p.AssetIn], e.u.Assets[p.AssetOut]
			x := l.AvailableToBorrow.QuoRaw(10)
			max := e.maxLoan(p, l.PoolID, in.ID, x.BigInt())
			loan := new(big.Int).Quo(new(big.Int).Mul(max, big.NewInt(40)), big.NewInt(100))
			if loan.Cmp(big.NewInt(2_000_000)) < 0 {
				continue
			}
			kind := "same-pool"
			if p.IsInterPool {
				kind = "inter-pool"
			}
			if p.IsEModeEnabled {
				kind = "e-mode"
			}
			open = append(open, c14LendCell{"borrow-open/" + kind, owner, lendtypes.NewMsgBorrow(l.Owner, lid, pid, false, sdk.NewCoin(in.CDenom, x), sdk.NewCoin(out.Denom, sdk.NewIntFromBigInt(loan)))})
		}
	}
	// lend + borrow in one message by an account that has no position in that (pool, asset)
	for _, a := range c.Accts {
		for _, pid := range c08SortedPools(e.u) {
			pool := e.u.Pools[pid]
			for _, aid := range pool.Assets {
				has := false
				for _, l := range s.lends {
					if l.Owner == a.Addr.String() && l.PoolID == pid && l.AssetID == aid {
						has = true
					}
				}
				if has {
					continue
				}
				for _, pairID := range e.pairsFor(aid, pid) {
					p, ok := e.pair(pairID)
					if !ok || hasBorrowOn(a.Addr.String(), pairID) {
						continue
					}
					in, out := e.u.Assets[aid], e.u.Assets[p.AssetOut]
					x := big.NewInt(500_000_000)
					max := e.maxLoan(p, pid, aid, x)
					loan := new(big.Int).Quo(new(big.Int).Mul(max, big.NewInt(40)), big.NewInt(100))
					if loan.Cmp(big.NewInt(2_000_000)) < 0 {
						continue
					}
					kind := "same-pool"
					if p.IsInterPool {
						kind = "inter-pool"
					}
					open = append(open, c14LendCell{"borrow-alternate/" + kind, a, lendtypes.NewMsgBorrowAlternate(a.Addr.String(), aid, pid, sdk.NewCoin(in.Denom, sdk.NewIntFromBigInt(x)), pairID, false, sdk.NewCoin(out.Denom, sdk.NewIntFromBigInt(loan)), app)})
				}
			}
		}
	}
	// messages on existing positions that may read prices
	var bids []uint64
	for id, b := range s.borrows {
		if !b.IsLiquidated {
			bids = append(bids, id)
		}
	}
	sort.Slice(bids, func(i, j int) bool { return bids[i] < bids[j] })
	for _, id := range bids {
		b := s.borrows[id]
		l, ok := s.lends[b.LendingID]
		owner := acctOf(c, l.Owner)
		p, found := e.pair(b.PairID)
		if !ok || owner == nil || !found {
			continue
		}
		out := e.u.Assets[p.AssetOut]
		debt := b.AmountOut.Amount.Add(b.InterestAccumulated.TruncateInt())
		reading = append(reading,
			c14LendCell{"borrow-draw", owner, lendtypes.NewMsgDraw(l.Owner, id, sdk.NewCoin(out.Denom, sdk.NewInt(2_000_000)))},
			c14LendCell{"borrow-deposit-collateral", owner, lendtypes.NewMsgDepositBorrow(l.Owner, id, sdk.NewCoin(b.AmountIn.Denom, sdk.NewInt(1000)))},
			c14LendCell{"borrow-repay", owner, lendtypes.NewMsgRepay(l.Owner, id, sdk.NewCoin(out.Denom, debt.QuoRaw(3).AddRaw(1)))},
			c14LendCell{"lend-withdraw-with-open-borrow", owner, lendtypes.NewMsgWithdraw(l.Owner, l.ID, sdk.NewCoin(e.u.Assets[l.AssetID].Denom, sdk.NewInt(1000)))},
			c14LendCell{"calculate-interest-and-rewards", owner, lendtypes.NewMsgCalculateInterestAndRewards(l.Owner)},
		)
	}
	for _, lid := range lids {
		l := s.lends[lid]
		owner := acctOf(c, l.Owner)
		if owner == nil {
			continue
		}
		reading = append(reading,
			c14LendCell{"lend-deposit", owner, lendtypes.NewMsgDeposit(l.Owner, lid, sdk.NewCoin(e.u.Assets[l.AssetID].Denom, sdk.NewInt(100_000)))},
			c14LendCell{"lend-withdraw", owner, lendtypes.NewMsgWithdraw(l.Owner, lid, sdk.NewCoin(e.u.Assets[l.AssetID].Denom, sdk.NewInt(1000)))})
	}
	return open, reading
}

// c14LendCells runs the additional lend cells on the state c14Lend has built.
func c14LendCells(e *c08Env, env *c14Env, on, off func()) {
	rec := env.rec
	c := e.c
	// ---- breaker: opening borrows. One cell per kind, the first candidate that is live on a fork.
	done := map[string]bool{}
	open, _ := c14LendCandidates(e)
	for _, cl := range open {
		if done[cl.name] {
			continue
		}
		if live, _, _, _ := env.handlerOnFork(cl.msg, nil); !live {
			continue
		}
		done[cl.name] = true
		env.refuse("breaker/"+cl.name, cl.signer, cl.msg, on, off)
	}

	// ---- needed price inactive: every kind of lend message, every asset whose price its positive control reads
	open, reading := c14LendCandidates(e)
	perKind := map[string]int{}
	for _, cl := range append(open, reading...) {
		if perKind[cl.name] >= 2 {
			continue
		}
		live, _, reads, _ := env.handlerOnFork(cl.msg, nil)
		if !live {
			continue
		}
		perKind[cl.name]++
		if len(reads) == 0 {
			rec.Count("lend_message_reads_no_price:"+cl.name, 1)
			continue
		}
		var ids []uint64
		for id := range reads {
			ids = append(ids, id)
		}
		sort.Slice(ids, func(i, j int) bool { return ids[i] < ids[j] })
		for _, assetID := range ids {
			if e.u.Assets[assetID] == nil {
				continue
			}
			// still live? (the positive control of the previous asset was a real transaction)
			if live, _, _, _ := env.handlerOnFork(cl.msg, nil); !live {
				break
			}
			px, _ := e.u.Price(assetID)
			env.refuse("price/lend/"+cl.name, cl.signer, cl.msg,
				func() { e.u.SetPrice(assetID, px, false) },
				func() { e.u.SetPrice(assetID, px, true) })
			rec.Count("price_cells_checked", 1)
			rec.Count("lend_price_cells_checked", 1)
		}
	}

	// ---- an unsafe borrow: liquidate messages and the sweep, under the breaker and with a needed feed inactive
	c.App.NewliqKeeper.SetParams(c.Ctx(), liqV2types.Params{LiquidationBatchSize: 200})
	for round := 0; round < 2; round++ {
		c14LendUnsafeBorrow(e, env, on, off, round)
	}
}

// c14LendUnsafeBorrow makes one borrow clearly unsafe by a price move inside the block and decides the sweep /
// liquidate-message cells on it.
func c14LendUnsafeBorrow(e *c08Env, env *c14Env, on, off func(), round int) {
	rec := env.rec
	c := e.c
	m := &c09LendMon{e: e, rec: rec}
	s := e.snap()
	var ids []uint64
	for id, b := range s.borrows {
		p, ok := e.pair(b.PairID)
		if b.IsLiquidated || !ok || p.AssetIn == p.AssetOut {
			continue
		}
		// the pool must hold the pledged coins, or the seizure cannot be carried out at all
		if l, ok := s.lends[b.LendingID]; ok {
			in := e.u.Assets[p.AssetIn]
			if e.poolBal(l.PoolID, in.Denom).LT(b.AmountIn.Amount) || e.poolBal(l.PoolID, in.CDenom).LT(b.AmountIn.Amount) {
				continue
			}
			ids = append(ids, id)
		}
	}
	if len(ids) == 0 {
		rec.Count("lend_unsafe_cells_without_borrow", 1)
		return
	}
	sort.Slice(ids, func(i, j int) bool { return ids[i] < ids[j] })
	b := s.borrows[ids[(round*7+len(ids)/2)%len(ids)]]
	p, _ := e.pair(b.PairID)
	collAsset, oldPrice := m.moveToRatio(b, 1400)
	if oldPrice == 0 {
		return
	}
	restore := func() { e.u.SetPrice(collAsset, oldPrice, true) }
	who := c.Accts[(round+2)%len(c.Accts)]
	gen2 := &liqV2types.MsgLiquidateInternalKeeperRequest{From: who.Addr.String(), LiqType: 1, Id: b.ID}
	gen1 := &liqtypes.MsgLiquidateBorrowRequest{From: who.Addr.String(), BorrowId: b.ID}
	seizedOn := func(st *c08Snap) bool {
		x, ok := st.borrows[b.ID]
		return ok && x.IsLiquidated
	}
	// is there work? (on a fork, no control: the generation-2 message must seize it)
	seizesOnFork := func(msg sdk.Msg, mutate func(ctx sdk.Context)) (ok, seized, changed bool, errStr string) {
		fork := c.Ctx().MultiStore().CacheMultiStore()
		ctx := c.Ctx().WithMultiStore(fork).WithEventManager(sdk.NewEventManager()).WithGasMeter(sdk.NewInfiniteGasMeter())
		if mutate != nil {
			mutate(ctx)
		}
		_, before := inject.Dump(fork, env.keys)
		h := c.App.MsgServiceRouter().Handler(msg)
		var err error
		func() {
			defer func() {
				if r := recover(); r != nil {
					err = fmt.Errorf("panic: %v", r)
				}
			}()
			mctx, write := ctx.CacheContext()
			_, err = h(mctx, msg)
			if err == nil {
				write()
			}
		}()
		_, after := inject.Dump(fork, env.keys)
		x, found := c.App.LendKeeper.GetBorrow(ctx, b.ID)
		if err != nil {
			errStr = err.Error()
		}
		return err == nil, found && x.IsLiquidated, before != after, errStr
	}
	if ok, seized, _, _ := seizesOnFork(gen2, nil); !ok || !seized {
		rec.Count("lend_unsafe_cells_not_live", 1)
		restore()
		return
	}
	rec.Count("lend_unsafe_cells_live", 1)
	w := func(extra map[string]interface{}) map[string]interface{} {
		out := map[string]interface{}{"borrow": b.ID, "pair": b.PairID, "collateral": b.AmountIn.String(), "debt": b.AmountOut.String(), "prices": e.priceString(), "history_tail": e.tail(4)}
		for k, v := range extra {
			out[k] = v
		}
		return out
	}

	// -- a needed feed inactive: liquidate messages of both generations on forks, then the sweep of a real block
	for _, side := range []struct {
		role  string
		asset uint64
	}{{"collateral", p.AssetIn}, {"debt", p.AssetOut}} {
		side := side
		px, act := e.u.Price(side.asset)
		if !act {
			continue
		}
		inactive := func(ctx sdk.Context) {
			tw, _ := c.App.MarketKeeper.GetTwa(ctx, side.asset)
			tw.IsPriceActive = false
			c.App.MarketKeeper.SetTwa(ctx, tw)
		}
		for _, g := range []struct {
			tag string
			msg sdk.Msg
		}{{"gen2", gen2}, {"gen1", gen1}} {
			if g.tag == "gen1" {
				if ok, seized, _, _ := seizesOnFork(g.msg, nil); !ok || !seized {
					rec.Count("not-live:price/lend/liquidate-message-gen1", 1)
					continue
				}
			}
			ok, seized, changed, errStr := seizesOnFork(g.msg, inactive)
			rec.Eval(1)
			rec.Count("price_cells_checked", 1)
			rec.Count("lend_price_liquidate_cells_checked", 1)
			switch {
			case ok && seized:
				rec.Violate("C14/price/lend/liquidate-message-"+g.tag+"/seized-with-inactive-"+side.role+"-feed", "an unsafe borrow was seized by a liquidate message although a price the seizure needs is inactive", w(map[string]interface{}{"inactive_feed": e.u.Assets[side.asset].Denom}))
			case !ok && changed:
				rec.Violate("C14/price/lend/liquidate-message-"+g.tag+"/refused-but-state-changed", "the refused liquidation changed state", w(map[string]interface{}{"inactive_feed": e.u.Assets[side.asset].Denom, "error": errStr}))
			}
			rec.Distinct("C14-lend-price-liq", g.tag, side.role, ok, seized)
		}
		e.u.SetPrice(side.asset, px, false)
		pre := e.snap()
		c.NextBlock(6 * time.Second)
		post := e.snap()
		rec.Eval(1)
		rec.Count("lend_price_sweep_cells_checked", 1)
		rec.Count("price_cells_checked", 1)
		if !seizedOn(pre) && seizedOn(post) {
			rec.Violate("C14/price/lend/sweep/borrow-seized-with-inactive-"+side.role+"-feed", "the sweep seized a borrow although a price the seizure needs is inactive", w(map[string]interface{}{"inactive_feed": e.u.Assets[side.asset].Denom}))
		}
		e.u.SetPrice(side.asset, px, true)
		if seizedOn(post) {
			restore()
			return
		}
	}

	// -- breaker on: the messages must not seize, the sweep of a real block must not seize
	on()
	for _, g := range []struct {
		tag string
		msg sdk.Msg
	}{{"gen2", gen2}, {"gen1", gen1}} {
		per0, all0 := dumpNoAuth(c, env.keys)
		res := c.Deliver(who, g.msg)
		per1, all1 := dumpNoAuth(c, env.keys)
		st := e.snap()
		rec.Eval(1)
		rec.Count("refusals_checked", 1)
		rec.Count("lend_breaker_liquidate_cells_checked", 1)
		switch {
		case seizedOn(st):
			rec.Violate("C14/breaker/lend/liquidate-message-"+g.tag+"/seized-under-breaker", "a liquidate message seized a borrow of an app whose circuit breaker is on", w(map[string]interface{}{"tx_ok": res.OK(), "log": trunc(res.Log)}))
		case !res.OK() && all0 != all1:
			rec.Violate("C14/breaker/lend/liquidate-message-"+g.tag+"/refused-but-state-changed", "the refused liquidation changed state", w(map[string]interface{}{"stores_changed": inject.DiffStores(per0, per1), "log": trunc(res.Log)}))
		}
		rec.Distinct("C14-lend-breaker-liq", g.tag, res.OK())
		if seizedOn(st) {
			off()
			restore()
			return
		}
	}
	pre := e.snap()
	c.NextBlock(6 * time.Second)
	mid := e.snap()
	rec.Eval(1)
	rec.Count("breaker_on_blocks_observed", 1)
	newly := 0
	for id, x := range mid.borrows {
		if x.IsLiquidated && !pre.borrows[id].IsLiquidated {
			newly++
		}
	}
	if newly > 0 {
		rec.Violate("C14/breaker/lend/sweep-seized-borrow", fmt.Sprintf("with the breaker on the block seized %d borrows of the app", newly), w(map[string]interface{}{"app": e.u.App}))
	}
	off()
	c.NextBlock(6 * time.Second)
	after := e.snap()
	if seizedOn(after) && !seizedOn(mid) {
		rec.Count("sweep_cells_checked", 1) // the state really contained work that was refused
		rec.Count("lend_sweep_cells_live", 1)
	} else {
		rec.Count("lend_sweep_cell_without_work", 1)
	}
	restore()
}
