package props

import (
	"fmt"
	"math/big"
	"testing"

	sdk "github.com/cosmos/cosmos-sdk/types"

	auctionsV2types "github.com/comdex-official/comdex/x/auctionsV2/types"
	liqV2types "github.com/comdex-official/comdex/x/liquidationsV2/types"

	"verif/ev"
)

// ---- C11: bidders' funds (English-style auctions of generation 2, limit bids) ----
// Generation-1 surplus / debt auctions are only ever started by the auction
// begin blocker, which is not wired into the module manager at this commit, so
// they cannot exist in real blocks.

type c11Mon struct {
	u   *cdpU
	rec *ev.Rec
	// net flow of every account per English auction (bid denom and lot denom), to decide "no one else has lost anything"
	net map[uint64]map[string]map[string]*big.Int // auction -> account -> denom -> net
}

func newC11Mon(u *cdpU, rec *ev.Rec) *c11Mon {
	return &c11Mon{u: u, rec: rec, net: map[uint64]map[string]map[string]*big.Int{}}
}

func (m *c11Mon) addNet(auction uint64, acct, denom string, d *big.Int) {
	if m.net[auction] == nil {
		m.net[auction] = map[string]map[string]*big.Int{}
	}
	if m.net[auction][acct] == nil {
		m.net[auction][acct] = map[string]*big.Int{}
	}
	if m.net[auction][acct][denom] == nil {
		m.net[auction][acct][denom] = new(big.Int)
	}
	m.net[auction][acct][denom].Add(m.net[auction][acct][denom], d)
}

func (m *c11Mon) acctName(addr string) string {
	for _, a := range m.u.c.Accts {
		if a.Addr.String() == addr {
			return a.Name
		}
	}
	return ""
}

func (m *c11Mon) Observe(pre, post *cdpSnap, e *cdpEvent) {
	u := m.u
	bidFactor := big.NewRat(1, 100) // BidFactor 0.01 in the fixture
	// ---------- English bids ----------
	if x, ok := e.Msg.(*auctionsV2types.MsgPlaceMarketBidRequest); ok && e.Kind == "tx" && e.Signer != nil {
		a, live := pre.AucV2[x.AuctionId]
		if live && !a.AuctionType {
			lv := pre.LockedV2[a.LockedVaultId]
			isDebt := lv.InitiatorType == "debt"
			m.rec.Eval(1)
			m.rec.Count("english_bids_attempted_"+lv.InitiatorType, 1)
			// previous standing bid
			var prevBid *auctionsV2types.Bid
			if a.ActiveBiddingId != 0 {
				if b, ok := pre.BidsV2[a.ActiveBiddingId]; ok {
					prevBid = &b
				}
			}
			// the quantity that must improve: surplus -> amount offered (rises); debt -> collateral asked (falls)
			var prevQ *big.Int
			if prevBid != nil {
				if isDebt {
					prevQ = prevBid.CollateralTokenAmount.Amount.BigInt()
				} else {
					prevQ = prevBid.DebtTokenAmount.Amount.BigInt()
				}
			}
			det := func() map[string]interface{} {
				d := map[string]interface{}{"event": e.String(), "auction": x.AuctionId, "type": lv.InitiatorType, "bid": x.Amount.String()}
				if prevBid != nil {
					d["previous_bid"] = fmt.Sprintf("%s for %s by %s", prevBid.DebtTokenAmount, prevBid.CollateralTokenAmount, m.acctName(prevBid.BidderAddress))
				}
				return d
			}
			if e.Res.OK() {
				m.rec.Count("english_bids_accepted_"+lv.InitiatorType, 1)
				b := post.AucV2[x.AuctionId]
				newBid, okb := post.BidsV2[b.ActiveBiddingId]
				if !okb {
					m.rec.Violate("C11/english/accepted-bid-not-standing", "an accepted bid is not recorded as the standing bid", det())
					return
				}
				payDenom := newBid.DebtTokenAmount.Denom
				paidAmt := newBid.DebtTokenAmount.Amount.BigInt()
				// (1) improvement by at least the bid factor
				if prevQ != nil {
					step := new(big.Rat).Mul(new(big.Rat).SetInt(prevQ), bidFactor)
					stepInt := new(big.Int).Quo(step.Num(), step.Denom()) // floor: the weakest reading of "at least the factor"
					q := x.Amount.Amount.BigInt()
					bad := false
					if isDebt {
						bad = q.Cmp(bigSub(prevQ, stepInt)) > 0
					} else {
						bad = q.Cmp(bigAdd(prevQ, stepInt)) < 0
					}
					m.rec.Count("english_improvements_checked", 1)
					if bad {
						m.rec.Violate("C11/english/"+lv.InitiatorType+"/accepted-bid-does-not-improve-by-bid-factor", fmt.Sprintf("previous %s, accepted %s, factor 0.01", prevQ, q), det())
					}
				}
				// (2) the outbid bidder is refunded in full in this transaction
				if prevBid != nil {
					pn := m.acctName(prevBid.BidderAddress)
					refund := prevBid.DebtTokenAmount.Amount.BigInt()
					got := bigSub(post.bal(pn, payDenom), pre.bal(pn, payDenom))
					want := new(big.Int).Set(refund)
					if pn == e.Signer.Name {
						want.Sub(want, paidAmt)
					}
					m.rec.Count("english_refunds_checked", 1)
					if got.Cmp(want) != 0 {
						m.rec.Violate("C11/english/"+lv.InitiatorType+"/outbid-bidder-not-refunded-in-full", fmt.Sprintf("previous bidder %s: balance change %s, expected %s", pn, got, want), det())
					}
					m.addNet(x.AuctionId, pn, payDenom, refund)
				}
				// (3) custody holds exactly the standing bid: custody delta = new bid - refunded bid
				wantDelta := new(big.Int).Set(paidAmt)
				if prevBid != nil {
					wantDelta.Sub(wantDelta, prevBid.DebtTokenAmount.Amount.BigInt())
				}
				gotDelta := bigSub(post.bal(modLabel(auctionsV2types.ModuleName), payDenom), pre.bal(modLabel(auctionsV2types.ModuleName), payDenom))
				if gotDelta.Cmp(wantDelta) != 0 {
					m.rec.Violate("C11/english/"+lv.InitiatorType+"/custody-delta-not-standing-bid-delta", fmt.Sprintf("custody changed by %s, standing bid changed by %s", gotDelta, wantDelta), det())
				}
				m.addNet(x.AuctionId, e.Signer.Name, payDenom, new(big.Int).Neg(paidAmt))
				m.rec.Distinct("C11-english", lv.InitiatorType, prevBid != nil, pnSame(prevBid, e.Signer.Addr.String()))
			} else if prevQ == nil {
				m.rec.Count("english_first_bid_rejected", 1)
			}
		}
	}
	// ---------- English auctions that ended in this event ----------
	endedLots := map[string]map[string]*big.Int{} // lot denom -> winner account -> total lot
	endedTag := map[string]string{}
	for id, a := range pre.AucV2 {
		if a.AuctionType {
			continue
		}
		if _, still := post.AucV2[id]; still {
			continue
		}
		lv := pre.LockedV2[a.LockedVaultId]
		m.rec.Eval(1)
		m.rec.Count("english_auctions_ended_"+lv.InitiatorType, 1)
		win, ok := pre.BidsV2[a.ActiveBiddingId]
		det := map[string]interface{}{"event": e.String(), "auction": id, "type": lv.InitiatorType, "lot": a.CollateralToken.String(), "standing_bid": win.DebtTokenAmount.String()}
		if !ok {
			m.rec.Violate("C11/english/ended-without-standing-bid", "an English auction ended without a standing bid", det)
			continue
		}
		lotDenom := a.CollateralToken.Denom
		lot := a.CollateralToken.Amount.BigInt()
		if lv.InitiatorType == "debt" {
			lot = win.CollateralTokenAmount.Amount.BigInt()
			lotDenom = win.CollateralTokenAmount.Denom
		}
		// receipts are checked after the loop, over all auctions that ended in this event
		// (two auctions can end in the same block with different winners)
		if endedLots[lotDenom] == nil {
			endedLots[lotDenom] = map[string]*big.Int{}
		}
		wn := m.acctName(win.BidderAddress)
		if endedLots[lotDenom][wn] == nil {
			endedLots[lotDenom][wn] = new(big.Int)
		}
		endedLots[lotDenom][wn].Add(endedLots[lotDenom][wn], lot)
		endedTag[lotDenom] = lv.InitiatorType
		// no one but the winner has lost anything over the auction's life
		for acct, byDenom := range m.net[id] {
			for d, n := range byDenom {
				if acct == m.acctName(win.BidderAddress) {
					if want := new(big.Int).Neg(win.DebtTokenAmount.Amount.BigInt()); d == win.DebtTokenAmount.Denom && n.Cmp(want) != 0 {
						m.rec.Violate("C11/english/"+lv.InitiatorType+"/winner-net-payment-not-winning-bid", fmt.Sprintf("winner's net flow %s, winning bid %s", n, win.DebtTokenAmount.Amount), det)
					}
					continue
				}
				if n.Sign() != 0 {
					m.rec.Violate("C11/english/"+lv.InitiatorType+"/loser-net-flow-not-zero", fmt.Sprintf("%s ended the auction with net %s %s", acct, n, d), det)
				}
			}
		}
		delete(m.net, id)
	}
	if e.Kind == "block" {
		// other flows of the same block can pay accounts in the lot's denomination as well: a Dutch auction settled by an
		// automatic fill pays initiator proceeds / keeper incentive (debt denom) and the owner's remainder (collateral
		// denom). The receipt law is decided only for denominations no changed Dutch auction of the block deals in.
		other := map[string]bool{}
		for id, a := range pre.AucV2 {
			if !a.AuctionType {
				continue
			}
			if b, still := post.AucV2[id]; !still || !b.DebtToken.IsEqual(a.DebtToken) || !b.CollateralToken.IsEqual(a.CollateralToken) {
				other[a.DebtToken.Denom], other[a.CollateralToken.Denom] = true, true
			}
		}
		for lotDenom, byWinner := range endedLots {
			if other[lotDenom] {
				m.rec.Count("english_lot_receipt_checks_skipped_dutch_settlement_in_same_block", 1)
				continue
			}
			for _, ac := range u.c.Accts {
				got := bigSub(post.bal(ac.Name, lotDenom), pre.bal(ac.Name, lotDenom))
				want := byWinner[ac.Name]
				if want == nil {
					want = new(big.Int)
				}
				m.rec.Eval(1)
				if got.Cmp(want) != 0 {
					lab := "lot-paid-to-non-winner"
					if want.Sign() > 0 {
						lab = "winner-did-not-receive-the-lot"
					}
					m.rec.Violate("C11/english/"+endedTag[lotDenom]+"/"+lab, fmt.Sprintf("%s received %s %s in the block that ended the auction(s), the lots it won amount to %s", ac.Name, got, lotDenom, want), map[string]interface{}{"event": e.String()})
				}
			}
		}
	}
	// ---------- limit bids ----------
	// recorded total == sum of individual deposits, and fully in custody
	sum := map[[2]uint64]*big.Int{}
	perDenom := map[string]*big.Int{}
	for _, lb := range post.LimitBids {
		k := [2]uint64{lb.DebtTokenId, lb.CollateralTokenId}
		if sum[k] == nil {
			sum[k] = new(big.Int)
		}
		sum[k].Add(sum[k], lb.DebtToken.Amount.BigInt())
		if perDenom[lb.DebtToken.Denom] == nil {
			perDenom[lb.DebtToken.Denom] = new(big.Int)
		}
		perDenom[lb.DebtToken.Denom].Add(perDenom[lb.DebtToken.Denom], lb.DebtToken.Amount.BigInt())
		if lb.DebtToken.Amount.IsNegative() {
			m.rec.Violate("C11/limit-bid/negative-deposit-record/"+opTag(e), fmt.Sprintf("deposit record %s", lb.DebtToken), map[string]interface{}{"event": e.String(), "bidder": m.acctName(lb.BidderAddress)})
		}
	}
	for _, pd := range post.LimitProt {
		k := [2]uint64{pd.DebtAssetId, pd.CollateralAssetId}
		s := sum[k]
		if s == nil {
			s = new(big.Int)
		}
		m.rec.Eval(1)
		if pd.BidValue.BigInt().Cmp(s) != 0 {
			// attribute to the event that changed the gap
			preS := new(big.Int)
			for _, lb := range pre.LimitBids {
				if lb.DebtTokenId == k[0] && lb.CollateralTokenId == k[1] {
					preS.Add(preS, lb.DebtToken.Amount.BigInt())
				}
			}
			preV := new(big.Int)
			for _, q := range pre.LimitProt {
				if q.DebtAssetId == k[0] && q.CollateralAssetId == k[1] {
					preV = q.BidValue.BigInt()
				}
			}
			if bigSub(preV, preS).Cmp(bigSub(pd.BidValue.BigInt(), s)) != 0 {
				m.rec.Violate("C11/limit-bid/recorded-total-not-sum-of-deposits/"+opTag(e), fmt.Sprintf("recorded total %s, sum of deposits %s", pd.BidValue, s), map[string]interface{}{"event": e.String(), "debt_asset": k[0], "collateral_asset": k[1]})
			}
		}
	}
	for d, tot := range perDenom {
		m.rec.Eval(1)
		if post.bal(modLabel(auctionsV2types.ModuleName), d).Cmp(tot) < 0 {
			preTot := new(big.Int)
			for _, lb := range pre.LimitBids {
				if lb.DebtToken.Denom == d {
					preTot.Add(preTot, lb.DebtToken.Amount.BigInt())
				}
			}
			if pre.bal(modLabel(auctionsV2types.ModuleName), d).Cmp(preTot) >= 0 {
				m.rec.Violate("C11/limit-bid/custody-below-deposits/"+opTag(e), fmt.Sprintf("custody %s < deposits %s (%s)", post.bal(modLabel(auctionsV2types.ModuleName), d), tot, d), map[string]interface{}{"event": e.String()})
			}
		}
	}
	// absolute form of "custody holds the standing bid": per denom the auction custody holds at least the standing
	// best bids of all live English auctions plus all limit-bid deposits (attributed to the event that broke it)
	need := func(s *cdpSnap) map[string]*big.Int {
		out := map[string]*big.Int{}
		for _, a := range s.AucV2 {
			if a.AuctionType || a.ActiveBiddingId == 0 {
				continue
			}
			if b, ok := s.BidsV2[a.ActiveBiddingId]; ok {
				if out[b.DebtTokenAmount.Denom] == nil {
					out[b.DebtTokenAmount.Denom] = new(big.Int)
				}
				out[b.DebtTokenAmount.Denom].Add(out[b.DebtTokenAmount.Denom], b.DebtTokenAmount.Amount.BigInt())
			}
		}
		for _, lb := range s.LimitBids {
			if out[lb.DebtToken.Denom] == nil {
				out[lb.DebtToken.Denom] = new(big.Int)
			}
			out[lb.DebtToken.Denom].Add(out[lb.DebtToken.Denom], lb.DebtToken.Amount.BigInt())
		}
		return out
	}
	needPre, needPost := need(pre), need(post)
	for d, n := range needPost {
		m.rec.Eval(1)
		np := needPre[d]
		if np == nil {
			np = new(big.Int)
		}
		cl := modLabel(auctionsV2types.ModuleName)
		if post.bal(cl, d).Cmp(n) < 0 && pre.bal(cl, d).Cmp(np) >= 0 {
			m.rec.Violate("C11/custody-below-standing-bids-plus-deposits/"+opTag(e), fmt.Sprintf("custody %s %s < standing English bids + limit-bid deposits %s", post.bal(cl, d), d, n), map[string]interface{}{"event": e.String()})
		}
	}
	m.rec.Count("custody_absolute_form_checked", 1)
	// a block without a transaction of his never debits a user's wallet: an automatic fill of a limit bid is paid
	// from the deposit held in custody, an English bid was paid when it was placed
	if e.Kind == "block" {
		// an automatic fill takes from the deposits exactly what it takes off the filled auctions' remaining debt
		depositLaw(m.u, m.rec, "C11", pre, post, e)
		for _, ac := range m.u.c.Accts {
			for _, d := range m.u.denomList() {
				m.rec.Eval(1)
				if post.bal(ac.Name, d).Cmp(pre.bal(ac.Name, d)) < 0 {
					tag := "other-user"
					for _, lb := range pre.LimitBids {
						if lb.BidderAddress == ac.Addr.String() {
							tag = "limit-bidder"
						}
					}
					m.rec.Violate("C11/block/wallet-debited-without-transaction/"+tag, fmt.Sprintf("%s lost %s %s in a block in which nobody sent a transaction", ac.Name, bigSub(pre.bal(ac.Name, d), post.bal(ac.Name, d)), d),
						map[string]interface{}{"event": e.String(), "account": ac.Name, "denom": d})
				}
			}
		}
		m.rec.Count("blocks_checked_for_wallet_debits", 1)
		for _, lb := range pre.LimitBids {
			left := sdk.ZeroInt()
			for _, pb := range post.LimitBids {
				if pb.BidderAddress == lb.BidderAddress && pb.DebtTokenId == lb.DebtTokenId && pb.CollateralTokenId == lb.CollateralTokenId && pb.PremiumDiscount.Equal(lb.PremiumDiscount) {
					left = pb.DebtToken.Amount
				}
			}
			if left.LT(lb.DebtToken.Amount) {
				if left.IsZero() {
					m.rec.Count("limit_autofills_observed_whole_deposit", 1)
				} else {
					m.rec.Count("limit_autofills_observed_part_of_deposit", 1)
				}
			}
		}
	}
	if e.Kind != "tx" || !e.Res.OK() || e.Signer == nil {
		return
	}
	deposit := func(s *cdpSnap, debt, coll uint64, prem sdk.Int, who string) (*big.Int, string) {
		for _, lb := range s.LimitBids {
			if lb.DebtTokenId == debt && lb.CollateralTokenId == coll && lb.PremiumDiscount.Equal(prem) && lb.BidderAddress == who {
				return lb.DebtToken.Amount.BigInt(), lb.DebtToken.Denom
			}
		}
		return new(big.Int), ""
	}
	var own *big.Int
	var depDenom, kind string
	var req *big.Int
	fee := sdk.ZeroDec()
	switch x := e.Msg.(type) {
	case *auctionsV2types.MsgWithdrawLimitBidRequest:
		own, depDenom = deposit(pre, x.DebtTokenId, x.CollateralTokenId, x.PremiumDiscount, x.Bidder)
		kind, req = "withdraw", x.Amount.Amount.BigInt()
		fee = dec("0.01") // WithdrawalFee in the fixture
		if req.Cmp(own) == 0 {
			fee = dec("0.01") // a full withdrawal is a cancel: ClosingFee in the fixture
		}
		if x.Amount.Denom != depDenom {
			m.rec.Violate("C11/limit-bid/withdraw/other-denom-paid", fmt.Sprintf("deposit is in %s, withdrawal of %s accepted", depDenom, x.Amount), map[string]interface{}{"event": e.String()})
		}
	case *auctionsV2types.MsgCancelLimitBidRequest:
		own, depDenom = deposit(pre, x.DebtTokenId, x.CollateralTokenId, x.PremiumDiscount, x.Bidder)
		kind, req = "cancel", own
		fee = dec("0.01")
	default:
		return
	}
	m.rec.Eval(1)
	m.rec.Count("limit_"+kind+"_checked", 1)
	det := map[string]interface{}{"event": e.String(), "own_deposit_before": own.String(), "requested": req.String()}
	// the caller may gain coins only in the deposited asset, at most min(requested, own deposit) minus the stated fee
	for _, d := range cdpDenoms {
		got := bigSub(post.bal(e.Signer.Name, d), pre.bal(e.Signer.Name, d))
		if d != depDenom {
			if got.Sign() > 0 {
				det["denom"] = d
				m.rec.Violate("C11/limit-bid/"+kind+"/paid-in-another-asset", fmt.Sprintf("caller gained %s %s, deposit asset is %s", got, d, depDenom), det)
			}
			continue
		}
		base := req
		if own.Cmp(base) < 0 {
			base = own
		}
		if req.Cmp(own) > 0 {
			m.rec.Violate("C11/limit-bid/"+kind+"/amount-above-own-deposit-accepted", fmt.Sprintf("requested %s, own deposit %s", req, own), det)
		}
		maxPay := bigSub(base, floorMulDec(base, fee))
		if got.Cmp(maxPay) > 0 {
			m.rec.Violate("C11/limit-bid/"+kind+"/paid-more-than-deposit-less-fee", fmt.Sprintf("caller received %s, at most %s (own deposit part %s less the stated fee)", got, maxPay, base), det)
		}
		if got.Cmp(maxPay) < 0 && req.Cmp(own) <= 0 {
			m.rec.Violate("C11/limit-bid/"+kind+"/paid-less-than-deposit-less-fee", fmt.Sprintf("caller received %s, expected %s", got, maxPay), det)
		}
	}
	m.rec.Distinct("C11-limit", kind, req.Cmp(own), req.BitLen()/8)
}

func pnSame(prev *auctionsV2types.Bid, addr string) bool {
	return prev != nil && prev.BidderAddress == addr
}

func TestC11(t *testing.T) {
	rec := ev.New("C11", "exploration", "surplus and debt auctions of generation 2 opened by the real begin blocker from collector net fees (lot sizes reached by the fee-generating vault workload), 8 bidders with equal / barely improving / non-improving / large bids, auction duration 1 h against block gaps up to 2 h; limit-bid deposit / partial withdraw / cancel / automatic fill with attacker-chosen amount (deposit+1, 1000x, whole custody) and denom (seized collateral held by the module). distinct = (auction type, has previous bid, same bidder) and (limit op, amount vs deposit, magnitude)")
	defer finish(t, rec)
	runs := ev.Pick(2, 4)
	for run := 0; run < runs; run++ {
		variant := ev.ShardNo()*runs + run
		u := newCDP(t, cdpOpts{variant: variant})
		u.c.App.NewliqKeeper.SetParams(u.c.Ctx(), liqV2types.Params{LiquidationBatchSize: 200})
		rnd := rng("C11", run)
		cfg := cdpCfg{priceMoves: true, bids: true, lockers: false, unsolicited: false, liquidateMsg: true, unsafeBias: true, limitBids: true, reserve: variant%2 == 1, maxGap: 2 * 3600 * 1e9}
		r := newCdpRunner(u, rnd, rec, cfg, newC11Mon(u, rec))
		r.run(cdpSteps())
		if run == 0 {
			rec.Sample(map[string]interface{}{"variant": variant, "oplog_tail": r.tail(10)})
		}
		u.c.Close()
	}
	rec.Floor("limit_withdraw_checked", 10)
	rec.Floor("limit_cancel_checked", 3)
	rec.Floor("op_limit_withdraw_rejected", 5)
	rec.Floor("english_bids_accepted_surplus", 3)
	rec.Floor("english_refunds_checked", 2)
	rec.Floor("fill_deposit_law_checked", 10)
}
