package props

// In-situ part of C05, second half: every order TYPE (limit, market, market-making) against basic and
// ranged pools.  Orders and pools are created with real signed transactions; the real batch function
// keeper.ExecuteRequests runs between two snapshots; the laws are decided per stored order record:
//
//   - no order pays more than its offer coin            (RemainingOfferCoin never negative)
//   - no order is filled beyond its amount              (OpenAmount never negative)
//   - a matched order receives a strictly positive amount
//   - no order trades at a price worse than its own (stored) limit price by more than one smallest quote
//     unit per individual fill:  buy: paid <= price*filled + F,  sell: received >= price*filled - F
//   - what the records say was received is what the orderer's bank balance gained
//   - base coins are conserved between user orders and pool reserves, buyers pay at least what sellers get,
//     the difference is what the dust collector gained
//
// F, the number of individual fills an order can have had in ONE batch, is not observable on a running
// chain.  It is bounded from the structure of the matching loop: an order is filled at most once in the
// single-price pass and once per opposite tick in the two-sided pass, and every opposite tick holds at
// least one opposite order (a user order, or a pool order produced by the real amm.PoolOrders from the
// pre-batch reserves and the pair's price limits).  The bound used is 2*(2 + opposite orders).

import (
	"fmt"
	"math/big"
	"math/rand"
	"testing"
	"time"

	sdkmath "cosmossdk.io/math"
	sdk "github.com/cosmos/cosmos-sdk/types"

	assettypes "github.com/comdex-official/comdex/x/asset/types"
	"github.com/comdex-official/comdex/x/liquidity/amm"
	liqtypes "github.com/comdex-official/comdex/x/liquidity/types"

	"verif/ev"
	"verif/sim"
)

func c05InSituTypes(t *testing.T, rec *ev.Rec) {
	rnd := rng("C05-insitu-types")
	for i := 0; i < ev.Pick(3, 30); i++ {
		c05TypesChain(t, rec, rnd, 6)
	}
	for _, tn := range []string{"limit", "market", "mm"} {
		rec.Floor("types_price_limit_checks_"+tn, 40)
	}
	rec.Floor("types_batches_pool_traded_POOL_TYPE_RANGED", 10)
	rec.Floor("types_batches_pool_traded_POOL_TYPE_BASIC", 10)
	rec.Floor("types_balance_vs_record_checks", 200)
}

func c05OrderLive(o liqtypes.Order) bool {
	return o.Status == liqtypes.OrderStatusNotExecuted || o.Status == liqtypes.OrderStatusNotMatched || o.Status == liqtypes.OrderStatusPartiallyMatched
}

func c05TypesChain(t *testing.T, rec *ev.Rec, rnd *rand.Rand, nPairs int) {
	huge := sdkmath.NewIntWithDecimal(1, 40)
	var bal sdk.Coins
	for i := 0; i < nPairs; i++ {
		bal = bal.Add(sdk.NewCoin("bas"+c05AlphaLower(i), huge), sdk.NewCoin("quo"+c05AlphaLower(i), huge))
	}
	c := sim.New(sim.Options{NAccts: 40, Balances: bal})
	defer c.Close()
	ctx := c.Ctx()
	must(t, c.App.AssetKeeper.AddAppRecords(ctx, assettypes.AppData{Name: "verif", ShortName: "verif", MinGovDeposit: sdkmath.ZeroInt(), GovTimeInSeconds: 0, GenesisToken: []assettypes.MintGenesisToken{}}))
	apps, _ := c.App.AssetKeeper.GetApps(ctx)
	appID := apps[len(apps)-1].Id
	k := c.App.LiquidityKeeper
	prec := 2 + rnd.Intn(3)
	params := liqtypes.DefaultGenericParams(appID)
	params.BatchSize = 1 << 40 // the harness calls the batch function itself, between two snapshots
	params.TickPrecision = uint64(prec)
	params.SwapFeeRate = sdkmath.LegacyMustNewDecFromStr([]string{"0", "0.003", "0.05"}[rnd.Intn(3)])
	k.SetGenericParams(ctx, params)
	dust := liqtypes.DeriveDustCollectorAddress(appID)
	var history []string
	logf := func(f string, a ...interface{}) {
		history = append(history, fmt.Sprintf("h%d ", c.Header.Height)+fmt.Sprintf(f, a...))
		if len(history) > 60 {
			history = history[len(history)-60:]
		}
	}
	logf("tick_precision=%d swap_fee_rate=%s", prec, params.SwapFeeRate)
	type pairInfo struct {
		id          uint64
		base, quote string
		centre      sdkmath.LegacyDec
	}
	var pairs []pairInfo
	for i := 0; i < nPairs; i++ {
		base, quote := "bas"+c05AlphaLower(i), "quo"+c05AlphaLower(i)
		must(t, c.App.AssetKeeper.AddAssetRecords(c.Ctx(), assettypes.Asset{Name: "B" + c05Alpha(i), Denom: base, Decimals: sdkmath.NewInt(1_000_000), IsOnChain: true}))
		must(t, c.App.AssetKeeper.AddAssetRecords(c.Ctx(), assettypes.Asset{Name: "Q" + c05Alpha(i), Denom: quote, Decimals: sdkmath.NewInt(1_000_000), IsOnChain: true}))
		if res := c.Deliver(c.Accts[0], liqtypes.NewMsgCreatePair(appID, c.Accts[0].Addr, base, quote)); !res.OK() {
			t.Fatalf("harness set-up failed: create pair: %s", res.Log)
		}
		pair, _ := k.GetPairByDenoms(c.Ctx(), appID, base, quote)
		centre := amm.PriceToDownTick(sdkmath.LegacyMustNewDecFromStr([]string{"0.0731", "0.5", "1", "2.37", "19.3", "412"}[rnd.Intn(6)]), prec)
		pairs = append(pairs, pairInfo{pair.Id, base, quote, centre})
		// pools: basic, ranged, both or none
		kind := rnd.Intn(5)
		ry := sdkmath.NewIntFromBigInt(c05Digits(rnd, 8, 13))
		rx := centre.MulInt(ry).TruncateInt()
		coins := sdk.NewCoins(sdk.NewCoin(base, ry), sdk.NewCoin(quote, rx))
		if kind == 0 || kind == 2 {
			r := c.Deliver(c.Accts[1], liqtypes.NewMsgCreatePool(appID, c.Accts[1].Addr, pair.Id, coins))
			logf("pair %d create basic pool %s ok=%v", pair.Id, coins, r.OK())
			if r.OK() {
				rec.Count("types_pools_basic", 1)
			}
		}
		if kind >= 1 && kind <= 3 {
			lo := amm.PriceToDownTick(centre.Mul(sdkmath.LegacyMustNewDecFromStr([]string{"0.8", "0.95", "0.5", "0.99"}[rnd.Intn(4)])), prec)
			hi := amm.PriceToUpTick(centre.Mul(sdkmath.LegacyMustNewDecFromStr([]string{"1.25", "1.05", "2", "1.01"}[rnd.Intn(4)])), prec)
			init := centre
			switch rnd.Intn(6) {
			case 0:
				init = lo
			case 1:
				init = hi
			}
			r := c.Deliver(c.Accts[2], liqtypes.NewMsgCreateRangedPool(appID, c.Accts[2].Addr, pair.Id, coins, lo, hi, init))
			logf("pair %d create ranged pool %s range=[%s,%s] init=%s ok=%v", pair.Id, coins, lo, hi, init, r.OK())
			if r.OK() {
				rec.Count("types_pools_ranged", 1)
			}
		}
	}
	rate := params.SwapFeeRate
	withFee := func(x sdkmath.Int) sdkmath.Int { return x.Add(rate.MulInt(x).Ceil().TruncateInt()).AddRaw(2) }
	users := c.Accts[3:]
	nextUser := 0
	pick := func() *sim.Acct { a := users[nextUser%len(users)]; nextUser++; return a }
	nBatches := 5 + rnd.Intn(4)
	for batch := 1; batch <= nBatches; batch++ {
		for _, p := range pairs {
			pair, _ := k.GetPair(c.Ctx(), appID, p.id)
			ref := p.centre
			if pair.LastPrice != nil {
				ref = *pair.LastPrice
			}
			for n := rnd.Intn(5); n > 0; n-- {
				a := pick()
				buy := rnd.Intn(2) == 0
				dir, offerDenom, demand := liqtypes.OrderDirectionSell, p.base, p.quote
				if buy {
					dir, offerDenom, demand = liqtypes.OrderDirectionBuy, p.quote, p.base
				}
				minAmt := sdkmath.LegacyNewDec(120).Quo(ref).Ceil().TruncateInt().AddRaw(100)
				var amt sdkmath.Int
				switch rnd.Intn(5) {
				case 0:
					amt = minAmt.AddRaw(int64(rnd.Intn(50)))
				case 1:
					amt = minAmt.MulRaw(int64(2 + rnd.Intn(50))).AddRaw(int64(rnd.Intn(97)))
				case 2:
					amt = minAmt.Add(sdkmath.NewIntFromBigInt(c05Digits(rnd, 9, 20)))
				default:
					amt = minAmt.Add(sdkmath.NewIntFromBigInt(c05Digits(rnd, 4, 9)))
				}
				life := []time.Duration{0, 0, 6 * time.Second, time.Minute, time.Hour}[rnd.Intn(5)]
				switch x := rnd.Intn(10); {
				case x < 4: // limit order around the reference price
					off := sdkmath.LegacyMustNewDecFromStr([]string{"-0.03", "-0.01", "0", "0", "0.01", "0.02", "0.06"}[rnd.Intn(7)])
					price := ref.Mul(sdkmath.LegacyOneDec().Add(off))
					if !buy {
						price = ref.Mul(sdkmath.LegacyOneDec().Sub(off))
					}
					price = amm.PriceToDownTick(price, prec)
					offer := withFee(amm.OfferCoinAmount(amm.OrderDirection(dir), price, amt))
					r := c.Deliver(a, liqtypes.NewMsgLimitOrder(appID, a.Addr, p.id, dir, sdk.NewCoin(offerDenom, offer), demand, price, amt, life))
					logf("pair %d limit %s by %s price=%s amt=%s offer=%s life=%s ok=%v %s", p.id, liqDirName(dir), a.Name, price, amt, offer, life, r.OK(), c05ShortErr(r))
					if r.OK() {
						rec.Count("types_orders_placed_limit", 1)
					}
				case x < 7: // market order (needs a last price)
					if pair.LastPrice == nil {
						continue
					}
					maxP := ref.Mul(sdkmath.LegacyMustNewDecFromStr("1.12"))
					offer := withFee(amm.OfferCoinAmount(amm.OrderDirection(dir), maxP, amt))
					r := c.Deliver(a, liqtypes.NewMsgMarketOrder(appID, a.Addr, p.id, dir, sdk.NewCoin(offerDenom, offer), demand, amt, life))
					logf("pair %d market %s by %s amt=%s offer=%s life=%s ok=%v %s", p.id, liqDirName(dir), a.Name, amt, offer, life, r.OK(), c05ShortErr(r))
					if r.OK() {
						rec.Count("types_orders_placed_market", 1)
					}
				default: // market-making order: a ladder of buys below and sells above (sometimes crossing) the reference
					d := func(s string) sdkmath.LegacyDec { return sdkmath.LegacyMustNewDecFromStr(s) }
					lo, bhi, slo, hi := "0.95", "0.995", "1.005", "1.05"
					switch rnd.Intn(4) {
					case 0:
						bhi, slo = "1.02", "0.98" // crossing
					case 1:
						lo, bhi, slo, hi = "0.99", "0.99", "1.01", "1.01" // one tick each side
					}
					minBuy, maxBuy := amm.PriceToDownTick(ref.Mul(d(lo)), prec), amm.PriceToDownTick(ref.Mul(d(bhi)), prec)
					minSell, maxSell := amm.PriceToDownTick(ref.Mul(d(slo)), prec), amm.PriceToDownTick(ref.Mul(d(hi)), prec)
					if maxBuy.LT(minBuy) {
						maxBuy = minBuy
					}
					if maxSell.LT(minSell) {
						maxSell = minSell
					}
					sellAmt, buyAmt := amt.MulRaw(int64(10+rnd.Intn(40))), amt.MulRaw(int64(10+rnd.Intn(40)))
					mmLife := []time.Duration{time.Minute, time.Hour}[rnd.Intn(2)]
					r := c.Deliver(a, liqtypes.NewMsgMMOrder(appID, a.Addr, p.id, maxSell, minSell, sellAmt, maxBuy, minBuy, buyAmt, mmLife))
					logf("pair %d mm by %s sell[%s..%s]x%s buy[%s..%s]x%s ok=%v %s", p.id, a.Name, minSell, maxSell, sellAmt, minBuy, maxBuy, buyAmt, r.OK(), c05ShortErr(r))
					if r.OK() {
						rec.Count("types_orders_placed_mm_messages", 1)
					}
				}
			}
		}
		c05TypesBatch(c, rec, appID, params, dust, history)
		logf("batch %d executed (keeper.ExecuteRequests)", batch)
		c.NextBlock([]time.Duration{6 * time.Second, 6 * time.Second, 70 * time.Second}[rnd.Intn(3)])
	}
	rec.Count("types_chains", 1)
}

func c05ShortErr(r sim.TxResult) string {
	if r.OK() {
		return ""
	}
	return liqShort(r.Log)
}

// c05TypesBatch runs one batch of the whole app between two snapshots and judges it.
func c05TypesBatch(c *sim.Chain, rec *ev.Rec, appID uint64, params liqtypes.GenericParams, dust sdk.AccAddress, history []string) {
	k := c.App.LiquidityKeeper
	ctx := c.Ctx()
	prec := int(params.TickPrecision)
	type pairState struct {
		pair          liqtypes.Pair
		pools         []liqtypes.Pool
		resBase       []*big.Int
		resQuote      []*big.Int
		oppSell       int // sell-side orders a buy order can meet (user + pool)
		oppBuy        int
		dustQuote     *big.Int
		poolBuyOrders int
	}
	pre := map[uint64]liqtypes.Order{} // by pair<<32|id
	key := func(o liqtypes.Order) uint64 { return o.PairId<<32 | o.Id }
	states := map[uint64]*pairState{}
	var pairIDs []uint64
	balOf := func(addr sdk.AccAddress, denom string) *big.Int { return c.Bal(addr, denom).BigInt() }
	for _, pair := range k.GetAllPairs(ctx, appID) {
		st := &pairState{pair: pair, dustQuote: balOf(dust, pair.QuoteCoinDenom)}
		states[pair.Id] = st
		pairIDs = append(pairIDs, pair.Id)
		for _, o := range k.GetOrdersByPair(ctx, appID, pair.Id) {
			if !c05OrderLive(o) {
				continue
			}
			pre[key(o)] = o
			if o.Direction == liqtypes.OrderDirectionBuy {
				st.oppBuy++
			} else {
				st.oppSell++
			}
		}
		for _, pool := range k.GetPoolsByPair(ctx, appID, pair.Id) {
			st.pools = append(st.pools, pool)
			st.resBase = append(st.resBase, balOf(pool.GetReserveAddress(), pair.BaseCoinDenom))
			st.resQuote = append(st.resQuote, balOf(pool.GetReserveAddress(), pair.QuoteCoinDenom))
			if pool.Disabled {
				continue
			}
			// the pool orders the batch will see, produced by the real functions from the pre-batch state
			func() {
				defer func() { _ = recover() }()
				rx, ry := k.GetPoolBalances(ctx, pool)
				ps := k.GetPoolCoinSupply(ctx, pool)
				po := liqtypes.NewPoolOrderer(pool.AMMPool(rx.Amount, ry.Amount, ps), pool.Id, pool.GetReserveAddress(), pair.BaseCoinDenom, pair.QuoteCoinDenom)
				if pair.LastPrice == nil {
					st.oppBuy++
					st.oppSell++
					return
				}
				lowest, highest := k.PriceLimits(ctx, *pair.LastPrice, params)
				for _, o := range amm.PoolOrders(po, po, lowest, highest, prec) {
					if o.GetDirection() == amm.Buy {
						st.oppBuy++
					} else {
						st.oppSell++
					}
				}
			}()
		}
	}
	// bank balances of every orderer, per denomination of its orders
	type ad struct{ addr, denom string }
	preBal := map[ad]*big.Int{}
	for _, o := range pre {
		for _, d := range []string{o.OfferCoin.Denom, o.ReceivedCoin.Denom} {
			preBal[ad{o.Orderer, d}] = balOf(o.GetOrderer(), d)
		}
	}
	var panicked interface{}
	func() {
		defer func() { panicked = recover() }()
		cctx, write := ctx.CacheContext()
		k.ExecuteRequests(cctx, appID)
		write()
	}()
	rec.Count("types_batches", 1)
	if panicked != nil {
		rec.Count("types_batches_panicked", 1)
		if rec.Get("types_batches_panicked") <= 2 {
			rec.Note(fmt.Sprintf("in-situ (order types) ExecuteRequests panic: %v; history %v", panicked, history))
		}
		// every order in the book came from an accepted message: a batch the keeper cannot apply means the matcher
		// handed out a result outside an order's bounds (e.g. a payment above the offer coin makes the remaining offer
		// coin negative); on the chain the whole app's batch is rolled back in every block
		rec.Eval(1)
		rec.Violate("C05/in-situ/order-types/batch-execution-panicked/"+panicClass(panicked), fmt.Sprintf("keeper.ExecuteRequests panicked on a book of accepted orders: %v", panicked), map[string]interface{}{"history": append([]string(nil), history...), "app": appID})
		return
	}
	witness := func(extra map[string]interface{}) map[string]interface{} {
		w := map[string]interface{}{"history": append([]string(nil), history...), "app": appID}
		for k, v := range extra {
			w[k] = v
		}
		return w
	}
	typeName := func(o liqtypes.Order) string {
		switch o.Type {
		case liqtypes.OrderTypeLimit:
			return "limit"
		case liqtypes.OrderTypeMarket:
			return "market"
		case liqtypes.OrderTypeMM:
			return "mm"
		}
		return "other"
	}
	// per pair sums
	type sums struct{ buyFilled, sellFilled, buyPaid, sellRecv *big.Int }
	per := map[uint64]*sums{}
	recvBy := map[ad]*big.Int{}
	finished := map[string]bool{}
	for _, pid := range pairIDs {
		per[pid] = &sums{new(big.Int), new(big.Int), new(big.Int), new(big.Int)}
	}
	for _, o0 := range c05SortedOrders(pre) {
		o1, found := k.GetOrder(ctx, appID, o0.PairId, o0.Id)
		if !found {
			rec.Count("types_order_record_missing_after_batch", 1)
			finished[o0.Orderer] = true
			continue
		}
		rec.Eval(1)
		st := states[o0.PairId]
		tn := typeName(o0)
		buy := o0.Direction == liqtypes.OrderDirectionBuy
		filled := new(big.Int).Sub(o0.OpenAmount.BigInt(), o1.OpenAmount.BigInt())
		paid := new(big.Int).Sub(o0.RemainingOfferCoin.Amount.BigInt(), o1.RemainingOfferCoin.Amount.BigInt())
		recv := new(big.Int).Sub(o1.ReceivedCoin.Amount.BigInt(), o0.ReceivedCoin.Amount.BigInt())
		desc := fmt.Sprintf("pair %d order %d type=%s dir=%s price=%s amount=%s offer=%s | before: open=%s remaining=%s received=%s status=%s | after: open=%s remaining=%s received=%s status=%s",
			o0.PairId, o0.Id, tn, o0.Direction, o0.Price, o0.Amount, o0.OfferCoin, o0.OpenAmount, o0.RemainingOfferCoin, o0.ReceivedCoin, o0.Status, o1.OpenAmount, o1.RemainingOfferCoin, o1.ReceivedCoin, o1.Status)
		if !c05OrderLive(o1) {
			finished[o0.Orderer] = true
		}
		if o1.RemainingOfferCoin.Amount.IsNegative() || o1.OfferCoin.Amount.LT(o1.OfferCoin.Amount.Sub(o1.RemainingOfferCoin.Amount)) {
			rec.Violate("C05/in-situ/"+tn+"-order/paid-more-than-offer-coin", fmt.Sprintf("order %d of pair %d", o0.Id, o0.PairId), witness(map[string]interface{}{"order": desc}))
		}
		if o1.OpenAmount.IsNegative() || filled.Sign() < 0 || paid.Sign() < 0 || recv.Sign() < 0 {
			rec.Violate("C05/in-situ/"+tn+"-order/filled-beyond-its-amount", fmt.Sprintf("order %d of pair %d", o0.Id, o0.PairId), witness(map[string]interface{}{"order": desc}))
			continue
		}
		if filled.Sign() == 0 {
			if paid.Sign() != 0 || recv.Sign() != 0 {
				rec.Violate("C05/in-situ/"+tn+"-order/coins-moved-without-fill", fmt.Sprintf("order %d of pair %d: paid %s received %s with no base filled", o0.Id, o0.PairId, paid, recv), witness(map[string]interface{}{"order": desc}))
			}
			continue
		}
		rec.Count("types_orders_filled_"+tn, 1)
		if st != nil {
			rec.Distinct("C05-types", tn, buy, len(st.pools), o1.OpenAmount.IsZero(), len(filled.Text(10)))
		}
		if recv.Sign() <= 0 {
			rec.Violate("C05/in-situ/"+tn+"-order/matched-order-received-nothing", fmt.Sprintf("order %d of pair %d filled %s base and received %s", o0.Id, o0.PairId, filled, recv), witness(map[string]interface{}{"order": desc}))
		}
		// limit price, with one quote unit per possible individual fill
		opp := st.oppSell
		if !buy {
			opp = st.oppBuy
		}
		F := new(big.Rat).SetInt64(int64(2 * (2 + opp)))
		lim := new(big.Rat).Mul(c05Rat(o0.Price), new(big.Rat).SetInt(filled))
		if buy {
			// pays quote, receives base: received == filled, paid <= price*filled + F
			if recv.Cmp(filled) != 0 {
				rec.Violate("C05/in-situ/"+tn+"-order/buy-received-differs-from-filled", fmt.Sprintf("order %d of pair %d: filled %s, received %s", o0.Id, o0.PairId, filled, recv), witness(map[string]interface{}{"order": desc}))
			}
			if new(big.Rat).SetInt(paid).Cmp(new(big.Rat).Add(lim, F)) > 0 {
				rec.Violate("C05/in-situ/"+tn+"-order/buy-paid-above-limit-price", fmt.Sprintf("order %d of pair %d paid %s quote for %s base at limit %s (bound %s + %s)", o0.Id, o0.PairId, paid, filled, o0.Price, lim.FloatString(3), F.FloatString(0)),
					witness(map[string]interface{}{"order": desc, "opposite_orders_in_book": opp}))
			}
			per[o0.PairId].buyFilled.Add(per[o0.PairId].buyFilled, filled)
			per[o0.PairId].buyPaid.Add(per[o0.PairId].buyPaid, paid)
		} else {
			if paid.Cmp(filled) != 0 {
				rec.Violate("C05/in-situ/"+tn+"-order/sell-paid-differs-from-filled", fmt.Sprintf("order %d of pair %d: filled %s, paid %s", o0.Id, o0.PairId, filled, paid), witness(map[string]interface{}{"order": desc}))
			}
			if new(big.Rat).SetInt(recv).Cmp(new(big.Rat).Sub(lim, F)) < 0 {
				rec.Violate("C05/in-situ/"+tn+"-order/sell-received-below-limit-price", fmt.Sprintf("order %d of pair %d received %s quote for %s base at limit %s (bound %s - %s)", o0.Id, o0.PairId, recv, filled, o0.Price, lim.FloatString(3), F.FloatString(0)),
					witness(map[string]interface{}{"order": desc, "opposite_orders_in_book": opp}))
			}
			per[o0.PairId].sellFilled.Add(per[o0.PairId].sellFilled, filled)
			per[o0.PairId].sellRecv.Add(per[o0.PairId].sellRecv, recv)
		}
		rec.Count("types_price_limit_checks_"+tn, 1)
		kk := ad{o0.Orderer, o0.ReceivedCoin.Denom}
		if recvBy[kk] == nil {
			recvBy[kk] = new(big.Int)
		}
		recvBy[kk].Add(recvBy[kk], recv)
	}
	// the records are what the bank did (accounts none of whose orders ended in this batch: no refunds mixed in)
	for _, kk := range c05SortedAD(preBal) {
		if finished[kk.addr] {
			continue
		}
		addr, _ := sdk.AccAddressFromBech32(kk.addr)
		got := new(big.Int).Sub(balOf(addr, kk.denom), preBal[kk])
		want := recvBy[kk]
		if want == nil {
			want = new(big.Int)
		}
		rec.Eval(1)
		rec.Count("types_balance_vs_record_checks", 1)
		if got.Cmp(want) != 0 {
			rec.Violate("C05/in-situ/order-types/balance-delta-differs-from-recorded-receipts", fmt.Sprintf("%s gained %s%s over the batch, its order records say %s", kk.addr, got, kk.denom, want), witness(nil))
		}
	}
	// conservation per pair
	for _, pid := range pairIDs {
		st, s := states[pid], per[pid]
		poolBaseIn, poolBaseOut, poolQuoteIn, poolQuoteOut := new(big.Int), new(big.Int), new(big.Int), new(big.Int)
		for i, pool := range st.pools {
			db := new(big.Int).Sub(balOf(pool.GetReserveAddress(), st.pair.BaseCoinDenom), st.resBase[i])
			dq := new(big.Int).Sub(balOf(pool.GetReserveAddress(), st.pair.QuoteCoinDenom), st.resQuote[i])
			if db.Sign() > 0 {
				poolBaseIn.Add(poolBaseIn, db)
			} else {
				poolBaseOut.Sub(poolBaseOut, db)
			}
			if dq.Sign() > 0 {
				poolQuoteIn.Add(poolQuoteIn, dq)
			} else {
				poolQuoteOut.Sub(poolQuoteOut, dq)
			}
			if db.Sign() != 0 {
				rec.Count("types_batches_pool_traded_"+pool.Type.String(), 1)
			}
		}
		got := new(big.Int).Add(s.buyFilled, poolBaseIn)
		gave := new(big.Int).Add(s.sellFilled, poolBaseOut)
		if got.Sign() == 0 && gave.Sign() == 0 {
			continue
		}
		rec.Eval(1)
		rec.Count("types_pair_batches_matched", 1)
		dDust := new(big.Int).Sub(balOf(dust, st.pair.QuoteCoinDenom), st.dustQuote)
		w := witness(map[string]interface{}{"pair": pid, "buy_orders_filled_base": s.buyFilled.String(), "sell_orders_filled_base": s.sellFilled.String(), "pools_base_in": poolBaseIn.String(), "pools_base_out": poolBaseOut.String(),
			"buy_orders_paid_quote": s.buyPaid.String(), "sell_orders_received_quote": s.sellRecv.String(), "pools_quote_in": poolQuoteIn.String(), "pools_quote_out": poolQuoteOut.String(), "dust_collector_quote_delta": dDust.String()})
		if got.Cmp(gave) != 0 {
			rec.Violate("C05/in-situ/order-types/base-not-conserved", fmt.Sprintf("pair %d: buyers and pools received %s base, sellers and pools gave %s", pid, got, gave), w)
		}
		q := new(big.Int).Add(s.buyPaid, poolQuoteOut)
		q.Sub(q, s.sellRecv).Sub(q, poolQuoteIn)
		if q.Sign() < 0 {
			rec.Violate("C05/in-situ/order-types/quote-buyers-paid-less-than-sellers-received", fmt.Sprintf("pair %d: quote paid minus quote received = %s", pid, q), w)
		}
		if q.Cmp(dDust) != 0 {
			rec.Violate("C05/in-situ/order-types/quote-diff-mismatch", fmt.Sprintf("pair %d: quote paid minus quote received = %s, dust collector gained %s", pid, q, dDust), w)
		}
	}
}

func c05SortedOrders(m map[uint64]liqtypes.Order) []liqtypes.Order {
	keys := make([]uint64, 0, len(m))
	for k := range m {
		keys = append(keys, k)
	}
	sortUint64s(keys)
	out := make([]liqtypes.Order, 0, len(m))
	for _, k := range keys {
		out = append(out, m[k])
	}
	return out
}

func sortUint64s(s []uint64) {
	for i := 1; i < len(s); i++ {
		for j := i; j > 0 && s[j] < s[j-1]; j-- {
			s[j], s[j-1] = s[j-1], s[j]
		}
	}
}

func c05SortedAD[T comparable, V any](m map[T]V) []T {
	out := make([]T, 0, len(m))
	for k := range m {
		out = append(out, k)
	}
	// deterministic order by formatted key
	for i := 1; i < len(out); i++ {
		for j := i; j > 0 && fmt.Sprint(out[j]) < fmt.Sprint(out[j-1]); j-- {
			out[j], out[j-1] = out[j-1], out[j]
		}
	}
	return out
}

// TestC05Types runs the order-type part alone (development aid; ./check runs TestC05).
func TestC05Types(t *testing.T) {
	rec := ev.New("C05T", "exploration", "order types in situ only")
	defer finish(t, rec)
	c05InSituTypes(t, rec)
}
