package props

import (
	"fmt"
	"math/rand"
	"testing"
	"time"

	sdk "github.com/cosmos/cosmos-sdk/types"

	auctionsV2types "github.com/comdex-official/comdex/x/auctionsV2/types"

	liqV2types "github.com/comdex-official/comdex/x/liquidationsV2/types"

	"verif/ev"
)

func TestC15(t *testing.T) {
	rec := ev.New("C15", "fault_enumeration", "(1) panic-escape monitor on every begin/end block of the mixed workloads; (2) crash-point enumeration: at sampled block boundaries the begin- and end-block hooks are re-run on forks of the committed state under the spy multistore with a panic injected before the k-th KV operation of the s-th wrapped step, for every step s and every k (exhaustive per explored block); (3) environment faults applied to reachable states before blocks; (4) the CDP workload on the real bandoracle->market feed with zero-rate outages, band outages, short responses and absurd values. distinct = (universe, step call site, k, committed?, #writes)")
	defer finish(t, rec)
	runs := ev.Pick(1, 3)
	boundaries := ev.Pick(3, 10)
	for run := 0; run < runs; run++ {
		variant := ev.ShardNo()*runs + run
		u := newCDP(t, cdpOpts{variant: variant})
		u.c.App.NewliqKeeper.SetParams(u.c.Ctx(), liqV2types.Params{LiquidationBatchSize: uint64([]int{200, 3}[variant%2])})
		rnd := rng("C15", run)
		cfg := cdpCfg{priceMoves: true, bids: true, lockers: true, unsolicited: true, liquidateMsg: true, limitBids: true, reserve: true, maxGap: 3 * 3600 * 1e9}
		r := newCdpRunner(u, rnd, rec, cfg)
		r.panicIsViolation = true
		per := cdpSteps() / (boundaries + 1)
		for b := 0; b < boundaries && !r.panicked; b++ {
			r.run(per)
			if r.panicked {
				break
			}
			// make sure there is work for the hooks: a price drop right before the boundary
			r.priceMove()
			exploreAtBoundary(u.c, rec, time.Duration(5+rnd.Intn(4000))*time.Second, "cdp", ev.Pick(1500, 20000))
			r.last = u.snap()
		}
		r.run(per)
		// the emergency-shutdown hooks (price snapshot, redemption of vaults / stable-mint vaults / collector, shares)
		r.beforeEsmRedemption = func() {
			exploreAtBoundary(u.c, rec, 20*time.Minute, "cdp-esm-redemption", ev.Pick(2500, 20000))
			rec.Count("esm_redemption_blocks_explored", 1)
		}
		r.esmPhase(u.cdpApps[variant%len(u.cdpApps)])
		if run == 0 {
			rec.Sample(map[string]interface{}{"variant": variant, "oplog_tail": r.tail(8)})
		}
		u.c.Close()
	}
	c15OtherUniverses(t, rec)
	c15EnvFaults(t, rec)
	c15OracleFeed(t, rec)
	c15EnvFaultsOther(t, rec)
	c15Rewards(t, rec)
	c15LendDayBoundary(t, rec)
	c15TwoFills(t, rec)
	rec.SetExhaustive(false)
	rec.Floor("crash_points_injected", 200)
	rec.Floor("explored_blocks_begin", 2)
	rec.Floor("fork_validation_ok", 2)
	rec.Floor("lend_day_boundaries_crossed", 2)
}

// c15EnvFaults applies the environment faults the statement lists to reachable
// states right before a block and lets the real begin/end block hooks run.
func c15EnvFaults(t *testing.T, rec *ev.Rec) {
	rnd := rng("C15-env")
	episodes := ev.Pick(10, 80)
	for epi := 0; epi < episodes; epi++ {
		variant := ev.ShardNo()*episodes + epi
		u := newCDP(t, cdpOpts{variant: variant})
		u.c.App.NewliqKeeper.SetParams(u.c.Ctx(), liqV2types.Params{LiquidationBatchSize: uint64([]int{200, 2, 5}[variant%3])})
		hand := newC09Mon(u, rec, 200)
		hand.prefix, hand.handOnly = "C15/unit-half-applied", true
		cfg := cdpCfg{priceMoves: true, bids: true, lockers: true, liquidateMsg: true, limitBids: true, maxGap: 3 * 3600 * 1e9}
		r := newCdpRunner(u, rnd, rec, cfg, hand)
		r.panicIsViolation = true
		r.run(60 + rnd.Intn(ev.Pick(200, 500)))
		for f := 0; f < 4 && !r.panicked; f++ {
			kind := c15ApplyFault(r, rnd)
			rec.Count("env_fault_"+kind, 1)
			rec.Distinct("C15-env", kind, len(r.last.Vaults)/4, len(r.last.AucV2), len(r.last.DutchV1))
			r.block(time.Duration(5+rnd.Intn(5000)) * time.Second)
			rec.Eval(1)
			rec.Count("env_faulted_blocks", 1)
			r.run(10)
		}
		if epi == 0 {
			rec.Sample(map[string]interface{}{"mode": "environment-faults", "oplog_tail": r.tail(10)})
		}
		u.c.Close()
	}
	rec.Floor("env_faulted_blocks", 20)
}

func c15ApplyFault(r *cdpRunner, rnd *rand.Rand) string {
	u := r.u
	c := u.c
	sink := sdk.AccAddress([]byte("verif-fault-sink----"))
	switch k := rnd.Intn(11); k {
	case 0: // some prices inactive
		n := 1 + rnd.Intn(4)
		for i := 0; i < n; i++ {
			as := u.assets[rnd.Intn(len(u.assets))]
			p, _ := u.price(as)
			r.env("fault", "price inactive "+as.Denom, func() { u.setPrice(as.Denom, p, false) })
		}
		return "price-inactive"
	case 1: // price record absent
		as := u.assets[rnd.Intn(len(u.assets))]
		r.env("fault", "price absent "+as.Denom, func() { c.App.MarketKeeper.DeleteTwaData(c.Ctx(), as.ID) })
		return "price-absent"
	case 2: // active price of zero
		as := u.assets[rnd.Intn(len(u.assets))]
		r.env("fault", "price zero "+as.Denom, func() { u.setPrice(as.Denom, 0, true) })
		return "price-zero"
	case 3, 4: // a module account drained (fully, or down to one coin)
		// an account that actually holds something
		type held struct{ mod, d string }
		var cands []held
		for _, mm := range cdpModules {
			for _, dd := range cdpDenoms {
				if c.Bal(c.ModAddr(mm), dd).IsPositive() {
					cands = append(cands, held{mm, dd})
				}
			}
		}
		if len(cands) == 0 {
			return "drain-nothing-to-drain"
		}
		pick := cands[rnd.Intn(len(cands))]
		mod, d := pick.mod, pick.d
		bal := c.Bal(c.ModAddr(mod), d)
		amt := bal
		if k == 4 && bal.GT(sdk.OneInt()) {
			amt = bal.SubRaw(1)
		}
		r.env("fault", fmt.Sprintf("drain %s of %s%s", mod, amt, d), func() {
			_ = c.App.BankKeeper.SendCoinsFromModuleToAccount(c.Ctx(), mod, sink, sdk.NewCoins(sdk.NewCoin(d, amt)))
		})
		return "module-account-drained"
	case 5: // vault counter disagrees with the stored list
		n := uint64(len(r.last.Vaults))
		var nv uint64
		switch rnd.Intn(4) {
		case 0:
			nv = n + 1
		case 1:
			nv = n + uint64(2+rnd.Intn(50))
		case 2:
			if n > 0 {
				nv = n - 1
			}
		default:
			nv = 0
		}
		r.env("fault", fmt.Sprintf("vault counter %d -> %d", n, nv), func() { c.App.VaultKeeper.SetLengthOfVault(c.Ctx(), nv) })
		return "vault-counter-disagrees"
	case 6: // generation-2 auction parameters missing
		r.env("fault", "auctionsV2 params deleted", func() {
			c.Ctx().KVStore(c.App.GetKey(auctionsV2types.StoreKey)).Delete(auctionsV2types.AuctionParamsKey)
		})
		return "auction-params-missing"
	case 7: // generation-2 liquidation whitelisting of the app removed / Dutch disabled
		r.env("fault", "liquidation whitelisting changed", func() {
			w, _ := c.App.NewliqKeeper.GetLiquidationWhiteListing(c.Ctx(), appBeacon)
			w.AppId = appBeacon
			w.IsDutchActivated = rnd.Intn(2) == 0
			w.IsEnglishActivated = rnd.Intn(2) == 0
			c.App.NewliqKeeper.SetLiquidationWhiteListing(c.Ctx(), w)
		})
		return "whitelisting-changed"
	case 8, 9: // positions turn unsafe while exactly one of the feeds an auction needs is down
		for _, as := range u.assets {
			if as.Mint || as.Denom == "uusdc" || as.Denom == "adai" {
				continue
			}
			p, _ := u.price(as)
			as := as
			r.env("fault", "crash "+as.Denom, func() { u.setPrice(as.Denom, p/3+1, true) })
		}
		down := u.byDenom[[]string{"ucmst", "ucmtw", "uatom", "ucmdx"}[rnd.Intn(4)]]
		if down != nil {
			p, _ := u.price(down)
			r.env("fault", "price inactive "+down.Denom, func() { u.setPrice(down.Denom, p, false) })
		}
		return "unsafe-positions-with-one-feed-down"
	default: // all prices crash together with a long time gap (restarts, interest)
		for _, as := range u.assets {
			if as.Mint {
				continue
			}
			p, _ := u.price(as)
			np := p / uint64(2+rnd.Intn(20))
			if np == 0 {
				np = 1
			}
			as := as
			r.env("fault", "crash "+as.Denom, func() { u.setPrice(as.Denom, np, true) })
		}
		return "market-crash"
	}
}

// c15OtherUniverses: crash-point enumeration and panic-escape monitoring on the liquidity and the lend universes.
func c15OtherUniverses(t *testing.T, rec *ev.Rec) {
	v := ev.ShardNo()
	// ---- liquidity: per-app batch execution / request clean-up steps in the end blocker, fee conversion in the begin blocker
	{
		w := liqNewWorld(t, ev.NewScratch(), rng("C15-liq-setup", v), v, nil)
		w.rnd = rng("C15-liq", v)
		panicked := false
		w.c.PanicHook = func(phase string, h int64, p interface{}) {
			panicked = true
			rec.Violate(fmt.Sprintf("C15/panic-escape/%s/%s", phase, panicClass(p)), fmt.Sprintf("liquidity universe: %s at height %d panicked: %v", phase, h, p), map[string]interface{}{"stack": comdexFrames(w.c.LastPanicStack), "last_ops": append([]string(nil), w.trace...)})
		}
		for b := 0; b < ev.Pick(2, 6) && !panicked; b++ {
			for i := 0; i < ev.Pick(12, 40) && !panicked; i++ {
				for k := w.rnd.Intn(7); k > 0; k-- {
					w.randomOp()
				}
				w.nextBlock(w.blockGap())
			}
			if panicked {
				break
			}
			for k := 0; k < 6; k++ {
				w.randomOp() // requests and orders pending for the explored end block
			}
			exploreAtBoundary(w.c, rec, w.blockGap(), "liquidity", ev.Pick(1200, 15000))
			w.committed = false
		}
		// every 150th height the begin blocker converts the accumulated swap fees of each app (it places orders):
		// explore that block too
		for (w.c.Header.Height+1)%150 != 0 && !panicked {
			if w.rnd.Intn(3) == 0 {
				w.randomOp()
			}
			w.nextBlock(6 * time.Second)
		}
		if !panicked {
			exploreAtBoundary(w.c, rec, 6*time.Second, "liquidity-fee-conversion", ev.Pick(1200, 15000))
			w.committed = false
			rec.Count("fee_conversion_blocks_explored", 1)
		}
		w.c.Close()
	}
	// ---- lend: interest / reward iteration, generation-2 borrow liquidation (wrapped per borrow), auctions of seized borrows
	{
		e := c08Setup(t, ev.NewScratch(), rng("C15-lend-setup", v), 0, v%3, true)
		e.rnd = rng("C15-lend", v)
		e.c.PanicHook = func(phase string, h int64, p interface{}) {
			e.panicked = true
			rec.Violate(fmt.Sprintf("C15/panic-escape/%s/%s", phase, panicClass(p)), fmt.Sprintf("lend universe: %s at height %d panicked: %v", phase, h, p), map[string]interface{}{"stack": comdexFrames(e.c.LastPanicStack), "history_tail": e.tail(6)})
		}
		for b := 0; b < ev.Pick(2, 6) && !e.panicked; b++ {
			for i := 0; i < ev.Pick(200, 700) && !e.panicked; i++ {
				if e.rnd.Intn(100) < 30 {
					e.blockStep()
				} else {
					e.txStep()
				}
			}
			if e.panicked {
				break
			}
			// a crash right before the boundary so that borrow liquidations are pending
			for _, id := range e.u.Order {
				if d := e.u.Assets[id].Denom; d == "uatom" || d == "uosmo" {
					p, _ := e.u.Price(id)
					e.u.SetPrice(id, p*6/10+1, true)
				}
			}
			exploreAtBoundary(e.c, rec, time.Duration(5+e.rnd.Intn(3000))*time.Second, "lend", ev.Pick(1200, 15000))
		}
		e.c.Close()
	}
}
