package props

import (
	"encoding/binary"
	"fmt"
	"github.com/comdex-official/comdex/app/wasm/bindings"
	"testing"
	"time"

	storetypes "github.com/cosmos/cosmos-sdk/store/types"
	sdk "github.com/cosmos/cosmos-sdk/types"

	auctiontypes "github.com/comdex-official/comdex/x/auction/types"
	auctionsV2types "github.com/comdex-official/comdex/x/auctionsV2/types"
	esmtypes "github.com/comdex-official/comdex/x/esm/types"
	liqtypes "github.com/comdex-official/comdex/x/liquidation/types"
	liqV2types "github.com/comdex-official/comdex/x/liquidationsV2/types"
	lockertypes "github.com/comdex-official/comdex/x/locker/types"
	markettypes "github.com/comdex-official/comdex/x/market/types"
	vaulttypes "github.com/comdex-official/comdex/x/vault/types"

	"verif/ev"
	"verif/inject"
	"verif/sim"
)

// ---- C14: emergency controls fail closed ----

type c14Env struct {
	t     *testing.T
	u     *cdpU
	r     *cdpRunner
	rec   *ev.Rec
	keys  map[string]*storetypes.KVStoreKey
	admin *sim.Acct
}

// handlerOnFork runs msg through the message service router on a fork of the
// open block's state (after `mutate` was applied to the fork). Nothing is
// written back. Returns success, whether the fork's state changed during the
// handler, and the asset ids whose price record the handler read.
func (e *c14Env) handlerOnFork(msg sdk.Msg, mutate func(ctx sdk.Context)) (ok bool, changed bool, prices map[uint64]bool, errStr string) {
	c := e.u.c
	spy := inject.NewSpy()
	prices = map[uint64]bool{}
	spy.OnOp = func(store, kind string, key []byte) {
		if store == markettypes.StoreKey && kind == "get" && len(key) == 9 && key[0] == markettypes.TwaKeyPrefix[0] {
			prices[binary.BigEndian.Uint64(key[1:])] = true
		}
	}
	fork := c.Ctx().MultiStore().CacheMultiStore()
	root := spy.Root(fork)
	ctx := c.Ctx().WithMultiStore(root).WithEventManager(sdk.NewEventManager()).WithGasMeter(sdk.NewInfiniteGasMeter())
	if mutate != nil {
		mutate(ctx)
	}
	_, before := inject.Dump(root, e.keys)
	h := c.App.MsgServiceRouter().Handler(msg)
	if h == nil {
		return false, false, prices, "no handler"
	}
	var err error
	func() {
		defer func() {
			if p := recover(); p != nil {
				err = fmt.Errorf("panic: %v", p)
			}
		}()
		// the per-message cache of baseapp's runMsgs: a failing handler's writes are dropped
		mctx, write := ctx.CacheContext()
		_, err = h(mctx, msg)
		if err == nil {
			write()
		}
	}()
	_, after := inject.Dump(root, e.keys)
	if err != nil {
		errStr = err.Error()
	}
	return err == nil, before != after, prices, errStr
}

func (e *c14Env) setBreaker(app uint64, on bool) {
	res := e.u.c.Deliver(e.admin, &esmtypes.MsgKillRequest{From: e.admin.Addr.String(), KillSwitchParams: &esmtypes.KillSwitchParams{AppId: app, BreakerEnable: on}})
	if !res.OK() {
		e.t.Fatalf("admin kill switch message failed: %s", res.Log)
	}
}

// refuse: with the control ON the real transaction must fail and leave no trace;
// with the control OFF the very same message must succeed (positive control).
func (e *c14Env) refuse(name string, signer *sim.Acct, msg sdk.Msg, on func(), off func()) {
	c := e.u.c
	// is the message live at all? (decided on a fork, control off)
	ok, _, _, _ := e.handlerOnFork(msg, nil)
	if !ok {
		e.rec.Count("not-live:"+name, 1)
		return
	}
	on()
	per0, all0 := dumpNoAuth(c, e.keys)
	res := c.Deliver(signer, msg)
	per1, all1 := dumpNoAuth(c, e.keys)
	e.rec.Eval(1)
	e.rec.Count("refusals_checked", 1)
	w := map[string]interface{}{"case": name, "signer": signer.Name, "code": res.Code, "log": trunc(res.Log)}
	if res.OK() {
		e.rec.Violate("C14/"+name+"/accepted-under-control", "the operation succeeded although the emergency control forbids it", w)
	} else if all0 != all1 {
		w["stores_changed"] = inject.DiffStores(per0, per1)
		e.rec.Violate("C14/"+name+"/refused-but-state-changed", "the refused operation changed state", w)
	}
	off()
	if !res.OK() {
		res2 := c.Deliver(signer, msg)
		if res2.OK() {
			e.rec.Count("positive_controls_succeeded", 1)
			e.rec.Count("live:"+name, 1)
		} else {
			e.rec.Count("control-off-failed:"+name, 1)
		}
	}
	e.rec.Distinct("C14", name, res.OK())
}

func TestC14(t *testing.T) {
	rec := ev.New("C14", "exploration", "matrix {vault / stable-mint / locker / liquidate / bid handlers} x {breaker on, shutdown executed within and after cool-off, needed price inactive}: with the control ON the real signed tx must fail with an identical full-state dump, with the control OFF (admin message / price re-activated) the same message must succeed on the same state; shutdown cells and price-dependence detection run the handler through the message router on forks under the spy multistore; sweep cells compare a block with the breaker on (nothing seized / no auction opened) with the next block after switching it off. distinct = (cell, outcome)")
	defer finish(t, rec)
	rounds := ev.Pick(3, 10)
	for round := 0; round < rounds; round++ {
		c14Round(t, rec, round)
		c14Lend(t, rec, round)
		c14BreakerSweeps(t, rec, round)
	}
	rec.Floor("refusals_checked", 25)
	rec.Floor("positive_controls_succeeded", 20)
	rec.Floor("esm_cells_checked", 8)
	rec.Floor("price_cells_checked", 6)
	rec.Floor("sweep_cells_checked", 1)
	rec.Floor("breaker_auction_cells_live", 2)
	rec.Floor("esm_cells_with_price_snapshot", 4)
}

// c14BreakerSweeps: on a young chain the first fees of an app and the admin's breaker message land in the same
// block, so the begin-block sweep of the following blocks sees an (app, asset) whose debt / surplus auction is due
// while the breaker is on. Nothing may be seized or auctioned for that app until the breaker is switched off;
// after that the very same state must start the auction (positive control).
func c14BreakerSweeps(t *testing.T, rec *ev.Rec, round int) {
	for _, variant := range []int{ev.ShardNo()*2 + round*8, ev.ShardNo()*2 + round*8 + 1} {
		u := newCDP(t, cdpOpts{variant: variant})
		c := u.c
		rnd := rng("C14-sweeps", variant)
		r := newCdpRunner(u, rnd, ev.NewScratch(), cdpCfg{maxGap: time.Minute})
		e := &c14Env{t: t, u: u, r: r, rec: rec, keys: storeKeys(c), admin: c.Accts[1]}
		c.App.EsmKeeper.SetParams(c.Ctx(), esmtypes.Params{Admin: []string{e.admin.Addr.String()}})
		for _, app := range u.cdpApps {
			owner := c.Accts[2+rnd.Intn(len(c.Accts)-2)]
			// fees for every debt asset of the app: small ones (debt auction due) and big ones (surplus auction due)
			for _, p := range u.products {
				if p.App != app || p.P.IsStableMintVault {
					continue
				}
				debt := p.P.DebtFloor.MulRaw(int64(20 + rnd.Intn(30)))
				pre := u.snap()
				if m, ok := pre.NetFees[appAsset{app, p.Out.ID}]; !ok || m.IsZero() {
					if (variant+int(app))%2 == 0 { // surplus-type mapping: fees well above the surplus threshold
						debt = p.P.DebtFloor.MulRaw(int64(20_000 + rnd.Intn(5_000)))
					}
				}
				in := r.collateralFor(p, debt, p.P.MinCr.MulInt64(1000).TruncateInt64()*3)
				c.Deliver(owner, &vaulttypes.MsgCreateRequest{From: owner.Addr.String(), AppId: app, ExtendedPairVaultId: p.ID, AmountIn: in, AmountOut: debt})
			}
			e.setBreaker(app, true)
			count := func(a, b *cdpSnap) (locked, auctions int) {
				for id, l := range b.LockedV2 {
					if _, was := a.LockedV2[id]; !was && l.AppId == app {
						locked++
					}
				}
				for id, x := range b.AucV2 {
					if _, was := a.AucV2[id]; !was && x.AppId == app {
						auctions++
					}
				}
				return
			}
			for i := 0; i < 3; i++ {
				before := u.snap()
				r.block(6 * time.Second)
				after := u.snap()
				l, a := count(before, after)
				rec.Eval(1)
				rec.Count("breaker_on_blocks_observed", 1)
				if l != 0 || a != 0 {
					rec.Violate("C14/breaker/sweep-or-auction-started", fmt.Sprintf("with the breaker on the block created %d seizure records and opened %d auctions for the app", l, a),
						map[string]interface{}{"app": app, "variant": variant, "net_fees": fmt.Sprint(before.NetFees), "oplog_tail": r.tail(6)})
				}
			}
			e.setBreaker(app, false)
			before := u.snap()
			r.block(6 * time.Second)
			r.block(6 * time.Second)
			_, a := count(before, u.snap())
			if a > 0 {
				rec.Count("breaker_auction_cells_live", 1)
			} else {
				rec.Count("breaker_auction_cells_without_work", 1)
			}
			rec.Distinct("C14-breaker-sweep", app, (variant+int(app))%2, a > 0)
		}
		c.Close()
	}
}

func c14Round(t *testing.T, rec *ev.Rec, round int) {
	u := newCDP(t, cdpOpts{variant: ev.ShardNo()*5 + round})
	defer u.c.Close()
	c := u.c
	rnd := rng("C14", round)
	r := newCdpRunner(u, rnd, rec, cdpCfg{lockers: true, maxGap: time.Hour})
	r.run(ev.Pick(150, 400))
	e := &c14Env{t: t, u: u, r: r, rec: rec, keys: storeKeys(c), admin: c.Accts[1]}
	c.App.EsmKeeper.SetParams(c.Ctx(), esmtypes.Params{Admin: []string{e.admin.Addr.String()}})
	c.App.NewliqKeeper.SetParams(c.Ctx(), liqV2types.Params{LiquidationBatchSize: 200})

	for _, app := range u.cdpApps {
		owner := c.Accts[2+rnd.Intn(len(c.Accts)-2)]
		fresh := c.Accts[0]
		if fresh == owner {
			fresh = c.Accts[3]
		}
		// products of this app; a healthy vault of `owner` in one of them
		var prods []*uProduct
		for _, p := range u.products {
			if p.App == app && !p.P.IsStableMintVault {
				prods = append(prods, p)
			}
		}
		p := prods[rnd.Intn(len(prods))]
		debt := p.P.DebtFloor.MulRaw(40)
		in := r.collateralFor(p, debt, p.P.MinCr.MulInt64(1000).TruncateInt64()*3)
		c.Deliver(owner, &vaulttypes.MsgCreateRequest{From: owner.Addr.String(), AppId: app, ExtendedPairVaultId: p.ID, AmountIn: in, AmountOut: debt})
		r.last = u.snap()
		var v vaulttypes.Vault
		for _, x := range r.last.Vaults {
			if x.Owner == owner.Addr.String() && x.ExtendedPairVaultID == p.ID {
				v = x
			}
		}
		if v.Id == 0 {
			rec.Count("setup_vault_missing", 1)
			continue
		}
		r.topUpDebt(owner, p.Out.Denom, v.AmountOut.MulRaw(3))
		r.topUpDebt(fresh, "ucmst", sdk.NewInt(30_000_000))
		small := v.AmountIn.QuoRaw(50).AddRaw(1)
		on := func() { e.setBreaker(app, true) }
		off := func() { e.setBreaker(app, false) }
		// a product in which `fresh` has no vault yet
		var pNew *uProduct
		for _, q := range prods {
			has := false
			for _, x := range r.last.Vaults {
				if x.Owner == fresh.Addr.String() && x.ExtendedPairVaultID == q.ID {
					has = true
				}
			}
			if !has {
				pNew = q
			}
		}
		type cell struct {
			name   string
			signer *sim.Acct
			msg    sdk.Msg
		}
		var cells []cell
		if pNew != nil {
			d2 := pNew.P.DebtFloor.MulRaw(20)
			cells = append(cells, cell{"breaker/vault-create", fresh, &vaulttypes.MsgCreateRequest{From: fresh.Addr.String(), AppId: app, ExtendedPairVaultId: pNew.ID, AmountIn: r.collateralFor(pNew, d2, pNew.P.MinCr.MulInt64(1000).TruncateInt64()*3), AmountOut: d2}})
		}
		cells = append(cells,
			cell{"breaker/vault-deposit", owner, &vaulttypes.MsgDepositRequest{From: owner.Addr.String(), AppId: app, ExtendedPairVaultId: p.ID, UserVaultId: v.Id, Amount: small}},
			cell{"breaker/vault-withdraw", owner, &vaulttypes.MsgWithdrawRequest{From: owner.Addr.String(), AppId: app, ExtendedPairVaultId: p.ID, UserVaultId: v.Id, Amount: small}},
			cell{"breaker/vault-draw", owner, &vaulttypes.MsgDrawRequest{From: owner.Addr.String(), AppId: app, ExtendedPairVaultId: p.ID, UserVaultId: v.Id, Amount: p.P.DebtFloor}},
			cell{"breaker/vault-deposit-and-draw", owner, &vaulttypes.MsgDepositAndDrawRequest{From: owner.Addr.String(), AppId: app, ExtendedPairVaultId: p.ID, UserVaultId: v.Id, Amount: small}},
			cell{"breaker/vault-repay", owner, &vaulttypes.MsgRepayRequest{From: owner.Addr.String(), AppId: app, ExtendedPairVaultId: p.ID, UserVaultId: v.Id, Amount: p.P.DebtFloor}},
		)
		// stable mint (open / enlarge)
		for _, q := range u.products {
			if q.App != app || !q.P.IsStableMintVault {
				continue
			}
			var sid uint64
			for _, s := range r.last.Stable {
				if s.ExtendedPairVaultID == q.ID {
					sid = s.Id
				}
			}
			amt := sdk.NewIntFromBigInt(q.In.Dec).MulRaw(25)
			if sid == 0 {
				cells = append(cells, cell{"breaker/stable-mint-create", fresh, &vaulttypes.MsgCreateStableMintRequest{From: fresh.Addr.String(), AppId: app, ExtendedPairVaultId: q.ID, Amount: amt}})
			} else {
				cells = append(cells, cell{"breaker/stable-mint-deposit", fresh, &vaulttypes.MsgDepositStableMintRequest{From: fresh.Addr.String(), AppId: app, ExtendedPairVaultId: q.ID, Amount: amt, StableVaultId: sid}})
			}
		}
		// locker open / enlarge
		as := u.byDenom["ucmst"]
		var lid uint64
		for _, l := range r.last.Lockers {
			if l.Depositor == fresh.Addr.String() && l.AppId == app && l.AssetDepositId == as.ID {
				lid = l.LockerId
			}
		}
		if lid == 0 {
			cells = append(cells, cell{"breaker/locker-create", fresh, &lockertypes.MsgCreateLockerRequest{Depositor: fresh.Addr.String(), Amount: sdk.NewInt(2_000_000), AssetId: as.ID, AppId: app}})
		} else {
			cells = append(cells, cell{"breaker/locker-deposit", fresh, &lockertypes.MsgDepositAssetRequest{Depositor: fresh.Addr.String(), LockerId: lid, Amount: sdk.NewInt(1_000_000), AssetId: as.ID, AppId: app}})
		}
		cells = append(cells, cell{"breaker/vault-close", owner, &vaulttypes.MsgCloseRequest{From: owner.Addr.String(), AppId: app, ExtendedPairVaultId: p.ID, UserVaultId: v.Id}})
		for _, cl := range cells {
			e.refuse(cl.name, cl.signer, cl.msg, on, off)
		}

		// ---- needed price inactive: detect dependence on a fork, then toggle the real record
		c.Deliver(owner, &vaulttypes.MsgCreateRequest{From: owner.Addr.String(), AppId: app, ExtendedPairVaultId: p.ID, AmountIn: in, AmountOut: debt})
		r.last = u.snap()
		for _, x := range r.last.Vaults {
			if x.Owner == owner.Addr.String() && x.ExtendedPairVaultID == p.ID {
				v = x
			}
		}
		priceCells := []cell{
			{"price/vault-withdraw", owner, &vaulttypes.MsgWithdrawRequest{From: owner.Addr.String(), AppId: app, ExtendedPairVaultId: p.ID, UserVaultId: v.Id, Amount: small}},
			{"price/vault-draw", owner, &vaulttypes.MsgDrawRequest{From: owner.Addr.String(), AppId: app, ExtendedPairVaultId: p.ID, UserVaultId: v.Id, Amount: p.P.DebtFloor}},
			{"price/vault-deposit-and-draw", owner, &vaulttypes.MsgDepositAndDrawRequest{From: owner.Addr.String(), AppId: app, ExtendedPairVaultId: p.ID, UserVaultId: v.Id, Amount: small}},
		}
		if pNew != nil {
			d2 := pNew.P.DebtFloor.MulRaw(25)
			opener := c.Accts[len(c.Accts)-1]
			priceCells = append(priceCells, cell{"price/vault-create", opener, &vaulttypes.MsgCreateRequest{From: opener.Addr.String(), AppId: app, ExtendedPairVaultId: pNew.ID,
				AmountIn: r.collateralFor(pNew, d2, pNew.P.MinCr.MulInt64(1000).TruncateInt64()*3), AmountOut: d2}})
		}
		if app == appBeacon {
			priceCells = append(priceCells, cell{"price/liquidate-message-gen2", fresh, &liqV2types.MsgLiquidateInternalKeeperRequest{From: fresh.Addr.String(), LiqType: 0, Id: v.Id}})
		} else {
			priceCells = append(priceCells, cell{"price/liquidate-message-gen1", fresh, &liqtypes.MsgLiquidateVaultRequest{From: fresh.Addr.String(), AppId: app, VaultId: v.Id}})
		}
		for _, cl := range priceCells {
			ok, _, reads, _ := e.handlerOnFork(cl.msg, nil)
			if !ok {
				rec.Count("not-live:"+cl.name, 1)
				continue
			}
			for assetID := range reads {
				a := u.byID[assetID]
				if a == nil {
					continue
				}
				px, _ := u.price(a)
				name := cl.name
				if (len(reads)+int(assetID))%2 == 0 {
					// the price record is missing altogether
					name += "/record-absent"
					e.refuse(name, cl.signer, cl.msg,
						func() { c.App.MarketKeeper.DeleteTwaData(c.Ctx(), a.ID) },
						func() { u.setPrice(a.Denom, px, true) })
				} else {
					e.refuse(name, cl.signer, cl.msg,
						func() { u.setPrice(a.Denom, px, false) },
						func() { u.setPrice(a.Denom, px, true) })
				}
				rec.Count("price_cells_checked", 1)
			}
		}

		// ---- sweeps and new surplus / debt auctions under the breaker (generation 2 is the live sweep)
		if app == appBeacon {
			// make the vault unsafe
			pin, _ := u.price(p.In)
			r.env("price", "crash for sweep cell", func() { u.setPrice(p.In.Denom, pin/4+1, true) })
			// the vault is unsafe now: seizing it (by message or by the sweep) needs the collateral feed and the debt
			// feed (the auction is priced in both); with exactly one of them inactive nothing may happen
			lm := &liqV2types.MsgLiquidateInternalKeeperRequest{From: fresh.Addr.String(), LiqType: 0, Id: v.Id}
			if live, _, _, _ := e.handlerOnFork(lm, nil); live {
				rec.Count("live:price/liquidate-message-gen2/unsafe-vault", 1)
				for _, side := range []struct {
					role string
					as   *uAsset
				}{{"collateral", p.In}, {"debt", p.Out}} {
					as := side.as
					if _, act := u.price(as); !act {
						continue
					}
					off := func(ctx sdk.Context) {
						tw, _ := c.App.MarketKeeper.GetTwa(ctx, as.ID)
						tw.IsPriceActive = false
						c.App.MarketKeeper.SetTwa(ctx, tw)
					}
					ok2, changed, _, errStr := e.handlerOnFork(lm, off)
					rec.Eval(1)
					rec.Count("price_cells_checked", 1)
					w := map[string]interface{}{"vault": v.Id, "product": p.ID, "debt_priced_by_oracle": p.P.AssetOutOraclePrice, "inactive_feed": as.Denom, "error": errStr}
					if ok2 {
						rec.Violate("C14/price/liquidate-message-gen2/unsafe-vault/accepted-with-inactive-"+side.role+"-feed", "an unsafe vault was seized and put up for auction although a price the auction needs is inactive", w)
					} else if changed {
						rec.Violate("C14/price/liquidate-message-gen2/unsafe-vault/refused-but-state-changed", "the refused liquidation changed state", w)
					}
					// the sweep of a real block with that one feed inactive
					px, _ := u.price(as)
					r.env("price", "inactive "+as.Denom, func() { u.setPrice(as.Denom, px, false) })
					pre := u.snap()
					r.block(6 * time.Second)
					post := u.snap()
					rec.Eval(1)
					_, still := post.Vaults[v.Id]
					newAuc := 0
					for id, a := range post.AucV2 {
						if _, was := pre.AucV2[id]; !was && a.AppId == app && (a.CollateralAssetId == as.ID || a.DebtAssetId == as.ID) {
							newAuc++
						}
					}
					if !still || newAuc > 0 {
						w["vault_still_open"], w["new_auctions_needing_the_feed"] = still, newAuc
						rec.Violate("C14/price/sweep-gen2/seized-with-inactive-"+side.role+"-feed", "the sweep seized a vault / opened an auction although a price it needs is inactive", w)
					}
					r.env("price", "active "+as.Denom, func() { u.setPrice(as.Denom, px, true) })
					rec.Count("price_sweep_cells_checked", 1)
					if !still {
						break
					}
				}
			}
			if _, still := u.snap().Vaults[v.Id]; !still {
				r.env("price", "restore", func() { u.setPrice(p.In.Denom, pin, true) })
				continue
			}
			e.setBreaker(app, true)
			before := u.snap()
			r.block(6 * time.Second)
			mid := u.snap()
			seizedOn := len(before.Vaults) - len(mid.Vaults)
			newAuctions := 0
			for id, a := range mid.AucV2 {
				if _, was := before.AucV2[id]; !was && a.AppId == app {
					newAuctions++
				}
			}
			rec.Eval(1)
			if seizedOn != 0 || newAuctions != 0 {
				rec.Violate("C14/breaker/sweep-or-auction-started", fmt.Sprintf("with the breaker on the block seized %d vaults and opened %d auctions for the app", seizedOn, newAuctions), map[string]interface{}{"app": app, "oplog_tail": r.tail(6)})
			}
			e.setBreaker(app, false)
			r.block(6 * time.Second)
			after := u.snap()
			if len(after.Vaults) < len(mid.Vaults) {
				rec.Count("sweep_cells_checked", 1) // the state really contained work that was refused
			} else {
				rec.Count("sweep_cell_without_work", 1)
			}
			r.env("price", "restore", func() { u.setPrice(p.In.Denom, pin, true) })
		}

		// ---- generation-1 liquidate message under the breaker, whatever app id the message names
		if app == appHarbor {
			if _, still := u.snap().Vaults[v.Id]; still {
				// two apps are on the generation-1 liquidation list, in different breaker states
				_ = c.Gov(bindings.ComdexMessages{MsgWhitelistAppIDLiquidation: &bindings.MsgWhitelistAppIDLiquidation{AppID: appBeacon}})
				pin, _ := u.price(p.In)
				r.env("price", "crash for the generation-1 message cell", func() { u.setPrice(p.In.Denom, pin/4+1, true) })
				e.setBreaker(app, true)
				for _, named := range []struct {
					cls string
					id  uint64
				}{{"own-app", app}, {"other-listed-app", appBeacon}, {"unlisted-app", appCswap}} {
					msg := &liqtypes.MsgLiquidateVaultRequest{From: fresh.Addr.String(), AppId: named.id, VaultId: v.Id}
					per0, all0 := dumpNoAuth(c, e.keys)
					res := c.Deliver(fresh, msg)
					per1, all1 := dumpNoAuth(c, e.keys)
					rec.Eval(1)
					rec.Count("breaker_gen1_liquidate_cells_checked", 1)
					w := map[string]interface{}{"vault": v.Id, "vault_app": app, "app_named_by_the_message": named.id, "code": res.Code, "log": trunc(res.Log)}
					if _, still := u.snap().Vaults[v.Id]; !still {
						rec.Violate("C14/breaker/liquidate-message-gen1/seized-under-breaker/message-names-"+named.cls, "an unsafe vault of an app whose breaker is on was seized by a liquidate message", w)
						break
					} else if !res.OK() && all0 != all1 {
						w["stores_changed"] = inject.DiffStores(per0, per1)
						rec.Violate("C14/breaker/liquidate-message-gen1/refused-but-state-changed", "the refused liquidate message changed state", w)
					}
				}
				e.setBreaker(app, false)
				if _, still := u.snap().Vaults[v.Id]; still {
					c.Deliver(fresh, &liqtypes.MsgLiquidateVaultRequest{From: fresh.Addr.String(), AppId: app, VaultId: v.Id})
					if _, still := u.snap().Vaults[v.Id]; !still {
						rec.Count("live:breaker/liquidate-message-gen1/unsafe-vault", 1)
					}
				}
				r.env("price", "restore", func() { u.setPrice(p.In.Denom, pin, true) })
				r.last = u.snap()
			}
		}

		// ---- emergency shutdown (cells decided on forks of the same state through the message router)
		r.last = u.snap()
		var hv vaulttypes.Vault
		for _, x := range r.last.Vaults {
			if x.AppId == app {
				hv = x
				break
			}
		}
		if hv.Id == 0 {
			continue
		}
		hp := u.prodByID[hv.ExtendedPairVaultID]
		hOwner := r.acctByAddr(hv.Owner)
		now := c.Header.Time
		exec := func(end time.Time) func(ctx sdk.Context) {
			return func(ctx sdk.Context) {
				c.App.EsmKeeper.SetESMStatus(ctx, esmtypes.ESMStatus{AppId: app, Executor: e.admin.Addr.String(), Status: true, StartTime: now.Add(-time.Hour), EndTime: end})
			}
		}
		mintCells := []cell{
			{"shutdown/vault-draw", hOwner, &vaulttypes.MsgDrawRequest{From: hv.Owner, AppId: app, ExtendedPairVaultId: hp.ID, UserVaultId: hv.Id, Amount: sdk.NewInt(1)}},
			{"shutdown/vault-deposit-and-draw", hOwner, &vaulttypes.MsgDepositAndDrawRequest{From: hv.Owner, AppId: app, ExtendedPairVaultId: hp.ID, UserVaultId: hv.Id, Amount: hv.AmountIn.QuoRaw(10).AddRaw(1)}},
		}
		if pNew != nil {
			d2 := pNew.P.DebtFloor.MulRaw(20)
			mintCells = append(mintCells, cell{"shutdown/vault-create", c.Accts[len(c.Accts)-1], &vaulttypes.MsgCreateRequest{From: c.Accts[len(c.Accts)-1].Addr.String(), AppId: app, ExtendedPairVaultId: pNew.ID, AmountIn: r.collateralFor(pNew, d2, pNew.P.MinCr.MulInt64(1000).TruncateInt64()*3), AmountOut: d2}})
		}
		for _, q := range u.products {
			if q.App == app && q.P.IsStableMintVault {
				for _, s := range r.last.Stable {
					if s.ExtendedPairVaultID == q.ID {
						mintCells = append(mintCells, cell{"shutdown/stable-mint-deposit", fresh, &vaulttypes.MsgDepositStableMintRequest{From: fresh.Addr.String(), AppId: app, ExtendedPairVaultId: q.ID, Amount: sdk.NewIntFromBigInt(q.In.Dec).MulRaw(25), StableVaultId: s.Id}})
					}
				}
			}
		}
		for _, cl := range mintCells {
			ok, _, _, _ := e.handlerOnFork(cl.msg, nil)
			if !ok {
				rec.Count("not-live:"+cl.name, 1)
				continue
			}
			for _, when := range []struct {
				tag      string
				end      time.Time
				snapshot bool
			}{{"within-cool-off", now.Add(time.Hour), false}, {"after-cool-off", now.Add(-time.Minute), false},
				// the block after the execution: the module's begin blocker has taken its snapshot of prices
				{"within-cool-off-after-price-snapshot", now.Add(time.Hour), true}, {"after-cool-off-after-price-snapshot", now.Add(-time.Minute), true}} {
				mut := exec(when.end)
				if when.snapshot {
					end := when.end
					mut = func(ctx sdk.Context) {
						exec(end)(ctx)
						st, _ := c.App.EsmKeeper.GetESMStatus(ctx, app)
						_ = c.App.EsmKeeper.SnapshotOfPrices(ctx, st)
						if st2, _ := c.App.EsmKeeper.GetESMStatus(ctx, app); st2.SnapshotStatus {
							rec.Count("esm_cells_with_price_snapshot", 1)
						}
					}
				}
				ok2, changed, _, errStr := e.handlerOnFork(cl.msg, mut)
				rec.Eval(1)
				rec.Count("esm_cells_checked", 1)
				w := map[string]interface{}{"case": cl.name, "when": when.tag, "error": errStr}
				if ok2 {
					rec.Violate("C14/"+cl.name+"/minted-after-shutdown/"+when.tag, "new debt was minted for an app whose emergency shutdown has been executed", w)
				} else if changed {
					rec.Violate("C14/"+cl.name+"/refused-but-state-changed/"+when.tag, "the refused operation changed state", w)
				}
				rec.Distinct("C14-esm", cl.name, when.tag, ok2)
			}
		}
		// both controls at once: whatever the breaker refuses stays refused when the app's shutdown has been executed as
		// well (inside and after the cool-off period, before and after the price snapshot)
		small1 := sdk.NewInt(1)
		for _, cl := range []cell{
			{"breaker+shutdown/vault-withdraw", hOwner, &vaulttypes.MsgWithdrawRequest{From: hv.Owner, AppId: app, ExtendedPairVaultId: hp.ID, UserVaultId: hv.Id, Amount: small1}},
			{"breaker+shutdown/vault-deposit", hOwner, &vaulttypes.MsgDepositRequest{From: hv.Owner, AppId: app, ExtendedPairVaultId: hp.ID, UserVaultId: hv.Id, Amount: small1}},
			{"breaker+shutdown/vault-repay", hOwner, &vaulttypes.MsgRepayRequest{From: hv.Owner, AppId: app, ExtendedPairVaultId: hp.ID, UserVaultId: hv.Id, Amount: small1}},
			{"breaker+shutdown/vault-close", hOwner, &vaulttypes.MsgCloseRequest{From: hv.Owner, AppId: app, ExtendedPairVaultId: hp.ID, UserVaultId: hv.Id}},
			{"breaker+shutdown/vault-draw", hOwner, &vaulttypes.MsgDrawRequest{From: hv.Owner, AppId: app, ExtendedPairVaultId: hp.ID, UserVaultId: hv.Id, Amount: small1}},
		} {
			for _, when := range []struct {
				tag      string
				end      time.Time
				snapshot bool
			}{{"within-cool-off", now.Add(time.Hour), false}, {"within-cool-off-after-price-snapshot", now.Add(time.Hour), true}, {"after-cool-off-after-price-snapshot", now.Add(-time.Minute), true}} {
				end, snap := when.end, when.snapshot
				mut := func(ctx sdk.Context) {
					exec(end)(ctx)
					if snap {
						st, _ := c.App.EsmKeeper.GetESMStatus(ctx, app)
						_ = c.App.EsmKeeper.SnapshotOfPrices(ctx, st)
					}
					c.App.EsmKeeper.SetKillSwitchData(ctx, esmtypes.KillSwitchParams{AppId: app, BreakerEnable: true})
				}
				ok2, changed, _, errStr := e.handlerOnFork(cl.msg, mut)
				rec.Eval(1)
				rec.Count("breaker_and_shutdown_cells_checked", 1)
				w := map[string]interface{}{"case": cl.name, "when": when.tag, "error": errStr, "vault": hv.Id}
				if ok2 {
					rec.Violate("C14/"+cl.name+"/accepted-with-breaker-on/"+when.tag, "a vault message the breaker refuses was accepted because the app's emergency shutdown has been executed as well", w)
				} else if changed {
					rec.Violate("C14/"+cl.name+"/refused-but-state-changed/"+when.tag, "the refused operation changed state", w)
				}
				rec.Distinct("C14-both", cl.name, when.tag, ok2)
			}
		}
		// collateral withdrawal: possible until the cool-off period ends, refused afterwards
		wd := &vaulttypes.MsgWithdrawRequest{From: hv.Owner, AppId: app, ExtendedPairVaultId: hp.ID, UserVaultId: hv.Id, Amount: sdk.NewInt(1)}
		if ok, _, _, _ := e.handlerOnFork(wd, nil); ok {
			okAfter, changed, _, errStr := e.handlerOnFork(wd, exec(now.Add(-time.Minute)))
			rec.Eval(1)
			rec.Count("esm_cells_checked", 1)
			if okAfter {
				rec.Violate("C14/shutdown/vault-withdraw/allowed-after-cool-off", "collateral was withdrawn after the cool-off period of an executed shutdown", map[string]interface{}{"vault": hv.Id})
			} else if changed {
				rec.Violate("C14/shutdown/vault-withdraw/refused-but-state-changed", "the refused withdrawal changed state", map[string]interface{}{"error": errStr})
			}
			okWithin, _, _, _ := e.handlerOnFork(wd, exec(now.Add(time.Hour)))
			if okWithin {
				rec.Count("shutdown_withdraw_within_cool_off_succeeded", 1)
			} else {
				rec.Count("shutdown_withdraw_within_cool_off_failed", 1)
			}
		}
	}
	_ = auctiontypes.ModuleName
	_ = auctionsV2types.ModuleName
}
