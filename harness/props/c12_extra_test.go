package props

import (
	"testing"

	"verif/ev"
)

// c12Extra: owner-gated messages of the liquidity and lend modules (filled in c12_liq_lend_test.go when available).
var c12ExtraFns []func(t *testing.T, rec *ev.Rec)

func c12Extra(t *testing.T, rec *ev.Rec) {
	for _, f := range c12ExtraFns {
		f(t, rec)
	}
}
