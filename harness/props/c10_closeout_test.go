package props

import (
	"fmt"
	"math/big"
	"sort"

	sdk "github.com/cosmos/cosmos-sdk/types"

	auctionsV2types "github.com/comdex-official/comdex/x/auctionsV2/types"
	collectortypes "github.com/comdex-official/comdex/x/collector/types"
	liqV2types "github.com/comdex-official/comdex/x/liquidationsV2/types"

	"verif/ev"
)

// ---- C10: close-out ledger of generation-2 Dutch auctions (vault- and externally initiated) and the laws of
// automatic limit-bid fills ----
//
// "When the auction ends, the proceeds are fully distributed (principal burned or returned to the ... external
// initiator, penalty to the fee collector ... or booked as auction-module fees, incentive to the keeper, unsold
// collateral to the owner)". In the event in which an auction record disappears (closing bid transaction, or a block
// with an automatic limit-bid fill or the emergency-shutdown hand-back) the balance deltas of every snapshotted
// account, the supply of the debt denom and the booked auction-module fees are attributed to the parties the
// statement names. Several auctions ending in one block are asserted as sums per account.

type flowKey struct{ Who, Denom string }

type endedAuc struct {
	ID   uint64
	A    auctionsV2types.Auction  // record before the event
	B    *auctionsV2types.Auction // record after the event (partly filled in a block); nil when the auction ended
	LV   liqV2types.LockedVault
	Mode string // "bid" (closing bid tx), "fill" (automatic limit-bid fill in a block), "esm-hand-back"
}

func (x endedAuc) String() string {
	left := "ended"
	if x.B != nil {
		left = fmt.Sprintf("still open: debt left %s, collateral left %s", x.B.DebtToken, x.B.CollateralToken)
	}
	return fmt.Sprintf("auction %d app %d (%s, %s): target %s, penalty %s, bonus left %s, debt left before %s, collateral left before %s, owner %s, internal keeper %q (flag %v), external keeper %q; %s",
		x.ID, x.A.AppId, x.LV.InitiatorType, x.Mode, x.LV.TargetDebt, x.LV.FeeToBeCollected, x.A.BonusAmount, x.A.DebtToken, x.A.CollateralToken, x.LV.Owner, x.LV.InternalKeeperAddress, x.LV.IsInternalKeeper, x.LV.ExternalKeeperAddress, left)
}

// who maps an address string to its snapshot label.
func (u *cdpU) who(addr string) string {
	if addr == "" {
		return voidLabel
	}
	for _, a := range u.c.Accts {
		if a.Addr.String() == addr {
			return a.Name
		}
	}
	for _, mod := range cdpModules {
		if u.c.ModAddr(mod).String() == addr {
			return modLabel(mod)
		}
	}
	return "addr:" + addr
}

func limitKey(lb auctionsV2types.LimitOrderBid) string {
	return fmt.Sprintf("%d/%d/%s/%s", lb.DebtTokenId, lb.CollateralTokenId, lb.PremiumDiscount, lb.BidderAddress)
}

// depositDecreases returns the limit bids of pre that were used in the event (record gone, deposit lower, or one
// more fill noted on it: a fill can round its charge down to nothing) and by how much each deposit went down.
func depositDecreases(pre, post *cdpSnap) (out []auctionsV2types.LimitOrderBid, dec []*big.Int) {
	after := map[string]auctionsV2types.LimitOrderBid{}
	for _, lb := range post.LimitBids {
		after[limitKey(lb)] = lb
	}
	for _, lb := range pre.LimitBids {
		b, still := after[limitKey(lb)]
		left := new(big.Int)
		if still {
			left = b.DebtToken.Amount.BigInt()
		}
		d := bigSub(lb.DebtToken.Amount.BigInt(), left)
		if d.Sign() > 0 || !still || len(b.BiddingId) != len(lb.BiddingId) {
			if d.Sign() < 0 {
				d = new(big.Int)
			}
			out = append(out, lb)
			dec = append(dec, d)
		}
	}
	return
}

// dutchChanges lists the generation-2 Dutch auctions that ended or (in a block) were partly filled in the event.
// ok=false when one of them cannot be classified (no locked-vault record).
func dutchChanges(pre, post *cdpSnap, e *cdpEvent) (ended, partial []endedAuc, ok bool) {
	ok = true
	for id, a := range pre.AucV2 {
		if !a.AuctionType {
			continue
		}
		b, still := post.AucV2[id]
		if still && !(e.Kind == "block" && (b.DebtToken.Amount.LT(a.DebtToken.Amount) || b.CollateralToken.Amount.LT(a.CollateralToken.Amount))) {
			continue
		}
		lv, found := pre.LockedV2[a.LockedVaultId]
		if !found {
			ok = false
			continue
		}
		x := endedAuc{ID: id, A: a, LV: lv, Mode: "fill"}
		if still {
			bb := b
			x.B = &bb
			partial = append(partial, x)
			continue
		}
		switch {
		case e.Kind == "tx":
			x.Mode = "bid"
		case lv.InitiatorType == "vault" && pre.ESM[a.AppId].Status && post.Time.After(a.EndTime):
			// the app is in emergency shutdown and the auction period is over: the iterator hands the vault back
			// (it runs before the limit-bid fills of the same block)
			x.Mode = "esm-hand-back"
		}
		ended = append(ended, x)
	}
	sort.Slice(ended, func(i, j int) bool { return ended[i].ID < ended[j].ID })
	sort.Slice(partial, func(i, j int) bool { return partial[i].ID < partial[j].ID })
	return
}

// depositLaw (blocks): per debt asset, the limit-bid deposit records go down by exactly what the automatic fills
// took off the auctions' remaining debt (less what the app reserve paid for a collateral shortage); a deposit never
// goes down without a fill. Used by C10 and C11 (prefix).
func depositLaw(u *cdpU, rec *ev.Rec, prefix string, pre, post *cdpSnap, e *cdpEvent) {
	if e.Kind != "block" {
		return
	}
	ended, partial, ok := dutchChanges(pre, post, e)
	if !ok {
		return
	}
	lbs, decs := depositDecreases(pre, post)
	depDec := map[uint64]*big.Int{}
	for i, lb := range lbs {
		if depDec[lb.DebtTokenId] == nil {
			depDec[lb.DebtTokenId] = new(big.Int)
		}
		depDec[lb.DebtTokenId].Add(depDec[lb.DebtTokenId], decs[i])
	}
	debtDec := map[uint64]*big.Int{}
	var aucs []string
	for _, x := range append(append([]endedAuc(nil), ended...), partial...) {
		if x.Mode != "fill" {
			continue
		}
		d := x.A.DebtToken.Amount.BigInt()
		if x.B != nil {
			d = bigSub(d, x.B.DebtToken.Amount.BigInt())
		}
		if debtDec[x.A.DebtAssetId] == nil {
			debtDec[x.A.DebtAssetId] = new(big.Int)
		}
		debtDec[x.A.DebtAssetId].Add(debtDec[x.A.DebtAssetId], d)
		aucs = append(aucs, x.String())
	}
	seen := map[uint64]bool{}
	var assets []uint64
	for _, lb := range pre.LimitBids {
		assets = append(assets, lb.DebtTokenId)
	}
	for as := range debtDec {
		assets = append(assets, as)
	}
	sort.Slice(assets, func(i, j int) bool { return assets[i] < assets[j] })
	for _, as := range assets {
		if seen[as] || u.byID[as] == nil {
			continue
		}
		seen[as] = true
		dep, dbt := depDec[as], debtDec[as]
		if dep == nil {
			dep = new(big.Int)
		}
		if dbt == nil {
			dbt = new(big.Int)
		}
		denom := u.byID[as].Denom
		reserveOut := bigSub(pre.bal(modLabel(liqV2types.ModuleName), denom), post.bal(modLabel(liqV2types.ModuleName), denom))
		rec.Eval(1)
		if dep.Sign() > 0 {
			rec.Count("fill_deposit_law_checked", 1)
		}
		if dep.Cmp(bigSub(dbt, reserveOut)) != 0 {
			law := "deposit-decrease-not-auction-debt-decrease"
			if dbt.Sign() == 0 {
				law = "deposit-decreased-without-a-fill"
			}
			var ch []string
			for i, lb := range lbs {
				if lb.DebtTokenId == as && decs[i].Sign() > 0 {
					ch = append(ch, fmt.Sprintf("limit bid (debt %d, collateral %d, bucket %s) of %s: %s -> -%s", lb.DebtTokenId, lb.CollateralTokenId, lb.PremiumDiscount, u.who(lb.BidderAddress), lb.DebtToken, decs[i]))
				}
			}
			rec.Violate(prefix+"/fill/gen2/"+law, fmt.Sprintf("limit-bid deposits in %s went down by %s in this block; the filled auctions' remaining debt went down by %s, of which the app reserve paid %s", denom, dep, dbt, reserveOut),
				map[string]interface{}{"event": e.String(), "debt_asset": as, "deposits_changed": ch, "auctions_filled": aucs})
		}
	}
}

// closeout: the per-auction close-out ledger (see the head of the file).
func (m *c10Mon) closeout(pre, post *cdpSnap, e *cdpEvent) {
	u := m.u
	ended, partial, ok := dutchChanges(pre, post, e)
	if !ok {
		m.rec.Count("closeout_skipped_no_locked_vault", 1)
		return
	}
	if len(ended)+len(partial) == 0 {
		return
	}
	all := append(append([]endedAuc(nil), ended...), partial...)
	types, modes := map[string]bool{}, map[string]bool{}
	for _, x := range all {
		if x.LV.InitiatorType != "vault" && x.LV.InitiatorType != "external" {
			// lend-initiated auctions pay into pool accounts that are not part of this snapshot
			m.rec.Count("closeout_skipped_"+x.LV.InitiatorType, 1)
			return
		}
		types[x.LV.InitiatorType] = true
		if x.B == nil {
			modes[x.Mode] = true
		}
	}
	if e.Kind != "tx" && e.Kind != "block" {
		m.rec.Count("closeout_skipped_unexpected_event", 1)
		return
	}
	if e.Kind == "tx" {
		bid, isBid := e.Msg.(*auctionsV2types.MsgPlaceMarketBidRequest)
		if !isBid || e.Signer == nil || len(ended) != 1 || ended[0].ID != bid.AuctionId {
			m.rec.Count("closeout_skipped_unexpected_event", 1)
			return
		}
	}
	one := func(s map[string]bool, mixed string) string {
		if len(s) == 1 {
			for k := range s {
				return k
			}
		}
		return mixed
	}
	typeTag := "gen2-" + one(types, "mixed")
	modeTag := one(modes, "mixed")
	if len(ended) == 0 {
		modeTag = "partial-fill"
	}
	debtDen, collDen := map[string]bool{}, map[string]bool{}
	for _, x := range all {
		debtDen[x.A.DebtToken.Denom] = true
		collDen[x.A.CollateralToken.Denom] = true
	}
	for d := range collDen {
		if debtDen[d] {
			m.rec.Count("closeout_skipped_same_denom_both_sides", 1)
			return
		}
	}
	delta := func(who, denom string) *big.Int { return bigSub(post.bal(who, denom), pre.bal(who, denom)) }
	var users []string // user accounts and the empty address
	for _, a := range u.c.Accts {
		users = append(users, a.Name)
	}
	users = append(users, voidLabel)
	var mods []string
	for _, mod := range cdpModules {
		mods = append(mods, modLabel(mod))
	}
	custodyL, reserveL, collectorL := modLabel(auctionsV2types.ModuleName), modLabel(liqV2types.ModuleName), modLabel(collectortypes.ModuleName)

	exp := map[flowKey]*big.Int{}
	add := func(who, denom string, x *big.Int) {
		k := flowKey{who, denom}
		if exp[k] == nil {
			exp[k] = new(big.Int)
		}
		exp[k].Add(exp[k], x)
	}
	tol := map[flowKey]int64{}                 // units of rounding slack of a party (one per incentive computed)
	supplyExp := map[string]*big.Int{}         // debt denom -> expected change of supply
	extPenalty := map[uint64]*big.Int{}        // debt asset -> penalties of the external auctions that ended
	extIncMax := map[uint64]*big.Int{}         // debt asset -> upper bound of the keeper incentives of those auctions
	extKeepers := map[string]map[string]bool{} // debt denom -> keepers of the external auctions that ended
	vaultKeepers := map[string]map[string]bool{}
	collWant := map[string]*big.Int{}
	collPart := map[string]map[string]bool{}
	type hbKey struct {
		Owner     string
		App, Prod uint64
	}
	handBack := map[hbKey]*big.Int{}
	addTo := func(mm map[string]*big.Int, k string, x *big.Int) {
		if mm[k] == nil {
			mm[k] = new(big.Int)
		}
		mm[k].Add(mm[k], x)
	}
	mark := func(mm map[string]map[string]bool, k, who string) {
		if mm[k] == nil {
			mm[k] = map[string]bool{}
		}
		mm[k][who] = true
	}
	for _, x := range ended {
		T, F := x.LV.TargetDebt.Amount.BigInt(), x.LV.FeeToBeCollected.BigInt()
		R, C := x.A.DebtToken.Amount.BigInt(), x.A.CollateralToken.Amount.BigInt()
		dd, cd := x.A.DebtToken.Denom, x.A.CollateralToken.Denom
		ki := sdk.ZeroDec()
		if w, ok := u.c.App.NewliqKeeper.GetLiquidationWhiteListing(u.c.Ctx(), x.A.AppId); ok && !w.KeeeperIncentive.IsNil() {
			ki = w.KeeeperIncentive
		}
		inc := floorMulDec(F, ki)
		m.rec.Count(fmt.Sprintf("closeouts_checked_gen2-%s_%s", x.LV.InitiatorType, x.Mode), 1)
		if x.Mode == "esm-hand-back" {
			// what the bidders paid so far: the penalty first (fee collector), the rest is burned; the unsold
			// collateral goes back under the owner's vault
			collected := bigSub(T, R)
			toCollector := collected
			if collected.Cmp(F) > 0 {
				toCollector = F
				addTo(supplyExp, dd, new(big.Int).Neg(bigSub(collected, F)))
			}
			add(collectorL, dd, toCollector)
			k := hbKey{x.LV.Owner, x.A.AppId, x.LV.ExtendedPairId}
			if handBack[k] == nil {
				handBack[k] = new(big.Int)
			}
			handBack[k].Add(handBack[k], C)
			continue
		}
		addTo(collWant, cd, C)
		mark(collPart, cd, u.who(x.LV.Owner))
		if x.LV.InitiatorType == "vault" {
			if burn := bigSub(T, F); burn.Sign() > 0 {
				addTo(supplyExp, dd, new(big.Int).Neg(burn))
			}
			toCollector := new(big.Int).Set(F)
			if x.LV.IsInternalKeeper && inc.Sign() > 0 {
				kp := u.who(x.LV.InternalKeeperAddress)
				add(kp, dd, inc)
				tol[flowKey{kp, dd}]++
				tol[flowKey{collectorL, dd}]++
				mark(vaultKeepers, dd, kp)
				toCollector = bigSub(F, inc)
				m.rec.Count("closeout_keeper_incentives_expected_vault", 1)
			}
			add(collectorL, dd, toCollector)
		} else { // external: debt to the initiator, penalty booked as auction-module fees, incentive to the keeper
			add(u.who(x.LV.ExternalKeeperAddress), dd, bigSub(T, F))
			kp := x.LV.InternalKeeperAddress
			if kp == "" {
				kp = x.LV.ExternalKeeperAddress // nobody else is recorded: the initiator is the keeper of this auction
			}
			mark(extKeepers, dd, u.who(kp))
			if extPenalty[x.A.DebtAssetId] == nil {
				extPenalty[x.A.DebtAssetId], extIncMax[x.A.DebtAssetId] = new(big.Int), new(big.Int)
			}
			extPenalty[x.A.DebtAssetId].Add(extPenalty[x.A.DebtAssetId], F)
			extIncMax[x.A.DebtAssetId].Add(extIncMax[x.A.DebtAssetId], bigAdd(inc, big.NewInt(1)))
			if inc.Sign() > 0 {
				m.rec.Count("closeout_keeper_incentives_expected_external", 1)
			}
		}
		if x.Mode == "bid" {
			// the closing bidder pays the remaining debt less what the app reserve contributes for a collateral shortage
			reserveOut := new(big.Int).Neg(delta(reserveL, dd))
			if reserveOut.Sign() < 0 || reserveOut.Cmp(R) > 0 {
				m.rec.Violate(fmt.Sprintf("C10/closeout/%s/%s/reserve-contribution-outside-0-and-remaining-debt", typeTag, modeTag), fmt.Sprintf("the app reserve account changed by %s, remaining debt %s", delta(reserveL, dd), R),
					map[string]interface{}{"event": e.String(), "auction": x.String()})
				return
			}
			if reserveOut.Sign() > 0 {
				m.rec.Count("closeouts_with_reserve_contribution", 1)
			}
			add(e.Signer.Name, dd, new(big.Int).Neg(bigSub(R, reserveOut)))
			mark(collPart, cd, e.Signer.Name)
		}
	}
	for _, x := range partial {
		addTo(collWant, x.A.CollateralToken.Denom, bigSub(x.A.CollateralToken.Amount.BigInt(), x.B.CollateralToken.Amount.BigInt()))
		m.rec.Count("partial_fills_checked_gen2-"+x.LV.InitiatorType, 1)
	}
	// limit bidders whose deposit was used in this block
	lbs, decs := depositDecreases(pre, post)
	if e.Kind == "block" {
		for _, lb := range lbs {
			for _, x := range all {
				if x.Mode == "fill" && x.A.DebtAssetId == lb.DebtTokenId && x.A.CollateralAssetId == lb.CollateralTokenId {
					mark(collPart, x.A.CollateralToken.Denom, u.who(lb.BidderAddress))
				}
			}
		}
		// other payments a block makes to users in a debt denom: the lot of a surplus auction that ended
		for id, a := range pre.AucV2 {
			if _, still := post.AucV2[id]; still || a.AuctionType || a.ActiveBiddingId == 0 {
				continue
			}
			if lv, ok := pre.LockedV2[a.LockedVaultId]; ok && lv.InitiatorType == "surplus" {
				if b, ok := pre.BidsV2[a.ActiveBiddingId]; ok && debtDen[a.CollateralToken.Denom] {
					add(u.who(b.BidderAddress), a.CollateralToken.Denom, a.CollateralToken.Amount.BigInt())
				}
			}
		}
	}
	var aucs []string
	for _, x := range all {
		aucs = append(aucs, x.String())
	}
	det := func(extra map[string]interface{}) map[string]interface{} {
		d := map[string]interface{}{"event": e.String(), "auctions": aucs}
		var ex, got []string
		for k, v := range exp {
			ex = append(ex, fmt.Sprintf("%s %s%s", k.Who, v, k.Denom))
		}
		for den := range supplyExp {
			ex = append(ex, fmt.Sprintf("supply %s%s", supplyExp[den], den))
		}
		for _, den := range sortedKeys(debtDen, collDen) {
			for _, w := range append(append([]string(nil), users...), mods...) {
				if x := delta(w, den); x.Sign() != 0 {
					got = append(got, fmt.Sprintf("%s %s%s", w, x, den))
				}
			}
			if x := bigSub(post.Supply[den], pre.Supply[den]); x.Sign() != 0 {
				got = append(got, fmt.Sprintf("supply %s%s", x, den))
			}
		}
		sort.Strings(ex)
		d["expected_flows"], d["observed_balance_changes"] = ex, got
		for k, v := range extra {
			d[k] = v
		}
		return d
	}
	lab := func(law string) string { return fmt.Sprintf("C10/closeout/%s/%s/%s", typeTag, modeTag, law) }
	want := func(who, denom string) *big.Int {
		if v := exp[flowKey{who, denom}]; v != nil {
			return v
		}
		return new(big.Int)
	}

	// ---- debt denoms
	for _, dd := range sortedKeys(debtDen) {
		as := u.byDenom[dd]
		// booked auction-module fees of external auctions: the penalty less what the keeper was paid
		var k *big.Int // what the external keepers are to receive, decided by the booking
		if as != nil && extPenalty[as.ID] != nil {
			preF, postF := pre.ExtFees[as.ID], post.ExtFees[as.ID]
			if preF.IsNil() {
				preF = sdk.ZeroInt()
			}
			if postF.IsNil() {
				postF = sdk.ZeroInt()
			}
			booked := postF.Sub(preF).BigInt()
			k = bigSub(extPenalty[as.ID], booked)
			m.rec.Eval(1)
			if k.Sign() < 0 || k.Cmp(extIncMax[as.ID]) > 0 {
				m.rec.Violate(lab("penalty-not-booked-as-auction-module-fees"), fmt.Sprintf("penalties of the external auctions that ended: %s; booked auction-module fees went up by %s; the keeper incentive is at most %s", extPenalty[as.ID], booked, extIncMax[as.ID]), det(nil))
				k = nil
			}
		}
		devSumExt, devSumVault := new(big.Int), new(big.Int)
		keepersOK := true // every keeper of a vault auction is within his rounding slack
		voidDev := bigSub(delta(voidLabel, dd), want(voidLabel, dd))
		for _, w := range users {
			dev := bigSub(delta(w, dd), want(w, dd))
			m.rec.Eval(1)
			if extKeepers[dd][w] && k != nil {
				devSumExt.Add(devSumExt, dev)
				if dev.Sign() < 0 || dev.Cmp(k) > 0 {
					m.rec.Violate(lab("initiator-or-keeper-not-paid-as-expected"), fmt.Sprintf("%s: %s changed by %s, expected %s plus a keeper incentive of at most %s", w, dd, delta(w, dd), want(w, dd), k), det(nil))
				}
				continue
			}
			if vaultKeepers[dd][w] {
				devSumVault.Add(devSumVault, dev)
			}
			if new(big.Int).Abs(dev).Cmp(big.NewInt(tol[flowKey{w, dd}])) > 0 {
				keepersOK = keepersOK && !vaultKeepers[dd][w]
				if w == voidLabel && k != nil && dev.Cmp(bigSub(k, devSumExtOf(extKeepers[dd], delta, want, dd))) == 0 && dev.Sign() > 0 {
					continue // reported below under its own label
				}
				law := "party-not-paid-as-expected"
				if want(w, dd).Sign() == 0 {
					law = "proceeds-paid-to-a-party-the-auction-does-not-name"
				}
				m.rec.Violate(lab(law), fmt.Sprintf("%s: %s changed by %s, expected %s", w, dd, delta(w, dd), want(w, dd)), det(nil))
			}
		}
		if k != nil && devSumExt.Cmp(k) != 0 {
			if voidDev.Sign() > 0 && voidDev.Cmp(bigSub(k, devSumExt)) == 0 {
				m.rec.Violate("C10/closeout/gen2-external/keeper-incentive-sent-to-the-empty-address", fmt.Sprintf("%s %s of the penalty were neither booked as auction-module fees nor paid to the keeper: they were sent to the empty address", voidDev, dd), det(nil))
			} else {
				m.rec.Violate(lab("penalty-less-booked-fees-not-paid-to-keeper"), fmt.Sprintf("penalty less booked fees = %s %s, the keepers received %s", k, dd, devSumExt), det(nil))
			}
		}
		// fee collector account; in a block also: lots leaving for surplus auctions, debt-auction proceeds arriving
		collectorOK := true
		if e.Kind == "block" {
			for app := range post.ESM {
				if pre.ESM[app].CollectorTransaction != post.ESM[app].CollectorTransaction {
					collectorOK = false // the emergency-shutdown redemption burned the collector's fees in this block
				}
			}
			if len(post.Lockers) > 0 {
				collectorOK = false // locker savings are paid out of the collector in blocks
			}
			for id, lv := range post.LockedV2 {
				if _, was := pre.LockedV2[id]; !was && lv.InitiatorType == "surplus" && lv.CollateralToken.Denom == dd {
					add(collectorL, dd, new(big.Int).Neg(lv.CollateralToken.Amount.BigInt()))
				}
			}
			for id, a := range pre.AucV2 {
				if _, still := post.AucV2[id]; still || a.AuctionType {
					continue
				}
				if lv, ok := pre.LockedV2[a.LockedVaultId]; ok && lv.InitiatorType == "debt" && a.DebtToken.Denom == dd {
					add(collectorL, dd, a.DebtToken.Amount.BigInt())
				}
			}
		}
		if collectorOK {
			dev := bigSub(delta(collectorL, dd), want(collectorL, dd))
			m.rec.Eval(1)
			m.rec.Count("closeout_collector_checked", 1)
			// (a unit of rounding the keeper gains or loses is the collector's loss or gain)
			if new(big.Int).Abs(dev).Cmp(big.NewInt(tol[flowKey{collectorL, dd}])) > 0 || (keepersOK && bigAdd(dev, devSumVault).Sign() != 0) {
				m.rec.Violate(lab("penalty-not-paid-to-fee-collector"), fmt.Sprintf("fee collector account: %s changed by %s, expected %s (keepers deviate by %s)", dd, delta(collectorL, dd), want(collectorL, dd), devSumVault), det(nil))
			}
			// supply of the debt denom: the principal (target less penalty) of vault auctions is burned
			ws := supplyExp[dd]
			if ws == nil {
				ws = new(big.Int)
			}
			m.rec.Eval(1)
			if got := bigSub(post.Supply[dd], pre.Supply[dd]); got.Cmp(ws) != 0 {
				m.rec.Violate(lab("principal-not-burned"), fmt.Sprintf("supply of %s changed by %s, expected %s", dd, got, ws), det(nil))
			}
		} else {
			m.rec.Count("closeout_collector_and_supply_not_separable", 1)
		}
		if e.Kind == "tx" { // nothing else happens in a bid transaction: every other module account is untouched
			for _, w := range mods {
				if w == custodyL || w == reserveL || w == collectorL {
					continue
				}
				m.rec.Eval(1)
				if dev := bigSub(delta(w, dd), want(w, dd)); dev.Sign() != 0 {
					m.rec.Violate(lab("proceeds-paid-to-a-party-the-auction-does-not-name"), fmt.Sprintf("%s: %s changed by %s, expected %s", w, dd, delta(w, dd), want(w, dd)), det(nil))
				}
			}
		}
		// conservation over everything that is snapshotted: otherwise coins went to an address nobody names
		tot := new(big.Int)
		for _, w := range append(append([]string(nil), users...), mods...) {
			tot.Add(tot, delta(w, dd))
		}
		if ds := bigSub(post.Supply[dd], pre.Supply[dd]); tot.Cmp(ds) != 0 && u.denoms == nil {
			m.rec.Violate(lab("proceeds-sent-to-an-unknown-address"), fmt.Sprintf("all known accounts together changed by %s %s, the supply by %s", tot, dd, ds), det(nil))
		}
	}

	// ---- collateral denoms: what leaves the auctions goes to the bidders and the owners, nothing to anybody else
	for _, cd := range sortedKeys(collDen) {
		w := collWant[cd]
		if w == nil {
			w = new(big.Int)
		}
		tot := new(big.Int)
		for _, who := range users {
			d := delta(who, cd)
			tot.Add(tot, d)
			m.rec.Eval(1)
			if !collPart[cd][who] && d.Sign() != 0 {
				m.rec.Violate(lab("collateral-paid-to-a-third-party"), fmt.Sprintf("%s: %s changed by %s; it is neither a bidder nor an owner in this event", who, cd, d), det(nil))
			} else if d.Sign() < 0 {
				m.rec.Violate(lab("collateral-taken-from-a-participant"), fmt.Sprintf("%s: %s changed by %s", who, cd, d), det(nil))
			}
		}
		m.rec.Eval(1)
		if tot.Cmp(w) != 0 {
			m.rec.Violate(lab("collateral-not-fully-distributed-to-bidders-and-owner"), fmt.Sprintf("the auctions gave up %s %s (sold + unsold remainder), bidders and owners received %s", w, cd, tot), det(nil))
		}
		if e.Kind == "tx" {
			for _, who := range mods {
				if who == custodyL {
					continue
				}
				if d := delta(who, cd); d.Sign() != 0 {
					m.rec.Violate(lab("collateral-paid-to-a-third-party"), fmt.Sprintf("%s: %s changed by %s", who, cd, d), det(nil))
				}
			}
		}
	}

	// ---- emergency-shutdown hand-back: the unsold collateral is back on a vault record of the owner
	for k, c := range handBack {
		got := new(big.Int)
		for id, v := range post.Vaults {
			if v.Owner != k.Owner || v.AppId != k.App || v.ExtendedPairVaultID != k.Prod {
				continue
			}
			got.Add(got, v.AmountIn.BigInt())
			if o, was := pre.Vaults[id]; was {
				got.Sub(got, o.AmountIn.BigInt())
			}
		}
		m.rec.Eval(1)
		if got.Cmp(c) != 0 {
			m.rec.Violate("C10/closeout/gen2-vault/esm-hand-back/unsold-collateral-not-back-on-the-owners-vault", fmt.Sprintf("unsold collateral %s, the owner's vault records of product %d went up by %s", c, k.Prod, got), det(map[string]interface{}{"owner": u.who(k.Owner)}))
		}
	}

	// ---- automatic fills: exchange at the posted price, per auction where the block's fills can be told apart
	if e.Kind != "block" {
		return
	}
	perColl := map[string][]endedAuc{}
	for _, x := range all {
		if x.Mode == "fill" {
			perColl[x.A.CollateralToken.Denom] = append(perColl[x.A.CollateralToken.Denom], x)
		}
	}
	for _, cd := range sortedKeys(collDen) {
		g := perColl[cd]
		if len(g) == 0 {
			continue
		}
		if len(g) > 1 {
			// several auctions selling the same denom were filled in one block: the receipts cannot be told apart;
			// the ledgers advance by what the records gave up (the sums were asserted above)
			for _, x := range g {
				m.rec.Count("fills_not_separable", 1)
				if l := m.led[awaitKey{2, x.ID}]; l != nil {
					dDebt, dColl := x.A.DebtToken.Amount.BigInt(), x.A.CollateralToken.Amount.BigInt()
					if x.B != nil {
						dDebt, dColl = bigSub(dDebt, x.B.DebtToken.Amount.BigInt()), bigSub(dColl, x.B.CollateralToken.Amount.BigInt())
					}
					l.Paid.Add(l.Paid, dDebt)
					l.Recv.Add(l.Recv, dColl)
				}
			}
			continue
		}
		x := g[0]
		paid, recv := new(big.Int), new(big.Int)
		n := int64(0)
		sep := true
		counted := map[string]bool{}
		for i, lb := range lbs {
			if lb.DebtTokenId != x.A.DebtAssetId || lb.CollateralTokenId != x.A.CollateralAssetId {
				continue
			}
			n++
			paid.Add(paid, decs[i])
			if w := u.who(lb.BidderAddress); !counted[w] {
				counted[w] = true
				recv.Add(recv, delta(w, cd))
			}
			if x.B == nil && lb.BidderAddress == x.LV.Owner {
				sep = false // the owner's remainder lands on the same account
			}
		}
		if n == 0 {
			if dd := x.A.DebtToken.Amount.BigInt(); (x.B == nil && dd.Sign() == 0) || (x.B != nil && x.B.DebtToken.Amount.Equal(x.A.DebtToken.Amount)) {
				// an auction with nothing left to pay is closed by the first limit bid of its bucket at no charge:
				// nobody paid, nobody but the owner receives (asserted above)
				m.rec.Count("fills_of_auctions_without_debt", 1)
				continue
			}
			m.rec.Violate("C10/fill/gen2/auction-changed-in-a-block-without-a-limit-bid-being-used", "the auction's debt / collateral went down in a block although no limit-bid deposit of its pair was used", det(nil))
			continue
		}
		price := x.A.CollateralTokenAuctionPrice
		debtPosted := x.A.DebtTokenOraclePrice
		if x.B != nil {
			price, debtPosted = x.B.CollateralTokenAuctionPrice, x.B.DebtTokenOraclePrice
		} else if h, err := u.c.App.NewaucKeeper.GetAuctionHistorical(u.c.Ctx(), x.ID); err == nil && h.AuctionHistorical != nil {
			// the record the closing fill worked on (posted price as updated in this block)
			price, debtPosted = h.AuctionHistorical.CollateralTokenAuctionPrice, h.AuctionHistorical.DebtTokenOraclePrice
			if price.GT(x.A.CollateralTokenAuctionPrice) && h.AuctionHistorical.StartTime.Equal(x.A.StartTime) {
				m.rec.Violate("C10/price/gen2/posted-price-increased-between-restarts", fmt.Sprintf("%s -> %s (price the closing fill used)", x.A.CollateralTokenAuctionPrice, price), det(nil))
			}
		}
		debtPrice := decRat(debtPosted)
		if x.LV.IsDebtCmst {
			debtPrice = big.NewRat(1_000_000, 1)
		} else {
			for _, s := range []*cdpSnap{pre, post} {
				if tw := new(big.Rat).SetInt(new(big.Int).SetUint64(s.Price[x.A.DebtAssetId])); tw.Cmp(debtPrice) > 0 {
					debtPrice = tw
				}
			}
		}
		var r *big.Int
		if sep {
			r = recv
		}
		tag := "gen2-" + x.LV.InitiatorType + "-fill"
		m.bidLaws(awaitKey{2, x.ID}, paid, r, x.A.BonusAmount.BigInt(), decRat(price), debtPrice, u.byID[x.A.CollateralAssetId], u.byID[x.A.DebtAssetId], e, tag, n)
		// the bidders' collateral goes up by what the auction's collateral goes down by (a partly filled auction has
		// no other recipient)
		if x.B != nil {
			m.rec.Eval(1)
			if gave := bigSub(x.A.CollateralToken.Amount.BigInt(), x.B.CollateralToken.Amount.BigInt()); gave.Cmp(recv) != 0 {
				m.rec.Violate("C10/fill/gen2/bidder-collateral-not-auction-collateral-decrease", fmt.Sprintf("the auction's collateral went down by %s, the limit bidders received %s", gave, recv), det(nil))
			}
		}
	}
}

// devSumExtOf: what the keepers of the external auctions received beyond their exact expectations.
func devSumExtOf(keepers map[string]bool, delta func(string, string) *big.Int, want func(string, string) *big.Int, dd string) *big.Int {
	s := new(big.Int)
	for w := range keepers {
		s.Add(s, bigSub(delta(w, dd), want(w, dd)))
	}
	return s
}

func sortedKeys(ms ...map[string]bool) []string {
	seen := map[string]bool{}
	var out []string
	for _, m := range ms {
		for k := range m {
			if !seen[k] {
				seen[k] = true
				out = append(out, k)
			}
		}
	}
	sort.Strings(out)
	return out
}
