package props

import (
	"fmt"
	"math/big"

	sdk "github.com/cosmos/cosmos-sdk/types"

	liqV2types "github.com/comdex-official/comdex/x/liquidationsV2/types"
)

// externalLiqOp: anyone hands collateral coins to the generation-2 auction module and names the debt coin the
// auction has to raise for him (MsgLiquidateExternalKeeperRequest). The chain requires a funded app reserve for the
// (app, debt asset) and a Dutch-activated whitelisting of the app; penalty and bonus come from the auction params.
// The collateral is worth 0.6x .. 5x the debt, so that both "collateral exhausted, reserve pays the shortage" and
// "target reached, owner gets the remainder" occur; a few requests are invalid on purpose.
func (r *cdpRunner) externalLiqOp() {
	u := r.u
	a := r.pickAcct()
	owner := r.pickAcct()
	if r.rnd.Intn(4) == 0 {
		owner = a
	}
	app := uint64(appCommodo)
	switch r.rnd.Intn(12) {
	case 0, 1, 2, 3:
		app = appBeacon
	case 4:
		app = appHarbor // no generation-2 whitelisting: must be refused
	}
	coll := u.byDenom[[]string{"uatom", "ucmdx", "weth-wei", "wbtc-sat"}[r.rnd.Intn(4)]]
	debt := u.byDenom[[]string{"ucmst", "ucmst", "ucmtw"}[r.rnd.Intn(3)]]
	if coll == nil || debt == nil {
		return
	}
	// debt: 1 .. 60 whole coins, sometimes tiny
	debtAmt := new(big.Int).Mul(debt.Dec, big.NewInt(int64(1+r.rnd.Intn(60))))
	switch r.rnd.Intn(20) {
	case 0:
		debtAmt = big.NewInt(int64(r.rnd.Intn(3)))
	case 1, 2:
		debtAmt = new(big.Int).Quo(debt.Dec, big.NewInt(int64(2+r.rnd.Intn(50))))
	}
	pc, _ := u.price(coll)
	pd, _ := u.price(debt)
	if pc == 0 {
		pc = 1
	}
	ratio := int64([]int{60, 90, 100, 104, 112, 130, 200, 500}[r.rnd.Intn(8)])
	// collateral = ratio% * debt * pd/debtDec / pc * collDec
	n := new(big.Int).Mul(debtAmt, new(big.Int).SetUint64(pd))
	n.Mul(n, coll.Dec)
	n.Mul(n, big.NewInt(ratio))
	d := new(big.Int).Mul(debt.Dec, new(big.Int).SetUint64(pc))
	d.Mul(d, big.NewInt(100))
	collAmt := n.Quo(n, d)
	cls := "valid"
	switch r.rnd.Intn(25) {
	case 0:
		collAmt = bigAdd(r.last.bal(a.Name, coll.Denom), big.NewInt(1)) // more than the sender has
		cls = "collateral-above-balance"
	case 1:
		collAmt = new(big.Int)
		cls = "zero-collateral"
	}
	// the reserve of (app, debt asset) has to be funded: most of the time somebody does that first
	if rs, ok := r.last.Reserve[appAsset{app, debt.ID}]; (!ok || !rs.IsPositive()) && r.rnd.Intn(5) != 0 {
		f := r.pickAcct()
		amt := new(big.Int).Mul(debt.Dec, big.NewInt(int64(1+r.rnd.Intn(40))))
		if r.rnd.Intn(3) == 0 {
			amt = big.NewInt(int64(1 + r.rnd.Intn(5000)))
		}
		r.topUpDebt(f, debt.Denom, sdk.NewIntFromBigInt(amt))
		r.tx("reserve_fund", f, &liqV2types.MsgAppReserveFundsRequest{From: f.Addr.String(), AppId: app, AssetId: debt.ID, TokenQuantity: sdk.NewCoin(debt.Denom, sdk.NewIntFromBigInt(amt))}, fmt.Sprintf("app=%d %s%s (for an external auction)", app, amt, debt.Denom))
	}
	collID, debtID := coll.ID, debt.ID
	if r.rnd.Intn(30) == 0 {
		collID, cls = 999, "unknown-collateral-asset"
	}
	isCmst := r.rnd.Intn(2) == 0
	msg := &liqV2types.MsgLiquidateExternalKeeperRequest{From: a.Addr.String(), AppId: app, Owner: owner.Addr.String(),
		CollateralToken: sdk.NewCoin(coll.Denom, sdk.NewIntFromBigInt(collAmt)), DebtToken: sdk.NewCoin(debt.Denom, sdk.NewIntFromBigInt(debtAmt)),
		CollateralAssetId: collID, DebtAssetId: debtID, IsDebtCmst: isCmst}
	res := r.tx("liquidate_external", a, msg, fmt.Sprintf("class=%s app=%d owner=%s collateral=%s%s debt=%s%s ratio=%d%% cmst=%v", cls, app, owner.Name, collAmt, coll.Denom, debtAmt, debt.Denom, ratio, isCmst))
	if res.OK() {
		r.rec.Count("external_auctions_requested_ok_"+cls, 1)
	}
}
