package props

import (
	"fmt"
	sdk "github.com/cosmos/cosmos-sdk/types"
	"math/big"
	"reflect"
	"testing"

	banktypes "github.com/cosmos/cosmos-sdk/x/bank/types"

	collectortypes "github.com/comdex-official/comdex/x/collector/types"
	lockertypes "github.com/comdex-official/comdex/x/locker/types"

	"verif/ev"
)

// ---- C13: locker and collector books ----

type c13Mon struct {
	u        *cdpU
	rec      *ev.Rec
	st       *settleTracker
	unsoColl map[string]*big.Int // unsolicited coins sent to the collector account
}

func newC13Mon(u *cdpU, rec *ev.Rec) *c13Mon {
	return &c13Mon{u: u, rec: rec, st: newSettleTracker(), unsoColl: map[string]*big.Int{}}
}

func (m *c13Mon) Observe(pre, post *cdpSnap, e *cdpEvent) {
	u := m.u
	m.st.advance(pre, post)
	ctx := m.st.context(pre, post)
	// surplus / debt auction activity of generation 2 shows up as locked vaults with these initiator types
	for id, lv := range post.LockedV2 {
		if _, was := pre.LockedV2[id]; !was && (lv.InitiatorType == "surplus" || lv.InitiatorType == "debt") {
			ctx += "+" + lv.InitiatorType + "-auction-opened-v2"
			m.rec.Count(lv.InitiatorType+"_auctions_opened_v2", 1)
		}
	}
	for id, lv := range pre.LockedV2 {
		if _, still := post.LockedV2[id]; !still && (lv.InitiatorType == "surplus" || lv.InitiatorType == "debt") {
			ctx += "+" + lv.InitiatorType + "-auction-closed-v2"
			m.rec.Count(lv.InitiatorType+"_auctions_closed_v2", 1)
		}
	}
	unsolicitedNow := map[string]*big.Int{}
	if e.Kind == "tx" && e.Res.OK() {
		if ms, ok := e.Msg.(*banktypes.MsgSend); ok && ms.ToAddress == u.c.ModAddr(collectortypes.ModuleName).String() {
			for _, c := range ms.Amount {
				unsolicitedNow[c.Denom] = c.Amount.BigInt()
				if m.unsoColl[c.Denom] == nil {
					m.unsoColl[c.Denom] = new(big.Int)
				}
				m.unsoColl[c.Denom].Add(m.unsoColl[c.Denom], c.Amount.BigInt())
			}
		}
	}
	// (1) locker books: DepositedAmount(app, asset) == sum of NetBalance; custody >= sum over apps
	sumNet := map[appAsset]*big.Int{}
	for _, l := range post.Lockers {
		k := appAsset{l.AppId, l.AssetDepositId}
		if sumNet[k] == nil {
			sumNet[k] = new(big.Int)
		}
		sumNet[k].Add(sumNet[k], l.NetBalance.BigInt())
	}
	perDenomLocker := map[string]*big.Int{}
	for k, tot := range post.LockerTot {
		m.rec.Eval(1)
		s := sumNet[k]
		if s == nil {
			s = new(big.Int)
		}
		if tot.BigInt().Cmp(s) != 0 {
			preS := new(big.Int)
			for _, l := range pre.Lockers {
				if l.AppId == k.App && l.AssetDepositId == k.Asset {
					preS.Add(preS, l.NetBalance.BigInt())
				}
			}
			if pt, ok := pre.LockerTot[k]; !ok || pt.BigInt().Cmp(preS) == 0 { // attribute to the event that broke it
				m.rec.Violate(fmt.Sprintf("C13/locker/deposited-total-not-sum-of-balances/%s", opTag(e)), fmt.Sprintf("deposited total %s != sum of locker balances %s", tot, s),
					map[string]interface{}{"app": k.App, "asset": k.Asset, "event": e.String()})
			}
		}
		d := u.byID[k.Asset].Denom
		if perDenomLocker[d] == nil {
			perDenomLocker[d] = new(big.Int)
		}
		perDenomLocker[d].Add(perDenomLocker[d], tot.BigInt())
	}
	for d, tot := range perDenomLocker {
		m.rec.Eval(1)
		if post.bal(modLabel(lockertypes.ModuleName), d).Cmp(tot) < 0 {
			m.rec.Violate(fmt.Sprintf("C13/locker/custody-below-deposits/%s", opTag(e)), fmt.Sprintf("locker custody %s < recorded deposits %s (%s)", post.bal(modLabel(lockertypes.ModuleName), d), tot, d),
				map[string]interface{}{"event": e.String()})
		}
	}
	// (2) withdraw / close pay exactly the requested amount / the full balance
	if e.Kind == "tx" && e.Res.OK() && e.Signer != nil {
		switch x := e.Msg.(type) {
		case *lockertypes.MsgWithdrawAssetRequest:
			d := u.byID[x.AssetId].Denom
			got := bigSub(post.bal(e.Signer.Name, d), pre.bal(e.Signer.Name, d))
			m.rec.Eval(1)
			m.rec.Count("locker_withdrawals_checked", 1)
			if got.Cmp(x.Amount.BigInt()) != 0 {
				m.rec.Violate("C13/locker/withdraw-paid-not-requested", fmt.Sprintf("requested %s, owner received %s", x.Amount, got), map[string]interface{}{"event": e.String()})
			}
		case *lockertypes.MsgCloseLockerRequest:
			l := pre.Lockers[x.LockerId]
			d := u.byID[x.AssetId].Denom
			got := bigSub(post.bal(e.Signer.Name, d), pre.bal(e.Signer.Name, d))
			// savings credited inside the same tx come out of the collector account
			credited := bigSub(pre.bal(modLabel(collectortypes.ModuleName), d), post.bal(modLabel(collectortypes.ModuleName), d))
			want := bigAdd(l.NetBalance.BigInt(), credited)
			m.rec.Eval(1)
			m.rec.Count("locker_closes_checked", 1)
			if got.Cmp(want) != 0 {
				m.rec.Violate("C13/locker/close-paid-not-full-balance", fmt.Sprintf("balance %s + savings credited %s, owner received %s", l.NetBalance, credited, got), map[string]interface{}{"event": e.String()})
			}
		}
	}
	// (3) collector: custody >= sum of net fees per denom; no negative net fee;
	//     net fees move in lock-step with the coins paid in / out
	sumNetFees := map[string]*big.Int{}
	dNetFees := map[string]*big.Int{}
	for k, nf := range post.NetFees {
		d := u.byID[k.Asset].Denom
		if sumNetFees[d] == nil {
			sumNetFees[d] = new(big.Int)
			dNetFees[d] = new(big.Int)
		}
		sumNetFees[d].Add(sumNetFees[d], nf.BigInt())
		old := new(big.Int)
		if o, ok := pre.NetFees[k]; ok {
			old = o.BigInt()
		}
		dNetFees[d].Add(dNetFees[d], bigSub(nf.BigInt(), old))
		m.rec.Eval(1)
		if nf.IsNegative() {
			m.rec.Violate(fmt.Sprintf("C13/collector/negative-net-fees/%s%s", opTag(e), ctx), fmt.Sprintf("net fees %s", nf), map[string]interface{}{"app": k.App, "asset": k.Asset, "event": e.String()})
		}
	}
	// a transaction that names one app books fees for that app only
	if e.Kind == "tx" && e.Res.OK() && e.Msg != nil {
		if app, ok := c13MsgApp(e.Msg, pre); ok {
			for k, nf := range post.NetFees {
				old := sdk.ZeroInt()
				if o, found := pre.NetFees[k]; found {
					old = o
				}
				if !nf.Equal(old) {
					m.rec.Eval(1)
					m.rec.Count("net_fee_changes_attributed_to_the_message_app", 1)
					if k.App != app {
						m.rec.Violate(fmt.Sprintf("C13/collector/net-fees-booked-under-another-app/%s", opTag(e)), fmt.Sprintf("the message names app %d but the net fees of (app %d, asset %d) moved %s -> %s", app, k.App, k.Asset, old, nf),
							map[string]interface{}{"event": e.String()})
					}
				}
			}
		}
	}
	for d, tot := range sumNetFees {
		m.rec.Eval(1)
		bal := post.bal(modLabel(collectortypes.ModuleName), d)
		preBal := pre.bal(modLabel(collectortypes.ModuleName), d)
		if bal.Cmp(tot) < 0 {
			// attribute to the event where the shortfall changed
			preTot := new(big.Int)
			for k, nf := range pre.NetFees {
				if u.byID[k.Asset].Denom == d {
					preTot.Add(preTot, nf.BigInt())
				}
			}
			if bigSub(preBal, preTot).Cmp(bigSub(bal, tot)) != 0 {
				m.rec.Violate(fmt.Sprintf("C13/collector/custody-below-net-fees/%s%s", opTag(e), ctx), fmt.Sprintf("collector custody %s < recorded net fees %s (%s)", bal, tot, d), map[string]interface{}{"event": e.String()})
			}
		}
		dBal := bigSub(bal, preBal)
		if un := unsolicitedNow[d]; un != nil {
			dBal.Sub(dBal, un)
		}
		if dBal.Cmp(dNetFees[d]) != 0 {
			m.rec.Violate(fmt.Sprintf("C13/collector/net-fees-delta-not-coins-delta/%s%s", opTag(e), ctx), fmt.Sprintf("net fees changed by %s but collector custody (without unsolicited coins) changed by %s (%s)", dNetFees[d], dBal, d),
				map[string]interface{}{"event": e.String(), "denom": d})
		}
		if dNetFees[d].Sign() != 0 {
			m.rec.Count("net_fee_changes_checked", 1)
		}
	}
	m.rec.Distinct("C13", e.Op, e.Res.OK(), len(post.Lockers), ctx, len(post.NetFees))
}

// c13MsgApp returns the app a message operates on: its AppId field, or the app of the auction it names.
func c13MsgApp(msg sdk.Msg, pre *cdpSnap) (uint64, bool) {
	v := reflect.ValueOf(msg)
	if v.Kind() == reflect.Ptr {
		v = v.Elem()
	}
	if v.Kind() != reflect.Struct {
		return 0, false
	}
	if f := v.FieldByName("AppId"); f.IsValid() && f.Kind() == reflect.Uint64 && f.Uint() != 0 {
		return f.Uint(), true
	}
	if f := v.FieldByName("AuctionId"); f.IsValid() && f.Kind() == reflect.Uint64 {
		if a, ok := pre.AucV2[f.Uint()]; ok {
			return a.AppId, true
		}
	}
	return 0, false
}

func TestC13(t *testing.T) {
	rec := ev.New("C13", "exploration", "seeded mixed CDP workload with locker create/deposit/withdraw/close/reward-calc, fee-generating vault operations, savings rates {0,0.1,0.3}, liquidation penalties of both generations and surplus/debt auction flags per app; after every event the locker and collector books are recomputed and net-fee deltas are compared with coin deltas. distinct = (op, outcome, #lockers, context, #net-fee records)")
	defer finish(t, rec)
	runs := ev.Pick(2, 4)
	for run := 0; run < runs; run++ {
		variant := ev.ShardNo()*runs + run
		u := newCDP(t, cdpOpts{variant: variant})
		rnd := rng("C13", run)
		cfg := cdpCfg{priceMoves: true, bids: true, lockers: true, unsolicited: true, liquidateMsg: true, reserve: variant%2 == 1, govChanges: variant%3 != 0}
		r := newCdpRunner(u, rnd, rec, cfg, newC13Mon(u, rec))
		r.run(cdpSteps())
		// one run in three ends with the emergency shutdown of one app (hand-back of auctioned vaults books the
		// collected penalty, the collector's funds of the app go to redemption)
		if variant%3 == 1 {
			r.esmPhase(u.cdpApps[variant%len(u.cdpApps)])
		}
		if run == 0 {
			rec.Sample(map[string]interface{}{"variant": variant, "oplog_tail": r.tail(10)})
		}
		u.c.Close()
	}
	rec.Floor("locker_withdrawals_checked", 3)
	rec.Floor("net_fee_changes_checked", 50)
	rec.Floor("op_locker_create_ok", 5)
}
