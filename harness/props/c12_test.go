package props

import (
	"encoding/json"
	"fmt"
	"reflect"
	"strings"
	"testing"
	"time"

	wasmvmtypes "github.com/CosmWasm/wasmvm/types"
	storetypes "github.com/cosmos/cosmos-sdk/store/types"
	sdk "github.com/cosmos/cosmos-sdk/types"

	"github.com/comdex-official/comdex/app/wasm/bindings"
	auctionsV2types "github.com/comdex-official/comdex/x/auctionsV2/types"
	esmtypes "github.com/comdex-official/comdex/x/esm/types"
	lockertypes "github.com/comdex-official/comdex/x/locker/types"
	vaulttypes "github.com/comdex-official/comdex/x/vault/types"

	"verif/ev"
	"verif/inject"
	"verif/sim"
)

// ---- C12: only the rightful party can act ----

// dumpNoAuth hashes every store of the open block's state except the two the
// ante handler writes for every signed transaction.
func dumpNoAuth(c *sim.Chain, keys map[string]*storetypes.KVStoreKey) (map[string]string, string) {
	k2 := map[string]*storetypes.KVStoreKey{}
	for n, k := range keys {
		if n == "acc" || n == "wasm" {
			// written by the ante handler for every signed tx whatever the messages do:
			// account sequence, and wasm's per-block tx counter (no contracts exist in the harness)
			continue
		}
		k2[n] = k
	}
	return inject.Dump(c.Ctx().MultiStore(), k2)
}

type pairedCase struct {
	name  string
	owner *sim.Acct
	mk    func(from *sim.Acct) sdk.Msg // the message, naming the victim's position, with `from` as the declared sender
	prep  func()                       // optional: make the owner's control succeed (e.g. top up debt coins)
}

// runPaired: non-owners must fail and leave no trace; then the owner must succeed on the very same state.
func runPaired(c *sim.Chain, rec *ev.Rec, keys map[string]*storetypes.KVStoreKey, pc pairedCase, others []*sim.Acct) {
	if pc.prep != nil {
		pc.prep()
	}
	for _, o := range others {
		if o == pc.owner {
			continue
		}
		// (a) the attacker declares itself as sender and names the victim's position
		per0, all0 := dumpNoAuth(c, keys)
		res := c.Deliver(o, pc.mk(o))
		per1, all1 := dumpNoAuth(c, keys)
		rec.Eval(1)
		rec.Count("non_owner_attempts", 1)
		w := map[string]interface{}{"case": pc.name, "non_owner": o.Name, "owner": pc.owner.Name, "code": res.Code, "log": trunc(res.Log)}
		if res.OK() {
			rec.Violate("C12/"+pc.name+"/non-owner-accepted", "a message naming another account's position succeeded for a non-owner", w)
		} else if all0 != all1 {
			w["stores_changed"] = inject.DiffStores(per0, per1)
			rec.Violate("C12/"+pc.name+"/rejected-but-state-changed", "a rejected non-owner attempt changed balances or records", w)
		}
		// (b) the attacker signs a message that declares the owner as sender
		per0, all0 = per1, all1
		res = c.Deliver(o, pc.mk(pc.owner))
		per1, all1 = dumpNoAuth(c, keys)
		rec.Eval(1)
		rec.Count("forged_sender_attempts", 1)
		if res.OK() {
			rec.Violate("C12/"+pc.name+"/forged-sender-accepted", "a message declaring the owner as sender but signed by someone else succeeded", w)
		} else if all0 != all1 {
			w["stores_changed"] = inject.DiffStores(per0, per1)
			rec.Violate("C12/"+pc.name+"/forged-sender-rejected-but-state-changed", "a rejected forged attempt changed balances or records", w)
		}
	}
	res := c.Deliver(pc.owner, pc.mk(pc.owner))
	rec.Eval(1)
	if res.OK() {
		rec.Count("live:"+pc.name, 1)
		rec.Count("owner_controls_succeeded", 1)
	} else {
		rec.Count("not-live:"+pc.name, 1)
	}
	rec.Distinct("C12", pc.name, res.OK())
}

func c12CDP(t *testing.T, rec *ev.Rec, round int) {
	u := newCDP(t, cdpOpts{variant: ev.ShardNo()*7 + round})
	defer u.c.Close()
	c := u.c
	keys := storeKeys(c)
	rnd := rng("C12", round)
	r := newCdpRunner(u, rnd, rec, cdpCfg{priceMoves: false, lockers: true, limitBids: true, maxGap: time.Hour})
	r.run(ev.Pick(120, 400)) // a reachable state with positions of several users
	others := func(owner *sim.Acct) []*sim.Acct {
		var o []*sim.Acct
		for _, a := range c.Accts {
			if a != owner && len(o) < 3 {
				o = append(o, a)
			}
		}
		return o
	}
	// fresh healthy vaults so that the owner's positive control is live
	owner := c.Accts[rnd.Intn(len(c.Accts))]
	for _, p := range u.products {
		if p.P.IsStableMintVault {
			continue
		}
		debt := p.P.DebtFloor.MulRaw(50)
		in := r.collateralFor(p, debt, p.P.MinCr.MulInt64(1000).TruncateInt64()*3)
		c.Deliver(owner, &vaulttypes.MsgCreateRequest{From: owner.Addr.String(), AppId: p.App, ExtendedPairVaultId: p.ID, AmountIn: in, AmountOut: debt})
	}
	r.last = u.snap()
	n := 0
	for _, v := range r.vaultsSorted() {
		if v.Owner != owner.Addr.String() || n >= ev.Pick(3, 8) {
			continue
		}
		n++
		v := v
		p := u.prodByID[v.ExtendedPairVaultID]
		small := v.AmountIn.QuoRaw(100).AddRaw(1)
		mkv := func(name string, f func(from string) sdk.Msg, prep func()) pairedCase {
			return pairedCase{name: "vault/" + name, owner: owner, mk: func(a *sim.Acct) sdk.Msg { return f(a.Addr.String()) }, prep: prep}
		}
		top := func() { r.topUpDebt(owner, p.Out.Denom, v.AmountOut.MulRaw(2)); r.last = u.snap() }
		for _, pc := range []pairedCase{
			mkv("deposit", func(f string) sdk.Msg {
				return &vaulttypes.MsgDepositRequest{From: f, AppId: v.AppId, ExtendedPairVaultId: v.ExtendedPairVaultID, UserVaultId: v.Id, Amount: small}
			}, nil),
			mkv("withdraw", func(f string) sdk.Msg {
				return &vaulttypes.MsgWithdrawRequest{From: f, AppId: v.AppId, ExtendedPairVaultId: v.ExtendedPairVaultID, UserVaultId: v.Id, Amount: small}
			}, nil),
			mkv("withdraw/whole-collateral", func(f string) sdk.Msg {
				return &vaulttypes.MsgWithdrawRequest{From: f, AppId: v.AppId, ExtendedPairVaultId: v.ExtendedPairVaultID, UserVaultId: v.Id, Amount: v.AmountIn}
			}, nil),
			mkv("draw", func(f string) sdk.Msg {
				return &vaulttypes.MsgDrawRequest{From: f, AppId: v.AppId, ExtendedPairVaultId: v.ExtendedPairVaultID, UserVaultId: v.Id, Amount: p.P.DebtFloor}
			}, nil),
			mkv("repay", func(f string) sdk.Msg {
				return &vaulttypes.MsgRepayRequest{From: f, AppId: v.AppId, ExtendedPairVaultId: v.ExtendedPairVaultID, UserVaultId: v.Id, Amount: p.P.DebtFloor}
			}, top),
			mkv("repay/whole-debt", func(f string) sdk.Msg {
				return &vaulttypes.MsgRepayRequest{From: f, AppId: v.AppId, ExtendedPairVaultId: v.ExtendedPairVaultID, UserVaultId: v.Id, Amount: v.AmountOut}
			}, top),
			mkv("deposit-and-draw", func(f string) sdk.Msg {
				return &vaulttypes.MsgDepositAndDrawRequest{From: f, AppId: v.AppId, ExtendedPairVaultId: v.ExtendedPairVaultID, UserVaultId: v.Id, Amount: small}
			}, nil),
			mkv("close", func(f string) sdk.Msg {
				return &vaulttypes.MsgCloseRequest{From: f, AppId: v.AppId, ExtendedPairVaultId: v.ExtendedPairVaultID, UserVaultId: v.Id}
			}, top),
		} {
			// non-owners get debt coins too, so that a missing check could not hide behind "insufficient funds"
			for _, o := range others(owner) {
				r.topUpDebt(o, p.Out.Denom, v.AmountOut)
			}
			runPaired(c, rec, keys, pc, others(owner))
		}
	}
	// lockers
	r.topUpDebt(owner, "ucmst", sdk.NewInt(50_000_000))
	for _, app := range u.cdpApps {
		as := u.byDenom["ucmst"]
		c.Deliver(owner, &lockertypes.MsgCreateLockerRequest{Depositor: owner.Addr.String(), Amount: sdk.NewInt(5_000_000), AssetId: as.ID, AppId: app})
	}
	r.last = u.snap()
	for _, l := range r.last.Lockers {
		if l.Depositor != owner.Addr.String() {
			continue
		}
		l := l
		for _, o := range others(owner) {
			r.topUpDebt(o, u.byID[l.AssetDepositId].Denom, sdk.NewInt(2_000_000))
		}
		for _, pc := range []pairedCase{
			{name: "locker/deposit", owner: owner, mk: func(a *sim.Acct) sdk.Msg {
				return &lockertypes.MsgDepositAssetRequest{Depositor: a.Addr.String(), LockerId: l.LockerId, Amount: sdk.NewInt(1000), AssetId: l.AssetDepositId, AppId: l.AppId}
			}},
			{name: "locker/withdraw", owner: owner, mk: func(a *sim.Acct) sdk.Msg {
				return &lockertypes.MsgWithdrawAssetRequest{Depositor: a.Addr.String(), LockerId: l.LockerId, Amount: sdk.NewInt(1000), AssetId: l.AssetDepositId, AppId: l.AppId}
			}},
			{name: "locker/withdraw/whole-balance", owner: owner, mk: func(a *sim.Acct) sdk.Msg {
				return &lockertypes.MsgWithdrawAssetRequest{Depositor: a.Addr.String(), LockerId: l.LockerId, Amount: l.NetBalance.SubRaw(1000), AssetId: l.AssetDepositId, AppId: l.AppId}
			}},
			{name: "locker/close", owner: owner, mk: func(a *sim.Acct) sdk.Msg {
				return &lockertypes.MsgCloseLockerRequest{Depositor: a.Addr.String(), AppId: l.AppId, AssetId: l.AssetDepositId, LockerId: l.LockerId}
			}},
		} {
			runPaired(c, rec, keys, pc, others(owner))
		}
	}
	// limit bids: the position is keyed by the bidder named in the message
	as, coll := u.byDenom["ucmst"], u.byDenom["uatom"]
	r.topUpDebt(owner, "ucmst", sdk.NewInt(20_000_000))
	c.Deliver(owner, &auctionsV2types.MsgDepositLimitBidRequest{CollateralTokenId: coll.ID, DebtTokenId: as.ID, PremiumDiscount: sdk.NewInt(7), Bidder: owner.Addr.String(), Amount: sdk.NewCoin("ucmst", sdk.NewInt(9_000_000))})
	c.Deliver(owner, &auctionsV2types.MsgDepositLimitBidRequest{CollateralTokenId: coll.ID, DebtTokenId: as.ID, PremiumDiscount: sdk.NewInt(9), Bidder: owner.Addr.String(), Amount: sdk.NewCoin("ucmst", sdk.NewInt(4_000_000))})
	// a limit bid is keyed by (collateral, debt, premium, bidder): an account that happens to hold a bid of its own at
	// the same key (the workload aims bids at whatever premium an auction is about to reach) addresses its own bid with
	// the same message, so it is not a non-owner for these cases
	othersWithoutBid := func(prems ...int64) []*sim.Acct {
		var o []*sim.Acct
		for _, a := range c.Accts {
			if a == owner || len(o) >= 3 {
				continue
			}
			has := false
			for _, pr := range prems {
				if _, found := c.App.NewaucKeeper.GetUserLimitBidData(c.Ctx(), as.ID, coll.ID, sdk.NewInt(pr), a.Addr.String()); found {
					has = true
				}
			}
			if !has {
				o = append(o, a)
			}
		}
		return o
	}
	for _, pc := range []pairedCase{
		{name: "limit-bid/withdraw", owner: owner, mk: func(a *sim.Acct) sdk.Msg {
			return &auctionsV2types.MsgWithdrawLimitBidRequest{CollateralTokenId: coll.ID, DebtTokenId: as.ID, PremiumDiscount: sdk.NewInt(7), Bidder: a.Addr.String(), Amount: sdk.NewCoin("ucmst", sdk.NewInt(1_000_000))}
		}},
		{name: "limit-bid/withdraw/whole-deposit", owner: owner, mk: func(a *sim.Acct) sdk.Msg {
			return &auctionsV2types.MsgWithdrawLimitBidRequest{CollateralTokenId: coll.ID, DebtTokenId: as.ID, PremiumDiscount: sdk.NewInt(9), Bidder: a.Addr.String(), Amount: sdk.NewCoin("ucmst", sdk.NewInt(4_000_000))}
		}},
		{name: "limit-bid/cancel", owner: owner, mk: func(a *sim.Acct) sdk.Msg {
			return &auctionsV2types.MsgCancelLimitBidRequest{CollateralTokenId: coll.ID, DebtTokenId: as.ID, PremiumDiscount: sdk.NewInt(7), Bidder: a.Addr.String()}
		}},
	} {
		runPaired(c, rec, keys, pc, othersWithoutBid(7, 9))
	}

	// ---- kill switch: admins only
	admin := c.Accts[1]
	c.App.EsmKeeper.SetParams(c.Ctx(), esmtypes.Params{Admin: []string{admin.Addr.String()}})
	for _, app := range u.cdpApps {
		app := app
		for _, on := range []bool{true, false} {
			on := on
			mk := func(a *sim.Acct) sdk.Msg {
				return &esmtypes.MsgKillRequest{From: a.Addr.String(), KillSwitchParams: &esmtypes.KillSwitchParams{AppId: app, BreakerEnable: on}}
			}
			runPaired(c, rec, keys, pairedCase{name: "kill-switch", owner: admin, mk: mk}, others(admin))
		}
	}
}

// ---- custom contract -> chain messages ----

var c12Designated = map[string][]string{
	"comdex-1":     {"comdex17p9rzwnnfxcjp32un9ug7yhhzgtkhvl9jfksztgw5uh69wac2pgs4jg6dx", "comdex1nc5tatafv6eyq7llkr2gv50ff9e22mnf70qgjlv737ktmt4eswrqdfklyz"},
	"comdex-test3": {"comdex1qwlgtx52gsdu7dtp0cekka5zehdl0uj3fhp9acg325fvgs8jdzksjvgq6q", "comdex1ghd753shjuwexxywmgs4xz7x2q732vcnkm6h2pyv9s6ah3hylvrqfy9rd8"},
}

// c12Payloads builds one live payload per variant of bindings.ComdexMessages.
func c12Payloads(u *cdpU) map[string]bindings.ComdexMessages {
	cmst, harbor, atom := u.byDenom["ucmst"].ID, u.byDenom["uharbor"].ID, u.byDenom["uatom"].ID
	acct := u.c.Accts[2].Addr
	return map[string]bindings.ComdexMessages{
		"MsgWhiteListAssetLocker":              {MsgWhiteListAssetLocker: &bindings.MsgWhiteListAssetLocker{AppID: appCswap, AssetID: cmst}},
		"MsgWhitelistAppIDVaultInterest":       {MsgWhitelistAppIDVaultInterest: &bindings.MsgWhitelistAppIDVaultInterest{AppID: appCswap}},
		"MsgWhitelistAppIDLockerRewards":       {MsgWhitelistAppIDLockerRewards: &bindings.MsgWhitelistAppIDLockerRewards{AppID: appHarbor, AssetID: harbor}},
		"MsgAddExtendedPairsVault":             {MsgAddExtendedPairsVault: &bindings.MsgAddExtendedPairsVault{AppID: appHarbor, PairID: 2, StabilityFee: dec("0.01"), ClosingFee: dec("0"), LiquidationPenalty: dec("0.1"), DrawDownFee: dec("0.01"), IsVaultActive: true, DebtCeiling: sdk.NewInt(1e12), DebtFloor: sdk.NewInt(1e6), MinCr: dec("1.7"), PairName: "ATOM-Z", AssetOutOraclePrice: true, AssetOutPrice: 1_000_000, MinUsdValueLeft: 100000}},
		"MsgSetCollectorLookupTable":           {MsgSetCollectorLookupTable: &bindings.MsgSetCollectorLookupTable{AppID: appCswap, CollectorAssetID: cmst, SecondaryAssetID: harbor, SurplusThreshold: sdk.NewInt(1e7), DebtThreshold: sdk.NewInt(5e6), LockerSavingRate: dec("0.1"), LotSize: sdk.NewInt(2e6), BidFactor: dec("0.01"), DebtLotSize: sdk.NewInt(2e6)}},
		"MsgSetAuctionMappingForApp":           {MsgSetAuctionMappingForApp: &bindings.MsgSetAuctionMappingForApp{AppID: appCswap, AssetIDs: cmst, IsSurplusAuctions: true, AssetOutPrices: 1_000_000}},
		"MsgUpdatePairsVault":                  {MsgUpdatePairsVault: &bindings.MsgUpdatePairsVault{AppID: appHarbor, ExtPairID: 1, StabilityFee: dec("0.02"), ClosingFee: dec("0"), LiquidationPenalty: dec("0.1"), DrawDownFee: dec("0.01"), IsVaultActive: true, MinCr: dec("1.6"), DebtCeiling: sdk.NewInt(1e15), DebtFloor: sdk.NewInt(1e6), MinUsdValueLeft: 100000}},
		"MsgUpdateCollectorLookupTable":        {MsgUpdateCollectorLookupTable: &bindings.MsgUpdateCollectorLookupTable{AppID: appHarbor, AssetID: cmst, DebtThreshold: sdk.NewInt(4e6), SurplusThreshold: sdk.NewInt(2e7), LotSize: sdk.NewInt(2e6), DebtLotSize: sdk.NewInt(2e6), BidFactor: dec("0.02"), LSR: dec("0.05")}},
		"MsgRemoveWhitelistAssetLocker":        {MsgRemoveWhitelistAssetLocker: &bindings.MsgRemoveWhitelistAssetLocker{AppID: appHarbor, AssetID: cmst}},
		"MsgRemoveWhitelistAppIDVaultInterest": {MsgRemoveWhitelistAppIDVaultInterest: &bindings.MsgRemoveWhitelistAppIDVaultInterest{AppMappingID: appHarbor}},
		"MsgWhitelistAppIDLiquidation":         {MsgWhitelistAppIDLiquidation: &bindings.MsgWhitelistAppIDLiquidation{AppID: appCswap}},
		"MsgRemoveWhitelistAppIDLiquidation":   {MsgRemoveWhitelistAppIDLiquidation: &bindings.MsgRemoveWhitelistAppIDLiquidation{AppID: appHarbor}},
		"MsgAddAuctionParams":                  {MsgAddAuctionParams: &bindings.MsgAddAuctionParams{AppID: appCswap, AuctionDurationSeconds: 300, Buffer: dec("1.2"), Cusp: dec("0.6"), Step: 1, PriceFunctionType: 1, SurplusID: 1, DebtID: 2, DutchID: 3, BidDurationSeconds: 300}},
		"MsgBurnGovTokensForApp":               {MsgBurnGovTokensForApp: &bindings.MsgBurnGovTokensForApp{AppID: appHarbor, From: acct, Amount: sdk.NewCoin("uharbor", sdk.NewInt(1000))}},
		"MsgAddESMTriggerParams":               {MsgAddESMTriggerParams: &bindings.MsgAddESMTriggerParams{AppID: appHarbor, TargetValue: sdk.NewCoin("uharbor", sdk.NewInt(1e9)), CoolOffPeriod: 3600, AssetID: []uint64{atom}, Rates: []uint64{10_000_000}}},
		"MsgEmissionRewards":                   {MsgEmissionRewards: &bindings.MsgEmissionRewards{AppID: appHarbor, Amount: sdk.NewInt(1000), EmissionAmount: 1000, ExtendedPair: []uint64{1}, VotingRatio: []sdk.Int{sdk.NewInt(1)}}},
		"MsgFoundationEmission":                {MsgFoundationEmission: &bindings.MsgFoundationEmission{AppID: appHarbor, Amount: sdk.NewInt(1000), FoundationAddress: []string{acct.String()}}},
		"MsgRebaseMint":                        {MsgRebaseMint: &bindings.MsgRebaseMint{AppID: appHarbor, Amount: sdk.NewInt(1000), ContractAddr: acct}},
		"MsgGetSurplusFund":                    {MsgGetSurplusFund: &bindings.MsgGetSurplusFund{AppID: appHarbor, AssetID: cmst, ContractAddr: acct, Amount: sdk.NewCoin("ucmst", sdk.NewInt(1))}},
		"MsgEmissionPoolRewards":               {MsgEmissionPoolRewards: &bindings.MsgEmissionPoolRewards{AppID: appHarbor, CswapAppID: appCswap, Amount: sdk.NewInt(1000), Pools: []uint64{1}, VotingRatio: []sdk.Int{sdk.NewInt(1)}}},
	}
}

// c12WithAddr returns a copy of the payload in which every sdk.AccAddress field of the set variant is addr.
func c12WithAddr(pl bindings.ComdexMessages, addr sdk.AccAddress) (bindings.ComdexMessages, bool) {
	v := reflect.ValueOf(&pl).Elem()
	changed := false
	for i := 0; i < v.NumField(); i++ {
		f := v.Field(i)
		if f.Kind() != reflect.Ptr || f.IsNil() || f.Type().Elem().Kind() != reflect.Struct {
			continue
		}
		cp := reflect.New(f.Type().Elem())
		cp.Elem().Set(f.Elem())
		for j := 0; j < cp.Elem().NumField(); j++ {
			if ff := cp.Elem().Field(j); ff.Type() == reflect.TypeOf(sdk.AccAddress{}) && ff.CanSet() {
				ff.Set(reflect.ValueOf(addr))
				changed = true
			}
		}
		f.Set(cp)
	}
	return pl, changed
}

func c12Wasm(t *testing.T, rec *ev.Rec) {
	u := newCDP(t, cdpOpts{variant: ev.ShardNo()})
	defer u.c.Close()
	c := u.c
	rnd := rng("C12-wasm")
	r := newCdpRunner(u, rnd, rec, cdpCfg{lockers: true, maxGap: time.Hour})
	r.run(ev.Pick(150, 400)) // fees collected, lockers, vaults exist
	keys := storeKeys(c)
	payloads := c12Payloads(u)
	// every pointer field of ComdexMessages is a variant
	tp := reflect.TypeOf(bindings.ComdexMessages{})
	var variants []string
	for i := 0; i < tp.NumField(); i++ {
		if tp.Field(i).Type.Kind() == reflect.Ptr {
			variants = append(variants, tp.Field(i).Name)
		}
	}
	rec.Count("wasm_variants_enumerated", int64(len(variants)))
	msgr := c.Messenger()
	randomSenders := []sdk.AccAddress{c.Accts[3].Addr, sdk.AccAddress([]byte("some-other-contract-")), sim.GovContract}
	for _, v := range variants {
		pl, ok := payloads[v]
		if !ok {
			rec.Note("custom message variant without payload builder: " + v + " (not decided)")
			rec.Count("wasm_variants_without_payload", 1)
			continue
		}
		bz, err := json.Marshal(pl)
		must(t, err)
		for chainID, designated := range c12Designated {
			bodies := []struct {
				what string
				bz   []byte
			}{{"as-built", bz}}
			for _, d := range designated {
				// a hostile contract fills every address field of the body with a designated contract's address
				if mp, changed := c12WithAddr(pl, sdk.MustAccAddressFromBech32(d)); changed {
					mbz, err := json.Marshal(mp)
					must(t, err)
					bodies = append(bodies, struct {
						what string
						bz   []byte
					}{"address-fields-name-designated-contract", mbz})
				}
			}
			body := bz
			dispatch := func(sender sdk.AccAddress) (error, bool) {
				cctx, _ := c.Ctx().CacheContext()
				cctx = cctx.WithChainID(chainID)
				_, before := inject.Dump(cctx.MultiStore(), keys)
				var err error
				func() {
					defer func() {
						if p := recover(); p != nil {
							err = fmt.Errorf("panic: %v", p)
						}
					}()
					_, _, err = msgr.DispatchMsg(cctx, sender, "", wasmvmtypes.CosmosMsg{Custom: body})
				}()
				_, after := inject.Dump(cctx.MultiStore(), keys)
				return err, before != after
			}
			// senders that are not designated on this network: random ones and the other network's contracts
			var strangers []sdk.AccAddress
			strangers = append(strangers, randomSenders...)
			for other, ds := range c12Designated {
				if other != chainID {
					for _, d := range ds {
						strangers = append(strangers, sdk.MustAccAddressFromBech32(d))
					}
				}
			}
			for _, s := range strangers {
				for _, b := range bodies {
					body = b.bz
					err, changed := dispatch(s)
					rec.Eval(1)
					rec.Count("wasm_stranger_attempts", 1)
					rec.Count("wasm_stranger_attempts_body_"+b.what, 1)
					w := map[string]interface{}{"variant": v, "chain_id": chainID, "sender": s.String(), "body": string(b.bz)}
					if err == nil {
						rec.Violate("C12/wasm/"+v+"/accepted-from-non-designated-sender", "a privileged custom message was accepted from a sender that is not a designated governance contract", w)
					} else if changed {
						rec.Violate("C12/wasm/"+v+"/rejected-but-state-changed", "a rejected custom message changed state", w)
					}
				}
			}
			body = bz
			// positive control: at least one designated contract passes the sender guard
			passed := false
			for _, d := range designated {
				err, _ := dispatch(sdk.MustAccAddressFromBech32(d))
				if err == nil || !strings.Contains(err.Error(), "invalid address") {
					passed = true
				}
			}
			rec.Eval(1)
			if passed {
				rec.Count("wasm_designated_controls_passed", 1)
			} else {
				rec.Count("wasm_not_live:"+v, 1)
			}
			rec.Distinct("C12-wasm", v, chainID, passed)
		}
	}
}

// c12Classes: every comdex transaction message type registered in the application, with the reason why it is or
// is not a message that "names a position" of somebody, and (for the owner-gated ones) the paired case that decides
// it. A message type the registry knows and this table does not makes the run inconclusive, not green.
var c12Classes = map[string]string{
	// vaults: keyed by vault id, owner-gated
	"vault.v1beta1.MsgDepositRequest": "paired:vault/deposit", "vault.v1beta1.MsgWithdrawRequest": "paired:vault/withdraw", "vault.v1beta1.MsgDrawRequest": "paired:vault/draw",
	"vault.v1beta1.MsgRepayRequest": "paired:vault/repay", "vault.v1beta1.MsgDepositAndDrawRequest": "paired:vault/deposit-and-draw", "vault.v1beta1.MsgCloseRequest": "paired:vault/close",
	"vault.v1beta1.MsgCreateRequest": "opens the signer's own position", "vault.v1beta1.MsgVaultInterestCalcRequest": "anyone may trigger accrual (moves nothing to or from the owner)",
	"vault.v1beta1.MsgCreateStableMintRequest": "shared stable-mint vault: no owner", "vault.v1beta1.MsgDepositStableMintRequest": "shared stable-mint vault: no owner", "vault.v1beta1.MsgWithdrawStableMintRequest": "shared stable-mint vault: no owner",
	// lockers
	"locker.v1beta1.MsgDepositAssetRequest": "paired:locker/deposit", "locker.v1beta1.MsgWithdrawAssetRequest": "paired:locker/withdraw", "locker.v1beta1.MsgCloseLockerRequest": "paired:locker/close",
	"locker.v1beta1.MsgCreateLockerRequest": "opens the signer's own position", "locker.v1beta1.MsgLockerRewardCalcRequest": "anyone may trigger accrual", "locker.v1beta1.MsgAddWhiteListedAssetRequest": "registered type without a message-service route (cannot be delivered)",
	// limit bids and auctions
	"auctionsV2.v1beta1.MsgWithdrawLimitBidRequest": "paired:limit-bid/withdraw", "auctionsV2.v1beta1.MsgCancelLimitBidRequest": "paired:limit-bid/cancel", "auctionsV2.v1beta1.MsgDepositLimitBidRequest": "opens / enlarges the signer's own position",
	"auctionsV2.v1beta1.MsgPlaceMarketBidRequest": "a bid spends the signer's own coins", "auction.v1beta1.MsgPlaceDutchBidRequest": "a bid spends the signer's own coins", "auction.v1beta1.MsgPlaceDutchLendBidRequest": "a bid spends the signer's own coins",
	"auction.v1beta1.MsgPlaceSurplusBidRequest": "a bid spends the signer's own coins", "auction.v1beta1.MsgPlaceDebtBidRequest": "a bid spends the signer's own coins",
	// lend
	"lend.v1beta1.MsgDeposit": "paired:lend/deposit", "lend.v1beta1.MsgWithdraw": "paired:lend/withdraw", "lend.v1beta1.MsgCloseLend": "paired:lend/close-lend", "lend.v1beta1.MsgBorrow": "paired:lend/borrow-against-foreign-lend",
	"lend.v1beta1.MsgRepay": "paired:lend/repay", "lend.v1beta1.MsgDraw": "paired:lend/draw", "lend.v1beta1.MsgDepositBorrow": "paired:lend/deposit-borrow", "lend.v1beta1.MsgCloseBorrow": "paired:lend/close-borrow", "lend.v1beta1.MsgRepayWithdraw": "paired:lend/repay-withdraw",
	"lend.v1beta1.MsgLend": "opens the signer's own position", "lend.v1beta1.MsgBorrowAlternate": "opens the signer's own positions", "lend.v1beta1.MsgCalculateInterestAndRewards": "keyed by the signer's address",
	"lend.v1beta1.MsgFundModuleAccounts": "a donation of the signer's own coins", "lend.v1beta1.MsgFundReserveAccounts": "a donation of the signer's own coins",
	// liquidity: orders are keyed by id, farms and pool coins by the signer's address
	"liquidity.v1beta1.MsgCancelOrder": "paired:liquidity/cancel-order", "liquidity.v1beta1.MsgUnfarm": "paired:liquidity/unfarm", "liquidity.v1beta1.MsgUnfarmAndWithdraw": "keyed by the signer's address (same farm record as MsgUnfarm)",
	"liquidity.v1beta1.MsgCancelAllOrders": "keyed by the signer's address (count check in c12Extra)", "liquidity.v1beta1.MsgCancelMMOrder": "keyed by the signer's address (count check in c12Extra)",
	"liquidity.v1beta1.MsgWithdraw": "spends the signer's own pool coins", "liquidity.v1beta1.MsgDeposit": "opens the signer's own position", "liquidity.v1beta1.MsgDepositAndFarm": "opens the signer's own position", "liquidity.v1beta1.MsgFarm": "opens the signer's own position",
	"liquidity.v1beta1.MsgLimitOrder": "opens the signer's own position", "liquidity.v1beta1.MsgMarketOrder": "opens the signer's own position", "liquidity.v1beta1.MsgMMOrder": "opens / replaces the signer's own orders",
	"liquidity.v1beta1.MsgCreatePair": "permissionless by design (fee)", "liquidity.v1beta1.MsgCreatePool": "permissionless by design (fee)", "liquidity.v1beta1.MsgCreateRangedPool": "permissionless by design (fee)",
	// liquidation: anyone may liquidate (C09 decides when)
	"liquidation.v1beta1.MsgLiquidateVaultRequest": "anyone may liquidate an unsafe position (C09)", "liquidation.v1beta1.MsgLiquidateBorrowRequest": "anyone may liquidate an unsafe position (C09)",
	"liquidationsV2.v1beta1.MsgLiquidateInternalKeeperRequest": "anyone may liquidate an unsafe position (C09)", "liquidationsV2.v1beta1.MsgLiquidateExternalKeeperRequest": "auctions the signer's own coins", "liquidationsV2.v1beta1.MsgAppReserveFundsRequest": "a donation of the signer's own coins",
	// emergency controls and the rest
	"esm.v1beta1.MsgKillRequest": "paired:kill-switch", "esm.v1beta1.MsgDepositESM": "spends the signer's own coins", "esm.v1beta1.MsgExecuteESM": "anyone may execute once the target is reached (statement C14)", "esm.v1beta1.MsgCollateralRedemptionRequest": "spends the signer's own coins",
	"collector.v1beta1.MsgDeposit": "a donation of the signer's own coins", "asset.v1beta1.MsgAddAsset": "permissionless by design (fee)", "tokenmint.v1beta1.MsgMintNewTokensRequest": "mints the configured genesis supply to the configured recipient, once",
	"rewards.v1beta1.MsgCreateGauge": "spends the signer's own coins", "rewards.v1beta1.ActivateExternalRewardsLockers": "spends the signer's own coins", "rewards.v1beta1.ActivateExternalRewardsVault": "spends the signer's own coins",
	"rewards.v1beta1.ActivateExternalRewardsLend": "spends the signer's own coins", "rewards.v1beta1.ActivateExternalRewardsStableMint": "spends the signer's own coins",
}

// c12Registry enumerates the transaction message types the application registers and requires each to be classified.
func c12Registry(rec *ev.Rec, c *sim.Chain) {
	if ev.ShardNo() != 0 {
		return
	}
	urls := c.App.InterfaceRegistry().ListImplementations("cosmos.base.v1beta1.Msg")
	n, unknown := 0, 0
	for _, u := range urls {
		if !strings.HasPrefix(u, "/comdex.") {
			continue
		}
		n++
		cls, ok := c12Classes[strings.TrimPrefix(u, "/comdex.")]
		if !ok {
			unknown++
			rec.Note("message type registered by the application but not classified by this check (no verdict on it): " + u)
			continue
		}
		if strings.HasPrefix(cls, "paired:") {
			rec.Count("owner_gated_message_types", 1)
		}
	}
	rec.Count("message_types_enumerated", int64(n))
	if unknown == 0 && n > 0 {
		rec.Count("all_message_types_classified", 1)
	}
	rec.Floor("all_message_types_classified", 1)
}

func TestC12(t *testing.T) {
	rec := ev.New("C12", "exploration", "paired execution on reachable states: every position-naming message (vault, locker, limit bid; orders/farms; lend/borrow) is delivered as a real signed tx by 3 non-owners (declared as themselves, and with a forged owner sender) - must fail with an identical full-state dump (auth store excluded) - and then by the owner on the very same state (positive control); kill switch admin vs non-admin; every variant of the custom contract message union (enumerated by reflection) x chain id {comdex-1, comdex-test3} x sender {designated, other network's contracts, random}. distinct = (message kind, control outcome) and (variant, chain id, control outcome)")
	defer finish(t, rec)
	rounds := ev.Pick(3, 8)
	for i := 0; i < rounds; i++ {
		c12CDP(t, rec, i)
	}
	c12Wasm(t, rec)
	c12Extra(t, rec)
	func() {
		c := sim.New(sim.Options{})
		defer c.Close()
		c12Registry(rec, c)
	}()
	// every owner-gated message type must have met its positive control at least once
	for _, cls := range c12Classes {
		if strings.HasPrefix(cls, "paired:") && cls != "paired:lend/borrow-against-foreign-lend" {
			rec.Floor("live:"+strings.TrimPrefix(cls, "paired:"), 1)
		}
	}
	rec.Floor("owner_controls_succeeded", 15)
	rec.Floor("non_owner_attempts", 60)
	rec.Floor("wasm_designated_controls_passed", 30)
	rec.Floor("wasm_stranger_attempts", 200)
}
