package props

import (
	"fmt"
	"math"
	"math/big"
	"math/rand"
	"strings"
	"testing"
	"time"

	sdkmath "cosmossdk.io/math"
	sdk "github.com/cosmos/cosmos-sdk/types"
	banktypes "github.com/cosmos/cosmos-sdk/x/bank/types"

	"github.com/comdex-official/comdex/app/wasm/bindings"
	assettypes "github.com/comdex-official/comdex/x/asset/types"
	liquiditytypes "github.com/comdex-official/comdex/x/liquidity/types"
	lockertypes "github.com/comdex-official/comdex/x/locker/types"
	markettypes "github.com/comdex-official/comdex/x/market/types"
	rewardskeeper "github.com/comdex-official/comdex/x/rewards/keeper"
	rewardstypes "github.com/comdex-official/comdex/x/rewards/types"

	"verif/ev"
	"verif/sim"
)

// ===========================================================================
// Part 1: the split function
// ===========================================================================

func c19SplitCase(rec *ev.Rec, d, n uint64, mode string) {
	rec.Eval(1)
	var splits []uint64
	var pan interface{}
	func() {
		defer func() { pan = recover() }()
		splits = rewardskeeper.SplitTotalAmountPerEpoch(d, n)
	}()
	if pan != nil {
		// the statement does not forbid a panic; it is recorded, not judged
		rec.Count("split_panics", 1)
		return
	}
	sum := new(big.Int)
	for _, s := range splits {
		sum.Add(sum, new(big.Int).SetUint64(s))
	}
	rec.Count("split_cases", 1)
	rem := d % n
	if rem != 0 {
		rec.Count("split_cases_with_remainder", 1)
	}
	if uint64(len(splits)) != n {
		rec.Violate("C19/split/"+mode+"/wrong-number-of-epochs", fmt.Sprintf("split(%d,%d) has %d entries", d, n, len(splits)), map[string]interface{}{"deposit": fmt.Sprint(d), "epochs": fmt.Sprint(n)})
		return
	}
	if sum.Cmp(new(big.Int).SetUint64(d)) != 0 {
		cls := "sum-below-deposit"
		if sum.Cmp(new(big.Int).SetUint64(d)) > 0 {
			cls = "sum-above-deposit"
		}
		rec.Violate("C19/split/"+mode+"/"+cls, fmt.Sprintf("sum of split(%d,%d) is %s", d, n, sum), map[string]interface{}{"deposit": fmt.Sprint(d), "epochs": fmt.Sprint(n), "sum": sum.String()})
	}
}

func c19Split(rec *ev.Rec) {
	i := 0
	for n := uint64(1); n <= 64; n++ {
		for d := n; d <= n+200; d++ {
			i++
			if !mine(i) {
				continue
			}
			c19SplitCase(rec, d, n, "enumerated")
			rec.Distinct("split", n, d)
		}
	}
	rnd := rng("C19-split")
	cnt := ev.Pick(20000, 400000)
	for j := 0; j < cnt; j++ {
		var n uint64
		switch rnd.Intn(4) {
		case 0:
			n = uint64(rnd.Intn(64) + 1)
		case 1:
			n = uint64(rnd.Intn(1000) + 1)
		default:
			n = uint64(rnd.Intn(5000) + 1)
		}
		var d uint64
		switch rnd.Intn(6) {
		case 0:
			d = n + uint64(rnd.Intn(3*int(n)+1))
		case 1:
			d = uint64(rnd.Int63())
		case 2:
			d = math.MaxUint64 - uint64(rnd.Intn(10000))
		case 3:
			d = (1 << 63) - 5000 + uint64(rnd.Intn(10000))
		case 4:
			d = n * uint64(rnd.Intn(1_000_000)+1) // exact multiple
		default:
			d = uint64(rnd.Int63n(1_000_000_000_000))
		}
		if d < n {
			// not admissible: a gauge needs deposit >= triggers
			rec.Count("split_inadmissible_skipped", 1)
			continue
		}
		c19SplitCase(rec, d, n, "random")
		rec.Distinct("split", n, d)
	}
}

// ===========================================================================
// Part 2: gauges on a running chain
// ===========================================================================

type c19Asset struct {
	name  string
	denom string
	id    uint64
	dec   int64 // power of ten exponent
	twa   uint64
}

type c19Pool struct {
	id        uint64
	pairID    uint64
	coinDenom string
	base      string
	quote     string
	reserve   sdk.AccAddress
	feeAddr   sdk.AccAddress
}

type c19Env struct {
	t        *testing.T
	c        *sim.Chain
	rec      *ev.Rec
	rnd      *rand.Rand
	cfg      string
	appID    uint64
	assets   []*c19Asset
	pools    []*c19Pool
	nF       int
	ops      []string
	panicked bool
	priceReg int
	cumPaid  map[string]*big.Int
	rwdNext  int
	nGauges  int
	bigGauge bool
	lockerOn bool
	cmdxID   uint64
	// per block
	hugeValue map[string]bool
	epShares  map[string][]c19EpochShare
}

const c19Admin = 0
const c19Misc = 13

var c19RewardDenoms = []string{"rwda", "rwdb", "rwdc", "rwdd", "rwde", "rwdf"}

func (e *c19Env) logf(format string, a ...interface{}) {
	e.ops = append(e.ops, fmt.Sprintf("h%d ", e.c.Header.Height)+fmt.Sprintf(format, a...))
}

func (e *c19Env) witness(extra map[string]interface{}) map[string]interface{} {
	ops := e.ops
	if len(ops) > 400 {
		ops = append([]string{fmt.Sprintf("... %d earlier ops omitted ...", len(ops)-400)}, ops[len(ops)-400:]...)
	}
	w := map[string]interface{}{"scenario": e.cfg, "ops": ops, "height": e.c.Header.Height, "time": e.c.Header.Time.UTC().Format(time.RFC3339)}
	for k, v := range extra {
		w[k] = v
	}
	return w
}

func (e *c19Env) tx(who int, msg sdk.Msg, tag string) bool {
	e.rec.Count("tx_"+tag+"_attempted", 1)
	var res sim.TxResult
	var pan interface{}
	func() {
		defer func() { pan = recover() }()
		res = e.c.Deliver(e.c.Accts[who], msg)
	}()
	if pan != nil {
		e.rec.Count("tx_"+tag+"_panicked", 1)
		e.logf("%s by u%d PANIC %v", tag, who, pan)
		return false
	}
	if res.OK() {
		e.rec.Count("tx_"+tag+"_ok", 1)
		return true
	}
	e.rec.Count("tx_"+tag+"_rejected", 1)
	return false
}

func (e *c19Env) setPrice(a *c19Asset, twa uint64, active bool) {
	a.twa = twa
	// through the chain driver: with a tape attached (C16, C20) the price write is recorded as an environment action
	e.c.SetTwa(markettypes.TimeWeightedAverage{AssetID: a.id, ScriptID: 12, Twa: twa, CurrentIndex: 0, IsPriceActive: active && twa > 0, PriceValue: []uint64{twa}})
}

func (e *c19Env) asset(denom string) *c19Asset {
	for _, a := range e.assets {
		if a.denom == denom {
			return a
		}
	}
	return nil
}

// pickPriceFor: regime 4 aims the total value of a pool at 10^18..10^21 value units
// (the range where an 18-digit fixed-point multiplier allocation/value gets coarse).
func (e *c19Env) pickPriceFor(a *c19Asset) uint64 {
	if e.priceReg != 4 {
		return e.pickPrice()
	}
	r := e.rnd
	for _, p := range e.pools {
		if p.quote != a.denom && p.base != a.denom {
			continue
		}
		res := e.c.Bal(p.reserve, a.denom)
		if !res.IsPositive() {
			continue
		}
		// twa = target * decimals / (2*reserve)
		target := c19Amount(r, 19, 1).MulRaw(int64(r.Intn(3) + 1))
		twa := target.Mul(c19Pow10(a.dec)).Quo(res.MulRaw(2))
		if twa.IsZero() {
			return 1
		}
		if !twa.IsUint64() {
			return math.MaxUint64
		}
		return twa.Uint64()
	}
	return uint64(r.Int63n(100_000_000)) + 10_000
}

func (e *c19Env) pickPrice() uint64 {
	r := e.rnd
	switch e.priceReg {
	case 1: // high
		switch r.Intn(5) {
		case 0:
			return math.MaxUint64 - uint64(r.Intn(3))
		case 1:
			return 1 << 63
		case 2:
			return uint64(r.Int63n(9_000_000_000_000)) + 1_000_000_000_000
		default:
			return uint64(r.Int63n(1<<40)) + 1<<30
		}
	case 2: // low
		return uint64(r.Intn(3) + 1)
	case 3: // mixed
		switch r.Intn(4) {
		case 0:
			return uint64(r.Intn(3) + 1)
		case 1:
			return uint64(r.Int63n(9_000_000_000_000)) + 1_000_000_000_000
		default:
			return uint64(r.Int63n(100_000_000)) + 10_000
		}
	}
	return uint64(r.Int63n(100_000_000)) + 10_000
}

func c19Pow10(k int64) sdkmath.Int {
	return sdkmath.NewIntFromBigInt(new(big.Int).Exp(big.NewInt(10), big.NewInt(k), nil))
}

func c19RandInt(r *rand.Rand, max sdkmath.Int) sdkmath.Int {
	if !max.IsPositive() {
		return sdkmath.ZeroInt()
	}
	return sdkmath.NewIntFromBigInt(new(big.Int).Rand(r, max.BigInt()))
}

// c19Amount: an amount in [lo, lo*10^span).
func c19Amount(r *rand.Rand, loExp, span int64) sdkmath.Int {
	lo := c19Pow10(loExp)
	return lo.Add(c19RandInt(r, c19Pow10(loExp+span).Sub(lo)))
}

func (e *c19Env) setup(sc int) bool {
	r := e.rnd
	c := e.c
	ctx := c.Ctx()
	must(e.t, c.App.AssetKeeper.AddAppRecords(ctx, assettypes.AppData{Name: "cswap", ShortName: "cswap", MinGovDeposit: sdkmath.NewInt(0), GovTimeInSeconds: 0, GenesisToken: []assettypes.MintGenesisToken{}}))
	apps, _ := c.App.AssetKeeper.GetApps(ctx)
	e.appID = apps[0].Id
	decs := []int64{6, 6, 6, 8, 18}
	names := []string{"AAA", "BBB", "CCC", "DDD"}
	for i, nm := range names {
		a := &c19Asset{name: nm, denom: "u" + strings.ToLower(nm), dec: decs[r.Intn(len(decs))]}
		must(e.t, c.App.AssetKeeper.AddAssetRecords(ctx, assettypes.Asset{Name: nm, Denom: a.denom, Decimals: c19Pow10(a.dec), IsOnChain: true, IsOraclePriceRequired: true}))
		as, _ := c.App.AssetKeeper.GetAssetForDenom(ctx, a.denom)
		a.id = as.Id
		e.assets = append(e.assets, a)
		// the last asset sometimes has no price at all (forces the base-side fallback)
		if i == 3 && r.Intn(2) == 0 {
			continue
		}
		e.setPrice(a, e.pickPrice(), true)
	}
	e.logf("assets %s", e.assetsString())

	// pairs and pools, created with real transactions
	pairDefs := [][2]int{{0, 1}, {1, 2}, {3, 2}, {0, 2}} // base, quote
	nPools := 1 + r.Intn(4)
	if sc%4 == 1 {
		nPools = 2 + r.Intn(3)
	}
	amtReg := (sc / 2) % 3
	for p := 0; p < nPools; p++ {
		base, quote := e.assets[pairDefs[p][0]], e.assets[pairDefs[p][1]]
		if !e.tx(c19Admin, liquiditytypes.NewMsgCreatePair(e.appID, c.Accts[c19Admin].Addr, base.denom, quote.denom), "create_pair") {
			e.t.Fatalf("harness set-up failed: create pair")
		}
		pairs := c.App.LiquidityKeeper.GetAllPairs(c.Ctx(), e.appID)
		pair := pairs[len(pairs)-1]
		var x, y sdkmath.Int
		switch amtReg {
		case 0:
			x, y = c19Amount(r, 6, 1), c19Amount(r, 6, 1)
		case 1:
			x, y = c19Amount(r, 9, 4), c19Amount(r, 9, 4)
		default:
			x, y = c19Amount(r, 18, 7), c19Amount(r, 18, 7)
		}
		dep := sdk.NewCoins(sdk.NewCoin(quote.denom, x), sdk.NewCoin(base.denom, y))
		if !e.tx(c19Admin, liquiditytypes.NewMsgCreatePool(e.appID, c.Accts[c19Admin].Addr, pair.Id, dep), "create_pool") {
			e.t.Fatalf("harness set-up failed: create pool %s", dep)
		}
		pools := c.App.LiquidityKeeper.GetAllPools(c.Ctx(), e.appID)
		pool := pools[len(pools)-1]
		e.pools = append(e.pools, &c19Pool{id: pool.Id, pairID: pair.Id, coinDenom: pool.PoolCoinDenom, base: base.denom, quote: quote.denom, reserve: pool.GetReserveAddress(), feeAddr: pair.GetSwapFeeCollectorAddress()})
		e.logf("pool %d pair %d base=%s quote=%s deposit=%s poolcoin=%s", pool.Id, pair.Id, base.denom, quote.denom, dep, c.Bal(c.Accts[c19Admin].Addr, pool.PoolCoinDenom))
	}
	if e.priceReg == 4 {
		for _, a := range e.assets {
			if a.twa > 0 {
				e.setPrice(a, e.pickPriceFor(a), true)
			}
		}
		e.logf("re-priced %s", e.assetsString())
	}
	// hand pool coins to the farmers
	for _, p := range e.pools {
		ps := c.Bal(c.Accts[c19Admin].Addr, p.coinDenom)
		style := r.Intn(4)
		if e.priceReg == 4 && r.Intn(3) != 0 {
			style = 4
		}
		for f := 1; f <= e.nF; f++ {
			var amt sdkmath.Int
			switch style {
			case 4: // one dominant farmer, the rest comparable
				amt = ps.QuoRaw(int64(40 * e.nF)).Add(c19RandInt(r, ps.QuoRaw(int64(40*e.nF))))
				if f == 1 {
					amt = ps.QuoRaw(4).Add(c19RandInt(r, ps.QuoRaw(8)))
				}
			case 0: // dust
				amt = sdkmath.NewInt(int64(r.Intn(1000) + 1))
			case 1: // equal
				amt = ps.QuoRaw(int64(2 * e.nF))
			case 2: // wildly different magnitudes
				amt = c19RandInt(r, ps.QuoRaw(int64(2*e.nF))).QuoRaw(int64(math.Pow(10, float64(r.Intn(9))))).AddRaw(1)
			default:
				amt = c19RandInt(r, ps.QuoRaw(int64(2*e.nF))).AddRaw(1)
			}
			if r.Intn(6) == 0 && len(e.pools) > 1 {
				continue // this farmer has nothing in this pool
			}
			e.tx(c19Admin, banktypes.NewMsgSend(c.Accts[c19Admin].Addr, c.Accts[f].Addr, sdk.NewCoins(sdk.NewCoin(p.coinDenom, amt))), "send_poolcoin")
			e.logf("send u%d %s%s", f, amt, p.coinDenom)
		}
	}
	if sc%3 == 0 {
		e.setupLockerProgram()
	}
	return true
}

func (e *c19Env) assetsString() string {
	var s []string
	for _, a := range e.assets {
		s = append(s, fmt.Sprintf("%s(id%d,dec=1e%d,twa=%d)", a.denom, a.id, a.dec, a.twa))
	}
	return strings.Join(s, " ")
}

// setupLockerProgram: an external reward programme for lockers, so that the custody
// sum has a second kind of claim on the rewards account.
func (e *c19Env) setupLockerProgram() {
	c := e.c
	ctx := c.Ctx()
	r := e.rnd
	if err := c.App.AssetKeeper.AddAssetRecords(ctx, assettypes.Asset{Name: "CMDX", Denom: "ucmdx", Decimals: c19Pow10(6), IsOnChain: true}); err != nil {
		e.rec.Count("locker_setup_failed", 1)
		return
	}
	as, _ := c.App.AssetKeeper.GetAssetForDenom(ctx, "ucmdx")
	e.cmdxID = as.Id
	if err := c.App.CollectorKeeper.WasmSetCollectorLookupTable(ctx, &bindings.MsgSetCollectorLookupTable{AppID: e.appID, CollectorAssetID: as.Id, SecondaryAssetID: e.assets[0].id,
		SurplusThreshold: sdkmath.NewInt(10000000), DebtThreshold: sdkmath.NewInt(5000000), LockerSavingRate: sdkmath.LegacyZeroDec(), LotSize: sdkmath.NewInt(2000000),
		BidFactor: sdkmath.LegacyMustNewDecFromStr("0.01"), DebtLotSize: sdkmath.NewInt(2000000)}); err != nil {
		e.rec.Count("locker_setup_failed", 1)
		return
	}
	if _, err := c.App.LockerKeeper.AddWhiteListedAsset(ctx, &lockertypes.MsgAddWhiteListedAssetRequest{From: c.Accts[c19Admin].Addr.String(), AppId: e.appID, AssetId: as.Id}); err != nil {
		e.rec.Count("locker_setup_failed", 1)
		return
	}
	n := 0
	for f := 1; f <= e.nF && f <= 5; f++ {
		amt := sdkmath.NewInt(r.Int63n(50_000_000_000) + 1)
		if e.tx(f, lockertypes.NewMsgCreateLockerRequest(c.Accts[f].Addr.String(), amt, as.Id, e.appID), "create_locker") {
			n++
			e.logf("locker u%d %s", f, amt)
		}
	}
	if n == 0 {
		return
	}
	total := sdkmath.NewInt(r.Int63n(1_000_000_000_000) + 1)
	days := int64(r.Intn(5) + 1)
	msg := &rewardstypes.ActivateExternalRewardsLockers{AppMappingId: e.appID, AssetId: as.Id, TotalRewards: sdk.NewCoin("lrwd", total), DurationDays: days, Depositor: c.Accts[c19Misc].Addr.String(), MinLockupTimeSeconds: int64(r.Intn(100000) + 1)}
	if e.tx(c19Misc, msg, "activate_locker_program") {
		e.lockerOn = true
		e.logf("locker programme total=%s days=%d", total, days)
	}
}

func (e *c19Env) activatePricesFor(p *c19Pool) {
	for _, d := range []string{p.base, p.quote} {
		a := e.asset(d)
		if a != nil && a.twa > 0 {
			e.setPrice(a, a.twa, true)
		}
	}
}

func (e *c19Env) createGauge(late bool) {
	r := e.rnd
	c := e.c
	p := e.pools[r.Intn(len(e.pools))]
	master := r.Intn(5) < 2
	var childs []uint64
	if master {
		switch r.Intn(4) {
		case 0: // all other pools
		case 1:
			for _, q := range e.pools {
				if q.id != p.id && r.Intn(2) == 0 {
					childs = append(childs, q.id)
				}
			}
		default:
			for _, q := range e.pools {
				if q.id != p.id {
					childs = append(childs, q.id)
				}
			}
		}
		if r.Intn(12) == 0 {
			childs = append(childs, p.id) // own id: must be refused
		}
		if r.Intn(12) == 0 {
			childs = append(childs, 99) // unknown pool: must be refused
		}
	}
	var d sdkmath.Int
	var n uint64
	cls := ""
	switch x := r.Intn(20); {
	case x < 3:
		n = uint64(r.Intn(12) + 1)
		d = sdkmath.NewIntFromUint64(n)
		cls = "d=n"
	case x < 7:
		n = uint64(r.Intn(11) + 2)
		d = sdkmath.NewIntFromUint64(n*uint64(r.Intn(50)+1) + uint64(r.Intn(int(n)-1)+1))
		cls = "small-with-remainder"
	case x < 13:
		n = uint64(r.Intn(14) + 1)
		d = c19Amount(r, 6, 9)
		cls = "medium"
	case x < 15:
		n = uint64(r.Intn(6) + 1)
		d = sdkmath.NewIntFromUint64((1 << 62) + uint64(r.Int63n(1<<62)))
		cls = "near-2^63"
	case x < 16:
		n = uint64(r.Intn(3) + 1)
		d = sdkmath.NewIntFromUint64(math.MaxUint64 - uint64(r.Intn(1000)))
		cls = "near-2^64"
	case x < 17:
		n = uint64(r.Intn(5) + 2)
		d = sdkmath.NewIntFromUint64(n - 1)
		cls = "inadmissible-d<n"
	case x < 18:
		n = 0
		d = sdkmath.NewInt(int64(r.Intn(1000) + 1))
		cls = "zero-triggers"
	default:
		n = uint64(r.Intn(8) + 1)
		d = sdkmath.NewInt(int64(n) * (r.Int63n(1_000_000) + 1))
		cls = "exact-multiple"
	}
	if late && !e.bigGauge && r.Intn(3) == 0 {
		// a deposit that does not fit 64 bits; the epoch hook is expected to refuse to run, not to overpay
		n = uint64(r.Intn(3) + 1)
		d = sdkmath.NewIntFromBigInt(new(big.Int).Lsh(big.NewInt(1), 64)).AddRaw(r.Int63n(1000))
		cls = "over-2^64"
		e.bigGauge = true
	}
	dur := []time.Duration{12 * time.Hour, 12 * time.Hour, 24 * time.Hour, 24 * time.Hour, 36 * time.Hour, 48 * time.Hour}[r.Intn(6)]
	if r.Intn(25) == 0 {
		dur = 11 * time.Hour
		cls += "+short-duration"
	}
	start := c.Header.Time
	switch r.Intn(5) {
	case 0:
		start = start.Add(time.Duration(r.Intn(72)) * time.Hour)
	case 1:
		start = start.Add(time.Duration(r.Intn(3600)) * time.Second)
	case 2:
		if r.Intn(4) == 0 {
			start = start.Add(-time.Second)
			cls += "+past-start"
		}
	}
	denom := c19RewardDenoms[e.rwdNext%len(c19RewardDenoms)]
	if r.Intn(6) != 0 {
		e.rwdNext++ // mostly one denom per gauge; sometimes two gauges share one
	}
	e.activatePricesFor(p)
	msg := rewardstypes.NewMsgCreateGauge(e.appID, c.Accts[c19Misc].Addr, start, rewardstypes.LiquidityGaugeTypeID, dur, sdk.NewCoin(denom, d), n)
	msg.Kind = &rewardstypes.MsgCreateGauge_LiquidityMetaData{LiquidityMetaData: &rewardstypes.LiquidtyGaugeMetaData{PoolId: p.id, IsMasterPool: master, ChildPoolIds: childs}}
	ok := e.tx(c19Misc, msg, "create_gauge")
	e.rec.Count("gauge_class_"+cls, 1)
	e.logf("create_gauge pool=%d master=%v childs=%v deposit=%s%s triggers=%d dur=%s start=%s class=%s ok=%v", p.id, master, childs, d, denom, n, dur, start.UTC().Format(time.RFC3339), cls, ok)
	if ok {
		e.nGauges++
		if master {
			e.rec.Count("gauges_created_master", 1)
		} else {
			e.rec.Count("gauges_created_plain", 1)
		}
	}
}

func (e *c19Env) farmedTotal(f int, p *c19Pool) sdkmath.Int {
	k := e.c.App.LiquidityKeeper
	ctx := e.c.Ctx()
	tot := sdkmath.ZeroInt()
	if a, ok := k.GetActiveFarmer(ctx, e.appID, p.id, e.c.Accts[f].Addr); ok {
		tot = tot.Add(a.FarmedPoolCoin.Amount)
	}
	if q, ok := k.GetQueuedFarmer(ctx, e.appID, p.id, e.c.Accts[f].Addr); ok {
		for _, qc := range q.QueudCoins {
			tot = tot.Add(qc.FarmedPoolCoin.Amount)
		}
	}
	return tot
}

func (e *c19Env) action() {
	r := e.rnd
	c := e.c
	p := e.pools[r.Intn(len(e.pools))]
	f := 1 + r.Intn(e.nF)
	switch x := r.Intn(100); {
	case x < 34: // farm
		bal := c.Bal(c.Accts[f].Addr, p.coinDenom)
		if !bal.IsPositive() {
			return
		}
		var amt sdkmath.Int
		switch r.Intn(4) {
		case 0:
			amt = bal
		case 1:
			amt = sdkmath.NewInt(int64(r.Intn(100) + 1))
		default:
			amt = c19RandInt(r, bal).AddRaw(1)
		}
		if amt.GT(bal) {
			amt = bal
		}
		ok := e.tx(f, liquiditytypes.NewMsgFarm(e.appID, p.id, c.Accts[f].Addr, sdk.NewCoin(p.coinDenom, amt)), "farm")
		e.logf("farm u%d pool%d %s ok=%v", f, p.id, amt, ok)
	case x < 46: // unfarm
		tot := e.farmedTotal(f, p)
		if !tot.IsPositive() {
			return
		}
		amt := tot
		if r.Intn(3) != 0 {
			amt = c19RandInt(r, tot).AddRaw(1)
		}
		if r.Intn(15) == 0 {
			amt = tot.AddRaw(1) // more than farmed: must be refused
		}
		ok := e.tx(f, liquiditytypes.NewMsgUnfarm(e.appID, p.id, c.Accts[f].Addr, sdk.NewCoin(p.coinDenom, amt)), "unfarm")
		e.logf("unfarm u%d pool%d %s of %s ok=%v", f, p.id, amt, tot, ok)
	case x < 58: // oracle price moves (or disappears)
		a := e.assets[r.Intn(len(e.assets))]
		var twa uint64
		if r.Intn(8) == 0 {
			twa = 0
		} else {
			twa = e.pickPriceFor(a)
		}
		e.setPrice(a, twa, r.Intn(2) == 0)
		e.rec.Count("price_updates", 1)
		e.logf("price %s twa=%d", a.denom, twa)
	case x < 68: // liquidity added by a third party (changes reserves and pool coin supply at the next batch)
		rx := c.Bal(p.reserve, p.quote)
		ry := c.Bal(p.reserve, p.base)
		if !rx.IsPositive() || !ry.IsPositive() {
			return
		}
		div := int64(r.Intn(20) + 1)
		dx, dy := rx.QuoRaw(div).AddRaw(1), ry.QuoRaw(div).AddRaw(1)
		ok := e.tx(c19Misc, liquiditytypes.NewMsgDeposit(e.appID, c.Accts[c19Misc].Addr, p.id, sdk.NewCoins(sdk.NewCoin(p.quote, dx), sdk.NewCoin(p.base, dy))), "deposit")
		e.logf("deposit pool%d %s%s,%s%s ok=%v", p.id, dx, p.quote, dy, p.base, ok)
	case x < 74: // liquidity withdrawn
		bal := c.Bal(c.Accts[c19Misc].Addr, p.coinDenom)
		if !bal.IsPositive() {
			return
		}
		amt := c19RandInt(r, bal).AddRaw(1)
		ok := e.tx(c19Misc, liquiditytypes.NewMsgWithdraw(e.appID, c.Accts[c19Misc].Addr, p.id, sdk.NewCoin(p.coinDenom, amt)), "withdraw")
		e.logf("withdraw pool%d %s ok=%v", p.id, amt, ok)
	case x < 79: // somebody sends coins straight to the pool's reserve account (skews the reserves)
		d := p.quote
		if r.Intn(2) == 0 {
			d = p.base
		}
		cur := c.Bal(p.reserve, d)
		amt := cur.QuoRaw(int64(r.Intn(50) + 2)).AddRaw(1)
		ok := e.tx(c19Misc, banktypes.NewMsgSend(c.Accts[c19Misc].Addr, p.reserve, sdk.NewCoins(sdk.NewCoin(d, amt))), "donate_to_reserve")
		e.logf("donate pool%d %s%s ok=%v", p.id, amt, d, ok)
	case x < 86: // swap fees accumulate at the pair's fee collector (fed directly)
		amt := sdkmath.NewInt(r.Int63n(5_000_000_000) + 1)
		fd := "ucmdx"
		if gp, err := c.App.LiquidityKeeper.GetGenericParams(c.Ctx(), e.appID); err == nil && gp.SwapFeeDistrDenom != "" {
			fd = gp.SwapFeeDistrDenom
		}
		ok := e.tx(c19Misc, banktypes.NewMsgSend(c.Accts[c19Misc].Addr, p.feeAddr, sdk.NewCoins(sdk.NewCoin(fd, amt))), "feed_swap_fees")
		e.logf("swapfees pair%d %s%s ok=%v", p.pairID, amt, fd, ok)
	case x < 92: // pool coins move between farmers
		g := 1 + r.Intn(e.nF)
		bal := c.Bal(c.Accts[f].Addr, p.coinDenom)
		if g == f || !bal.IsPositive() {
			return
		}
		amt := c19RandInt(r, bal).AddRaw(1)
		ok := e.tx(f, banktypes.NewMsgSend(c.Accts[f].Addr, c.Accts[g].Addr, sdk.NewCoins(sdk.NewCoin(p.coinDenom, amt))), "send_poolcoin")
		e.logf("send u%d->u%d %s%s ok=%v", f, g, amt, p.coinDenom, ok)
	case x < 93 && len(e.ops) > 60: // governance changes the denomination swap fees are distributed in
		gp, err := c.App.LiquidityKeeper.GetGenericParams(c.Ctx(), e.appID)
		if err != nil {
			return
		}
		nd := "ucmdx"
		if gp.SwapFeeDistrDenom == "ucmdx" {
			nd = e.assets[r.Intn(len(e.assets))].denom
		}
		err = c16Env(c, "liq-generic-params", fmt.Sprint(e.appID), "SwapFeeDistrDenom", nd)
		e.logf("params SwapFeeDistrDenom %s -> %s err=%v", gp.SwapFeeDistrDenom, nd, err)
		if err == nil {
			e.rec.Count("swap_fee_denom_switches", 1)
		}
	default:
		if e.nGauges < 7 {
			e.createGauge(len(e.ops) > 150)
		}
	}
}

func (e *c19Env) pickDt() time.Duration {
	r := e.rnd
	switch x := r.Intn(100); {
	case x < 15:
		return time.Duration(r.Intn(600)+1) * time.Second
	case x < 50:
		return time.Duration(r.Intn(6*3600)+600) * time.Second
	case x < 80:
		return time.Duration(r.Intn(14*3600)+11*3600) * time.Second
	case x < 92:
		return time.Duration(r.Intn(36*3600)+36*3600) * time.Second
	default:
		return time.Duration(r.Intn(20*24)+5*24) * time.Hour
	}
}

func c19CoinsGet(cs sdk.Coins, denom string) *big.Int { return cs.AmountOf(denom).BigInt() }

func c19Digits(x *big.Int) int { return len(x.Text(10)) }

func (e *c19Env) checkCustody(ctx sdk.Context, when string) {
	e.rec.Eval(1)
	need, parts := c19Custody(e.c, ctx)
	mod := e.c.App.BankKeeper.GetAllBalances(ctx, e.c.ModAddr(rewardstypes.ModuleName))
	for denom, n := range need {
		have := c19CoinsGet(mod, denom)
		e.rec.Count("custody_denom_checks", 1)
		if have.Cmp(n) < 0 {
			cls := "gauges"
			if strings.Contains(parts[denom], "program") {
				cls = "with-programmes"
			}
			if strings.Contains(parts[denom], "swapfee") {
				cls = "with-swapfee-gauges"
			}
			e.rec.Violate("C19/custody/"+when+"/"+cls, fmt.Sprintf("rewards account holds %s%s but owes %s", have, denom, n), e.witness(map[string]interface{}{"denom": denom, "held": have.String(), "owed": n.String(), "claims": parts[denom]}))
		}
	}
}

// step closes the open block, opens the next one dt later and judges what the
// begin-block hooks did.
func (e *c19Env) step(dt time.Duration) {
	c := e.c
	e.checkCustody(c.Ctx(), "after-txs")
	c.EndAndCommit()
	if e.panicked {
		return
	}
	S := c.App.BaseApp.NewContext(true, c.Header) // committed state the begin-block hooks start from
	pre := c19TakeSnap(c, S)
	c.Header.Time = c.Header.Time.Add(dt)
	e.logf("--- block %d at +%s (%s)", c.Header.Height, dt, c.Header.Time.UTC().Format(time.RFC3339))
	c.Begin()
	if e.panicked {
		return
	}
	post := c19TakeSnap(c, c.Ctx())
	e.rec.Count("blocks_observed", 1)
	e.checkBlock(S, pre, post, dt)
	e.checkCustody(c.Ctx(), "after-begin-block")
}

func (e *c19Env) checkBlock(S sdk.Context, pre, post c19Snap, dt time.Duration) {
	rec := e.rec
	c := e.c
	e.hugeValue = map[string]bool{}
	e.epShares = map[string][]c19EpochShare{}
	alloc := map[string]*big.Int{}
	recorded := map[string]*big.Int{}
	bounds := map[string][]*big.Rat{} // denom -> per account bound
	noShare := map[string]string{}
	masterIn := map[string]bool{}
	epochDescs := map[string][]string{}
	addAlloc := func(denom string, a *big.Int) {
		if alloc[denom] == nil {
			alloc[denom] = new(big.Int)
			recorded[denom] = new(big.Int)
			bounds[denom] = make([]*big.Rat, len(c.Accts))
			for i := range bounds[denom] {
				bounds[denom][i] = new(big.Rat)
			}
		}
		alloc[denom].Add(alloc[denom], a)
	}
	// epoch clocks
	for dur, e0 := range pre.epochs {
		e1 := post.epochs[dur]
		if e1.CurrentEpoch == e0.CurrentEpoch && !e1.CurrentEpochStartTime.Equal(e0.CurrentEpochStartTime) && !e0.StartTime.IsZero() {
			rec.Count("epoch_clock_jumps_over_missed_epochs", 1)
		}
		if e1.CurrentEpoch > e0.CurrentEpoch {
			rec.Count("epoch_clock_ticks", 1)
		}
	}
	for _, id := range pre.ids {
		g0 := pre.gauges[id]
		g1, ok := post.gauges[id]
		rec.Eval(1)
		if !ok {
			continue
		}
		dT := int64(g1.TriggeredCount) - int64(g0.TriggeredCount)
		denom := g0.DepositAmount.Denom
		if g0.ForSwapFee {
			if dT < 1 {
				continue
			}
			rec.Count("swapfee_gauge_epochs", 1)
			a := g0.DepositAmount.Amount.BigInt()
			if a.Sign() <= 0 {
				continue
			}
			addAlloc(denom, a)
			dD := new(big.Int)
			if g1.DistributedAmount.Denom == g0.DistributedAmount.Denom {
				dD.Sub(g1.DistributedAmount.Amount.BigInt(), g0.DistributedAmount.Amount.BigInt())
			} else {
				dD.Set(g1.DistributedAmount.Amount.BigInt())
			}
			recorded[denom].Add(recorded[denom], dD)
			if dD.Cmp(a) > 0 {
				rec.Violate("C19/swapfee-gauge/distributed>allocation", fmt.Sprintf("gauge %d recorded %s distributed in an epoch whose allocation was %s", id, dD, a), e.witness(map[string]interface{}{"gauge": g0.String()}))
			}
			sh := c19ShareOracle(c, S, g0)
			e.addBounds(bounds[denom], sh, a, denom, noShare, masterIn)
			e.epShares[denom] = append(e.epShares[denom], c19EpochShare{id, a, sh})
			if dD.Sign() > 0 {
				rec.Count("swapfee_gauge_epochs_with_payout", 1)
			}
			epochDescs[denom] = append(epochDescs[denom], fmt.Sprintf("swapfee#%d pool=%d alloc=%s recorded=%s eligible=%d/%d value~1e%d %s", id, g0.GetLiquidityMetaData().PoolId, a, dD, sh.nPos, sh.farmers, sh.valueDigits(), sh.why))
			continue
		}
		dD := new(big.Int).Sub(g1.DistributedAmount.Amount.BigInt(), g0.DistributedAmount.Amount.BigInt())
		dep := g0.DepositAmount.Amount.BigInt()
		if g1.DistributedAmount.Amount.BigInt().Cmp(g1.DepositAmount.Amount.BigInt()) > 0 {
			rec.Violate("C19/gauge/cumulative-distributed>deposit", fmt.Sprintf("gauge %d: distributed %s of a deposit of %s", id, g1.DistributedAmount.Amount, g1.DepositAmount.Amount), e.witness(map[string]interface{}{"gauge": g1.String()}))
		}
		if g0.IsActive && !g1.IsActive {
			rec.Count("gauges_deactivated", 1)
		}
		if dD.Sign() < 0 {
			// the gauge record is the public account of what was paid so far; it cannot shrink
			rec.Violate("C19/gauge/recorded-distributed-decreased", fmt.Sprintf("gauge %d: triggered %d->%d distributed %s->%s", id, g0.TriggeredCount, g1.TriggeredCount, g0.DistributedAmount.Amount, g1.DistributedAmount.Amount), e.witness(map[string]interface{}{"gauge": g0.String()}))
		}
		if dT < 0 {
			rec.Count("gauge_trigger_count_decreased", 1)
			continue
		}
		if dT == 0 {
			if dD.Sign() > 0 {
				rec.Violate("C19/gauge/distributed-without-epoch", fmt.Sprintf("gauge %d recorded %s distributed without an epoch", id, dD), e.witness(map[string]interface{}{"gauge": g0.String()}))
			}
			continue
		}
		// one (or more) epochs of this gauge ran in this block
		if !dep.IsUint64() {
			rec.Violate("C19/gauge/epoch-ran-on-oversized-deposit", fmt.Sprintf("gauge %d", id), e.witness(nil))
			continue
		}
		splits := rewardskeeper.SplitTotalAmountPerEpoch(dep.Uint64(), g0.TotalTriggers)
		a := new(big.Int)
		bad := false
		for k := g0.TriggeredCount; k < g1.TriggeredCount; k++ {
			if k >= uint64(len(splits)) {
				bad = true
				break
			}
			a.Add(a, new(big.Int).SetUint64(splits[k]))
		}
		if bad {
			rec.Violate("C19/gauge/epoch-beyond-total-triggers", fmt.Sprintf("gauge %d triggered %d->%d of %d", id, g0.TriggeredCount, g1.TriggeredCount, g0.TotalTriggers), e.witness(map[string]interface{}{"gauge": g0.String()}))
			continue
		}
		addAlloc(denom, a)
		recorded[denom].Add(recorded[denom], dD)
		rec.Count("gauge_epochs", 1)
		if dT > 1 {
			rec.Count("gauge_epochs_multi_trigger_block", 1)
		}
		if dD.Cmp(a) > 0 {
			rec.Violate("C19/gauge/distributed>allocation", fmt.Sprintf("gauge %d epoch %d: recorded %s distributed, allocation %s", id, g0.TriggeredCount+1, dD, a), e.witness(map[string]interface{}{"gauge": g0.String()}))
		}
		sh := c19ShareOracle(c, S, g0)
		e.addBounds(bounds[denom], sh, a, denom, noShare, masterIn)
		e.epShares[denom] = append(e.epShares[denom], c19EpochShare{id, a, sh})
		kind := "plain"
		if sh.master {
			kind = "master"
		}
		if dD.Sign() > 0 {
			rec.Count("gauge_epochs_with_payout", 1)
			rec.Count("gauge_epochs_with_payout_"+kind, 1)
		} else {
			rec.Count("gauge_epochs_without_payout", 1)
			rec.Count("gauge_epochs_without_payout_"+sh.why, 1)
		}
		if g1.TriggeredCount == g1.TotalTriggers {
			rec.Count("gauges_completed", 1)
			left := new(big.Int).Sub(dep, g1.DistributedAmount.Amount.BigInt())
			if left.Sign() == 0 {
				rec.Count("gauges_completed_fully_paid", 1)
			}
		}
		pos := "middle"
		if g0.TriggeredCount == 0 {
			pos = "first"
		}
		if g1.TriggeredCount == g1.TotalTriggers {
			pos = "last"
		}
		rec.Distinct("epoch", kind, sh.nPos, sh.farmers, pos, c19Digits(a), e.priceReg, g0.TotalTriggers != 0 && dep.Uint64()%g0.TotalTriggers == 0, sh.why)
		epochDescs[denom] = append(epochDescs[denom], fmt.Sprintf("gauge#%d(%s) pool=%d epoch %d/%d alloc=%s recorded=%s eligible=%d/%d value~1e%d %s", id, kind, g0.GetLiquidityMetaData().PoolId, g1.TriggeredCount, g1.TotalTriggers, a, dD, sh.nPos, sh.farmers, sh.valueDigits(), sh.why))
		if vd := sh.valueDigits(); vd >= 19 && vd <= 21 && dD.Sign() > 0 {
			rec.Count("gauge_epochs_with_payout_value_1e18_to_1e21", 1)
		}
	}

	// what actually moved
	denoms := map[string]bool{"ucmdx": true}
	for _, d := range c19RewardDenoms {
		denoms[d] = true
	}
	for denom := range denoms {
		a := alloc[denom]
		if a == nil {
			a = new(big.Int)
		}
		epochDesc := epochDescs[denom]
		sumPaid := new(big.Int)
		paid := make([]*big.Int, len(c.Accts))
		for i := range c.Accts {
			paid[i] = new(big.Int).Sub(c19CoinsGet(post.accts[i], denom), c19CoinsGet(pre.accts[i], denom))
			if paid[i].Sign() > 0 {
				sumPaid.Add(sumPaid, paid[i])
			}
		}
		total := new(big.Int).Set(sumPaid)
		if denom != "ucmdx" {
			// dedicated reward denoms: everything leaving the rewards account was paid to somebody
			modDec := new(big.Int).Sub(c19CoinsGet(pre.mod, denom), c19CoinsGet(post.mod, denom))
			if modDec.Cmp(total) > 0 {
				total = modDec
				rec.Count("paid_to_untracked_receiver", 1)
			}
		}
		if total.Sign() == 0 && a.Sign() == 0 {
			continue
		}
		rec.Eval(1)
		if total.Sign() > 0 {
			rec.Count("blocks_with_payout", 1)
		}
		if total.Cmp(a) > 0 {
			cls := "epoch"
			if a.Sign() == 0 {
				cls = "no-epoch"
			}
			rec.Violate("C19/"+cls+"/paid>allocation", fmt.Sprintf("%s%s left to receivers in one block, allocations of the epochs that ran: %s", total, denom, a), e.witness(map[string]interface{}{"denom": denom, "paid": total.String(), "allocation": a.String(), "epochs": epochDesc}))
		}
		if rcd := recorded[denom]; rcd != nil && total.Cmp(rcd) > 0 {
			rec.Violate("C19/epoch/paid>recorded-distributed", fmt.Sprintf("%s%s paid, gauges recorded %s", total, denom, rcd), e.witness(map[string]interface{}{"denom": denom, "epochs": epochDesc}))
		}
		// cumulative, per reward denom (ucmdx swap-fee gauges have no fixed deposit)
		if denom != "ucmdx" {
			if e.cumPaid[denom] == nil {
				e.cumPaid[denom] = new(big.Int)
			}
			e.cumPaid[denom].Add(e.cumPaid[denom], total)
			deps := new(big.Int)
			for _, id := range post.ids {
				g := post.gauges[id]
				if !g.ForSwapFee && g.DepositAmount.Denom == denom {
					deps.Add(deps, g.DepositAmount.Amount.BigInt())
				}
			}
			if e.cumPaid[denom].Cmp(deps) > 0 {
				rec.Violate("C19/cumulative/paid>deposits", fmt.Sprintf("%s%s paid so far, deposits of all gauges in that denom: %s", e.cumPaid[denom], denom, deps), e.witness(map[string]interface{}{"denom": denom, "epochs": epochDesc}))
			}
		}
		// per farmer
		if why, skip := noShare[denom]; skip {
			rec.Count("share_checks_skipped_"+why, 1)
		}
		for i := range c.Accts {
			if paid[i].Sign() <= 0 {
				continue
			}
			rec.Count("farmer_payouts", 1)
			if a.Sign() > 0 && paid[i].Cmp(a) > 0 {
				rec.Violate("C19/farmer/payout>allocation", fmt.Sprintf("u%d got %s%s, allocation %s", i, paid[i], denom, a), e.witness(map[string]interface{}{"denom": denom, "epochs": epochDesc}))
			}
			if _, skip := noShare[denom]; skip || bounds[denom] == nil {
				continue
			}
			rec.Eval(1)
			rec.Count("farmer_share_checks", 1)
			b := bounds[denom][i]
			// how far above the exact pro-rata amount the payout was (thousandths of a unit), for the record
			exact := new(big.Rat)
			for _, es := range e.epShares[denom] {
				if s, ok := es.sh.shares[c.Accts[i].Addr.String()]; ok {
					exact.Add(exact, new(big.Rat).Mul(s, new(big.Rat).SetInt(es.alloc)))
				}
			}
			if exc := new(big.Rat).Sub(new(big.Rat).SetInt(paid[i]), exact); exc.Sign() > 0 {
				exc.Mul(exc, big.NewRat(1000, 1))
				m := new(big.Int).Quo(exc.Num(), exc.Denom())
				if m.IsInt64() {
					if e.hugeValue[denom] {
						rec.Max("max_excess_over_exact_share_milliunits_value_ge_1e18", m.Int64()+1)
					} else {
						rec.Max("max_excess_over_exact_share_milliunits_value_lt_1e18", m.Int64()+1)
					}
				}
				rec.Count("farmer_payouts_above_exact_share", 1)
			}
			if new(big.Rat).SetInt(paid[i]).Cmp(b) > 0 {
				cls := "plain"
				if masterIn[denom] {
					cls = "master"
				}
				if b.Sign() == 0 {
					cls += "/zero-share"
				} else if e.hugeValue[denom] {
					// total eligible value of 10^18 value units or more: its own input class
					cls = "total-value>=1e18"
				}
				rec.Violate("C19/farmer/payout>share/"+cls, fmt.Sprintf("u%d got %s%s, bound share*allocation*(1+1e-12)+1 = %s", i, paid[i], denom, b.FloatString(6)), e.witness(map[string]interface{}{"denom": denom, "farmer": c.Accts[i].Addr.String(), "paid": paid[i].String(), "bound": b.FloatString(18), "allocation": a.String(), "epochs": epochDesc, "shares": e.shareWitness(e.epShares[denom]), "assets": e.assetsString()}))
			}
		}
		if total.Sign() > 0 && len(epochDesc) > 0 && e.rnd.Intn(40) == 0 {
			rec.Sample(map[string]interface{}{"scenario": e.cfg, "height": c.Header.Height, "dt": dt.String(), "denom": denom, "paid": total.String(), "allocation": a.String(), "epochs": epochDesc})
		}
	}
	// locker programme observation
	if e.lockerOn {
		d0, d1 := c19CoinsGet(pre.mod, "lrwd"), c19CoinsGet(post.mod, "lrwd")
		if d1.Cmp(d0) < 0 {
			rec.Count("locker_programme_payout_blocks", 1)
		}
	}
}

type c19EpochShare struct {
	gauge uint64
	alloc *big.Int
	sh    c19Share
}

func (e *c19Env) shareWitness(list []c19EpochShare) []string {
	var out []string
	for _, es := range list {
		line := fmt.Sprintf("gauge#%d alloc=%s", es.gauge, es.alloc)
		if es.sh.total != nil {
			line += " totalEligibleValue=" + es.sh.total.FloatString(18)
		}
		for i, acct := range e.c.Accts {
			if s, ok := es.sh.shares[acct.Addr.String()]; ok {
				line += fmt.Sprintf(" u%d:share=%s,exact=%s", i, s.FloatString(18), new(big.Rat).Mul(s, new(big.Rat).SetInt(es.alloc)).FloatString(6))
			}
		}
		out = append(out, line)
	}
	return out
}

func (e *c19Env) addBounds(b []*big.Rat, sh c19Share, a *big.Int, denom string, noShare map[string]string, masterIn map[string]bool) {
	if sh.valueDigits() >= 19 {
		e.hugeValue[denom] = true
	}
	if sh.skip {
		noShare[denom] = sh.why
		return
	}
	if sh.master {
		masterIn[denom] = true
	}
	if sh.none {
		return
	}
	for i, acct := range e.c.Accts {
		if s, ok := sh.shares[acct.Addr.String()]; ok {
			b[i].Add(b[i], c19Bound(s, a))
		}
	}
}

// c19NewEnv builds the chain of one gauge scenario (deterministic in rnd, sc, nF, priceReg): assets, app, pairs and
// pools created with real transactions, pool coins handed to the farmers, optionally the locker programme.
func c19NewEnv(t *testing.T, rec *ev.Rec, rnd *rand.Rand, sc, nF, priceReg int) *c19Env {
	big30 := c19Pow10(30)
	bal := sdk.NewCoins(sdk.NewCoin("ucmdx", c19Pow10(18)), sdk.NewCoin("lrwd", big30))
	for _, d := range []string{"uaaa", "ubbb", "uccc", "uddd"} {
		bal = bal.Add(sdk.NewCoin(d, big30))
	}
	for _, d := range c19RewardDenoms {
		bal = bal.Add(sdk.NewCoin(d, big30))
	}
	c := sim.New(sim.Options{NAccts: 14, Balances: bal})
	e := &c19Env{t: t, c: c, rec: rec, rnd: rnd, nF: nF, priceReg: priceReg, cumPaid: map[string]*big.Int{}}
	e.cfg = fmt.Sprintf("VERIF_SEED=%d shard=%d/%d scenario=%d farmers=%d priceRegime=%d", ev.Seed(), ev.ShardNo(), ev.NShards(), sc, nF, priceReg)
	c.PanicHook = func(phase string, h int64, r interface{}) {
		e.panicked = true
		// a panic escaping a block hook is another property's business; here it only ends the scenario
		rec.Count("block_hook_panics", 1)
		rec.Note(fmt.Sprintf("%s: %s at height %d panicked: %v", e.cfg, phase, h, r))
	}
	e.setup(sc)
	return e
}

func c19Scenario(t *testing.T, rec *ev.Rec, sc int) {
	rnd := rng("C19-scenario", sc)
	nF := []int{1, 2, 3, 5, 8, 12}[(sc+ev.ShardNo())%6]
	if rnd.Intn(3) == 0 {
		nF = 1 + rnd.Intn(12)
	}
	priceReg := []int{0, 4, 1, 3, 4, 2}[(sc/2+ev.ShardNo())%6]
	e := c19NewEnv(t, rec, rnd, sc, nF, priceReg)
	c := e.c
	defer c.Close()
	rec.Count("scenarios", 1)
	rec.Count(fmt.Sprintf("scenarios_farmers_%d", nF), 1)
	// first gauges early, so that farmers queue against them
	for i := 0; i < 2+rnd.Intn(2); i++ {
		e.createGauge(false)
	}
	blocks := ev.Pick(90, 160)
	for b := 0; b < blocks && !e.panicked; b++ {
		na := rnd.Intn(5)
		if b < 6 {
			na = 4 + rnd.Intn(4) // get farmers going
		}
		for i := 0; i < na; i++ {
			e.action()
		}
		e.step(e.pickDt())
	}
}

func TestC19(t *testing.T) {
	rec := ev.New("C19", "exploration", "split: all (deposit, epochs) with epochs<=64 and deposit in [epochs, epochs+200] plus seeded random pairs up to 2^64-1; "+
		"in situ: seeded scenarios on a real chain instance (1-12 farmers, 1-4 pools, plain / master gauges with explicit or implicit child pools, swap-fee gauges, a locker reward programme; part 3: all four kinds of external reward programme -- locker, vault, lend, stable-mint -- next to gauges with shared reward denominations, custody clause only), "+
		"real txs (create pair/pool/gauge, farm, unfarm, deposit, withdraw, sends), oracle price regimes normal/high/low/mixed, block gaps from seconds to weeks; every block is judged from "+
		"balance deltas and gauge records. distinct = (gauge kind, eligible farmers, farmers, epoch position, allocation magnitude, price regime, remainder class, outcome) of observed epochs and (epochs, deposit) of split cases")
	defer finish(t, rec)
	c19Split(rec)
	n := ev.Pick(14, 250)
	for sc := 0; sc < n; sc++ {
		c19Scenario(t, rec, sc)
	}
	// part 3: external reward programmes of all four kinds next to gauges (custody clause)
	np := ev.Pick(6, 40)
	for sc := 0; sc < np; sc++ {
		c19ProgScenario(t, rec, ev.ShardNo()*np+sc)
	}
	rec.Floor("split_cases", 60000)
	rec.Floor("split_cases_with_remainder", 40000)
	rec.Floor("gauge_epochs_with_payout", 400)
	rec.Floor("gauge_epochs_with_payout_master", 100)
	rec.Floor("gauge_epochs_with_payout_value_1e18_to_1e21", 30)
	rec.Floor("gauges_completed", 100)
	rec.Floor("farmer_payouts", 1500)
	rec.Floor("farmer_share_checks", 1500)
	rec.Floor("epoch_clock_jumps_over_missed_epochs", 300)
	rec.Floor("custody_denom_checks", 10000)
	rec.Floor("swapfee_gauge_epochs_with_payout", 100)
	rec.Floor("locker_programme_payout_blocks", 10)
	for _, k := range []string{"locker", "vault", "lend", "stable"} {
		rec.Floor("prog_payout_epochs_"+k, 20)
		rec.Floor("prog_custody_denom_checks_with_"+k+"_claim", 200)
	}
	rec.Floor("prog_custody_denom_checks_shared_with_gauge", 200)
	rec.Floor("prog_scenarios_without_lend_programme", 4)
	rec.Assume("the value of farmed pool coins is what the chain's own redemption function (amm.Withdraw, fee 0) and the stored oracle price give; shares are computed from it in exact rationals")
	rec.Assume("the allocation of epoch k of a gauge is entry k of SplitTotalAmountPerEpoch(deposit, triggers); part 1 checks that these entries sum to the deposit")
	rec.Assume("reward denoms of the generated gauges are used for nothing else, so every unit leaving the rewards account in such a denom is a payout")
	rec.Assume("asset decimals are powers of ten up to 10^18 (for these the chain's fixed-point value of a position equals the exact rational)")
}
