package props

import (
	"fmt"
	"testing"
	"time"

	sdk "github.com/cosmos/cosmos-sdk/types"

	auctionsV2types "github.com/comdex-official/comdex/x/auctionsV2/types"
	vaulttypes "github.com/comdex-official/comdex/x/vault/types"

	"verif/ev"
)

// twoFills: several vaults are seized by the same sweep, so their Dutch auctions start in the same block and walk the
// same price path; limit bids at the discount bucket they are about to enter are then matched against all of them in
// one begin block. With one collateral denom the auctions share one limit-bid book; with several (same debt asset) the
// block fills auctions of different books at the same whole-percent discount. step runs one block of the given length
// (the caller decides whether it is explored first). Reports whether a block with at least two automatic fills was seen.
func (r *cdpRunner) twoFills(denoms []string, step func(dt time.Duration)) bool {
	u, c, rec := r.u, r.u.c, r.rec
	var prods []*uProduct
	// per collateral denom the product with the highest minimum ratio (a seized vault's collateral must cover debt and
	// penalty at a few percent discount, otherwise the fill needs the app reserve), all with one debt asset
	for _, d := range denoms {
		var best *uProduct
		for _, q := range u.products {
			if q.App == appBeacon && !q.P.IsStableMintVault && q.In.Denom == d && (len(prods) == 0 || q.Out.Denom == prods[0].Out.Denom) && (best == nil || q.P.MinCr.GT(best.P.MinCr)) {
				best = q
			}
		}
		if best != nil {
			prods = append(prods, best)
		}
	}
	if len(prods) != len(denoms) {
		return false
	}
	perProd := 3
	if len(prods) > 1 {
		perProd = 2
	}
	n := 0
	for _, p := range prods {
		minCr := p.P.MinCr.MulInt64(1000).TruncateInt64()
		for i := 0; i < perProd; i++ {
			a := c.Accts[n%4]
			n++
			debt := p.P.DebtFloor.MulRaw(int64(40 * (i + 1)))
			in := r.collateralFor(p, debt, minCr+8)
			r.tx("vault_create", a, &vaulttypes.MsgCreateRequest{From: a.Addr.String(), AppId: p.App, ExtendedPairVaultId: p.ID, AmountIn: in, AmountOut: debt}, fmt.Sprintf("two-fills: prod=%d in=%s out=%s", p.ID, in, debt))
		}
	}
	r.block(6 * time.Second)
	for _, p := range prods {
		p := p
		pin, _ := u.price(p.In)
		r.env("price", "two-fills: "+p.In.Denom+" falls 20 %", func() { u.setPrice(p.In.Denom, pin*80/100, true) })
	}
	for i := 0; i < 3 && !r.panicked; i++ {
		r.block(6 * time.Second)
	}
	live := func(p *uProduct) []auctionsV2types.Auction {
		var out []auctionsV2types.Auction
		for _, x := range r.last.AucV2 {
			if x.AuctionType && x.AppId == p.App && x.CollateralAssetId == p.In.ID && x.DebtAssetId == p.Out.ID {
				out = append(out, x)
			}
		}
		return out
	}
	enough := func() bool {
		tot := 0
		for _, p := range prods {
			l := len(live(p))
			if l == 0 {
				return false
			}
			tot += l
		}
		return tot >= 2
	}
	if !enough() || r.panicked {
		rec.Count("two_fills_scenarios_without_two_auctions", 1)
		return false
	}
	// the posted price of a round may never fall below the oracle price (premium and discount of the app decide): the
	// oracle price is moved to 3.5 % above the posted price instead, so that the auctions are about to enter the 4 %
	// bucket; one block lets the auction records take the new oracle price over
	for _, p := range prods {
		p := p
		x := live(p)[0]
		np := x.CollateralTokenAuctionPrice.MulInt64(1000).QuoInt64(965).TruncateInt().Uint64()
		r.env("price", fmt.Sprintf("two-fills: oracle price of %s to %d (posted %s)", p.In.Denom, np, x.CollateralTokenAuctionPrice), func() { u.setPrice(p.In.Denom, np, true) })
	}
	r.block(6 * time.Second)
	if !enough() || r.panicked {
		rec.Count("two_fills_scenarios_without_two_auctions", 1)
		return false
	}
	bidder := c.Accts[5]
	for _, p := range prods {
		as := live(p)
		x := as[0]
		bucket := int64(1)
		if x.CollateralTokenOraclePrice.GT(x.CollateralTokenAuctionPrice) {
			bucket = x.CollateralTokenOraclePrice.Sub(x.CollateralTokenAuctionPrice).Quo(x.CollateralTokenOraclePrice).MulInt64(100).TruncateInt64() + 1
		}
		total := sdk.ZeroInt()
		for _, y := range as {
			total = total.Add(y.DebtToken.Amount)
		}
		r.topUpDebt(bidder, x.DebtToken.Denom, total.MulRaw(2))
		amount := total.MulRaw(2)
		if have := c.Bal(bidder.Addr, x.DebtToken.Denom); have.LT(amount) {
			amount = have // what other users' mints could supply: still more than the smallest auction's debt
		}
		if !amount.IsPositive() {
			continue
		}
		res := r.tx("limit_deposit", bidder, &auctionsV2types.MsgDepositLimitBidRequest{CollateralTokenId: x.CollateralAssetId, DebtTokenId: x.DebtAssetId, PremiumDiscount: sdk.NewInt(bucket), Bidder: bidder.Addr.String(), Amount: sdk.NewCoin(x.DebtToken.Denom, amount)},
			fmt.Sprintf("two-fills: %s bucket=%d amt=%s for %d auctions", p.In.Denom, bucket, amount, len(as)))
		if !res.OK() {
			rec.Count("two_fills_scenarios_limit_deposit_refused", 1)
			rec.Note(fmt.Sprintf("two-fills: limit deposit refused: %s (bidder holds %s)", trunc(res.Log), c.Bal(bidder.Addr, x.DebtToken.Denom)))
			return false
		}
	}
	rec.Count("two_fills_scenarios_set_up", 1)
	for i := 0; i < 8 && !r.panicked; i++ {
		before := len(r.last.BidsV2)
		step(25 * time.Second)
		r.last = u.snap()
		if dbgTwoFills {
			for _, p := range prods {
				for _, y := range live(p) {
					rec.Note(fmt.Sprintf("two-fills debug i=%d auction %d posted %s oracle %s debt %s limitbids %d", i, y.AuctionId, y.CollateralTokenAuctionPrice, y.CollateralTokenOraclePrice, y.DebtToken, len(r.last.LimitBids)))
				}
			}
			for _, lb := range r.last.LimitBids {
				rec.Note(fmt.Sprintf("two-fills debug i=%d limit bid coll=%d debt=%d prem=%s amt=%s", i, lb.CollateralTokenId, lb.DebtTokenId, lb.PremiumDiscount, lb.DebtToken))
			}
		}
		if d := len(r.last.BidsV2) - before; d >= 2 {
			rec.Count(fmt.Sprintf("blocks_with_two_or_more_automatic_fills/%d-collateral-denoms", len(denoms)), 1)
			return true
		} else if d == 1 {
			rec.Count("blocks_with_one_automatic_fill", 1)
		}
	}
	return false
}

var dbgTwoFills = false

// c15TwoFills: the block with the fills is explored: every automatic fill is its own unit inside the limit-bid sweep, so
// a fault injected into one fill must leave the other fills of the block in place.
func c15TwoFills(t *testing.T, rec *ev.Rec) {
	if ev.ShardNo() >= ev.Pick(2, 6) {
		return
	}
	variant := ev.ShardNo()
	u := newCDP(t, cdpOpts{variant: variant})
	defer u.c.Close()
	r := newCdpRunner(u, rng("C15-two-fills", variant), rec, cdpCfg{maxGap: time.Minute})
	r.panicIsViolation = true
	denoms := []string{"uatom"}
	if variant%2 == 1 {
		denoms = []string{"uatom", "ucmdx"}
	}
	if r.twoFills(denoms, func(dt time.Duration) { exploreAtBoundary(u.c, rec, dt, "cdp-two-fills", ev.Pick(2500, 20000)) }) {
		rec.Count("explored_blocks_with_two_or_more_automatic_fills", 1)
	}
}

// TestC15TwoFillsOnly runs the scenario alone (development aid; the registered check runs TestC15).
func TestC15TwoFillsOnly(t *testing.T) {
	rec := ev.New("C15", "fault_enumeration", "two-fills scenario alone")
	defer finish(t, rec)
	c15TwoFills(t, rec)
}
