package props

import (
	"fmt"
	"testing"
	"time"

	sdk "github.com/cosmos/cosmos-sdk/types"

	auctionsV2types "github.com/comdex-official/comdex/x/auctionsV2/types"
	vaulttypes "github.com/comdex-official/comdex/x/vault/types"

	"verif/ev"
)

// c15TwoFills: several vaults of ONE product are seized by the same sweep, so their Dutch auctions start in the same
// block and walk the same price path; one limit bid at the discount bucket they are about to enter is then matched
// against all of them in one begin block. That block is explored: every automatic fill is its own unit inside the
// limit-bid sweep, so a fault injected into one fill must leave the other fills of the block in place.
func c15TwoFills(t *testing.T, rec *ev.Rec) {
	if ev.ShardNo() >= ev.Pick(2, 6) {
		return
	}
	variant := ev.ShardNo()
	u := newCDP(t, cdpOpts{variant: variant})
	c := u.c
	defer c.Close()
	rnd := rng("C15-two-fills", variant)
	r := newCdpRunner(u, rnd, rec, cdpCfg{maxGap: time.Minute})
	r.panicIsViolation = true
	var p *uProduct
	for _, q := range u.products {
		if q.App == appBeacon && !q.P.IsStableMintVault && q.In.Denom == "uatom" {
			p = q
		}
	}
	if p == nil {
		return
	}
	minCr := p.P.MinCr.MulInt64(1000).TruncateInt64()
	for i := 0; i < 3; i++ {
		a := c.Accts[i]
		debt := p.P.DebtFloor.MulRaw(int64(40 * (i + 1)))
		in := r.collateralFor(p, debt, minCr+8)
		r.tx("vault_create", a, &vaulttypes.MsgCreateRequest{From: a.Addr.String(), AppId: p.App, ExtendedPairVaultId: p.ID, AmountIn: in, AmountOut: debt}, fmt.Sprintf("two-fills: prod=%d in=%s out=%s", p.ID, in, debt))
	}
	r.block(6 * time.Second)
	pin, _ := u.price(p.In)
	r.env("price", "two-fills: collateral falls 20 %", func() { u.setPrice(p.In.Denom, pin*80/100, true) })
	for i := 0; i < 3 && !r.panicked; i++ {
		r.block(6 * time.Second)
	}
	live := func() []auctionsV2types.Auction {
		var out []auctionsV2types.Auction
		for _, x := range r.last.AucV2 {
			if x.AuctionType && x.AppId == p.App && x.CollateralAssetId == p.In.ID && x.DebtAssetId == p.Out.ID {
				out = append(out, x)
			}
		}
		return out
	}
	as := live()
	if len(as) < 2 || r.panicked {
		rec.Count("two_fills_scenarios_without_two_auctions", 1)
		return
	}
	// the posted price of a round may never fall below the oracle price (premium and discount of the app decide): the
	// oracle price is moved to 3.5 % above the posted price instead, so that the auctions are about to enter the 4 %
	// bucket; one block lets the auction records take the new oracle price over
	x := as[0]
	np := x.CollateralTokenAuctionPrice.MulInt64(1000).QuoInt64(965).TruncateInt().Uint64()
	r.env("price", fmt.Sprintf("two-fills: oracle price to %d (posted %s)", np, x.CollateralTokenAuctionPrice), func() { u.setPrice(p.In.Denom, np, true) })
	r.block(6 * time.Second)
	as = live()
	if len(as) < 2 || r.panicked {
		rec.Count("two_fills_scenarios_without_two_auctions", 1)
		return
	}
	x = as[0]
	bucket := int64(1)
	if x.CollateralTokenOraclePrice.GT(x.CollateralTokenAuctionPrice) {
		bucket = x.CollateralTokenOraclePrice.Sub(x.CollateralTokenAuctionPrice).Quo(x.CollateralTokenOraclePrice).MulInt64(100).TruncateInt64() + 1
	}
	total := sdk.ZeroInt()
	for _, y := range as {
		total = total.Add(y.DebtToken.Amount)
	}
	bidder := c.Accts[5]
	r.topUpDebt(bidder, x.DebtToken.Denom, total.MulRaw(2))
	amount := total.MulRaw(2)
	if have := c.Bal(bidder.Addr, x.DebtToken.Denom); have.LT(amount) {
		amount = have // what other users' mints could supply: still more than the smallest auction's debt
	}
	res := r.tx("limit_deposit", bidder, &auctionsV2types.MsgDepositLimitBidRequest{CollateralTokenId: x.CollateralAssetId, DebtTokenId: x.DebtAssetId, PremiumDiscount: sdk.NewInt(bucket), Bidder: bidder.Addr.String(), Amount: sdk.NewCoin(x.DebtToken.Denom, amount)},
		fmt.Sprintf("two-fills: bucket=%d amt=%s for %d auctions", bucket, amount, len(as)))
	if len(r.last.LimitBids) == 0 {
		rec.Count("two_fills_scenarios_limit_deposit_refused", 1)
		rec.Note(fmt.Sprintf("two-fills: limit deposit refused: %s (bidder holds %s)", trunc(res.Log), c.Bal(bidder.Addr, x.DebtToken.Denom)))
		return
	}
	rec.Count("two_fills_scenarios_set_up", 1)
	for i := 0; i < 8 && !r.panicked; i++ {
		before := len(r.last.BidsV2)
		exploreAtBoundary(c, rec, 25*time.Second, "cdp-two-fills", ev.Pick(2500, 20000))
		r.last = u.snap()
		if d := len(r.last.BidsV2) - before; d >= 2 {
			rec.Count("explored_blocks_with_two_or_more_automatic_fills", 1)
			break
		} else if d == 1 {
			rec.Count("explored_blocks_with_one_automatic_fill", 1)
		}
	}
}

// TestC15TwoFillsOnly runs the scenario alone (development aid; the registered check runs TestC15).
func TestC15TwoFillsOnly(t *testing.T) {
	rec := ev.New("C15", "fault_enumeration", "two-fills scenario alone")
	defer finish(t, rec)
	c15TwoFills(t, rec)
}
