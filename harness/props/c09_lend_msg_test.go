package props

import (
	"fmt"
	"math/big"
	"sort"

	sdk "github.com/cosmos/cosmos-sdk/types"

	auctiontypes "github.com/comdex-official/comdex/x/auction/types"
	auctionsV2types "github.com/comdex-official/comdex/x/auctionsV2/types"
	lendtypes "github.com/comdex-official/comdex/x/lend/types"
	liqtypes "github.com/comdex-official/comdex/x/liquidation/types"
	liqV2types "github.com/comdex-official/comdex/x/liquidationsV2/types"
)

// C09, lend universe: liquidate messages (both generations) and the hand-over of a seized borrow.
//
// Laws (statement C09):
//   safety     a borrow at or below its applicable threshold -- at the prices in force at the moment of the message,
//              with the post-accrual debt the handler itself recorded -- is not seized by anyone's liquidate message
//   hand-over  a seizure (by sweep or by message) moves exactly the borrow's recorded collateral from its pool into
//              auction custody, the seizure record and exactly one auction carry that amount, and the lend position
//              the collateral was pledged from is reduced by it

// c09Aux: what the hand-over laws read besides the lend snapshot.
type c09Aux struct {
	aucBal     map[string]sdk.Int                 // generation-2 auction module: underlying denom -> balance
	aucV1Bal   map[string]sdk.Int                 // generation-1 auction module
	poolBal    map[uint64]map[string]sdk.Int      // pool id -> underlying denom -> balance
	auctions   map[uint64]auctionsV2types.Auction // generation-2 auctions by id
	locked     map[uint64]liqV2types.LockedVault  // generation-2 seizure records of borrows, by borrow id
	lockedV1   map[uint64]liqtypes.LockedVault    // generation-1 seizure records of borrows, by borrow id
	lockedAll  map[uint64]liqV2types.LockedVault  // every generation-2 seizure record, by its own id
	auctionsV1 map[uint64]auctiontypes.DutchAuction
}

func (m *c09LendMon) aux() *c09Aux {
	e := m.e
	c := e.c
	ctx := c.Ctx()
	a := &c09Aux{aucBal: map[string]sdk.Int{}, aucV1Bal: map[string]sdk.Int{}, poolBal: map[uint64]map[string]sdk.Int{}, auctions: map[uint64]auctionsV2types.Auction{},
		locked: map[uint64]liqV2types.LockedVault{}, lockedAll: map[uint64]liqV2types.LockedVault{}, lockedV1: map[uint64]liqtypes.LockedVault{}, auctionsV1: map[uint64]auctiontypes.DutchAuction{}}
	for _, id := range e.u.Order {
		d := e.u.Assets[id].Denom
		a.aucBal[d] = c.Bal(c.ModAddr(auctionsV2types.ModuleName), d)
		a.aucV1Bal[d] = c.Bal(c.ModAddr(auctiontypes.ModuleName), d)
	}
	for pid := range e.u.Pools {
		a.poolBal[pid] = map[string]sdk.Int{}
		for _, id := range e.u.Order {
			d := e.u.Assets[id].Denom
			a.poolBal[pid][d] = c.Bal(e.u.PoolAddr(pid), d)
		}
	}
	for _, x := range c.App.NewaucKeeper.GetAuctions(ctx) {
		a.auctions[x.AuctionId] = x
	}
	for _, lv := range c.App.NewliqKeeper.GetLockedVaults(ctx) {
		a.lockedAll[lv.LockedVaultId] = lv
		if lv.InitiatorType == "lend" {
			a.locked[lv.OriginalVaultId] = lv
		}
	}
	for _, lv := range c.App.LiquidationKeeper.GetLockedVaults(ctx) {
		if lv.GetBorrowMetaData() != nil {
			a.lockedV1[lv.OriginalVaultId] = lv
		}
	}
	for _, x := range c.App.AuctionKeeper.GetDutchLendAuctions(ctx, e.u.App) {
		a.auctionsV1[x.AuctionId] = x
	}
	return a
}

// handOver decides the hand-over laws for the generation-2 seizures between two observations.
func (m *c09LendMon) handOver(pre, post *c08Snap, preA, postA *c09Aux, how string, ctxDesc string) {
	e := m.e
	var seized []uint64
	for id, b := range pre.borrows {
		if pb, ok := post.borrows[id]; ok && !b.IsLiquidated && pb.IsLiquidated && post.locked[id] {
			seized = append(seized, id)
		}
	}
	if len(seized) == 0 {
		return
	}
	sort.Slice(seized, func(i, j int) bool { return seized[i] < seized[j] })
	// did anything but seizures touch auction custody in this event? (no bidder acts in this run; kept as a guard)
	quiet := true
	for id, a := range preA.auctions {
		if b, ok := postA.auctions[id]; !ok || !b.CollateralToken.Amount.Equal(a.CollateralToken.Amount) {
			quiet = false
		}
	}
	wantCustody := map[string]*big.Int{}
	wantPool := map[uint64]map[string]*big.Int{}
	fromLend := map[uint64]*big.Int{}
	for _, id := range seized {
		b := pre.borrows[id]
		pr, found := e.pair(b.PairID)
		in := e.u.Assets[pr.AssetIn]
		if !found || in == nil {
			continue
		}
		m.rec.Eval(1)
		m.rec.Count("borrow_handover_checks", 1)
		w := map[string]interface{}{"how": how, "event": ctxDesc, "borrow": id, "pair": b.PairID, "recorded_collateral": b.AmountIn.String(), "debt": b.AmountOut.String(), "prices": e.priceString(), "history_tail": e.tail(4)}
		lv := postA.locked[id]
		w["seizure_record"] = fmt.Sprintf("id=%d collateral=%s debt=%s target=%s", lv.LockedVaultId, lv.CollateralToken, lv.DebtToken, lv.TargetDebt)
		if lv.CollateralToken.Denom != in.Denom || !lv.CollateralToken.Amount.Equal(b.AmountIn.Amount) {
			m.rec.Violate("C09/hand-over/borrow/seizure-record-differs-from-recorded-collateral/"+how, fmt.Sprintf("borrow %d pledged %s but its seizure record holds %s", id, b.AmountIn, lv.CollateralToken), w)
		}
		n := 0
		var au auctionsV2types.Auction
		for _, a := range postA.auctions {
			if a.LockedVaultId == lv.LockedVaultId && a.AppId == lv.AppId {
				n++
				au = a
			}
		}
		if n != 1 {
			m.rec.Violate("C09/hand-over/borrow/auctions-for-seizure-not-one/"+how, fmt.Sprintf("%d auctions opened for the seized borrow %d", n, id), w)
		} else {
			if _, old := preA.auctions[au.AuctionId]; old {
				m.rec.Violate("C09/hand-over/borrow/auction-for-seizure-not-new/"+how, fmt.Sprintf("the auction %d of the seized borrow %d existed before the seizure", au.AuctionId, id), w)
			}
			if au.CollateralToken.Denom != in.Denom || !au.CollateralToken.Amount.Equal(b.AmountIn.Amount) {
				w["auction"] = fmt.Sprintf("id=%d collateral=%s debt=%s", au.AuctionId, au.CollateralToken, au.DebtToken)
				m.rec.Violate("C09/hand-over/borrow/auction-collateral-differs-from-recorded-collateral/"+how, fmt.Sprintf("borrow %d pledged %s but its auction sells %s", id, b.AmountIn, au.CollateralToken), w)
			}
		}
		if wantCustody[in.Denom] == nil {
			wantCustody[in.Denom] = new(big.Int)
		}
		wantCustody[in.Denom].Add(wantCustody[in.Denom], b.AmountIn.Amount.BigInt())
		if l, ok := pre.lends[b.LendingID]; ok {
			if wantPool[l.PoolID] == nil {
				wantPool[l.PoolID] = map[string]*big.Int{}
			}
			if wantPool[l.PoolID][in.Denom] == nil {
				wantPool[l.PoolID][in.Denom] = new(big.Int)
			}
			wantPool[l.PoolID][in.Denom].Add(wantPool[l.PoolID][in.Denom], b.AmountIn.Amount.BigInt())
			if fromLend[l.ID] == nil {
				fromLend[l.ID] = new(big.Int)
			}
			fromLend[l.ID].Add(fromLend[l.ID], b.AmountIn.Amount.BigInt())
		}
	}
	// vaults of the CDP product that shares the chain are seized by the same begin blocker into the same custody
	for id, lv := range postA.lockedAll {
		if _, old := preA.lockedAll[id]; !old && lv.InitiatorType != "lend" {
			d := lv.CollateralToken.Denom
			if wantCustody[d] == nil {
				wantCustody[d] = new(big.Int)
			}
			wantCustody[d].Add(wantCustody[d], lv.CollateralToken.Amount.BigInt())
		}
	}
	base := map[string]interface{}{"how": how, "event": ctxDesc, "seized_borrows": fmt.Sprint(seized), "prices": e.priceString(), "history_tail": e.tail(4)}
	// the lend positions the collateral was pledged from
	var lids []uint64
	for id := range fromLend {
		lids = append(lids, id)
	}
	sort.Slice(lids, func(i, j int) bool { return lids[i] < lids[j] })
	for _, lid := range lids {
		l := pre.lends[lid]
		want := new(big.Int).Sub(l.AmountIn.Amount.BigInt(), fromLend[lid])
		if want.Sign() < 0 {
			want.SetInt64(0) // collateral pledged out of credited rewards can exceed the deposited amount
		}
		m.rec.Eval(1)
		pl, still := post.lends[lid]
		switch {
		case !still && (want.Sign() != 0 || l.AvailableToBorrow.IsPositive()):
			w := map[string]interface{}{"lend_pre": fmt.Sprintf("%+v", l), "seized_from_it": fromLend[lid].String()}
			for k, v := range base {
				w[k] = v
			}
			m.rec.Violate("C09/hand-over/borrow/lend-position-removed-with-balance-left/"+how, fmt.Sprintf("lend %d disappeared at the seizure although %s deposited / %s available remained", lid, want, l.AvailableToBorrow), w)
		case still && pl.AmountIn.Amount.BigInt().Cmp(want) != 0:
			w := map[string]interface{}{"lend_pre": fmt.Sprintf("%+v", l), "lend_post": fmt.Sprintf("%+v", pl), "seized_from_it": fromLend[lid].String()}
			for k, v := range base {
				w[k] = v
			}
			m.rec.Violate("C09/hand-over/borrow/lend-position-not-reduced-by-seized-collateral/"+how, fmt.Sprintf("lend %d: deposited amount %s -> %s, seized collateral %s", lid, l.AmountIn.Amount, pl.AmountIn.Amount, fromLend[lid]), w)
		}
	}
	if !quiet {
		m.rec.Count("borrow_handover_coin_checks_skipped_not_quiet", 1)
		return
	}
	for _, id := range e.u.Order {
		d := e.u.Assets[id].Denom
		want := wantCustody[d]
		if want == nil {
			want = new(big.Int)
		}
		got := new(big.Int).Sub(postA.aucBal[d].BigInt(), preA.aucBal[d].BigInt())
		m.rec.Eval(1)
		m.rec.Count("borrow_handover_coin_checks", 1)
		if got.Cmp(want) != 0 {
			w := map[string]interface{}{"denom": d, "custody_delta": got.String(), "recorded_collateral_of_seizures": want.String()}
			for k, v := range base {
				w[k] = v
			}
			m.rec.Violate("C09/hand-over/borrow/custody-delta-differs-from-recorded-collateral/"+how, fmt.Sprintf("auction custody of %s changed by %s, the seized borrows recorded %s", d, got, want), w)
		}
		for pid := range e.u.Pools {
			wp := new(big.Int)
			if wantPool[pid] != nil && wantPool[pid][d] != nil {
				wp = wantPool[pid][d]
			}
			gp := new(big.Int).Sub(preA.poolBal[pid][d].BigInt(), postA.poolBal[pid][d].BigInt())
			if gp.Cmp(wp) != 0 {
				w := map[string]interface{}{"denom": d, "pool": pid, "pool_released": gp.String(), "recorded_collateral_of_seizures": wp.String()}
				for k, v := range base {
					w[k] = v
				}
				m.rec.Violate("C09/hand-over/borrow/pool-released-other-than-recorded-collateral/"+how, fmt.Sprintf("pool %d released %s%s, the borrows seized from it recorded %s", pid, gp, d, wp), w)
			}
		}
	}
}

// pickBorrow returns an open, not liquidated borrow (e-mode ones preferred when wantEMode).
func (m *c09LendMon) pickBorrow(s *c08Snap, wantEMode bool) (lendtypes.BorrowAsset, bool) {
	var ids, em []uint64
	for id, b := range s.borrows {
		if b.IsLiquidated {
			continue
		}
		ids = append(ids, id)
		if p, ok := m.e.pair(b.PairID); ok && p.IsEModeEnabled {
			em = append(em, id)
		}
	}
	if wantEMode && len(em) > 0 {
		ids = em
	}
	if len(ids) == 0 {
		return lendtypes.BorrowAsset{}, false
	}
	sort.Slice(ids, func(i, j int) bool { return ids[i] < ids[j] })
	return s.borrows[ids[m.e.rnd.Intn(len(ids))]], true
}

// moveToRatio moves the collateral price of b (inside the open block) so that debt/collateral is about
// thr*permille/1000. Returns the old price (0 when nothing was moved).
func (m *c09LendMon) moveToRatio(b lendtypes.BorrowAsset, permille int64) (uint64, uint64) {
	e := m.e
	X, Y, thr, _, ok := m.borrowRatio(b)
	pr, found := e.pair(b.PairID)
	if !ok || !found || pr.AssetIn == pr.AssetOut || X.Sign() <= 0 || Y.Sign() <= 0 {
		return 0, 0
	}
	pin, _ := e.u.Price(pr.AssetIn)
	target := new(big.Rat).Mul(thr, big.NewRat(permille, 1000))
	f := new(big.Rat).Quo(new(big.Rat).Quo(Y, X), target) // new price / old price
	np := new(big.Rat).Mul(new(big.Rat).SetUint64(pin), f)
	n := new(big.Int).Quo(np.Num(), np.Denom())
	if !n.IsUint64() || n.Uint64() == 0 || n.Uint64() > 1<<50 {
		return 0, 0
	}
	e.u.SetPrice(pr.AssetIn, n.Uint64(), true)
	e.log(fmt.Sprintf("price %s %d -> %d inside the block (borrow %d to %d permille of its threshold)", e.u.Assets[pr.AssetIn].Denom, pin, n.Uint64(), b.ID, permille))
	return pr.AssetIn, pin
}

// exactThresholdProbe: "at or below the threshold ... is never seized" includes EXACTLY at the threshold. A fresh
// same-pool borrow with round amounts is opened (no time passes, so no interest), the two prices are then set so that
// debt value / collateral value equals the liquidation threshold as an exact rational, and somebody sends the liquidate
// message of the given generation: nothing may be seized. One price unit further the borrow is unsafe.
func (m *c09LendMon) exactThresholdProbe(gen int) {
	e := m.e
	c := e.c
	before := c.App.LendKeeper.GetUserBorrowIDCounter(c.Ctx())
	e.force = "same-pool-round"
	e.txStep()
	id := c.App.LendKeeper.GetUserBorrowIDCounter(c.Ctx())
	if id <= before {
		return
	}
	b, found := c.App.LendKeeper.GetBorrow(c.Ctx(), id)
	pr, ok := e.pair(b.PairID)
	if !found || !ok || pr.IsInterPool || pr.IsEModeEnabled || pr.AssetIn == pr.AssetOut || !b.InterestAccumulated.IsZero() {
		return
	}
	in, out := e.u.Assets[pr.AssetIn], e.u.Assets[pr.AssetOut]
	par, found := c.App.LendKeeper.GetAssetRatesParams(c.Ctx(), pr.AssetIn)
	if in == nil || out == nil || !found {
		return
	}
	thr := c08DecRat(par.LiquidationThreshold)
	// Y/X = out*pout*decIn / (in*pin*decOut) == thr  <=>  pout/pin = thr*in*decOut / (out*decIn)
	q := new(big.Rat).Mul(thr, new(big.Rat).SetFrac(new(big.Int).Mul(b.AmountIn.Amount.BigInt(), out.Decimals), new(big.Int).Mul(b.AmountOut.Amount.BigInt(), in.Decimals)))
	num, den := new(big.Int).Set(q.Num()), new(big.Int).Set(q.Denom())
	lim := big.NewInt(1 << 40)
	if num.Sign() <= 0 || num.Cmp(lim) > 0 || den.Cmp(lim) > 0 {
		m.rec.Count("exact_threshold_probe_not_representable", 1)
		return
	}
	for num.Cmp(big.NewInt(100_000)) < 0 && den.Cmp(big.NewInt(100_000)) < 0 { // prices in a sane range
		num.Mul(num, big.NewInt(10))
		den.Mul(den, big.NewInt(10))
	}
	oldIn, _ := e.u.Price(in.ID)
	oldOut, _ := e.u.Price(out.ID)
	e.u.SetPrice(in.ID, den.Uint64(), true)
	e.u.SetPrice(out.ID, num.Uint64(), true)
	defer func() {
		e.u.SetPrice(in.ID, oldIn, true)
		e.u.SetPrice(out.ID, oldOut, true)
	}()
	X := exactValue(b.AmountIn.Amount.BigInt(), den.Uint64(), in.Decimals)
	Y := exactValue(b.AmountOut.Amount.BigInt(), num.Uint64(), out.Decimals)
	if new(big.Rat).Quo(Y, X).Cmp(thr) != 0 {
		return
	}
	tag := fmt.Sprintf("gen%d", gen)
	who := c.Accts[e.rnd.Intn(len(c.Accts))]
	var msg sdk.Msg = &liqV2types.MsgLiquidateInternalKeeperRequest{From: who.Addr.String(), LiqType: 1, Id: id}
	if gen == 1 {
		msg = &liqtypes.MsgLiquidateBorrowRequest{From: who.Addr.String(), BorrowId: id}
	}
	res, _ := e.deliver(who, msg)
	post := e.snap()
	e.log(fmt.Sprintf("%s sends the %s liquidate message for borrow %d exactly at its threshold (in=%s at %d, out=%s at %d, threshold %s) -> ok=%v", who.Name, tag, id, b.AmountIn, den.Uint64(), b.AmountOut, num.Uint64(), par.LiquidationThreshold, res.OK()))
	m.rec.Eval(1)
	m.rec.Count("liquidate_msg_"+tag+"_exactly_at_threshold", 1)
	if pb, still := post.borrows[id]; still && pb.IsLiquidated {
		m.rec.Violate("C09/safety/seized-at-exactly-the-threshold/borrow/same-pool/message-"+tag, "a borrow whose debt-to-collateral ratio equals its liquidation threshold exactly was seized by a liquidate message",
			map[string]interface{}{"generation": gen, "borrow": id, "collateral": b.AmountIn.String(), "debt": b.AmountOut.String(), "price_in": den.String(), "price_out": num.String(), "threshold": par.LiquidationThreshold.String(), "history_tail": e.tail(4)})
		return
	}
	// positive control: one price unit above, the same message seizes it
	e.u.SetPrice(out.ID, num.Uint64()+1+num.Uint64()/1000, true)
	res2, _ := e.deliver(who, msg)
	if pb, still := e.snap().borrows[id]; res2.OK() && still && pb.IsLiquidated {
		m.rec.Count("liquidate_msg_"+tag+"_just_above_threshold_seized", 1)
	}
}

// liquidateMsg: a random account sends a liquidate message for a borrow.
//
//	gen 2: liquidationsV2 MsgLiquidateInternalKeeperRequest{LiqType: 1}
//	gen 1: liquidation MsgLiquidateBorrowRequest
func (m *c09LendMon) liquidateMsg(gen int) {
	e := m.e
	c := e.c
	e.step++
	s0 := e.snap()
	b, ok := m.pickBorrow(s0, gen == 1 && e.rnd.Intn(2) == 0)
	tag := fmt.Sprintf("gen%d", gen)
	who := c.Accts[e.rnd.Intn(len(c.Accts))]
	mk := func(id uint64) sdk.Msg {
		if gen == 1 {
			return &liqtypes.MsgLiquidateBorrowRequest{From: who.Addr.String(), BorrowId: id}
		}
		return &liqV2types.MsgLiquidateInternalKeeperRequest{From: who.Addr.String(), LiqType: 1, Id: id}
	}
	if !ok && e.rnd.Intn(4) != 0 {
		e.txStep()
		return
	}
	if !ok || e.rnd.Intn(12) == 0 {
		// an id that names no borrow: nothing may be seized
		id := c.App.LendKeeper.GetUserBorrowIDCounter(c.Ctx()) + uint64(1+e.rnd.Intn(5))
		preA := m.aux()
		res, _ := e.deliver(who, mk(id))
		post := e.snap()
		m.rec.Eval(1)
		m.rec.Count("liquidate_msg_"+tag+"_unknown_id", 1)
		if d := c08SnapDiff(s0, post); d != "" || len(m.aux().locked) != len(preA.locked) {
			m.rec.Violate("C09/safety/liquidate-message-unknown-borrow-changed-positions/"+tag, "a liquidate message naming no borrow changed positions: "+d, map[string]interface{}{"id": id, "ok": res.OK(), "log": c08ShortLog(res.Log)})
		}
		return
	}
	// where is the position relative to its threshold? leave it, or move the collateral price inside the block (the
	// sweep has not seen that price): just below, at, just above, clearly above
	mode := "as-is"
	var movedAsset, oldPrice uint64
	switch x := e.rnd.Intn(100); {
	case x < 20:
	case x < 40:
		mode = "moved-to-990"
		movedAsset, oldPrice = m.moveToRatio(b, 990)
	case x < 55:
		mode = "moved-to-1000"
		movedAsset, oldPrice = m.moveToRatio(b, 1000)
	case x < 75:
		mode = "moved-to-1010"
		movedAsset, oldPrice = m.moveToRatio(b, 1010)
	default:
		mode = "moved-to-1200"
		movedAsset, oldPrice = m.moveToRatio(b, int64(1100+e.rnd.Intn(300)))
	}
	pre := e.snap()
	preA := m.aux()
	X, Y, thr, class, classified := m.borrowRatio(b)
	res, _ := e.deliver(who, mk(b.ID))
	post := e.snap()
	postA := m.aux()
	desc := fmt.Sprintf("%s sends the %s liquidate message for borrow %d (pair=%d in=%s out=%s int=%s) [%s]", who.Name, tag, b.ID, b.PairID, b.AmountIn, b.AmountOut, b.InterestAccumulated, mode)
	outcome := "ok"
	if !res.OK() {
		outcome = "rejected: " + c08ShortLog(res.Log)
	}
	e.log(desc + " -> " + outcome)
	m.rec.Eval(1)
	m.rec.Count("liquidate_msg_"+tag+"_sent", 1)
	pb, still := post.borrows[b.ID]
	seized := still && pb.IsLiquidated && (gen == 2 && post.locked[b.ID] || gen == 1 && post.lockedV1[b.ID])
	w := map[string]interface{}{"generation": gen, "sender": who.Name, "borrow": b.ID, "pair": b.PairID, "collateral": b.AmountIn.String(), "debt": b.AmountOut.String(), "interest_before": b.InterestAccumulated.String(), "bridged": b.BridgedAssetAmount.String(),
		"price_move": mode, "prices": e.priceString(), "tx_ok": res.OK(), "tx_log": c08ShortLog(res.Log), "history_tail": e.tail(5)}
	if still && pb.IsLiquidated && !seized {
		m.rec.Violate("C09/hand-over/borrow-flagged-without-seizure-record/message-"+tag, "a liquidate message flagged a borrow as liquidated but no seizure record exists for it", w)
	}
	if classified {
		switch {
		case debtRatioAtOrBelow(X, Y, thr):
			m.rec.Count("liquidate_msg_"+tag+"_on_safe_borrow", 1)
		case debtRatioAbove(X, Y, thr):
			m.rec.Count("liquidate_msg_"+tag+"_on_unsafe_borrow", 1)
			if !seized {
				m.rec.Count("liquidate_msg_"+tag+"_on_unsafe_borrow_not_seized", 1) // not a law: liveness is the sweep's
			}
		default:
			m.rec.Count("liquidate_msg_"+tag+"_on_borrow_within_slack", 1)
		}
	}
	if seized {
		m.rec.Count("borrow_seizures_by_message_"+tag, 1)
		if classified {
			X2, Y2, thr2, class2, ok2 := m.borrowRatioAt(pb, b)
			w["class"], w["interest_recorded_at_seizure"] = class2, pb.InterestAccumulated.String()
			if ok2 && debtRatioAtOrBelow(X2, Y2, thr2) {
				w["debt_value"], w["collateral_value"], w["threshold"] = Y2.FloatString(6), X2.FloatString(6), thr2.FloatString(6)
				m.rec.Violate("C09/safety/seized-while-safe/borrow/"+class2+"/message-"+tag, "a borrow at or below the liquidation threshold applicable to it was seized by a liquidate message", w)
			}
			m.rec.Distinct("C09-borrow-seize-msg", gen, class, b.PairID, mode)
			m.rec.Count("borrow_seizures_by_message_"+tag+"_"+class, 1)
		}
		if gen == 2 {
			m.handOver(pre, post, preA, postA, "message", desc)
		} else {
			m.handOverGen1(pre, post, preA, postA, b, desc)
		}
	} else if !res.OK() {
		m.rec.Eval(1)
		if d := c08SnapDiff(pre, post); d != "" {
			m.rec.Violate("C09/safety/rejected-liquidate-message-changed-positions/"+tag, d, w)
		}
	}
	if oldPrice != 0 && e.rnd.Intn(3) != 0 {
		e.u.SetPrice(movedAsset, oldPrice, true)
		e.log(fmt.Sprintf("price %s back to %d", e.u.Assets[movedAsset].Denom, oldPrice))
	}
}

// handOverGen1: a generation-1 seizure sells only part of the collateral. It must open exactly one generation-1
// lend auction for its seizure record, and what arrives in generation-1 auction custody is what that auction sells
// plus at most the advertised bonus on it (the bidder of a slice receives slice x (1 + bonus)).
func (m *c09LendMon) handOverGen1(pre, post *c08Snap, preA, postA *c09Aux, b lendtypes.BorrowAsset, desc string) {
	e := m.e
	lv := postA.lockedV1[b.ID]
	pr, found := e.pair(b.PairID)
	in := e.u.Assets[pr.AssetIn]
	if !found || in == nil {
		return
	}
	m.rec.Eval(1)
	m.rec.Count("borrow_handover_checks_gen1", 1)
	w := map[string]interface{}{"event": desc, "borrow": b.ID, "recorded_collateral": b.AmountIn.String(), "prices": e.priceString(), "history_tail": e.tail(4)}
	n := 0
	var au auctiontypes.DutchAuction
	for id, a := range postA.auctionsV1 {
		if a.LockedVaultId == lv.LockedVaultId {
			if _, old := preA.auctionsV1[id]; !old {
				n++
				au = a
			}
		}
	}
	if n != 1 {
		m.rec.Violate("C09/hand-over/borrow-gen1/auctions-for-seizure-not-one", fmt.Sprintf("%d generation-1 lend auctions opened for the seized borrow %d", n, b.ID), w)
		return
	}
	par, _ := e.c.App.LendKeeper.GetAssetRatesParams(e.c.Ctx(), pr.AssetIn)
	got := new(big.Int).Sub(postA.aucV1Bal[in.Denom].BigInt(), preA.aucV1Bal[in.Denom].BigInt())
	sells := au.OutflowTokenInitAmount.Amount.BigInt()
	hi := new(big.Rat).Mul(new(big.Rat).SetInt(sells), new(big.Rat).Add(big.NewRat(1, 1), c08DecRat(par.LiquidationBonus)))
	hi.Add(hi, big.NewRat(2, 1))
	w["custody_delta"], w["auction_sells"], w["bonus"] = got.String(), sells.String(), par.LiquidationBonus.String()
	if got.Cmp(b.AmountIn.Amount.BigInt()) > 0 {
		m.rec.Violate("C09/hand-over/borrow-gen1/custody-delta-exceeds-recorded-collateral", fmt.Sprintf("the generation-1 seizure of borrow %d moved %s%s out of the pool into auction custody, the borrow had pledged %s", b.ID, got, in.Denom, b.AmountIn), w)
		return
	}
	if au.OutflowTokenInitAmount.Denom != in.Denom || got.Cmp(sells) < 0 || new(big.Rat).SetInt(got).Cmp(hi) > 0 {
		m.rec.Violate("C09/hand-over/borrow-gen1/custody-delta-differs-from-auctioned-collateral", fmt.Sprintf("generation-1 auction custody of %s changed by %s, the auction sells %s (bonus %s)", in.Denom, got, au.OutflowTokenInitAmount, par.LiquidationBonus), w)
	}
}

// bidGen1: somebody bids on a generation-1 lend auction, so that partially liquidated borrows are re-opened.
func (m *c09LendMon) bidGen1() bool {
	e := m.e
	as := e.gen1LendAuctions()
	if len(as) == 0 {
		return false
	}
	a := as[e.rnd.Intn(len(as))]
	bidder := e.c.Accts[e.rnd.Intn(len(e.c.Accts))]
	amt := a.OutflowTokenCurrentAmount.Amount
	if e.rnd.Intn(3) == 0 {
		amt = amt.QuoRaw(2).AddRaw(1)
	}
	res, _ := e.deliver(bidder, auctiontypes.NewMsgPlaceDutchLendBid(bidder.Addr.String(), a.AuctionId, sdk.NewCoin(a.OutflowTokenCurrentAmount.Denom, amt), a.AppId, a.AuctionMappingId))
	m.rec.Count("gen1_lend_bids_sent", 1)
	if res.OK() {
		m.rec.Count("gen1_lend_bids_ok", 1)
	}
	e.log(fmt.Sprintf("%s bids for %s on generation-1 lend auction %d -> ok=%v", bidder.Name, amt, a.AuctionId, res.OK()))
	return true
}
