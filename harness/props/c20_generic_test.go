package props

import (
	"fmt"
	"strings"
	"testing"
	"time"

	sdk "github.com/cosmos/cosmos-sdk/types"

	liqV2types "github.com/comdex-official/comdex/x/liquidationsV2/types"
	liqtypes "github.com/comdex-official/comdex/x/liquidity/types"

	"verif/ev"
	"verif/sim"
)

// c20Generic: export / import round trip for any universe. The oracle is
// generic: all non-history comdex queries before and after the continuation,
// named id counters, tx result digests of the continuation.
type c20World struct {
	name     string
	c        *sim.Chain
	run      func(n int) // n workload steps on c (the tape records them)
	resume   func()      // called after the original chain began its next block
	counters func(c *sim.Chain, ctx sdk.Context) map[string]uint64
	liveIDs  func(c *sim.Chain, ctx sdk.Context) map[string]uint64 // highest live record id per counter name
}

func c20Generic(t *testing.T, rec *ev.Rec, w c20World, queries []c20Query, contSteps int) {
	c := w.c
	var addrs []string
	for _, a := range c.Accts {
		addrs = append(addrs, a.Addr.String())
	}
	addrs = append(addrs, "")
	rec.Count("rounds:"+w.name, 1)
	// the harness's own feeder flag: same first block on both chains (see c20RoundTrip)
	flagOn := c.App.BandoracleKeeper.GetOracleValidationResult(c.Ctx())
	twas := c.App.MarketKeeper.GetAllTwa(c.Ctx())
	if flagOn {
		c.App.BandoracleKeeper.SetOracleValidationResult(c.Ctx(), false)
	}
	c.EndAndCommit()
	exp, err := c.App.ExportAppStateAndValidators(false, nil, nil)
	if err != nil {
		rec.Violate("C20/export/failed/"+w.name, "ExportAppStateAndValidators returned an error on a reachable state: "+err.Error(), nil)
		return
	}
	rec.Count("exports", 1)
	var imp *sim.Chain
	func() {
		defer func() {
			if p := recover(); p != nil {
				rec.Violate("C20/import/init-chain-panicked/"+w.name+"/"+panicClass(p), fmt.Sprintf("InitChain with the exported genesis panicked: %v", p), nil)
			}
		}()
		imp = sim.FromGenesis(c.ChainID, exp.AppState, exp.Height-1, c.Header.Time, c.Accts)
	}()
	if imp == nil {
		return
	}
	defer imp.Close()
	rec.Count("imports", 1)
	nBefore := rec.NViolations()
	healCursors := false
	c20Where = w.name + ", right after the import"
	c20CompareQueries(rec, c, imp, queries, addrs)
	c20Where = ""
	if w.counters != nil {
		a := w.counters(c, c.App.BaseApp.NewContext(true, c.Header))
		b := w.counters(imp, imp.App.BaseApp.NewContext(true, imp.Header))
		for name, x := range a {
			rec.Eval(1)
			rec.Count("counters_compared", 1)
			if b[name] != x {
				rec.Violate("C20/counter/"+name, fmt.Sprintf("id counter is %d on the original chain and %d after the round trip", x, b[name]), map[string]interface{}{"universe": w.name})
			}
		}
		// a restored counter below the id of a record that is still live makes the next new record overwrite it: a
		// sharper law than counter equality, with its own label
		if w.liveIDs != nil {
			for name, hi := range w.liveIDs(imp, imp.App.BaseApp.NewContext(true, imp.Header)) {
				rec.Eval(1)
				rec.Count("counters_compared_with_highest_live_id", 1)
				if hi > 0 && hi < a[name] {
					rec.Count("exports_with_closed_newest_record:"+name, 1)
				}
				if b[name] < hi {
					rec.Violate("C20/counter/"+name+"/below-a-live-id", fmt.Sprintf("restored id counter is %d but a record with id %d is live in the imported state: the next new record overwrites it (original counter %d)", b[name], hi, a[name]), map[string]interface{}{"universe": w.name})
				}
			}
		}
	}
	if rec.NViolations() != nBefore {
		rec.Count("continuations_skipped_after_import_difference", 1)
		return
	}
	// the cursors of the two liquidation sweeps are not part of genesis (reported under their own label): they are copied
	// to the imported chain so that the continuation still decides everything else (with a cursor at the head of the
	// list the re-imported chain would look at other positions first and hand out other locked-vault ids)
	{
		oc, ic := c.App.BaseApp.NewContext(true, c.Header), imp.App.BaseApp.NewContext(true, imp.Header)
		differs := false
		for _, id := range []uint64{0, 1} {
			a, fa := c.App.NewliqKeeper.GetLiquidationOffsetHolder(oc, liqV2types.VaultLiquidationsOffsetPrefix, id)
			b, fb := imp.App.NewliqKeeper.GetLiquidationOffsetHolder(ic, liqV2types.VaultLiquidationsOffsetPrefix, id)
			rec.Eval(1)
			rec.Count("sweep_cursors_compared", 1)
			if fa != fb || a.CurrentOffset != b.CurrentOffset {
				differs = true
				rec.Violate("C20/state/liquidationsV2/sweep-cursor-not-carried", fmt.Sprintf("sweep cursor %d is %d (present %v) on the original chain and %d (present %v) after the round trip", id, a.CurrentOffset, fa, b.CurrentOffset, fb), map[string]interface{}{"universe": w.name})
			}
		}
		healCursors = differs
	}
	rec.Count("clean_imports:"+w.name, 1)
	dt := 6 * time.Second
	c.Header.Time = c.Header.Time.Add(dt)
	imp.Header.Time = c.Header.Time
	if healCursors {
		// before the first block of the continuation begins (the sweeps run in its begin blocker): written straight into
		// the module's store of the imported chain, no block is open yet
		if key := storeKeys(imp)[liqV2types.StoreKey]; key != nil {
			st := imp.App.CommitMultiStore().GetKVStore(key)
			oc := c.App.BaseApp.NewContext(true, c.Header)
			for _, id := range []uint64{0, 1} {
				if h, found := c.App.NewliqKeeper.GetLiquidationOffsetHolder(oc, liqV2types.VaultLiquidationsOffsetPrefix, id); found {
					st.Set(liqV2types.GetLiquidationOffsetHolderKey(h.AppId, liqV2types.VaultLiquidationsOffsetPrefix), liqV2types.MustMarshalLiquidationOffsetHolder(imp.App.AppCodec(), h))
				}
			}
			rec.Count("continuations_after_copying_the_sweep_cursors", 1)
		}
	}
	c.Begin()
	imp.Begin()
	for _, x := range []*sim.Chain{c, imp} {
		if flagOn {
			x.App.BandoracleKeeper.SetOracleValidationResult(x.Ctx(), true)
		}
		for _, tw := range twas {
			x.App.MarketKeeper.SetTwa(x.Ctx(), tw)
		}
	}
	if w.resume != nil {
		w.resume()
	}
	c.Tape = &sim.Tape{}
	w.run(contSteps)
	tape := c.Tape
	c.Tape = nil
	for i, rc := range tape.Recs {
		res, isTx := c16ReplayRec(imp, rc)
		if !isTx {
			if rc.Kind == "block" {
				rec.Count("continuation_blocks", 1)
			}
			continue
		}
		_ = i
		rec.Eval(1)
		rec.Count("continuation_txs_compared", 1)
		if sim.ResultDigestNoGas(res) != rc.ResultNoGas {
			tx, _ := imp.Enc.TxConfig.TxDecoder()(rc.Tx)
			what := "?"
			if tx != nil && len(tx.GetMsgs()) > 0 {
				what = sdk.MsgTypeURL(tx.GetMsgs()[0])
			}
			rec.Violate("C20/continuation/tx-result-differs/"+strings.TrimPrefix(what, "/comdex."), fmt.Sprintf("tape position %d: the same transaction has a different result on the re-imported chain (code %d, %s)", i, res.Code, trunc(res.Log)), map[string]interface{}{"msg": what, "universe": w.name})
			return
		}
	}
	// final state: every non-history query again, on the committed states
	c.EndAndCommit()
	imp.EndAndCommit()
	before := rec.NViolations()
	c20Where = w.name + ", after the continuation"
	c20CompareQueries(rec, c, imp, queries, addrs)
	c20Where = ""
	if rec.NViolations() == before {
		rec.Count("continuations_identical", 1)
	}
	rec.Distinct("C20", w.name, len(tape.Recs)/50)
}

func c20LiqLend(t *testing.T, rec *ev.Rec, round int, queries []c20Query) {
	variant := ev.ShardNo()*3 + round
	// ---- liquidity universe (pairs, pools, orders, farms)
	{
		w := liqNewWorld(t, ev.NewScratch(), rng("C20-liq-setup", variant), variant, nil)
		w.rnd = rng("C20-liq", variant)
		runBlocks := func(n int) {
			for b := 0; b < n; b++ {
				for i := w.rnd.Intn(7); i > 0; i-- {
					w.randomOp()
				}
				w.nextBlock(w.blockGap())
			}
		}
		runBlocks(ev.Pick(50, 150))
		c20FarmPrelude(rec, w)
		c20Generic(t, rec, c20World{name: "liquidity", c: w.c, run: func(n int) { runBlocks(n / 4) }, resume: func() { w.committed = false },
			counters: func(c *sim.Chain, ctx sdk.Context) map[string]uint64 {
				out := map[string]uint64{}
				for _, app := range w.apps {
					out[fmt.Sprintf("liquidity/app%d/pair-id", app)] = c.App.LiquidityKeeper.GetLastPairID(ctx, app)
					out[fmt.Sprintf("liquidity/app%d/pool-id", app)] = c.App.LiquidityKeeper.GetLastPoolID(ctx, app)
				}
				return out
			}}, queries, ev.Pick(120, 400))
		w.c.Close()
	}
	// ---- lend universe
	{
		e := c08Setup(t, ev.NewScratch(), rng("C20-lend-setup", variant), 0, variant%3, false)
		e.rnd = rng("C20-lend", variant)
		run := func(n int) {
			for i := 0; i < n && !e.panicked; i++ {
				if e.rnd.Intn(100) < 30 {
					e.blockStep()
				} else {
					e.txStep()
				}
			}
		}
		run(ev.Pick(400, 1200))
		c20Generic(t, rec, c20World{name: "lend", c: e.c, run: run,
			counters: func(c *sim.Chain, ctx sdk.Context) map[string]uint64 {
				k := c.App.LendKeeper
				// the liquidation sweep runs in this universe as well (a long history seizes borrows before the export):
				// its id counters are compared here too, so that their known loss is reported under its own label
				// instead of surfacing as query differences after the continuation
				return map[string]uint64{"lend/lend-id": k.GetUserLendIDCounter(ctx), "lend/borrow-id": k.GetUserBorrowIDCounter(ctx), "lend/pool-id": k.GetPoolID(ctx), "lend/pair-id": k.GetLendPairID(ctx),
					"liquidationsV2/locked-vault-id": c.App.NewliqKeeper.GetLockedVaultID(ctx), "auctionsV2/auction-id": c.App.NewaucKeeper.GetAuctionID(ctx)}
			}, liveIDs: c20LendLiveIDs}, queries, ev.Pick(150, 500))
		e.c.Close()
	}
	// ---- lend universe with the liquidation sweep: lend-initiated locked vaults and running auctions in the exported state
	if c20Mine(0) {
		e := c08Setup(t, ev.NewScratch(), rng("C20-lendliq-setup", variant), 0, variant%3, true)
		e.rnd = rng("C20-lendliq", variant)
		run := func(n int) {
			for i := 0; i < n && !e.panicked; i++ {
				if e.rnd.Intn(100) < 30 {
					e.blockStep()
				} else {
					e.txStep()
				}
			}
		}
		// run until the sweep has seized something and its auction is still running (bounded)
		for i := 0; i < 8; i++ {
			run(ev.Pick(250, 600))
			ctx := e.c.Ctx()
			// the lend universe has no CDP products: every locked vault here was initiated by the lend sweep
			nl, na := len(e.c.App.NewliqKeeper.GetLockedVaults(ctx)), len(e.c.App.NewaucKeeper.GetAuctions(ctx))
			if nl > 0 && na > 0 {
				rec.Count("lendliq_states_with_locked_vault_and_auction", 1)
				break
			}
		}
		rec.Count("lendliq_locked_vaults_at_export", int64(len(e.c.App.NewliqKeeper.GetLockedVaults(e.c.Ctx()))))
		rec.Count("lendliq_auctions_at_export", int64(len(e.c.App.NewaucKeeper.GetAuctions(e.c.Ctx()))))
		c20Generic(t, rec, c20World{name: "lend-liquidation", c: e.c, run: run,
			counters: func(c *sim.Chain, ctx sdk.Context) map[string]uint64 {
				k := c.App.LendKeeper
				return map[string]uint64{"lend/lend-id": k.GetUserLendIDCounter(ctx), "lend/borrow-id": k.GetUserBorrowIDCounter(ctx),
					"liquidationsV2/locked-vault-id": c.App.NewliqKeeper.GetLockedVaultID(ctx), "auctionsV2/auction-id": c.App.NewaucKeeper.GetAuctionID(ctx)}
			}, liveIDs: c20LendLiveIDs}, queries, ev.Pick(150, 500))
		e.c.Close()
	}
	// ---- rewards universe: gauges mid-way (plain, master/child, swap-fee), epoch clocks, farmers with queued and active
	// coins; once without any programme (so that the continuation is compared) and once with the locker programme
	for k, withLocker := range []bool{false, true} {
		if !c20Mine(1 + k) {
			continue
		}
		sc := variant*3 + 1
		name := "rewards-gauges"
		if withLocker {
			sc = variant * 3
			name = "rewards-gauges+locker-programme"
		}
		e := c19NewEnv(t, ev.NewScratch(), rng("C20-rewards-setup", variant, k), sc, []int{3, 5, 8}[variant%3], []int{0, 3, 1}[variant%3])
		e.rnd = rng("C20-rewards", variant, k)
		for i := 0; i < 3; i++ {
			e.createGauge(false)
		}
		run := func(n int) {
			for b := 0; b < n && !e.panicked; b++ {
				for i := e.rnd.Intn(5); i > 0; i-- {
					e.action()
				}
				e.step(e.pickDt())
			}
		}
		run(ev.Pick(40, 120))
		ctx := e.c.Ctx()
		for _, g := range e.c.App.Rewardskeeper.GetAllGauges(ctx) {
			rec.Count("rewards_gauges_at_export", 1)
			if g.IsActive && g.TriggeredCount > 0 && g.TriggeredCount < g.TotalTriggers {
				rec.Count("rewards_gauges_midway_at_export", 1)
			}
		}
		c20Generic(t, rec, c20World{name: name, c: e.c, run: func(n int) { run(n / 5) }, counters: c20RewardCounters}, queries, ev.Pick(120, 400))
		e.c.Close()
	}
	// ---- all four kinds of external reward programme, part-way through their durations
	if c20Mine(3) {
		e := c19ProgNewEnv(t, ev.NewScratch(), rng("C20-programmes-setup", variant), variant*2)
		e.rnd = rng("C20-programmes", variant)
		e.run(variant*2, ev.Pick(12, 40))
		for _, p := range c19Programmes(e.c, e.c.Ctx()) {
			if p.active {
				rec.Count("reward_programmes_active_at_export_"+p.kind, 1)
			}
		}
		c20Generic(t, rec, c20World{name: "reward-programmes", c: e.c, run: func(n int) {
			for b := 0; b < n/5 && !e.panicked; b++ {
				for i := e.rnd.Intn(5); i > 0; i-- {
					e.action()
				}
				e.step(e.pickDt())
			}
		}, counters: c20RewardCounters}, queries, ev.Pick(120, 400))
		e.c.Close()
	}
}

// c20Mine: the four universes added later are spread over the shards in the quick tier (two per shard).
func c20Mine(k int) bool {
	if ev.Tier() != "quick" || ev.NShards() < 2 {
		return true
	}
	return k%2 == ev.ShardNo()%2
}

func c20RewardCounters(c *sim.Chain, ctx sdk.Context) map[string]uint64 {
	k := c.App.Rewardskeeper
	return map[string]uint64{"rewards/gauge-id": k.GetGaugeID(ctx), "rewards/locker-programme-id": k.GetExternalRewardsLockersID(ctx), "rewards/vault-programme-id": k.GetExternalRewardsVaultID(ctx),
		"rewards/lend-programme-id": k.GetExternalRewardsLendID(ctx), "rewards/stable-mint-programme-id": k.GetExternalRewardsStableVault(ctx), "rewards/programme-epoch-id": k.GetEpochTimeID(ctx)}
}

// c20FarmPrelude: before the export every liquidity provider holds farmed pool coins in several pools, part of them
// already active (queued more than a day ago) and part still queued.
func c20FarmPrelude(rec *ev.Rec, w *liqWorld) {
	k := w.c.App.LiquidityKeeper
	farmAll := func() {
		for _, a := range w.lps {
			for _, app := range w.apps {
				for _, pool := range k.GetAllPools(w.ctx(), app) {
					bal := w.bal(a.Addr, pool.PoolCoinDenom)
					if pool.Disabled || !bal.IsPositive() {
						continue
					}
					amt := bal.QuoRaw(3).AddRaw(1)
					w.deliver(a, "farm", liqtypes.NewMsgFarm(pool.AppId, pool.Id, a.Addr, sdk.NewCoin(pool.PoolCoinDenom, amt)), fmt.Sprintf("app=%d pool=%d poolcoin=%s (export prelude)", pool.AppId, pool.Id, amt))
				}
			}
		}
	}
	farmAll()
	w.nextBlock(25 * time.Hour)
	w.nextBlock(6 * time.Second)
	farmAll()
	w.nextBlock(6 * time.Second)
	for _, a := range w.lps {
		both := 0
		for _, app := range w.apps {
			for _, pool := range k.GetAllPools(w.ctx(), app) {
				act, q := w.farmed(a, pool)
				if act.IsPositive() && q.IsPositive() {
					both++
				}
			}
		}
		rec.Count("farm_positions_active_and_queued_at_export", int64(both))
		if both >= 2 {
			rec.Count("farmers_active_and_queued_in_several_pools_at_export", 1)
		}
	}
}

// c20LendLiveIDs returns the highest lend / borrow position id that is live in the chain's state.
func c20LendLiveIDs(c *sim.Chain, ctx sdk.Context) map[string]uint64 {
	out := map[string]uint64{"lend/lend-id": 0, "lend/borrow-id": 0}
	for _, l := range c.App.LendKeeper.GetAllLend(ctx) {
		if l.ID > out["lend/lend-id"] {
			out["lend/lend-id"] = l.ID
		}
	}
	for _, b := range c.App.LendKeeper.GetAllBorrow(ctx) {
		if b.ID > out["lend/borrow-id"] {
			out["lend/borrow-id"] = b.ID
		}
	}
	return out
}
