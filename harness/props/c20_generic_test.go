package props

import (
	"fmt"
	"strings"
	"testing"
	"time"

	sdk "github.com/cosmos/cosmos-sdk/types"

	"verif/ev"
	"verif/sim"
)

// c20Generic: export / import round trip for any universe. The oracle is
// generic: all non-history comdex queries before and after the continuation,
// named id counters, tx result digests of the continuation.
type c20World struct {
	name     string
	c        *sim.Chain
	run      func(n int)                           // n workload steps on c (the tape records them)
	resume   func()                                // called after the original chain began its next block
	counters func(c *sim.Chain, ctx sdk.Context) map[string]uint64
}

func c20Generic(t *testing.T, rec *ev.Rec, w c20World, queries []c20Query, contSteps int) {
	c := w.c
	var addrs []string
	for _, a := range c.Accts {
		addrs = append(addrs, a.Addr.String())
	}
	addrs = append(addrs, "")
	rec.Count("rounds:"+w.name, 1)
	// the harness's own feeder flag: same first block on both chains (see c20RoundTrip)
	flagOn := c.App.BandoracleKeeper.GetOracleValidationResult(c.Ctx())
	twas := c.App.MarketKeeper.GetAllTwa(c.Ctx())
	if flagOn {
		c.App.BandoracleKeeper.SetOracleValidationResult(c.Ctx(), false)
	}
	c.EndAndCommit()
	exp, err := c.App.ExportAppStateAndValidators(false, nil, nil)
	if err != nil {
		rec.Violate("C20/export/failed/"+w.name, "ExportAppStateAndValidators returned an error on a reachable state: "+err.Error(), nil)
		return
	}
	rec.Count("exports", 1)
	var imp *sim.Chain
	func() {
		defer func() {
			if p := recover(); p != nil {
				rec.Violate("C20/import/init-chain-panicked/"+w.name+"/"+panicClass(p), fmt.Sprintf("InitChain with the exported genesis panicked: %v", p), nil)
			}
		}()
		imp = sim.FromGenesis(c.ChainID, exp.AppState, exp.Height-1, c.Header.Time, c.Accts)
	}()
	if imp == nil {
		return
	}
	defer imp.Close()
	rec.Count("imports", 1)
	nBefore := rec.NViolations()
	c20CompareQueries(rec, c, imp, queries, addrs)
	if w.counters != nil {
		a := w.counters(c, c.App.BaseApp.NewContext(true, c.Header))
		b := w.counters(imp, imp.App.BaseApp.NewContext(true, imp.Header))
		for name, x := range a {
			rec.Eval(1)
			rec.Count("counters_compared", 1)
			if b[name] != x {
				rec.Violate("C20/counter/"+name, fmt.Sprintf("id counter is %d on the original chain and %d after the round trip", x, b[name]), map[string]interface{}{"universe": w.name})
			}
		}
	}
	if rec.NViolations() != nBefore {
		rec.Count("continuations_skipped_after_import_difference", 1)
		return
	}
	rec.Count("clean_imports:"+w.name, 1)
	dt := 6 * time.Second
	c.Header.Time = c.Header.Time.Add(dt)
	imp.Header.Time = c.Header.Time
	c.Begin()
	imp.Begin()
	for _, x := range []*sim.Chain{c, imp} {
		if flagOn {
			x.App.BandoracleKeeper.SetOracleValidationResult(x.Ctx(), true)
		}
		for _, tw := range twas {
			x.App.MarketKeeper.SetTwa(x.Ctx(), tw)
		}
	}
	if w.resume != nil {
		w.resume()
	}
	c.Tape = &sim.Tape{}
	w.run(contSteps)
	tape := c.Tape
	c.Tape = nil
	for i, rc := range tape.Recs {
		res, isTx := imp.ReplayRec(rc)
		if !isTx {
			if rc.Kind == "block" {
				rec.Count("continuation_blocks", 1)
			}
			continue
		}
		rec.Eval(1)
		rec.Count("continuation_txs_compared", 1)
		if sim.ResultDigestNoGas(res) != rc.ResultNoGas {
			tx, _ := imp.Enc.TxConfig.TxDecoder()(rc.Tx)
			what := "?"
			if tx != nil && len(tx.GetMsgs()) > 0 {
				what = sdk.MsgTypeURL(tx.GetMsgs()[0])
			}
			rec.Violate("C20/continuation/tx-result-differs/"+strings.TrimPrefix(what, "/comdex."), fmt.Sprintf("tape position %d: the same transaction has a different result on the re-imported chain (code %d, %s)", i, res.Code, trunc(res.Log)), map[string]interface{}{"msg": what, "universe": w.name})
			return
		}
	}
	// final state: every non-history query again, on the committed states
	c.EndAndCommit()
	imp.EndAndCommit()
	before := rec.NViolations()
	c20CompareQueries(rec, c, imp, queries, addrs)
	if rec.NViolations() == before {
		rec.Count("continuations_identical", 1)
	}
	rec.Distinct("C20", w.name, len(tape.Recs)/50)
}

func c20LiqLend(t *testing.T, rec *ev.Rec, round int, queries []c20Query) {
	variant := ev.ShardNo()*3 + round
	// ---- liquidity universe (pairs, pools, orders, farms)
	{
		w := liqNewWorld(t, ev.NewScratch(), rng("C20-liq-setup", variant), variant, nil)
		w.rnd = rng("C20-liq", variant)
		runBlocks := func(n int) {
			for b := 0; b < n; b++ {
				for i := w.rnd.Intn(7); i > 0; i-- {
					w.randomOp()
				}
				w.nextBlock(w.blockGap())
			}
		}
		runBlocks(ev.Pick(50, 150))
		c20Generic(t, rec, c20World{name: "liquidity", c: w.c, run: func(n int) { runBlocks(n / 4) }, resume: func() { w.committed = false },
			counters: func(c *sim.Chain, ctx sdk.Context) map[string]uint64 {
				out := map[string]uint64{}
				for _, app := range w.apps {
					out[fmt.Sprintf("liquidity/app%d/pair-id", app)] = c.App.LiquidityKeeper.GetLastPairID(ctx, app)
					out[fmt.Sprintf("liquidity/app%d/pool-id", app)] = c.App.LiquidityKeeper.GetLastPoolID(ctx, app)
				}
				return out
			}}, queries, ev.Pick(120, 400))
		w.c.Close()
	}
	// ---- lend universe
	{
		e := c08Setup(t, ev.NewScratch(), rng("C20-lend-setup", variant), 0, variant%3, false)
		e.rnd = rng("C20-lend", variant)
		run := func(n int) {
			for i := 0; i < n && !e.panicked; i++ {
				if e.rnd.Intn(100) < 30 {
					e.blockStep()
				} else {
					e.txStep()
				}
			}
		}
		run(ev.Pick(400, 1200))
		c20Generic(t, rec, c20World{name: "lend", c: e.c, run: run,
			counters: func(c *sim.Chain, ctx sdk.Context) map[string]uint64 {
				k := c.App.LendKeeper
				return map[string]uint64{"lend/lend-id": k.GetUserLendIDCounter(ctx), "lend/borrow-id": k.GetUserBorrowIDCounter(ctx), "lend/pool-id": k.GetPoolID(ctx), "lend/pair-id": k.GetLendPairID(ctx)}
			}}, queries, ev.Pick(150, 500))
		e.c.Close()
	}
}
