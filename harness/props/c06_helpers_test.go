package props

import (
	"fmt"
	"math/big"
	"math/rand"
	"strings"
	"testing"

	sdkmath "cosmossdk.io/math"
	sdk "github.com/cosmos/cosmos-sdk/types"

	assettypes "github.com/comdex-official/comdex/x/asset/types"
	liqtypes "github.com/comdex-official/comdex/x/liquidity/types"

	"verif/ev"
	"verif/mon"
	"verif/sim"
)

// c06Keeper is the in-situ part: requests are stored with keeper.Deposit /
// keeper.Withdraw and executed with ExecuteDepositRequest / ExecuteWithdrawRequest
// on a real application; the oracle sees only the reserve account's bank
// balances and the pool coin's bank supply before and after.
func c06Keeper(t *testing.T, e *c06Run, rnd *rand.Rand) {
	rec := e.rec
	c := sim.New(sim.Options{})
	defer c.Close()
	ctx := c.Ctx()
	k := c.App.LiquidityKeeper
	bank := c.App.BankKeeper
	who := c.Accts[1].Addr

	must(t, c.App.AssetKeeper.AddAppRecords(ctx, assettypes.AppData{Name: "poolfair", ShortName: "plfr", MinGovDeposit: sdkmath.NewInt(0), GovTimeInSeconds: 0, GenesisToken: []assettypes.MintGenesisToken{}}))
	var appID uint64
	apps, _ := c.App.AssetKeeper.GetApps(ctx)
	for _, a := range apps {
		if a.Name == "poolfair" {
			appID = a.Id
		}
	}
	if appID == 0 {
		t.Fatalf("harness set-up failed: app not found")
	}
	const quote, base = "uquote", "ubase"
	for _, dn := range []string{quote, base} {
		must(t, c.App.AssetKeeper.AddAssetRecords(ctx, assettypes.Asset{Name: strings.ToUpper(dn), Denom: dn, Decimals: sdkmath.NewInt(1_000_000), IsOnChain: true, IsOraclePriceRequired: false}))
	}
	fund := func(coins sdk.Coins) {
		coins = sdk.NewCoins(coins...)
		if coins.IsZero() {
			return
		}
		must(t, bank.MintCoins(ctx, liqtypes.ModuleName, coins))
		must(t, bank.SendCoinsFromModuleToAccount(ctx, liqtypes.ModuleName, who, coins))
	}
	params, err := k.GetGenericParams(ctx, appID)
	must(t, err)
	fund(params.PairCreationFee)
	pair, err := k.CreatePair(ctx, liqtypes.NewMsgCreatePair(appID, who, base, quote), false)
	must(t, err)

	coinsXY := func(x, y *big.Int) sdk.Coins {
		return sdk.NewCoins(sdk.NewCoin(quote, c06I(x)), sdk.NewCoin(base, c06I(y)))
	}
	state := func(pool liqtypes.Pool) (rx, ry, ps *big.Int) {
		cx, cy := k.GetPoolBalances(ctx, pool)
		return cx.Amount.BigInt(), cy.Amount.BigInt(), k.GetPoolCoinSupply(ctx, pool).BigInt()
	}
	d := sdkmath.LegacyMustNewDecFromStr
	type spec struct {
		kind             string
		min, max, init   string
		x, y             int64
		feeNum           string
	}
	specs := []spec{
		{"basic", "", "", "", 30_000_000, 20_000_000, "0.003"},
		{"ranged", "0.5", "2", "1", 50_000_000, 50_000_000, "0.003"},
		{"ranged", "1", "1.001", "1", 0, 9_000_000, "0"},            // initial == min: base coin only
		{"ranged", "0.0021", "950", "950", 7_000_000, 0, "0.5"},      // initial == max: quote coin only
		{"basic", "", "", "", 1_000_000, 999_999_000_000, "0"},
		{"ranged", "12.5", "13", "12.75", 80_000_000, 3_000_000, "0.003"},
	}
	nPools := ev.Pick(24, 96)
	nOps := ev.Pick(80, 160)
	for pi := 0; pi < nPools; pi++ {
		sp := specs[(pi+ev.ShardNo())%len(specs)]
		params.WithdrawFeeRate = d(sp.feeNum)
		k.SetGenericParams(ctx, params)
		feeNum := params.WithdrawFeeRate.BigInt()
		scale := c06Pow10([]int{0, 0, 6, 12, 24}[rnd.Intn(5)])
		x0, y0 := new(big.Int).Mul(c06B(sp.x), scale), new(big.Int).Mul(c06B(sp.y), scale)
		fund(params.PoolCreationFee)
		fund(coinsXY(x0, y0))
		var pool liqtypes.Pool
		var rg c06Range
		var cerr error
		func() {
			defer func() {
				if r := recover(); r != nil {
					cerr = fmt.Errorf("panic: %v", r)
				}
			}()
			if sp.kind == "basic" {
				pool, cerr = k.CreatePool(ctx, liqtypes.NewMsgCreatePool(appID, who, pair.Id, coinsXY(x0, y0)))
			} else {
				rg = c06Range{d(sp.min), d(sp.max)}
				pool, cerr = k.CreateRangedPool(ctx, liqtypes.NewMsgCreateRangedPool(appID, who, pair.Id, coinsXY(x0, y0), rg.min, rg.max, d(sp.init)))
			}
		}()
		if cerr != nil {
			rec.Count("keeper_pool_create_failed", 1)
			continue
		}
		rec.Count("keeper_pools_created_"+sp.kind, 1)
		var ops []string
		ops = append(ops, fmt.Sprintf("%s pool created by keeper with x=%s y=%s min=%s max=%s initial=%s withdraw fee %s", sp.kind, x0, y0, sp.min, sp.max, sp.init, sp.feeNum))
		inside := true
		priceOf := func(stage string, flag bool) bool {
			if sp.kind != "ranged" {
				return true
			}
			rx, ry, ps := state(pool)
			if ps.Sign() == 0 || (rx.Sign() == 0 && ry.Sign() == 0) {
				return flag
			}
			np := e.newRanged(rx, ry, ps, rg)
			if np == nil {
				return false
			}
			return e.price(stage, np, rg, flag, func() map[string]interface{} {
				return map[string]interface{}{"mode": "keeper", "ops": strings.Join(ops, "; ")}
			})
		}
		inside = priceOf("create", true)
		for oi := 0; oi < nOps; oi++ {
			rx, ry, ps := state(pool)
			if ps.Sign() == 0 {
				rec.Count("keeper_pool_ended_supply_zero", 1)
				break
			}
			p2, _ := k.GetPool(ctx, appID, pool.Id)
			if p2.Disabled {
				rec.Count("keeper_pool_ended_disabled", 1)
				break
			}
			shape := c06Shape(rx, ry)
			lastOp := oi == nOps-1
			if !lastOp && rnd.Intn(2) == 0 {
				// deposit
				a, b := int64(rnd.Intn(12)+1), int64(rnd.Intn(12)+1)
				var dx, dy *big.Int
				switch rnd.Intn(4) {
				case 0:
					dx, dy = c06Amt(rnd), c06Amt(rnd)
				case 1:
					dx, dy = c06Frac(rx, a, b, int64(rnd.Intn(3)-1)), c06Frac(ry, a, b, int64(rnd.Intn(3)-1))
				case 2:
					dx, dy = c06Frac(rx, a, b, 0), c06Frac(ry, 3*a, b, 5)
				default:
					dx, dy = c06Frac(rx, 1, int64(1000+rnd.Intn(1000)), 1), c06Frac(ry, 1, int64(1000+rnd.Intn(1000)), 1)
				}
				if h := new(big.Int).Sub(c06Max, rx); dx.Cmp(h) > 0 {
					dx = h
				}
				if h := new(big.Int).Sub(c06Max, ry); dy.Cmp(h) > 0 {
					dy = h
				}
				coins := coinsXY(dx, dy)
				if coins.IsZero() {
					continue
				}
				fund(coins)
				rec.Count("keeper_deposit_requests", 1)
				req, err := k.Deposit(ctx, liqtypes.NewMsgDeposit(appID, who, pool.Id, coins))
				if err != nil {
					rec.Count("keeper_deposit_request_refused", 1)
					continue
				}
				ops = append(ops, fmt.Sprintf("deposit x=%s y=%s into (rx=%s ry=%s ps=%s)", dx, dy, rx, ry, ps))
				var xerr error
				func() {
					defer func() {
						if r := recover(); r != nil {
							xerr = fmt.Errorf("panic: %v", r)
							rec.Count("keeper_deposit_execute_panicked_"+panicClass(r), 1)
						}
					}()
					xerr = k.ExecuteDepositRequest(ctx, req)
				}()
				if xerr != nil {
					rec.Count("keeper_deposit_execute_error", 1)
					break // state after a failed execution is not a committed state
				}
				req, _ = k.GetDepositRequest(ctx, appID, pool.Id, req.Id)
				rx1, ry1, ps1 := state(pool)
				if req.Status != liqtypes.RequestStatusSucceeded {
					rec.Count("keeper_deposit_failed_status", 1)
					ops[len(ops)-1] += " => failed"
					continue
				}
				ax, ay, pc := new(big.Int).Sub(rx1, rx), new(big.Int).Sub(ry1, ry), new(big.Int).Sub(ps1, ps)
				ops[len(ops)-1] += fmt.Sprintf(" => reserves +%s +%s, supply +%s", ax, ay, pc)
				rec.Eval(1)
				rec.Count("keeper_deposit_executed", 1)
				rec.Distinct("KD", sp.kind, shape, c06Digits(rx), c06Digits(ry), c06Digits(ps), c06Digits(dx), c06Digits(dy), c06Digits(pc))
				br, strict := mon.C06Deposit(rx, ry, ps, dx, dy, ax, ay, pc)
				if strict {
					rec.Count("deposit_rate_dust_to_depositor_within_1e-17", 1)
				}
				if pc.Sign() <= 0 {
					br = append(br, mon.C06Breach{Law: "executed-without-minting", What: fmt.Sprintf("request succeeded, supply changed by %s", pc)})
				}
				for _, b := range br {
					rec.Violate("C06/keeper-deposit/"+shape+"/"+b.Law, b.What, map[string]interface{}{"mode": "keeper", "ops": strings.Join(ops, "; ")})
				}
				inside = priceOf("deposit", inside)
			} else {
				// withdraw; the single account holds the entire supply, so pc == ps is reachable
				bal := bank.GetBalance(ctx, who, pool.PoolCoinDenom).Amount.BigInt()
				// in part of the pools some shares are farmed first: farmed pool coins sit in the module
				// account but are still outstanding shares, a withdrawal must be priced against all of them
				if pi%3 == 1 && !lastOp && bal.Sign() > 0 && rnd.Intn(4) == 0 {
					f := c06Frac(bal, 1, int64(2+rnd.Intn(4)), 0)
					if f.Sign() > 0 {
						func() {
							defer func() { _ = recover() }()
							if err := k.Farm(ctx, liqtypes.NewMsgFarm(appID, pool.Id, who, sdk.NewCoin(pool.PoolCoinDenom, c06I(f)))); err == nil {
								rec.Count("keeper_farmed_before_withdraw", 1)
								ops = append(ops, fmt.Sprintf("farm %s pool coins", f))
							}
						}()
						bal = bank.GetBalance(ctx, who, pool.PoolCoinDenom).Amount.BigInt()
					}
				}
				if bal.Sign() == 0 {
					break
				}
				pc := c06WideShares(rnd, bal)
				if !lastOp && pc.Cmp(bal) == 0 && rnd.Intn(12) > 0 {
					pc = c06Frac(bal, 1, 3, 1)
				}
				if lastOp {
					pc = bal
				}
				rec.Count("keeper_withdraw_requests", 1)
				req, err := k.Withdraw(ctx, liqtypes.NewMsgWithdraw(appID, who, pool.Id, sdk.NewCoin(pool.PoolCoinDenom, c06I(pc))))
				if err != nil {
					rec.Count("keeper_withdraw_request_refused", 1)
					continue
				}
				ops = append(ops, fmt.Sprintf("withdraw pc=%s from (rx=%s ry=%s ps=%s)", pc, rx, ry, ps))
				var xerr error
				func() {
					defer func() {
						if r := recover(); r != nil {
							xerr = fmt.Errorf("panic: %v", r)
							rec.Count("keeper_withdraw_execute_panicked_"+panicClass(r), 1)
						}
					}()
					xerr = k.ExecuteWithdrawRequest(ctx, req)
				}()
				if xerr != nil {
					rec.Count("keeper_withdraw_execute_error", 1)
					break
				}
				req, _ = k.GetWithdrawRequest(ctx, appID, pool.Id, req.Id)
				rx1, ry1, ps1 := state(pool)
				if req.Status != liqtypes.RequestStatusSucceeded {
					rec.Count("keeper_withdraw_failed_status", 1)
					ops[len(ops)-1] += " => failed"
					continue
				}
				wx, wy, burnt := new(big.Int).Sub(rx, rx1), new(big.Int).Sub(ry, ry1), new(big.Int).Sub(ps, ps1)
				ops[len(ops)-1] += fmt.Sprintf(" => reserves -%s -%s, supply -%s", wx, wy, burnt)
				rec.Eval(1)
				rec.Count("keeper_withdraw_executed", 1)
				if pc.Cmp(ps) == 0 {
					rec.Count("keeper_withdraw_last_shares", 1)
				}
				rec.Distinct("KW", sp.kind, shape, c06Digits(rx), c06Digits(ry), c06Digits(ps), c06Digits(pc), pc.Cmp(ps) == 0)
				br := mon.C06Withdraw(rx, ry, ps, burnt, feeNum, wx, wy)
				if burnt.Cmp(pc) != 0 {
					br = append(br, mon.C06Breach{Law: "burnt-shares-differ-from-request", What: fmt.Sprintf("requested %s, supply fell by %s", pc, burnt)})
				}
				for _, b := range br {
					rec.Violate("C06/keeper-withdraw/"+shape+"/"+b.Law, b.What, map[string]interface{}{"mode": "keeper", "fee": sp.feeNum, "ops": strings.Join(ops, "; ")})
				}
				if ps1.Sign() > 0 {
					inside = priceOf("withdraw", inside)
				}
			}
		}
		if pi == 0 {
			if len(ops) > 8 {
				ops = ops[:8]
			}
			rec.Sample(map[string]interface{}{"mode": "keeper", "ops": strings.Join(ops, "; ")})
		}
	}
}
