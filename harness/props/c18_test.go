package props

import (
	"fmt"
	"math"
	"math/big"
	"math/rand"
	"sort"
	"testing"
	"time"

	sdk "github.com/cosmos/cosmos-sdk/types"
	authtypes "github.com/cosmos/cosmos-sdk/x/auth/types"

	assettypes "github.com/comdex-official/comdex/x/asset/types"
	lendtypes "github.com/comdex-official/comdex/x/lend/types"
	vaulttypes "github.com/comdex-official/comdex/x/vault/types"

	"verif/ev"
	"verif/mon"
	"verif/sim"
)

// C18: accrual is non-negative, zero over zero time, monotone in time /
// principal / rate, sub-additive over consecutive intervals (beyond rounding
// in the last stored decimal place); borrow-rate curves are non-decreasing in
// utilisation, equal the base rate at U=0, continuous at the kink, and the lend
// rate never exceeds the borrow rate.
//
// Everything is decided on outputs of the REAL functions
//   rewards keeper  CalculationOfRewards          (stability fee on vaults + locker savings: one function, binary64 pow)
//   lend keeper     CalculateLendReward           (lend rewards, index based)
//   lend keeper     CalculateBorrowInterest       (borrow interest + reserve share, index based)
//   lend keeper     CalculateStableInterest       (stable borrow interest)
//   lend keeper     GetBorrowAPRByAssetID / GetLendAPRByAssetIDAndPoolID / GetUtilisationRatioByPoolIDAndAssetID
// and, in situ, on position records written by CalculateVaultInterest and MsgCalculateBorrowInterest.

const (
	c18Year = 31557600      // seconds per year used by both modules (x/rewards/types/keys.go, x/lend/types/keys.go)
	c18T0   = 1_700_000_000 // unix time of the "last interaction"
	c18MaxT = 30 * c18Year  // "decades"
)

var (
	c18MaxP = new(big.Int).SetUint64(math.MaxInt64)
	c18E18  = new(big.Int).Exp(big.NewInt(10), big.NewInt(18), nil)
	c18TenE = new(big.Int).Mul(big.NewInt(10), c18E18) // rate 10 as 18-decimal integer
)

type c18Env struct {
	c   *sim.Chain
	rec *ev.Rec
	ctx sdk.Context
	rnd *rand.Rand
	t   *testing.T

	assetID  uint64
	cAssetID uint64
	pool     sdk.AccAddress
	funder  sdk.AccAddress
}

func c18Dec(i *big.Int) sdk.Dec { return sdk.NewDecFromBigIntWithPrec(new(big.Int).Set(i), 18) }
func c18Rat(d sdk.Dec) *big.Rat { return mon.C18DecRat(d.BigInt()) }
func c18DecS(s string) sdk.Dec {
	d, err := sdk.NewDecFromStr(s)
	if err != nil {
		panic(err)
	}
	return d
}

func (e *c18Env) at(t int64) sdk.Context {
	return e.ctx.WithBlockTime(time.Unix(c18T0+t, 0).UTC())
}

// ---------------------------------------------------------------- generators

var c18FixedP = func() []*big.Int {
	var out []*big.Int
	for _, s := range []string{"0", "1", "2", "1000", "1000000", "1000000000", "1000000000000", "1000000000000000", "1000000000000000000",
		"9007199254740991", "9007199254740992", "9007199254740993", "9223372036854775806", "9223372036854775807"} {
		v, _ := new(big.Int).SetString(s, 10)
		out = append(out, v)
	}
	return out
}()

var c18FixedR = []string{"0", "0.000000000000000001", "0.000000000000000002", "0.000000000001", "0.000000001", "0.000001", "0.0001",
	"0.001", "0.01", "0.015", "0.05", "0.1", "0.25", "0.5", "1", "1.000000000000000001", "2", "5", "9.999999999999999999", "10"}

var c18FixedT = []int64{0, 1, 2, 5, 6, 59, 60, 3600, 86400, 604800, 2629800, c18Year/2 - 1, c18Year / 2, c18Year/2 + 1,
	c18Year - 1, c18Year, c18Year + 1, 2 * c18Year, 5 * c18Year, 10 * c18Year, c18MaxT}

var c18FixedG = []string{"1", "0.002", "0.03", "0.5", "1.000000000000000001", "1.37", "2.5", "10"}

func (e *c18Env) principal() *big.Int {
	r := e.rnd
	var v *big.Int
	switch r.Intn(6) {
	case 0:
		v = new(big.Int).Set(c18FixedP[r.Intn(len(c18FixedP))])
	case 1: // power of ten and neighbours
		v = new(big.Int).Exp(big.NewInt(10), big.NewInt(int64(r.Intn(19))), nil)
		v.Add(v, big.NewInt(int64(r.Intn(3)-1)))
	case 2: // power of two and neighbours
		v = new(big.Int).Lsh(big.NewInt(1), uint(r.Intn(64)))
		v.Add(v, big.NewInt(int64(r.Intn(3)-1)))
	default: // random value of random bit length
		b := uint(1 + r.Intn(63))
		v = new(big.Int).Rand(r, new(big.Int).Lsh(big.NewInt(1), b))
	}
	if v.Sign() < 0 {
		v.SetInt64(0)
	}
	if v.Cmp(c18MaxP) > 0 {
		v.Set(c18MaxP)
	}
	return v
}

// rateInt returns a rate in [0,10] as an 18-decimal integer.
func (e *c18Env) rateInt() *big.Int {
	r := e.rnd
	var v *big.Int
	switch r.Intn(6) {
	case 0:
		v = new(big.Int).Set(c18DecS(c18FixedR[r.Intn(len(c18FixedR))]).BigInt())
	case 1: // fixed +- one last place
		v = new(big.Int).Set(c18DecS(c18FixedR[r.Intn(len(c18FixedR))]).BigInt())
		v.Add(v, big.NewInt(int64(r.Intn(3)-1)))
	case 2: // per mille grid
		v = new(big.Int).Mul(big.NewInt(int64(r.Intn(10001))), big.NewInt(1_000_000_000_000_000))
	case 3: // uniform 18 digit
		v = new(big.Int).Rand(r, new(big.Int).Add(c18TenE, big.NewInt(1)))
	case 4: // tiny: m * 10^k with k in [0,15] (i.e. down to 1e-18)
		v = new(big.Int).Exp(big.NewInt(10), big.NewInt(int64(r.Intn(16))), nil)
		v.Mul(v, big.NewInt(int64(1+r.Intn(999))))
	default: // typical annual rates 0.1% .. 30% with 18 random digits
		v = new(big.Int).Rand(r, new(big.Int).Mul(big.NewInt(3), new(big.Int).Exp(big.NewInt(10), big.NewInt(17), nil)))
	}
	if v.Sign() < 0 {
		v.SetInt64(0)
	}
	if v.Cmp(c18TenE) > 0 {
		v.Set(c18TenE)
	}
	return v
}

func (e *c18Env) seconds(max int64) int64 {
	r := e.rnd
	var t int64
	switch r.Intn(6) {
	case 0:
		t = c18FixedT[r.Intn(len(c18FixedT))]
	case 1:
		t = c18FixedT[r.Intn(len(c18FixedT))] + int64(r.Intn(5)-2)
	case 2: // around (k+1/2) years, where the pow implementation switches its exponent split
		t = int64(r.Intn(30))*c18Year + c18Year/2 + int64(r.Intn(7)-3)
	case 3: // block-time sized
		t = int64(r.Intn(120))
	default: // log uniform
		t = r.Int63n(int64(1) << uint(1+r.Intn(30)))
	}
	if t < 0 {
		t = 0
	}
	if t > max {
		t = max
	}
	return t
}

func (e *c18Env) index() sdk.Dec {
	r := e.rnd
	switch r.Intn(3) {
	case 0:
		return c18DecS(c18FixedG[r.Intn(len(c18FixedG))])
	case 1: // an APR-like starting index (the module initialises the index with the current APR)
		return c18Dec(new(big.Int).Add(big.NewInt(1_000_000_000_000_000), new(big.Int).Rand(r, new(big.Int).Exp(big.NewInt(10), big.NewInt(18), nil))))
	default: // an index that has been growing for a while
		return c18Dec(new(big.Int).Add(c18E18, new(big.Int).Rand(r, c18TenE)))
	}
}

func c18Bits(v int64) int {
	if v <= 0 {
		return 0
	}
	return big.NewInt(v).BitLen()
}

func c18RateClass(r *big.Int) int { // decimal digits of the 18-decimal integer: 0 for zero, 19 for >= 1
	if r.Sign() == 0 {
		return 0
	}
	return len(r.String())
}

// ---------------------------------------------------------------- accrual paths

type c18Out struct {
	v   *big.Rat // accrued amount
	d   sdk.Dec
	idx sdk.Dec // index after the accrual (index based paths)
	ok  bool
}

type c18Path struct {
	name    string // label component
	float   bool   // binary64 compounding path
	indexed bool   // uses a global index
	eval    func(ctx sdk.Context, P *big.Int, r sdk.Dec, G sdk.Dec) (sdk.Dec, sdk.Dec, error)
}

func (e *c18Env) paths() []*c18Path {
	rk := e.c.App.Rewardskeeper
	lk := e.c.App.LendKeeper
	last := time.Unix(c18T0, 0).UTC()
	return []*c18Path{
		{name: "CalculationOfRewards", float: true, eval: func(ctx sdk.Context, P *big.Int, r, G sdk.Dec) (sdk.Dec, sdk.Dec, error) {
			v, err := rk.CalculationOfRewards(ctx, sdk.NewIntFromBigInt(P), r, c18T0)
			return v, sdk.Dec{}, err
		}},
		{name: "CalculateLendReward", indexed: true, eval: func(ctx sdk.Context, P *big.Int, r, G sdk.Dec) (sdk.Dec, sdk.Dec, error) {
			v, idx, err := lk.CalculateLendReward(ctx, P.String(), r, lendtypes.LendAsset{LastInteractionTime: last, GlobalIndex: G})
			return v, idx, err
		}},
		{name: "CalculateBorrowInterest/interest", indexed: true, eval: func(ctx sdk.Context, P *big.Int, r, G sdk.Dec) (sdk.Dec, sdk.Dec, error) {
			v, idx, _, _, err := lk.CalculateBorrowInterest(ctx, P.String(), r, sdk.MustNewDecFromStr("0.01"), lendtypes.BorrowAsset{LastInteractionTime: last, GlobalIndex: G, ReserveGlobalIndex: sdk.OneDec()})
			return v, idx, err
		}},
		{name: "CalculateBorrowInterest/reserve", indexed: true, eval: func(ctx sdk.Context, P *big.Int, r, G sdk.Dec) (sdk.Dec, sdk.Dec, error) {
			_, _, v, idx, err := lk.CalculateBorrowInterest(ctx, P.String(), sdk.MustNewDecFromStr("0.07"), r, lendtypes.BorrowAsset{LastInteractionTime: last, GlobalIndex: sdk.OneDec(), ReserveGlobalIndex: G})
			return v, idx, err
		}},
		{name: "CalculateStableInterest", eval: func(ctx sdk.Context, P *big.Int, r, G sdk.Dec) (sdk.Dec, sdk.Dec, error) {
			v, err := lk.CalculateStableInterest(ctx, P.String(), lendtypes.BorrowAsset{LastInteractionTime: last, StableBorrowRate: r})
			return v, sdk.Dec{}, err
		}},
	}
}

func c18Wit(p *c18Path, P *big.Int, r sdk.Dec, G sdk.Dec, kv ...interface{}) map[string]interface{} {
	m := map[string]interface{}{"function": p.name, "principal": P.String(), "rate": r.String(), "seconds_per_year": c18Year,
		"how": "ctx.BlockTime = last interaction + seconds; last interaction = unix " + fmt.Sprint(c18T0)}
	if p.indexed {
		m["global_index"] = G.String()
	}
	for i := 0; i+1 < len(kv); i += 2 {
		m[fmt.Sprint(kv[i])] = fmt.Sprint(kv[i+1])
	}
	return m
}

// run evaluates the real function once; the non-negativity law is checked on
// every successful evaluation.
func (e *c18Env) run(p *c18Path, P *big.Int, r sdk.Dec, t int64, G sdk.Dec) (out c18Out) {
	e.rec.Eval(1)
	e.rec.Count(p.name+"/calls", 1)
	var d, idx sdk.Dec
	var err error
	func() {
		defer func() {
			if x := recover(); x != nil {
				// the statement does not forbid rejecting an input; a panic is an (ugly) rejection
				e.rec.Count(p.name+"/panics", 1)
				e.rec.Count(p.name+"/panic/"+panicClass(x), 1)
				err = fmt.Errorf("panic: %v", x)
			}
		}()
		d, idx, err = p.eval(e.at(t), P, r, G)
	}()
	if err != nil {
		e.rec.Count(p.name+"/rejected", 1)
		return
	}
	out = c18Out{v: c18Rat(d), d: d, idx: idx, ok: true}
	e.rec.Count(p.name+"/law_nonneg", 1)
	if d.IsNegative() {
		e.rec.Violate("C18/"+p.name+"/negative", fmt.Sprintf("accrual %s < 0", d), c18Wit(p, P, r, G, "seconds", t, "result", d))
	}
	return
}

func c18Pos(x *big.Rat) *big.Rat {
	if x.Sign() < 0 {
		return new(big.Rat)
	}
	return x
}

// laws evaluates every accrual law of the statement once around one base point.
func (e *c18Env) laws(p *c18Path, P *big.Int, rI *big.Int, t int64, G sdk.Dec, adjacent bool) {
	rnd := e.rnd
	r := c18Dec(rI)
	e.rec.Distinct(p.name, P.BitLen(), c18RateClass(rI), c18Bits(t), G.String() == "1.000000000000000000")
	base := e.run(p, P, r, t, G)

	// zero elapsed time
	if z := e.run(p, P, r, 0, G); z.ok {
		e.rec.Count(p.name+"/law_zero_time", 1)
		if !z.d.IsZero() {
			e.rec.Violate("C18/"+p.name+"/nonzero-at-zero-time", fmt.Sprintf("accrual over 0 seconds is %s", z.d), c18Wit(p, P, r, G, "seconds", 0, "result", z.d))
		}
	}
	if !base.ok {
		return
	}

	// monotone in elapsed time
	tb := t + 1
	if !adjacent {
		tb = t + 1 + rnd.Int63n(c18MaxT-t+1)
	}
	if tb <= c18MaxT+1 {
		if b := e.run(p, P, r, tb, G); b.ok {
			e.rec.Count(p.name+"/law_mono_time", 1)
			if b.v.Cmp(base.v) < 0 {
				e.rec.Violate("C18/"+p.name+"/decreasing-in-time", fmt.Sprintf("f(%ds)=%s > f(%ds)=%s", t, base.d, tb, b.d), c18Wit(p, P, r, G, "seconds_a", t, "result_a", base.d, "seconds_b", tb, "result_b", b.d))
			}
		}
	}
	// monotone in principal
	if P.Cmp(c18MaxP) < 0 {
		P2 := new(big.Int).Add(P, big.NewInt(1))
		if !adjacent {
			P2.Add(P2, new(big.Int).Rand(rnd, new(big.Int).Sub(c18MaxP, P)))
		}
		if b := e.run(p, P2, r, t, G); b.ok {
			e.rec.Count(p.name+"/law_mono_principal", 1)
			if b.v.Cmp(base.v) < 0 {
				e.rec.Violate("C18/"+p.name+"/decreasing-in-principal", fmt.Sprintf("f(P=%s)=%s > f(P=%s)=%s", P, base.d, P2, b.d), c18Wit(p, P, r, G, "seconds", t, "result_a", base.d, "principal_b", P2, "result_b", b.d))
			}
		}
	}
	// monotone in rate
	if rI.Cmp(c18TenE) < 0 {
		r2I := new(big.Int).Add(rI, big.NewInt(1))
		if !adjacent {
			r2I.Add(r2I, new(big.Int).Rand(rnd, new(big.Int).Sub(c18TenE, rI)))
		}
		r2 := c18Dec(r2I)
		if b := e.run(p, P, r2, t, G); b.ok {
			e.rec.Count(p.name+"/law_mono_rate", 1)
			if b.v.Cmp(base.v) < 0 {
				e.rec.Violate("C18/"+p.name+"/decreasing-in-rate", fmt.Sprintf("f(r=%s)=%s > f(r=%s)=%s", r, base.d, r2, b.d), c18Wit(p, P, r, G, "seconds", t, "result_a", base.d, "rate_b", r2, "result_b", b.d))
			}
		}
	}

	// independent reference value
	var ln1p *big.Float
	if p.float {
		ln1p = mon.C18Ln1p(c18Rat(r))
	}
	e.reference(p, P, r, t, G, base, ln1p)

	// two consecutive intervals t1, t2 on the same principal vs. one interval t1+t2
	t12 := t
	var t1 int64
	switch rnd.Intn(5) {
	case 0:
		t1 = 0
	case 1:
		t1 = 1
	case 2:
		t1 = t12 / 2
	case 3:
		t1 = t12 - 1
	default:
		t1 = rnd.Int63n(t12 + 1)
	}
	if t1 < 0 {
		t1 = 0
	}
	if t1 > t12 {
		t1 = t12
	}
	t2 := t12 - t1
	a := e.run(p, P, r, t1, G)
	if !a.ok {
		return
	}
	G1 := G
	if p.indexed {
		G1 = a.idx // the caller stores the returned index and uses it for the next interval
	}
	b := e.run(p, P, r, t2, G1)
	if !b.ok {
		return
	}
	e.subAdditive(p, P, r, G, G1, t1, t2, a, b, base, ln1p)
}

// reference compares one result with an independent evaluation of the formula
// (catches changes of the formula that the relations between outputs cannot see).
func (e *c18Env) reference(p *c18Path, P *big.Int, r sdk.Dec, t int64, G sdk.Dec, got c18Out, ln1p *big.Float) {
	e.rec.Count(p.name+"/law_reference", 1)
	var want, tol *big.Rat
	if p.float {
		var g *big.Float
		want, g = mon.C18Compound(P, ln1p, t, c18Year)
		// binary64 evaluates P*pow: the achievable accuracy is relative to P*(1+r)^y, not to the (cancelled)
		// difference; 2^-40 of that plus one last place of the 18 decimal output.
		gr, _ := g.Rat(nil)
		tol = new(big.Rat).Mul(new(big.Rat).SetInt(P), gr)
		tol.Mul(tol, new(big.Rat).SetFrac(big.NewInt(1), new(big.Int).Lsh(big.NewInt(1), 40)))
		tol.Add(tol, mon.C18Ulps(1))
	} else {
		want = mon.C18Simple(P, c18Rat(r), t, c18Year)
		// years truncated to 18 decimals (<= r*1e-18 on the effective rate), effective rate rounded (0.5e-18),
		// index round trip round(round(G*(1+e))/G) (<= (0.5/G+0.5)e-18), all scaled by the integer principal;
		// stable path: one rounding of the product.
		k := new(big.Rat).Add(c18Rat(r), big.NewRat(1, 1))
		if p.indexed {
			k.Add(k, new(big.Rat).Inv(c18Rat(G)))
		}
		tol = new(big.Rat).Mul(new(big.Rat).SetInt(P), k)
		tol.Mul(tol, mon.C18Ulps(1))
		tol.Add(tol, mon.C18Ulps(1))
	}
	diff := new(big.Rat).Sub(got.v, want)
	diff.Abs(diff)
	if diff.Cmp(tol) > 0 {
		e.rec.Violate("C18/"+p.name+"/reference-mismatch", fmt.Sprintf("result %s differs from P*growth(r,t) = %s by more than %s", got.d, want.FloatString(18), tol.FloatString(24)),
			c18Wit(p, P, r, G, "seconds", t, "result", got.d, "reference", want.FloatString(24)))
	}
}

// subAdditive checks f(t1)+f(t2) <= f(t1+t2) + tolerance.
//
// Tolerances (exact rationals, derived from the roundings the function itself performs, nothing else):
//
//   - CalculateStableInterest: round(A*y1)+round(A*y2) vs round(A*y12) with y_i = trunc18(t_i/year) (truncation is
//     super-additive, it can only help) and A=P*rate exact: three half-last-place roundings -> 1.5e-18.
//   - index based (lend reward, borrow interest, reserve share): the result is P*(e_i+d_i) exactly, where
//     e_i = round18(rate*y_i) and d_i is the error of the index round trip round(round(G*(1+e))/G),
//     |d_i| <= (0.5/G+0.5)e-18.  Summing: excess <= P*(1.5 + (0.5/G+0.5) + (0.5/G1+0.5) + (0.5/G+0.5))e-18
//     = P*(3 + 1/G + 0.5/G1)e-18. Every term is one rounding in the last stored place of a stored Dec (rate
//     factor / index), carried to the result by the exact multiplication with the principal.
//   - CalculationOfRewards (binary64): each of the three results is formatted to 18 decimals (half a place each,
//     1.5e-18) and is itself a binary64 number, i.e. rounded in ITS last stored place: 4 ulp of the merged
//     result f(t1+t2) are allowed for that (<= 4*2^-52*f12; a well conditioned binary64 evaluation of
//     P*((1+r)^y-1) - log1p, one product, expm1, one product - stays inside it). Any excess above that is
//     reported. The label says whether the excess is still explained by the ABSOLUTE granularity of evaluating
//     pow(1+r,y) first and subtracting 1 afterwards (a few ulp of P*pow, not of the result) or is beyond even that.
func (e *c18Env) subAdditive(p *c18Path, P *big.Int, r sdk.Dec, G, G1 sdk.Dec, t1, t2 int64, a, b, m c18Out, ln1p *big.Float) {
	e.rec.Count(p.name+"/law_sub_additive", 1)
	if t1 == 0 || t2 == 0 {
		e.rec.Count(p.name+"/sub_additive_one_empty_interval", 1)
	}
	sum := new(big.Rat).Add(a.v, b.v)
	excess := new(big.Rat).Sub(sum, m.v)
	if excess.Sign() > 0 {
		e.rec.Count(p.name+"/sub_additive_split_exceeds_merged_at_all", 1)
	}
	PR := new(big.Rat).SetInt(P)
	var tol *big.Rat
	switch {
	case p.float:
		tol = c18FloatTol(m.v)
	case p.indexed:
		k := big.NewRat(3, 1)
		k.Add(k, new(big.Rat).Inv(c18Rat(G)))
		k.Add(k, new(big.Rat).Quo(big.NewRat(1, 2), c18Rat(G1)))
		tol = k.Mul(k, PR)
		tol.Mul(tol, mon.C18Ulps(1))
	default:
		tol = big.NewRat(3, 2)
		tol.Mul(tol, mon.C18Ulps(1))
	}
	if excess.Cmp(tol) <= 0 {
		return
	}
	wit := c18Wit(p, P, r, G, "seconds_1", t1, "seconds_2", t2, "result_1", a.d, "result_2", b.d, "result_merged", m.d,
		"excess", excess.FloatString(18), "tolerance", tol.FloatString(24))
	if p.indexed {
		wit["global_index_second_interval"] = G1.String()
	}
	if !p.float {
		e.rec.Violate("C18/"+p.name+"/sub-additive/beyond-rounding", fmt.Sprintf("f(%ds)+f(%ds) exceeds f(%ds) by %s", t1, t2, t1+t2, excess.FloatString(18)), wit)
		return
	}
	gran := c18Granularity(P, ln1p, t1, t2, tol)
	wit["binary64_granularity_bound"] = gran.FloatString(18)
	cls := "float64-granularity"
	if excess.Cmp(gran) > 0 {
		cls = "beyond-float64-granularity"
	}
	if excess.Cmp(big.NewRat(1, 1)) >= 0 {
		e.rec.Count(p.name+"/sub_additive_excess_at_least_one_whole_unit", 1)
	}
	e.rec.Violate("C18/"+p.name+"/sub-additive/"+cls, fmt.Sprintf("f(%ds)+f(%ds) exceeds f(%ds) by %s (allowed: %s)", t1, t2, t1+t2, excess.FloatString(18), tol.FloatString(24)), wit)
}

// c18FloatTol: 1.5e-18 (three 18-decimal formattings) + 4 ulp of the merged binary64 result.
func c18FloatTol(f12 *big.Rat) *big.Rat {
	tol := new(big.Rat).Mul(big.NewRat(3, 2), mon.C18Ulps(1))
	u := new(big.Rat).Mul(c18Pos(f12), new(big.Rat).SetFrac(big.NewInt(4), new(big.Int).Lsh(big.NewInt(1), 52)))
	return tol.Add(tol, u)
}

// c18Granularity bounds what evaluating P*(pow(1+r,y)-1) in binary64 can be off by in ABSOLUTE terms, summed over
// the three evaluations: each carries at most P*A_i*2^-52*(8 + 2*w_i + y_i), A_i=(1+r)^y_i: pow is good to a few
// ulp of its value A_i (library error, repeated squaring for the integer part of y), the rounding of y and of 1+r
// to binary64 shifts it by (w_i + y_i) half-ulps (w = y*ln(1+r)), the product with P adds one more; the
// subtraction pow-1 is exact but does not reduce this absolute error.
func c18Granularity(P *big.Int, ln1p *big.Float, t1, t2 int64, tol *big.Rat) *big.Rat {
	gran := new(big.Rat)
	lf, _ := ln1p.Float64()
	PR := new(big.Rat).SetInt(P)
	for _, t := range []int64{t1, t2, t1 + t2} {
		gr, _ := mon.C18Growth(ln1p, t, c18Year).Rat(nil)
		y := float64(t) / c18Year
		x := new(big.Rat).Mul(PR, gr)
		x.Mul(x, new(big.Rat).SetFloat64(8+2*y*lf*1.01+y))
		x.Mul(x, new(big.Rat).SetFrac(big.NewInt(1), new(big.Int).Lsh(big.NewInt(1), 52)))
		gran.Add(gran, x)
	}
	return gran.Add(gran, tol)
}

// ---------------------------------------------------------------- rate curves

type c18Params struct {
	uopt, base, s1, s2, sbase, ss1, ss2, rf *big.Int // 18-decimal integers
}

func (q c18Params) String() string {
	return fmt.Sprintf("UOptimal=%s Base=%s Slope1=%s Slope2=%s StableBase=%s StableSlope1=%s StableSlope2=%s ReserveFactor=%s",
		c18Dec(q.uopt), c18Dec(q.base), c18Dec(q.s1), c18Dec(q.s2), c18Dec(q.sbase), c18Dec(q.ss1), c18Dec(q.ss2), c18Dec(q.rf))
}

var (
	c18UOpts  = []string{"0.000000000000000001", "0.001", "0.01", "0.1", "0.333333333333333333", "0.5", "0.65", "0.8", "0.9", "0.99", "0.999999999999999999"}
	c18Slopes = []string{"0", "0.000000000000000001", "0.002", "0.04", "0.1", "0.333333333333333333", "0.75", "1", "3", "10"}
	c18Bases  = []string{"0", "0.000000000000000001", "0.002", "0.02", "0.5", "2"}
	c18RFs    = []string{"0", "0.000000000000000001", "0.1", "0.2", "0.5", "0.999999999999999999"}
)

func (e *c18Env) pick(list []string, max *big.Int, min int64) *big.Int {
	if e.rnd.Intn(3) > 0 {
		return new(big.Int).Set(c18DecS(list[e.rnd.Intn(len(list))]).BigInt())
	}
	v := new(big.Int).Rand(e.rnd, max)
	if v.Cmp(big.NewInt(min)) < 0 {
		v.SetInt64(min)
	}
	return v
}

func (e *c18Env) params() c18Params {
	one := c18E18
	return c18Params{
		uopt: e.pick(c18UOpts, one, 1), // (0,1): Rand is < 1e18, minimum one last place
		base: e.pick(c18Bases, new(big.Int).Mul(big.NewInt(2), one), 0), s1: e.pick(c18Slopes, one, 0), s2: e.pick(c18Slopes, c18TenE, 0),
		sbase: e.pick(c18Bases, new(big.Int).Mul(big.NewInt(2), one), 0), ss1: e.pick(c18Slopes, one, 0), ss2: e.pick(c18Slopes, c18TenE, 0),
		rf: e.pick(c18RFs, one, 0), // [0,1)
	}
}

func (e *c18Env) setupLend() {
	ctx := e.ctx
	ak := e.c.App.AssetKeeper
	must(e.t, ak.AddAssetRecords(ctx, assettypes.Asset{Name: "CEIGHTEEN", Denom: "uc18", Decimals: sdk.NewInt(1_000_000), IsOnChain: true}))
	must(e.t, ak.AddAssetRecords(ctx, assettypes.Asset{Name: "CCEIGHTEEN", Denom: "ucc18", Decimals: sdk.NewInt(1_000_000), IsOnChain: true}))
	for _, a := range ak.GetAssets(ctx) {
		if a.Denom == "uc18" {
			e.assetID = a.Id
		}
		if a.Denom == "ucc18" {
			e.cAssetID = a.Id
		}
	}
	if e.assetID == 0 || e.cAssetID == 0 {
		e.t.Fatalf("harness set-up failed: asset uc18 not registered")
	}
	lk := e.c.App.LendKeeper
	lk.SetPool(ctx, lendtypes.Pool{PoolID: 1, ModuleName: "c18pool", CPoolName: "C18",
		AssetData: []*lendtypes.AssetDataPoolMapping{{AssetID: e.assetID, AssetTransitType: 1, SupplyCap: sdk.NewDec(1)}}})
	e.pool = authtypes.NewModuleAddress("c18pool")
	e.funder = e.c.Accts[1].Addr
}

func (e *c18Env) setParams(ctx sdk.Context, q c18Params) {
	z := sdk.ZeroDec()
	e.c.App.LendKeeper.SetAssetRatesParams(ctx, lendtypes.AssetRatesParams{AssetID: e.assetID, UOptimal: c18Dec(q.uopt), Base: c18Dec(q.base),
		Slope1: c18Dec(q.s1), Slope2: c18Dec(q.s2), EnableStableBorrow: true, StableBase: c18Dec(q.sbase), StableSlope1: c18Dec(q.ss1), StableSlope2: c18Dec(q.ss2),
		Ltv: z, LiquidationThreshold: z, LiquidationPenalty: z, LiquidationBonus: z, ReserveFactor: c18Dec(q.rf), CAssetID: e.cAssetID,
		ELtv: z, ELiquidationThreshold: z, ELiquidationPenalty: z})
}

// setUtil makes borrowed = B (split between variable and stable) and pool balance = M.
func (e *c18Env) setUtil(ctx sdk.Context, B, M *big.Int, stable *big.Int) {
	z := sdk.ZeroDec()
	e.c.App.LendKeeper.SetAssetStatsByPoolIDAndAssetID(ctx, lendtypes.PoolAssetLBMapping{PoolID: 1, AssetID: e.assetID,
		TotalBorrowed: sdk.NewIntFromBigInt(new(big.Int).Sub(B, stable)), TotalStableBorrowed: sdk.NewIntFromBigInt(stable),
		TotalLend: sdk.NewIntFromBigInt(new(big.Int).Add(B, M)), TotalInterestAccumulated: sdk.ZeroInt(),
		LendApr: z, BorrowApr: z, StableBorrowApr: z, UtilisationRatio: z})
	bk := e.c.App.BankKeeper
	cur := bk.GetBalance(ctx, e.pool, "uc18").Amount.BigInt()
	switch d := new(big.Int).Sub(M, cur); d.Sign() {
	case 1:
		must(e.t, bk.SendCoins(ctx, e.funder, e.pool, sdk.NewCoins(sdk.NewCoin("uc18", sdk.NewIntFromBigInt(d)))))
	case -1:
		must(e.t, bk.SendCoins(ctx, e.pool, e.funder, sdk.NewCoins(sdk.NewCoin("uc18", sdk.NewIntFromBigInt(d.Neg(d))))))
	}
}

type c18Pt struct {
	B, M *big.Int
	u    *big.Rat
}

type c18Rates struct {
	variable, stable, lend, util sdk.Dec
}

func (e *c18Env) rates(ctx sdk.Context, q c18Params, pt c18Pt) (out c18Rates, ok bool) {
	lk := e.c.App.LendKeeper
	e.rec.Eval(3)
	e.rec.Count("rates/points", 1)
	var err1, err2, err3, err4 error
	func() {
		defer func() {
			if x := recover(); x != nil {
				e.rec.Count("rates/panics", 1)
				e.rec.Count("rates/panic/"+panicClass(x), 1)
				err1 = fmt.Errorf("panic %v", x)
			}
		}()
		out.util, err4 = lk.GetUtilisationRatioByPoolIDAndAssetID(ctx, 1, e.assetID)
		out.variable, err1 = lk.GetBorrowAPRByAssetID(ctx, 1, e.assetID, false)
		out.stable, err2 = lk.GetBorrowAPRByAssetID(ctx, 1, e.assetID, true)
		out.lend, err3 = lk.GetLendAPRByAssetIDAndPoolID(ctx, 1, e.assetID)
	}()
	if err1 != nil || err2 != nil || err3 != nil || err4 != nil {
		e.rec.Count("rates/rejected", 1)
		return out, false
	}
	return out, true
}

func (e *c18Env) rateWit(q c18Params, pt c18Pt, r c18Rates, kv ...interface{}) map[string]interface{} {
	m := map[string]interface{}{"params": q.String(), "total_borrowed_plus_stable": pt.B.String(), "pool_module_balance": pt.M.String(),
		"utilisation": r.util.String(), "variable_borrow_apr": r.variable.String(), "stable_borrow_apr": r.stable.String(), "lend_apr": r.lend.String()}
	for i := 0; i+1 < len(kv); i += 2 {
		m[fmt.Sprint(kv[i])] = fmt.Sprint(kv[i+1])
	}
	return m
}

// curve walks one parameter set along increasing utilisation.
func (e *c18Env) curve(q c18Params, nRandom int) {
	rnd := e.rnd
	ctx, _ := e.ctx.CacheContext()
	ctx = ctx.WithEventManager(sdk.NewEventManager())
	e.setParams(ctx, q)
	N := c18E18
	mk := func(B, M *big.Int) c18Pt {
		u := new(big.Rat)
		if s := new(big.Int).Add(B, M); s.Sign() > 0 {
			u.SetFrac(B, s)
		}
		return c18Pt{B: B, M: M, u: u}
	}
	onGrid := func(k *big.Int) c18Pt { return mk(new(big.Int).Set(k), new(big.Int).Sub(N, k)) }
	var pts []c18Pt
	pts = append(pts, mk(big.NewInt(0), big.NewInt(0)), mk(big.NewInt(0), big.NewInt(1)), mk(big.NewInt(0), new(big.Int).Set(N)))
	kink := q.uopt
	for _, d := range []int64{-2, -1, 0, 1, 2} {
		k := new(big.Int).Add(kink, big.NewInt(d))
		if k.Sign() >= 0 && k.Cmp(N) <= 0 {
			pts = append(pts, onGrid(k))
		}
	}
	for _, k := range []*big.Int{big.NewInt(1), big.NewInt(2), new(big.Int).Sub(N, big.NewInt(1)), N} {
		pts = append(pts, onGrid(k))
	}
	for i := 0; i < nRandom; i++ {
		switch rnd.Intn(4) {
		case 0: // anywhere on the 1e-18 grid
			pts = append(pts, onGrid(new(big.Int).Rand(rnd, new(big.Int).Add(N, big.NewInt(1)))))
		case 1: // near the kink
			k := new(big.Int).Add(kink, big.NewInt(rnd.Int63n(2001)-1000))
			if k.Sign() >= 0 && k.Cmp(N) <= 0 {
				pts = append(pts, onGrid(k))
			}
		case 2: // small numbers (coarse fractions, rounded quotients)
			pts = append(pts, mk(big.NewInt(rnd.Int63n(1000)), big.NewInt(rnd.Int63n(1000))))
		default: // large unrelated amounts
			pts = append(pts, mk(big.NewInt(rnd.Int63n(4_000_000_000_000_000_000)), big.NewInt(rnd.Int63n(3_000_000_000_000_000_000))))
		}
	}
	sort.SliceStable(pts, func(i, j int) bool { return pts[i].u.Cmp(pts[j].u) < 0 })

	e.rec.Count("rates/param_sets", 1)
	e.rec.Distinct("rates", c18RateClass(q.uopt), q.base.Sign(), q.s1.Sign(), q.s2.Sign(), q.s1.Cmp(q.s2), q.rf.Sign(), q.ss1.Cmp(q.ss2))
	var prev *c18Rates
	var prevPt c18Pt
	at := map[int64]c18Rates{} // offset from the kink on the 1e-18 grid -> rates
	for _, pt := range pts {
		stable := new(big.Int)
		if pt.B.Sign() > 0 {
			stable.Rand(rnd, new(big.Int).Add(pt.B, big.NewInt(1)))
		}
		e.setUtil(ctx, pt.B, pt.M, stable)
		r, ok := e.rates(ctx, q, pt)
		if !ok {
			prev = nil
			continue
		}
		// The laws are keyed on the utilisation the REAL function reports; the driver's intended value is only
		// compared for the evidence (a floor on this counter keeps the run from being vacuous if the driver is off).
		wantU := new(big.Rat).Mul(pt.u, new(big.Rat).SetInt(c18E18))
		if d := new(big.Rat).Sub(wantU, new(big.Rat).SetInt(r.util.BigInt())); d.Abs(d).Cmp(big.NewRat(1, 1)) <= 0 {
			e.rec.Count("rates/utilisation_as_driven", 1)
		} else {
			// "pool utilisation" is debt / (cash + debt) with debt = variable + stable principal: the driver set exactly
			// these three numbers, so the utilisation the chain derives its rates from must be that quotient (one unit
			// of the 18th decimal for the truncated division)
			e.rec.Count("rates/utilisation_differs_from_driver", 1)
			e.rec.Violate("C18/utilisation/not-debt-over-cash-plus-debt", fmt.Sprintf("debt %s (of which stable %s), cash %s: utilisation %s reported, %s expected", pt.B, stable, pt.M, r.util, new(big.Rat).Quo(wantU, new(big.Rat).SetInt(c18E18)).FloatString(18)), e.rateWit(q, pt, r))
		}
		if r.util.IsNegative() || r.util.GT(sdk.OneDec()) {
			// the pool's true utilisation is inside [0,1] (the driver's numbers are non-negative): the rate laws below
			// still apply to what the chain publishes for this pool state
			e.rec.Count("rates/utilisation_outside_unit_interval", 1)
		}
		// base rate at zero utilisation
		if r.util.IsZero() {
			e.rec.Count("rates/law_base_at_zero", 1)
			if !r.variable.Equal(c18Dec(q.base)) {
				e.rec.Violate("C18/BorrowAPR/variable/not-base-at-zero-utilisation", fmt.Sprintf("variable rate %s at U=0, base %s", r.variable, c18Dec(q.base)), e.rateWit(q, pt, r))
			}
			if !r.stable.Equal(c18Dec(q.sbase)) {
				e.rec.Violate("C18/BorrowAPR/stable/not-base-at-zero-utilisation", fmt.Sprintf("stable rate %s at U=0, stable base %s", r.stable, c18Dec(q.sbase)), e.rateWit(q, pt, r))
			}
		}
		// lend rate never above the (variable) borrow rate it is derived from
		e.rec.Count("rates/law_lend_le_borrow", 1)
		if r.lend.GT(r.variable) {
			e.rec.Violate("C18/LendAPR/exceeds-borrow-rate", fmt.Sprintf("lend rate %s > borrow rate %s", r.lend, r.variable), e.rateWit(q, pt, r))
		}
		// non-decreasing in utilisation
		if prev != nil && prev.util.LTE(r.util) {
			e.rec.Count("rates/law_monotone", 1)
			if prev.util.LT(r.util) {
				e.rec.Count("rates/law_monotone_strictly_larger_U", 1)
			}
			if r.variable.LT(prev.variable) {
				e.rec.Violate("C18/BorrowAPR/variable/decreasing-in-utilisation", fmt.Sprintf("U %s -> %s but rate %s -> %s", prev.util, r.util, prev.variable, r.variable),
					e.rateWit(q, pt, r, "previous_borrowed", prevPt.B, "previous_pool_balance", prevPt.M, "previous_rate", prev.variable))
			}
			if r.stable.LT(prev.stable) {
				e.rec.Violate("C18/BorrowAPR/stable/decreasing-in-utilisation", fmt.Sprintf("U %s -> %s but rate %s -> %s", prev.util, r.util, prev.stable, r.stable),
					e.rateWit(q, pt, r, "previous_borrowed", prevPt.B, "previous_pool_balance", prevPt.M, "previous_rate", prev.stable))
			}
		}
		rr := r
		prev, prevPt = &rr, pt
		if d := new(big.Int).Sub(r.util.BigInt(), kink); d.IsInt64() && d.Int64() >= -1 && d.Int64() <= 1 {
			at[d.Int64()] = r
		}
	}
	// continuity at the kink: one grid step eps=1e-18 to either side moves the rate by at most
	// slope*eps/width (the curve's own steepness) plus the roundings of the two Dec operations on that side:
	//   left : base + round(round((Uopt-eps)/Uopt)*s1)     -> s1*eps/Uopt     + (0.5*s1+0.5)e-18
	//   right: base + s1 + round(round(eps/(1-Uopt))*s2)   -> s2*eps/(1-Uopt) + (0.5*s2+0.5)e-18
	// and at the kink itself the value is base+s1 exactly. A jump (swapped slopes, dropped term) is far larger.
	k0, has0 := at[0]
	if !has0 {
		return
	}
	one := big.NewRat(1, 1)
	uo := mon.C18DecRat(kink)
	side := func(name string, got, mid sdk.Dec, slope *big.Int, width *big.Rat, label string) {
		e.rec.Count("rates/law_kink_continuity", 1)
		s := mon.C18DecRat(slope)
		tol := new(big.Rat).Quo(s, width)
		tol.Add(tol, new(big.Rat).Mul(s, big.NewRat(1, 2)))
		tol.Add(tol, big.NewRat(1, 2))
		tol.Mul(tol, mon.C18Ulps(1))
		d := new(big.Rat).Sub(c18Rat(got), c18Rat(mid))
		d.Abs(d)
		if d.Cmp(tol) > 0 {
			e.rec.Violate("C18/BorrowAPR/"+label+"/discontinuous-at-kink", fmt.Sprintf("rate at UOptimal %s, one step (1e-18) %s it %s: jump %s > %s", mid, name, got, d.FloatString(18), tol.FloatString(24)),
				map[string]interface{}{"params": q.String(), "side": name, "rate_at_kink": mid.String(), "rate_one_step_away": got.String(),
					"how": "pool balance M and borrowed B with B+M=1e18, B = UOptimal*1e18 + {-1,0,+1}"})
		}
	}
	if l, ok := at[-1]; ok {
		side("below", l.variable, k0.variable, q.s1, uo, "variable")
		side("below", l.stable, k0.stable, q.ss1, uo, "stable")
	}
	if r, ok := at[1]; ok {
		w := new(big.Rat).Sub(one, uo)
		side("above", r.variable, k0.variable, q.s2, w, "variable")
		side("above", r.stable, k0.stable, q.ss2, w, "stable")
	}
}

// ---------------------------------------------------------------- in situ (position records)

// vaultTwin: two identical vaults; A gets interest calculated after t1 and again after t1+t2 (on the same
// principal), B once after t1+t2. Observed: Vault.InterestAccumulated (whole units) + VaultInterestTracker
// (carried fraction), exactly as stored.
func (e *c18Env) vaultTwin(P *big.Int, rI *big.Int, t1, t2 int64, p *c18Path) {
	ctx, _ := e.ctx.CacheContext()
	rk, ak, vk := e.c.App.Rewardskeeper, e.c.App.AssetKeeper, e.c.App.VaultKeeper
	const app, ext = 7, 1
	r := c18Dec(rI)
	t0 := time.Unix(c18T0, 0).UTC()
	rk.SetAppByAppID(ctx, app)
	z := sdk.ZeroDec()
	ak.SetPairsVault(ctx, assettypes.ExtendedPairVault{Id: ext, AppId: app, PairId: 1, StabilityFee: r, ClosingFee: z, LiquidationPenalty: z, DrawDownFee: z,
		IsVaultActive: true, DebtCeiling: sdk.ZeroInt(), DebtFloor: sdk.ZeroInt(), MinCr: z, PairName: "C18", BlockHeight: 1, BlockTime: t0})
	for id := uint64(1); id <= 2; id++ {
		vk.SetVault(ctx, vaulttypes.Vault{Id: id, AppId: app, ExtendedPairVaultID: ext, Owner: e.funder.String(), AmountIn: sdk.NewInt(1), AmountOut: sdk.NewIntFromBigInt(P),
			CreatedAt: t0, InterestAccumulated: sdk.ZeroInt(), ClosingFeeAccumulated: sdk.ZeroInt(), BlockHeight: 1, BlockTime: t0})
	}
	total := func(id uint64) (*big.Rat, string) {
		v, _ := vk.GetVault(ctx, id)
		tr, found := rk.GetVaultInterestTracker(ctx, id, app)
		x := new(big.Rat).SetInt(v.InterestAccumulated.BigInt())
		fr := sdk.ZeroDec()
		if found {
			fr = tr.InterestAccumulated
		}
		x.Add(x, c18Rat(fr))
		return x, fmt.Sprintf("%s+%s", v.InterestAccumulated, fr)
	}
	calc := func(id uint64, t int64) bool {
		v, _ := vk.GetVault(ctx, id)
		e.rec.Eval(1)
		e.rec.Count("insitu_vault/calls", 1)
		var err error
		func() {
			defer func() {
				if x := recover(); x != nil {
					e.rec.Count("insitu_vault/panics", 1)
					err = fmt.Errorf("panic %v", x)
				}
			}()
			// same principal for every interval ("on the same principal"), elapsed time from the stored record
			err = rk.CalculateVaultInterest(ctx.WithBlockTime(time.Unix(c18T0+t, 0).UTC()), app, ext, id, sdk.NewIntFromBigInt(P), v.BlockHeight, v.BlockTime.Unix())
		}()
		if err != nil {
			e.rec.Count("insitu_vault/rejected", 1)
		}
		return err == nil
	}
	if !calc(1, t1) {
		return
	}
	a1, s1 := total(1)
	// zero elapsed time: calculating again in the same second must not change the position
	if calc(1, t1) {
		e.rec.Count("insitu_vault/law_zero_time", 1)
		if a1b, s1b := total(1); a1b.Cmp(a1) != 0 {
			e.rec.Violate("C18/insitu/CalculateVaultInterest/nonzero-at-zero-time", fmt.Sprintf("interest %s -> %s over 0 seconds", s1, s1b), c18Wit(p, P, r, sdk.Dec{}, "seconds_1", t1))
		}
	}
	if !calc(1, t1+t2) || !calc(2, t1+t2) {
		return
	}
	a, sa := total(1)
	m, sm := total(2)
	e.rec.Count("insitu_vault/twins", 1)
	e.rec.Count("insitu_vault/law_nonneg", 1)
	if a.Sign() < 0 || m.Sign() < 0 || a1.Sign() < 0 {
		e.rec.Violate("C18/insitu/CalculateVaultInterest/negative", fmt.Sprintf("stored interest negative: %s / %s / %s", s1, sa, sm), c18Wit(p, P, r, sdk.Dec{}, "seconds_1", t1, "seconds_2", t2))
	}
	e.rec.Count("insitu_vault/law_mono_time", 1)
	if a.Cmp(a1) < 0 {
		e.rec.Violate("C18/insitu/CalculateVaultInterest/decreasing-in-time", fmt.Sprintf("stored interest went %s -> %s", s1, sa), c18Wit(p, P, r, sdk.Dec{}, "seconds_1", t1, "seconds_2", t2))
	}
	// split vs merged: a = f(t1)+f(t2), m = f(t1+t2) (exact additions of the function's outputs)
	ln1p := mon.C18Ln1p(c18Rat(r))
	e.rec.Count("insitu_vault/law_sub_additive", 1)
	excess := new(big.Rat).Sub(a, m)
	tol := c18FloatTol(m)
	if excess.Cmp(tol) > 0 {
		gran := c18Granularity(P, ln1p, t1, t2, tol)
		cls := "float64-granularity"
		if excess.Cmp(gran) > 0 {
			cls = "beyond-float64-granularity"
		}
		va, _ := vk.GetVault(ctx, 1)
		vm, _ := vk.GetVault(ctx, 2)
		if va.InterestAccumulated.GT(vm.InterestAccumulated) {
			e.rec.Count("insitu_vault/split_owes_more_whole_units", 1)
		}
		e.rec.Violate("C18/insitu/CalculateVaultInterest/sub-additive/"+cls, fmt.Sprintf("vault with interest calculated after %ds and %ds owes %s, twin calculated once owes %s (excess %s, allowed %s)", t1, t1+t2, sa, sm, excess.FloatString(18), tol.FloatString(24)),
			c18Wit(p, P, r, sdk.Dec{}, "seconds_1", t1, "seconds_2", t2, "split_units+fraction", sa, "merged_units+fraction", sm, "binary64_granularity_bound", gran.FloatString(18)))
	}
}

// borrowTwin: twin borrow positions through MsgCalculateBorrowInterest (IterateBorrow + index / time update),
// split vs merged. The pool's rates are the live ones from the rate model.
func (e *c18Env) borrowTwin(q c18Params, B, M *big.Int, P *big.Int, t1, t2 int64, stable bool, G, RG, stableRate sdk.Dec) {
	ctx, _ := e.ctx.CacheContext()
	ctx = ctx.WithEventManager(sdk.NewEventManager())
	lk := e.c.App.LendKeeper
	e.setParams(ctx, q)
	e.setUtil(ctx, B, M, new(big.Int).Quo(B, big.NewInt(3)))
	t0 := time.Unix(c18T0, 0).UTC()
	owner := e.funder.String()
	lk.SetLendPair(ctx, lendtypes.Extended_Pair{Id: 1, AssetIn: e.assetID, AssetOut: e.assetID, AssetOutPoolID: 1})
	lk.SetLend(ctx, lendtypes.LendAsset{ID: 1, AssetID: e.assetID, PoolID: 1, Owner: owner, AmountIn: sdk.NewCoin("uc18", sdk.NewInt(1)), LendingTime: t0,
		AvailableToBorrow: sdk.ZeroInt(), AppID: 3, GlobalIndex: sdk.OneDec(), LastInteractionTime: t0, CPoolName: "C18", TotalRewards: sdk.ZeroInt()})
	for id := uint64(1); id <= 2; id++ {
		lk.SetBorrow(ctx, lendtypes.BorrowAsset{ID: id, LendingID: 1, IsStableBorrow: stable, PairID: 1, AmountIn: sdk.NewCoin("ucc18", sdk.NewInt(1)),
			AmountOut: sdk.NewCoin("uc18", sdk.NewIntFromBigInt(P)), BridgedAssetAmount: sdk.NewCoin("uc18", sdk.ZeroInt()), BorrowingTime: t0,
			StableBorrowRate: stableRate, InterestAccumulated: sdk.ZeroDec(), GlobalIndex: G, ReserveGlobalIndex: RG, LastInteractionTime: t0, CPoolName: "C18"})
	}
	name := "variable"
	if stable {
		name = "stable"
	}
	calc := func(id uint64, t int64) bool {
		e.rec.Eval(1)
		e.rec.Count("insitu_borrow/calls", 1)
		var err error
		func() {
			defer func() {
				if x := recover(); x != nil {
					e.rec.Count("insitu_borrow/panics", 1)
					err = fmt.Errorf("panic %v", x)
				}
			}()
			err = lk.MsgCalculateBorrowInterest(ctx.WithBlockTime(time.Unix(c18T0+t, 0).UTC()).WithEventManager(sdk.NewEventManager()), owner, id)
		}()
		if err != nil {
			e.rec.Count("insitu_borrow/rejected", 1)
		}
		return err == nil
	}
	wit := func(kv ...interface{}) map[string]interface{} {
		m := map[string]interface{}{"params": q.String(), "total_borrowed_plus_stable": B.String(), "pool_module_balance": M.String(), "amount_out": P.String(),
			"is_stable_borrow": stable, "stable_borrow_rate": stableRate.String(), "global_index": G.String(), "reserve_global_index": RG.String(), "seconds_1": t1, "seconds_2": t2}
		for i := 0; i+1 < len(kv); i += 2 {
			m[fmt.Sprint(kv[i])] = fmt.Sprint(kv[i+1])
		}
		return m
	}
	if !calc(1, t1) {
		return
	}
	b1, _ := lk.GetBorrow(ctx, 1)
	if calc(1, t1) {
		e.rec.Count("insitu_borrow/law_zero_time", 1)
		if b1b, _ := lk.GetBorrow(ctx, 1); !b1b.InterestAccumulated.Equal(b1.InterestAccumulated) {
			e.rec.Violate("C18/insitu/MsgCalculateBorrowInterest/"+name+"/nonzero-at-zero-time", fmt.Sprintf("interest %s -> %s over 0 seconds", b1.InterestAccumulated, b1b.InterestAccumulated), wit())
		}
	}
	G1 := b1.GlobalIndex
	if !calc(1, t1+t2) || !calc(2, t1+t2) {
		return
	}
	a, _ := lk.GetBorrow(ctx, 1)
	m, _ := lk.GetBorrow(ctx, 2)
	e.rec.Count("insitu_borrow/twins", 1)
	e.rec.Count("insitu_borrow/law_nonneg", 1)
	if a.InterestAccumulated.IsNegative() || m.InterestAccumulated.IsNegative() || b1.InterestAccumulated.IsNegative() {
		e.rec.Violate("C18/insitu/MsgCalculateBorrowInterest/"+name+"/negative", "stored interest negative", wit("split", a.InterestAccumulated, "merged", m.InterestAccumulated))
	}
	e.rec.Count("insitu_borrow/law_mono_time", 1)
	if a.InterestAccumulated.LT(b1.InterestAccumulated) {
		e.rec.Violate("C18/insitu/MsgCalculateBorrowInterest/"+name+"/decreasing-in-time", fmt.Sprintf("%s -> %s", b1.InterestAccumulated, a.InterestAccumulated), wit())
	}
	e.rec.Count("insitu_borrow/law_sub_additive", 1)
	var tol *big.Rat
	if stable {
		tol = new(big.Rat).Mul(big.NewRat(3, 2), mon.C18Ulps(1))
	} else { // see subAdditive: P*(3 + 1/G + 0.5/G1)e-18
		k := big.NewRat(3, 1)
		k.Add(k, new(big.Rat).Inv(c18Rat(G)))
		k.Add(k, new(big.Rat).Quo(big.NewRat(1, 2), c18Rat(G1)))
		tol = k.Mul(k, new(big.Rat).SetInt(P))
		tol.Mul(tol, mon.C18Ulps(1))
	}
	excess := new(big.Rat).Sub(c18Rat(a.InterestAccumulated), c18Rat(m.InterestAccumulated))
	if excess.Cmp(tol) > 0 {
		e.rec.Violate("C18/insitu/MsgCalculateBorrowInterest/"+name+"/sub-additive/beyond-rounding", fmt.Sprintf("position with interest calculated twice owes %s, twin calculated once owes %s", a.InterestAccumulated, m.InterestAccumulated),
			wit("split", a.InterestAccumulated, "merged", m.InterestAccumulated, "excess", excess.FloatString(18), "tolerance", tol.FloatString(24)))
	}
}


// lendTwin: twin lend positions through MsgCalculateLendRewards (IterateLends: whole units paid out as cTokens,
// fraction carried in LendRewardsTracker), split vs merged. Pool 2 uses a registered pool module account.
func (e *c18Env) lendTwin(q c18Params, B, M *big.Int, P *big.Int, t1, t2 int64, G sdk.Dec) {
	ctx, _ := e.ctx.CacheContext()
	ctx = ctx.WithEventManager(sdk.NewEventManager())
	lk, bk := e.c.App.LendKeeper, e.c.App.BankKeeper
	e.setParams(ctx, q)
	const poolMod = lendtypes.ModuleAcc1
	e.c.App.AccountKeeper.GetModuleAccount(ctx, poolMod) // creates the module account if it is not there yet
	lk.SetPool(ctx, lendtypes.Pool{PoolID: 2, ModuleName: poolMod, CPoolName: "C18B",
		AssetData: []*lendtypes.AssetDataPoolMapping{{AssetID: e.assetID, AssetTransitType: 1, SupplyCap: sdk.NewDec(1)}}})
	z := sdk.ZeroDec()
	st := new(big.Int).Quo(B, big.NewInt(3))
	lk.SetAssetStatsByPoolIDAndAssetID(ctx, lendtypes.PoolAssetLBMapping{PoolID: 2, AssetID: e.assetID,
		TotalBorrowed: sdk.NewIntFromBigInt(new(big.Int).Sub(B, st)), TotalStableBorrowed: sdk.NewIntFromBigInt(st),
		TotalLend: sdk.NewIntFromBigInt(new(big.Int).Add(B, M)), TotalInterestAccumulated: sdk.NewIntFromUint64(1 << 62),
		LendApr: z, BorrowApr: z, StableBorrowApr: z, UtilisationRatio: z})
	coins := sdk.NewCoins(sdk.NewCoin("ucc18", sdk.NewIntFromUint64(6_000_000_000_000_000_000)))
	if M.Sign() > 0 {
		coins = coins.Add(sdk.NewCoin("uc18", sdk.NewIntFromBigInt(M)))
	}
	must(e.t, bk.SendCoins(ctx, e.funder, authtypes.NewModuleAddress(poolMod), coins))
	t0 := time.Unix(c18T0, 0).UTC()
	owner := e.c.Accts[2].Addr.String()
	for id := uint64(1); id <= 2; id++ {
		lk.SetLend(ctx, lendtypes.LendAsset{ID: id, AssetID: e.assetID, PoolID: 2, Owner: owner, AmountIn: sdk.NewCoin("uc18", sdk.NewIntFromBigInt(P)), LendingTime: t0,
			AvailableToBorrow: sdk.NewIntFromBigInt(P), AppID: 3, GlobalIndex: G, LastInteractionTime: t0, CPoolName: "C18B", TotalRewards: sdk.ZeroInt()})
	}
	calc := func(id uint64, t int64) bool {
		e.rec.Eval(1)
		e.rec.Count("insitu_lend/calls", 1)
		var err error
		func() {
			defer func() {
				if x := recover(); x != nil {
					e.rec.Count("insitu_lend/panics", 1)
					e.rec.Count("insitu_lend/panic/"+panicClass(x), 1)
					err = fmt.Errorf("panic %v", x)
				}
			}()
			err = lk.MsgCalculateLendRewards(ctx.WithBlockTime(time.Unix(c18T0+t, 0).UTC()).WithEventManager(sdk.NewEventManager()), owner, id)
		}()
		if err != nil {
			e.rec.Count("insitu_lend/rejected", 1)
		}
		return err == nil
	}
	total := func(id uint64) (*big.Rat, string, sdk.Dec) {
		l, _ := lk.GetLend(ctx, id)
		tr, found := lk.GetLendRewardTracker(ctx, id)
		fr := sdk.ZeroDec()
		if found {
			fr = tr.RewardsAccumulated
		}
		x := new(big.Rat).SetInt(l.TotalRewards.BigInt())
		x.Add(x, c18Rat(fr))
		return x, fmt.Sprintf("%s+%s", l.TotalRewards, fr), l.GlobalIndex
	}
	wit := func(kv ...interface{}) map[string]interface{} {
		m := map[string]interface{}{"params": q.String(), "total_borrowed_plus_stable": B.String(), "pool_module_balance": M.String(), "amount_in": P.String(),
			"global_index": G.String(), "seconds_1": t1, "seconds_2": t2}
		for i := 0; i+1 < len(kv); i += 2 {
			m[fmt.Sprint(kv[i])] = fmt.Sprint(kv[i+1])
		}
		return m
	}
	// a decoy market under the swapped ids (pool = the position's asset id, asset = the position's pool id) with a high
	// rate: the position must accrue at its OWN market's lend rate, whatever other markets exist
	if e.assetID != 2 {
		if _, found := lk.GetPool(ctx, e.assetID); !found {
			lk.SetPool(ctx, lendtypes.Pool{PoolID: e.assetID, ModuleName: poolMod, CPoolName: "C18D", AssetData: []*lendtypes.AssetDataPoolMapping{{AssetID: 2, AssetTransitType: 1, SupplyCap: sdk.NewDec(1)}}})
		}
		lk.SetAssetRatesParams(ctx, lendtypes.AssetRatesParams{AssetID: 2, UOptimal: c18Dec(q.uopt), Base: sdk.NewDecWithPrec(9, 1), Slope1: sdk.OneDec(), Slope2: sdk.OneDec(), EnableStableBorrow: false,
			StableBase: z, StableSlope1: z, StableSlope2: z, Ltv: z, LiquidationThreshold: z, LiquidationPenalty: z, LiquidationBonus: z, ReserveFactor: z, CAssetID: e.cAssetID, ELtv: z, ELiquidationThreshold: z, ELiquidationPenalty: z})
		lk.SetAssetStatsByPoolIDAndAssetID(ctx, lendtypes.PoolAssetLBMapping{PoolID: e.assetID, AssetID: 2, TotalBorrowed: sdk.NewInt(900_000_000), TotalStableBorrowed: sdk.ZeroInt(), TotalLend: sdk.NewInt(1_000_000_000),
			TotalInterestAccumulated: sdk.NewIntFromUint64(1 << 62), LendApr: z, BorrowApr: z, StableBorrowApr: z, UtilisationRatio: z})
		e.rec.Count("insitu_lend/decoy_markets_set_up", 1)
	}
	ownRate, rateErr := lk.GetLendAPRByAssetIDAndPoolID(ctx, 2, e.assetID)
	if !calc(1, t1) {
		return
	}
	a1, s1, G1 := total(1)
	if rateErr == nil && !ownRate.IsNegative() {
		// upper bound at the position's own lend rate: max(simple, compound) accrual of P over t1, one part in 10^6 and
		// two units of slack
		cmp, _ := mon.C18Compound(P, mon.C18Ln1p(c18Rat(ownRate)), t1, c18Year)
		lin := new(big.Rat).Mul(new(big.Rat).SetInt(P), c18Rat(ownRate))
		lin.Mul(lin, big.NewRat(t1, c18Year))
		bound := cmp
		if lin.Cmp(bound) > 0 {
			bound = lin
		}
		bound = new(big.Rat).Mul(bound, big.NewRat(1_000_001, 1_000_000))
		bound.Add(bound, big.NewRat(2, 1))
		e.rec.Count("insitu_lend/law_own_market_rate_bound", 1)
		if a1.Cmp(bound) > 0 {
			e.rec.Violate("C18/insitu/MsgCalculateLendRewards/more-than-the-own-markets-lend-rate-accrues", fmt.Sprintf("rewards %s over %d s, the position's own market (lend APR %s) accrues at most %s", s1, t1, ownRate, bound.FloatString(6)), wit("own_lend_apr", ownRate))
		}
	}
	if calc(1, t1) {
		e.rec.Count("insitu_lend/law_zero_time", 1)
		if a1b, s1b, _ := total(1); a1b.Cmp(a1) != 0 {
			e.rec.Violate("C18/insitu/MsgCalculateLendRewards/nonzero-at-zero-time", fmt.Sprintf("rewards %s -> %s over 0 seconds", s1, s1b), wit())
		}
	}
	if !calc(1, t1+t2) || !calc(2, t1+t2) {
		return
	}
	a, sa, _ := total(1)
	m, sm, _ := total(2)
	e.rec.Count("insitu_lend/twins", 1)
	e.rec.Count("insitu_lend/law_nonneg", 1)
	if a.Sign() < 0 || m.Sign() < 0 || a1.Sign() < 0 {
		e.rec.Violate("C18/insitu/MsgCalculateLendRewards/negative", "stored rewards negative", wit("after_first", s1, "split", sa, "merged", sm))
	}
	e.rec.Count("insitu_lend/law_mono_time", 1)
	if a.Cmp(a1) < 0 {
		e.rec.Violate("C18/insitu/MsgCalculateLendRewards/decreasing-in-time", fmt.Sprintf("%s -> %s", s1, sa), wit())
	}
	if a.Sign() > 0 && new(big.Rat).SetInt64(1).Cmp(a) <= 0 {
		e.rec.Count("insitu_lend/twins_with_whole_units_paid", 1)
	}
	e.rec.Count("insitu_lend/law_sub_additive", 1)
	k := big.NewRat(3, 1) // see subAdditive: P*(3 + 1/G + 0.5/G1)e-18
	k.Add(k, new(big.Rat).Inv(c18Rat(G)))
	k.Add(k, new(big.Rat).Quo(big.NewRat(1, 2), c18Rat(G1)))
	tol := k.Mul(k, new(big.Rat).SetInt(P))
	tol.Mul(tol, mon.C18Ulps(1))
	if excess := new(big.Rat).Sub(a, m); excess.Cmp(tol) > 0 {
		e.rec.Violate("C18/insitu/MsgCalculateLendRewards/sub-additive/beyond-rounding", fmt.Sprintf("position with rewards calculated twice got %s, twin calculated once got %s", sa, sm),
			wit("split_units+fraction", sa, "merged_units+fraction", sm, "excess", excess.FloatString(18), "tolerance", tol.FloatString(24)))
	}
}

// ---------------------------------------------------------------- test

func TestC18(t *testing.T) {
	rec := ev.New("C18", "exploration", "accrual: around every base point (principal, rate, elapsed seconds[, index]) the real function is evaluated on the related inputs of each law "+
		"(t=0; t,t'>t; P,P'>P; r,r'>r; t1,t2 vs t1+t2 with the returned index chained; independent 320-bit reference): first the full grid of named boundary principals x rates x times with adjacent partners, "+
		"then seeded random base points with far partners. rate curves: per admissible parameter set, utilisation walked upwards through U=0, the kink and its two 1e-18 neighbours, U=1, "+
		"coarse fractions and random grid points, driven through pool balance and borrowed totals. in situ: twin vaults / twin borrow positions / twin lend positions, interest calculated split vs merged through CalculateVaultInterest, MsgCalculateBorrowInterest, MsgCalculateLendRewards; locker savings credited by real locker messages in the CDP workload against the 320-bit accrual of the balance held before the message. "+
		"distinct = (function, bit length of principal, decimal magnitude of rate, bit length of seconds, index==1) for accrual, sign/ordering pattern of the parameters for curves")
	defer finish(t, rec)
	c := sim.New(sim.Options{Balances: sdk.NewCoins(sdk.NewCoin("uc18", sdk.NewIntFromUint64(8_000_000_000_000_000_000)), sdk.NewCoin("ucc18", sdk.NewIntFromUint64(8_000_000_000_000_000_000)))})
	defer c.Close()
	e := &c18Env{c: c, rec: rec, ctx: c.Ctx().WithEventManager(sdk.NewEventManager()), rnd: rng("C18"), t: t}
	e.setupLend()
	paths := e.paths()

	// 1. full boundary grid, adjacent partners (t+1, P+1, r+1e-18), split over the shards
	n := 0
	for _, p := range paths {
		for pi, P := range c18FixedP {
			for ri, rs := range c18FixedR {
				for ti, tt := range c18FixedT {
					n++
					if !mine(n) {
						continue
					}
					G := sdk.OneDec()
					if p.indexed {
						G = c18DecS(c18FixedG[(pi+ri+ti)%len(c18FixedG)])
					}
					e.laws(p, P, c18DecS(rs).BigInt(), tt, G, true)
					rec.Count(p.name+"/grid_points", 1)
				}
			}
		}
	}
	// savings on lockers through the real message handlers
	c18Lockers(t, rec)
	// 2. seeded random base points
	nRandom := ev.Pick(60000, 700000)
	for i := 0; i < nRandom; i++ {
		p := paths[0]
		if i%2 == 1 { // half of the budget on the binary64 path, the rest spread over the Dec paths
			p = paths[1+(i/2)%(len(paths)-1)]
		}
		G := sdk.OneDec()
		if p.indexed {
			G = e.index()
		}
		P, rI, tt := e.principal(), e.rateInt(), e.seconds(c18MaxT)
		e.laws(p, P, rI, tt, G, e.rnd.Intn(2) == 0)
		rec.Count(p.name+"/random_points", 1)
		if i < 3 {
			rec.Sample(map[string]interface{}{"kind": "accrual base point", "function": p.name, "principal": P.String(), "rate": c18Dec(rI).String(), "seconds": tt, "index": G.String()})
		}
	}
	// 3. rate curves
	nCurves := ev.Pick(3500, 40000)
	for i := 0; i < nCurves; i++ {
		q := e.params()
		e.curve(q, ev.Pick(24, 40))
		if i == 0 {
			rec.Sample(map[string]interface{}{"kind": "rate curve parameter set", "params": q.String()})
		}
	}
	// 4. in situ twins
	nTwins := ev.Pick(7000, 80000)
	for i := 0; i < nTwins; i++ {
		P, rI := e.principal(), e.rateInt()
		t12 := e.seconds(c18MaxT)
		t1 := e.seconds(t12)
		switch i % 4 {
		case 0, 2:
			e.vaultTwin(P, rI, t1, t12-t1, paths[0])
		case 1:
			q := e.params()
			B := big.NewInt(1 + e.rnd.Int63n(1_000_000_000_000))
			M := big.NewInt(e.rnd.Int63n(1_000_000_000_000))
			e.borrowTwin(q, B, M, P, t1, t12-t1, (i/4)%2 == 0, e.index(), e.index(), c18Dec(rI))
		default:
			q := e.params()
			B := big.NewInt(1 + e.rnd.Int63n(1_000_000_000_000))
			M := big.NewInt(e.rnd.Int63n(1_000_000_000_000))
			PL := new(big.Int).Rand(e.rnd, new(big.Int).Lsh(big.NewInt(1), uint(1+e.rnd.Intn(50)))) // rewards are really paid out: keep them fundable
			e.lendTwin(q, B, M, PL, t1, t12-t1, e.index())
		}
	}

	for _, p := range paths {
		calls := int64(ev.Pick(8000, 400000))
		rec.Floor(p.name+"/law_nonneg", calls)
		for _, l := range []string{"law_zero_time", "law_mono_time", "law_mono_principal", "law_mono_rate", "law_sub_additive", "law_reference"} {
			rec.Floor(p.name+"/"+l, int64(ev.Pick(1500, 60000)))
		}
	}
	rec.Floor("rates/law_monotone", int64(ev.Pick(20000, 1000000)))
	rec.Floor("rates/law_base_at_zero", int64(ev.Pick(2000, 100000)))
	rec.Floor("rates/law_kink_continuity", int64(ev.Pick(2000, 100000)))
	rec.Floor("rates/law_lend_le_borrow", int64(ev.Pick(20000, 1000000)))
	rec.Floor("rates/utilisation_as_driven", int64(ev.Pick(20000, 1000000)))
	rec.Floor("insitu_vault/law_sub_additive", int64(ev.Pick(500, 20000)))
	rec.Floor("insitu_borrow/law_sub_additive", int64(ev.Pick(500, 20000)))
	rec.Floor("insitu_lend/law_sub_additive", int64(ev.Pick(500, 20000)))
	rec.Assume("position set-up (pool, rate parameters, borrowed totals, pool balance, vault / borrow records) is written with the keepers' own setters, as governance / earlier messages would")
	rec.Assume("principals are limited to the int64 range and elapsed times to 30 years, rates to [0,10], as quantified by the property; a rejected input (error or panic) is not a violation")
	rec.Assume("the 320-bit big.Float exp/log reference in mon/c18ref.go is accurate far beyond the 2^-40 it is used at")
	rec.Note("CalculationOfRewards serves both the stability fee on vaults and the locker savings rate (rewards.go:558,563,658; collector.go:724,729; asset/pairs_vault.go:314,319)")
}
