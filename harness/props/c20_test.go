package props

import (
	"bytes"
	"fmt"
	assettypes "github.com/comdex-official/comdex/x/asset/types"
	auctiontypes "github.com/comdex-official/comdex/x/auction/types"
	auctionsV2types "github.com/comdex-official/comdex/x/auctionsV2/types"
	esmtypes "github.com/comdex-official/comdex/x/esm/types"
	"reflect"
	"sort"
	"strings"
	"testing"
	"time"

	abci "github.com/cometbft/cometbft/abci/types"
	sdk "github.com/cosmos/cosmos-sdk/types"
	gogoproto "github.com/cosmos/gogoproto/proto"
	"google.golang.org/protobuf/reflect/protoreflect"

	liqV2types "github.com/comdex-official/comdex/x/liquidationsV2/types"

	"verif/ev"
	"verif/inject"
	"verif/sim"
)

// ---- C20: genesis export / import round trip ----

type c20Query struct {
	Path  string
	Short string // "<module>.<Method>"
	In    reflect.Type
	Out   reflect.Type
}

// c20IsHistory: queries over history / archive records. The statement is about open positions,
// custody records, parameters, prices and id counters; closed auctions, past bids and past
// liquidations need not survive a genesis round trip.
func c20IsHistory(q c20Query) bool {
	n := strings.ToLower(q.Short)
	return strings.Contains(n, "histor") || strings.HasSuffix(n, "auctionsv2.bids") || strings.HasSuffix(n, "auctionsv2.bidsfilter")
}

func c20Decode(tp reflect.Type, bz []byte) string {
	if tp == nil || len(bz) == 0 {
		return ""
	}
	m, ok := reflect.New(tp.Elem()).Interface().(gogoproto.Message)
	if !ok {
		return ""
	}
	if err := gogoproto.Unmarshal(bz, m); err != nil {
		return "undecodable"
	}
	s := fmt.Sprintf("%v", m)
	if len(s) > 400 {
		s = s[:400] + "..."
	}
	return s
}

// c20Queries enumerates every method of every comdex gRPC Query service from the registered file descriptors.
func c20Queries() []c20Query {
	var out []c20Query
	gogoproto.HybridResolver.RangeFiles(func(fd protoreflect.FileDescriptor) bool {
		svcs := fd.Services()
		for i := 0; i < svcs.Len(); i++ {
			s := svcs.Get(i)
			full := string(s.FullName())
			if !strings.HasPrefix(full, "comdex.") || s.Name() != "Query" {
				continue
			}
			ms := s.Methods()
			for j := 0; j < ms.Len(); j++ {
				m := ms.Get(j)
				tp := gogoproto.MessageType(string(m.Input().FullName()))
				if tp == nil {
					continue
				}
				parts := strings.Split(full, ".")
				out = append(out, c20Query{Path: "/" + full + "/" + string(m.Name()), Short: parts[1] + "." + string(m.Name()), In: tp, Out: gogoproto.MessageType(string(m.Output().FullName()))})
			}
		}
		return true
	})
	sort.Slice(out, func(i, j int) bool { return out[i].Path < out[j].Path })
	return out
}

// c20Requests instantiates request messages: every combination of small ids for
// the uint64 fields (bounded) and of known addresses for the string fields.
func c20Requests(q c20Query, addrs []string, maxID uint64, maxReqs int) []gogoproto.Message {
	elem := q.In.Elem()
	var uIdx, sIdx []int
	for i := 0; i < elem.NumField(); i++ {
		f := elem.Field(i)
		if f.PkgPath != "" {
			continue
		}
		switch f.Type.Kind() {
		case reflect.Uint64:
			uIdx = append(uIdx, i)
		case reflect.String:
			sIdx = append(sIdx, i)
		}
	}
	var reqs []gogoproto.Message
	nu := len(uIdx)
	ids := maxID + 1
	if nu >= 3 {
		ids = 4
	}
	if nu >= 4 {
		ids = 3
	}
	total := uint64(1)
	for i := 0; i < nu; i++ {
		total *= ids
	}
	strChoices := [][]string{{}}
	if len(sIdx) > 0 {
		strChoices = nil
		for _, a := range addrs {
			row := make([]string, len(sIdx))
			for k := range row {
				row[k] = a
			}
			strChoices = append(strChoices, row)
		}
	}
	for n := uint64(0); n < total; n++ {
		for _, sc := range strChoices {
			v := reflect.New(elem)
			x := n
			for _, fi := range uIdx {
				v.Elem().Field(fi).SetUint(x % ids)
				x /= ids
			}
			for k, fi := range sIdx {
				v.Elem().Field(fi).SetString(sc[k])
			}
			if m, ok := v.Interface().(gogoproto.Message); ok {
				reqs = append(reqs, m)
			}
			if len(reqs) >= maxReqs {
				return reqs
			}
		}
	}
	return reqs
}

func c20Ask(c *sim.Chain, path string, req gogoproto.Message) (code uint32, val []byte, log string) {
	bz, err := gogoproto.Marshal(req)
	if err != nil {
		return 999, nil, err.Error()
	}
	var res abci.ResponseQuery
	func() {
		defer func() {
			if p := recover(); p != nil {
				res = abci.ResponseQuery{Code: 998, Log: fmt.Sprintf("panic: %v", p)}
			}
		}()
		res = c.App.Query(abci.RequestQuery{Path: path, Data: bz})
	}()
	return res.Code, res.Value, res.Log
}

// c20CompareQueries issues the same queries to both committed states and reports differences per query method.
// c20Where names the universe and the moment of the comparison under way (witness only; one test goroutine per process).
var c20Where string

func c20CompareQueries(rec *ev.Rec, orig, imp *sim.Chain, queries []c20Query, addrs []string) {
	for _, q := range queries {
		if c20IsHistory(q) {
			rec.Count("history_query_methods_skipped", 1)
			continue
		}
		reqs := c20Requests(q, addrs, uint64(ev.Pick(6, 9)), ev.Pick(300, 1500))
		differs := 0
		var first map[string]interface{}
		nonEmpty := 0
		for _, r := range reqs {
			c1, v1, l1 := c20Ask(orig, q.Path, r)
			c2, v2, l2 := c20Ask(imp, q.Path, r)
			rec.Eval(1)
			if c1 == 0 && len(v1) > 0 {
				nonEmpty++
			}
			if c1 != c2 || !bytes.Equal(v1, v2) {
				differs++
				if first == nil {
					first = map[string]interface{}{"query": q.Path, "request": fmt.Sprintf("%+v", r), "original": fmt.Sprintf("code=%d %s %s", c1, c20Decode(q.Out, v1), trunc(l1)), "imported": fmt.Sprintf("code=%d %s %s", c2, c20Decode(q.Out, v2), trunc(l2))}
				}
			}
		}
		rec.Count("queries_compared", int64(len(reqs)))
		if nonEmpty > 0 {
			rec.Count("query_methods_with_data", 1)
			rec.Distinct("C20-q", q.Short, nonEmpty > 0)
		}
		if differs > 0 {
			first["requests_differing"] = differs
			if c20Where != "" {
				first["where"] = c20Where
			}
			rec.Violate("C20/query/"+q.Short, fmt.Sprintf("%d of %d requests answer differently on the re-imported chain", differs, len(reqs)), first)
		}
	}
}

func c20RoundTrip(t *testing.T, rec *ev.Rec, round int, queries []c20Query) {
	variant := ev.ShardNo()*5 + round
	u := newCDP(t, cdpOpts{variant: variant})
	defer u.c.Close()
	c := u.c
	c.App.NewliqKeeper.SetParams(c.Ctx(), liqV2types.Params{LiquidationBatchSize: 200})
	rnd := rng("C20", round)
	// feature subsets, so that a difference in one feature does not hide the continuation comparison of the others
	var cfg cdpCfg
	feature := ""
	switch (ev.ShardNo() + round) % 4 {
	case 0:
		cfg, feature = cdpCfg{maxGap: 3 * time.Hour}, "vaults"
		// no liquidations in this feature set: the app's Dutch auctions are switched off in its liquidation whitelisting
		w, _ := c.App.NewliqKeeper.GetLiquidationWhiteListing(c.Ctx(), appBeacon)
		w.IsDutchActivated, w.IsEnglishActivated = false, false
		c.App.NewliqKeeper.SetLiquidationWhiteListing(c.Ctx(), w)
	case 1:
		cfg, feature = cdpCfg{lockers: true, maxGap: 3 * time.Hour}, "vaults+lockers"
	case 2:
		cfg, feature = cdpCfg{priceMoves: true, bids: true, unsafeBias: true, maxGap: 3 * time.Hour, gen2Only: true}, "vaults+gen2-liquidation+dutch-bids"
	default:
		cfg, feature = cdpCfg{priceMoves: true, bids: true, lockers: true, liquidateMsg: true, limitBids: true, unsafeBias: true, reserve: true, maxGap: 3 * time.Hour}, "everything"
	}
	rec.Count("rounds:"+feature, 1)
	r := newCdpRunner(u, rnd, rec, cfg)
	r.run(ev.Pick(500, 1500))
	if r.panicked {
		rec.Note("state-building workload ended by a block-hook panic; round skipped")
		return
	}
	// in some rounds one app has gone through a complete emergency shutdown before the export (executed status,
	// deposits, price snapshot, redemption records, partly redeemed)
	if variant%3 == 1 {
		r.esmPhase(u.cdpApps[variant%len(u.cdpApps)])
		rec.Count("rounds_with_executed_shutdown", 1)
	}
	// emergency-control records: the admin has used the kill switch (one app switched on and off again, in half of
	// the rounds the other one left on), so the exported state contains kill-switch records
	admin := c.Accts[1]
	c.App.EsmKeeper.SetParams(c.Ctx(), esmtypes.Params{Admin: []string{admin.Addr.String()}})
	for i, app := range u.cdpApps {
		for _, on := range []bool{true, false} {
			if !on && variant%2 == 0 && i == (variant/2)%2 {
				continue // stays on (the app with the lower id in one round, the one with the higher id in the next)
			}
			res := r.tx("kill_switch", admin, &esmtypes.MsgKillRequest{From: admin.Addr.String(), KillSwitchParams: &esmtypes.KillSwitchParams{AppId: app, BreakerEnable: on}}, fmt.Sprintf("app=%d on=%v", app, on))
			if res.OK() {
				rec.Count("kill_switch_records_written_before_export", 1)
			}
		}
	}
	r.block(6 * time.Second)
	// the oracle request state as the original chain has it
	bandOrig := func() string {
		bo, oc := c.App.BandoracleKeeper, c.Ctx()
		return fmt.Sprintf("validation=%v lastBlockHeight=%d lastFetchID=%d twaBatch=%v", bo.GetOracleValidationResult(oc), bo.GetLastBlockHeight(oc), bo.GetLastFetchPriceID(oc), bo.GetFetchPriceMsg(oc).TwaBatchSize)
	}()
	// The exported genesis does not carry that state (finding below), so the imported chain's first block runs with
	// the validation flag off and the market begin blocker deactivates every price. To keep later differences
	// observable the harness gives the original chain the same first block: it switches its own feeder flag off
	// here and re-applies flag and prices on both chains after that block.
	c.App.BandoracleKeeper.SetOracleValidationResult(c.Ctx(), false)
	// commit and export
	c.EndAndCommit()
	exp, err := c.App.ExportAppStateAndValidators(false, nil, nil)
	if err != nil {
		rec.Violate("C20/export/failed", "ExportAppStateAndValidators returned an error on a reachable state: "+err.Error(), map[string]interface{}{"oplog_tail": r.tail(5)})
		return
	}
	rec.Count("exports", 1)
	var imp *sim.Chain
	func() {
		defer func() {
			if p := recover(); p != nil {
				rec.Violate("C20/import/init-chain-panicked/"+panicClass(p), fmt.Sprintf("InitChain with the exported genesis panicked: %v", p), map[string]interface{}{"oplog_tail": r.tail(5)})
			}
		}()
		// The exported height is last+1. The driver commits once right after InitChain (it needs a committed state for
		// the queries), which consumes one height, so the chain is initialised one lower: its next block then has the
		// same height as the original chain's next block.
		imp = sim.FromGenesis(c.ChainID, exp.AppState, exp.Height-1, c.Header.Time, c.Accts)
	}()
	if imp == nil {
		return
	}
	defer imp.Close()
	rec.Count("imports", 1)
	var addrs []string
	for _, a := range c.Accts {
		addrs = append(addrs, a.Addr.String())
	}
	addrs = append(addrs, "")
	// oracle request state (not reachable through a comdex Query service): compared through the keeper
	{
		bi, ic := imp.App.BandoracleKeeper, imp.App.BaseApp.NewContext(true, imp.Header)
		rec.Eval(1)
		b := fmt.Sprintf("validation=%v lastBlockHeight=%d lastFetchID=%d twaBatch=%v", bi.GetOracleValidationResult(ic), bi.GetLastBlockHeight(ic), bi.GetLastFetchPriceID(ic), bi.GetFetchPriceMsg(ic).TwaBatchSize)
		if bandOrig != b {
			rec.Violate("C20/state/bandoracle/oracle-request-state-not-carried", "the oracle request / validation state differs after the round trip: "+bandOrig+" vs "+b+" (prices are deactivated by the market begin blocker while validation is false)", map[string]interface{}{"original": bandOrig, "imported": b})
		}
	}
	labelsBefore := rec.LabelCounts()
	// (a) every query of every DeFi module answers the same on both committed states
	c20CompareQueries(rec, c, imp, queries, addrs)
	// id counters, read through the keepers
	{
		oc, ic := c.App.BaseApp.NewContext(true, c.Header), imp.App.BaseApp.NewContext(true, imp.Header)
		type ctr struct {
			name string
			a, b uint64
		}
		oa, ia := c.App, imp.App
		for _, x := range []ctr{
			{"vault/vault-id", oa.VaultKeeper.GetIDForVault(oc), ia.VaultKeeper.GetIDForVault(ic)},
			{"vault/stable-vault-id", oa.VaultKeeper.GetIDForStableVault(oc), ia.VaultKeeper.GetIDForStableVault(ic)},
			{"vault/vault-count", oa.VaultKeeper.GetLengthOfVault(oc), ia.VaultKeeper.GetLengthOfVault(ic)},
			{"locker/locker-id", oa.LockerKeeper.GetIDForLocker(oc), ia.LockerKeeper.GetIDForLocker(ic)},
			{"liquidation/locked-vault-id", oa.LiquidationKeeper.GetLockedVaultID(oc), ia.LiquidationKeeper.GetLockedVaultID(ic)},
			{"liquidationsV2/locked-vault-id", oa.NewliqKeeper.GetLockedVaultID(oc), ia.NewliqKeeper.GetLockedVaultID(ic)},
			{"auction/auction-id", oa.AuctionKeeper.GetAuctionID(oc), ia.AuctionKeeper.GetAuctionID(ic)},
			{"auction/lend-auction-id", oa.AuctionKeeper.GetLendAuctionID(oc), ia.AuctionKeeper.GetLendAuctionID(ic)},
			{"auction/user-bidding-id", oa.AuctionKeeper.GetUserBiddingID(oc), ia.AuctionKeeper.GetUserBiddingID(ic)},
			{"auctionsV2/auction-id", oa.NewaucKeeper.GetAuctionID(oc), ia.NewaucKeeper.GetAuctionID(ic)},
			{"auctionsV2/user-bid-id", oa.NewaucKeeper.GetUserBidID(oc), ia.NewaucKeeper.GetUserBidID(ic)},
			{"auctionsV2/limit-bid-id", oa.NewaucKeeper.GetLimitAuctionBidID(oc), ia.NewaucKeeper.GetLimitAuctionBidID(ic)},
			{"asset/asset-id", oa.AssetKeeper.GetAssetID(oc), ia.AssetKeeper.GetAssetID(ic)},
			{"asset/app-id", oa.AssetKeeper.GetAppID(oc), ia.AssetKeeper.GetAppID(ic)},
			{"asset/pair-id", oa.AssetKeeper.GetPairID(oc), ia.AssetKeeper.GetPairID(ic)},
			{"asset/extended-pair-id", oa.AssetKeeper.GetPairsVaultID(oc), ia.AssetKeeper.GetPairsVaultID(ic)},
		} {
			rec.Eval(1)
			rec.Count("counters_compared", 1)
			if x.a != x.b {
				rec.Violate("C20/counter/"+x.name, fmt.Sprintf("id counter is %d on the original chain and %d after the round trip", x.a, x.b), map[string]interface{}{"feature_set": feature})
			}
		}
	}
	// the cursors of the per-block liquidation sweeps (where the vault sweep and the borrow sweep resume)
	{
		oc, ic := c.App.BaseApp.NewContext(true, c.Header), imp.App.BaseApp.NewContext(true, imp.Header)
		for _, id := range []uint64{0, 1} {
			a, fa := c.App.NewliqKeeper.GetLiquidationOffsetHolder(oc, liqV2types.VaultLiquidationsOffsetPrefix, id)
			b, fb := imp.App.NewliqKeeper.GetLiquidationOffsetHolder(ic, liqV2types.VaultLiquidationsOffsetPrefix, id)
			rec.Eval(1)
			rec.Count("sweep_cursors_compared", 1)
			if fa != fb || a.CurrentOffset != b.CurrentOffset {
				rec.Violate("C20/state/liquidationsV2/sweep-cursor-not-carried", fmt.Sprintf("sweep cursor %d is %d (present %v) on the original chain and %d (present %v) after the round trip", id, a.CurrentOffset, fa, b.CurrentOffset, fb), map[string]interface{}{"feature_set": feature})
			}
		}
	}
	// store-level differences, only as labels for the report
	keys := storeKeys(c)
	o, _ := inject.Dump(c.App.CommitMultiStore(), keys)
	n, _ := inject.Dump(imp.App.CommitMultiStore(), storeKeys(imp))
	rec.SetExtra("stores_differing_after_import_informational", inject.DiffStores(o, n))

	// typed state right after the import (committed states)
	{
		u2 := *u
		u2.c = imp
		a, b := u.snapAt(c.App.BaseApp.NewContext(true, c.Header)), (&u2).snapAt(imp.App.BaseApp.NewContext(true, imp.Header))
		rec.Eval(1)
		if d := c20SnapDiff(a, b); d != "" {
			rec.Violate("C20/state/"+d, "the typed state read through the keepers differs right after the round trip: "+d, map[string]interface{}{"feature_set": feature, "detail": c20LastDiffDetail})
		}
	}
	// Differences the round trip has already shown: id counters can be healed on the imported chain (so that the
	// continuation can still reveal OTHER differences); some affect only a log/history query; anything else makes the
	// continuation diverge as a mere consequence, and it is skipped.
	healCounters, healBids, healLimit, blocking := false, false, false, ""
	healCursor := false
	var healPrefixes []c20Prefix
	for l, n := range rec.LabelCounts() {
		if n == labelsBefore[l] {
			continue
		}
		switch {
		case strings.HasPrefix(l, "C20/counter/"):
			healCounters = true
		case l == "C20/state/bids-v2":
			healBids = true
		case strings.HasPrefix(l, "C20/query/auctionsV2.") && strings.Contains(l, "LimitBid") || l == "C20/state/limit-bids" || l == "C20/state/limit-bid-totals":
			healLimit = true
		case l == "C20/query/auction.QueryDutchBiddings":
			// the bidders' records of live generation-1 auctions
			healPrefixes = append(healPrefixes, c20Prefix{auctiontypes.StoreKey, auctiontypes.UserKeyPrefix})
		case l == "C20/query/esm.QuerySnapshotPrice" || l == "C20/query/esm.QueryAssetDataAfterCoolOff" || l == "C20/query/vault.QueryVaultInfoOfOwnerByApp":
			// the price snapshot and the redemption records of an executed emergency shutdown
			healPrefixes = append(healPrefixes, c20Prefix{esmtypes.StoreKey, esmtypes.SnapshotKeyPrefix}, c20Prefix{esmtypes.StoreKey, esmtypes.AssetToAmountKeyPrefix})
		case l == "C20/state/liquidationsV2/sweep-cursor-not-carried":
			healCursor = true
		case l == "C20/query/liquidationsV2.QueryAppReserveFundsTxData" || l == "C20/query/lend.QueryFundModBalByAssetPool" || l == "C20/state/bandoracle/oracle-request-state-not-carried":
		default:
			blocking = l
		}
	}
	if blocking != "" {
		rec.Count("continuations_skipped_after_import_difference", 1)
		rec.Count("continuation_skipped_because:"+blocking, 1)
		return
	}
	if healCounters || healBids || healLimit || healCursor || len(healPrefixes) > 0 {
		rec.Count("continuations_after_healing_id_counters:"+feature, 1)
	} else {
		rec.Count("clean_imports:"+feature, 1)
	}
	// (b) the same continuation on both chains
	dt := time.Duration(6) * time.Second
	c.Header.Time = c.Header.Time.Add(dt)
	imp.Header.Time = c.Header.Time
	// the harness's price-feeder configuration (validation flag on, prices written directly) is re-applied to the
	// imported chain, so that differences other than the bandoracle one above remain observable
	pricesBefore := map[string][2]interface{}{}
	for _, as := range u.assets {
		px, act := r.last.Price[as.ID], r.last.Active[as.ID]
		pricesBefore[as.Denom] = [2]interface{}{px, act}
	}
	c.Begin()
	imp.Begin()
	if healCursor {
		for _, id := range []uint64{0, 1} {
			if h, found := c.App.NewliqKeeper.GetLiquidationOffsetHolder(c.App.BaseApp.NewContext(true, c.Header), liqV2types.VaultLiquidationsOffsetPrefix, id); found {
				imp.App.NewliqKeeper.SetLiquidationOffsetHolder(imp.Ctx(), liqV2types.VaultLiquidationsOffsetPrefix, h)
			}
		}
	}
	for _, hp := range healPrefixes {
		c20CopyPrefix(c, imp, hp)
	}
	if healLimit {
		// limit-bid deposits, their totals and the per-address index are copied over key by key (their loss is
		// reported by the C20 limit-bid labels)
		src := c.Ctx().KVStore(c.App.GetKey(auctionsV2types.StoreKey))
		dst := imp.Ctx().KVStore(imp.App.GetKey(auctionsV2types.StoreKey))
		for _, pre := range [][]byte{auctionsV2types.UserLimitBidMappingKeyPrefix, auctionsV2types.UserLimitBidMappingKeyForAddressPrefix, auctionsV2types.MarketBidProtocolKeyPrefix} {
			it := sdk.KVStorePrefixIterator(src, pre)
			for ; it.Valid(); it.Next() {
				dst.Set(append([]byte(nil), it.Key()...), append([]byte(nil), it.Value()...))
			}
			it.Close()
		}
	}
	if healBids {
		// the bid records of live auctions are copied over (their loss is reported as C20/state/bids-v2)
		for _, b := range u.snap().BidsV2 {
			_ = imp.App.NewaucKeeper.SetUserBid(imp.Ctx(), b)
			_ = imp.App.NewaucKeeper.SetIndividualUserBid(imp.Ctx(), b)
		}
	}
	if healCounters {
		oc, ic, oa, ia := c.Ctx(), imp.Ctx(), c.App, imp.App
		ia.VaultKeeper.SetIDForVault(ic, oa.VaultKeeper.GetIDForVault(oc))
		ia.VaultKeeper.SetIDForStableVault(ic, oa.VaultKeeper.GetIDForStableVault(oc))
		ia.LockerKeeper.SetIDForLocker(ic, oa.LockerKeeper.GetIDForLocker(oc))
		ia.LiquidationKeeper.SetLockedVaultID(ic, oa.LiquidationKeeper.GetLockedVaultID(oc))
		ia.NewliqKeeper.SetLockedVaultID(ic, oa.NewliqKeeper.GetLockedVaultID(oc))
		ia.AuctionKeeper.SetAuctionID(ic, oa.AuctionKeeper.GetAuctionID(oc))
		ia.AuctionKeeper.SetLendAuctionID(ic, oa.AuctionKeeper.GetLendAuctionID(oc))
		ia.AuctionKeeper.SetUserBiddingID(ic, oa.AuctionKeeper.GetUserBiddingID(oc))
		ia.NewaucKeeper.SetAuctionID(ic, oa.NewaucKeeper.GetAuctionID(oc))
		ia.NewaucKeeper.SetUserBidID(ic, oa.NewaucKeeper.GetUserBidID(oc))
		ia.NewaucKeeper.SetLimitAuctionBidID(ic, oa.NewaucKeeper.GetLimitAuctionBidID(oc))
	}
	u2 := *u
	u2.c = imp
	impU := &u2
	for _, cu := range []*cdpU{u, impU} {
		cu.c.App.BandoracleKeeper.SetOracleValidationResult(cu.c.Ctx(), true)
		for _, as := range u.assets {
			pa := pricesBefore[as.Denom]
			cu.setPrice(as.Denom, pa[0].(uint64), pa[1].(bool))
		}
	}
	c.Tape = &sim.Tape{}
	r.last = u.snap()
	r.run(ev.Pick(250, 800))
	// registry and control messages are part of "any subsequent sequence of transactions" as well
	reg := c.Accts[len(c.Accts)-1]
	for _, a := range []assettypes.Asset{
		{Name: u.assets[0].Name, Denom: "ibc/verif-dup-name", Decimals: sdk.NewInt(1_000_000), IsOnChain: true}, // a name already in use
		{Name: "VERIFNEW", Denom: u.assets[1].Denom, Decimals: sdk.NewInt(1_000_000), IsOnChain: true},          // a denom already in use
		{Name: "VERIFNEWB", Denom: "ibc/verif-new", Decimals: sdk.NewInt(1_000_000), IsOnChain: true},           // a new asset: gets the next id
	} {
		r.tx("asset_add", reg, &assettypes.MsgAddAsset{Creator: reg.Addr.String(), Asset: a}, fmt.Sprintf("name=%s denom=%s", a.Name, a.Denom))
	}
	for _, app := range u.cdpApps {
		r.tx("kill_switch", admin, &esmtypes.MsgKillRequest{From: admin.Addr.String(), KillSwitchParams: &esmtypes.KillSwitchParams{AppId: app, BreakerEnable: false}}, fmt.Sprintf("app=%d off", app))
	}
	r.run(30)
	tape := c.Tape
	c.Tape = nil
	// replay on the imported chain, comparing results and typed state after every block
	diverged := false
	var ou *cdpU = u
	_ = ou
	for i, rc := range tape.Recs {
		if diverged {
			break
		}
		switch rc.Kind {
		case "tx":
			res := imp.DeliverRaw(rc.Tx)
			rec.Eval(1)
			rec.Count("continuation_txs_compared", 1)
			if d := sim.ResultDigestNoGas(res); d != rc.ResultNoGas {
				tx, _ := imp.Enc.TxConfig.TxDecoder()(rc.Tx)
				what := "?"
				if tx != nil && len(tx.GetMsgs()) > 0 {
					what = sdk.MsgTypeURL(tx.GetMsgs()[0])
				}
				rec.Violate("C20/continuation/tx-result-differs/"+strings.TrimPrefix(what, "/comdex."), fmt.Sprintf("tape position %d: the same transaction has a different result on the re-imported chain (code %d, %s)", i, res.Code, trunc(res.Log)), map[string]interface{}{"msg": what, "tape_position": i, "message": fmt.Sprintf("%+v", tx.GetMsgs()), "recorded_result_digest": rc.ResultNoGas, "log": res.Log})
				diverged = true
			}
		case "block":
			imp.NextBlock(time.Duration(rc.Dt))
			rec.Count("continuation_blocks", 1)
		case "env":
			imp.ApplyEnv(rc) // the harness's own price-feeder writes
		}
	}
	if !diverged {
		// final typed state: balances, positions, counters as seen through the keepers
		a, b := u.snap(), impU.snap()
		rec.Eval(1)
		if d := c20SnapDiff(a, b); d != "" {
			rec.Violate("C20/continuation/final-state-differs/"+d, "after the same continuation the typed state read through the keepers differs: "+d, map[string]interface{}{"first_difference": d, "detail": c20LastDiffDetail})
		} else {
			rec.Count("continuations_identical", 1)
		}
	}
	rec.Distinct("C20", variant, len(tape.Recs)/50, diverged)
}

// c20Prefix names records that a known, reported genesis gap loses; the harness copies them to the imported chain
// before the continuation so that the continuation can reveal differences OTHER than the already reported ones.
type c20Prefix struct {
	store  string
	prefix []byte
}

func c20CopyPrefix(from, to *sim.Chain, hp c20Prefix) {
	src := from.Ctx().KVStore(from.App.GetKey(hp.store))
	dst := to.Ctx().KVStore(to.App.GetKey(hp.store))
	it := sdk.KVStorePrefixIterator(src, hp.prefix)
	defer it.Close()
	for ; it.Valid(); it.Next() {
		dst.Set(append([]byte(nil), it.Key()...), append([]byte(nil), it.Value()...))
	}
}

// c20SnapDiff names the first component of the typed snapshot that differs.
func c20SnapDiff(a, b *cdpSnap) string {
	cmp := func(name string, x, y interface{}) string {
		if fmt.Sprintf("%v", x) != fmt.Sprintf("%v", y) {
			c20LastDiffDetail = c20MapDiff(x, y)
			return name
		}
		return ""
	}
	for _, d := range []string{
		cmp("vaults", a.Vaults, b.Vaults), cmp("stable-vaults", a.Stable, b.Stable), cmp("product-totals", a.Mappings, b.Mappings), cmp("vault-count", a.LenVault, b.LenVault),
		cmp("locked-vaults-v1", a.LockedV1, b.LockedV1), cmp("locked-vaults-v2", a.LockedV2, b.LockedV2), cmp("dutch-auctions-v1", a.DutchV1, b.DutchV1), cmp("auctions-v2", a.AucV2, b.AucV2),
		cmp("net-fees", a.NetFees, b.NetFees), cmp("lockers", a.Lockers, b.Lockers), cmp("locker-totals", a.LockerTot, b.LockerTot), cmp("balances", a.Bal, b.Bal), cmp("supply", a.Supply, b.Supply),
		cmp("bids-v2", a.BidsV2, b.BidsV2), cmp("limit-bids", a.LimitBids, b.LimitBids), cmp("limit-bid-totals", a.LimitProt, b.LimitProt), cmp("prices", a.Price, b.Price),
	} {
		if d != "" {
			return d
		}
	}
	return ""
}

func TestC20(t *testing.T) {
	rec := ev.New("C20", "exploration", "states reached by the mixed CDP workload (open vaults, locked vaults and live auctions of both generations, limit bids, lockers with savings, net fees, prices) are exported with ExportAppStateAndValidators and a fresh application is initialised from the exported genesis; (a) every method of every comdex gRPC Query service (enumerated from the registered descriptors) is asked with all small-id / known-address requests on both chains and the raw responses compared; (b) a recorded continuation (transactions, blocks, price moves) is applied to both and tx result digests plus the final typed state compared. distinct = query methods with data, (variant, continuation length, diverged)")
	defer finish(t, rec)
	queries := c20Queries()
	rec.Count("query_methods_enumerated", int64(len(queries)))
	rounds := ev.Pick(2, 6)
	for i := 0; i < rounds; i++ {
		c20RoundTrip(t, rec, i, queries)
	}
	for i := 0; i < ev.Pick(1, 2); i++ {
		c20LiqLend(t, rec, i, queries)
	}
	rec.Floor("imports", 1)
	rec.Floor("queries_compared", 1000)
	rec.Floor("query_methods_with_data", 20)
	rec.Floor("continuation_txs_compared", 20)
}

var c20LastDiffDetail string

// c20MapDiff shows the first differing entry of two maps (or the two values).
func c20MapDiff(x, y interface{}) string {
	vx, vy := reflect.ValueOf(x), reflect.ValueOf(y)
	if vx.Kind() == reflect.Map && vy.Kind() == reflect.Map {
		keys := map[string]reflect.Value{}
		for _, k := range vx.MapKeys() {
			keys[fmt.Sprint(k)] = k
		}
		for _, k := range vy.MapKeys() {
			keys[fmt.Sprint(k)] = k
		}
		var names []string
		for n := range keys {
			names = append(names, n)
		}
		sort.Strings(names)
		for _, n := range names {
			a, b := vx.MapIndex(keys[n]), vy.MapIndex(keys[n])
			as, bs := "<absent>", "<absent>"
			if a.IsValid() {
				as = fmt.Sprintf("%v", a.Interface())
			}
			if b.IsValid() {
				bs = fmt.Sprintf("%v", b.Interface())
			}
			if as != bs {
				if len(as) > 500 {
					as = as[:500]
				}
				if len(bs) > 500 {
					bs = bs[:500]
				}
				return fmt.Sprintf("key %s: original %s | imported %s", n, as, bs)
			}
		}
	}
	a, b := fmt.Sprintf("%v", x), fmt.Sprintf("%v", y)
	if len(a) > 300 {
		a = a[:300]
	}
	if len(b) > 300 {
		b = b[:300]
	}
	return "original " + a + " | imported " + b
}
