package props

import (
	"fmt"
	"math/big"
	"sort"
	"strings"
	"testing"

	sdk "github.com/cosmos/cosmos-sdk/types"
	banktypes "github.com/cosmos/cosmos-sdk/x/bank/types"

	auctiontypes "github.com/comdex-official/comdex/x/auction/types"
	auctionsV2types "github.com/comdex-official/comdex/x/auctionsV2/types"
	collectortypes "github.com/comdex-official/comdex/x/collector/types"
	liqV2types "github.com/comdex-official/comdex/x/liquidationsV2/types"

	"verif/ev"
)

// ---- C10: Dutch auctions settle completely and sell at the posted, falling price ----

type aucLedger struct {
	Target, Seized *big.Int
	Paid, Recv     *big.Int
	Gen            int
}

type c10Mon struct {
	u      *cdpU
	rec    *ev.Rec
	st     *settleTracker
	led    map[awaitKey]*aucLedger        // per auction (generation, auction id)
	unso   map[string]map[string]*big.Int // module -> denom -> unsolicited coins
	disc   map[string]*big.Int
	premV2 sdk.Dec
	discV2 sdk.Dec
	// collectorOut: coins that left the fee collector account in the current event, per denom
	collectorOut map[string]*big.Int
	changes      []string // witness: auction / limit-bid / reserve records changed by the current event
}

func newC10Mon(u *cdpU, rec *ev.Rec) *c10Mon {
	return &c10Mon{u: u, rec: rec, st: newSettleTracker(), led: map[awaitKey]*aucLedger{}, unso: map[string]map[string]*big.Int{}, disc: map[string]*big.Int{},
		premV2: dec("1.2"), discV2: dec("0.7")}
}

// accountedV2 returns what the generation-2 auction custody should hold per denom according to the records.
func accountedV2(s *cdpSnap) map[string]*big.Int {
	out := map[string]*big.Int{}
	add := func(d string, x *big.Int) {
		if out[d] == nil {
			out[d] = new(big.Int)
		}
		out[d].Add(out[d], x)
	}
	for _, a := range s.AucV2 {
		lv, ok := s.LockedV2[a.LockedVaultId]
		if a.AuctionType { // Dutch: remaining collateral + debt collected so far
			add(a.CollateralToken.Denom, a.CollateralToken.Amount.BigInt())
			if ok {
				add(a.DebtToken.Denom, bigSub(lv.TargetDebt.Amount.BigInt(), a.DebtToken.Amount.BigInt()))
			}
		} else if a.ActiveBiddingId != 0 { // English: the standing best bid
			if b, ok := s.BidsV2[a.ActiveBiddingId]; ok {
				add(b.DebtTokenAmount.Denom, b.DebtTokenAmount.Amount.BigInt())
			}
		}
	}
	for _, lb := range s.LimitBids {
		add(lb.DebtToken.Denom, lb.DebtToken.Amount.BigInt())
	}
	return out
}

func accountedV1(s *cdpSnap) map[string]*big.Int {
	out := map[string]*big.Int{}
	add := func(d string, x *big.Int) {
		if out[d] == nil {
			out[d] = new(big.Int)
		}
		out[d].Add(out[d], x)
	}
	// the lot of a live generation-2 surplus auction is parked in this account from activation to close
	for _, a := range s.AucV2 {
		if lv, ok := s.LockedV2[a.LockedVaultId]; ok && !a.AuctionType && lv.InitiatorType == "surplus" {
			add(a.CollateralToken.Denom, a.CollateralToken.Amount.BigInt())
		}
	}
	for _, a := range s.DutchV1 {
		add(a.OutflowTokenCurrentAmount.Denom, a.OutflowTokenCurrentAmount.Amount.BigInt())
		add(a.InflowTokenCurrentAmount.Denom, a.InflowTokenCurrentAmount.Amount.BigInt())
	}
	return out
}

func (m *c10Mon) custody(mod string, acc map[string]*big.Int, fees map[string]*big.Int, post *cdpSnap, e *cdpEvent, ctx string) {
	for _, d := range m.u.denomList() {
		bal := post.bal(modLabel(mod), d)
		a := acc[d]
		if a == nil {
			a = new(big.Int)
		}
		un := new(big.Int)
		if m.unso[mod] != nil && m.unso[mod][d] != nil {
			un = m.unso[mod][d]
		}
		f := fees[d]
		if f == nil {
			f = new(big.Int)
		}
		disc := bigSub(bigSub(bigSub(bal, un), a), f)
		key := mod + ":" + d
		old := m.disc[key]
		if old == nil {
			old = new(big.Int)
		}
		m.rec.Eval(1)
		if disc.Cmp(old) != 0 {
			dir := "unaccounted-remainder-left"
			if bigSub(disc, old).Sign() < 0 {
				dir = "custody-short-of-records"
			}
			lab := fmt.Sprintf("C10/custody/%s/%s/%s%s", mod, dir, opTag(e), ctx)
			if mod == auctiontypes.ModuleName && e.Kind == "block" && m.collectorOut != nil && m.collectorOut[d] != nil && bigSub(disc, old).Cmp(m.collectorOut[d]) == 0 && !strings.Contains(ctx, "surplus-auction-opened-v2") {
				// exactly what left the fee collector in this block arrived, unrecorded, in the generation-1 auction account
				lab = "C10/custody/auctionV1/v2-surplus-activation-fails-after-moving-the-lot"
			}
			m.rec.Violate(lab, fmt.Sprintf("custody of %s minus what live auctions, standing bids, limit-bid deposits and booked fees account for changed %s -> %s (%s)", mod, old, disc, d),
				map[string]interface{}{"event": e.String(), "denom": d, "custody": bal.String(), "accounted": a.String(), "booked_fees": f.String(), "unsolicited": un.String(), "records_changed_by_this_event": m.changes})
		}
		m.disc[key] = disc
	}
}

func (m *c10Mon) Observe(pre, post *cdpSnap, e *cdpEvent) {
	u := m.u
	m.st.advance(pre, post)
	ctx := m.st.context(pre, post)
	for id, lv := range post.LockedV2 {
		if _, was := pre.LockedV2[id]; !was && (lv.InitiatorType == "surplus" || lv.InitiatorType == "debt") {
			ctx += "+" + lv.InitiatorType + "-auction-opened-v2"
		}
	}
	for id, lv := range pre.LockedV2 {
		if _, still := post.LockedV2[id]; !still && (lv.InitiatorType == "surplus" || lv.InitiatorType == "debt") {
			ctx += "+" + lv.InitiatorType + "-auction-closed-v2"
		}
	}
	if e.Kind == "tx" && e.Res.OK() {
		if ms, ok := e.Msg.(*banktypes.MsgSend); ok {
			for _, mod := range []string{auctiontypes.ModuleName, auctionsV2types.ModuleName} {
				if ms.ToAddress == u.c.ModAddr(mod).String() {
					if m.unso[mod] == nil {
						m.unso[mod] = map[string]*big.Int{}
					}
					for _, c := range ms.Amount {
						if m.unso[mod][c.Denom] == nil {
							m.unso[mod][c.Denom] = new(big.Int)
						}
						m.unso[mod][c.Denom].Add(m.unso[mod][c.Denom], c.Amount.BigInt())
					}
				}
			}
		}
	}
	m.collectorOut = map[string]*big.Int{}
	for _, d := range u.denomList() {
		if out := bigSub(pre.bal(modLabel(collectortypes.ModuleName), d), post.bal(modLabel(collectortypes.ModuleName), d)); out.Sign() > 0 {
			m.collectorOut[d] = out
		}
	}
	// ---- (a) nothing unaccounted stays in auction custody
	feesV2 := map[string]*big.Int{}
	for as, f := range post.LimitFees {
		d := u.byID[as].Denom
		if feesV2[d] == nil {
			feesV2[d] = new(big.Int)
		}
		feesV2[d].Add(feesV2[d], f.BigInt())
	}
	for as, f := range post.ExtFees {
		d := u.byID[as].Denom
		if feesV2[d] == nil {
			feesV2[d] = new(big.Int)
		}
		feesV2[d].Add(feesV2[d], f.BigInt())
	}
	m.changes = nil
	for id, a := range pre.AucV2 {
		if _, still := post.AucV2[id]; !still {
			lv := pre.LockedV2[a.LockedVaultId]
			m.changes = append(m.changes, fmt.Sprintf("auction %d ended (initiator %s, target %s, debt left before %s, collateral left before %s, bonus %s)", id, lv.InitiatorType, lv.TargetDebt, a.DebtToken, a.CollateralToken, a.BonusAmount))
		}
	}
	for _, lb := range pre.LimitBids {
		left := "deleted"
		for _, pb := range post.LimitBids {
			if pb.BidderAddress == lb.BidderAddress && pb.DebtTokenId == lb.DebtTokenId && pb.CollateralTokenId == lb.CollateralTokenId && pb.PremiumDiscount.Equal(lb.PremiumDiscount) {
				left = pb.DebtToken.String()
			}
		}
		if left != lb.DebtToken.String() {
			m.changes = append(m.changes, fmt.Sprintf("limit bid (debt %d, collateral %d, bucket %s) of %s: %s -> %s", lb.DebtTokenId, lb.CollateralTokenId, lb.PremiumDiscount, lb.BidderAddress, lb.DebtToken, left))
		}
	}
	for k, v := range post.Reserve {
		if o, ok := pre.Reserve[k]; ok && !o.Equal(v) {
			m.changes = append(m.changes, fmt.Sprintf("app reserve (app %d, asset %d): %s -> %s", k.App, k.Asset, o, v))
		}
	}
	sort.Strings(m.changes)
	m.custody(auctionsV2types.ModuleName, accountedV2(post), feesV2, post, e, ctx)
	m.custody(auctiontypes.ModuleName, accountedV1(post), nil, post, e, ctx)

	// ---- (b) ledgers: open on first sight
	for id, a := range post.DutchV1 {
		k := awaitKey{1, id}
		if m.led[k] == nil {
			m.led[k] = &aucLedger{Target: a.InflowTokenTargetAmount.Amount.BigInt(), Seized: a.OutflowTokenInitAmount.Amount.BigInt(), Paid: new(big.Int), Recv: new(big.Int), Gen: 1}
			m.rec.Count("auctions_opened_gen1", 1)
		}
	}
	for id, a := range post.AucV2 {
		if !a.AuctionType {
			continue
		}
		k := awaitKey{2, id}
		if m.led[k] == nil {
			lv := post.LockedV2[a.LockedVaultId]
			m.led[k] = &aucLedger{Target: lv.TargetDebt.Amount.BigInt(), Seized: lv.CollateralToken.Amount.BigInt(), Paid: new(big.Int), Recv: new(big.Int), Gen: 2}
			m.rec.Count("auctions_opened_gen2_"+lv.InitiatorType, 1)
		}
	}
	// ---- (c) per-bid laws on successful bid transactions
	if e.Kind == "tx" && e.Res.OK() && e.Signer != nil {
		switch x := e.Msg.(type) {
		case *auctiontypes.MsgPlaceDutchBidRequest:
			a, ok := pre.DutchV1[x.AuctionId]
			if ok {
				cd, dd := a.OutflowTokenCurrentAmount.Denom, a.InflowTokenTargetAmount.Denom
				paid := bigSub(pre.bal(e.Signer.Name, dd), post.bal(e.Signer.Name, dd))
				recv := bigSub(post.bal(e.Signer.Name, cd), pre.bal(e.Signer.Name, cd))
				// owner == bidder: the owner's remainder also lands on the bidder; take the recorded bid in that case
				if e.Signer.Addr.String() == a.VaultOwner.String() {
					if _, open := post.DutchV1[x.AuctionId]; !open {
						recv = nil // the owner's remainder lands on the same account: not separable
					}
				}
				m.bidLaws(awaitKey{1, x.AuctionId}, paid, recv, new(big.Int), decRat(a.OutflowTokenCurrentPrice), decRat(a.InflowTokenCurrentPrice), u.byID[a.AssetOutId], u.byID[a.AssetInId], e, "gen1", 1)
			}
		case *auctionsV2types.MsgPlaceMarketBidRequest:
			a, ok := pre.AucV2[x.AuctionId]
			if ok && a.AuctionType {
				lv := pre.LockedV2[a.LockedVaultId]
				cd, dd := a.CollateralToken.Denom, a.DebtToken.Denom
				paid := bigSub(pre.bal(e.Signer.Name, dd), post.bal(e.Signer.Name, dd))
				recv := bigSub(post.bal(e.Signer.Name, cd), pre.bal(e.Signer.Name, cd))
				if _, open := post.AucV2[x.AuctionId]; !open {
					if e.Signer.Addr.String() == lv.Owner {
						recv = nil // the owner's remainder lands on the same account: not separable
					}
					if e.Signer.Addr.String() == lv.InternalKeeperAddress || e.Signer.Addr.String() == lv.ExternalKeeperAddress {
						// the keeper incentive / initiator proceeds land on the bidder's account: the payment is taken
						// from the records (remaining debt less what the app reserve contributed; the close-out
						// ledger asserts the bidder's balance against exactly that)
						rl := modLabel(liqV2types.ModuleName)
						paid = bigSub(a.DebtToken.Amount.BigInt(), bigSub(pre.bal(rl, dd), post.bal(rl, dd)))
						m.rec.Count("bids_by_keeper_price_checked_via_records", 1)
					}
				}
				// the debt coin buys at the higher of the posted debt price and the oracle price in force ($1 for CMST-flagged debt)
				debtPrice := decRat(a.DebtTokenOraclePrice)
				if lv.IsDebtCmst {
					debtPrice = big.NewRat(1_000_000, 1)
				} else if tw := new(big.Rat).SetInt(new(big.Int).SetUint64(pre.Price[a.DebtAssetId])); tw.Cmp(debtPrice) > 0 {
					debtPrice = tw
				}
				m.bidLaws(awaitKey{2, x.AuctionId}, paid, recv, a.BonusAmount.BigInt(), decRat(a.CollateralTokenAuctionPrice), debtPrice, u.byID[a.CollateralAssetId], u.byID[a.DebtAssetId], e, "gen2-"+lv.InitiatorType, 1)
			}
		}
	}
	if x, ok := e.Msg.(*auctionsV2types.MsgPlaceMarketBidRequest); ok && e.Kind == "tx" && !e.Res.OK() && strings.Contains(e.Res.Log, "recovered") {
		// a bid that panics is rejected as a whole; the statement does not promise that a bid succeeds
		if a, ok := pre.AucV2[x.AuctionId]; ok {
			why := e.Res.Log[strings.Index(e.Res.Log, "recovered"):]
			if i := strings.IndexByte(why, '\n'); i > 0 {
				why = why[:i]
			}
			if i := strings.IndexAny(why, "-0123456789"); i > 0 {
				why = strings.TrimRight(why[:i], ": ")
			}
			m.rec.Count("bids_rejected_by_panic_gen2-"+pre.LockedV2[a.LockedVaultId].InitiatorType+" ("+why+")", 1)
		}
	}
	// ---- (d) posted price: non-increasing between restarts, within [end, start], start <= oracle*premium
	for id, b := range post.AucV2 {
		if !b.AuctionType {
			continue
		}
		// the app's configured premium (start = oracle * premium) and discount (end = start * discount)
		prem, disc := m.premV2, m.discV2
		if w, ok := u.c.App.NewliqKeeper.GetLiquidationWhiteListing(u.c.Ctx(), b.AppId); ok && w.DutchAuctionParam != nil {
			prem, disc = w.DutchAuctionParam.Premium, w.DutchAuctionParam.Discount
		}
		m.rec.Eval(1)
		det := func() map[string]interface{} {
			return map[string]interface{}{"event": e.String(), "auction": id, "posted": b.CollateralTokenAuctionPrice.String(), "initial": b.CollateralTokenInitialPrice.String(), "oracle": b.CollateralTokenOraclePrice.String(), "start": b.StartTime.String()}
		}
		if b.CollateralTokenAuctionPrice.GT(b.CollateralTokenInitialPrice) {
			m.rec.Violate("C10/price/gen2/posted-above-start-price", "posted price above the start price", det())
		}
		if end := b.CollateralTokenInitialPrice.Mul(disc); b.CollateralTokenAuctionPrice.LT(end.Sub(sdk.NewDecWithPrec(1, 12))) {
			m.rec.Violate("C10/price/gen2/posted-below-end-price", fmt.Sprintf("posted price below the configured end price %s", end), det())
		}
		if a, ok := pre.AucV2[id]; ok {
			if a.StartTime.Equal(b.StartTime) {
				m.rec.Count("price_updates_observed_gen2", 1)
				if b.CollateralTokenAuctionPrice.GT(a.CollateralTokenAuctionPrice) {
					m.rec.Violate("C10/price/gen2/posted-price-increased-between-restarts", fmt.Sprintf("%s -> %s", a.CollateralTokenAuctionPrice, b.CollateralTokenAuctionPrice), det())
				}
			} else {
				m.rec.Count("restarts_observed_gen2", 1)
			}
		}
		if a, ok := pre.AucV2[id]; !ok || !a.StartTime.Equal(b.StartTime) { // (re)started in this event: start price = oracle price in force * premium
			want := sdk.NewDecFromInt(sdk.NewIntFromUint64(pre.Price[b.CollateralAssetId])).Mul(prem)
			if b.CollateralTokenInitialPrice.GT(want.Add(sdk.NewDecWithPrec(1, 12))) {
				m.rec.Violate("C10/price/gen2/start-price-above-oracle-times-premium", fmt.Sprintf("start price %s > oracle*premium %s", b.CollateralTokenInitialPrice, want), det())
			}
		}
	}
	for id, b := range post.DutchV1 {
		m.rec.Eval(1)
		if b.OutflowTokenCurrentPrice.GT(b.OutflowTokenInitialPrice) || b.OutflowTokenCurrentPrice.LT(b.OutflowTokenEndPrice) {
			m.rec.Violate("C10/price/gen1/posted-outside-start-end", fmt.Sprintf("posted %s outside [%s, %s]", b.OutflowTokenCurrentPrice, b.OutflowTokenEndPrice, b.OutflowTokenInitialPrice), map[string]interface{}{"event": e.String(), "auction": id})
		}
		if a, ok := pre.DutchV1[id]; ok && a.StartTime.Equal(b.StartTime) && b.OutflowTokenCurrentPrice.GT(a.OutflowTokenCurrentPrice) {
			m.rec.Violate("C10/price/gen1/posted-price-increased-between-restarts", fmt.Sprintf("%s -> %s", a.OutflowTokenCurrentPrice, b.OutflowTokenCurrentPrice), map[string]interface{}{"event": e.String(), "auction": id})
		}
	}
	// ---- (d2) close-out ledger of the auctions that ended in this event; automatic limit-bid fills
	m.closeout(pre, post, e)
	depositLaw(u, m.rec, "C10", pre, post, e)
	// ---- (e) closed auctions: totals
	var closed []awaitKey
	for k := range m.led {
		if k.Gen == 1 {
			if _, ok := post.DutchV1[k.ID]; !ok {
				closed = append(closed, k)
			}
		} else if _, ok := post.AucV2[k.ID]; !ok {
			closed = append(closed, k)
		}
	}
	sort.Slice(closed, func(i, j int) bool {
		return closed[i].Gen*1_000_000+int(closed[i].ID) < closed[j].Gen*1_000_000+int(closed[j].ID)
	})
	for _, k := range closed {
		m.rec.Count(fmt.Sprintf("auctions_closed_gen%d", k.Gen), 1)
		delete(m.led, k)
	}
	m.rec.Distinct("C10", e.Op, e.Res.OK(), len(post.AucV2), len(post.DutchV1), ctx)
}

// bidLaws: cumulative paid <= target, cumulative received <= seized, and the exchange rate of this bid.
// n is the number of separately rounded exchanges the amounts aggregate (1 for a bid transaction).
func (m *c10Mon) bidLaws(k awaitKey, paid, recv, bonus *big.Int, collPrice, debtPrice *big.Rat, coll, debt *uAsset, e *cdpEvent, tag string, n int64) {
	l := m.led[k]
	m.rec.Eval(1)
	m.rec.Count("bids_checked_"+tag, 1)
	det := func() map[string]interface{} {
		d := map[string]interface{}{"event": e.String(), "paid": paid.String(), "posted_collateral_price": collPrice.FloatString(18), "debt_price": debtPrice.FloatString(6), "bonus": bonus.String()}
		if recv != nil {
			d["received"] = recv.String()
		}
		if l != nil {
			d["target"], d["seized"], d["paid_so_far"], d["received_so_far"] = l.Target.String(), l.Seized.String(), l.Paid.String(), l.Recv.String()
		}
		return d
	}
	if l != nil {
		l.Paid.Add(l.Paid, paid)
		if l.Paid.Cmp(l.Target) > 0 {
			m.rec.Violate("C10/bid/"+tag+"/bidders-paid-more-than-target", fmt.Sprintf("bidders paid %s in total, target debt %s", l.Paid, l.Target), det())
		}
		if recv != nil {
			l.Recv.Add(l.Recv, recv)
			if l.Recv.Cmp(l.Seized) > 0 {
				m.rec.Violate("C10/bid/"+tag+"/bidders-received-more-than-seized", fmt.Sprintf("bidders received %s in total, seized collateral %s", l.Recv, l.Seized), det())
			}
		}
	}
	if recv == nil || collPrice.Sign() <= 0 {
		return
	}
	// received <= (paid + 1 + bonus) * debtPrice/debtDec / collPrice * collDec + 1
	// ("up to one smallest unit of rounding": the payment is truncated to whole debt units and
	// the collateral to whole collateral units, so one unit of each coin is granted)
	v := new(big.Rat).SetFrac(bigAdd(bigAdd(paid, big.NewInt(n)), bonus), debt.Dec)
	v.Mul(v, debtPrice)
	v.Quo(v, collPrice)
	v.Mul(v, new(big.Rat).SetInt(coll.Dec))
	v.Add(v, big.NewRat(n, 1))
	if new(big.Rat).SetInt(recv).Cmp(v) > 0 {
		m.rec.Violate("C10/bid/"+tag+"/received-more-than-paid-plus-bonus-buys-at-posted-price", fmt.Sprintf("received %s, at the posted price the payment (plus bonus) buys at most %s", recv, v.FloatString(3)), det())
	}
}

func TestC10(t *testing.T) {
	rec := ev.New("C10", "exploration", "the liquidation workload plus 8 bidders issuing tiny / partial / exact / oversized bids on Dutch auctions of both generations at random offsets relative to price updates and restarts (block gaps up to 2 h against a 1 h auction duration), limit bids filled automatically, oracle moves during auctions; externally initiated auctions (anyone hands in collateral and names a debt coin; bonus and penalty from the auction params) for two whitelisted apps; custody identity of both auction accounts after every event, cumulative and per-bid exchange laws (bid transactions and automatic limit-bid fills), posted-price laws, and for every generation-2 vault / external auction that ends (closing bid, closing fill, emergency-shutdown hand-back) the close-out ledger: balance deltas of every account, supply and booked fees against burned principal / initiator, penalty, keeper incentive, owner remainder. distinct = (op, outcome, live auctions per generation, context)")
	defer finish(t, rec)
	runs := ev.Pick(2, 4)
	for run := 0; run < runs; run++ {
		variant := ev.ShardNo()*runs + run
		u := newCDP(t, cdpOpts{variant: variant})
		u.c.App.NewliqKeeper.SetParams(u.c.Ctx(), liqV2types.Params{LiquidationBatchSize: uint64([]int{200, 5}[run%2])})
		rnd := rng("C10", run)
		cfg := cdpCfg{priceMoves: true, bids: true, lockers: false, unsolicited: true, liquidateMsg: true, unsafeBias: true, limitBids: true, reserve: variant%3 != 0, maxGap: 2 * 3600 * 1e9}
		r := newCdpRunner(u, rnd, rec, cfg, newC10Mon(u, rec))
		r.run(cdpSteps())
		if variant%3 == 1 { // emergency shutdown while auctions are running: hand-back of the unsold collateral
			r.esmPhase(appBeacon)
		}
		if run == 0 {
			rec.Sample(map[string]interface{}{"variant": variant, "oplog_tail": r.tail(10)})
		}
		u.c.Close()
	}
	for run := 0; run < ev.Pick(1, 3); run++ {
		c10LendRun(t, rec, run)
	}
	rec.Floor("bids_checked_gen2-lend", 5)
	rec.Floor("auctions_opened_gen2_lend", 3)
	rec.Floor("auctions_closed_gen2", 5)
	rec.Floor("auctions_closed_gen1", 2)
	rec.Floor("bids_checked_gen2-vault", 10)
	rec.Floor("bids_checked_gen1", 3)
	rec.Floor("price_updates_observed_gen2", 20)
	rec.Floor("auctions_opened_gen2_external", 20)
	rec.Floor("bids_checked_gen2-external", 20)
	rec.Floor("bids_checked_gen2-vault-fill", 3)
	rec.Floor("closeouts_checked_gen2-vault_bid", 10)
	rec.Floor("closeouts_checked_gen2-external_bid", 5)
	rec.Floor("closeouts_checked_gen2-vault_fill", 3)
	rec.Floor("closeouts_checked_gen2-external_fill", 2)
	rec.Floor("closeout_collector_checked", 20)
	rec.Floor("closeout_keeper_incentives_expected_vault", 2)
	rec.Floor("fill_deposit_law_checked", 10)
	rec.Assume("close-out ledger: in a block without user transactions the only payments to user accounts in a debt denom are auction proceeds (keeper incentive, external initiator) and surplus-auction lots; the collector / supply part of a block's close-out is skipped (counted) when lockers exist or the emergency-shutdown redemption burns the collector's fees in the same block")
	rec.Assume("the posted price of a closing automatic fill is read from the auction's historical record (the record the fill worked on); a closing bid that panics is rejected as a whole and is not judged (counted as bids_rejected_by_panic_*)")
}
