package props

import (
	"fmt"
	"testing"
	"time"

	"verif/ev"
)

// c15Rewards: the incentive hook (x/rewards begin blocker: epoch switches, gauge processing, farming payouts,
// swap-fee pulls, external programmes) on the gauge scenarios of C19 — including a gauge whose deposit does not fit
// 64 bits, which makes the gauge code panic at its first trigger. The hook must absorb that as a whole (nothing of it
// visible, the chain goes on); crash points of the hook are enumerated at epoch switches.
func c15Rewards(t *testing.T, rec *ev.Rec) {
	for sc := 0; sc < ev.Pick(2, 8); sc++ {
		v := ev.ShardNo()*8 + sc
		rnd := rng("C15-rewards", v)
		e := c19NewEnv(t, ev.NewScratch(), rnd, v, []int{2, 3, 5, 8}[v%4], []int{0, 4, 1, 3}[v%4])
		c := e.c
		c.PanicHook = func(phase string, h int64, p interface{}) {
			e.panicked = true
			rec.Violate(fmt.Sprintf("C15/panic-escape/%s/%s", phase, panicClass(p)), fmt.Sprintf("rewards universe: %s at height %d panicked: %v", phase, h, p),
				map[string]interface{}{"stack": comdexFrames(c.LastPanicStack), "scenario": e.cfg})
		}
		for i := 0; i < 3; i++ {
			e.createGauge(false)
		}
		blocks := ev.Pick(60, 140)
		explored := 0
		for b := 0; b < blocks && !e.panicked; b++ {
			na := rnd.Intn(5)
			if b < 6 {
				na = 4 + rnd.Intn(4)
			}
			for i := 0; i < na; i++ {
				e.action()
			}
			if b == 8 || b == 20 {
				for i := 0; i < 4; i++ {
					e.createGauge(true) // late gauges: one of them gets a deposit over 2^64
				}
			}
			if (b == 12 || b == 30 || b == 45) && explored < ev.Pick(2, 3) {
				// the next block starts more than an epoch later: the hook switches epochs and processes gauges
				exploreAtBoundary(c, rec, 25*time.Hour, "rewards", ev.Pick(1200, 12000))
				explored++
				rec.Count("rewards_epoch_blocks_explored", 1)
				continue
			}
			e.step(e.pickDt())
			rec.Eval(1)
			rec.Count("rewards_blocks_observed", 1)
		}
		if e.bigGauge {
			rec.Count("rewards_scenarios_with_a_gauge_over_2^64", 1)
		}
		c.Close()
	}
	rec.Floor("rewards_blocks_observed", 50)
}
