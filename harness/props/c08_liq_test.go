package props

import (
	"fmt"
	"math/big"
	"sort"
	"strings"

	sdk "github.com/cosmos/cosmos-sdk/types"

	auctiontypes "github.com/comdex-official/comdex/x/auction/types"
	auctionsV2types "github.com/comdex-official/comdex/x/auctionsV2/types"
	lendtypes "github.com/comdex-official/comdex/x/lend/types"
	liqtypes "github.com/comdex-official/comdex/x/liquidation/types"
	liqV2types "github.com/comdex-official/comdex/x/liquidationsV2/types"
)

// C08, liquidation side of the workload: the lending books are also evaluated
//   * after every bid on the Dutch auction of a seized borrow and after the bid that settles it (generation 2:
//     MsgCloseDutchAuctionForBorrow deletes the borrow, returns the debt to the pool, books penalty / interest),
//   * after the app's reserve fund was topped up (auctions draw on it),
//   * after fund messages, rate-parameter updates (the governance proposal's keeper function) and price outages
//     in the middle of a history,
//   * after the generation-1 liquidate-borrow message of x/liquidation (partial liquidation: part of the collateral
//     is sold in a generation-1 lend Dutch auction, afterwards the borrow is re-opened with what is left) and the
//     bids on its auction.

// liveLendAuctions: generation-2 Dutch auctions of seized borrows, by id.
func (e *c08Env) liveLendAuctions() []auctionsV2types.Auction {
	lend := map[uint64]bool{}
	for _, lv := range e.c.App.NewliqKeeper.GetLockedVaults(e.c.Ctx()) {
		if lv.InitiatorType == "lend" {
			lend[lv.LockedVaultId] = true
		}
	}
	var out []auctionsV2types.Auction
	for _, a := range e.c.App.NewaucKeeper.GetAuctions(e.c.Ctx()) {
		if a.AuctionType && lend[a.LockedVaultId] {
			out = append(out, a)
		}
	}
	sort.Slice(out, func(i, j int) bool { return out[i].AuctionId < out[j].AuctionId })
	return out
}

// bidClass picks a bid amount against the remaining target `rem`.
func (e *c08Env) bidClass(rem sdk.Int) (sdk.Int, string) {
	switch x := e.rnd.Intn(100); {
	case x < 12:
		return sdk.NewInt(int64(1 + e.rnd.Intn(100))), "tiny"
	case x < 30:
		return rem, "exact"
	case x < 38:
		return rem.AddRaw(1), "exact+1"
	case x < 50:
		return rem.MulRaw(int64(2 + e.rnd.Intn(3))), "oversized"
	case x < 58:
		return rem.SubRaw(int64(1 + e.rnd.Intn(100_000))), "just-below-target"
	}
	return rem.MulRaw(int64(1 + e.rnd.Intn(98))).QuoRaw(100).AddRaw(1), "partial"
}

// bidStep: one market bid by a random account on a live auction of a seized borrow. Returns false when there is none.
func (e *c08Env) bidStep() bool {
	live := e.liveLendAuctions()
	if len(live) == 0 {
		return false
	}
	e.step++
	pre := e.snap()
	a := live[e.rnd.Intn(len(live))]
	bidder := e.c.Accts[e.rnd.Intn(len(e.c.Accts))]
	amt, cls := e.bidClass(a.DebtToken.Amount)
	if !amt.IsPositive() {
		amt = sdk.NewInt(1)
	}
	lv, _ := e.c.App.NewliqKeeper.GetLockedVault(e.c.Ctx(), a.AppId, a.LockedVaultId)
	msg := &auctionsV2types.MsgPlaceMarketBidRequest{AuctionId: a.AuctionId, Bidder: bidder.Addr.String(), Amount: sdk.NewCoin(a.DebtToken.Denom, amt)}
	res, _ := e.deliver(bidder, msg)
	desc := fmt.Sprintf("%s bids %s%s on auction %d of borrow %d (remaining target %s, collateral left %s, posted price %s) [%s]", bidder.Name, amt, a.DebtToken.Denom, a.AuctionId, lv.OriginalVaultId, a.DebtToken.Amount, a.CollateralToken, a.CollateralTokenAuctionPrice, cls)
	post := e.finishTx(pre, "bid-lend-auction", cls, res, desc)
	e.rec.Count("lend_auction_bids_attempted", 1)
	if !res.OK() {
		e.rec.Count("lend_auction_bid_rejected: "+c08LogClass(res.Log), 1)
		if strings.Contains(res.Log, "does not exist") {
			// the closing bid on the auction of an inter-pool borrow whose lend position is gone
			b, bok := pre.borrows[lv.OriginalVaultId]
			_, lok := pre.lends[b.LendingID]
			e.rec.Count("lend_auction_closing_bid_panics_module_account_missing", 1)
			if bok && !lok && b.BridgedAssetAmount.Amount.IsPositive() {
				e.rec.Count("lend_auction_closing_bid_panics_bridged_borrow_without_lend_position", 1)
			}
			if e.rec.Get("lend_auction_closing_bid_panics_module_account_missing") <= 2 {
				e.rec.Note(fmt.Sprintf("closing bid panics: %s | borrow found=%v %+v | lend position found=%v | %s", desc, bok, b, lok, c08ShortLog(res.Log)))
			}
		}
		return true
	}
	e.rec.Count("lend_auction_bids_ok", 1)
	e.rec.Count("lend_auction_bids_ok_"+cls, 1)
	if _, err := e.c.App.NewaucKeeper.GetAuction(e.c.Ctx(), a.AuctionId); err != nil {
		e.rec.Count("lend_auctions_settled", 1)
		if b, still := post.borrows[lv.OriginalVaultId]; still {
			// the borrow of a settled auction is closed (its debt went back to the pool): a record that stays would
			// be an open borrow without collateral
			e.rec.Violate("C08/books/settled-borrow-still-recorded", fmt.Sprintf("the auction of borrow %d settled but the borrow record is still there", b.ID), e.witness(map[string]interface{}{"borrow": fmt.Sprintf("%+v", b)}))
		}
		if !e.sampled["settle"] {
			e.sampled["settle"] = true
			e.rec.Sample(map[string]interface{}{"case": "books checked after the bid that settled a seized borrow's auction", "op": desc})
		}
	}
	return true
}

// adminStep: things that happen to a lending market besides its users' messages.
func (e *c08Env) adminStep() {
	e.step++
	c := e.c
	funder := c.Accts[5]
	switch x := e.rnd.Intn(100); {
	case x < 25:
		pre := e.snap()
		pid := uint64(1 + e.rnd.Intn(2))
		p := e.u.Pools[pid]
		a := e.u.Assets[p.Assets[e.rnd.Intn(len(p.Assets))]]
		amt := sdk.NewInt(int64(1 + e.rnd.Intn(5_000_000)))
		if e.rnd.Intn(4) == 0 {
			amt = sdk.NewInt(1_000_000_000 + int64(e.rnd.Intn(1_000_000_000)))
		}
		res, _ := e.deliver(funder, lendtypes.NewMsgFundModuleAccounts(pid, a.ID, funder.Addr.String(), sdk.NewCoin(a.Denom, amt)))
		e.finishTx(pre, "fund-module", "mid-run", res, fmt.Sprintf("%s funds pool %d with %s%s", funder.Name, pid, amt, a.Denom))
	case x < 40:
		e.fundReserve("mid-run", false)
	case x < 55 && e.liqRun:
		pre := e.snap()
		a := e.u.Assets[e.u.Order[e.rnd.Intn(len(e.u.Order))]]
		amt := sdk.NewInt(int64(1 + e.rnd.Intn(200_000)))
		if e.rnd.Intn(3) == 0 {
			amt = sdk.NewInt(10_000_000_000)
		}
		res, _ := e.deliver(funder, &liqV2types.MsgAppReserveFundsRequest{From: funder.Addr.String(), AppId: e.u.App, AssetId: a.ID, TokenQuantity: sdk.NewCoin(a.Denom, amt)})
		e.finishTx(pre, "fund-app-reserve", "mid-run", res, fmt.Sprintf("%s tops the app reserve up with %s%s", funder.Name, amt, a.Denom))
	case x < 75:
		// governance updates the interest-rate model of one asset (AddAssetRatesParams proposal); loan-to-value and
		// liquidation threshold stay. The proposal's keeper function rewrites the whole record, so the e-mode fields
		// of the e-mode collateral asset are put back by the e-mode proposal's function, as governance would have to.
		id := e.u.Order[e.rnd.Intn(len(e.u.Order))]
		k := c.App.LendKeeper
		par, found := k.GetAssetRatesParams(c.Ctx(), id)
		if !found {
			return
		}
		old := par
		par.UOptimal = lendDec([]string{"0.5", "0.65", "0.8", "0.9"}[e.rnd.Intn(4)])
		par.Base = lendDec([]string{"0.002", "0.01", "0.03"}[e.rnd.Intn(3)])
		par.Slope1 = lendDec([]string{"0.05", "0.1", "0.3"}[e.rnd.Intn(3)])
		par.Slope2 = lendDec([]string{"0.6", "1.5", "3.0"}[e.rnd.Intn(3)])
		par.ReserveFactor = lendDec([]string{"0.1", "0.2", "0.35"}[e.rnd.Intn(3)])
		if err := k.AddAssetRatesParams(c.Ctx(), par); err != nil {
			return
		}
		if p, ok := e.u.Pair(e.u.EModePair); ok && p.AssetIn == id {
			_ = k.AddEModePairs(c.Ctx(), lendtypes.EModePairsForProposal{EModePairs: []lendtypes.EModePairs{{PairID: e.u.EModePair, ELtv: old.ELtv, ELiquidationThreshold: old.ELiquidationThreshold, ELiquidationPenalty: old.ELiquidationPenalty}}})
		}
		e.rec.Count("rate_param_updates_mid_run", 1)
		e.log(fmt.Sprintf("governance: rate model of %s -> uopt=%s base=%s s1=%s s2=%s reserve=%s", e.u.Assets[id].Denom, par.UOptimal, par.Base, par.Slope1, par.Slope2, par.ReserveFactor))
		e.checkBooks(e.snap(), "rate-update", nil)
	default:
		// the feed of one asset goes inactive for the next few steps
		id := e.u.Order[e.rnd.Intn(len(e.u.Order))]
		if e.outage == nil {
			e.outage = map[uint64]int{}
		}
		if _, on := e.outage[id]; on {
			return
		}
		p, _ := e.u.Price(id)
		e.u.SetPrice(id, p, false)
		e.outage[id] = 2 + e.rnd.Intn(12)
		e.rec.Count("price_outages", 1)
		e.log(fmt.Sprintf("price feed of %s goes inactive", e.u.Assets[id].Denom))
	}
}

// tickOutages counts the running price outages down and re-activates feeds.
func (e *c08Env) tickOutages() {
	for _, id := range e.u.Order {
		left, on := e.outage[id]
		if !on {
			continue
		}
		if _, act := e.u.Price(id); !act {
			e.rec.Count("steps_with_an_inactive_price", 1)
		}
		if left <= 1 {
			p, _ := e.u.Price(id)
			e.u.SetPrice(id, p, true)
			delete(e.outage, id)
			e.log(fmt.Sprintf("price feed of %s active again", e.u.Assets[id].Denom))
			continue
		}
		e.outage[id] = left - 1
	}
}

func (e *c08Env) endOutages() {
	for _, id := range e.u.Order {
		if _, on := e.outage[id]; on {
			p, _ := e.u.Price(id)
			e.u.SetPrice(id, p, true)
			delete(e.outage, id)
		}
	}
}

// ---- generation 1 (x/liquidation MsgLiquidateBorrowRequest, x/auction MsgPlaceDutchLendBidRequest) ----

func (e *c08Env) gen1LendAuctions() []auctiontypes.DutchAuction {
	as := e.c.App.AuctionKeeper.GetDutchLendAuctions(e.c.Ctx(), e.u.App)
	sort.Slice(as, func(i, j int) bool { return as[i].AuctionId < as[j].AuctionId })
	return as
}

// gen1Liquidate: somebody sends the generation-1 liquidate message for a borrow. With makeUnsafe the price of the
// borrow's collateral asset is first moved (inside the block, so that the generation-2 sweep has not seen it yet)
// to where the position is clearly above its threshold.
func (e *c08Env) gen1Liquidate(makeUnsafe bool) {
	e.step++
	pre := e.snap()
	var ids []uint64
	for id, b := range pre.borrows {
		if !b.IsLiquidated {
			ids = append(ids, id)
		}
	}
	if len(ids) == 0 {
		return
	}
	sort.Slice(ids, func(i, j int) bool { return ids[i] < ids[j] })
	b := pre.borrows[ids[e.rnd.Intn(len(ids))]]
	near := e.rnd.Intn(2) == 0
	if fb, ok := pre.borrows[e.gen1ForceID]; ok && e.gen1ForceID != 0 && !fb.IsLiquidated {
		b, near = fb, true
	}
	e.gen1ForceID = 0
	p, found := e.pair(b.PairID)
	if !found {
		return
	}
	cls := "as-is"
	var restore uint64
	if makeUnsafe {
		in, out := e.u.Assets[p.AssetIn], e.u.Assets[p.AssetOut]
		pin, _ := e.u.Price(p.AssetIn)
		debt := e.u.Value(out.ID, new(big.Int).Add(c08bi(b.AmountOut.Amount), b.InterestAccumulated.TruncateInt().BigInt()))
		coll := e.u.Value(in.ID, c08bi(b.AmountIn.Amount))
		if coll.Sign() > 0 && debt.Sign() > 0 && p.AssetIn != p.AssetOut {
			// ratio now = debt/coll; a collateral price scaled by ratio/target puts the ratio at target
			target := big.NewRat(int64(96+e.rnd.Intn(30)), 100)
			if par, ok := e.c.App.LendKeeper.GetAssetRatesParams(e.c.Ctx(), p.AssetIn); ok && near {
				// just above the liquidation threshold: a partial liquidation whose target stays below the principal
				thr := par.LiquidationThreshold
				if p.IsEModeEnabled {
					thr = par.ELiquidationThreshold
				}
				target = new(big.Rat).Add(new(big.Rat).SetFrac(thr.BigInt(), big.NewInt(1_000_000_000_000_000_000)), big.NewRat(int64(5+e.rnd.Intn(55)), 1000))
			}
			f := new(big.Rat).Quo(new(big.Rat).Quo(debt, coll), target)
			np := new(big.Rat).Mul(new(big.Rat).SetUint64(pin), f)
			n := new(big.Int).Quo(np.Num(), np.Denom()).Uint64()
			if n > 0 && n < pin {
				e.u.SetPrice(p.AssetIn, n, true)
				if e.rnd.Intn(2) == 0 {
					restore = pin
				}
				e.log(fmt.Sprintf("price %s %d -> %d inside the block (borrow %d to ratio ~%s)", in.Denom, pin, n, b.ID, target.FloatString(2)))
				cls = "made-unsafe"
			}
		}
	}
	who := e.c.Accts[e.rnd.Intn(len(e.c.Accts))]
	res, _ := e.deliver(who, &liqtypes.MsgLiquidateBorrowRequest{From: who.Addr.String(), BorrowId: b.ID})
	desc := fmt.Sprintf("%s sends the generation-1 liquidate message for borrow %d (pair=%d in=%s out=%s int=%s stable=%v) [%s]", who.Name, b.ID, b.PairID, b.AmountIn, b.AmountOut, b.InterestAccumulated, b.IsStableBorrow, cls)
	post := e.finishTx(pre, "liquidate-borrow-gen1", cls, res, desc)
	if pb, ok := post.borrows[b.ID]; ok && pb.IsLiquidated && res.OK() {
		e.rec.Count("borrows_seized_by_gen1_message", 1)
	}
	if restore != 0 {
		e.u.SetPrice(p.AssetIn, restore, true)
		e.log(fmt.Sprintf("price %s back to %d", e.u.Assets[p.AssetIn].Denom, restore))
	}
}

// gen1Bid: a bid (denominated in collateral to buy) on a generation-1 lend Dutch auction.
func (e *c08Env) gen1Bid() bool {
	as := e.gen1LendAuctions()
	if len(as) == 0 {
		return false
	}
	e.step++
	pre := e.snap()
	a := as[e.rnd.Intn(len(as))]
	bidder := e.c.Accts[e.rnd.Intn(len(e.c.Accts))]
	left := a.OutflowTokenCurrentAmount.Amount
	var amt sdk.Int
	var cls string
	switch x := e.rnd.Intn(100); {
	case x < 10:
		amt, cls = sdk.NewInt(int64(1+e.rnd.Intn(100))), "tiny"
	case x < 40:
		amt, cls = left, "all-collateral"
	case x < 48:
		amt, cls = left.AddRaw(1), "all-collateral+1"
	default:
		amt, cls = left.MulRaw(int64(1+e.rnd.Intn(98))).QuoRaw(100).AddRaw(1), "partial"
	}
	res, _ := e.deliver(bidder, auctiontypes.NewMsgPlaceDutchLendBid(bidder.Addr.String(), a.AuctionId, sdk.NewCoin(a.OutflowTokenCurrentAmount.Denom, amt), a.AppId, a.AuctionMappingId))
	desc := fmt.Sprintf("%s bids for %s%s on generation-1 lend auction %d (collateral left %s, raised %s of %s) [%s]", bidder.Name, amt, a.OutflowTokenCurrentAmount.Denom, a.AuctionId, a.OutflowTokenCurrentAmount, a.InflowTokenCurrentAmount, a.InflowTokenTargetAmount, cls)
	e.finishTx(pre, "bid-lend-gen1", cls, res, desc)
	e.rec.Count("gen1_lend_bids_attempted", 1)
	if !res.OK() {
		e.rec.Count("gen1_lend_bid_rejected: "+c08LogClass(res.Log), 1)
		return true
	}
	e.rec.Count("gen1_lend_bids_ok", 1)
	still := false
	for _, x := range e.gen1LendAuctions() {
		if x.AuctionId == a.AuctionId {
			still = true
		}
	}
	if !still {
		e.rec.Count("gen1_lend_auctions_closed", 1)
	}
	return true
}

// gen1Phase: the tail of a liquidation run. Kept apart from the main history so that a discrepancy the generation-1
// path leaves in the books cannot hide a later one of the ordinary messages.
func (e *c08Env) gen1Phase(steps int) {
	// first, while no generation-1 auction is open: the one case the reserve-funding handler settles correctly (app id 3,
	// a variable same-pool borrow out of pool 1 that is its owner's only one of that collateral and debt, seized just
	// above its threshold so that the target stays below the principal, nobody has bid) — see fundReserve
	for try := 0; try < 4 && e.u.App == 3 && !e.panicked && len(e.gen1LendAuctions()) == 0; try++ {
		s := e.snap()
		var ids []uint64
		for id, b := range s.borrows {
			p, ok := e.pair(b.PairID)
			if !ok || b.IsLiquidated || b.IsStableBorrow || p.IsInterPool || p.AssetOutPoolID != 1 || p.AssetIn == p.AssetOut {
				continue
			}
			same := 0
			for _, o := range s.borrows {
				if q, ok := e.pair(o.PairID); ok && s.lends[o.LendingID].Owner == s.lends[b.LendingID].Owner && q.AssetIn == p.AssetIn && q.AssetOut == p.AssetOut {
					same++
				}
			}
			if same == 1 {
				ids = append(ids, id)
			}
		}
		if len(ids) == 0 {
			e.force = "same-pool"
			e.txStep()
			continue
		}
		sort.Slice(ids, func(i, j int) bool { return ids[i] < ids[j] })
		e.gen1ForceID = ids[e.rnd.Intn(len(ids))]
		e.gen1Liquidate(true)
		if len(e.gen1LendAuctions()) > 0 {
			e.rec.Count("gen1_simple_case_auctions_opened", 1)
			e.fundReserve("gen1-phase/aimed", false)
		}
	}
	for i := 0; i < steps && !e.panicked; i++ {
		switch x := e.rnd.Intn(100); {
		case x < 14:
			e.gen1Liquidate(true)
		case x < 18:
			e.gen1Liquidate(false)
		case x < 40:
			if !e.gen1Bid() {
				e.txStep()
			}
		case x < 48:
			if !e.bidStep() {
				e.txStep()
			}
		case x < 62:
			e.blockStep()
		case x < 70:
			// somebody funds the reserve while generation-1 lend auctions are open (the handler then looks for
			// auctions the reserve can settle and re-opens their borrows)
			e.fundReserve("gen1-phase", false)
		default:
			e.txStep()
		}
	}
	// last transaction of the run: the reserve is funded whatever auctions are open (see fundReserve)
	if !e.panicked {
		e.fundReserve("gen1-phase-last-tx", true)
	}
}

// fundReserve: somebody sends MsgFundReserveAccounts. Its handler ends with RemoveFaultyAuctions, which looks for open
// generation-1 lend auctions under app id 3 and, when the reserve holds an auction's whole target, settles it out of
// the reserve and re-opens the borrow. That routine books correctly only in the simple case (the borrow lends out of
// pool 1 at the variable rate, the target does not exceed its principal, nobody has bid yet and the owner has no other
// borrow of the same collateral asset and debt denom); outside it the tree as given corrupts the books (known finding,
// label suffix "outside-the-simple-case"). A corrupting settlement is only sent when lastTx is set (the run ends with
// it); in the middle of a run the message is skipped while such an auction is open.
func (e *c08Env) fundReserve(cls string, lastTx bool) {
	c := e.c
	funder := c.Accts[5]
	a := e.u.Assets[e.u.Order[e.rnd.Intn(len(e.u.Order))]]
	amt := sdk.NewInt(int64(2 + e.rnd.Intn(50_000_000)))
	coin := sdk.NewCoin(a.Denom, amt)
	open := e.gen1LendAuctions()
	settles, flags := 0, map[string]bool{}
	if e.u.App == 3 && len(open) > 0 {
		ctx := c.Ctx()
		reserve := map[string]sdk.Int{}
		resAddr := c.ModAddr(lendtypes.ModuleName)
		for _, au := range open {
			tgt := au.InflowTokenTargetAmount
			have, ok := reserve[tgt.Denom]
			if !ok {
				have = c.App.BankKeeper.GetBalance(ctx, resAddr, tgt.Denom).Amount
				if tgt.Denom == coin.Denom {
					have = have.Add(coin.Amount)
				}
			}
			if have.LT(tgt.Amount) {
				reserve[tgt.Denom] = have
				continue // the handler skips this auction
			}
			reserve[tgt.Denom] = have.Sub(tgt.Amount)
			settles++
			lv, found := c.App.LiquidationKeeper.GetLockedVault(ctx, 3, au.LockedVaultId)
			if !found {
				flags["no-locked-vault"] = true
				continue
			}
			b, found := c.App.LendKeeper.GetBorrow(ctx, lv.OriginalVaultId)
			if !found {
				flags["borrow-gone"] = true
				continue
			}
			if picked := c.App.LendKeeper.GetBorrowByUserAndAssetID(ctx, au.VaultOwner.String(), tgt.Denom, au.AssetOutId); picked.ID != b.ID {
				flags["owner-has-another-such-borrow"] = true
			}
			if pair, ok := c.App.LendKeeper.GetLendPair(ctx, b.PairID); !ok || pair.AssetOutPoolID != 1 {
				flags["other-pool"] = true
			}
			if b.IsStableBorrow {
				flags["stable"] = true
			}
			if tgt.Amount.GT(b.AmountOut.Amount) {
				flags["target-above-principal"] = true
			}
			if au.InflowTokenCurrentAmount.Amount.IsPositive() {
				flags["partly-bid"] = true
			}
		}
	}
	for f := range flags {
		e.rec.Count("fund_reserve_flag_"+f, 1)
	}
	if settles > 0 && len(flags) == 0 {
		e.rec.Count("fund_reserve_flag_none", 1)
	}
	if settles > 0 && len(flags) > 0 && !lastTx {
		e.rec.Count("fund_reserve_skipped_while_a_gen1_auction_outside_the_simple_case_is_open", 1)
		return
	}
	e.step++
	pre := e.snap()
	res, _ := e.deliver(funder, lendtypes.NewMsgFundReserveAccounts(a.ID, funder.Addr.String(), coin))
	op, what := "fund-reserve", ""
	if settles > 0 && res.OK() {
		var fl []string
		for f := range flags {
			fl = append(fl, f)
		}
		sort.Strings(fl)
		if len(fl) == 0 {
			op, what = "fund-reserve/reserve-settles-gen1-auction/simple-case", fmt.Sprintf(", the handler settles %d generation-1 auction(s) out of the reserve (simple case)", settles)
			e.rec.Count("fund_reserve_settles_gen1_auction_simple_case", 1)
		} else {
			op, what = "fund-reserve/reserve-settles-gen1-auction/outside-the-simple-case", fmt.Sprintf(", the handler settles %d generation-1 auction(s) out of the reserve (%s)", settles, strings.Join(fl, ","))
			e.rec.Count("fund_reserve_settles_gen1_auction_outside_the_simple_case", 1)
		}
		if got := len(open) - len(e.gen1LendAuctions()); got != settles {
			e.rec.Note(fmt.Sprintf("fund-reserve: expected %d settled generation-1 auctions, %d vanished", settles, got))
		}
	}
	if len(open) > 0 {
		cls += "/gen1-auction-open"
	}
	e.finishTx(pre, op, cls, res, fmt.Sprintf("%s funds the reserve with %s (%s)%s", funder.Name, coin, cls, what))
}

// c08LogClass reduces a rejection log to a stable class (no amounts, ids or addresses), for counters.
func c08LogClass(s string) string {
	s = c08ShortLog(s)
	var b []byte
	digits := false
	for i := 0; i < len(s); i++ {
		ch := s[i]
		if ch >= '0' && ch <= '9' {
			if !digits {
				b = append(b, 'N')
			}
			digits = true
			continue
		}
		digits = false
		b = append(b, ch)
	}
	return string(b)
}
