package props

import (
	"fmt"
	"math/big"
	"testing"

	sdk "github.com/cosmos/cosmos-sdk/types"

	collectortypes "github.com/comdex-official/comdex/x/collector/types"
	vaulttypes "github.com/comdex-official/comdex/x/vault/types"

	"verif/ev"
)

// ---- C02: no unbacked stablecoin ----

type c02Mon struct {
	u       *cdpU
	rec     *ev.Rec
	st      *settleTracker
	debt    map[string]bool
	hadLiq  bool // a seizure was observed in this history: equality regime is over
	lastGap map[string]*big.Int
}

func newC02Mon(u *cdpU, rec *ev.Rec) *c02Mon {
	m := &c02Mon{u: u, rec: rec, st: newSettleTracker(), debt: map[string]bool{}, lastGap: map[string]*big.Int{}}
	for _, p := range u.products {
		m.debt[p.Out.Denom] = true
	}
	return m
}

// principal sums recorded principal per debt denom: open vaults + stable-mint vaults + awaiting auction.
func (m *c02Mon) principal(s *cdpSnap) map[string]*big.Int {
	out := map[string]*big.Int{}
	for d := range m.debt {
		out[d] = new(big.Int)
	}
	for _, v := range s.Vaults {
		if p := m.u.prodByID[v.ExtendedPairVaultID]; p != nil {
			out[p.Out.Denom].Add(out[p.Out.Denom], v.AmountOut.BigInt())
		}
	}
	for _, v := range s.Stable {
		if p := m.u.prodByID[v.ExtendedPairVaultID]; p != nil {
			out[p.Out.Denom].Add(out[p.Out.Denom], v.AmountOut.BigInt())
		}
	}
	for _, a := range m.st.await {
		if p := m.u.prodByID[a.Prod]; p != nil {
			out[p.Out.Denom].Add(out[p.Out.Denom], a.Out)
		}
	}
	// debt registered for emergency redemption (the vaults of an app in shutdown are gone, their debt still circulates)
	for k, amt := range s.EsmDebt {
		if as := m.u.byID[k.Asset]; as != nil && out[as.Denom] != nil {
			out[as.Denom].Add(out[as.Denom], amt.BigInt())
		}
	}
	return out
}

func floorMulDec(x *big.Int, d sdk.Dec) *big.Int {
	n := new(big.Int).Mul(x, d.BigInt())
	return n.Quo(n, big.NewInt(1_000_000_000_000_000_000))
}

func (m *c02Mon) Observe(pre, post *cdpSnap, e *cdpEvent) {
	// principal(pre) must use the awaiting set as it was before this event
	prePrin := m.principal(pre)
	m.st.advance(pre, post)
	if m.st.seizedV1+m.st.seizedV2 > 0 {
		m.hadLiq = true
	}
	postPrin := m.principal(post)
	ctx := m.st.context(pre, post)
	m.rec.Count("esm_hand_backs_v2", int64(m.st.esmHandBackV2))
	m.rec.Count("esm_hand_backs_v2_of_auctions_with_bids", int64(m.st.esmHandBackPaidV2))
	for d := range m.debt {
		m.rec.Eval(1)
		sup := post.Supply[d]
		gap := bigSub(sup, postPrin[d]) // > 0 means unbacked supply
		old := m.lastGap[d]
		if old == nil {
			old = new(big.Int)
		}
		if gap.Sign() > 0 && gap.Cmp(old) != 0 {
			m.rec.Violate(fmt.Sprintf("C02/supply-exceeds-principal/%s%s", opTag(e), ctx), fmt.Sprintf("supply of %s exceeds recorded principal by %s", d, gap),
				map[string]interface{}{"denom": d, "supply": sup.String(), "recorded_principal": postPrin[d].String(), "event": e.String()})
		}
		if !m.hadLiq && gap.Sign() != 0 && gap.Cmp(old) != 0 {
			m.rec.Violate(fmt.Sprintf("C02/supply-not-equal-principal-without-liquidations/%s%s", opTag(e), ctx), fmt.Sprintf("no liquidation so far but supply of %s differs from recorded principal by %s", d, gap),
				map[string]interface{}{"denom": d, "supply": sup.String(), "recorded_principal": postPrin[d].String(), "event": e.String()})
		}
		if m.st.esmHandBackV2 > 0 && m.lastGap[d] != nil && gap.Cmp(old) > 0 {
			// an emergency hand-back re-opens the seized vault: what it takes off the books (awaiting-auction principal
			// less the re-opened vault's debt) must be covered by what it burns, whatever slack earlier events left
			m.rec.Violate("C02/esm-hand-back-v2/retired-more-principal-than-burned/"+opTag(e), fmt.Sprintf("supply minus recorded principal of %s went from %s to %s in a block that handed a seized vault back", d, old, gap),
				map[string]interface{}{"denom": d, "supply": sup.String(), "recorded_principal": postPrin[d].String(), "event": e.String()})
		}
		m.lastGap[d] = gap
	}
	if e.Kind != "tx" || !e.Res.OK() || e.Signer == nil {
		return
	}
	// per-message laws
	var prodID uint64
	kind := ""
	switch x := e.Msg.(type) {
	case *vaulttypes.MsgCreateRequest:
		prodID, kind = x.ExtendedPairVaultId, "mint"
	case *vaulttypes.MsgDrawRequest:
		prodID, kind = x.ExtendedPairVaultId, "mint"
	case *vaulttypes.MsgDepositAndDrawRequest:
		prodID, kind = x.ExtendedPairVaultId, "mint"
	case *vaulttypes.MsgCreateStableMintRequest:
		prodID, kind = x.ExtendedPairVaultId, "mint"
	case *vaulttypes.MsgDepositStableMintRequest:
		prodID, kind = x.ExtendedPairVaultId, "mint"
	case *vaulttypes.MsgRepayRequest:
		prodID, kind = x.ExtendedPairVaultId, "retire"
	case *vaulttypes.MsgCloseRequest:
		prodID, kind = x.ExtendedPairVaultId, "retire"
	case *vaulttypes.MsgWithdrawStableMintRequest:
		prodID, kind = x.ExtendedPairVaultId, "retire"
	case *vaulttypes.MsgDepositRequest:
		prodID, kind = x.ExtendedPairVaultId, "neutral"
	case *vaulttypes.MsgWithdrawRequest:
		prodID, kind = x.ExtendedPairVaultId, "neutral"
	case *vaulttypes.MsgVaultInterestCalcRequest:
		kind = "neutral-any"
	default:
		return
	}
	if kind == "neutral-any" {
		for d := range m.debt {
			if post.Supply[d].Cmp(pre.Supply[d]) != 0 {
				m.rec.Violate("C02/interest-calc-changed-supply", "interest calculation changed the supply of "+d, map[string]interface{}{"event": e.String()})
			}
		}
		return
	}
	p := m.u.prodByID[prodID]
	if p == nil {
		return
	}
	d := p.Out.Denom
	dPrin := bigSub(postPrin[d], prePrin[d])
	dSup := bigSub(post.Supply[d], pre.Supply[d])
	dUser := bigSub(post.bal(e.Signer.Name, d), pre.bal(e.Signer.Name, d))
	dColl := bigSub(post.bal(modLabel(collectortypes.ModuleName), d), pre.bal(modLabel(collectortypes.ModuleName), d))
	det := func() map[string]interface{} {
		return map[string]interface{}{"event": e.String(), "product": p.ID, "pair": p.P.PairName, "in_decimals": p.In.Dec.String(), "out_decimals": p.Out.Dec.String(), "draw_down_fee": p.P.DrawDownFee.String(),
			"delta_principal": dPrin.String(), "delta_supply": dSup.String(), "delta_user": dUser.String(), "delta_collector": dColl.String()}
	}
	m.rec.Eval(1)
	m.rec.Distinct("C02", e.Op, p.ID, dPrin.Sign(), p.P.DrawDownFee.IsZero(), p.In.Dec.Cmp(p.Out.Dec))
	switch kind {
	case "mint":
		m.rec.Count("mints_checked", 1)
		if dSup.Cmp(dPrin) != 0 {
			m.rec.Violate(fmt.Sprintf("C02/mint/%s/supply-delta-not-principal-delta", e.Op), "minted amount differs from the recorded new principal", det())
		}
		fee := floorMulDec(dPrin, p.P.DrawDownFee)
		if dColl.Cmp(fee) != 0 {
			m.rec.Violate(fmt.Sprintf("C02/mint/%s/collector-fee-not-drawdown-fee", e.Op), fmt.Sprintf("collector received %s, configured draw-down fee on the new principal is %s", dColl, fee), det())
		}
		if want := bigSub(dPrin, fee); dUser.Cmp(want) != 0 {
			cls := "user-received-not-principal-minus-fee"
			if p.P.IsStableMintVault && p.P.DrawDownFee.IsZero() {
				cls += "/zero-fee-stable-mint"
			}
			m.rec.Violate(fmt.Sprintf("C02/mint/%s/%s", e.Op, cls), fmt.Sprintf("user received %s, recorded new principal less fee is %s", dUser, want), det())
		}
	case "retire":
		m.rec.Count("retirements_checked", 1)
		if dSup.Cmp(dPrin) != 0 {
			m.rec.Violate(fmt.Sprintf("C02/retire/%s/burn-not-principal-retired", e.Op), fmt.Sprintf("burned %s but principal retired is %s", new(big.Int).Neg(dSup), new(big.Int).Neg(dPrin)), det())
		}
		if dSup.Sign() > 0 {
			m.rec.Violate(fmt.Sprintf("C02/retire/%s/minted", e.Op), "a repayment/close minted coins", det())
		}
	case "neutral":
		if dSup.Sign() != 0 || dPrin.Sign() != 0 {
			m.rec.Violate(fmt.Sprintf("C02/neutral/%s/supply-or-principal-changed", e.Op), "a collateral-only message changed supply or principal", det())
		}
	}
}

func TestC02(t *testing.T) {
	rec := ev.New("C02", "exploration", "seeded mixed CDP workload over fee configurations (zero and non-zero draw-down / stability / closing fees) and decimal scale pairs (6-6, 18-6, 8-6, 6-12, 18-6 stable-mint); half of the runs without price moves (equality regime). After every event: supply <= recorded principal (== without liquidations); per successful message: supply/user/collector deltas vs recorded principal delta. distinct = (op, product, sign of principal delta, zero fee?, decimals relation)")
	defer finish(t, rec)
	runs := ev.Pick(2, 4)
	for run := 0; run < runs; run++ {
		variant := ev.ShardNo()*runs + run
		u := newCDP(t, cdpOpts{variant: variant})
		rnd := rng("C02", run)
		cfg := cdpCfg{priceMoves: run%2 == 1, bids: run%2 == 1, lockers: false, unsolicited: false, liquidateMsg: run%2 == 1, reserve: run%2 == 1, govChanges: variant%3 == 0}
		r := newCdpRunner(u, rnd, rec, cfg, newC02Mon(u, rec))
		r.run(cdpSteps())
		// emergency shutdown of one app at the end of every second run
		if variant%4 < 2 {
			r.esmPhase(u.cdpApps[(variant/2)%len(u.cdpApps)])
		}
		if run == 0 {
			rec.Sample(map[string]interface{}{"variant": variant, "oplog_tail": r.tail(10)})
		}
		u.c.Close()
	}
	rec.Floor("mints_checked", 50)
	rec.Floor("retirements_checked", 10)
}
