package props

import (
	"fmt"
	"math"
	"math/big"
	"strings"
	"testing"

	sdk "github.com/cosmos/cosmos-sdk/types"

	assettypes "github.com/comdex-official/comdex/x/asset/types"
	bandtypes "github.com/comdex-official/comdex/x/bandoracle/types"

	"verif/ev"
	"verif/mon"
	"verif/sim"
)

var c17Alphabet = []uint64{3, 7, math.MaxUint64, 1 << 63, 0}

func c17Letter(v uint64) string {
	switch v {
	case math.MaxUint64:
		return "M"
	case 1 << 63:
		return "H"
	case 0:
		return "0"
	}
	return fmt.Sprint(v)
}

type c17Env struct {
	c     *sim.Chain
	rec   *ev.Rec
	asset uint64
	dec   *big.Int
}

// c17Check compares the chain's record with the reference ring after a sample.
func (e *c17Env) check(ctx sdk.Context, ring *mon.Ring, lastWasZero bool, hist func() string, tag string) {
	k := e.c.App.MarketKeeper
	e.rec.Eval(1)
	twa, found := k.GetTwa(ctx, e.asset)
	active := found && twa.IsPriceActive
	n := ring.N
	switch {
	case active && !ring.Active && lastWasZero:
		e.rec.Violate(fmt.Sprintf("C17/%s/active-after-zero", tag), "price still active right after a zero sample", map[string]interface{}{"N": n, "history": hist()})
	case active && !ring.Active:
		e.rec.Violate(fmt.Sprintf("C17/%s/active-early", tag), fmt.Sprintf("active with %d<N positive samples since last reset", len(ring.Window)), map[string]interface{}{"N": n, "history": hist()})
	case !active && ring.Active:
		e.rec.Violate(fmt.Sprintf("C17/%s/not-active-after-N", tag), "N positive samples received but price not active", map[string]interface{}{"N": n, "history": hist()})
	}
	if active && ring.Active {
		want := ring.Mean()
		if new(big.Int).SetUint64(twa.Twa).Cmp(want) != 0 {
			sub := "mean-mismatch"
			s := new(big.Int)
			for _, v := range ring.Window {
				s.Add(s, new(big.Int).SetUint64(v))
			}
			if s.BitLen() > 64 {
				sub = "mean-mismatch-sum-exceeds-uint64"
			}
			e.rec.Violate(fmt.Sprintf("C17/%s/%s", tag, sub), fmt.Sprintf("published twa %d != integer mean %s of last N samples", twa.Twa, want), map[string]interface{}{"N": n, "history": hist(), "window": fmt.Sprint(ring.Window)})
		}
	}
	// consumers
	amt := sdk.NewInt(1_000_000)
	var price sdk.Dec
	var err error
	func() {
		defer func() {
			if r := recover(); r != nil {
				e.rec.Violate(fmt.Sprintf("C17/%s/consumer-panic/CalcAssetPrice", tag), fmt.Sprint(r), map[string]interface{}{"N": n, "history": hist()})
				err = fmt.Errorf("panic")
			}
		}()
		price, err = k.CalcAssetPrice(ctx, e.asset, amt)
	}()
	if !active && err == nil {
		e.rec.Violate(fmt.Sprintf("C17/%s/consumer-no-error-while-inactive/CalcAssetPrice", tag), "CalcAssetPrice succeeded while price inactive", map[string]interface{}{"N": n, "history": hist()})
	}
	if active && err != nil {
		e.rec.Violate(fmt.Sprintf("C17/%s/consumer-error-while-active/CalcAssetPrice", tag), err.Error(), map[string]interface{}{"N": n, "history": hist()})
	}
	if active && err == nil {
		// value = amt*twa/decimals, one Dec rounding (Quo half-up): |got - exact| <= 1e-18
		exact := new(big.Rat).SetFrac(new(big.Int).Mul(amt.BigInt(), new(big.Int).SetUint64(twa.Twa)), e.dec)
		got := new(big.Rat).SetFrac(price.BigInt(), big.NewInt(1_000_000_000_000_000_000))
		d := new(big.Rat).Sub(got, exact)
		d.Abs(d)
		if d.Cmp(big.NewRat(1, 1_000_000_000_000_000_000)) > 0 {
			e.rec.Violate(fmt.Sprintf("C17/%s/consumer-wrong-value/CalcAssetPrice", tag), fmt.Sprintf("got %s want %s", price, exact.FloatString(18)), map[string]interface{}{"N": n, "history": hist()})
		}
	}
	var lp uint64
	func() {
		defer func() {
			if r := recover(); r != nil {
				e.rec.Violate(fmt.Sprintf("C17/%s/consumer-panic/GetLatestPrice", tag), fmt.Sprint(r), map[string]interface{}{"N": n, "history": hist()})
				err = fmt.Errorf("panic")
			}
		}()
		lp, err = k.GetLatestPrice(ctx, e.asset)
	}()
	if !active && err == nil {
		e.rec.Violate(fmt.Sprintf("C17/%s/consumer-no-error-while-inactive/GetLatestPrice", tag), "GetLatestPrice succeeded while price inactive", map[string]interface{}{"N": n, "history": hist()})
	}
	if active && ring.Active && err == nil && !ring.Contains(lp) {
		e.rec.Violate(fmt.Sprintf("C17/%s/consumer-outside-window/GetLatestPrice", tag), fmt.Sprintf("returned %d which is not one of the last N samples %v", lp, ring.Window), map[string]interface{}{"N": n, "history": hist()})
	}
}

// c17Tag: labels carry the window size only for the degenerate window N=1.
func c17Tag(mode string, n int) string {
	if n == 1 {
		return mode + "/N=1"
	}
	return mode
}

func panicClass(r interface{}) string {
	s := fmt.Sprint(r)
	switch {
	case strings.Contains(s, "index out of range"):
		return "index-out-of-range"
	case strings.Contains(s, "slice bounds out of range"):
		return "slice-bounds-out-of-range"
	case strings.Contains(s, "nil pointer"):
		return "nil-pointer"
	case strings.Contains(s, "divide by zero"):
		return "divide-by-zero"
	case strings.Contains(s, "overflow"), strings.Contains(s, "out of bound"):
		return "overflow"
	case strings.Contains(s, "negative coin amount"):
		return "negative-coin"
	}
	if len(s) > 40 {
		s = s[:40]
	}
	return strings.ReplaceAll(s, " ", "_")
}

func TestC17(t *testing.T) {
	rec := ev.New("C17", "exploration", "direct: every sample sequence up to length L over {3,7,2^64-1,2^63,0} for each window size N and accepted gap (DFS over cache contexts, one oracle evaluation per prefix), plus seeded long random sequences; pipeline: real bandoracle->market begin-block feed with fresh/stale responses. distinct = distinct (N,gap,reference-ring state,sample) tuples")
	defer finish(t, rec)
	c := sim.New(sim.Options{})
	defer c.Close()
	ctx := c.Ctx()
	must(t, c.App.AssetKeeper.AddAssetRecords(ctx, assettypes.Asset{Name: "ATOM", Denom: "uatom", Decimals: sdk.NewInt(1_000_000), IsOnChain: true, IsOraclePriceRequired: true}))
	e := &c17Env{c: c, rec: rec, asset: 1, dec: big.NewInt(1_000_000)}

	Ns := []int{1, 2, 3, 5, 8, 20}
	gaps := []int64{1, 20, 21, 41, 100}
	L := ev.Pick(6, 8)
	caseNo := 0
	for _, n := range Ns {
		for _, gap := range gaps {
			caseNo++
			if !mine(caseNo) {
				continue
			}
			depth := L
			if n >= 5 && L+2 < n+2 { // make sure a full window is reachable
				depth = L
			}
			var hist []string
			histf := func() string { return fmt.Sprintf("N=%d gap=%d samples(+20 heights each)=%s", n, gap, strings.Join(hist, ",")) }
			var dfs func(ctx sdk.Context, ring *mon.Ring, h int64, d int) bool
			dfs = func(ctx sdk.Context, ring *mon.Ring, h int64, d int) bool {
				if d == 0 {
					return true
				}
				for _, v := range c17Alphabet {
					cctx, _ := ctx.CacheContext()
					cctx = cctx.WithBlockHeight(h)
					hist = append(hist, c17Letter(v))
					r2 := ring.Clone()
					panicked := false
					func() {
						defer func() {
							if r := recover(); r != nil {
								panicked = true
								rec.Eval(1)
								rec.Violate(fmt.Sprintf("C17/%s/panic/%s", c17Tag("direct", n), panicClass(r)), fmt.Sprintf("UpdatePriceList panicked: %v", r), map[string]interface{}{"N": n, "history": histf()})
							}
						}()
						c.App.MarketKeeper.UpdatePriceList(cctx, e.asset, 1, v, uint64(n), gap)
					}()
					if !panicked {
						r2.Sample(v, h, gap)
						rec.Distinct(n, gap, fmt.Sprint(r2.Window), r2.Active, r2.Discarded > 0, v)
						e.check(cctx, r2, v == 0, histf, c17Tag("direct", n))
						if r2.Active {
							rec.Count("direct_active_states", 1)
						}
						if len(hist) == depth && caseNo%7 == 0 && v == 7 {
							rec.Sample(map[string]interface{}{"mode": "direct", "history": histf(), "ring": fmt.Sprint(r2.Window), "active": r2.Active})
						}
						dfs(cctx, r2, h+20, d-1)
					}
					hist = hist[:len(hist)-1]
				}
				return true
			}
			// for large N, first fill the window minus (L-2) with a fixed prefix so the interesting region is reached
			ring := mon.NewRing(n)
			bctx, _ := ctx.CacheContext()
			h := int64(20)
			pre := 0
			if n > depth-3 {
				pre = n - (depth - 3)
				if pre < 0 {
					pre = 0
				}
			}
			prefixOK := true
			for i := 0; i < pre && prefixOK; i++ {
				v := uint64(1000 + i)
				func() {
					defer func() {
						if r := recover(); r != nil {
							prefixOK = false
							rec.Violate(fmt.Sprintf("C17/%s/panic/%s", c17Tag("direct", n), panicClass(r)), fmt.Sprint(r), map[string]interface{}{"N": n, "history": "prefix fill"})
						}
					}()
					c.App.MarketKeeper.UpdatePriceList(bctx.WithBlockHeight(h), e.asset, 1, v, uint64(n), gap)
				}()
				ring.Sample(v, h, gap)
				hist = append(hist, fmt.Sprint(v))
				h += 20
			}
			if prefixOK {
				dfs(bctx, ring, h, depth)
			}
			hist = nil
			rec.Count("direct_cases", 1)
		}
	}

	// seeded long random sequences (direct)
	rnd := rng("C17")
	nLong := ev.Pick(150, 1500)
	for i := 0; i < nLong; i++ {
		n := []int{1, 2, 3, 4, 5, 8, 13, 20}[rnd.Intn(8)]
		gap := []int64{1, 20, 21, 40, 41, 60, 61, 1000}[rnd.Intn(8)]
		ring := mon.NewRing(n)
		cctx, _ := ctx.CacheContext()
		h := int64(20)
		var hist []string
		histf := func() string { return fmt.Sprintf("N=%d gap=%d samples=%s", n, gap, strings.Join(hist, ",")) }
		pz := []int{5, 20, 50}[rnd.Intn(3)]
		for j := 0; j < 60+4*n; j++ {
			var v uint64
			switch x := rnd.Intn(100); {
			case x < pz:
				v = 0
			case x < pz+10:
				v = math.MaxUint64 - uint64(rnd.Intn(3))
			case x < pz+15:
				v = 1 << 63
			case x < pz+30:
				v = uint64(rnd.Int63n(10) + 1)
			default:
				v = uint64(rnd.Int63())
			}
			step := int64(20 * (1 + rnd.Intn(3)))
			hc := cctx.WithBlockHeight(h)
			hist = append(hist, fmt.Sprintf("%s@%d", c17Letter(v), h))
			panicked := false
			func() {
				defer func() {
					if r := recover(); r != nil {
						panicked = true
						rec.Eval(1)
						rec.Violate(fmt.Sprintf("C17/%s/panic/%s", c17Tag("direct", n), panicClass(r)), fmt.Sprintf("UpdatePriceList panicked: %v", r), map[string]interface{}{"N": n, "history": histf()})
					}
				}()
				c.App.MarketKeeper.UpdatePriceList(hc, e.asset, 1, v, uint64(n), gap)
			}()
			if panicked {
				break
			}
			ring.Sample(v, h, gap)
			rec.Distinct(n, gap, fmt.Sprint(ring.Window), ring.Active, ring.Discarded > 0, v)
			e.check(hc, ring, v == 0, histf, c17Tag("direct", n))
			h += step
		}
		if i == 0 {
			rec.Sample(map[string]interface{}{"mode": "direct-random", "history": histf()})
		}
		rec.Count("direct_random_sequences", 1)
	}
	c17Pipeline(t, rec)
	rec.Floor("direct_active_states", 100)
	rec.Floor("pipeline_samples", 20)
}

// c17Pipeline feeds the real begin-block pipeline: oracle responses are stored
// the way the IBC acknowledgement handler stores them, and the bandoracle and
// market begin blockers of real ABCI blocks consume them.
func c17Pipeline(t *testing.T, rec *ev.Rec) {
	rnd := rng("C17-pipeline")
	runs := ev.Pick(2, 6)
	for run := 0; run < runs; run++ {
		n := []int{1, 2, 3, 5}[(run+ev.ShardNo())%4]
		gap := []int64{1, 20, 41, 100}[rnd.Intn(4)]
		if run == 0 {
			gap = []int64{20, 100}[ev.ShardNo()%2] // a multiple of the request period: the exact-gap outage below is reachable
		}
		c := sim.New(sim.Options{})
		panicked := false
		var hist []string
		histf := func() string { return fmt.Sprintf("pipeline N=%d gap=%d rounds=%s", n, gap, strings.Join(hist, " ")) }
		c.PanicHook = func(phase string, h int64, r interface{}) {
			panicked = true
			rec.Eval(1)
			rec.Violate(fmt.Sprintf("C17/%s/panic/%s", c17Tag("pipeline", n), panicClass(r)), fmt.Sprintf("%s at height %d panicked: %v", phase, h, r), map[string]interface{}{"N": n, "history": histf()})
		}
		ctx := c.Ctx()
		names := []string{"ATOM", "CMDX", "OSMO"}
		for i, nm := range names {
			must(t, c.App.AssetKeeper.AddAssetRecords(ctx, assettypes.Asset{Name: nm, Denom: "u" + strings.ToLower(nm), Decimals: sdk.NewInt(1_000_000), IsOnChain: true, IsOraclePriceRequired: i != 1 || run%2 == 0}))
		}
		must(t, c.App.BandoracleKeeper.AddFetchPriceRecords(ctx, bandtypes.MsgFetchPriceData{OracleScriptID: 112, SourceChannel: "channel-0", AskCount: 1, MinCount: 1, FeeLimit: sdk.NewCoins(), PrepareGas: 1, ExecuteGas: 1, TwaBatchSize: uint64(n), AcceptedHeightDiff: gap}))
		assets := c.App.AssetKeeper.GetAssets(ctx)
		var oracleAssets []uint64
		for _, a := range assets {
			if a.IsOraclePriceRequired {
				oracleAssets = append(oracleAssets, a.Id)
			}
		}
		rings := map[uint64]*mon.Ring{}
		for _, id := range oracleAssets {
			rings[id] = mon.NewRing(n)
		}
		// reference of the feed protocol
		checkFlag := false
		validation := false
		var temp, lastID int64
		staleSince := int64(-1)
		rounds := ev.Pick(40, 120)
		var rates []uint64
		lastZero := map[uint64]bool{}
		// honest relayer: a result answers the request of the previous 20th block, i.e. it carries one rate per asset
		// of the oracle set AS IT WAS THEN; intent[id] is the value meant for asset id in the latest result
		reqList := append([]uint64(nil), oracleAssets...)
		intent := map[uint64]uint64{}
		var answered []uint64
		forceFresh := 0
		joined := false
		aimedStale := 0
		for round := 0; round < rounds && !panicked; round++ {
			// governance switches the oracle price requirement on for an existing asset whose id lies between two oracle
			// assets (odd runs: CMDX). The relayer answers promptly in the two rounds that follow.
			if !joined && run%2 == 1 && round > 8 && rnd.Intn(6) == 0 {
				for _, a := range c.App.AssetKeeper.GetAssets(c.Ctx()) {
					if a.Name == "CMDX" && !a.IsOraclePriceRequired {
						a.IsOraclePriceRequired = true
						must(t, c.App.AssetKeeper.UpdateAssetRecords(c.Ctx(), a))
						oracleAssets = oracleAssets[:0]
						for _, b := range c.App.AssetKeeper.GetAssets(c.Ctx()) {
							if b.IsOraclePriceRequired {
								oracleAssets = append(oracleAssets, b.Id)
							}
						}
						rings[a.Id] = mon.NewRing(n)
						checkFlag = false // the update restarts the request cycle
						forceFresh = 3
						joined = true
						hist = append(hist, fmt.Sprintf("h%d:asset %d joins the oracle set", c.Header.Height, a.Id))
						rec.Count("pipeline_assets_joining_the_oracle_set", 1)
					}
				}
			}
			// governance re-tunes the feed now and then (same oracle script and channel, another window size): from
			// here on the statement holds for the new N, every window starts empty and the request cycle restarts
			if round > 5 && rnd.Intn(12) == 0 {
				n2 := []int{1, 2, 3, 5, 4}[rnd.Intn(5)]
				if n2 != n {
					must(t, c.App.BandoracleKeeper.AddFetchPriceRecords(c.Ctx(), bandtypes.MsgFetchPriceData{OracleScriptID: 112, SourceChannel: "channel-0", AskCount: 1, MinCount: 1, FeeLimit: sdk.NewCoins(), PrepareGas: 2, ExecuteGas: 2, TwaBatchSize: uint64(n2), AcceptedHeightDiff: gap}))
					hist = append(hist, fmt.Sprintf("h%d:window-size %d->%d", c.Header.Height, n, n2))
					n = n2
					for _, id := range oracleAssets {
						rings[id] = mon.NewRing(n)
						lastZero[id] = false
					}
					checkFlag, staleSince = false, -1
					rec.Count("pipeline_window_size_changes", 1)
				}
			}
			// advance to the block before the next multiple of 20
			for (c.Header.Height+1)%20 != 0 && !panicked {
				c.NextBlock(6e9)
			}
			fresh := rnd.Intn(100) >= 25
			// aimed outage: the feed is silent for exactly the accepted height gap (possible when the gap is a multiple of
			// the 20-block request period), then answers again: the boundary of "windows older than the gap are discarded"
			if round == 3 && gap%20 == 0 {
				aimedStale = int(gap / 20)
				fresh = true // the round before the outage is answered, so that the outage starts at a known height
			} else if aimedStale > 0 {
				fresh = false
				aimedStale--
				if aimedStale == 0 {
					aimedStale = -1
				}
			} else if aimedStale == -1 {
				fresh = true
				aimedStale = 0
				rec.Count("pipeline_outages_of_exactly_the_accepted_gap", 1)
			}
			if forceFresh > 0 {
				fresh = true
				forceFresh--
			}
			if fresh {
				lastID++
				rates = rates[:0]
				answered = append(answered[:0], reqList...)
				for range answered {
					var v uint64
					switch x := rnd.Intn(10); {
					case x == 0:
						v = 0
					case x == 1:
						v = math.MaxUint64
					case x == 2:
						v = 1 << 63
					default:
						v = uint64(rnd.Int63n(5_000_000) + 1)
					}
					rates = append(rates, v)
				}
				if rnd.Intn(8) == 0 && len(rates) > 1 && forceFresh == 0 { // short response: last asset gets no sample
					rates = rates[:len(rates)-1]
				}
				intent = map[uint64]uint64{}
				for i, id := range answered {
					if i < len(rates) {
						intent[id] = rates[i]
					}
				}
				k := c.App.BandoracleKeeper
				k.SetFetchPriceResult(c.Ctx(), bandtypes.OracleRequestID(lastID), bandtypes.FetchPriceResult{Rates: append([]uint64(nil), rates...)})
				k.SetLastFetchPriceID(c.Ctx(), bandtypes.OracleRequestID(lastID))
			}
			c.NextBlock(6e9) // height%20==0: bandoracle then market begin blockers run
			if panicked {
				break
			}
			h := c.Header.Height
			reqList = append(reqList[:0], oracleAssets...) // this block's request names the current set
			// protocol reference
			sampled := false
			if !checkFlag {
				checkFlag = true
				validation = false
				temp = 0
			} else {
				res := lastID != temp
				if !res && staleSince < 0 {
					staleSince = h
				} else if res && staleSince > 0 {
					if h-staleSince >= gap {
						for _, r := range rings {
							r.DiscardAll()
						}
					}
					staleSince = -1
				}
				validation = res
				temp = lastID
			}
			desc := "stale"
			if validation {
				sampled = true
				desc = "rates=["
				for _, id := range oracleAssets {
					if v, ok := intent[id]; ok {
						rings[id].Sample(v, h, gap)
						lastZero[id] = v == 0
						desc += c17Letter(v) + " "
						rec.Count("pipeline_samples", 1)
					}
				}
				desc += "]"
			} else {
				for id, r := range rings {
					r.Stale()
					lastZero[id] = false
				}
			}
			hist = append(hist, fmt.Sprintf("h%d:%s", h, desc))
			_ = sampled
			for _, id := range oracleAssets {
				e := &c17Env{c: c, rec: rec, asset: id, dec: big.NewInt(1_000_000)}
				r := rings[id]
				rec.Distinct("pipe", n, gap, fmt.Sprint(r.Window), r.Active, validation)
				e.check(c.Ctx(), r, lastZero[id], histf, c17Tag("pipeline", n))
			}
			// one ordinary block later the state must be unchanged w.r.t. activity
			c.NextBlock(6e9)
			if panicked {
				break
			}
			if !validation {
				for _, r := range rings {
					r.Stale()
				}
			}
			for _, id := range oracleAssets {
				e := &c17Env{c: c, rec: rec, asset: id, dec: big.NewInt(1_000_000)}
				e.check(c.Ctx(), rings[id], false, histf, c17Tag("pipeline", n))
			}
		}
		if run == 0 {
			rec.Sample(map[string]interface{}{"mode": "pipeline", "history": histf()})
		}
		rec.Count("pipeline_runs", 1)
		c.Close()
	}
}

func must(t *testing.T, err error) {
	t.Helper()
	if err != nil {
		t.Fatalf("harness set-up failed: %v", err)
	}
}
