package props

import (
	"fmt"
	"math/big"
	"sort"
	"time"

	sdk "github.com/cosmos/cosmos-sdk/types"

	auctiontypes "github.com/comdex-official/comdex/x/auction/types"
	auctionsV2types "github.com/comdex-official/comdex/x/auctionsV2/types"
	collectortypes "github.com/comdex-official/comdex/x/collector/types"
	esmtypes "github.com/comdex-official/comdex/x/esm/types"
	liqtypes "github.com/comdex-official/comdex/x/liquidation/types"
	liqV2types "github.com/comdex-official/comdex/x/liquidationsV2/types"
	lockertypes "github.com/comdex-official/comdex/x/locker/types"
	rewardstypes "github.com/comdex-official/comdex/x/rewards/types"
	tokenminttypes "github.com/comdex-official/comdex/x/tokenmint/types"
	vaulttypes "github.com/comdex-official/comdex/x/vault/types"

	"verif/sim"
)

var cdpDenoms = []string{"ucmdx", "ucmst", "uharbor", "uatom", "weth-wei", "wbtc-sat", "uusdc", "adai", "ucmtw"}

var cdpModules = []string{vaulttypes.ModuleName, collectortypes.ModuleName, lockertypes.ModuleName, auctiontypes.ModuleName,
	auctionsV2types.ModuleName, liqtypes.ModuleName, liqV2types.ModuleName, esmtypes.ModuleName, tokenminttypes.ModuleName, rewardstypes.ModuleName}

type appAsset struct{ App, Asset uint64 }

// cdpSnap is a read-only typed snapshot of the CDP-related state at a quiescent point.
type cdpSnap struct {
	Height    int64
	Time      time.Time // header time of the open block
	Vaults    map[uint64]vaulttypes.Vault
	Stable    map[uint64]vaulttypes.StableMintVault
	Mappings  map[appAsset]vaulttypes.AppExtendedPairVaultMappingData // key (app, extended pair)
	LenVault  uint64
	LockedV1  map[uint64]liqtypes.LockedVault
	LockedV2  map[uint64]liqV2types.LockedVault
	DutchV1   map[uint64]auctiontypes.DutchAuction
	SurplusV1 map[uint64]auctiontypes.SurplusAuction
	DebtV1    map[uint64]auctiontypes.DebtAuction
	AucV2     map[uint64]auctionsV2types.Auction
	NetFees   map[appAsset]sdk.Int
	NetFound  map[appAsset]bool
	Lockers   map[uint64]lockertypes.Locker
	LockerTot map[appAsset]sdk.Int           // locker lookup table DepositedAmount per (app, asset)
	Bal       map[string]map[string]*big.Int // account label -> denom -> amount
	Supply    map[string]*big.Int
	ESM       map[uint64]esmtypes.ESMStatus
	Breaker   map[uint64]bool
	Price     map[uint64]uint64
	Active    map[uint64]bool
	LimitBids []auctionsV2types.LimitOrderBid
	LimitProt []auctionsV2types.LimitBidProtocolData
	LimitFees map[uint64]sdk.Int // booked auction-module fees from limit bids, per debt asset
	ExtFees   map[uint64]sdk.Int // booked fees of externally initiated auctions, per debt asset
	BidsV2    map[uint64]auctionsV2types.Bid
	Reserve   map[appAsset]sdk.Int // generation-2 app reserve funds
	EsmDebt   map[appAsset]sdk.Int // debt registered for emergency redemption (esm AssetToAmount, debt side)
	EsmColl   map[appAsset]sdk.Int // collateral held for emergency redemption (esm AssetToAmount, collateral side)
}

func modLabel(name string) string { return "mod:" + name }

// voidLabel is the snapshot label of the empty address (nobody holds its key).
const voidLabel = "addr:empty"

// reserveApps: the apps whose generation-2 reserve funds are snapshotted (the CDP apps and the apps that can only
// host externally initiated auctions).
func (u *cdpU) reserveApps() []uint64 {
	out := append([]uint64(nil), u.cdpApps...)
	for _, a := range u.aucApps {
		dup := false
		for _, b := range out {
			dup = dup || a == b
		}
		if !dup {
			out = append(out, a)
		}
	}
	return out
}

func (u *cdpU) snap() *cdpSnap { return u.snapAt(u.c.Ctx()) }

// snapAt reads the snapshot from the given context (e.g. the committed state).
func (u *cdpU) snapAt(ctx sdk.Context) *cdpSnap {
	c := u.c
	s := &cdpSnap{Height: c.Header.Height, Time: c.Header.Time,
		Vaults: map[uint64]vaulttypes.Vault{}, Stable: map[uint64]vaulttypes.StableMintVault{}, Mappings: map[appAsset]vaulttypes.AppExtendedPairVaultMappingData{},
		LockedV1: map[uint64]liqtypes.LockedVault{}, LockedV2: map[uint64]liqV2types.LockedVault{}, DutchV1: map[uint64]auctiontypes.DutchAuction{},
		SurplusV1: map[uint64]auctiontypes.SurplusAuction{}, DebtV1: map[uint64]auctiontypes.DebtAuction{}, AucV2: map[uint64]auctionsV2types.Auction{},
		NetFees: map[appAsset]sdk.Int{}, NetFound: map[appAsset]bool{}, Lockers: map[uint64]lockertypes.Locker{}, LockerTot: map[appAsset]sdk.Int{},
		Bal: map[string]map[string]*big.Int{}, Supply: map[string]*big.Int{}, ESM: map[uint64]esmtypes.ESMStatus{}, Breaker: map[uint64]bool{},
		Price: map[uint64]uint64{}, Active: map[uint64]bool{}}
	a := c.App
	for _, v := range a.VaultKeeper.GetVaults(ctx) {
		s.Vaults[v.Id] = v
	}
	for _, v := range a.VaultKeeper.GetStableMintVaults(ctx) {
		s.Stable[v.Id] = v
	}
	for _, m := range a.VaultKeeper.GetAllAppExtendedPairVaultMapping(ctx) {
		s.Mappings[appAsset{m.AppId, m.ExtendedPairId}] = m
	}
	s.LenVault = a.VaultKeeper.GetLengthOfVault(ctx)
	for _, lv := range a.LiquidationKeeper.GetLockedVaults(ctx) {
		s.LockedV1[lv.LockedVaultId] = lv
	}
	for _, lv := range a.NewliqKeeper.GetLockedVaults(ctx) {
		s.LockedV2[lv.LockedVaultId] = lv
	}
	for _, app := range u.cdpApps {
		for _, d := range a.AuctionKeeper.GetDutchAuctions(ctx, app) {
			s.DutchV1[d.AuctionId] = d
		}
		for _, d := range a.AuctionKeeper.GetSurplusAuctions(ctx, app) {
			s.SurplusV1[d.AuctionId] = d
		}
		for _, d := range a.AuctionKeeper.GetDebtAuctions(ctx, app) {
			s.DebtV1[d.AuctionId] = d
		}
		if e, ok := a.EsmKeeper.GetESMStatus(ctx, app); ok {
			s.ESM[app] = e
		}
		k, _ := a.EsmKeeper.GetKillSwitchData(ctx, app)
		s.Breaker[app] = k.BreakerEnable
		for _, as := range u.assets {
			nf, ok := a.CollectorKeeper.GetNetFeeCollectedData(ctx, app, as.ID)
			s.NetFound[appAsset{app, as.ID}] = ok
			if ok {
				s.NetFees[appAsset{app, as.ID}] = nf.NetFeesCollected
			}
			if lt, ok := a.LockerKeeper.GetLockerLookupTable(ctx, app, as.ID); ok {
				s.LockerTot[appAsset{app, as.ID}] = lt.DepositedAmount
			}
		}
	}
	for _, au := range a.NewaucKeeper.GetAuctions(ctx) {
		s.AucV2[au.AuctionId] = au
	}
	s.LimitFees, s.ExtFees, s.BidsV2, s.Reserve = map[uint64]sdk.Int{}, map[uint64]sdk.Int{}, map[uint64]auctionsV2types.Bid{}, map[appAsset]sdk.Int{}
	{
		st := ctx.KVStore(a.GetKey(auctionsV2types.StoreKey))
		it := sdk.KVStorePrefixIterator(st, auctionsV2types.UserLimitBidMappingKeyPrefix)
		for ; it.Valid(); it.Next() {
			var lb auctionsV2types.LimitOrderBid
			a.AppCodec().MustUnmarshal(it.Value(), &lb)
			s.LimitBids = append(s.LimitBids, lb)
		}
		it.Close()
	}
	s.LimitProt = a.NewaucKeeper.GetAllLimitBidProtocolData(ctx)
	for _, as := range u.assets {
		if f, ok := a.NewaucKeeper.GetAuctionLimitBidFeeData(ctx, as.ID); ok {
			s.LimitFees[as.ID] = f.Amount
		}
		if f, ok := a.NewaucKeeper.GetAuctionLimitBidFeeDataExternal(ctx, as.ID); ok {
			s.ExtFees[as.ID] = f.Amount
		}
		for _, app := range u.reserveApps() {
			if rf, ok := a.NewliqKeeper.GetAppReserveFunds(ctx, app, as.ID); ok {
				s.Reserve[appAsset{app, as.ID}] = rf.TokenQuantity.Amount
			}
		}
	}
	for _, b := range a.NewaucKeeper.GetUserBids(ctx) {
		s.BidsV2[b.BiddingId] = b
	}
	for _, l := range a.LockerKeeper.GetLockers(ctx) {
		s.Lockers[l.LockerId] = l
	}
	s.EsmDebt, s.EsmColl = map[appAsset]sdk.Int{}, map[appAsset]sdk.Int{}
	for _, app := range u.cdpApps {
		for _, x := range a.EsmKeeper.GetAllAssetToAmount(ctx, app) {
			if x.Amount.IsNil() {
				continue
			}
			if x.IsCollateral {
				s.EsmColl[appAsset{app, x.AssetID}] = x.Amount
			} else {
				s.EsmDebt[appAsset{app, x.AssetID}] = x.Amount
			}
		}
	}
	rd := func(label string, addr sdk.AccAddress) {
		m := map[string]*big.Int{}
		for _, d := range u.denomList() {
			m[d] = a.BankKeeper.GetBalance(ctx, addr, d).Amount.BigInt()
		}
		s.Bal[label] = m
	}
	for _, ac := range c.Accts {
		rd(ac.Name, ac.Addr)
	}
	for _, m := range cdpModules {
		rd(modLabel(m), c.ModAddr(m))
	}
	// the empty address: a transfer to an address field that was never filled in lands here
	rd(voidLabel, sdk.AccAddress{})
	for _, d := range u.denomList() {
		s.Supply[d] = a.BankKeeper.GetSupply(ctx, d).Amount.BigInt()
	}
	for _, as := range u.assets {
		if t, ok := a.MarketKeeper.GetTwa(ctx, as.ID); ok {
			s.Price[as.ID] = t.Twa
			s.Active[as.ID] = t.IsPriceActive
		}
	}
	return s
}

func (s *cdpSnap) bal(label, denom string) *big.Int {
	if m, ok := s.Bal[label]; ok {
		if v, ok := m[denom]; ok {
			return v
		}
	}
	return new(big.Int)
}

func bigSub(a, b *big.Int) *big.Int { return new(big.Int).Sub(a, b) }
func bigAdd(a, b *big.Int) *big.Int { return new(big.Int).Add(a, b) }

func sortedU64(m map[uint64]struct{}) []uint64 {
	var out []uint64
	for k := range m {
		out = append(out, k)
	}
	sort.Slice(out, func(i, j int) bool { return out[i] < out[j] })
	return out
}

type cdpEvent struct {
	Kind   string // "tx", "block", "env"
	Op     string
	Signer *sim.Acct
	Msg    sdk.Msg
	Res    sim.TxResult
	Desc   string
}

func (e *cdpEvent) String() string {
	if e.Kind == "tx" {
		who := ""
		if e.Signer != nil {
			who = e.Signer.Name
		}
		return fmt.Sprintf("tx %s by %s: %s -> code %d", e.Op, who, e.Desc, e.Res.Code)
	}
	return fmt.Sprintf("%s %s %s", e.Kind, e.Op, e.Desc)
}

type cdpMonitor interface {
	Observe(pre, post *cdpSnap, e *cdpEvent)
}

// denomList: the denoms whose balances are snapshotted (the CDP universe's by default).
func (u *cdpU) denomList() []string {
	if u.denoms != nil {
		return u.denoms
	}
	return cdpDenoms
}
