package props

import (
	"fmt"
	"math"
	"testing"
	"time"

	sdk "github.com/cosmos/cosmos-sdk/types"

	bandtypes "github.com/comdex-official/comdex/x/bandoracle/types"
	liqV2types "github.com/comdex-official/comdex/x/liquidationsV2/types"

	"verif/ev"
)

// c15OracleFeed: the environment fault is the price feed itself. The CDP universe runs on the REAL
// bandoracle -> market begin-block pipeline (results stored the way the IBC acknowledgement handler stores them);
// the feed delivers walks around the fixture prices with per-asset zero-rate outages of 1..6 rounds, band-level
// outages (no new result) of 1..8 rounds, short responses and absurd values, for several window sizes and
// accepted gaps, while users keep transacting and the sweeps consume whatever the market module publishes.
// No begin/end blocker may panic (an unwrapped market begin blocker halts the chain).
func c15OracleFeed(t *testing.T, rec *ev.Rec) {
	rnd := rng("C15-feed")
	episodes := ev.Pick(3, 12)
	for epi := 0; epi < episodes; epi++ {
		variant := ev.ShardNo()*episodes + epi
		n := []int{2, 3, 5, 1, 10}[variant%5]
		gap := []int64{20, 41, 1, 100, 60}[(variant/2)%5]
		u := newCDP(t, cdpOpts{variant: variant})
		c := u.c
		c.App.NewliqKeeper.SetParams(c.Ctx(), liqV2types.Params{LiquidationBatchSize: uint64([]int{200, 3}[variant%2])})
		if err := c.App.BandoracleKeeper.AddFetchPriceRecords(c.Ctx(), bandtypes.MsgFetchPriceData{OracleScriptID: 112, SourceChannel: "channel-0", AskCount: 1, MinCount: 1, FeeLimit: sdk.NewCoins(), PrepareGas: 1, ExecuteGas: 1, TwaBatchSize: uint64(n), AcceptedHeightDiff: gap}); err != nil {
			t.Fatalf("harness set-up: %v", err)
		}
		var ids []uint64
		base := map[uint64]uint64{}
		for _, a := range c.App.AssetKeeper.GetAssets(c.Ctx()) {
			if a.IsOraclePriceRequired {
				ids = append(ids, a.Id)
				tw, _ := c.App.MarketKeeper.GetTwa(c.Ctx(), a.Id)
				base[a.Id] = tw.Twa
			}
		}
		cfg := cdpCfg{bids: true, lockers: true, liquidateMsg: true, limitBids: true, maxGap: 30 * time.Second}
		r := newCdpRunner(u, rnd, rec, cfg)
		r.panicIsViolation = true
		zeroLeft := map[uint64]int{}
		bandOut := 0
		var lastID int64
		rounds := ev.Pick(30, 90)
		for round := 0; round < rounds && !r.panicked; round++ {
			// what the relayer delivers before the next multiple of 20
			desc := "stale"
			if bandOut > 0 {
				bandOut--
			} else if rnd.Intn(12) == 0 {
				bandOut = 1 + rnd.Intn(8)
				rec.Count("feed_band_outages", 1)
			} else {
				lastID++
				rates := make([]uint64, 0, len(ids))
				desc = ""
				for _, id := range ids {
					var v uint64
					switch {
					case zeroLeft[id] > 0:
						zeroLeft[id]--
						v = 0
					case rnd.Intn(14) == 0:
						zeroLeft[id] = rnd.Intn(6)
						v = 0
						rec.Count("feed_zero_outages", 1)
					case rnd.Intn(60) == 0:
						v = []uint64{math.MaxUint64, 1 << 63, 1}[rnd.Intn(3)]
						rec.Count("feed_absurd_values", 1)
					default:
						v = base[id]*uint64(50+rnd.Intn(120))/100 + 1
					}
					rates = append(rates, v)
					desc += fmt.Sprintf("%d ", v)
				}
				if rnd.Intn(10) == 0 && len(rates) > 1 {
					rates = rates[:len(rates)-1-rnd.Intn(2)]
					rec.Count("feed_short_responses", 1)
				}
				r.env("feed", fmt.Sprintf("oracle result %d (N=%d gap=%d): %s", lastID, n, gap, desc), func() {
					k := c.App.BandoracleKeeper
					k.SetFetchPriceResult(c.Ctx(), bandtypes.OracleRequestID(lastID), bandtypes.FetchPriceResult{Rates: rates})
					k.SetLastFetchPriceID(c.Ctx(), bandtypes.OracleRequestID(lastID))
				})
			}
			target := (c.Header.Height/20 + 1) * 20
			for c.Header.Height < target && !r.panicked {
				if rnd.Intn(3) == 0 {
					r.step()
				} else {
					r.block(6 * time.Second)
				}
			}
			rec.Eval(1)
			rec.Count("feed_rounds", 1)
			act := 0
			for _, id := range ids {
				if tw, ok := c.App.MarketKeeper.GetTwa(c.Ctx(), id); ok && tw.IsPriceActive {
					act++
				}
			}
			rec.Distinct("C15-feed", n, gap, act, bandOut > 0, len(r.last.Vaults)/4)
		}
		if epi == 0 {
			rec.Sample(map[string]interface{}{"mode": "oracle-feed-faults", "N": n, "gap": gap, "oplog_tail": r.tail(10)})
		}
		c.Close()
	}
	rec.Floor("feed_rounds", 30)
}
