package props

import (
	"fmt"
	"math/big"
	"testing"
	"time"

	sdk "github.com/cosmos/cosmos-sdk/types"

	"github.com/comdex-official/comdex/app/wasm/bindings"
	lockertypes "github.com/comdex-official/comdex/x/locker/types"

	"verif/ev"
	"verif/mon"
)

// c18LockerMon: savings on lockers, observed on the real message handlers inside the mixed CDP workload. Whatever a
// locker message (top-up, withdrawal, reward calculation) credits to the locker's returns is compared with what the
// balance the locker held BEFORE the message accrues over the time since the locker's last stamp at the app's saving
// rate (320-bit reference): new money has been there for zero time and earns nothing, and nothing is credited when
// no time has elapsed.
type c18LockerMon struct {
	u   *cdpU
	rec *ev.Rec
	// the saving-rate change being observed
	chgApp, chgAsset uint64
	chgOldRate       sdk.Dec
	chgCollectorTime time.Time
}

func (m *c18LockerMon) Observe(pre, post *cdpSnap, e *cdpEvent) {
	if e.Kind == "env" && e.Op == "lsr-change" {
		m.rateChange(pre, post, e)
		return
	}
	if e.Kind != "tx" || !e.Res.OK() {
		return
	}
	var id uint64
	switch x := e.Msg.(type) {
	case *lockertypes.MsgDepositAssetRequest:
		id = x.LockerId
	case *lockertypes.MsgWithdrawAssetRequest:
		id = x.LockerId
	case *lockertypes.MsgLockerRewardCalcRequest:
		id = x.LockerId
	default:
		return
	}
	pl, ok1 := pre.Lockers[id]
	ql, ok2 := post.Lockers[id]
	if !ok1 || !ok2 || pl.BlockHeight == 0 {
		return
	}
	c := m.u.c
	credited := ql.ReturnsAccumulated.Sub(pl.ReturnsAccumulated).BigInt()
	elapsed := int64(c.Header.Time.Sub(pl.BlockTime).Seconds())
	rate := sdk.ZeroDec()
	if _, found := c.App.Rewardskeeper.GetReward(c.Ctx(), pl.AppId, pl.AssetDepositId); found {
		if cl, found := c.App.CollectorKeeper.GetCollectorLookupTable(c.Ctx(), pl.AppId, pl.AssetDepositId); found {
			rate = cl.LockerSavingRate
		}
	}
	m.rec.Eval(1)
	m.rec.Count("insitu_locker/credits_checked", 1)
	w := map[string]interface{}{"event": e.String(), "locker": id, "balance_before": pl.NetBalance.String(), "returns_before": pl.ReturnsAccumulated.String(), "returns_after": ql.ReturnsAccumulated.String(),
		"seconds_since_last_stamp": elapsed, "saving_rate": rate.String()}
	op := opTag(e)
	if credited.Sign() < 0 {
		m.rec.Violate("C18/insitu/locker/"+op+"/negative", "the locker's accumulated returns decreased", w)
		return
	}
	if elapsed <= 0 {
		m.rec.Count("insitu_locker/law_zero_time", 1)
		if credited.Sign() != 0 {
			m.rec.Violate("C18/insitu/locker/"+op+"/nonzero-at-zero-time", fmt.Sprintf("%s units of savings credited although no time has elapsed since the locker's last stamp", credited), w)
		}
		return
	}
	// upper bound: the pre-message balance over the elapsed time, plus the carried fraction (< 1) and one unit of slack
	ref, _ := mon.C18Compound(pl.NetBalance.BigInt(), mon.C18Ln1p(c18Rat(rate)), elapsed, c18Year)
	bound := new(big.Rat).Mul(ref, big.NewRat(1_000_000_001, 1_000_000_000))
	bound.Add(bound, big.NewRat(2, 1))
	m.rec.Count("insitu_locker/law_upper_bound", 1)
	if credited.Sign() > 0 {
		m.rec.Count("insitu_locker/credits_positive", 1)
	}
	if new(big.Rat).SetInt(credited).Cmp(bound) > 0 {
		w["reference_accrual_of_balance_before"] = ref.FloatString(6)
		m.rec.Violate("C18/insitu/locker/"+op+"/credited-more-than-the-balance-before-accrues", fmt.Sprintf("%s units credited, the balance held before the message accrues %s over %d s", credited, ref.FloatString(3), elapsed), w)
	}
	m.rec.Distinct("C18-locker", op, pl.NetBalance.BigInt().BitLen()/4, c18Bits(elapsed)/3, credited.Sign())
}

// rateChange: governance changed the saving rate of (app, asset); the collector settles every locker at the OLD rate
// up to now. Each locker may be credited at most what its balance accrues at the old rate since its last stamp.
func (m *c18LockerMon) rateChange(pre, post *cdpSnap, e *cdpEvent) {
	c := m.u.c
	for id, pl := range pre.Lockers {
		if pl.AppId != m.chgApp || pl.AssetDepositId != m.chgAsset {
			continue
		}
		ql, ok := post.Lockers[id]
		if !ok {
			continue
		}
		credited := ql.ReturnsAccumulated.Sub(pl.ReturnsAccumulated).BigInt()
		stamp := pl.BlockTime
		if pl.BlockHeight == 0 {
			stamp = m.chgCollectorTime
		}
		elapsed := int64(c.Header.Time.Sub(stamp).Seconds())
		m.rec.Eval(1)
		m.rec.Count("insitu_locker/rate_change_credits_checked", 1)
		w := map[string]interface{}{"event": e.String(), "locker": id, "balance_before": pl.NetBalance.String(), "old_rate": m.chgOldRate.String(), "seconds_since_last_stamp": elapsed, "credited": credited.String()}
		if credited.Sign() < 0 {
			m.rec.Violate("C18/insitu/locker/rate-change/negative", "the locker's accumulated returns decreased", w)
			continue
		}
		if elapsed <= 0 {
			if credited.Sign() != 0 {
				m.rec.Violate("C18/insitu/locker/rate-change/nonzero-at-zero-time", fmt.Sprintf("%s units credited although no time has elapsed", credited), w)
			}
			continue
		}
		ref, _ := mon.C18Compound(pl.NetBalance.BigInt(), mon.C18Ln1p(c18Rat(m.chgOldRate)), elapsed, c18Year)
		bound := new(big.Rat).Mul(ref, big.NewRat(1_000_000_001, 1_000_000_000))
		bound.Add(bound, big.NewRat(2, 1))
		if new(big.Rat).SetInt(credited).Cmp(bound) > 0 {
			w["reference_accrual_at_old_rate"] = ref.FloatString(6)
			m.rec.Violate("C18/insitu/locker/rate-change/credited-more-than-the-old-rate-accrues", fmt.Sprintf("%s units credited, the balance accrues %s at the old rate over %d s", credited, ref.FloatString(3), elapsed), w)
		}
		if credited.Sign() > 0 {
			m.rec.Count("insitu_locker/rate_change_credits_positive", 1)
		}
	}
}

// lsrChange: a governance contract message changes the locker saving rate of one (app, asset).
func (m *c18LockerMon) lsrChange(r *cdpRunner) {
	u := m.u
	c := u.c
	app := u.cdpApps[r.rnd.Intn(len(u.cdpApps))]
	as := u.byDenom[[]string{"ucmst", "ucmtw"}[r.rnd.Intn(2)]]
	cl, found := c.App.CollectorKeeper.GetCollectorLookupTable(c.Ctx(), app, as.ID)
	if !found {
		return
	}
	rates := []string{"0", "0.05", "0.1", "0.3", "0.5"}
	nr := dec(rates[r.rnd.Intn(len(rates))])
	if nr.Equal(cl.LockerSavingRate) {
		return
	}
	m.chgApp, m.chgAsset, m.chgOldRate, m.chgCollectorTime = app, as.ID, cl.LockerSavingRate, cl.BlockTime
	if _, rewarded := c.App.Rewardskeeper.GetReward(c.Ctx(), app, as.ID); !rewarded {
		m.chgOldRate = sdk.ZeroDec() // lockers of this (app, asset) earn nothing
	}
	r.env("lsr-change", fmt.Sprintf("app=%d asset=%d %s -> %s", app, as.ID, cl.LockerSavingRate, nr), func() {
		err := c.Gov(bindings.ComdexMessages{MsgUpdateCollectorLookupTable: &bindings.MsgUpdateCollectorLookupTable{AppID: app, AssetID: as.ID, DebtThreshold: cl.DebtThreshold, SurplusThreshold: cl.SurplusThreshold,
			LotSize: cl.LotSize, DebtLotSize: cl.DebtLotSize, BidFactor: cl.BidFactor, LSR: nr}})
		if err == nil {
			m.rec.Count("insitu_locker/rate_changes", 1)
		}
	})
}

func c18Lockers(t *testing.T, rec *ev.Rec) {
	for run := 0; run < ev.Pick(1, 3); run++ {
		variant := ev.ShardNo()*3 + run
		u := newCDP(t, cdpOpts{variant: variant})
		lm := &c18LockerMon{u: u, rec: rec}
		r := newCdpRunner(u, rng("C18-lockers", variant), rec, cdpCfg{lockers: true, maxGap: 200 * 24 * time.Hour}, lm)
		for i := 0; i < ev.Pick(1500, 8000) && !r.panicked; i++ {
			if r.rnd.Intn(60) == 0 {
				lm.lsrChange(r)
			} else if r.rnd.Intn(3) == 0 {
				r.lockerOp()
			} else {
				r.step()
			}
		}
		u.c.Close()
	}
}
