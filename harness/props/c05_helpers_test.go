package props

import (
	"fmt"
	"math/big"
	"math/rand"
	"testing"
	"time"

	sdkmath "cosmossdk.io/math"
	sdk "github.com/cosmos/cosmos-sdk/types"

	assettypes "github.com/comdex-official/comdex/x/asset/types"
	"github.com/comdex-official/comdex/x/liquidity/amm"
	liqtypes "github.com/comdex-official/comdex/x/liquidity/types"

	"verif/ev"
	"verif/sim"
)

// In-situ part of C05: message-valid limit orders are placed with real signed
// transactions on a fresh pair, the real batch function keeper.ExecuteRequests
// (what the liquidity end blocker calls) runs, and the laws are decided on bank
// balances and stored order records before/after.

func c05Alpha(i int) string {
	s := ""
	for {
		s = string(rune('A'+i%26)) + s
		i = i/26 - 1
		if i < 0 {
			return s
		}
	}
}

type c05SituOrder struct {
	id        uint64
	acct      *sim.Acct
	buy       bool
	price     sdkmath.LegacyDec
	amount    sdkmath.Int
	open      sdkmath.Int
	remaining sdkmath.Int
	live      bool
	desc      string
}

func c05InSitu(t *testing.T, rec *ev.Rec) {
	rnd := rng("C05-insitu")
	// the hand-made scenario runs on a chain of its own: a batch that breaks base
	// conservation leaves the pair escrow short, and every later batch of that app
	// fails as soon as the short-changed order has to be refunded
	if ev.ShardNo() == 0 {
		c05InSituChain(t, rec, rnd, 1, true, false)
	}
	// resting-order scenarios: a long-lived buy order is filled partly at a price better than its limit and then
	// meets, batch after batch, more sell liquidity than it has left
	for i := 0; i < ev.Pick(3, 12); i++ {
		c05InSituChain(t, rec, rnd, 1, false, true)
	}
	total := ev.Pick(24, 240)
	perChain := 24
	chains := 0
	for done := 0; done < total && chains < total/4+4; chains++ {
		n := perChain
		if total-done < n {
			n = total - done
		}
		done += c05InSituChain(t, rec, rnd, n, false, false)
	}
	// every order type (limit, market, market-making) against basic and ranged pools, judged per order record
	c05InSituTypes(t, rec)
}

func c05InSituChain(t *testing.T, rec *ev.Rec, rnd *rand.Rand, nScen int, crafted, resting bool) (scenariosDone int) {
	huge := sdkmath.NewIntWithDecimal(1, 45)
	var bal sdk.Coins
	for i := 0; i < nScen; i++ {
		bal = bal.Add(sdk.NewCoin("bas"+c05AlphaLower(i), huge), sdk.NewCoin("quo"+c05AlphaLower(i), huge))
	}
	c := sim.New(sim.Options{NAccts: 48, Balances: bal})
	defer c.Close()
	ctx := c.Ctx()
	must(t, c.App.AssetKeeper.AddAppRecords(ctx, assettypes.AppData{Name: "verif", ShortName: "verif", MinGovDeposit: sdkmath.ZeroInt(), GovTimeInSeconds: 0, GenesisToken: []assettypes.MintGenesisToken{}}))
	apps, _ := c.App.AssetKeeper.GetApps(ctx)
	var appID uint64
	for _, a := range apps {
		if a.Name == "verif" {
			appID = a.Id
		}
	}
	if appID == 0 {
		t.Fatalf("harness set-up failed: app not found")
	}
	k := c.App.LiquidityKeeper
	prec := 1 + (ev.ShardNo()+int(rnd.Int31n(2))*2)%4
	params := liqtypes.DefaultGenericParams(appID)
	params.BatchSize = 1 << 40 // the end blocker never runs the batch itself: the harness calls the same function between two snapshots
	params.TickPrecision = uint64(prec)
	k.SetGenericParams(ctx, params)
	for i := 0; i < nScen; i++ {
		must(t, c.App.AssetKeeper.AddAssetRecords(ctx, assettypes.Asset{Name: "B" + c05Alpha(i), Denom: "bas" + c05AlphaLower(i), Decimals: sdkmath.NewInt(1_000_000), IsOnChain: true}))
		must(t, c.App.AssetKeeper.AddAssetRecords(ctx, assettypes.Asset{Name: "Q" + c05Alpha(i), Denom: "quo" + c05AlphaLower(i), Decimals: sdkmath.NewInt(1_000_000), IsOnChain: true}))
	}
	dust := liqtypes.DeriveDustCollectorAddress(appID)
	poisoned := false
	for sc := 0; sc < nScen && !poisoned; sc++ {
		base, quote := "bas"+c05AlphaLower(sc), "quo"+c05AlphaLower(sc)
		res := c.Deliver(c.Accts[0], liqtypes.NewMsgCreatePair(appID, c.Accts[0].Addr, base, quote))
		if !res.OK() {
			t.Fatalf("harness set-up failed: create pair: %s", res.Log)
		}
		pair, found := k.GetPairByDenoms(c.Ctx(), appID, base, quote)
		if !found {
			t.Fatalf("harness set-up failed: pair not stored")
		}
		isCrafted := crafted && sc == 0
		// centre price and ticks
		e := []int{-3, -2, -2, -1, -1, -1, 0, 0, 1, 2}[rnd.Intn(10)]
		mant := int64(1_000_000 + rnd.Intn(9_000_000))
		pi := new(big.Int).Mul(big.NewInt(mant), c05Pow10(e+13))
		pi.Div(pi, big.NewInt(10))
		centre := amm.PriceToDownTick(sdkmath.LegacyNewDecFromBigIntWithPrec(pi, 18), prec)
		if isCrafted {
			centre = sdkmath.LegacyNewDecWithPrec(8, 2) // 0.08
		}
		idx0 := amm.TickToIndex(centre, prec)
		nT := 1 + rnd.Intn(4)
		if isCrafted {
			nT = 1
		}
		isResting := resting && sc == 0
		if isResting {
			nT = 2 + rnd.Intn(3)
		}
		var ticks []sdkmath.LegacyDec
		for i := 0; i < nT; i++ {
			ticks = append(ticks, amm.TickFromIndex(idx0+i, prec))
		}
		var history []string
		history = append(history, fmt.Sprintf("tick_precision=%d pair base=%s quote=%s swap_fee_rate=%s", prec, base, quote, params.SwapFeeRate))
		// optional pool
		if !isCrafted && rnd.Intn(3) == 0 {
			ry := c05Digits(rnd, 7, 12)
			pp := ticks[rnd.Intn(len(ticks))]
			rx := c05CeilMul(pp, ry)
			if rx.Cmp(big.NewInt(1_000_000)) >= 0 {
				coins := sdk.NewCoins(sdk.NewCoin(base, sdkmath.NewIntFromBigInt(ry)), sdk.NewCoin(quote, sdkmath.NewIntFromBigInt(rx)))
				r := c.Deliver(c.Accts[1], liqtypes.NewMsgCreatePool(appID, c.Accts[1].Addr, pair.Id, coins))
				if r.OK() {
					rec.Count("insitu_pools_created", 1)
					history = append(history, fmt.Sprintf("create basic pool deposit=%s", coins))
				} else {
					rec.Count("insitu_pool_creation_rejected", 1)
				}
			}
		}
		nextAcct := 2
		nBatches := 1 + rnd.Intn(3)
		if isCrafted {
			nBatches = 2
		}
		if isResting {
			nBatches = 3
		}
		var restA *big.Int
		for batch := 1; batch <= nBatches; batch++ {
			type plan struct {
				buy      bool
				price    sdkmath.LegacyDec
				amt      *big.Int
				lifespan time.Duration
			}
			var plans []plan
			if isCrafted {
				// 0.08 * 1250 = 100 (smallest admissible order); the buyer takes 11 more than the older sell order offers
				if batch == 1 {
					plans = []plan{{false, centre, big.NewInt(1250), time.Minute}}
				} else {
					plans = []plan{{true, centre, big.NewInt(1261), time.Minute}, {false, centre, big.NewInt(1250), time.Minute}}
				}
			} else if isResting {
				top, bottom := ticks[len(ticks)-1], ticks[0]
				if restA == nil {
					restA = new(big.Int).Div(new(big.Int).Mul(big.NewInt(100), c05Ten18), bottom.BigInt())
					restA.Add(restA, big.NewInt(1)).Mul(restA, big.NewInt(int64(4+rnd.Intn(40)))).Add(restA, big.NewInt(int64(rnd.Intn(50))))
				}
				switch batch {
				case 1:
					plans = []plan{{true, top, restA, time.Minute}, {false, bottom, new(big.Int).Quo(restA, big.NewInt(int64(2+rnd.Intn(3)))), 0}}
				default:
					plans = []plan{{false, bottom, new(big.Int).Add(restA, big.NewInt(int64(rnd.Intn(30)))), 0}}
				}
				rec.Count("insitu_resting_order_batches", 1)
			} else {
				nb, ns := rnd.Intn(6), rnd.Intn(6)
				for i := 0; i < nb+ns; i++ {
					price := ticks[rnd.Intn(len(ticks))]
					minAmt := new(big.Int).Div(new(big.Int).Mul(big.NewInt(100), c05Ten18), price.BigInt())
					minAmt.Add(minAmt, big.NewInt(1))
					if minAmt.Cmp(big.NewInt(100)) < 0 {
						minAmt.SetInt64(100)
					}
					amt := new(big.Int).Set(minAmt)
					switch rnd.Intn(6) {
					case 0:
					case 1, 2:
						amt.Add(amt, big.NewInt(int64(1+rnd.Intn(40))))
					case 3:
						amt.Mul(amt, big.NewInt(int64(2+rnd.Intn(5)))).Add(amt, big.NewInt(int64(rnd.Intn(20))))
					case 4:
						amt.Add(amt, c05Digits(rnd, 3, 8))
					default:
						amt.Add(amt, c05Digits(rnd, 9, 24))
					}
					plans = append(plans, plan{i < nb, price, amt, []time.Duration{0, 0, 6 * time.Second, time.Minute}[rnd.Intn(4)]})
				}
				rnd.Shuffle(len(plans), func(i, j int) { plans[i], plans[j] = plans[j], plans[i] })
			}
			for _, p := range plans {
				if nextAcct >= len(c.Accts) {
					break
				}
				a := c.Accts[nextAcct]
				nextAcct++
				dir, offerDenom, demand := liqtypes.OrderDirectionSell, base, quote
				offer := new(big.Int).Set(p.amt)
				if p.buy {
					dir, offerDenom, demand = liqtypes.OrderDirectionBuy, quote, base
					offer = c05CeilMul(p.price, p.amt)
				}
				offer.Add(offer, new(big.Int).Div(offer, big.NewInt(100))).Add(offer, big.NewInt(2)) // room for the swap fee; the surplus is not taken
				msg := liqtypes.NewMsgLimitOrder(appID, a.Addr, pair.Id, dir, sdk.NewCoin(offerDenom, sdkmath.NewIntFromBigInt(offer)), demand, p.price, sdkmath.NewIntFromBigInt(p.amt), p.lifespan)
				r := c.Deliver(a, msg)
				d := "sell"
				if p.buy {
					d = "buy"
				}
				if r.OK() {
					rec.Count("insitu_orders_placed", 1)
					history = append(history, fmt.Sprintf("batch %d: %s limit order by %s price=%s amount=%s lifespan=%s", batch, d, a.Name, p.price, p.amt, p.lifespan))
				} else {
					rec.Count("insitu_orders_rejected", 1)
				}
			}
			// ---- snapshot, run the batch, snapshot
			ctx := c.Ctx()
			acctOf := map[string]*sim.Acct{}
			for _, a := range c.Accts {
				acctOf[a.Addr.String()] = a
			}
			var pre []*c05SituOrder
			for _, o := range k.GetOrdersByPair(ctx, appID, pair.Id) {
				so := &c05SituOrder{id: o.Id, acct: acctOf[o.Orderer], buy: o.Direction == liqtypes.OrderDirectionBuy, price: o.Price, amount: o.Amount, open: o.OpenAmount, remaining: o.RemainingOfferCoin.Amount,
					live: o.Status == liqtypes.OrderStatusNotExecuted || o.Status == liqtypes.OrderStatusNotMatched || o.Status == liqtypes.OrderStatusPartiallyMatched}
				so.desc = fmt.Sprintf("order %d by %s dir=%s price=%s amount=%s open=%s remaining_offer=%s status=%s batch=%d", o.Id, so.acct.Name, o.Direction, o.Price, o.Amount, o.OpenAmount, o.RemainingOfferCoin, o.Status, o.BatchId)
				pre = append(pre, so)
			}
			pools := k.GetPoolsByPair(ctx, appID, pair.Id)
			balOf := func(addr sdk.AccAddress, denom string) *big.Int { return c.Bal(addr, denom).BigInt() }
			type snap struct{ base, quote *big.Int }
			take := func() (accts map[string]snap, ps []snap, d *big.Int, esc snap) {
				accts = map[string]snap{}
				for _, o := range pre {
					accts[o.acct.Name] = snap{balOf(o.acct.Addr, base), balOf(o.acct.Addr, quote)}
				}
				for _, p := range pools {
					ps = append(ps, snap{balOf(p.GetReserveAddress(), base), balOf(p.GetReserveAddress(), quote)})
				}
				return accts, ps, balOf(dust, quote), snap{balOf(pair.GetEscrowAddress(), base), balOf(pair.GetEscrowAddress(), quote)}
			}
			a0, p0, d0, _ := take()
			var panicked interface{}
			func() {
				defer func() {
					if r := recover(); r != nil {
						panicked = r
					}
				}()
				cctx, write := ctx.CacheContext()
				k.ExecuteRequests(cctx, appID)
				write()
			}()
			rec.Count("insitu_batches", 1)
			if panicked != nil {
				rec.Count("insitu_batches_panicked", 1)
				if rec.Get("insitu_batches_panicked") <= 3 {
					rec.Note(fmt.Sprintf("in-situ ExecuteRequests panic: %v; history %v", panicked, history))
				}
				poisoned = true
				break
			}
			a1, p1, d1, esc1 := take()
			post := map[uint64]liqtypes.Order{}
			for _, o := range k.GetOrdersByPair(ctx, appID, pair.Id) {
				post[o.Id] = o
			}
			rec.Eval(1)
			buyersGot, sellersPaid := new(big.Int), new(big.Int)
			buyersPaidQ, sellersGotQ := new(big.Int), new(big.Int)
			liveSellRemaining := new(big.Int)
			var results []string
			anyTrade := false
			for _, o := range pre {
				po, ok := post[o.id]
				if !ok {
					rec.Count("insitu_order_record_missing_after_batch", 1)
					continue
				}
				dBase := new(big.Int).Sub(a1[o.acct.Name].base, a0[o.acct.Name].base)
				dQuote := new(big.Int).Sub(a1[o.acct.Name].quote, a0[o.acct.Name].quote)
				filled := new(big.Int).Sub(o.open.BigInt(), po.OpenAmount.BigInt())
				// the stored record over the order's whole life: never filled beyond its amount
				if po.OpenAmount.IsNegative() || (o.buy && po.ReceivedCoin.Amount.GT(po.Amount)) || (!o.buy && po.Amount.Sub(po.OpenAmount).GT(po.Amount)) {
					rec.Violate("C05/in-situ/order-filled-beyond-its-amount", fmt.Sprintf("order %d: amount %s, open %s, received %s", o.id, po.Amount, po.OpenAmount, po.ReceivedCoin),
						map[string]interface{}{"history": history, "orders_before_batch": c05Descs(pre), "order_before": o.desc})
				}
				if filled.Sign() != 0 {
					anyTrade = true
					results = append(results, fmt.Sprintf("%s => open=%s remaining_offer=%s status=%s; account delta base=%s quote=%s", o.desc, po.OpenAmount, po.RemainingOfferCoin, po.Status, dBase, dQuote))
				}
				if o.buy {
					buyersGot.Add(buyersGot, dBase) // a buyer's base balance only changes by what matching gives him
					buyersPaidQ.Add(buyersPaidQ, new(big.Int).Sub(o.remaining.BigInt(), po.RemainingOfferCoin.Amount.BigInt()))
				} else {
					sellersPaid.Add(sellersPaid, filled)
					sellersGotQ.Add(sellersGotQ, dQuote) // a seller's quote balance only changes by what matching gives him
					if filled.Sign() > 0 && dQuote.Sign() <= 0 {
						rec.Violate("C05/in-situ/matched-order-received-nothing/user-order", fmt.Sprintf("sell order %d sold %s base and its owner's quote balance changed by %s", o.id, filled, dQuote), map[string]interface{}{"history": history, "orders_before_batch": c05Descs(pre), "results": results})
					}
					if st := po.Status; st == liqtypes.OrderStatusNotMatched || st == liqtypes.OrderStatusPartiallyMatched || st == liqtypes.OrderStatusNotExecuted {
						liveSellRemaining.Add(liveSellRemaining, po.RemainingOfferCoin.Amount.BigInt())
					}
				}
			}
			poolTraded := false
			for i := range pools {
				db := new(big.Int).Sub(p1[i].base, p0[i].base)
				dq := new(big.Int).Sub(p1[i].quote, p0[i].quote)
				if db.Sign() != 0 || dq.Sign() != 0 {
					poolTraded = true
					anyTrade = true
					results = append(results, fmt.Sprintf("pool %d reserve delta base=%s quote=%s", pools[i].Id, db, dq))
				}
				if db.Sign() > 0 {
					buyersGot.Add(buyersGot, db)
					buyersPaidQ.Sub(buyersPaidQ, dq)
				} else {
					sellersPaid.Sub(sellersPaid, db)
					sellersGotQ.Add(sellersGotQ, dq)
				}
			}
			dDust := new(big.Int).Sub(d1, d0)
			w := func() map[string]interface{} {
				return map[string]interface{}{"history": history, "orders_before_batch": c05Descs(pre), "results": results,
					"dust_collector_quote_delta": dDust.String(), "escrow_base_after": esc1.base.String(), "live_sell_orders_remaining_base_after (escrow must also hold their fee reserve)": liveSellRemaining.String()}
			}
			switch cmp := buyersGot.Cmp(sellersPaid); {
			case cmp > 0:
				poisoned = true // the escrow is short from here on; continue on a fresh chain
				rec.Count("insitu_batches_base_not_conserved", 1)
				rec.Violate("C05/in-situ/base-not-conserved/buyers-received-more-than-sellers-paid", fmt.Sprintf("buyer balances gained %s base, sell orders and pools gave up %s base", buyersGot, sellersPaid), w())
			case cmp < 0:
				rec.Violate("C05/in-situ/base-not-conserved/sellers-paid-more-than-buyers-received", fmt.Sprintf("buyer balances gained %s base, sell orders and pools gave up %s base", buyersGot, sellersPaid), w())
			}
			q := new(big.Int).Sub(buyersPaidQ, sellersGotQ)
			if q.Cmp(dDust) != 0 {
				rec.Violate("C05/in-situ/quote-diff-mismatch", fmt.Sprintf("buy orders paid %s quote, sellers gained %s quote, dust collector gained %s", buyersPaidQ, sellersGotQ, dDust), w())
			}
			if q.Sign() < 0 {
				rec.Violate("C05/in-situ/quote-buyers-paid-less-than-sellers-received", fmt.Sprintf("buy orders paid %s quote, sellers gained %s quote", buyersPaidQ, sellersGotQ), w())
			}
			if anyTrade {
				rec.Count("insitu_batches_matched", 1)
				if dDust.Sign() > 0 {
					rec.Count("insitu_batches_with_dust", 1)
				}
				if poolTraded {
					rec.Count("insitu_batches_pool_traded", 1)
				}
				if isCrafted || rec.Get("insitu_batches_matched") == 3 {
					rec.Sample(map[string]interface{}{"mode": "in-situ", "history": history, "results": results, "dust": dDust.String()})
				}
			}
			history = append(history, fmt.Sprintf("batch %d executed (keeper.ExecuteRequests)", batch))
			c.NextBlock(6 * time.Second)
		}
		rec.Count("insitu_scenarios", 1)
		scenariosDone++
		if isCrafted {
			// consequence of the short escrow, recorded as a note: run the batch function on the following blocks
			for i := 0; i < 14; i++ {
				var p interface{}
				func() {
					defer func() { p = recover() }()
					cctx, write := c.Ctx().CacheContext()
					k.ExecuteRequests(cctx, appID)
					write()
				}()
				if p != nil {
					rec.Count("insitu_crafted_later_batch_failed", 1)
					rec.Note(fmt.Sprintf("hand-made in-situ scenario, %d blocks after the batch that broke base conservation keeper.ExecuteRequests fails for the whole app: %v", i+1, p))
					break
				}
				c.NextBlock(6 * time.Second)
			}
		}
	}
	return scenariosDone
}

func c05AlphaLower(i int) string {
	s := c05Alpha(i)
	b := []byte(s)
	for i := range b {
		b[i] += 'a' - 'A'
	}
	return string(b)
}

func c05Descs(os []*c05SituOrder) []string {
	var r []string
	for _, o := range os {
		r = append(r, o.desc)
	}
	return r
}
