package props

// C06 in situ, on the shared three-app liquidity world (liq_workload_test.go): pools are created, fed, drained
// and traded against by real transactions of many accounts; deposit and withdraw requests are executed by the real
// end blocker (and inside the transaction for deposit-and-farm / unfarm-and-withdraw).
//
// Between two consecutive observation points (after every tx, every EndBlock+Commit, every BeginBlock) the monitor
// looks at the requests that became "succeeded" and replays them, per pool, in the order the batch executes them
// (matching first, then deposits by id, then withdrawals by id) against the exact-arithmetic laws of mon.C06Deposit /
// mon.C06Withdraw.  What a swap of the same batch did to the reserves before the requests ran is not observable
// directly; it is derived: reserves after matching = reserves now - accepted coins + withdrawn coins.  The
// pool-coin supply is NOT derived, it is read from the bank before and after: shares that appear without an
// executed deposit accounting for them were minted for nothing that anybody offered.
//
// Ranged pools: after every observation point the pool object the keeper itself would build from the reserve
// balances and the supply must quote a price inside the configured range.

import (
	"fmt"
	"math/big"
	"sort"
	"testing"

	sdk "github.com/cosmos/cosmos-sdk/types"

	"github.com/comdex-official/comdex/x/liquidity/amm"
	liqtypes "github.com/comdex-official/comdex/x/liquidity/types"

	"verif/ev"
	"verif/mon"
)

type c06PoolState struct {
	pool       liqtypes.Pool
	rx, ry, ps *big.Int
}

type c06WorldSnap struct {
	pools map[[2]uint64]c06PoolState
	deps  map[[3]uint64]liqtypes.DepositRequest
	wds   map[[3]uint64]liqtypes.WithdrawRequest
	taken bool
}

type c06WorldMon struct {
	rec      *ev.Rec
	prev     c06WorldSnap
	reported map[string]bool
}

func (m *c06WorldMon) Init(w *liqWorld) { m.prev = c06WorldSnap{}; m.reported = map[string]bool{} }

func (m *c06WorldMon) snap(w *liqWorld) c06WorldSnap {
	ctx := w.ctx()
	k := w.c.App.LiquidityKeeper
	s := c06WorldSnap{pools: map[[2]uint64]c06PoolState{}, deps: map[[3]uint64]liqtypes.DepositRequest{}, wds: map[[3]uint64]liqtypes.WithdrawRequest{}, taken: true}
	for _, app := range w.apps {
		for _, p := range k.GetAllPools(ctx, app) {
			rx, ry := k.GetPoolBalances(ctx, p)
			s.pools[[2]uint64{app, p.Id}] = c06PoolState{pool: p, rx: rx.Amount.BigInt(), ry: ry.Amount.BigInt(), ps: k.GetPoolCoinSupply(ctx, p).BigInt()}
		}
		for _, r := range k.GetAllDepositRequests(ctx, app) {
			s.deps[[3]uint64{app, r.PoolId, r.Id}] = r
		}
		for _, r := range k.GetAllWithdrawRequests(ctx, app) {
			s.wds[[3]uint64{app, r.PoolId, r.Id}] = r
		}
	}
	return s
}

func (m *c06WorldMon) Observe(w *liqWorld, st *liqStep) {
	cur := m.snap(w)
	defer func() { m.prev = cur }()
	m.ranged(w, st, cur)
	if !m.prev.taken {
		return
	}
	k := w.c.App.LiquidityKeeper
	// requests that became "succeeded" since the previous observation point, per pool
	type exec struct {
		deps []liqtypes.DepositRequest
		wds  []liqtypes.WithdrawRequest
	}
	byPool := map[[2]uint64]*exec{}
	get := func(key [2]uint64) *exec {
		if byPool[key] == nil {
			byPool[key] = &exec{}
		}
		return byPool[key]
	}
	for key, r := range cur.deps {
		if old, seen := m.prev.deps[key]; r.Status == liqtypes.RequestStatusSucceeded && (!seen || old.Status == liqtypes.RequestStatusNotExecuted) {
			e := get([2]uint64{key[0], key[1]})
			e.deps = append(e.deps, r)
		}
	}
	for key, r := range cur.wds {
		if old, seen := m.prev.wds[key]; r.Status == liqtypes.RequestStatusSucceeded && (!seen || old.Status == liqtypes.RequestStatusNotExecuted) {
			e := get([2]uint64{key[0], key[1]})
			e.wds = append(e.wds, r)
		}
	}
	var keys [][2]uint64
	for key := range cur.pools {
		keys = append(keys, key)
	}
	sort.Slice(keys, func(i, j int) bool {
		return keys[i][0] < keys[j][0] || (keys[i][0] == keys[j][0] && keys[i][1] < keys[j][1])
	})
	for _, key := range keys {
		now := cur.pools[key]
		was, existed := m.prev.pools[key]
		if !existed {
			continue // created by this step: amm.CreateBasicPool / CreateRangedPool is the pure part's business
		}
		e := byPool[key]
		if e == nil {
			e = &exec{}
		}
		sort.Slice(e.deps, func(i, j int) bool { return e.deps[i].Id < e.deps[j].Id })
		sort.Slice(e.wds, func(i, j int) bool { return e.wds[i].Id < e.wds[j].Id })
		pair, _ := k.GetPair(w.ctx(), key[0], now.pool.PairId)
		amt := func(cs sdk.Coins, denom string) *big.Int { return cs.AmountOf(denom).BigInt() }
		// reserves right after this step's matching (before the requests ran), derived from what the requests moved
		rx, ry, ps := new(big.Int).Set(now.rx), new(big.Int).Set(now.ry), new(big.Int).Set(was.ps)
		for _, d := range e.deps {
			rx.Sub(rx, amt(d.AcceptedCoins, pair.QuoteCoinDenom))
			ry.Sub(ry, amt(d.AcceptedCoins, pair.BaseCoinDenom))
		}
		for _, wd := range e.wds {
			rx.Add(rx, amt(wd.WithdrawnCoins, pair.QuoteCoinDenom))
			ry.Add(ry, amt(wd.WithdrawnCoins, pair.BaseCoinDenom))
		}
		m.rec.Eval(1)
		judged := rx.Sign() >= 0 && ry.Sign() >= 0 && ps.Sign() > 0 && (rx.Sign() > 0 || ry.Sign() > 0)
		if len(e.deps)+len(e.wds) > 0 {
			if !judged {
				m.rec.Count("world_request_steps_not_replayable", 1)
			}
			if st.Kind == "end-block" && (rx.Cmp(was.rx) != 0 || ry.Cmp(was.ry) != 0) {
				m.rec.Count("world_request_steps_after_a_swap_in_the_same_batch", 1)
			}
		}
		var ops []string
		feeNum := new(big.Int)
		if gp, err := k.GetGenericParams(w.ctx(), key[0]); err == nil {
			feeNum = gp.WithdrawFeeRate.BigInt()
		}
		if judged {
			for _, d := range e.deps {
				x, y := amt(d.DepositCoins, pair.QuoteCoinDenom), amt(d.DepositCoins, pair.BaseCoinDenom)
				ax, ay := amt(d.AcceptedCoins, pair.QuoteCoinDenom), amt(d.AcceptedCoins, pair.BaseCoinDenom)
				pc := d.MintedPoolCoin.Amount.BigInt()
				ops = append(ops, fmt.Sprintf("deposit request %d: offered x=%s y=%s into (rx=%s ry=%s ps=%s) => accepted %s %s, minted %s", d.Id, x, y, rx, ry, ps, ax, ay, pc))
				m.rec.Eval(1)
				m.rec.Count("world_deposits_judged_"+st.Kind, 1)
				m.rec.Distinct("C06-world-dep", now.pool.Type.String(), st.Kind, c06Shape(rx, ry), c06Digits(ps), c06Digits(x), c06Digits(y), c06Digits(pc))
				br, strict := mon.C06Deposit(rx, ry, ps, x, y, ax, ay, pc)
				if strict {
					m.rec.Count("deposit_rate_dust_to_depositor_within_1e-17", 1)
				}
				if pc.Sign() <= 0 {
					br = append(br, mon.C06Breach{Law: "executed-without-minting", What: fmt.Sprintf("request succeeded, minted %s", pc)})
				}
				for _, b := range br {
					m.rec.Violate("C06/world-deposit/"+st.Kind+"/"+b.Law, b.What, w.witness(map[string]interface{}{"app": key[0], "pool": key[1], "pool_type": now.pool.Type.String(), "requests_of_this_step": ops, "observed_after": st.Kind + ":" + st.Desc}))
				}
				rx.Add(rx, ax)
				ry.Add(ry, ay)
				ps.Add(ps, pc)
			}
			for _, wd := range e.wds {
				wx, wy := amt(wd.WithdrawnCoins, pair.QuoteCoinDenom), amt(wd.WithdrawnCoins, pair.BaseCoinDenom)
				pc := wd.PoolCoin.Amount.BigInt()
				ops = append(ops, fmt.Sprintf("withdraw request %d: %s pool coins from (rx=%s ry=%s ps=%s) => withdrawn %s %s", wd.Id, pc, rx, ry, ps, wx, wy))
				if pc.Cmp(ps) > 0 || ps.Sign() <= 0 {
					m.rec.Count("world_request_steps_not_replayable", 1)
					judged = false
					break
				}
				m.rec.Eval(1)
				m.rec.Count("world_withdrawals_judged_"+st.Kind, 1)
				if pc.Cmp(ps) == 0 {
					m.rec.Count("world_withdrawals_last_shares", 1)
				}
				m.rec.Distinct("C06-world-wd", now.pool.Type.String(), st.Kind, c06Shape(rx, ry), c06Digits(ps), c06Digits(pc), pc.Cmp(ps) == 0)
				for _, b := range mon.C06Withdraw(rx, ry, ps, pc, feeNum, wx, wy) {
					m.rec.Violate("C06/world-withdraw/"+st.Kind+"/"+b.Law, b.What, w.witness(map[string]interface{}{"app": key[0], "pool": key[1], "pool_type": now.pool.Type.String(), "withdraw_fee_rate_e18": feeNum.String(), "requests_of_this_step": ops, "observed_after": st.Kind + ":" + st.Desc}))
				}
				rx.Sub(rx, wx)
				ry.Sub(ry, wy)
				ps.Sub(ps, pc)
			}
		}
		// the supply is read from the bank, not derived: every share that exists now is either an old one or was
		// minted by one of the deposits replayed above
		expect := new(big.Int).Set(was.ps)
		for _, d := range e.deps {
			expect.Add(expect, d.MintedPoolCoin.Amount.BigInt())
		}
		for _, wd := range e.wds {
			expect.Sub(expect, wd.PoolCoin.Amount.BigInt())
		}
		m.rec.Count("world_supply_checks_"+st.Kind, 1)
		if now.ps.Cmp(expect) > 0 {
			tag := fmt.Sprintf("supply|%d|%d|%s", key[0], key[1], new(big.Int).Sub(now.ps, expect))
			if !m.reported[tag] {
				m.reported[tag] = true
				m.rec.Violate("C06/world/"+st.Kind+"/shares-minted-without-offered-deposit", fmt.Sprintf("pool %d of app %d: pool-coin supply went from %s to %s, the deposits and withdrawals executed in this step account for %s: %s shares were minted for coins nobody offered",
					key[1], key[0], was.ps, now.ps, expect, new(big.Int).Sub(now.ps, expect)),
					w.witness(map[string]interface{}{"app": key[0], "pool": key[1], "requests_of_this_step": ops, "reserves_before": fmt.Sprintf("rx=%s ry=%s", was.rx, was.ry), "reserves_after": fmt.Sprintf("rx=%s ry=%s", now.rx, now.ry), "observed_after": st.Kind + ":" + st.Desc}))
			}
		}
	}
}

// ranged: the price clause, on the pool object the keeper itself builds (pool.AMMPool) from the live balances.
func (m *c06WorldMon) ranged(w *liqWorld, st *liqStep, cur c06WorldSnap) {
	for key, s := range cur.pools {
		p := s.pool
		if p.Type != liqtypes.PoolTypeRanged || p.Disabled || p.MinPrice == nil || p.MaxPrice == nil {
			continue
		}
		if s.ps.Sign() == 0 || (s.rx.Sign() == 0 && s.ry.Sign() == 0) {
			continue
		}
		var price sdk.Dec
		panicked := false
		func() {
			defer func() {
				if r := recover(); r != nil {
					panicked = true
					m.rec.Count("world_ranged_price_panicked_"+panicClass(r), 1)
				}
			}()
			price = p.AMMPool(c06I(s.rx), c06I(s.ry), c06I(s.ps)).Price()
		}()
		if panicked {
			continue
		}
		m.rec.Eval(1)
		m.rec.Count("world_ranged_price_checked_"+st.Kind, 1)
		if was, ok := m.prev.pools[key]; ok && st.Kind == "end-block" && (was.rx.Cmp(s.rx) != 0 || was.ry.Cmp(s.ry) != 0) {
			m.rec.Count("world_ranged_price_checked_after_reserves_moved_in_end_block", 1)
		}
		if s.rx.Sign() == 0 || s.ry.Sign() == 0 {
			m.rec.Count("world_ranged_price_checked_one_sided", 1)
		}
		side, rel, big9 := mon.C06PriceSide(price.BigInt(), p.MinPrice.BigInt(), p.MaxPrice.BigInt())
		if side == "" {
			if price.Equal(*p.MinPrice) || price.Equal(*p.MaxPrice) {
				m.rec.Count("world_ranged_price_exactly_on_bound", 1)
			}
			continue
		}
		class := "within-1e-9"
		if big9 {
			class = "beyond-1e-9"
		}
		tag := fmt.Sprintf("price|%d|%d|%s", key[0], key[1], side)
		if m.reported[tag] {
			continue
		}
		m.reported[tag] = true
		m.rec.Violate("C06/world/ranged-price/"+st.Kind+"/"+side+"/"+class, fmt.Sprintf("ranged pool %d of app %d quotes %s outside [%s, %s]", key[1], key[0], price, p.MinPrice, p.MaxPrice),
			w.witness(map[string]interface{}{"app": key[0], "pool": key[1], "rx": s.rx.String(), "ry": s.ry.String(), "ps": s.ps.String(), "relative_distance": rel.FloatString(30), "observed_after": st.Kind + ":" + st.Desc}))
	}
}

// c06World drives the shared liquidity world with the C06 monitor attached. Every pair that has a basic pool gets a
// ranged pool next to it at the start (tight, wide and one-sided ranges around the pair's price), so that the orders
// of the workload swap against ranged pools from the first batch on.
func c06World(t *testing.T, rec *ev.Rec) {
	runs := ev.Pick(1, 6)
	for run := 0; run < runs; run++ {
		rnd := rng("C06-world", run)
		w := liqNewWorld(t, rec, rnd, run, &c06WorldMon{rec: rec})
		k := w.c.App.LiquidityKeeper
		for _, app := range w.apps {
			for _, pair := range k.GetAllPairs(w.ctx(), app) {
				if len(k.GetPoolsByPair(w.ctx(), app, pair.Id)) == 0 {
					continue
				}
				ref := w.refPrice(pair)
				prec := w.tickPrec[app]
				shape := rnd.Intn(5)
				var lo, hi, init sdk.Dec
				var coins sdk.Coins
				if !liqSafely(func() {
					d := func(s string) sdk.Dec { return sdk.MustNewDecFromStr(s) }
					lo = amm.PriceToDownTick(ref.Mul(d([]string{"0.8", "0.97", "0.5", "0.9", "0.95"}[shape])), prec)
					hi = amm.PriceToUpTick(ref.Mul(d([]string{"1.25", "1.03", "2", "1.1", "1.05"}[shape])), prec)
					init = amm.PriceToDownTick(ref, prec)
					switch shape {
					case 3:
						init = lo // one-sided: base coin only
					case 4:
						init = hi // one-sided: quote coin only
					}
					y := liqPow10(8 + rnd.Intn(5)).MulRaw(int64(1 + rnd.Intn(9)))
					coins = sdk.NewCoins(sdk.NewCoin(pair.QuoteCoinDenom, ref.MulInt(y).TruncateInt().AddRaw(1)), sdk.NewCoin(pair.BaseCoinDenom, y))
				}) {
					continue
				}
				lp := w.lps[rnd.Intn(len(w.lps))]
				st := w.deliver(lp, "create-ranged-pool", liqtypes.NewMsgCreateRangedPool(app, lp.Addr, pair.Id, coins, lo, hi, init), fmt.Sprintf("app=%d pair=%d coins=%s range=[%s,%s] init=%s (C06 world set-up)", app, pair.Id, coins, lo, hi, init))
				if st.OK {
					rec.Count("world_ranged_pools_created_at_start", 1)
				}
			}
		}
		nBlocks := ev.Pick(120, 400)
		for b := 0; b < nBlocks; b++ {
			ntx := []int{0, 1, 2, 3, 3, 4, 5, 6}[rnd.Intn(8)]
			for i := 0; i < ntx; i++ {
				w.randomOp()
			}
			// more liquidity-provider traffic than the shared mix has: requests are what this monitor judges
			lp := w.lps[rnd.Intn(len(w.lps))]
			switch rnd.Intn(6) {
			case 0, 1:
				w.opDeposit(lp, false)
			case 2:
				w.opDeposit(lp, true)
			case 3:
				w.opWithdraw(lp)
			case 4:
				w.opUnfarm(lp, true)
			}
			w.nextBlock(w.blockGap())
		}
		rec.Count("world_runs", 1)
		w.c.Close()
	}
	rec.Floor("world_deposits_judged_end-block", 40)
	rec.Floor("world_deposits_judged_tx", 15)
	rec.Floor("world_withdrawals_judged_end-block", 20)
	rec.Floor("world_request_steps_after_a_swap_in_the_same_batch", 5)
	rec.Floor("world_supply_checks_end-block", 2000)
	rec.Floor("world_ranged_price_checked_end-block", 1000)
	rec.Floor("world_ranged_price_checked_after_reserves_moved_in_end_block", 100)
}

// TestC06World runs the world part alone (development aid; ./check runs TestC06).
func TestC06World(t *testing.T) {
	rec := ev.New("C06W", "exploration", "C06 monitor on the shared liquidity world only")
	defer finish(t, rec)
	c06World(t, rec)
}
