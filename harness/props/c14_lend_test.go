package props

import (
	"sort"
	"testing"

	sdk "github.com/cosmos/cosmos-sdk/types"

	esmtypes "github.com/comdex-official/comdex/x/esm/types"
	lendtypes "github.com/comdex-official/comdex/x/lend/types"

	"verif/ev"
)

// c14Lend: the circuit breaker of the lending app must refuse opening / enlarging / drawing lend and borrow positions.
func c14Lend(t *testing.T, rec *ev.Rec, round int) {
	v := ev.ShardNo()*3 + round
	e := c08Setup(t, ev.NewScratch(), rng("C14-lend-setup", v), 0, v%3, false)
	defer e.c.Close()
	e.rnd = rng("C14-lend", v)
	c := e.c
	for i := 0; i < 300 && !e.panicked; i++ {
		if e.rnd.Intn(100) < 20 {
			e.blockStep()
		} else {
			e.txStep()
		}
	}
	env := &c14Env{t: t, u: lendView(e), rec: rec, keys: storeKeys(c), admin: c.Accts[6]}
	c.App.EsmKeeper.SetParams(c.Ctx(), esmtypes.Params{Admin: []string{env.admin.Addr.String()}})
	app := e.u.App
	on := func() { env.setBreaker(app, true) }
	off := func() { env.setBreaker(app, false) }
	s := e.snap()
	var lids, bids []uint64
	for id := range s.lends {
		lids = append(lids, id)
	}
	for id, b := range s.borrows {
		if !b.IsLiquidated {
			bids = append(bids, id)
		}
	}
	sort.Slice(lids, func(i, j int) bool { return lids[i] < lids[j] })
	sort.Slice(bids, func(i, j int) bool { return bids[i] < bids[j] })
	// open a new lend position
	atom := e.u.ByDenom["uatom"]
	for pid, p := range e.u.Pools {
		hasAtom := false
		for _, a := range p.Assets {
			if a == atom.ID {
				hasAtom = true
			}
		}
		if hasAtom {
			u := c.Accts[4]
			env.refuse("breaker/lend-open", u, lendtypes.NewMsgLend(u.Addr.String(), atom.ID, sdk.NewCoin("uatom", sdk.NewInt(5_000_000)), pid, app), on, off)
			break
		}
	}
	for i, id := range lids {
		if i >= 4 {
			break
		}
		l := s.lends[id]
		owner := acctOf(c, l.Owner)
		if owner == nil {
			continue
		}
		denom := e.u.Assets[l.AssetID].Denom
		env.refuse("breaker/lend-deposit", owner, lendtypes.NewMsgDeposit(l.Owner, id, sdk.NewCoin(denom, sdk.NewInt(100_000))), on, off)
		// drawing from the position: a small amount, and exactly everything that is available (the handler's
		// "withdraw all = close" shortcut)
		if cur, ok := c.App.LendKeeper.GetLend(c.Ctx(), id); ok && cur.AvailableToBorrow.GT(sdk.NewInt(2000)) {
			env.refuse("breaker/lend-withdraw", owner, lendtypes.NewMsgWithdraw(l.Owner, id, sdk.NewCoin(denom, sdk.NewInt(1000))), on, off)
		}
		if cur, ok := c.App.LendKeeper.GetLend(c.Ctx(), id); ok && cur.AvailableToBorrow.IsPositive() {
			env.refuse("breaker/lend-withdraw/exactly-available", owner, lendtypes.NewMsgWithdraw(l.Owner, id, sdk.NewCoin(denom, cur.AvailableToBorrow)), on, off)
		}
	}
	for i, id := range bids {
		if i >= 3 {
			break
		}
		b, ok := e.snap().borrows[id]
		if !ok {
			continue
		}
		l, ok := e.snap().lends[b.LendingID]
		if !ok {
			continue
		}
		owner := acctOf(c, l.Owner)
		if owner == nil {
			continue
		}
		env.refuse("breaker/borrow-draw", owner, lendtypes.NewMsgDraw(l.Owner, id, sdk.NewCoin(b.AmountOut.Denom, sdk.NewInt(1000))), on, off)
		env.refuse("breaker/borrow-deposit-collateral", owner, lendtypes.NewMsgDepositBorrow(l.Owner, id, sdk.NewCoin(b.AmountIn.Denom, sdk.NewInt(1000))), on, off)
		// MsgBorrow on a pair the owner already borrows on enlarges that position (deposit + draw); the loan must be
		// worth more than the module's minimum of one dollar, and the pledge must be available in the lend position
		if cur, ok := c.App.LendKeeper.GetLend(c.Ctx(), b.LendingID); ok && cur.AvailableToBorrow.GT(sdk.NewInt(10_000_000)) {
			if p, found := e.pair(b.PairID); found {
				x := cur.AvailableToBorrow.QuoRaw(10)
				max := e.maxLoan(p, cur.PoolID, p.AssetIn, x.BigInt())
				loan := sdk.NewIntFromBigInt(max).MulRaw(40).QuoRaw(100)
				if loan.GT(sdk.NewInt(2_000_000)) {
					env.refuse("breaker/borrow-enlarge-by-borrow-message", owner, lendtypes.NewMsgBorrow(l.Owner, b.LendingID, b.PairID, false, sdk.NewCoin(b.AmountIn.Denom, x), sdk.NewCoin(b.AmountOut.Denom, loan)), on, off)
				}
			}
		}
	}
	c14LendCells(e, env, on, off)
	rec.Floor("live:breaker/borrow-open/same-pool", 2)
	rec.Floor("live:breaker/borrow-alternate/same-pool", 2)
	rec.Floor("lend_price_cells_checked", 20)
	rec.Floor("lend_price_liquidate_cells_checked", 8)
	rec.Floor("lend_price_sweep_cells_checked", 4)
	rec.Floor("lend_breaker_liquidate_cells_checked", 4)
	rec.Floor("lend_sweep_cells_live", 2)
}
