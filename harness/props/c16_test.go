package props

import (
	"encoding/json"
	"fmt"
	"math"
	"os"
	"os/exec"
	"path/filepath"
	"strconv"
	"strings"
	"sync"
	"testing"
	"time"

	assettypes "github.com/comdex-official/comdex/x/asset/types"
	bandtypes "github.com/comdex-official/comdex/x/bandoracle/types"
	lendtypes "github.com/comdex-official/comdex/x/lend/types"
	liqV2types "github.com/comdex-official/comdex/x/liquidationsV2/types"
	sdk "github.com/cosmos/cosmos-sdk/types"
	govv1beta1 "github.com/cosmos/cosmos-sdk/x/gov/types/v1beta1"

	"verif/ev"
	"verif/inject"
	"verif/sim"
)

// ---- C16: determinism by differential replay ----

type c16Universe struct {
	Name    string `json:"name"`
	Variant int    `json:"variant"`
}

type c16Tape struct {
	U    c16Universe `json:"universe"`
	Tape sim.Tape    `json:"tape"`
}

// c16Setup builds a fresh instance of the universe (deterministic set-up code, no randomness).
func c16Setup(t *testing.T, u c16Universe) *sim.Chain {
	switch u.Name {
	case "cdp":
		cu := newCDP(t, cdpOpts{variant: u.Variant})
		cu.c.App.NewliqKeeper.SetParams(cu.c.Ctx(), liqV2types.Params{LiquidationBatchSize: uint64([]int{200, 3}[u.Variant%2])})
		return cu.c
	case "liq", "liq-crowd":
		return liqNewWorld(t, ev.NewScratch(), rng("C16-liq-setup", u.Variant), u.Variant, nil).c
	case "lend":
		return c08Setup(t, ev.NewScratch(), rng("C16-lend-setup", u.Variant), 0, u.Variant%3, true).c
	case "rewards":
		return c16RewardsEnv(t, u).c
	case "rewards-prog":
		return c19ProgNewEnv(t, ev.NewScratch(), rng("C16-rewards-prog-setup", u.Variant), u.Variant).c
	case "oracle":
		return c16OracleUniverse(t, u).c
	}
	t.Fatalf("unknown universe %s", u.Name)
	return nil
}

// c16Recorders produce a tape on a fresh instance of a universe.
var c16Recorders = map[string]func(t *testing.T, rec *ev.Rec, u c16Universe, steps int) *sim.Tape{
	"cdp": func(t *testing.T, rec *ev.Rec, u c16Universe, steps int) *sim.Tape {
		cu := newCDP(t, cdpOpts{variant: u.Variant})
		defer cu.c.Close()
		cu.c.App.NewliqKeeper.SetParams(cu.c.Ctx(), liqV2types.Params{LiquidationBatchSize: uint64([]int{200, 3}[u.Variant%2])})
		cu.c.Tape = &sim.Tape{}
		r := newCdpRunner(cu, rng("C16", u.Name, u.Variant), rec, cdpCfg{priceMoves: true, bids: true, lockers: true, unsolicited: true, liquidateMsg: true, limitBids: true, unsafeBias: true, reserve: true, maxGap: 3 * 24 * time.Hour})
		r.run(steps / 2)
		// governance traffic passes through the application's own ante decorators (proposal spam filter)
		for i, dep := range []int64{3_000_000, 1, 20_000_000} {
			a := cu.c.Accts[i%len(cu.c.Accts)]
			content := govv1beta1.NewTextProposal(fmt.Sprintf("verif %d", i), "text proposal placed by the replay workload")
			if msg, err := govv1beta1.NewMsgSubmitProposal(content, sdk.NewCoins(sdk.NewCoin("stake", sdk.NewInt(dep))), a.Addr); err == nil {
				r.tx("gov_submit_proposal_legacy", a, msg, fmt.Sprintf("initial deposit %dstake", dep))
			}
		}
		r.run(steps - steps/2)
		// one block fills auctions of two limit-bid books (two collateral denoms, one debt asset) at the same discount
		if r.twoFills([]string{"uatom", "ucmdx"}, func(dt time.Duration) { r.block(dt) }) {
			rec.Count("cdp_tape_blocks_filling_two_limit_bid_books", 1)
		}
		r.esmPhase(cu.cdpApps[u.Variant%len(cu.cdpApps)])
		// make sure the tape ends on a block boundary so that the last app hash covers everything
		r.block(6 * time.Second)
		r.block(6 * time.Second)
		return cu.c.Tape
	},
}

func init() {
	c16Recorders["liq"] = func(t *testing.T, rec *ev.Rec, u c16Universe, steps int) *sim.Tape {
		w := liqNewWorld(t, ev.NewScratch(), rng("C16-liq-setup", u.Variant), u.Variant, nil)
		defer w.c.Close()
		w.rnd = rng("C16-liq", u.Variant)
		w.c.Tape = &sim.Tape{}
		for b := 0; b < steps/6; b++ {
			for i := w.rnd.Intn(7); i > 0; i-- {
				w.randomOp()
			}
			w.nextBlock(w.blockGap())
		}
		w.nextBlock(6 * time.Second)
		return w.c.Tape
	}
	// the matcher under crowds: every block rests several same-tick orders of very different sizes and fills the
	// tick partly (pro-rata split, drop-and-redistribute rounds, truncation remainders handed out "by priority")
	c16Recorders["liq-crowd"] = func(t *testing.T, rec *ev.Rec, u c16Universe, steps int) *sim.Tape {
		w := liqNewWorld(t, ev.NewScratch(), rng("C16-liq-setup", u.Variant), u.Variant, nil)
		defer w.c.Close()
		w.rnd = rng("C16-liq-crowd", u.Variant)
		w.c.Tape = &sim.Tape{}
		for b := 0; b < steps/8; b++ {
			for i := 1 + w.rnd.Intn(3); i > 0; i-- {
				w.opCrowd()
			}
			if w.rnd.Intn(3) == 0 {
				w.randomOp()
			}
			w.nextBlock(6 * time.Second)
		}
		w.nextBlock(6 * time.Second)
		return w.c.Tape
	}
	c16Recorders["lend"] = func(t *testing.T, rec *ev.Rec, u c16Universe, steps int) *sim.Tape {
		e := c08Setup(t, ev.NewScratch(), rng("C16-lend-setup", u.Variant), 0, u.Variant%3, true)
		defer e.c.Close()
		e.rnd = rng("C16-lend", u.Variant)
		e.c.Tape = &sim.Tape{}
		for i := 0; i < steps && !e.panicked; i++ {
			// governance adds a third and a fourth pool in the middle of the history
			if i == steps/3 || i == 2*steps/3 {
				nm := [][2]string{{"evmos", lendtypes.ModuleAcc6}, {"weth", lendtypes.ModuleAcc9}}[map[bool]int{true: 0, false: 1}[i == steps/3]]
				if err := c16Env(e.c, "lend-add-pool", nm[0], nm[1]); err != nil {
					rec.Note("lend tape: adding pool " + nm[0] + " failed: " + err.Error())
				} else {
					rec.Count("lend_tape_pools_added_by_governance", 1)
					rec.Count("lend_tape_pairs_after_adding_a_pool", int64(len(e.c.App.LendKeeper.GetLendPairs(e.c.Ctx()))))
				}
			}
			if e.rnd.Intn(100) < 30 {
				e.blockStep()
			} else {
				e.txStep()
			}
		}
		e.c.NextBlock(6 * time.Second)
		e.c.NextBlock(6 * time.Second)
		return e.c.Tape
	}
	// gauges (plain, master/child, swap-fee), farming queues, epochs passing and being skipped, the locker programme,
	// governance switching the swap-fee distribution denomination
	c16Recorders["rewards"] = func(t *testing.T, rec *ev.Rec, u c16Universe, steps int) *sim.Tape {
		e := c16RewardsEnv(t, u)
		defer e.c.Close()
		e.rnd = rng("C16-rewards", u.Variant)
		e.c.Tape = &sim.Tape{}
		for i := 0; i < 3; i++ {
			e.createGauge(false)
		}
		for b := 0; b < steps/8 && !e.panicked; b++ {
			na := e.rnd.Intn(5)
			if b < 6 {
				na = 4 + e.rnd.Intn(4)
			}
			for i := 0; i < na; i++ {
				e.action()
			}
			e.step(e.pickDt())
		}
		e.step(6 * time.Second)
		rec.Count("rewards_tape_gauges", int64(len(e.c.App.Rewardskeeper.GetAllGauges(e.c.Ctx()))))
		for _, ei := range e.c.App.Rewardskeeper.GetAllEpochInfos(e.c.Ctx()) {
			rec.Count("rewards_tape_epochs_ticked", ei.CurrentEpoch)
		}
		return e.c.Tape
	}
	// the four kinds of external reward programme paying out next to gauges
	c16Recorders["rewards-prog"] = func(t *testing.T, rec *ev.Rec, u c16Universe, steps int) *sim.Tape {
		e := c19ProgNewEnv(t, ev.NewScratch(), rng("C16-rewards-prog-setup", u.Variant), u.Variant)
		defer e.c.Close()
		e.rnd = rng("C16-rewards-prog", u.Variant)
		e.c.Tape = &sim.Tape{}
		e.run(u.Variant, steps/10)
		e.step(6 * time.Second)
		for _, p := range c19Programmes(e.c, e.c.Ctx()) {
			rec.Count("rewards_tape_programmes_"+p.kind, 1)
			if p.avail.Amount.LT(p.total.Amount) {
				rec.Count("rewards_tape_programmes_paid_"+p.kind, 1)
			}
		}
		return e.c.Tape
	}
	// the CDP workload on the real bandoracle -> market begin-block pipeline: oracle responses are stored the way the
	// IBC acknowledgement handler stores them (environment action "band-result"), every 20th block consumes them
	c16Recorders["oracle"] = func(t *testing.T, rec *ev.Rec, u c16Universe, steps int) *sim.Tape {
		cu := c16OracleUniverse(t, u)
		c := cu.c
		defer c.Close()
		c.Tape = &sim.Tape{}
		rnd := rng("C16-oracle", u.Variant)
		r := newCdpRunner(cu, rnd, rec, cdpCfg{bids: true, lockers: true, liquidateMsg: true, limitBids: true, maxGap: 30 * time.Second})
		var ids []uint64
		base := map[uint64]uint64{}
		for _, a := range c.App.AssetKeeper.GetAssets(c.Ctx()) {
			if a.IsOraclePriceRequired {
				ids = append(ids, a.Id)
				tw, _ := c.App.MarketKeeper.GetTwa(c.Ctx(), a.Id)
				base[a.Id] = tw.Twa
			}
		}
		var lastID int64
		for round := 0; round < steps/30 && !r.panicked; round++ {
			if rnd.Intn(6) != 0 { // else: the relayer delivered nothing new (stale round)
				lastID++
				rates := make([]uint64, 0, len(ids))
				for _, id := range ids {
					v := base[id]*uint64(60+rnd.Intn(90))/100 + 1
					switch rnd.Intn(12) {
					case 0:
						v = 0
					case 1:
						v = []uint64{math.MaxUint64, 1 << 63, 1}[rnd.Intn(3)]
					}
					rates = append(rates, v)
				}
				if rnd.Intn(8) == 0 {
					rates = rates[:len(rates)-1]
				}
				bz, _ := json.Marshal(rates)
				r.env("feed", fmt.Sprintf("oracle result %d: %s", lastID, bz), func() { _ = c16Env(c, "band-result", fmt.Sprint(lastID), string(bz)) })
				rec.Count("oracle_tape_results_fed", 1)
			}
			target := (c.Header.Height/20 + 1) * 20
			for c.Header.Height < target && !r.panicked {
				if rnd.Intn(3) == 0 {
					r.step()
				} else {
					r.block(6 * time.Second)
				}
			}
			for _, id := range ids {
				if tw, ok := c.App.MarketKeeper.GetTwa(c.Ctx(), id); ok && tw.IsPriceActive && tw.Twa != base[id] {
					rec.Count("oracle_tape_prices_published_by_pipeline", 1)
				}
			}
		}
		r.block(6 * time.Second)
		r.block(6 * time.Second)
		return c.Tape
	}
}

// ---- environment actions beyond the price write the chain driver knows ("twa") ----
//
// Keeper writes the harness makes in the place of governance / the IBC acknowledgement handler are recorded on the
// tape as "env" records and re-applied by every replica:
//   band-result <request id> <json rates>   what the bandoracle acknowledgement handler stores for a fetch-price request
//   liq-generic-params <app> <key> <value>  a liquidity generic-params governance update

// c16Env records (when a tape is attached) and applies an environment action.
func c16Env(c *sim.Chain, env string, args ...string) error {
	rc := sim.TapeRec{Kind: "env", Env: env, Args: args}
	if c.Tape != nil {
		c.Tape.Recs = append(c.Tape.Recs, rc)
	}
	return c16ApplyEnv(c, rc)
}

func c16ApplyEnv(c *sim.Chain, rc sim.TapeRec) error {
	switch rc.Env {
	case "band-result":
		id, err := strconv.ParseInt(rc.Args[0], 10, 64)
		if err != nil {
			panic(err)
		}
		var rates []uint64
		if err := json.Unmarshal([]byte(rc.Args[1]), &rates); err != nil {
			panic(err)
		}
		k := c.App.BandoracleKeeper
		k.SetFetchPriceResult(c.Ctx(), bandtypes.OracleRequestID(id), bandtypes.FetchPriceResult{Rates: rates})
		k.SetLastFetchPriceID(c.Ctx(), bandtypes.OracleRequestID(id))
		return nil
	case "lend-add-pool":
		// governance adds a lend pool (the keeper function behind AddAssetRatesPoolPairsProposal): new main asset with its
		// cToken, rate parameters, the pool, its pairs and one cross-pool pair per existing pool in each direction
		name, module := rc.Args[0], rc.Args[1]
		ctx := c.Ctx()
		ak := c.App.AssetKeeper
		up := strings.ToUpper(name)
		if err := ak.AddAssetRecords(ctx, assettypes.Asset{Name: up, Denom: "u" + name, Decimals: sdk.NewInt(1_000_000), IsOnChain: true, IsOraclePriceRequired: false}); err != nil {
			return err
		}
		if err := ak.AddAssetRecords(ctx, assettypes.Asset{Name: "C" + up, Denom: "uc" + name, Decimals: sdk.NewInt(1_000_000), IsOnChain: true, IsOraclePriceRequired: false}); err != nil {
			return err
		}
		a, _ := ak.GetAssetForDenom(ctx, "u"+name)
		ca, _ := ak.GetAssetForDenom(ctx, "uc"+name)
		first, found := c.App.LendKeeper.GetPool(ctx, 1)
		if !found {
			return fmt.Errorf("no pool 1")
		}
		cap := sdk.NewDecFromInt(sdk.NewInt(1_000_000_000_000_000_000))
		data := []*lendtypes.AssetDataPoolMapping{{AssetID: a.Id, AssetTransitType: 1, SupplyCap: cap}}
		for _, d := range first.AssetData {
			if d.AssetTransitType == 2 || d.AssetTransitType == 3 {
				data = append(data, &lendtypes.AssetDataPoolMapping{AssetID: d.AssetID, AssetTransitType: d.AssetTransitType, SupplyCap: cap})
			}
		}
		return c.App.LendKeeper.AddAssetRatesPoolPairs(ctx, lendtypes.AssetRatesPoolPairs{AssetID: a.Id, UOptimal: dec("0.7"), Base: dec("0.002"), Slope1: dec("0.07"), Slope2: dec("1.2"),
			EnableStableBorrow: false, StableBase: dec("0"), StableSlope1: dec("0"), StableSlope2: dec("0"), Ltv: dec("0.6"), LiquidationThreshold: dec("0.65"), LiquidationPenalty: dec("0.05"), LiquidationBonus: dec("0.05"),
			ReserveFactor: dec("0.2"), CAssetID: ca.Id, ModuleName: module, CPoolName: up + "-POOL", AssetData: data, MinUsdValueLeft: 100000, IsIsolated: false})
	case "liq-generic-params":
		app, err := strconv.ParseUint(rc.Args[0], 10, 64)
		if err != nil {
			panic(err)
		}
		return c.App.LiquidityKeeper.UpdateGenericParams(c.Ctx(), app, []string{rc.Args[1]}, []string{rc.Args[2]})
	}
	c.ApplyEnv(rc)
	return nil
}

// c16ReplayRec applies one tape record (the chain driver's ReplayRec plus the environment actions above).
func c16ReplayRec(c *sim.Chain, rc sim.TapeRec) (sim.TxResult, bool) {
	if rc.Kind == "env" {
		_ = c16ApplyEnv(c, rc)
		return sim.TxResult{}, false
	}
	return c.ReplayRec(rc)
}

// ---- rewards universes: gauges / farming / epochs / swap-fee gauges, and the external reward programmes ----

func c16RewardsEnv(t *testing.T, u c16Universe) *c19Env {
	nF := []int{3, 5, 8, 2}[u.Variant%4]
	priceReg := []int{0, 3, 4, 1}[(u.Variant/2)%4]
	// variant*3: the locker programme is part of every recorded scenario
	return c19NewEnv(t, ev.NewScratch(), rng("C16-rewards-setup", u.Variant), u.Variant*3, nF, priceReg)
}

// ---- oracle universe: the CDP universe on the real bandoracle -> market begin-block feed ----

func c16OracleUniverse(t *testing.T, u c16Universe) *cdpU {
	cu := newCDP(t, cdpOpts{variant: u.Variant})
	c := cu.c
	c.App.NewliqKeeper.SetParams(c.Ctx(), liqV2types.Params{LiquidationBatchSize: uint64([]int{200, 3}[u.Variant%2])})
	n := []int{2, 3, 2, 4}[u.Variant%4]
	gap := []int64{20, 41, 100, 60}[(u.Variant/2)%4]
	if err := c.App.BandoracleKeeper.AddFetchPriceRecords(c.Ctx(), bandtypes.MsgFetchPriceData{OracleScriptID: 112, SourceChannel: "channel-0", AskCount: 1, MinCount: 1, FeeLimit: sdk.NewCoins(), PrepareGas: 1, ExecuteGas: 1, TwaBatchSize: uint64(n), AcceptedHeightDiff: gap}); err != nil {
		t.Fatalf("harness set-up: %v", err)
	}
	return cu
}

var c16ExtraUniverses = map[string]int{"rewards": 0, "rewards-prog": 1, "oracle": 2}

type c16Divergence struct {
	At   int
	What string
}

// c16Replay replays the tape on a fresh instance and returns the first divergence from the recorded execution.
func c16Replay(t *testing.T, ct *c16Tape) *c16Divergence {
	c := c16Setup(t, ct.U)
	defer c.Close()
	keys := storeKeys(c)
	for i, rc := range ct.Tape.Recs {
		switch rc.Kind {
		case "tx":
			res := c.DeliverRaw(rc.Tx)
			if d := sim.ResultDigest(res); d != rc.Result {
				return &c16Divergence{i, fmt.Sprintf("transaction result differs at tape position %d (height %d): code %d", i, c.Header.Height, res.Code)}
			}
		case "block":
			c.NextBlock(time.Duration(rc.Dt))
			if h := fmt.Sprintf("%x", c.App.LastCommitID().Hash); h != rc.AppHash {
				what := fmt.Sprintf("app hash differs after committing height %d", c.Header.Height-1)
				if rc.Stores != nil {
					per, _ := inject.Dump(c.Ctx().MultiStore(), keys)
					what += fmt.Sprintf("; stores differing: %v", inject.DiffStores(rc.Stores, per))
				}
				return &c16Divergence{i, what}
			}
			if rc.Stores != nil {
				per, _ := inject.Dump(c.Ctx().MultiStore(), keys)
				if d := inject.DiffStores(rc.Stores, per); len(d) > 0 {
					return &c16Divergence{i, fmt.Sprintf("store dump differs after beginning height %d: %v", c.Header.Height, d)}
				}
			}
		case "env":
			_ = c16ApplyEnv(c, rc)
		}
	}
	return nil
}

// c16AddDumps re-executes the tape once and attaches per-store dump hashes to every block record
// (so that a later divergence can name the module store).
func c16AddDumps(t *testing.T, ct *c16Tape) *c16Divergence {
	c := c16Setup(t, ct.U)
	defer c.Close()
	keys := storeKeys(c)
	for i := range ct.Tape.Recs {
		rc := &ct.Tape.Recs[i]
		switch rc.Kind {
		case "tx":
			res := c.DeliverRaw(rc.Tx)
			if d := sim.ResultDigest(res); d != rc.Result {
				return &c16Divergence{i, fmt.Sprintf("transaction result differs at tape position %d (height %d)", i, c.Header.Height)}
			}
		case "block":
			c.NextBlock(time.Duration(rc.Dt))
			if h := fmt.Sprintf("%x", c.App.LastCommitID().Hash); h != rc.AppHash {
				return &c16Divergence{i, fmt.Sprintf("app hash differs after committing height %d", c.Header.Height-1)}
			}
			rc.Stores, _ = inject.Dump(c.Ctx().MultiStore(), keys)
		case "env":
			_ = c16ApplyEnv(c, *rc)
		}
	}
	return nil
}

func TestC16(t *testing.T) {
	if p := os.Getenv("VERIF_C16_TAPE"); p != "" {
		// child process mode: replay the given tape and report through the exit status
		bz, err := os.ReadFile(p)
		must(t, err)
		var ct c16Tape
		must(t, json.Unmarshal(bz, &ct))
		if d := c16Replay(t, &ct); d != nil {
			fmt.Printf("C16-CHILD-DIVERGENCE %s\n", d.What)
			os.Exit(3)
		}
		fmt.Println("C16-CHILD-OK")
		return
	}
	rec := ev.New("C16", "exploration", "a seeded mixed workload is executed once while its transaction bytes, block boundaries and environment actions are recorded with tx result digests, app hashes and per-store dump hashes; the tape is replayed on R fresh in-process instances sequentially, on R instances concurrently (race-detector build), and in a fresh child process with GOMAXPROCS=1; any difference in a tx result digest, app hash or store dump is a violation. distinct = (universe, variant, replay mode, tape length bucket)")
	defer finish(t, rec)
	// thorough sizes are bounded by the race detector's cost: a shard replays every tape on R instances three ways
	// (measured: the quick sizes take about 2.5 minutes per shard; these take about 40)
	workloads := ev.Pick(1, 2)
	R := ev.Pick(2, 4)
	steps := ev.Pick(300, 800)
	var names []string
	for n := range c16Recorders {
		names = append(names, n)
	}
	sortStrings(names)
	for w := 0; w < workloads; w++ {
		for _, name := range names {
			// quick tier: every shard records the four original universes and ONE of the three added later
			// (rewards, rewards-prog, oracle), rotating over the shards; the thorough tier records all in every shard
			if k, extra := c16ExtraUniverses[name]; extra && ev.Tier() == "quick" && ev.NShards() >= 3 && k != ev.ShardNo()%3 {
				continue
			}
			u := c16Universe{Name: name, Variant: ev.ShardNo()*workloads + w}
			if name == "rewards-prog" {
				u.Variant *= 2 // even programme scenarios contain lend programmes
			}
			tape := c16Recorders[name](t, rec, u, steps)
			ct := &c16Tape{U: u, Tape: *tape}
			ntx, nblk := 0, 0
			for _, r := range ct.Tape.Recs {
				if r.Kind == "tx" {
					ntx++
				} else if r.Kind == "block" {
					nblk++
				}
			}
			rec.Count("recorded_txs", int64(ntx))
			rec.Count("recorded_blocks", int64(nblk))
			report := func(mode string, d *c16Divergence) {
				rec.Eval(1)
				rec.Count("replays_"+mode, 1)
				rec.Distinct("C16", name, u.Variant, mode, len(ct.Tape.Recs)/100)
				if d != nil {
					rec.Violate("C16/"+name+"/divergence/"+mode, d.What, map[string]interface{}{"universe": u, "tape_position": d.At, "tape_length": len(ct.Tape.Recs)})
				}
			}
			// first replay also attaches store dumps
			report("sequential", c16AddDumps(t, ct))
			for i := 1; i < R; i++ {
				report("sequential", c16Replay(t, ct))
			}
			// concurrent replicas (the check runs this test from the race-detector build)
			var wg sync.WaitGroup
			res := make([]*c16Divergence, R)
			for i := 0; i < R; i++ {
				wg.Add(1)
				go func(i int) {
					defer wg.Done()
					res[i] = c16Replay(t, ct)
				}(i)
			}
			wg.Wait()
			for _, d := range res {
				report("concurrent", d)
			}
			// fresh process, different scheduler configuration
			dir := ev.Env("VERIF_EVIDENCE_DIR", "/verif/evidence")
			path := filepath.Join(dir, "replay", fmt.Sprintf("C16-tape-seed%d-shard%d-%s-%d.json", ev.Seed(), ev.ShardNo(), name, w))
			bz, _ := json.Marshal(ct)
			must(t, os.WriteFile(path, bz, 0o644))
			cmd := exec.Command(os.Args[0], "-test.run", "^TestC16$", "-test.count", "1", "-test.timeout", "0")
			cmd.Env = append(os.Environ(), "VERIF_C16_TAPE="+path, "GOMAXPROCS=1")
			out, err := cmd.CombinedOutput()
			var d *c16Divergence
			if err != nil {
				d = &c16Divergence{-1, "fresh-process replay: " + lastLines(string(out), 3)}
			}
			report("fresh-process", d)
			if d == nil {
				_ = os.Remove(path)
			}
			if w == 0 {
				rec.Sample(map[string]interface{}{"universe": u, "tape_records": len(ct.Tape.Recs), "txs": ntx, "blocks": nblk, "replicas": R})
			}
		}
	}
	rec.Floor("recorded_txs", 200)
	rec.Floor("recorded_blocks", 30)
	rec.Floor("replays_concurrent", 2)
	rec.Floor("replays_fresh-process", 1)
	// the rewards / oracle tapes really contain what they are for
	rec.Floor("rewards_tape_gauges", 4)
	rec.Floor("rewards_tape_epochs_ticked", 10)
	for _, k := range []string{"locker", "vault", "lend", "stable"} {
		rec.Floor("rewards_tape_programmes_paid_"+k, 1)
	}
	rec.Floor("oracle_tape_results_fed", 3)
	rec.Floor("oracle_tape_prices_published_by_pipeline", 8)
}

func lastLines(s string, n int) string {
	lines := splitLines(s)
	for len(lines) > 0 && lines[len(lines)-1] == "" {
		lines = lines[:len(lines)-1]
	}
	if len(lines) > n {
		lines = lines[len(lines)-n:]
	}
	out := ""
	for _, l := range lines {
		out += l + " / "
	}
	return out
}

func sortStrings(s []string) {
	for i := range s {
		for j := i + 1; j < len(s); j++ {
			if s[j] < s[i] {
				s[i], s[j] = s[j], s[i]
			}
		}
	}
}
