package props

// C19, part 3: the external reward programmes (locker, vault, lend, stable-mint) next to gauges.
//
// The statement's last sentence: "The rewards custody account always holds at least the
// undistributed remainder of all active gauges and external reward programs."  Only the
// custody clause is stated for programmes, so that is the only law judged here (c19Custody,
// after every transaction and after every begin block).  Everything else is observation
// (counters that show that each kind of programme really paid out).
//
// The fixture is the smallest one in which every programme pays: the lend universe (app
// "commodo", two pools), a swap app with one pool whose farmers are also borrowers (lend
// programme: min(farmed value, borrow value)), a CDP app with exactly ONE extended pair
// (the vault programme can only be activated for such an app) and a second CDP app with a
// stable-mint pair (stable-mint programme) and a locker asset (locker programme).  Gauges
// and programmes deliberately share reward denominations, so that one claimant paying more
// than it records shows up as another claimant's remainder not being covered.

import (
	"fmt"
	"math/big"
	"math/rand"
	"sort"
	"strings"
	"testing"
	"time"

	sdkmath "cosmossdk.io/math"
	sdk "github.com/cosmos/cosmos-sdk/types"
	banktypes "github.com/cosmos/cosmos-sdk/x/bank/types"

	"github.com/comdex-official/comdex/app/wasm/bindings"
	assettypes "github.com/comdex-official/comdex/x/asset/types"
	lendtypes "github.com/comdex-official/comdex/x/lend/types"
	liquiditytypes "github.com/comdex-official/comdex/x/liquidity/types"
	lockertypes "github.com/comdex-official/comdex/x/locker/types"
	rewardstypes "github.com/comdex-official/comdex/x/rewards/types"
	vaulttypes "github.com/comdex-official/comdex/x/vault/types"

	"verif/ev"
	"verif/sim"
)

const (
	c19pAdmin  = 0
	c19pFunder = 7 // funds lend pools, deposits liquidity
	c19pDonor  = 8 // pays for gauges and programmes
	c19pUsers  = 6 // accounts 1..6
)

type c19Prog struct {
	kind   string // locker | vault | lend | stable
	id     uint64
	epoch  uint64
	active bool
	avail  sdk.Coin
	total  sdk.Coin
	days   int64
	count  uint64
}

type c19ProgEnv struct {
	t        *testing.T
	c        *sim.Chain
	rec      *ev.Rec
	rnd      *rand.Rand
	cfg      string
	u        *lendU
	ops      []string
	panicked bool

	swapApp, cdpApp, psmApp uint64
	poolID                  uint64
	poolCoin                string
	pairVault               uint64 // extended pair of cdpApp
	pairStable              uint64 // stable-mint extended pair of psmApp
	lockerAsset             uint64
	rewardDenoms            []string
	nProg                   map[string]int
	nGauges                 int
	lastTag                 string
	debt                    *lendAsset
	short                   map[string]*big.Int // denom -> shortfall already reported
	noLend                  bool
}

func (e *c19ProgEnv) logf(format string, a ...interface{}) {
	e.ops = append(e.ops, fmt.Sprintf("h%d ", e.c.Header.Height)+fmt.Sprintf(format, a...))
}

func (e *c19ProgEnv) witness(extra map[string]interface{}) map[string]interface{} {
	ops := e.ops
	if len(ops) > 300 {
		ops = append([]string{fmt.Sprintf("... %d earlier ops omitted ...", len(ops)-300)}, ops[len(ops)-300:]...)
	}
	w := map[string]interface{}{"scenario": e.cfg, "ops": ops, "height": e.c.Header.Height, "time": e.c.Header.Time.UTC().Format(time.RFC3339)}
	for k, v := range extra {
		w[k] = v
	}
	return w
}

func (e *c19ProgEnv) tx(who int, msg sdk.Msg, tag string) bool {
	e.rec.Count("prog_tx_"+tag+"_attempted", 1)
	var res sim.TxResult
	var pan interface{}
	func() {
		defer func() { pan = recover() }()
		res = e.c.Deliver(e.c.Accts[who], msg)
	}()
	e.lastTag = tag
	if pan != nil {
		e.rec.Count("prog_tx_"+tag+"_panicked", 1)
		e.logf("%s by u%d PANIC %v", tag, who, pan)
		return false
	}
	if res.OK() {
		e.rec.Count("prog_tx_"+tag+"_ok", 1)
		e.checkCustody(e.c.Ctx(), "after-tx", tag)
		return true
	}
	e.rec.Count("prog_tx_"+tag+"_rejected", 1)
	e.logf("%s by u%d rejected: %s", tag, who, liqShort(res.Log))
	return false
}

func (e *c19ProgEnv) mustTx(who int, msg sdk.Msg, tag string) {
	if !e.tx(who, msg, tag) {
		e.t.Fatalf("harness set-up failed: %s (%s)", tag, e.ops[len(e.ops)-1])
	}
}

// programmes reads every programme record of the four kinds.
func c19Programmes(c *sim.Chain, ctx sdk.Context) []c19Prog {
	k := c.App.Rewardskeeper
	var out []c19Prog
	cnt := func(id uint64) uint64 {
		ep, _ := k.GetEpochTime(ctx, id)
		return ep.Count
	}
	for _, p := range k.GetExternalRewardsLockers(ctx) {
		out = append(out, c19Prog{"locker", p.Id, p.EpochId, p.IsActive, p.AvailableRewards, p.TotalRewards, p.DurationDays, cnt(p.EpochId)})
	}
	for _, p := range k.GetExternalRewardVaults(ctx) {
		out = append(out, c19Prog{"vault", p.Id, p.EpochId, p.IsActive, p.AvailableRewards, p.TotalRewards, p.DurationDays, cnt(p.EpochId)})
	}
	for _, p := range k.GetExternalRewardLends(ctx) {
		out = append(out, c19Prog{"lend", p.Id, p.EpochId, p.IsActive, p.AvailableRewards, p.TotalRewards, p.DurationDays, cnt(p.EpochId)})
	}
	for _, p := range k.GetAllExternalRewardStableVault(ctx) {
		out = append(out, c19Prog{"stable", p.Id, p.EpochId, p.IsActive, p.AvailableRewards, p.TotalRewards, p.DurationDays, cnt(p.EpochId)})
	}
	return out
}

// checkCustody: the statement's custody clause on the given state.
//
// lendOver (begin blocks only): per denomination, by how much lend programmes drew their recorded AvailableRewards
// below zero in this block.  A shortfall that appears in such a block and is no larger than that overdraft carries
// the label of that defect (known_findings.json); anything beyond it keeps the generic label.
func (e *c19ProgEnv) checkCustody(ctx sdk.Context, when, site string, lendOver ...map[string]*big.Int) {
	e.rec.Eval(1)
	need, parts := c19Custody(e.c, ctx)
	mod := e.c.App.BankKeeper.GetAllBalances(ctx, e.c.ModAddr(rewardstypes.ModuleName))
	for _, denom := range c19SortedDenoms(need) {
		n := need[denom]
		have := c19CoinsGet(mod, denom)
		e.rec.Count("prog_custody_denom_checks", 1)
		for _, kind := range []string{"locker", "vault", "lend", "stable"} {
			if strings.Contains(parts[denom], kind+"-program") {
				e.rec.Count("prog_custody_denom_checks_with_"+kind+"_claim", 1)
			}
		}
		if strings.Contains(parts[denom], "program") && strings.Contains(parts[denom], "gauge#") {
			e.rec.Count("prog_custody_denom_checks_shared_with_gauge", 1)
		}
		if have.Cmp(n) >= 0 {
			delete(e.short, denom)
			continue
		}
		// a shortfall is reported when it appears and when it grows, not at every later observation point
		sf := new(big.Int).Sub(n, have)
		old := e.short[denom]
		if old == nil {
			old = new(big.Int)
		}
		if old.Sign() > 0 && old.Cmp(sf) >= 0 {
			e.rec.Count("prog_custody_shortfall_persisting", 1)
			e.short[denom] = sf
			continue
		}
		e.short[denom] = sf
		if len(lendOver) > 0 && lendOver[0][denom] != nil && new(big.Int).Sub(sf, old).Cmp(lendOver[0][denom]) <= 0 {
			site = "lend-programme-overdrew-available"
		}
		{
			e.rec.Violate("C19/custody/"+when+"/"+site, fmt.Sprintf("rewards account holds %s%s but owes %s (%s)", have, denom, n, strings.TrimSpace(parts[denom])),
				e.witness(map[string]interface{}{"denom": denom, "held": have.String(), "owed": n.String(), "claims": parts[denom]}))
		}
	}
}

func c19SortedDenoms(m map[string]*big.Int) []string {
	var out []string
	for d := range m {
		out = append(out, d)
	}
	sort.Strings(out)
	return out
}

func (e *c19ProgEnv) setup(sc int) {
	c, r, t := e.c, e.rnd, e.t
	e.u = lendUniverse(t, c, sc%3)
	ctx := c.Ctx()
	ak := c.App.AssetKeeper
	for _, nm := range [][2]string{{"cswap", "cswap"}, {"harbor", "hbr"}, {"psm", "psm"}} {
		must(t, ak.AddAppRecords(ctx, assettypes.AppData{Name: nm[0], ShortName: nm[1], MinGovDeposit: sdkmath.ZeroInt(), GovTimeInSeconds: 0, GenesisToken: []assettypes.MintGenesisToken{}}))
	}
	apps, _ := ak.GetApps(ctx)
	for _, a := range apps {
		switch a.Name {
		case "cswap":
			e.swapApp = a.Id
		case "harbor":
			e.cdpApp = a.Id
		case "psm":
			e.psmApp = a.Id
		}
	}
	// the debt asset of both CDP apps: a mintable stable coin of its own (the lend universe's CMST is not mintable)
	must(t, ak.AddAssetRecords(ctx, assettypes.Asset{Name: "CMSX", Denom: "ucmsx", Decimals: sdkmath.NewInt(1_000_000), IsOnChain: true, IsOraclePriceRequired: true, IsCdpMintable: true}))
	cmsxAsset, _ := ak.GetAssetForDenom(ctx, "ucmsx")
	cmst := &lendAsset{ID: cmsxAsset.Id, Denom: "ucmsx", Decimals: big.NewInt(1_000_000)}
	e.debt = cmst
	e.u.SetPrice(cmst.ID, 1_000_000, true)
	atom, usdc := e.u.ByDenom["uatom"], e.u.ByDenom["uusdc"]
	// CDP products: one ordinary pair in "harbor" (and nothing else there), one stable-mint pair in "psm"
	must(t, ak.AddPairsRecords(ctx, assettypes.Pair{AssetIn: atom.ID, AssetOut: cmst.ID}))
	p1 := ak.GetPairID(ctx)
	must(t, ak.AddPairsRecords(ctx, assettypes.Pair{AssetIn: usdc.ID, AssetOut: cmst.ID}))
	p2 := ak.GetPairID(ctx)
	big := sdkmath.NewInt(1_000_000_000_000_000)
	must(t, c.Gov(bindings.ComdexMessages{MsgAddExtendedPairsVault: &bindings.MsgAddExtendedPairsVault{AppID: e.cdpApp, PairID: p1, StabilityFee: dec("0"), ClosingFee: dec("0"), LiquidationPenalty: dec("0.12"),
		DrawDownFee: dec("0"), IsVaultActive: true, DebtCeiling: big, DebtFloor: sdkmath.NewInt(1_000_000), IsStableMintVault: false, MinCr: dec("1.5"), PairName: "ATOM-A", AssetOutOraclePrice: true, AssetOutPrice: 1_000_000, MinUsdValueLeft: 100_000}}))
	e.pairVault = ak.GetPairsVaultID(ctx)
	must(t, c.Gov(bindings.ComdexMessages{MsgAddExtendedPairsVault: &bindings.MsgAddExtendedPairsVault{AppID: e.psmApp, PairID: p2, StabilityFee: dec("0"), ClosingFee: dec("0"), LiquidationPenalty: dec("0.12"),
		DrawDownFee: dec([]string{"0.01", "0.001"}[sc%2]), IsVaultActive: true, DebtCeiling: big, DebtFloor: sdkmath.NewInt(1000), IsStableMintVault: true, MinCr: dec("1"), PairName: "USDC-PSM", AssetOutOraclePrice: true, AssetOutPrice: 1_000_000, MinUsdValueLeft: 100_000}}))
	e.pairStable = ak.GetPairsVaultID(ctx)
	// lockers of the stable coin in the "psm" app (locker programme; the stable-mint programme counts them as holdings)
	e.lockerAsset = cmst.ID
	must(t, c.App.CollectorKeeper.WasmSetCollectorLookupTable(ctx, &bindings.MsgSetCollectorLookupTable{AppID: e.psmApp, CollectorAssetID: cmst.ID, SecondaryAssetID: atom.ID,
		SurplusThreshold: sdkmath.NewInt(10000000), DebtThreshold: sdkmath.NewInt(5000000), LockerSavingRate: sdkmath.LegacyZeroDec(), LotSize: sdkmath.NewInt(2000000),
		BidFactor: sdkmath.LegacyMustNewDecFromStr("0.01"), DebtLotSize: sdkmath.NewInt(2000000)}))
	if _, err := c.App.LockerKeeper.AddWhiteListedAsset(ctx, &lockertypes.MsgAddWhiteListedAssetRequest{From: c.Accts[c19pAdmin].Addr.String(), AppId: e.psmApp, AssetId: cmst.ID}); err != nil {
		t.Fatalf("harness set-up: locker whitelist: %v", err)
	}
	c.NextBlock(6 * time.Second)

	// lend pools get liquidity
	for _, pid := range c08SortedPools(e.u) {
		for _, aid := range e.u.Pools[pid].Assets {
			e.mustTx(c19pFunder, lendtypes.NewMsgFundModuleAccounts(pid, aid, c.Accts[c19pFunder].Addr.String(), sdk.NewCoin(e.u.Assets[aid].Denom, sdkmath.NewInt(50_000_000_000))), "fund_lend_pool")
		}
	}
	// the swap pool ATOM/CMST whose farmers the lend programme looks at
	e.mustTx(c19pAdmin, liquiditytypes.NewMsgCreatePair(e.swapApp, c.Accts[c19pAdmin].Addr, "uatom", "ucmst"), "create_pair")
	pairs := c.App.LiquidityKeeper.GetAllPairs(c.Ctx(), e.swapApp)
	y := sdkmath.NewInt(1_000_000_000 + r.Int63n(9_000_000_000))
	pa, _ := e.u.Price(atom.ID)
	x := y.MulRaw(int64(pa)).QuoRaw(1_000_000)
	e.mustTx(c19pAdmin, liquiditytypes.NewMsgCreatePool(e.swapApp, c.Accts[c19pAdmin].Addr, pairs[0].Id, sdk.NewCoins(sdk.NewCoin("ucmst", x), sdk.NewCoin("uatom", y))), "create_pool")
	pools := c.App.LiquidityKeeper.GetAllPools(c.Ctx(), e.swapApp)
	e.poolID, e.poolCoin = pools[0].Id, pools[0].PoolCoinDenom
	ps := c.Bal(c.Accts[c19pAdmin].Addr, e.poolCoin)
	for f := 1; f <= c19pUsers; f++ {
		amt := ps.QuoRaw(int64(20 + r.Intn(60)))
		e.mustTx(c19pAdmin, bankSend(c.Accts[c19pAdmin].Addr, c.Accts[f].Addr, sdk.NewCoin(e.poolCoin, amt)), "send_poolcoin")
	}
	e.rewardDenoms = []string{"ucmst", "uatom", "uosmo", "uusdc", "rwx", "rwy"}
	e.logf("set-up: swapApp=%d pool=%d cdpApp=%d extPair=%d psmApp=%d stablePair=%d lendApp=%d", e.swapApp, e.poolID, e.cdpApp, e.pairVault, e.psmApp, e.pairStable, e.u.App)
}

func bankSend(from, to sdk.AccAddress, coin sdk.Coin) sdk.Msg {
	return banktypes.NewMsgSend(from, to, sdk.NewCoins(coin))
}

// pickReward: a denomination and an amount for a gauge / programme.  Half of the time a denomination
// that already backs another claim is chosen.
func (e *c19ProgEnv) pickReward(priced bool) sdk.Coin {
	r := e.rnd
	ds := e.rewardDenoms
	if priced {
		ds = ds[:4]
	}
	d := ds[r.Intn(len(ds))]
	if need, _ := c19Custody(e.c, e.c.Ctx()); len(need) > 0 && r.Intn(2) == 0 {
		var cand []string
		for _, x := range c19SortedDenoms(need) {
			for _, y := range ds {
				if x == y {
					cand = append(cand, x)
				}
			}
		}
		if len(cand) > 0 {
			d = cand[r.Intn(len(cand))]
		}
	}
	var amt int64
	switch r.Intn(4) {
	case 0:
		amt = r.Int63n(1000) + 1
	case 1:
		amt = r.Int63n(1_000_000) + 1000
	default:
		amt = r.Int63n(5_000_000_000) + 1_000_000
	}
	return sdk.NewCoin(d, sdkmath.NewInt(amt))
}

func (e *c19ProgEnv) activate(kind string) {
	c, r := e.c, e.rnd
	donor := c.Accts[c19pDonor].Addr
	days := int64(r.Intn(6) + 1)
	lock := int64(r.Intn(100000) + 1)
	var msg sdk.Msg
	var coin sdk.Coin
	switch kind {
	case "locker":
		coin = e.pickReward(false)
		msg = &rewardstypes.ActivateExternalRewardsLockers{AppMappingId: e.psmApp, AssetId: e.lockerAsset, TotalRewards: coin, DurationDays: days, Depositor: donor.String(), MinLockupTimeSeconds: lock}
	case "vault":
		coin = e.pickReward(false)
		msg = &rewardstypes.ActivateExternalRewardsVault{AppMappingId: e.cdpApp, ExtendedPairId: e.pairVault, TotalRewards: coin, DurationDays: days, Depositor: donor.String(), MinLockupTimeSeconds: lock}
	case "lend":
		coin = e.pickReward(true)
		// borrowed asset: the main asset of pool 1 (ATOM) or its first transit asset
		p := e.u.Pools[1]
		asset := []uint64{p.Main, p.T1}[r.Intn(2)]
		msg = &rewardstypes.ActivateExternalRewardsLend{AppMappingId: e.u.App, CPoolId: 1, AssetId: []uint64{asset}, CSwapAppId: e.swapApp, CSwapMinLockAmount: 1, TotalRewards: coin,
			MasterPoolId: int64(e.poolID), DurationDays: days, MinLockupTimeSeconds: lock, Depositor: donor.String()}
	case "stable":
		coin = e.pickReward(false)
		// this programme's clock advances with every block (see DistributeExtRewardStableVault): give it many "days"
		days = int64(20 + r.Intn(200))
		msg = &rewardstypes.ActivateExternalRewardsStableMint{AppId: e.psmApp, CswapAppId: e.swapApp, CommodoAppId: e.u.App, TotalRewards: coin, DurationDays: days, AcceptedBlockHeight: int64(1 + r.Intn(3)), Depositor: donor.String()}
	}
	ok := e.tx(c19pDonor, msg, "activate_"+kind)
	e.logf("activate %s programme total=%s days=%d lockup=%ds ok=%v", kind, coin, days, lock, ok)
	if ok {
		e.nProg[kind]++
		e.rec.Count("prog_activated_"+kind, 1)
	}
}

func (e *c19ProgEnv) createGauge() {
	c, r := e.c, e.rnd
	coin := e.pickReward(false)
	n := uint64(r.Intn(6) + 1)
	if coin.Amount.LT(sdkmath.NewIntFromUint64(n)) {
		n = 1
	}
	dur := []time.Duration{12 * time.Hour, 24 * time.Hour, 24 * time.Hour, 36 * time.Hour}[r.Intn(4)]
	msg := rewardstypes.NewMsgCreateGauge(e.swapApp, c.Accts[c19pDonor].Addr, c.Header.Time, rewardstypes.LiquidityGaugeTypeID, dur, coin, n)
	msg.Kind = &rewardstypes.MsgCreateGauge_LiquidityMetaData{LiquidityMetaData: &rewardstypes.LiquidtyGaugeMetaData{PoolId: e.poolID}}
	ok := e.tx(c19pDonor, msg, "create_gauge")
	e.logf("create_gauge deposit=%s triggers=%d dur=%s ok=%v", coin, n, dur, ok)
	if ok {
		e.nGauges++
	}
}

func (e *c19ProgEnv) action() {
	c, r := e.c, e.rnd
	f := 1 + r.Intn(c19pUsers)
	addr := c.Accts[f].Addr
	atom, cmst := e.u.ByDenom["uatom"], e.debt
	switch x := r.Intn(100); {
	case x < 12: // farm
		bal := c.Bal(addr, e.poolCoin)
		if !bal.IsPositive() {
			return
		}
		amt := c19RandInt(r, bal).AddRaw(1)
		if amt.GT(bal) {
			amt = bal
		}
		ok := e.tx(f, liquiditytypes.NewMsgFarm(e.swapApp, e.poolID, addr, sdk.NewCoin(e.poolCoin, amt)), "farm")
		e.logf("farm u%d %s ok=%v", f, amt, ok)
	case x < 16: // unfarm a part
		af, found := c.App.LiquidityKeeper.GetActiveFarmer(c.Ctx(), e.swapApp, e.poolID, addr)
		if !found || !af.FarmedPoolCoin.Amount.IsPositive() {
			return
		}
		amt := c19RandInt(r, af.FarmedPoolCoin.Amount).AddRaw(1)
		ok := e.tx(f, liquiditytypes.NewMsgUnfarm(e.swapApp, e.poolID, addr, sdk.NewCoin(e.poolCoin, amt)), "unfarm")
		e.logf("unfarm u%d %s ok=%v", f, amt, ok)
	case x < 28: // vault in the one-product CDP app
		if v, found := c.App.VaultKeeper.GetUserAppExtendedPairMappingData(c.Ctx(), addr.String(), e.cdpApp, e.pairVault); found {
			vault, _ := c.App.VaultKeeper.GetVault(c.Ctx(), v.VaultId)
			switch r.Intn(4) {
			case 0:
				amt := sdkmath.NewInt(r.Int63n(2_000_000) + 1)
				ok := e.tx(f, &vaulttypes.MsgDrawRequest{From: addr.String(), AppId: e.cdpApp, ExtendedPairVaultId: e.pairVault, UserVaultId: v.VaultId, Amount: amt}, "vault_draw")
				e.logf("vault_draw u%d %s ok=%v", f, amt, ok)
			case 1:
				amt := c19RandInt(r, vault.AmountOut.QuoRaw(2)).AddRaw(1)
				ok := e.tx(f, &vaulttypes.MsgRepayRequest{From: addr.String(), AppId: e.cdpApp, ExtendedPairVaultId: e.pairVault, UserVaultId: v.VaultId, Amount: amt}, "vault_repay")
				e.logf("vault_repay u%d %s ok=%v", f, amt, ok)
			case 2:
				if r.Intn(3) == 0 {
					ok := e.tx(f, &vaulttypes.MsgCloseRequest{From: addr.String(), AppId: e.cdpApp, ExtendedPairVaultId: e.pairVault, UserVaultId: v.VaultId}, "vault_close")
					e.logf("vault_close u%d ok=%v", f, ok)
				}
			}
			return
		}
		debt := sdkmath.NewInt(1_000_000 + r.Int63n(500_000_000))
		pa, _ := e.u.Price(atom.ID)
		pc := uint64(1_000_000)
		if tw, ok := c.App.MarketKeeper.GetTwa(c.Ctx(), cmst.ID); ok {
			pc = tw.Twa
		}
		in := debt.MulRaw(int64(pc)).MulRaw(int64(16 + r.Intn(30))).QuoRaw(10).QuoRaw(int64(pa)).AddRaw(1)
		ok := e.tx(f, &vaulttypes.MsgCreateRequest{From: addr.String(), AppId: e.cdpApp, ExtendedPairVaultId: e.pairVault, AmountIn: in, AmountOut: debt}, "vault_create")
		e.logf("vault_create u%d in=%s out=%s ok=%v", f, in, debt, ok)
	case x < 40: // stable mint
		amt := sdkmath.NewInt(10_000 + r.Int63n(800_000_000))
		var sid uint64
		for _, sv := range c.App.VaultKeeper.GetStableMintVaults(c.Ctx()) {
			if sv.AppId == e.psmApp && sv.ExtendedPairVaultID == e.pairStable {
				sid = sv.Id
			}
		}
		switch {
		case sid == 0:
			ok := e.tx(f, &vaulttypes.MsgCreateStableMintRequest{From: addr.String(), AppId: e.psmApp, ExtendedPairVaultId: e.pairStable, Amount: amt}, "stable_create")
			e.logf("stable_create u%d %s ok=%v", f, amt, ok)
		case r.Intn(4) == 0:
			w := c19RandInt(r, sdkmath.MinInt(c.Bal(addr, "ucmsx"), sdkmath.NewInt(200_000_000))).AddRaw(1)
			ok := e.tx(f, &vaulttypes.MsgWithdrawStableMintRequest{From: addr.String(), AppId: e.psmApp, ExtendedPairVaultId: e.pairStable, Amount: w, StableVaultId: sid}, "stable_withdraw")
			e.logf("stable_withdraw u%d %s ok=%v", f, w, ok)
		default:
			ok := e.tx(f, &vaulttypes.MsgDepositStableMintRequest{From: addr.String(), AppId: e.psmApp, ExtendedPairVaultId: e.pairStable, Amount: amt, StableVaultId: sid}, "stable_deposit")
			e.logf("stable_deposit u%d %s ok=%v", f, amt, ok)
		}
	case x < 48: // locker of the stable coin
		if lk, found := c.App.LockerKeeper.GetUserLockerAssetMapping(c.Ctx(), addr.String(), e.psmApp, e.lockerAsset); found {
			amt := sdkmath.NewInt(r.Int63n(5_000_000) + 1)
			ok := e.tx(f, &lockertypes.MsgDepositAssetRequest{Depositor: addr.String(), LockerId: lk.LockerId, Amount: amt, AssetId: e.lockerAsset, AppId: e.psmApp}, "locker_deposit")
			e.logf("locker_deposit u%d %s ok=%v", f, amt, ok)
			return
		}
		bal := c.Bal(addr, e.debt.Denom)
		if !bal.IsPositive() {
			return
		}
		amt := c19RandInt(r, bal).AddRaw(1)
		ok := e.tx(f, lockertypes.NewMsgCreateLockerRequest(addr.String(), amt, e.lockerAsset, e.psmApp), "locker_create")
		e.logf("locker_create u%d %s ok=%v", f, amt, ok)
	case x < 62: // lend, then borrow the programme's assets from pool 1
		p := e.u.Pools[1]
		var mine *lendtypes.LendAsset
		for _, l := range c.App.LendKeeper.GetAllLend(c.Ctx()) {
			if l.Owner == addr.String() && l.PoolID == 1 {
				l := l
				mine = &l
			}
		}
		if mine == nil {
			aid := []uint64{p.T1, p.T2, p.Main}[r.Intn(3)]
			a := e.u.Assets[aid]
			amt := sdkmath.NewInt(50_000_000 + r.Int63n(2_000_000_000))
			ok := e.tx(f, lendtypes.NewMsgLend(addr.String(), aid, sdk.NewCoin(a.Denom, amt), 1, e.u.App), "lend")
			e.logf("lend u%d %s%s ok=%v", f, amt, a.Denom, ok)
			return
		}
		// a pair of pool 1 whose collateral is the lent asset
		var cands []lendtypes.Extended_Pair
		for _, pr := range e.u.Pairs {
			if pr.AssetIn == mine.AssetID && !pr.IsInterPool && pr.AssetOutPoolID == 1 && (pr.AssetOut == p.Main || pr.AssetOut == p.T1) {
				cands = append(cands, pr)
			}
		}
		if len(cands) == 0 {
			return
		}
		pr := cands[r.Intn(len(cands))]
		coll := e.u.Assets[mine.AssetID]
		out := e.u.Assets[pr.AssetOut]
		in := mine.AvailableToBorrow.QuoRaw(int64(2 + r.Intn(4)))
		if !in.IsPositive() {
			return
		}
		// a loan worth 10..40% of the collateral
		val := e.u.Value(coll.ID, in.BigInt())
		po, _ := e.u.Price(out.ID)
		loan := new(big.Rat).Mul(val, big.NewRat(int64(10+r.Intn(30)), 100))
		loan.Mul(loan, new(big.Rat).SetFrac(out.Decimals, new(big.Int).SetUint64(po)))
		amt := sdkmath.NewIntFromBigInt(new(big.Int).Quo(loan.Num(), loan.Denom()))
		if !amt.IsPositive() {
			return
		}
		ok := e.tx(f, lendtypes.NewMsgBorrow(addr.String(), mine.ID, pr.Id, false, sdk.NewCoin(coll.CDenom, in), sdk.NewCoin(out.Denom, amt)), "borrow")
		e.logf("borrow u%d lend=%d pair=%d in=%s out=%s%s ok=%v", f, mine.ID, pr.Id, in, amt, out.Denom, ok)
	case x < 70: // an oracle price moves (reward denominations and the borrowed assets are priced assets)
		ids := e.u.Order
		id := ids[r.Intn(len(ids))]
		old, _ := e.u.Price(id)
		nw := old * uint64(60+r.Intn(90)) / 100
		if nw == 0 {
			nw = 1
		}
		if nw > 50_000_000 {
			nw = 10_000_000
		}
		e.u.SetPrice(id, nw, true)
		e.logf("price asset%d %d -> %d", id, old, nw)
	case x < 82:
		kinds := []string{"locker", "vault", "lend", "stable"}
		k := kinds[r.Intn(len(kinds))]
		if e.nProg[k] < 3 && !(k == "lend" && e.noLend) {
			e.activate(k)
		}
	default:
		if e.nGauges < 5 {
			e.createGauge()
		}
	}
}

type c19ProgSnap struct {
	progs map[string]c19Prog
	mod   sdk.Coins
	users []sdk.Coins
}

func (e *c19ProgEnv) snap(ctx sdk.Context) c19ProgSnap {
	s := c19ProgSnap{progs: map[string]c19Prog{}}
	for _, p := range c19Programmes(e.c, ctx) {
		s.progs[fmt.Sprintf("%s#%d", p.kind, p.id)] = p
	}
	s.mod = e.c.App.BankKeeper.GetAllBalances(ctx, e.c.ModAddr(rewardstypes.ModuleName))
	for _, a := range e.c.Accts {
		s.users = append(s.users, e.c.App.BankKeeper.GetAllBalances(ctx, a.Addr))
	}
	return s
}

func (e *c19ProgEnv) step(dt time.Duration) {
	c := e.c
	c.EndAndCommit()
	if e.panicked {
		return
	}
	S := c.App.BaseApp.NewContext(true, c.Header)
	pre := e.snap(S)
	c.Header.Time = c.Header.Time.Add(dt)
	e.logf("--- block %d at +%s", c.Header.Height, dt)
	c.Begin()
	if e.panicked {
		return
	}
	post := e.snap(c.Ctx())
	e.rec.Count("prog_blocks_observed", 1)
	// observation: which programmes ran an epoch and what they recorded as paid
	var ran []string
	recorded := map[string]*big.Int{}
	lendOver := map[string]*big.Int{}
	for _, key := range c19SortedProgKeys(pre.progs) {
		p0 := pre.progs[key]
		p1, ok := post.progs[key]
		if !ok {
			continue
		}
		d := new(big.Int).Sub(p0.avail.Amount.BigInt(), p1.avail.Amount.BigInt())
		if p1.count > p0.count && p0.active {
			e.rec.Count("prog_epochs_"+p0.kind, 1)
		}
		if d.Sign() > 0 {
			e.rec.Count("prog_payout_epochs_"+p0.kind, 1)
			ran = append(ran, p0.kind)
			if recorded[p0.avail.Denom] == nil {
				recorded[p0.avail.Denom] = new(big.Int)
			}
			recorded[p0.avail.Denom].Add(recorded[p0.avail.Denom], d)
			e.logf("  %s recorded %s%s paid (available %s -> %s, epoch %d of %d)", key, d, p0.avail.Denom, p0.avail.Amount, p1.avail.Amount, p1.count, p0.days)
		}
		e.rec.Eval(1)
		if p1.avail.Amount.IsNegative() && !p0.avail.Amount.IsNegative() {
			// the rewards account is shared: a programme that pays out more than its own undistributed remainder pays
			// with the coins the account holds for the other programmes and gauges
			e.rec.Violate("C19/programme/"+p0.kind+"/paid-more-than-its-remainder", fmt.Sprintf("%s had %s%s left and recorded %s paid in this block: remainder %s", key, p0.avail.Amount, p0.avail.Denom, d, p1.avail.Amount),
				e.witness(map[string]interface{}{"programme": key, "remainder_before": p0.avail.Amount.String(), "remainder_after": p1.avail.Amount.String(), "epoch": p1.count, "days": p0.days}))
		}
		if p1.avail.Amount.IsNegative() {
			e.rec.Count("prog_available_negative_"+p0.kind, 1)
			if p0.kind == "lend" {
				// overdraft increase = max(0,-post) - max(0,-pre)
				od := new(big.Int).Neg(p1.avail.Amount.BigInt())
				if p0.avail.Amount.IsNegative() {
					od.Add(od, p0.avail.Amount.BigInt())
				}
				if od.Sign() > 0 {
					if lendOver[p0.avail.Denom] == nil {
						lendOver[p0.avail.Denom] = new(big.Int)
					}
					lendOver[p0.avail.Denom].Add(lendOver[p0.avail.Denom], od)
					e.rec.Count("prog_lend_overdraft_blocks", 1)
				}
			}
		}
		if p0.active && !p1.active {
			e.rec.Count("prog_ended_"+p0.kind, 1)
		}
		e.rec.Distinct("prog-epoch", p0.kind, p0.days, p1.count > p0.count, d.Sign() > 0, c19Digits(p0.avail.Amount.BigInt()))
	}
	// observation: users that were paid in a programme block
	for i := range c.Accts {
		for _, coin := range post.users[i] {
			if coin.Amount.GT(pre.users[i].AmountOf(coin.Denom)) {
				e.rec.Count("prog_block_user_receipts", 1)
			}
		}
	}
	site := "no-programme-epoch"
	if len(ran) > 0 {
		sort.Strings(ran)
		site = "epoch-of:" + strings.Join(c19Uniq(ran), "+")
	}
	e.checkCustody(c.Ctx(), "after-begin-block", site, lendOver)
}

func c19Uniq(s []string) []string {
	var out []string
	for i, x := range s {
		if i == 0 || x != s[i-1] {
			out = append(out, x)
		}
	}
	return out
}

func c19SortedProgKeys(m map[string]c19Prog) []string {
	var out []string
	for k := range m {
		out = append(out, k)
	}
	sort.Strings(out)
	return out
}

func (e *c19ProgEnv) pickDt() time.Duration {
	r := e.rnd
	switch x := r.Intn(100); {
	case x < 15:
		return time.Duration(r.Intn(600)+1) * time.Second
	case x < 40:
		return time.Duration(r.Intn(6*3600)+600) * time.Second
	case x < 85:
		return time.Duration(r.Intn(10*3600)+20*3600) * time.Second
	default:
		return time.Duration(r.Intn(48*3600)+24*3600) * time.Second
	}
}

// c19ProgNewEnv builds the chain of one programme scenario (deterministic in rnd and sc).
func c19ProgNewEnv(t *testing.T, rec *ev.Rec, rnd *rand.Rand, sc int) *c19ProgEnv {
	bal := lendBalances().Add(sdk.NewCoin("rwx", sdkmath.NewInt(1_000_000_000_000_000)), sdk.NewCoin("rwy", sdkmath.NewInt(1_000_000_000_000_000)))
	c := sim.New(sim.Options{NAccts: 9, Balances: bal})
	e := &c19ProgEnv{t: t, c: c, rec: rec, rnd: rnd, nProg: map[string]int{}, short: map[string]*big.Int{}}
	e.cfg = fmt.Sprintf("VERIF_SEED=%d shard=%d/%d programme-scenario=%d", ev.Seed(), ev.ShardNo(), ev.NShards(), sc)
	c.PanicHook = func(phase string, h int64, r interface{}) {
		e.panicked = true
		rec.Count("block_hook_panics", 1)
		rec.Note(fmt.Sprintf("%s: %s at height %d panicked: %v", e.cfg, phase, h, r))
	}
	e.setup(sc)
	return e
}

// run: positions first, then one programme of each kind, then the mixed run of the given number of blocks.
func (e *c19ProgEnv) run(sc, blocks int) {
	rec, rnd := e.rec, e.rnd
	rec.Count("prog_scenarios", 1)
	if sc%2 == 1 {
		rec.Count("prog_scenarios_without_lend_programme", 1)
	}
	// positions first (farmers need a day in the queue, programmes check a minimum age) ...
	for i := 0; i < 40; i++ {
		e.action()
	}
	e.step(25 * time.Hour)
	// ... then one programme of each kind, then the mixed run
	// every second scenario runs without lend programmes (they overdraw, see known_findings.json), so that the
	// custody of the other three kinds is also judged on states that no overdraft has touched
	e.noLend = sc%2 == 1
	for _, k := range []string{"stable", "vault", "lend", "locker"} {
		if k == "lend" && e.noLend {
			continue
		}
		e.activate(k)
	}
	e.createGauge()
	for b := 0; b < blocks && !e.panicked; b++ {
		for i := rnd.Intn(5); i > 0; i-- {
			e.action()
		}
		e.step(e.pickDt())
	}
	if sc == 0 && ev.ShardNo() == 0 {
		tail := e.ops
		if len(tail) > 12 {
			tail = tail[len(tail)-12:]
		}
		rec.Sample(map[string]interface{}{"scenario": e.cfg, "last_ops": tail})
	}
}

func c19ProgScenario(t *testing.T, rec *ev.Rec, sc int) {
	e := c19ProgNewEnv(t, rec, rng("C19-programmes", sc), sc)
	defer e.c.Close()
	e.run(sc, ev.Pick(60, 140))
}

// TestC19Programmes runs part 3 alone (development aid; ./check runs TestC19).
func TestC19Programmes(t *testing.T) {
	rec := ev.New("C19P", "exploration", "programme scenarios only")
	defer finish(t, rec)
	np := ev.Pick(6, 40)
	for sc := 0; sc < np; sc++ {
		c19ProgScenario(t, rec, ev.ShardNo()*np+sc)
	}
}
