package props

import (
	"fmt"
	"math/big"
	"testing"

	sdk "github.com/cosmos/cosmos-sdk/types"

	assettypes "github.com/comdex-official/comdex/x/asset/types"
	auctionsV2types "github.com/comdex-official/comdex/x/auctionsV2/types"
	lendtypes "github.com/comdex-official/comdex/x/lend/types"
	liqV2types "github.com/comdex-official/comdex/x/liquidationsV2/types"
	markettypes "github.com/comdex-official/comdex/x/market/types"

	"verif/sim"
)

// ---- lend universe (reused by the lend / liquidation monitors) ----
//
// Four underlying assets and their four cAssets, two pools that share the two
// transit assets, the app "commodo", asset-rates params, the intra-pool pairs
// and main<->main inter-pool pairs the AddAssetRatesPoolPairs proposal handler
// generates, two extra inter-pool pairs with a transit asset as collateral
// (AddLendPairsRecords + AddMultipleAssetToPair), one e-mode pair, stable
// borrow enabled for two collateral assets (every asset has non-zero stable
// rate parameters: a stable loan at rate 0 makes the reserve index 0 and the
// next accrual divides by zero -- also in the liquidation begin blocker),
// lend auction params, liquidation
// whitelisting (generation 2) and active oracle prices.
//
// Everything is created through the keeper functions the governance proposal
// handlers call (x/lend/keeper/gov.go), like the repository's own fixtures do.

type lendAsset struct {
	ID       uint64
	Denom    string
	CID      uint64 // id of the cAsset
	CDenom   string
	Decimals *big.Int
	Ltv      sdk.Dec
	LiqThr   sdk.Dec
}

type lendPoolInfo struct {
	ID     uint64
	Module string
	Assets []uint64 // main, first transit, second transit
	Main   uint64
	T1     uint64
	T2     uint64
}

type lendU struct {
	c       *sim.Chain
	variant int
	App     uint64
	Assets  map[uint64]*lendAsset // underlying assets by id
	ByDenom map[string]*lendAsset // underlying denom and cAsset denom -> underlying asset
	Order   []uint64              // underlying asset ids in creation order
	Pools   map[uint64]*lendPoolInfo
	Pairs   []lendtypes.Extended_Pair
	// pair ids by role
	EModePair uint64
}

func lendDec(s string) sdk.Dec { return sdk.MustNewDecFromStr(s) }

// lendBalances is what every account needs at genesis for the lend workloads.
func lendBalances() sdk.Coins {
	amt := sdk.NewInt(1_000_000_000_000_000)
	return sdk.NewCoins(sdk.NewCoin("uatom", amt), sdk.NewCoin("ucmst", amt), sdk.NewCoin("uusdc", amt), sdk.NewCoin("uosmo", amt))
}

// lendSetPrice sets the oracle price (TWA, active) of an underlying asset.
func (u *lendU) SetPrice(assetID uint64, twa uint64, active bool) {
	u.c.SetTwa(markettypes.TimeWeightedAverage{AssetID: assetID, ScriptID: 10, Twa: twa, CurrentIndex: 1, IsPriceActive: active})
}

// Price returns the TWA in force and whether it is active.
func (u *lendU) Price(assetID uint64) (uint64, bool) {
	twa, found := u.c.App.MarketKeeper.GetTwa(u.c.Ctx(), assetID)
	if !found {
		return 0, false
	}
	return twa.Twa, twa.IsPriceActive
}

// Value is the exact oracle value amount*twa/decimals of an amount of an underlying asset.
func (u *lendU) Value(assetID uint64, amt *big.Int) *big.Rat {
	p, _ := u.Price(assetID)
	a := u.Assets[assetID]
	num := new(big.Int).Mul(amt, new(big.Int).SetUint64(p))
	return new(big.Rat).SetFrac(num, a.Decimals)
}

func (u *lendU) Pair(id uint64) (lendtypes.Extended_Pair, bool) {
	return u.c.App.LendKeeper.GetLendPair(u.c.Ctx(), id)
}

// PoolOfModule / module account of a pool
func (u *lendU) PoolAddr(poolID uint64) sdk.AccAddress { return u.c.ModAddr(u.Pools[poolID].Module) }

// lendUniverse builds the universe on the open block of c. The chain must have
// been created with lendBalances() (or a superset) as account balances.
//
// variant%3: 0 = all decimals 1e6, round prices, LTVs with one decimal (exact
// boundaries are hit); 1 = odd prices, OSMO with 1e8 decimals; 2 = like 0 but
// high utilisation kink (u_optimal 0.5) and larger rates so interest is large.
func lendUniverse(t *testing.T, c *sim.Chain, variant int) *lendU {
	return lendUniverseApp(t, c, variant, 1)
}

// lendUniverseApp: lendAppSlot is the app id the lend app gets (1 = first app).
func lendUniverseApp(t *testing.T, c *sim.Chain, variant int, lendAppSlot int) *lendU {
	t.Helper()
	ctx := c.Ctx()
	u := &lendU{c: c, variant: variant, Assets: map[uint64]*lendAsset{}, ByDenom: map[string]*lendAsset{}, Pools: map[uint64]*lendPoolInfo{}}
	v := variant % 3

	// prices stay active over real blocks only when the band-oracle feed is
	// considered valid and no fetch-price proposal is installed (then neither
	// the bandoracle nor the market begin blocker touches the TWA records).
	c.App.BandoracleKeeper.SetOracleValidationResult(ctx, true)

	type adef struct {
		name, denom string
		decimals    int64
	}
	defs := []adef{{"ATOM", "uatom", 1_000_000}, {"CMST", "ucmst", 1_000_000}, {"USDC", "uusdc", 1_000_000}, {"OSMO", "uosmo", 1_000_000}}
	if v == 1 {
		defs[3].decimals = 100_000_000
	}
	for _, d := range defs {
		must(t, c.App.AssetKeeper.AddAssetRecords(ctx, assettypes.Asset{Name: d.name, Denom: d.denom, Decimals: sdk.NewInt(d.decimals), IsOnChain: true, IsOraclePriceRequired: true}))
	}
	for _, d := range defs {
		must(t, c.App.AssetKeeper.AddAssetRecords(ctx, assettypes.Asset{Name: "C" + d.name, Denom: "uc" + d.denom[1:], Decimals: sdk.NewInt(d.decimals), IsOnChain: true, IsOraclePriceRequired: false}))
	}
	byDenom := map[string]assettypes.Asset{}
	for _, a := range c.App.AssetKeeper.GetAssets(ctx) {
		byDenom[a.Denom] = a
	}
	for _, d := range defs {
		a, ca := byDenom[d.denom], byDenom["uc"+d.denom[1:]]
		if a.Id == 0 || ca.Id == 0 {
			t.Fatalf("lend fixture: asset %s not created", d.denom)
		}
		la := &lendAsset{ID: a.Id, Denom: a.Denom, CID: ca.Id, CDenom: ca.Denom, Decimals: a.Decimals.BigInt()}
		u.Assets[a.Id] = la
		u.ByDenom[a.Denom] = la
		u.ByDenom[ca.Denom] = la
		u.Order = append(u.Order, a.Id)
	}
	atom, cmst, usdc, osmo := u.ByDenom["uatom"], u.ByDenom["ucmst"], u.ByDenom["uusdc"], u.ByDenom["uosmo"]

	// lendAppSlot > 1: placeholder apps are registered first so that the lend app gets that id (the lend module's
	// reserve-funding handler and the auction module's genesis export look for generation-1 lend auctions under app
	// id 3, the id the lend app has on the production chain)
	for i := 1; i < lendAppSlot; i++ {
		must(t, c.App.AssetKeeper.AddAppRecords(ctx, assettypes.AppData{Name: []string{"", "cswap", "harbor", "third", "fourth"}[i], ShortName: []string{"", "cswap", "hbr", "thrd", "frth"}[i], MinGovDeposit: sdk.NewInt(0), GovTimeInSeconds: 0, GenesisToken: []assettypes.MintGenesisToken{}}))
	}
	must(t, c.App.AssetKeeper.AddAppRecords(ctx, assettypes.AppData{Name: "commodo", ShortName: "cmmdo", MinGovDeposit: sdk.NewInt(0), GovTimeInSeconds: 0, GenesisToken: []assettypes.MintGenesisToken{}}))
	apps, _ := c.App.AssetKeeper.GetApps(ctx)
	for _, a := range apps {
		if a.Name == "commodo" {
			u.App = a.Id
		}
	}
	if u.App == 0 {
		t.Fatalf("lend fixture: app not created")
	}

	// prices (micro-USD per whole token)
	prices := map[uint64]uint64{atom.ID: 10_000_000, cmst.ID: 1_000_000, usdc.ID: 1_000_000, osmo.ID: 2_000_000}
	if v == 1 {
		prices = map[uint64]uint64{atom.ID: 9_713_377, cmst.ID: 1_003_411, usdc.ID: 998_877, osmo.ID: 731_993}
	}
	for id, p := range prices {
		u.SetPrice(id, p, true)
	}

	type rates struct {
		uopt, base, s1, s2       string
		stable                   bool
		sbase, ss1, ss2          string
		ltv, lt, lpen, lbon, res string
	}
	rp := map[uint64]rates{
		atom.ID: {"0.75", "0.002", "0.07", "1.25", true, "0.03", "0.04", "0.06", "0.7", "0.75", "0.05", "0.05", "0.2"},
		cmst.ID: {"0.8", "0.002", "0.06", "0.6", true, "0.04", "0.04", "0.06", "0.8", "0.85", "0.025", "0.025", "0.1"},
		usdc.ID: {"0.8", "0.003", "0.05", "0.7", false, "0.03", "0.03", "0.05", "0.75", "0.8", "0.05", "0.05", "0.15"},
		osmo.ID: {"0.65", "0.002", "0.08", "1.5", false, "0.05", "0.05", "0.08", "0.6", "0.65", "0.05", "0.05", "0.2"},
	}
	if v == 1 {
		r := rp[atom.ID]
		r.ltv, r.lt = "0.6666", "0.7131"
		rp[atom.ID] = r
		r = rp[osmo.ID]
		r.ltv, r.lt = "0.613", "0.667"
		rp[osmo.ID] = r
	}
	if v == 2 {
		for id, r := range rp {
			r.uopt, r.base, r.s1, r.s2 = "0.5", "0.02", "0.3", "3.0"
			r.sbase, r.ss1, r.ss2 = "0.1", "0.2", "1.0"
			rp[id] = r
		}
	}
	cap := sdk.NewDecFromInt(sdk.NewInt(1_000_000_000_000_000_000)).MulInt64(1_000_000)
	mk := func(id uint64) lendtypes.AssetRatesParams {
		r := rp[id]
		a := u.Assets[id]
		a.Ltv, a.LiqThr = lendDec(r.ltv), lendDec(r.lt)
		return lendtypes.AssetRatesParams{AssetID: id, UOptimal: lendDec(r.uopt), Base: lendDec(r.base), Slope1: lendDec(r.s1), Slope2: lendDec(r.s2),
			EnableStableBorrow: r.stable, StableBase: lendDec(r.sbase), StableSlope1: lendDec(r.ss1), StableSlope2: lendDec(r.ss2),
			Ltv: lendDec(r.ltv), LiquidationThreshold: lendDec(r.lt), LiquidationPenalty: lendDec(r.lpen), LiquidationBonus: lendDec(r.lbon),
			ReserveFactor: lendDec(r.res), CAssetID: a.CID}
	}
	// the two transit assets get their params first (AddAssetRatesParams proposal) ...
	must(t, c.App.LendKeeper.AddAssetRatesParams(ctx, mk(cmst.ID), mk(usdc.ID)))
	// ... then one AddAssetRatesPoolPairs proposal per main asset creates params + pool + pairs + mappings
	poolPairs := func(main *lendAsset, module, cpool string) {
		p := mk(main.ID)
		data := []*lendtypes.AssetDataPoolMapping{
			{AssetID: main.ID, AssetTransitType: 1, SupplyCap: cap},
			{AssetID: cmst.ID, AssetTransitType: 2, SupplyCap: cap},
			{AssetID: usdc.ID, AssetTransitType: 3, SupplyCap: cap},
		}
		must(t, c.App.LendKeeper.AddAssetRatesPoolPairs(ctx, lendtypes.AssetRatesPoolPairs{AssetID: p.AssetID, UOptimal: p.UOptimal, Base: p.Base, Slope1: p.Slope1, Slope2: p.Slope2,
			EnableStableBorrow: p.EnableStableBorrow, StableBase: p.StableBase, StableSlope1: p.StableSlope1, StableSlope2: p.StableSlope2, Ltv: p.Ltv,
			LiquidationThreshold: p.LiquidationThreshold, LiquidationPenalty: p.LiquidationPenalty, LiquidationBonus: p.LiquidationBonus, ReserveFactor: p.ReserveFactor,
			CAssetID: p.CAssetID, ModuleName: module, CPoolName: cpool, AssetData: data, MinUsdValueLeft: 100000, IsIsolated: false}))
	}
	poolPairs(atom, lendtypes.ModuleAcc1, "ATOM-CMST-USDC")
	poolPairs(osmo, lendtypes.ModuleAcc3, "OSMO-CMST-USDC")
	for _, p := range c.App.LendKeeper.GetPools(ctx) {
		pi := &lendPoolInfo{ID: p.PoolID, Module: p.ModuleName}
		for _, d := range p.AssetData {
			pi.Assets = append(pi.Assets, d.AssetID)
			switch d.AssetTransitType {
			case 1:
				pi.Main = d.AssetID
			case 2:
				pi.T1 = d.AssetID
			case 3:
				pi.T2 = d.AssetID
			}
		}
		u.Pools[p.PoolID] = pi
	}
	if len(u.Pools) != 2 {
		t.Fatalf("lend fixture: expected 2 pools, got %d", len(u.Pools))
	}
	// extra inter-pool pairs with a transit asset as collateral (as in x/lend/keeper/msg_server_test.go)
	before := c.App.LendKeeper.GetLendPairID(ctx)
	must(t, c.App.LendKeeper.AddLendPairsRecords(ctx,
		lendtypes.Extended_Pair{AssetIn: cmst.ID, AssetOut: osmo.ID, IsInterPool: true, AssetOutPoolID: 2, MinUsdValueLeft: 100000},
		lendtypes.Extended_Pair{AssetIn: usdc.ID, AssetOut: atom.ID, IsInterPool: true, AssetOutPoolID: 1, MinUsdValueLeft: 100000}))
	must(t, c.App.LendKeeper.AddMultipleAssetToPair(ctx, []lendtypes.AssetToPairSingleMapping{
		{PoolID: 1, AssetID: cmst.ID, PairID: before + 1},
		{PoolID: 2, AssetID: usdc.ID, PairID: before + 2}}))

	// e-mode: the intra-pool pair CMST -> USDC of pool 1
	for _, p := range c.App.LendKeeper.GetLendPairs(ctx) {
		if p.AssetIn == cmst.ID && p.AssetOut == usdc.ID && !p.IsInterPool && p.AssetOutPoolID == 1 {
			u.EModePair = p.Id
		}
	}
	if u.EModePair == 0 {
		t.Fatalf("lend fixture: e-mode candidate pair not found")
	}
	must(t, c.App.LendKeeper.AddEModePairs(ctx, lendtypes.EModePairsForProposal{EModePairs: []lendtypes.EModePairs{{PairID: u.EModePair, ELtv: lendDec("0.9"), ELiquidationThreshold: lendDec("0.93"), ELiquidationPenalty: lendDec("0.02")}}}))
	u.Pairs = c.App.LendKeeper.GetLendPairs(ctx)

	// lend auction params (AddAuctionParamsProposal), generation-2 liquidation whitelisting and auction params
	must(t, c.App.LendKeeper.AddAuctionParamsData(ctx, lendtypes.AuctionParams{AppId: u.App, AuctionDurationSeconds: 21600, Buffer: lendDec("1.2"), Cusp: lendDec("0.7"), Step: sdk.NewInt(360), PriceFunctionType: 1, DutchId: 3, BidDurationSeconds: 3600}))
	dutch := liqV2types.DutchAuctionParam{Premium: lendDec("0.1"), Discount: lendDec("0.1"), DecrementFactor: sdk.NewInt(1)}
	c.App.NewliqKeeper.SetLiquidationWhiteListing(ctx, liqV2types.LiquidationWhiteListing{AppId: u.App, Initiator: true, IsDutchActivated: true, DutchAuctionParam: &dutch, IsEnglishActivated: false, KeeeperIncentive: lendDec("0.1")})
	c.App.NewaucKeeper.SetAuctionParams(ctx, auctionsV2types.AuctionParams{AuctionDurationSeconds: 3600, Step: lendDec("0.1"), WithdrawalFee: lendDec("0.0"), ClosingFee: lendDec("0.0"), MinUsdValueLeft: 100000, BidFactor: lendDec("0.1"), LiquidationPenalty: lendDec("0.1"), AuctionBonus: lendDec("0.0")})
	return u
}

func (u *lendU) String() string {
	return fmt.Sprintf("lendU(variant=%d, %d pairs)", u.variant, len(u.Pairs))
}
