package props

// Shared liquidity-module workload for C04 (custody) and C07 (order
// settlement). A sim.Chain is driven through real signed transactions and real
// ABCI blocks; monitors observe the state after every transaction, after every
// EndBlock+Commit and after every BeginBlock.

import (
	"fmt"
	banktypes "github.com/cosmos/cosmos-sdk/x/bank/types"
	"math/big"
	"math/rand"
	"sort"
	"strings"
	"testing"
	"time"

	sdkmath "cosmossdk.io/math"
	sdk "github.com/cosmos/cosmos-sdk/types"

	assettypes "github.com/comdex-official/comdex/x/asset/types"
	"github.com/comdex-official/comdex/x/liquidity/amm"
	liqtypes "github.com/comdex-official/comdex/x/liquidity/types"

	"verif/ev"
	"verif/sim"
)

// ---------------------------------------------------------------- steps

type liqStep struct {
	Kind   string // "setup" | "tx" | "end-block" | "begin-block"
	Op     string // call-site name used in labels: message kind for tx, else Kind
	Msg    sdk.Msg
	Signer *sim.Acct
	Res    sim.TxResult
	OK     bool
	Height int64
	N      int
	Desc   string
}

type liqMonitor interface {
	Init(w *liqWorld)
	Observe(w *liqWorld, st *liqStep)
}

type liqCfg struct {
	Fee   [3]string // swap fee rate per app (index app-1)
	Batch [3]uint64
	Tick  [3]uint64
}

type liqWorld struct {
	t          *testing.T
	c          *sim.Chain
	rec        *ev.Rec
	rnd        *rand.Rand
	mon        liqMonitor
	committed  bool
	run        int
	cfg        liqCfg
	apps       []uint64
	rateNum    map[uint64]*big.Int // swap fee rate * 1e18 per app
	tickPrec   map[uint64]int
	batch      map[uint64]uint64
	lps        []*sim.Acct
	orderers   []*sim.Acct
	denoms     []string
	trace      []string
	nstep      int
	panics     []string
	lastBatch  map[[2]uint64]uint64
	panicNotes int
	feeGov     bool // governance changes swap-fee rates during the run (C07)
}

var liqDenoms = []string{"ucmdx", "uatom", "uosmo", "ucmst"}

var liqE18 = new(big.Int).Exp(big.NewInt(10), big.NewInt(18), nil)

func liqPow10(n int) sdkmath.Int { return sdkmath.NewIntWithDecimal(1, n) }

// liqFee is the documented fee formula: floor(amount * rate).
func liqFee(amount, rateNum *big.Int) *big.Int {
	x := new(big.Int).Mul(amount, rateNum)
	return x.Quo(x, liqE18)
}

// ctx returns a context over the state the monitors must look at: the open
// block's deliver state, or — between Commit and the next BeginBlock — the
// committed state (the deliver state does not exist then).
func (w *liqWorld) ctx() sdk.Context {
	if w.committed {
		return w.c.App.BaseApp.NewContext(true, w.c.Header)
	}
	return w.c.Ctx()
}

func (w *liqWorld) bal(addr sdk.AccAddress, denom string) sdkmath.Int {
	return w.c.App.BankKeeper.GetBalance(w.ctx(), addr, denom).Amount
}

func (w *liqWorld) witness(extra map[string]interface{}) map[string]interface{} {
	d := map[string]interface{}{
		"workload": fmt.Sprintf("liq-workload seed=%d shard=%d/%d run=%d tier=%s (deterministic: re-run ./check with the same VERIF_SEED)", ev.Seed(), ev.ShardNo(), ev.NShards(), w.run, ev.Tier()),
		"config":   fmt.Sprintf("swapFeeRate(app1..3)=%v batchSize=%v tickPrecision=%v", w.cfg.Fee, w.cfg.Batch, w.cfg.Tick),
		"step":     w.nstep,
		"height":   w.c.Header.Height,
		"last_ops": append([]string(nil), w.trace...),
	}
	for k, v := range extra {
		d[k] = v
	}
	return d
}

func (w *liqWorld) pushTrace(s string) {
	w.trace = append(w.trace, s)
	if len(w.trace) > 14 {
		w.trace = w.trace[len(w.trace)-14:]
	}
}

func (w *liqWorld) observe(st *liqStep) {
	w.nstep++
	st.N = w.nstep
	st.Height = w.c.Header.Height
	if w.mon != nil {
		w.mon.Observe(w, st)
	}
}

// ---------------------------------------------------------------- set-up

func liqBalances() sdk.Coins {
	big27 := liqPow10(27)
	return sdk.NewCoins(
		sdk.NewCoin("ucmdx", big27),
		sdk.NewCoin("uatom", big27),
		sdk.NewCoin("uosmo", big27),
		sdk.NewCoin("ucmst", big27),
	)
}

func liqNewWorld(t *testing.T, rec *ev.Rec, rnd *rand.Rand, run int, mon liqMonitor) *liqWorld {
	c := sim.New(sim.Options{NAccts: 8, Balances: liqBalances()})
	w := &liqWorld{t: t, c: c, rec: rec, rnd: rnd, mon: mon, run: run,
		rateNum: map[uint64]*big.Int{}, tickPrec: map[uint64]int{}, batch: map[uint64]uint64{},
		denoms: liqDenoms, lastBatch: map[[2]uint64]uint64{}}
	c.PanicHook = func(phase string, h int64, r interface{}) {
		w.panics = append(w.panics, fmt.Sprintf("%s@%d: %v", phase, h, r))
		rec.Count("abci_panics_escaped/"+phase, 1)
	}
	w.lps = c.Accts[0:3]
	w.orderers = c.Accts[3:8]
	ctx := c.Ctx()
	for i, d := range liqDenoms {
		must(t, c.App.AssetKeeper.AddAssetRecords(ctx, assettypes.Asset{Name: []string{"CMDX", "ATOM", "OSMO", "CMST"}[i], Denom: d, Decimals: sdk.NewInt(1_000_000), IsOnChain: true}))
	}
	for _, nm := range [][2]string{{"cswap", "csw"}, {"harbor", "hbr"}, {"commodo", "cmdo"}} {
		must(t, c.App.AssetKeeper.AddAppRecords(ctx, assettypes.AppData{Name: nm[0], ShortName: nm[1], MinGovDeposit: sdk.ZeroInt(), GovTimeInSeconds: 0}))
	}
	w.apps = []uint64{1, 2, 3}
	// configuration: a permutation of the three fee rates, batch sizes 1..3, tick precisions
	fees := []string{"0.003", "0", "0.05"}
	rnd.Shuffle(3, func(i, j int) { fees[i], fees[j] = fees[j], fees[i] })
	ticks := []uint64{4, 3, 2}
	rnd.Shuffle(3, func(i, j int) { ticks[i], ticks[j] = ticks[j], ticks[i] })
	for i, app := range w.apps {
		p := liqtypes.DefaultGenericParams(app)
		p.SwapFeeRate = sdk.MustNewDecFromStr(fees[i])
		p.BatchSize = uint64(1 + rnd.Intn(3))
		p.TickPrecision = ticks[i]
		p.PairCreationFee = sdk.NewCoins(sdk.NewInt64Coin("ucmdx", 2_000_000))
		p.PoolCreationFee = sdk.NewCoins(sdk.NewInt64Coin("ucmdx", 3_000_000))
		if rnd.Intn(2) == 0 {
			p.WithdrawFeeRate = sdk.MustNewDecFromStr("0.002")
		}
		c.App.LiquidityKeeper.SetGenericParams(ctx, p)
		w.cfg.Fee[i], w.cfg.Batch[i], w.cfg.Tick[i] = fees[i], p.BatchSize, p.TickPrecision
		w.rateNum[app] = p.SwapFeeRate.BigInt()
		w.tickPrec[app] = int(p.TickPrecision)
		w.batch[app] = p.BatchSize
	}
	if mon != nil {
		mon.Init(w)
	}
	w.observe(&liqStep{Kind: "setup", Op: "setup"})
	// pairs, in a different order per app so that pair ids differ between apps
	// and (app id, pair id) covers every combination of {1,2,3}x{1,2,3}
	pairOrder := map[uint64][][2]string{
		1: {{"uatom", "ucmdx"}, {"uosmo", "ucmdx"}, {"uosmo", "uatom"}, {"ucmst", "ucmdx"}},
		2: {{"uosmo", "uatom"}, {"ucmst", "ucmdx"}, {"uatom", "ucmdx"}, {"uosmo", "ucmdx"}},
		3: {{"uosmo", "ucmdx"}, {"uosmo", "uatom"}, {"ucmst", "uatom"}, {"uatom", "ucmdx"}},
	}
	for _, app := range w.apps {
		for i, bq := range pairOrder[app] {
			lp := w.lps[(int(app)+i)%len(w.lps)]
			w.deliver(lp, "create-pair", liqtypes.NewMsgCreatePair(app, lp.Addr, bq[0], bq[1]), fmt.Sprintf("app=%d %s/%s", app, bq[0], bq[1]))
		}
	}
	// pools: pair 4 of every app starts without a pool (no last price until users trade)
	prices := []string{"1", "0.5", "2", "3.1416", "0.02", "25"}
	for _, app := range w.apps {
		for pid := uint64(1); pid <= 3; pid++ {
			pair, ok := c.App.LiquidityKeeper.GetPair(c.Ctx(), app, pid)
			if !ok {
				t.Fatalf("harness set-up: pair %d/%d missing", app, pid)
			}
			lp := w.lps[rnd.Intn(len(w.lps))]
			y := liqPow10(8 + rnd.Intn(6)).MulRaw(int64(1 + rnd.Intn(9)))
			p := sdk.MustNewDecFromStr(prices[rnd.Intn(len(prices))])
			x := p.MulInt(y).TruncateInt()
			w.deliver(lp, "create-pool", liqtypes.NewMsgCreatePool(app, lp.Addr, pid, sdk.NewCoins(sdk.NewCoin(pair.QuoteCoinDenom, x), sdk.NewCoin(pair.BaseCoinDenom, y))),
				fmt.Sprintf("app=%d pair=%d x=%s y=%s", app, pid, x, y))
		}
	}
	w.nextBlock(5 * time.Second)
	return w
}

// ---------------------------------------------------------------- driving

func (w *liqWorld) deliver(signer *sim.Acct, op string, msg sdk.Msg, desc string) *liqStep {
	st := &liqStep{Kind: "tx", Op: op, Msg: msg, Signer: signer}
	st.Res = w.c.Deliver(signer, msg)
	st.OK = st.Res.OK()
	w.rec.Count("msg/"+op+"/attempted", 1)
	outcome := "ok"
	if st.OK {
		w.rec.Count("msg/"+op+"/succeeded", 1)
	} else {
		w.rec.Count("msg/"+op+"/rejected", 1)
		outcome = "rejected: " + liqShort(st.Res.Log)
		if strings.Contains(st.Res.Log, "panic") {
			w.rec.Count("msg/"+op+"/rejected_by_recovered_panic", 1)
			if w.panicNotes < 2 {
				w.panicNotes++
				l := st.Res.Log
				if len(l) > 400 {
					l = l[:400]
				}
				w.rec.Note(fmt.Sprintf("tx rejected by a recovered panic (not a C04/C07 law): %s %s: %s", op, desc, l))
			}
		}
	}
	st.Desc = fmt.Sprintf("h=%d %s %s %s -> %s", w.c.Header.Height, signer.Name, op, desc, outcome)
	w.pushTrace(st.Desc)
	w.observe(st)
	return st
}

func liqShort(s string) string {
	if i := strings.Index(s, "\n"); i >= 0 {
		s = s[:i]
	}
	if len(s) > 110 {
		s = s[:110]
	}
	return s
}

func (w *liqWorld) nextBlock(dt time.Duration) {
	h := w.c.Header.Height
	w.c.EndAndCommit()
	w.committed = true
	w.pushTrace(fmt.Sprintf("h=%d end-block (then +%s)", h, dt))
	// batch bookkeeping (evidence only)
	k := w.c.App.LiquidityKeeper
	for _, app := range w.apps {
		due := h%int64(w.batch[app]) == 0
		for _, p := range k.GetAllPairs(w.ctx(), app) {
			key := [2]uint64{app, p.Id}
			prev, seen := w.lastBatch[key]
			if seen && p.CurrentBatchId > prev {
				w.rec.Count("batches_executed", 1)
				if app != p.Id {
					w.rec.Count("batches_executed_app_ne_pair", 1)
				}
			} else if seen && due {
				w.rec.Count("batches_due_but_not_executed", 1)
			}
			w.lastBatch[key] = p.CurrentBatchId
		}
	}
	w.observe(&liqStep{Kind: "end-block", Op: "end-block"})
	w.c.Header.Time = w.c.Header.Time.Add(dt)
	w.c.Begin()
	w.committed = false
	w.observe(&liqStep{Kind: "begin-block", Op: "begin-block"})
	w.rec.Count("blocks", 1)
}

// ---------------------------------------------------------------- generators

const (
	liqTiny = iota
	liqSmall
	liqTypical
	liqLarge
	liqHuge
	liqWhole
	liqBelowMin
)

var liqClassName = []string{"tiny", "small", "typical", "large", "huge", "whole", "below-min"}

func (w *liqWorld) pickClass() int {
	switch x := w.rnd.Intn(100); {
	case x < 10:
		return liqTiny
	case x < 22:
		return liqSmall
	case x < 72:
		return liqTypical
	case x < 86:
		return liqLarge
	case x < 94:
		return liqHuge
	case x < 97:
		return liqWhole
	default:
		return liqBelowMin
	}
}

func (w *liqWorld) amount(class int) sdkmath.Int {
	r := w.rnd
	switch class {
	case liqTiny:
		return sdkmath.NewInt(100 + r.Int63n(400))
	case liqSmall:
		return sdkmath.NewInt(1_000 + r.Int63n(99_000))
	case liqTypical:
		return sdkmath.NewInt(1_000_000 + r.Int63n(999_000_000))
	case liqLarge:
		return liqPow10(12 + r.Intn(4)).MulRaw(1 + r.Int63n(9)).AddRaw(r.Int63n(1000))
	case liqHuge:
		return liqPow10(18 + r.Intn(7)).MulRaw(1 + r.Int63n(9)).AddRaw(r.Int63n(1000))
	case liqBelowMin:
		return sdkmath.NewInt(1 + r.Int63n(99))
	}
	return sdkmath.NewInt(1_000_000)
}

func (w *liqWorld) pickPair() (liqtypes.Pair, bool) {
	k := w.c.App.LiquidityKeeper
	app := w.apps[w.rnd.Intn(len(w.apps))]
	pairs := k.GetAllPairs(w.ctx(), app)
	if len(pairs) == 0 {
		return liqtypes.Pair{}, false
	}
	// prefer pairs whose id differs from the app id
	var ne []liqtypes.Pair
	for _, p := range pairs {
		if p.Id != app {
			ne = append(ne, p)
		}
	}
	if len(ne) > 0 && w.rnd.Intn(100) < 75 {
		return ne[w.rnd.Intn(len(ne))], true
	}
	return pairs[w.rnd.Intn(len(pairs))], true
}

// refPrice: last price, else price of the first active pool, else 1.
func (w *liqWorld) refPrice(pair liqtypes.Pair) sdk.Dec {
	if pair.LastPrice != nil {
		return *pair.LastPrice
	}
	k := w.c.App.LiquidityKeeper
	for _, pool := range k.GetPoolsByPair(w.ctx(), pair.AppId, pair.Id) {
		if pool.Disabled {
			continue
		}
		rx, ry := k.GetPoolBalances(w.ctx(), pool)
		if rx.Amount.IsPositive() && ry.Amount.IsPositive() && pool.Type == liqtypes.PoolTypeBasic {
			return rx.Amount.ToLegacyDec().Quo(ry.Amount.ToLegacyDec())
		}
	}
	return sdk.OneDec()
}

var liqLifespans = []time.Duration{0, 0, 3 * time.Second, 10 * time.Second, 30 * time.Second, 2 * time.Minute, time.Hour, 24 * time.Hour, 24*time.Hour + time.Second}

func (w *liqWorld) lifespan() time.Duration { return liqLifespans[w.rnd.Intn(len(liqLifespans))] }

var liqPriceOffsets = []string{"-0.05", "-0.01", "-0.002", "0", "0", "0.002", "0.01", "0.03", "0.05", "0.09", "0.15"}

func (w *liqWorld) direction(ref sdk.Dec) liqtypes.OrderDirection {
	buy := w.rnd.Intn(2) == 0
	// keep the market from drifting to absurd prices
	if ref.GT(sdk.NewDec(1000)) && w.rnd.Intn(100) < 85 {
		buy = false
	}
	if ref.LT(sdk.NewDecWithPrec(1, 3)) && w.rnd.Intn(100) < 85 {
		buy = true
	}
	if buy {
		return liqtypes.OrderDirectionBuy
	}
	return liqtypes.OrderDirectionSell
}

func liqDirName(d liqtypes.OrderDirection) string {
	if d == liqtypes.OrderDirectionBuy {
		return "buy"
	}
	return "sell"
}

// safely: input generation must never crash the harness (Dec overflow on absurd inputs).
func liqSafely(f func()) (ok bool) {
	defer func() {
		if r := recover(); r != nil {
			ok = false
		}
	}()
	f()
	return true
}

func (w *liqWorld) opLimit(a *sim.Acct) {
	pair, ok := w.pickPair()
	if !ok {
		return
	}
	app := pair.AppId
	ref := w.refPrice(pair)
	dir := w.direction(ref)
	off := sdk.MustNewDecFromStr(liqPriceOffsets[w.rnd.Intn(len(liqPriceOffsets))])
	var price sdk.Dec
	if dir == liqtypes.OrderDirectionBuy {
		price = ref.Mul(sdk.OneDec().Add(off))
	} else {
		price = ref.Mul(sdk.OneDec().Sub(off))
	}
	if !price.IsPositive() {
		price = ref
	}
	class := w.pickClass()
	offerDenom, demandDenom := pair.BaseCoinDenom, pair.QuoteCoinDenom
	if dir == liqtypes.OrderDirectionBuy {
		offerDenom, demandDenom = pair.QuoteCoinDenom, pair.BaseCoinDenom
	}
	var amt, offer sdkmath.Int
	rate := w.rateNum[app]
	good := liqSafely(func() {
		if class == liqWhole {
			bal := w.bal(a.Addr, offerDenom)
			// largest offer o with o + floor(o*rate) <= bal
			o := new(big.Int).Mul(bal.BigInt(), liqE18)
			o.Quo(o, new(big.Int).Add(liqE18, rate))
			offer = bal
			if dir == liqtypes.OrderDirectionSell {
				amt = sdkmath.NewIntFromBigInt(o)
			} else {
				amt = sdkmath.NewIntFromBigInt(o).ToLegacyDec().QuoTruncate(price).TruncateInt().SubRaw(1)
			}
			return
		}
		amt = w.amount(class)
		base := amm.OfferCoinAmount(amm.OrderDirection(dir), price, amt)
		offer = base.Add(sdkmath.NewIntFromBigInt(liqFee(base.BigInt(), rate)))
		switch x := w.rnd.Intn(100); {
		case x < 8:
			offer = offer.AddRaw(1)
		case x < 14:
			offer = offer.AddRaw(12345)
		case x < 18:
			offer = offer.SubRaw(1)
		}
	})
	if !good || !amt.IsPositive() || !offer.IsPositive() {
		return
	}
	life := w.lifespan()
	if class == liqWhole || class == liqHuge {
		life = liqLifespans[w.rnd.Intn(5)]
	}
	switch w.rnd.Intn(60) { // hostile shapes
	case 0:
		offerDenom, demandDenom = demandDenom, offerDenom
	case 1:
		app = 9
	case 2:
		pair.Id = 77
	}
	msg := liqtypes.NewMsgLimitOrder(app, a.Addr, pair.Id, dir, sdk.NewCoin(offerDenom, offer), demandDenom, price, amt, life)
	st := w.deliver(a, "limit-order", msg, fmt.Sprintf("app=%d pair=%d %s price=%s amt=%s(%s) offer=%s%s life=%s", app, pair.Id, liqDirName(dir), price, amt, liqClassName[class], offer, offerDenom, life))
	w.rec.Distinct("limit", app, pair.Id, dir, liqClassName[class], life, st.OK, off.String())
	if st.OK {
		w.rec.Count("orders_placed/limit/"+liqClassName[class], 1)
	}
}

// opCrowd: several users rest orders of very different sizes (big, big, tiny) on ONE tick in the same batch and
// a counter-order fills the tick only partly, so the matcher's pro-rata split with its drop-and-redistribute
// rounds decides who gets the truncation remainders.
func (w *liqWorld) opCrowd() {
	pair, ok := w.pickPair()
	if !ok {
		return
	}
	app := pair.AppId
	ref := w.refPrice(pair)
	dir := w.direction(ref)
	opp := liqtypes.OrderDirectionBuy
	if dir == liqtypes.OrderDirectionBuy {
		opp = liqtypes.OrderDirectionSell
	}
	rate := w.rateNum[app]
	place := func(a *sim.Acct, d liqtypes.OrderDirection, price sdk.Dec, amt sdkmath.Int, what string) {
		offerDenom, demandDenom := pair.BaseCoinDenom, pair.QuoteCoinDenom
		if d == liqtypes.OrderDirectionBuy {
			offerDenom, demandDenom = pair.QuoteCoinDenom, pair.BaseCoinDenom
		}
		var offer sdkmath.Int
		if !liqSafely(func() {
			base := amm.OfferCoinAmount(amm.OrderDirection(d), price, amt)
			offer = base.Add(sdkmath.NewIntFromBigInt(liqFee(base.BigInt(), rate)))
		}) || !offer.IsPositive() {
			return
		}
		msg := liqtypes.NewMsgLimitOrder(app, a.Addr, pair.Id, d, sdk.NewCoin(offerDenom, offer), demandDenom, price, amt, 10*time.Second)
		st := w.deliver(a, "limit-order", msg, fmt.Sprintf("app=%d pair=%d %s price=%s amt=%s(crowd/%s) offer=%s%s", app, pair.Id, liqDirName(d), price, amt, what, offer, offerDenom))
		if st.OK {
			w.rec.Count("orders_placed/limit/crowd-"+what, 1)
		}
	}
	k := 3 + w.rnd.Intn(3)
	users := append([]*sim.Acct(nil), w.orderers...)
	w.rnd.Shuffle(len(users), func(i, j int) { users[i], users[j] = users[j], users[i] })
	big := int64(50_000 + w.rnd.Intn(200_000))
	total := int64(0)
	tinyAt := w.rnd.Intn(k)
	for i := 0; i < k && i < len(users)-1; i++ {
		amt := big
		what := "big"
		if i == tinyAt {
			amt, what = int64(100+w.rnd.Intn(200)), "tiny"
		} else if w.rnd.Intn(3) == 0 {
			amt = big + int64(w.rnd.Intn(1000))
		}
		total += amt
		place(users[i], dir, ref, sdkmath.NewInt(amt), what)
	}
	var fill int64
	switch w.rnd.Intn(6) {
	case 0, 1, 2:
		fill = int64(101 + w.rnd.Intn(400))
	case 3:
		fill = total / 2
	case 4:
		fill = total - int64(1+w.rnd.Intn(150))
	default:
		fill = int64(100 + w.rnd.Int63n(total))
	}
	cross := ref.Mul(sdk.MustNewDecFromStr("1.02"))
	if opp == liqtypes.OrderDirectionSell {
		cross = ref.Mul(sdk.MustNewDecFromStr("0.98"))
	}
	place(users[len(users)-1], opp, cross, sdkmath.NewInt(fill), "counter")
	w.rec.Count("crowd_ops", 1)
}

func (w *liqWorld) opMarket(a *sim.Acct) {
	pair, ok := w.pickPair()
	if !ok {
		return
	}
	app := pair.AppId
	ref := w.refPrice(pair)
	dir := w.direction(ref)
	class := w.pickClass()
	if class == liqWhole {
		class = liqLarge
	}
	offerDenom, demandDenom := pair.BaseCoinDenom, pair.QuoteCoinDenom
	if dir == liqtypes.OrderDirectionBuy {
		offerDenom, demandDenom = pair.QuoteCoinDenom, pair.BaseCoinDenom
	}
	amt := w.amount(class)
	var offer sdkmath.Int
	rate := w.rateNum[app]
	if !liqSafely(func() {
		maxPrice := ref.Mul(sdk.MustNewDecFromStr("1.1"))
		base := amm.OfferCoinAmount(amm.OrderDirection(dir), maxPrice, amt)
		offer = base.Add(sdkmath.NewIntFromBigInt(liqFee(base.BigInt(), rate)))
		if w.rnd.Intn(25) == 0 {
			offer = offer.QuoRaw(2)
		}
	}) || !offer.IsPositive() {
		return
	}
	life := w.lifespan()
	msg := liqtypes.NewMsgMarketOrder(app, a.Addr, pair.Id, dir, sdk.NewCoin(offerDenom, offer), demandDenom, amt, life)
	st := w.deliver(a, "market-order", msg, fmt.Sprintf("app=%d pair=%d %s amt=%s(%s) offer=%s%s life=%s", app, pair.Id, liqDirName(dir), amt, liqClassName[class], offer, offerDenom, life))
	w.rec.Distinct("market", app, pair.Id, dir, liqClassName[class], life, st.OK)
	if st.OK {
		w.rec.Count("orders_placed/market/"+liqClassName[class], 1)
	}
}

func (w *liqWorld) opMM(a *sim.Acct) {
	pair, ok := w.pickPair()
	if !ok {
		return
	}
	app := pair.AppId
	prec := w.tickPrec[app]
	ref := w.refPrice(pair)
	class := w.pickClass()
	if class == liqWhole || class == liqHuge {
		class = liqLarge
	}
	d := func(s string) sdk.Dec { return sdk.MustNewDecFromStr(s) }
	var maxSell, minSell, maxBuy, minBuy sdk.Dec
	var sellAmt, buyAmt sdkmath.Int
	shape := w.rnd.Intn(6)
	if !liqSafely(func() {
		lo, hi := "0.95", "1.05"
		bhi, slo := "0.995", "1.005"
		switch shape {
		case 1: // crossing: buys above the reference, sells below
			bhi, slo = "1.02", "0.98"
		case 2: // single tick each side
			lo, bhi = "0.99", "0.99"
			hi, slo = "1.01", "1.01"
		case 3: // out of the price-limit range
			lo = "0.5"
		}
		minBuy = amm.PriceToDownTick(ref.Mul(d(lo)), prec)
		maxBuy = amm.PriceToDownTick(ref.Mul(d(bhi)), prec)
		minSell = amm.PriceToDownTick(ref.Mul(d(slo)), prec)
		maxSell = amm.PriceToDownTick(ref.Mul(d(hi)), prec)
		if maxBuy.LT(minBuy) {
			maxBuy = minBuy
		}
		if maxSell.LT(minSell) {
			maxSell = minSell
		}
	}) {
		return
	}
	sellAmt, buyAmt = w.amount(class), w.amount(class)
	switch shape {
	case 4:
		sellAmt = sdk.ZeroInt()
	case 5:
		buyAmt = sdk.ZeroInt()
	}
	if !minBuy.IsPositive() || !minSell.IsPositive() {
		return
	}
	life := w.lifespan()
	if w.rnd.Intn(3) > 0 {
		life = []time.Duration{time.Hour, 24 * time.Hour, 2 * time.Minute}[w.rnd.Intn(3)]
	}
	msg := liqtypes.NewMsgMMOrder(app, a.Addr, pair.Id, maxSell, minSell, sellAmt, maxBuy, minBuy, buyAmt, life)
	st := w.deliver(a, "mm-order", msg, fmt.Sprintf("app=%d pair=%d sell[%s..%s]x%s buy[%s..%s]x%s (%s) life=%s", app, pair.Id, minSell, maxSell, sellAmt, minBuy, maxBuy, buyAmt, liqClassName[class], life))
	w.rec.Distinct("mm", app, pair.Id, shape, liqClassName[class], life, st.OK)
	if st.OK {
		w.rec.Count("orders_placed/mm-batches", 1)
		if app != pair.Id {
			w.rec.Count("mm_orders_placed_app_ne_pair", 1)
		}
	}
}

// opMulti: one atomic transaction with several messages: a buy and a sell limit
// order around the reference price, then either a cancel-all of the signer's
// older orders, or a message that must fail (the whole tx is then rolled back).
func (w *liqWorld) opMulti(a *sim.Acct) {
	pair, ok := w.pickPair()
	if !ok {
		return
	}
	app := pair.AppId
	ref := w.refPrice(pair)
	rate := w.rateNum[app]
	var msgs []sdk.Msg
	var descs []string
	if !liqSafely(func() {
		for i, dir := range []liqtypes.OrderDirection{liqtypes.OrderDirectionBuy, liqtypes.OrderDirectionSell} {
			off := sdk.MustNewDecFromStr([]string{"1.01", "0.99"}[i])
			if w.rnd.Intn(2) == 0 {
				off = sdk.MustNewDecFromStr([]string{"0.97", "1.03"}[i])
			}
			price := ref.Mul(off)
			amt := w.amount([]int{liqTiny, liqSmall, liqTypical, liqTypical, liqLarge}[w.rnd.Intn(5)])
			base := amm.OfferCoinAmount(amm.OrderDirection(dir), price, amt)
			offer := base.Add(sdkmath.NewIntFromBigInt(liqFee(base.BigInt(), rate)))
			od, dd := pair.BaseCoinDenom, pair.QuoteCoinDenom
			if dir == liqtypes.OrderDirectionBuy {
				od, dd = dd, od
			}
			life := w.lifespan()
			msgs = append(msgs, liqtypes.NewMsgLimitOrder(app, a.Addr, pair.Id, dir, sdk.NewCoin(od, offer), dd, price, amt, life))
			descs = append(descs, fmt.Sprintf("limit %s price=%s amt=%s offer=%s%s life=%s", liqDirName(dir), price, amt, offer, od, life))
		}
	}) {
		return
	}
	shape := w.rnd.Intn(4)
	switch shape {
	case 0:
		msgs = append(msgs, liqtypes.NewMsgCancelAllOrders(app, a.Addr, nil))
		descs = append(descs, "cancel-all pairs=[]")
	case 1: // must fail: cancelling an order that was placed in this very transaction's batch / does not exist
		msgs = append(msgs, liqtypes.NewMsgCancelOrder(app, a.Addr, pair.Id, pair.LastOrderId+1))
		descs = append(descs, fmt.Sprintf("cancel id=%d (just placed: same batch, must fail and roll the tx back)", pair.LastOrderId+1))
	case 2:
		msgs = append([]sdk.Msg{liqtypes.NewMsgCancelAllOrders(app, a.Addr, []uint64{pair.Id})}, msgs...)
		descs = append([]string{fmt.Sprintf("cancel-all pairs=[%d]", pair.Id)}, descs...)
	}
	st := &liqStep{Kind: "tx", Op: "multi-msg", Signer: a}
	st.Res = w.c.Deliver(a, msgs...)
	st.OK = st.Res.OK()
	w.rec.Count("msg/multi-msg/attempted", 1)
	outcome := "ok"
	if st.OK {
		w.rec.Count("msg/multi-msg/succeeded", 1)
	} else {
		w.rec.Count("msg/multi-msg/rejected", 1)
		outcome = "rejected: " + liqShort(st.Res.Log)
	}
	st.Desc = fmt.Sprintf("h=%d %s multi-msg app=%d pair=%d [%s] -> %s", w.c.Header.Height, a.Name, app, pair.Id, strings.Join(descs, " ; "), outcome)
	w.pushTrace(st.Desc)
	w.observe(st)
	w.rec.Distinct("multi", app, pair.Id, shape, st.OK)
}

func (w *liqWorld) liveOrders(app uint64) []liqtypes.Order {
	var out []liqtypes.Order
	for _, o := range w.c.App.LiquidityKeeper.GetAllOrders(w.ctx(), app) {
		if !o.Status.ShouldBeDeleted() {
			out = append(out, o)
		}
	}
	return out
}

func (w *liqWorld) opCancel(a *sim.Acct) {
	app := w.apps[w.rnd.Intn(len(w.apps))]
	orders := w.liveOrders(app)
	var own, ownOld []liqtypes.Order
	k := w.c.App.LiquidityKeeper
	for _, o := range orders {
		if o.Orderer == a.Addr.String() {
			own = append(own, o)
			if p, ok := k.GetPair(w.ctx(), app, o.PairId); ok && o.BatchId < p.CurrentBatchId {
				ownOld = append(ownOld, o)
			}
		}
	}
	var pairID, id uint64
	kind := "own"
	switch x := w.rnd.Intn(100); {
	case x < 60 && len(ownOld) > 0:
		o := ownOld[w.rnd.Intn(len(ownOld))]
		pairID, id, kind = o.PairId, o.Id, "own-older-batch"
	case x < 80 && len(own) > 0:
		o := own[w.rnd.Intn(len(own))]
		pairID, id = o.PairId, o.Id
	case x < 92 && len(orders) > 0:
		o := orders[w.rnd.Intn(len(orders))]
		pairID, id, kind = o.PairId, o.Id, "any"
	default:
		pairID, id, kind = uint64(1+w.rnd.Intn(4)), uint64(1+w.rnd.Intn(500)), "random-id"
	}
	st := w.deliver(a, "cancel-order", liqtypes.NewMsgCancelOrder(app, a.Addr, pairID, id), fmt.Sprintf("app=%d pair=%d id=%d (%s)", app, pairID, id, kind))
	w.rec.Distinct("cancel", app, pairID, kind, st.OK)
}

func (w *liqWorld) opCancelAll(a *sim.Acct) {
	app := w.apps[w.rnd.Intn(len(w.apps))]
	var ids []uint64
	switch w.rnd.Intn(4) {
	case 0:
	case 1:
		ids = []uint64{uint64(1 + w.rnd.Intn(4))}
	case 2:
		ids = []uint64{uint64(1 + w.rnd.Intn(4)), uint64(1 + w.rnd.Intn(4))}
	case 3:
		ids = []uint64{uint64(1 + w.rnd.Intn(6))}
	}
	st := w.deliver(a, "cancel-all-orders", liqtypes.NewMsgCancelAllOrders(app, a.Addr, ids), fmt.Sprintf("app=%d pairs=%v", app, ids))
	w.rec.Distinct("cancel-all", app, fmt.Sprint(ids), st.OK)
}

func (w *liqWorld) opCancelMM(a *sim.Acct) {
	// prefer a pair where the signer has live MM orders
	type ap struct{ app, pair uint64 }
	var cands []ap
	for _, app := range w.apps {
		for _, o := range w.liveOrders(app) {
			if o.Type == liqtypes.OrderTypeMM && o.Orderer == a.Addr.String() {
				cands = append(cands, ap{app, o.PairId})
			}
		}
	}
	var x ap
	if len(cands) > 0 && w.rnd.Intn(10) < 8 {
		x = cands[w.rnd.Intn(len(cands))]
	} else {
		x = ap{w.apps[w.rnd.Intn(3)], uint64(1 + w.rnd.Intn(4))}
	}
	st := w.deliver(a, "cancel-mm-order", liqtypes.NewMsgCancelMMOrder(x.app, a.Addr, x.pair), fmt.Sprintf("app=%d pair=%d", x.app, x.pair))
	w.rec.Distinct("cancel-mm", x.app, x.pair, st.OK)
}

// ---- liquidity providers

func (w *liqWorld) pickPool(activeOnly bool) (liqtypes.Pool, bool) {
	app := w.apps[w.rnd.Intn(len(w.apps))]
	pools := w.c.App.LiquidityKeeper.GetAllPools(w.ctx(), app)
	var c []liqtypes.Pool
	for _, p := range pools {
		if !activeOnly || !p.Disabled {
			c = append(c, p)
		}
	}
	if len(c) == 0 {
		return liqtypes.Pool{}, false
	}
	return c[w.rnd.Intn(len(c))], true
}

func (w *liqWorld) depositCoins(pool liqtypes.Pool, class int) sdk.Coins {
	k := w.c.App.LiquidityKeeper
	pair, _ := k.GetPair(w.ctx(), pool.AppId, pool.PairId)
	rx, ry := k.GetPoolBalances(w.ctx(), pool)
	y := w.amount(class)
	x := y
	if ry.Amount.IsPositive() && rx.Amount.IsPositive() && w.rnd.Intn(4) > 0 {
		liqSafely(func() { x = rx.Amount.ToLegacyDec().MulInt(y).QuoInt(ry.Amount).Ceil().TruncateInt() })
	}
	if !x.IsPositive() {
		x = sdk.OneInt()
	}
	coins := sdk.NewCoins(sdk.NewCoin(pair.QuoteCoinDenom, x), sdk.NewCoin(pair.BaseCoinDenom, y))
	if w.rnd.Intn(40) == 0 {
		coins = sdk.NewCoins(sdk.NewCoin(pair.BaseCoinDenom, y))
	}
	return coins
}

func (w *liqWorld) lpClass() int {
	c := w.pickClass()
	if c == liqWhole || c == liqBelowMin {
		c = liqTypical
	}
	return c
}

func (w *liqWorld) opDeposit(a *sim.Acct, andFarm bool) {
	pool, ok := w.pickPool(w.rnd.Intn(10) > 0)
	if !ok {
		return
	}
	class := w.lpClass()
	coins := w.depositCoins(pool, class)
	if andFarm {
		st := w.deliver(a, "deposit-and-farm", liqtypes.NewMsgDepositAndFarm(pool.AppId, a.Addr, pool.Id, coins), fmt.Sprintf("app=%d pool=%d coins=%s (%s)", pool.AppId, pool.Id, coins, liqClassName[class]))
		w.rec.Distinct("deposit-and-farm", pool.AppId, pool.Id, liqClassName[class], st.OK)
		return
	}
	st := w.deliver(a, "deposit", liqtypes.NewMsgDeposit(pool.AppId, a.Addr, pool.Id, coins), fmt.Sprintf("app=%d pool=%d coins=%s (%s)", pool.AppId, pool.Id, coins, liqClassName[class]))
	w.rec.Distinct("deposit", pool.AppId, pool.Id, liqClassName[class], st.OK)
}

// fraction of an amount: tiny / part / whole / more than available
func (w *liqWorld) fraction(bal sdkmath.Int) (sdkmath.Int, string) {
	switch x := w.rnd.Intn(100); {
	case x < 15:
		return sdkmath.MinInt(bal, sdkmath.NewInt(1+w.rnd.Int63n(1000))), "tiny"
	case x < 65:
		return bal.MulRaw(1 + w.rnd.Int63n(98)).QuoRaw(100), "part"
	case x < 93:
		return bal, "whole"
	default:
		return bal.AddRaw(1 + w.rnd.Int63n(1000)), "more-than-held"
	}
}

func (w *liqWorld) opWithdraw(a *sim.Acct) {
	pool, ok := w.pickPool(w.rnd.Intn(10) > 0)
	if !ok {
		return
	}
	if w.rnd.Intn(100) < 15 {
		// hostile: the message names this pool but offers the pool coin of ANOTHER pool the sender holds (another pool of
		// the same app, or the pool with the same number in another app); a fraction of the balance, or exactly as many
		// coins as the named pool has outstanding
		var others []liqtypes.Pool
		for _, app := range w.apps {
			for _, o := range w.c.App.LiquidityKeeper.GetAllPools(w.ctx(), app) {
				if o.PoolCoinDenom != pool.PoolCoinDenom && w.bal(a.Addr, o.PoolCoinDenom).IsPositive() {
					others = append(others, o)
				}
			}
		}
		if len(others) > 0 {
			o := others[w.rnd.Intn(len(others))]
			for _, x := range others {
				if x.Id == pool.Id && x.AppId != pool.AppId && w.rnd.Intn(2) == 0 {
					o = x
				}
			}
			bal := w.bal(a.Addr, o.PoolCoinDenom)
			amt, cls := w.fraction(bal)
			if sup := w.c.App.BankKeeper.GetSupply(w.ctx(), pool.PoolCoinDenom).Amount; sup.IsPositive() && sup.LTE(bal) && w.rnd.Intn(2) == 0 {
				amt, cls = sup, "the-named-pools-whole-supply"
			}
			if amt.IsPositive() {
				rel := "same-app"
				if o.AppId != pool.AppId {
					rel = "other-app"
					if o.Id == pool.Id {
						rel = "other-app-same-pool-number"
					}
				}
				st := w.deliver(a, "withdraw-foreign-coin", liqtypes.NewMsgWithdraw(pool.AppId, a.Addr, pool.Id, sdk.NewCoin(o.PoolCoinDenom, amt)), fmt.Sprintf("app=%d pool=%d offers %s%s (%s, %s)", pool.AppId, pool.Id, amt, o.PoolCoinDenom, rel, cls))
				w.rec.Distinct("withdraw-foreign-coin", rel, cls, st.OK)
				w.rec.Count("withdraw_with_a_foreign_pool_coin_"+rel, 1)
				return
			}
		}
	}
	bal := w.bal(a.Addr, pool.PoolCoinDenom)
	amt, cls := w.fraction(bal)
	if !amt.IsPositive() {
		return
	}
	st := w.deliver(a, "withdraw", liqtypes.NewMsgWithdraw(pool.AppId, a.Addr, pool.Id, sdk.NewCoin(pool.PoolCoinDenom, amt)), fmt.Sprintf("app=%d pool=%d poolcoin=%s (%s of %s)", pool.AppId, pool.Id, amt, cls, bal))
	w.rec.Distinct("withdraw", pool.AppId, pool.Id, cls, st.OK)
}

func (w *liqWorld) opFarm(a *sim.Acct) {
	pool, ok := w.pickPool(false)
	if !ok {
		return
	}
	bal := w.bal(a.Addr, pool.PoolCoinDenom)
	amt, cls := w.fraction(bal)
	if !amt.IsPositive() {
		return
	}
	st := w.deliver(a, "farm", liqtypes.NewMsgFarm(pool.AppId, pool.Id, a.Addr, sdk.NewCoin(pool.PoolCoinDenom, amt)), fmt.Sprintf("app=%d pool=%d poolcoin=%s (%s of %s)", pool.AppId, pool.Id, amt, cls, bal))
	w.rec.Distinct("farm", pool.AppId, pool.Id, cls, st.OK)
}

func (w *liqWorld) farmed(a *sim.Acct, pool liqtypes.Pool) (active, queued sdkmath.Int) {
	k := w.c.App.LiquidityKeeper
	active, queued = sdk.ZeroInt(), sdk.ZeroInt()
	if af, ok := k.GetActiveFarmer(w.ctx(), pool.AppId, pool.Id, a.Addr); ok {
		active = af.FarmedPoolCoin.Amount
	}
	if qf, ok := k.GetQueuedFarmer(w.ctx(), pool.AppId, pool.Id, a.Addr); ok {
		for _, q := range qf.QueudCoins {
			queued = queued.Add(q.FarmedPoolCoin.Amount)
		}
	}
	return
}

func (w *liqWorld) opUnfarm(a *sim.Acct, andWithdraw bool) {
	pool, ok := w.pickPool(false)
	if !ok {
		return
	}
	act, q := w.farmed(a, pool)
	total := act.Add(q)
	amt, cls := w.fraction(total)
	if !amt.IsPositive() {
		if w.rnd.Intn(5) > 0 {
			return
		}
		amt, cls = sdkmath.NewInt(1000), "nothing-farmed"
	}
	shape := fmt.Sprintf("%s/active=%v/queued=%v", cls, act.IsPositive(), q.IsPositive())
	if total.IsPositive() && w.rnd.Intn(100) < 12 {
		// hostile: the sender farms in this pool but names the pool coin of ANOTHER pool (another app's pool with the same
		// number if there is one, else any other pool) that other farmers have put into the module account
		var alt []liqtypes.Pool
		for _, app := range w.apps {
			for _, o := range w.c.App.LiquidityKeeper.GetAllPools(w.ctx(), app) {
				if o.PoolCoinDenom != pool.PoolCoinDenom {
					alt = append(alt, o)
				}
			}
		}
		if len(alt) > 0 {
			o := alt[w.rnd.Intn(len(alt))]
			for _, x := range alt {
				if x.Id == pool.Id && x.AppId != pool.AppId {
					o = x
				}
			}
			rel := "other-pool"
			if o.Id == pool.Id {
				rel = "other-app-same-pool-number"
			}
			op := "unfarm-foreign-coin"
			var msg sdk.Msg = liqtypes.NewMsgUnfarm(pool.AppId, pool.Id, a.Addr, sdk.NewCoin(o.PoolCoinDenom, amt))
			if andWithdraw {
				op, msg = "unfarm-and-withdraw-foreign-coin", liqtypes.NewMsgUnfarmAndWithdraw(pool.AppId, pool.Id, a.Addr, sdk.NewCoin(o.PoolCoinDenom, amt))
			}
			st := w.deliver(a, op, msg, fmt.Sprintf("app=%d pool=%d names %s%s (%s, %s)", pool.AppId, pool.Id, amt, o.PoolCoinDenom, rel, cls))
			w.rec.Distinct(op, rel, cls, st.OK)
			w.rec.Count("unfarm_naming_a_foreign_pool_coin_"+rel, 1)
			return
		}
	}
	if andWithdraw {
		st := w.deliver(a, "unfarm-and-withdraw", liqtypes.NewMsgUnfarmAndWithdraw(pool.AppId, pool.Id, a.Addr, sdk.NewCoin(pool.PoolCoinDenom, amt)), fmt.Sprintf("app=%d pool=%d poolcoin=%s (%s; active=%s queued=%s)", pool.AppId, pool.Id, amt, cls, act, q))
		w.rec.Distinct("unfarm-and-withdraw", pool.AppId, pool.Id, shape, st.OK)
		return
	}
	st := w.deliver(a, "unfarm", liqtypes.NewMsgUnfarm(pool.AppId, pool.Id, a.Addr, sdk.NewCoin(pool.PoolCoinDenom, amt)), fmt.Sprintf("app=%d pool=%d poolcoin=%s (%s; active=%s queued=%s)", pool.AppId, pool.Id, amt, cls, act, q))
	w.rec.Distinct("unfarm", pool.AppId, pool.Id, shape, st.OK)
}

func (w *liqWorld) opCreatePool(a *sim.Acct, ranged bool) {
	pair, ok := w.pickPair()
	if !ok {
		return
	}
	ref := w.refPrice(pair)
	y := w.amount([]int{liqTypical, liqTypical, liqLarge, liqSmall, liqHuge}[w.rnd.Intn(5)])
	var x sdkmath.Int
	if !liqSafely(func() { x = ref.MulInt(y).TruncateInt() }) || !x.IsPositive() {
		return
	}
	coins := sdk.NewCoins(sdk.NewCoin(pair.QuoteCoinDenom, x), sdk.NewCoin(pair.BaseCoinDenom, y))
	if !ranged {
		st := w.deliver(a, "create-pool", liqtypes.NewMsgCreatePool(pair.AppId, a.Addr, pair.Id, coins), fmt.Sprintf("app=%d pair=%d coins=%s", pair.AppId, pair.Id, coins))
		w.rec.Distinct("create-pool", pair.AppId, pair.Id, st.OK)
		return
	}
	prec := w.tickPrec[pair.AppId]
	var lo, hi, init sdk.Dec
	shape := w.rnd.Intn(5)
	if !liqSafely(func() {
		d := func(s string) sdk.Dec { return sdk.MustNewDecFromStr(s) }
		lo = amm.PriceToDownTick(ref.Mul(d([]string{"0.8", "0.95", "0.5", "0.99", "0.9"}[shape])), prec)
		hi = amm.PriceToDownTick(ref.Mul(d([]string{"1.25", "1.05", "2", "1.01", "1.1"}[shape])), prec)
		init = amm.PriceToDownTick(ref, prec)
		switch w.rnd.Intn(8) {
		case 0:
			init = lo
		case 1:
			init = hi
		}
	}) {
		return
	}
	st := w.deliver(a, "create-ranged-pool", liqtypes.NewMsgCreateRangedPool(pair.AppId, a.Addr, pair.Id, coins, lo, hi, init), fmt.Sprintf("app=%d pair=%d coins=%s range=[%s,%s] init=%s", pair.AppId, pair.Id, coins, lo, hi, init))
	w.rec.Distinct("create-ranged-pool", pair.AppId, pair.Id, shape, st.OK)
}

// opDrain: every liquidity provider unfarms and withdraws everything it holds
// of one pool, so that the pool-coin supply reaches zero at the next batch.
func (w *liqWorld) opDrain() {
	pool, ok := w.pickPool(true)
	if !ok {
		return
	}
	w.rec.Count("pool_drains_attempted", 1)
	// somebody has sent the pool's reserve account a coin that is not one of the pool's two (an ordinary bank send)
	if w.rnd.Intn(2) == 0 {
		if pair, found := w.c.App.LiquidityKeeper.GetPair(w.ctx(), pool.AppId, pool.PairId); found {
			for _, d := range w.denoms {
				if d != pair.BaseCoinDenom && d != pair.QuoteCoinDenom {
					a := w.lps[w.rnd.Intn(len(w.lps))]
					amt := sdk.NewCoin(d, sdkmath.NewInt(int64(1+w.rnd.Intn(5000))))
					w.deliver(a, "bank-send-to-reserve", banktypes.NewMsgSend(a.Addr, pool.GetReserveAddress(), sdk.NewCoins(amt)), fmt.Sprintf("stray coin %s to the reserve of pool %d (app %d)", amt, pool.Id, pool.AppId))
					break
				}
			}
		}
	}
	for _, a := range w.lps {
		act, q := w.farmed(a, pool)
		if tot := act.Add(q); tot.IsPositive() {
			w.deliver(a, "unfarm", liqtypes.NewMsgUnfarm(pool.AppId, pool.Id, a.Addr, sdk.NewCoin(pool.PoolCoinDenom, tot)), fmt.Sprintf("app=%d pool=%d poolcoin=%s (drain)", pool.AppId, pool.Id, tot))
		}
		if bal := w.bal(a.Addr, pool.PoolCoinDenom); bal.IsPositive() {
			w.deliver(a, "withdraw", liqtypes.NewMsgWithdraw(pool.AppId, a.Addr, pool.Id, sdk.NewCoin(pool.PoolCoinDenom, bal)), fmt.Sprintf("app=%d pool=%d poolcoin=%s (drain)", pool.AppId, pool.Id, bal))
		}
	}
}

// opGovFee: governance changes an app's swap-fee rate (the liquidity generic-params update) while orders are live.
// Recorded as an environment action when a tape is attached.
func (w *liqWorld) opGovFee() {
	app := w.apps[w.rnd.Intn(len(w.apps))]
	rates := []string{"0", "0.003", "0.05", "0.01", "0.1", "0.0005"}
	nr := rates[w.rnd.Intn(len(rates))]
	old := w.cfg.Fee[app-1]
	if nr == old {
		return
	}
	err := c16Env(w.c, "liq-generic-params", fmt.Sprint(app), "SwapFeeRate", nr)
	outcome := "ok"
	if err != nil {
		outcome = "refused: " + err.Error()
	} else {
		w.cfg.Fee[app-1] = nr
		w.rateNum[app] = sdk.MustNewDecFromStr(nr).BigInt()
		w.rec.Count("gov_swap_fee_rate_changes", 1)
	}
	st := &liqStep{Kind: "gov", Op: "gov-swap-fee-rate"}
	st.Desc = fmt.Sprintf("h=%d governance: app %d SwapFeeRate %s -> %s: %s", w.c.Header.Height, app, old, nr, outcome)
	w.pushTrace(st.Desc)
	w.observe(st)
}

func (w *liqWorld) randomOp() {
	r := w.rnd
	if w.feeGov && r.Intn(100) < 3 {
		w.opGovFee()
		return
	}
	if r.Intn(100) < 30 { // liquidity provider action
		a := w.lps[r.Intn(len(w.lps))]
		switch x := r.Intn(100); {
		case x < 22:
			w.opDeposit(a, false)
		case x < 36:
			w.opWithdraw(a)
		case x < 52:
			w.opFarm(a)
		case x < 62:
			w.opUnfarm(a, false)
		case x < 74:
			w.opDeposit(a, true)
		case x < 84:
			w.opUnfarm(a, true)
		case x < 89:
			w.opCreatePool(a, false)
		case x < 95:
			w.opCreatePool(a, true)
		case x < 97:
			denoms := append([]string(nil), w.denoms...)
			r.Shuffle(len(denoms), func(i, j int) { denoms[i], denoms[j] = denoms[j], denoms[i] })
			app := w.apps[r.Intn(3)]
			st := w.deliver(a, "create-pair", liqtypes.NewMsgCreatePair(app, a.Addr, denoms[0], denoms[1]), fmt.Sprintf("app=%d %s/%s", app, denoms[0], denoms[1]))
			w.rec.Distinct("create-pair", app, denoms[0], denoms[1], st.OK)
		default:
			w.opDrain()
		}
		return
	}
	a := w.orderers[r.Intn(len(w.orderers))]
	switch x := r.Intn(100); {
	case x < 31:
		w.opLimit(a)
	case x < 36:
		w.opCrowd()
	case x < 40:
		w.opMulti(a)
	case x < 52:
		w.opMarket(a)
	case x < 70:
		w.opMM(a)
	case x < 84:
		w.opCancel(a)
	case x < 90:
		w.opCancelAll(a)
	default:
		w.opCancelMM(a)
	}
}

func (w *liqWorld) blockGap() time.Duration {
	switch x := w.rnd.Intn(100); {
	case x < 70:
		return 5 * time.Second
	case x < 84:
		return 7 * time.Second
	case x < 93:
		return time.Minute
	case x < 97:
		return 25 * time.Minute
	default:
		return 13 * time.Hour
	}
}

// liqRun drives one chain instance: nBlocks blocks with random transactions,
// then a wind-down in which every order is cancelled or left to expire.
func liqRun(t *testing.T, rec *ev.Rec, rnd *rand.Rand, run, nBlocks int, mon liqMonitor) {
	liqRunOpts(t, rec, rnd, run, nBlocks, mon, false)
}

func liqRunOpts(t *testing.T, rec *ev.Rec, rnd *rand.Rand, run, nBlocks int, mon liqMonitor, feeGov bool) {
	w := liqNewWorld(t, rec, rnd, run, mon)
	w.feeGov = feeGov
	defer w.c.Close()
	for b := 0; b < nBlocks; b++ {
		ntx := []int{0, 1, 2, 3, 3, 4, 5, 6}[rnd.Intn(8)]
		for i := 0; i < ntx; i++ {
			w.randomOp()
		}
		w.nextBlock(w.blockGap())
	}
	// wind-down: owners cancel, the rest expires
	for i := 0; i < 4; i++ {
		for _, a := range w.orderers {
			for _, app := range w.apps {
				w.deliver(a, "cancel-all-orders", liqtypes.NewMsgCancelAllOrders(app, a.Addr, nil), fmt.Sprintf("app=%d pairs=[] (wind-down)", app))
			}
		}
		w.nextBlock(9 * time.Hour)
	}
	for i := 0; i < 4; i++ {
		w.nextBlock(9 * time.Hour)
	}
	live := 0
	for _, app := range w.apps {
		live += len(w.liveOrders(app))
	}
	rec.Count("wind_down_runs", 1)
	rec.Count("live_orders_left_after_wind_down", int64(live))
	if len(w.panics) > 0 {
		rec.Note("panic escaped Begin/EndBlock: " + strings.Join(w.panics, " | "))
	}
	rec.Count("runs", 1)
	rec.Count("txs", w.c.Txs)
	if run == 0 && ev.ShardNo() == 0 {
		rec.Sample(map[string]interface{}{"config": fmt.Sprintf("fee=%v batch=%v tick=%v", w.cfg.Fee, w.cfg.Batch, w.cfg.Tick), "last_ops": append([]string(nil), w.trace...)})
	}
}

func liqSortedKeys(m map[string]*big.Int) []string {
	ks := make([]string, 0, len(m))
	for k := range m {
		ks = append(ks, k)
	}
	sort.Strings(ks)
	return ks
}

func liqRule() string {
	return "seeded random multi-actor histories on a real app instance (3 apps x 4 pairs created in different orders so app id != pair id != pool id; swap fee rates {0,0.003,0.05}, batch size 1-3, tick precision 2-4): signed txs of all 15 liquidity message kinds by 3 liquidity providers and 5 dedicated orderers, amounts by class (below-min/tiny/small/typical/large/huge/whole balance), prices around last/pool price so that orders cross, lifespans 0..max+1s, block gaps 5s..13h, pool drains, wind-down; one oracle evaluation per law per observation point (after every tx, every EndBlock+Commit, every BeginBlock); distinct = (message kind, app, pair/pool, input class, outcome) tuples and observed order life-cycle shapes"
}
