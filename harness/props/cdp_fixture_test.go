package props

import (
	"fmt"
	"math/big"
	"testing"

	sdk "github.com/cosmos/cosmos-sdk/types"

	"github.com/comdex-official/comdex/app/wasm/bindings"
	assettypes "github.com/comdex-official/comdex/x/asset/types"
	auctionsV2types "github.com/comdex-official/comdex/x/auctionsV2/types"
	liqV2types "github.com/comdex-official/comdex/x/liquidationsV2/types"
	markettypes "github.com/comdex-official/comdex/x/market/types"
	tokenminttypes "github.com/comdex-official/comdex/x/tokenmint/types"

	"verif/sim"
)

// ---- CDP universe: assets, apps, pairs, products (extended pair vaults), fee
// collector / locker / liquidation / auction tables for both generations ----

type uAsset struct {
	ID     uint64
	Name   string
	Denom  string
	Dec    *big.Int
	Oracle bool
	Mint   bool
}

type uProduct struct {
	ID     uint64
	App    uint64
	PairID uint64
	In     *uAsset
	Out    *uAsset
	P      bindings.MsgAddExtendedPairsVault
}

const (
	appCswap   = 1
	appHarbor  = 2 // CDP app, generation-1 liquidation + auction
	appCommodo = 3 // lend app
	appBeacon  = 4 // CDP app, generation-2 liquidation + auction
)

type cdpU struct {
	c         *sim.Chain
	assets    []*uAsset
	byDenom   map[string]*uAsset
	byID      map[uint64]*uAsset
	products  []*uProduct
	prodByID  map[uint64]*uProduct
	cdpApps   []uint64
	aucApps   []uint64 // apps with a generation-2 liquidation whitelisting (Dutch auctions can be opened for them)
	variant   int
	denoms    []string // when set, replaces cdpDenoms in snapshots (views over other universes)
	extraMods []string
}

func dec(s string) sdk.Dec { return sdk.MustNewDecFromStr(s) }

func pow10(n int) *big.Int { return new(big.Int).Exp(big.NewInt(10), big.NewInt(int64(n)), nil) }

// cdpBalances are the genesis balances of every user account (collateral
// denoms only: debt denoms are never minted by the harness).
func cdpBalances() sdk.Coins {
	huge, _ := sdk.NewIntFromString("1000000000000000000000000000000") // 1e30
	return sdk.NewCoins(
		sdk.NewCoin("uatom", sdk.NewInt(1e15)),
		sdk.NewCoin("weth-wei", huge),
		sdk.NewCoin("wbtc-sat", sdk.NewInt(1e17)),
		sdk.NewCoin("uusdc", sdk.NewInt(1e15)),
		sdk.NewCoin("adai", huge),
		sdk.NewCoin("uharbor", sdk.NewInt(1e15)),
	)
}

type cdpOpts struct {
	variant int // selects fee/ratio configuration
	chainID string
	naccts  int
}

// newCDP builds a chain with the CDP universe. Deterministic in (variant).
func newCDP(t *testing.T, o cdpOpts) *cdpU {
	if o.naccts == 0 {
		o.naccts = 8
	}
	c := sim.New(sim.Options{ChainID: o.chainID, NAccts: o.naccts, Balances: cdpBalances()})
	u := &cdpU{c: c, byDenom: map[string]*uAsset{}, byID: map[uint64]*uAsset{}, prodByID: map[uint64]*uProduct{}, variant: o.variant}
	ctx := c.Ctx()
	ak := c.App.AssetKeeper
	// direct price feeder regime: the oracle validation flag is on and no
	// band request is configured, so the market begin blocker leaves prices alone
	c.App.BandoracleKeeper.SetOracleValidationResult(ctx, true)

	for _, a := range []struct {
		name, denom string
		dec         int
		oracle, mnt bool
	}{
		{"CMDX", "ucmdx", 6, true, false},
		{"CMST", "ucmst", 6, true, true},
		{"HARBOR", "uharbor", 6, true, true},
		{"ATOM", "uatom", 6, true, false},
		{"WETH", "weth-wei", 18, true, false},
		{"WBTC", "wbtc-sat", 8, true, false},
		{"USDC", "uusdc", 6, true, false},
		{"DAI", "adai", 18, true, false},
		{"CMTW", "ucmtw", 12, true, true}, // a second mintable debt asset with 12 decimals
	} {
		must(t, ak.AddAssetRecords(ctx, assettypes.Asset{Name: a.name, Denom: a.denom, Decimals: sdk.NewIntFromBigInt(pow10(a.dec)), IsOnChain: true, IsOraclePriceRequired: a.oracle, IsCdpMintable: a.mnt}))
		id, _ := ak.GetAssetForDenom(ctx, a.denom)
		ua := &uAsset{ID: id.Id, Name: a.name, Denom: a.denom, Dec: pow10(a.dec), Oracle: a.oracle, Mint: a.mnt}
		u.assets = append(u.assets, ua)
		u.byDenom[a.denom] = ua
		u.byID[ua.ID] = ua
	}
	for i, ap := range [][2]string{{"cswap", "cswap"}, {"harbor", "hbr"}, {"commodo", "cmdo"}, {"beacon", "bcn"}} {
		ad := assettypes.AppData{Name: ap[0], ShortName: ap[1], MinGovDeposit: sdk.ZeroInt(), GovTimeInSeconds: 0}
		if i == 1 || i == 3 { // the CDP apps have a governance token minted through tokenmint (needed by surplus / debt auctions)
			ad.GenesisToken = []assettypes.MintGenesisToken{{AssetId: u.byDenom["uharbor"].ID, GenesisSupply: sdk.NewInt(1_000_000_000_000), IsGovToken: true, Recipient: c.Accts[0].Addr.String()}}
		}
		must(t, ak.AddAppRecords(ctx, ad))
	}
	u.cdpApps = []uint64{appHarbor, appBeacon}
	for _, app := range u.cdpApps {
		if res := c.Deliver(c.Accts[0], &tokenminttypes.MsgMintNewTokensRequest{From: c.Accts[0].Addr.String(), AppId: app, AssetId: u.byDenom["uharbor"].ID}); !res.OK() {
			t.Fatalf("tokenmint genesis mint failed: %s", res.Log)
		}
	}

	// initial prices (6-decimals USD)
	for denom, p := range map[string]uint64{"ucmdx": 2_000_000, "ucmst": 1_000_000, "uharbor": 500_000, "uatom": 10_000_000, "weth-wei": 2_000_000_000, "wbtc-sat": 30_000_000_000, "uusdc": 1_000_000, "adai": 1_000_000, "ucmtw": 1_000_000} {
		u.setPrice(denom, p, true)
	}

	// pairs (collateral -> debt)
	pairID := map[string]uint64{}
	addPair := func(in, out string) uint64 {
		must(t, ak.AddPairsRecords(ctx, assettypes.Pair{AssetIn: u.byDenom[in].ID, AssetOut: u.byDenom[out].ID}))
		id := ak.GetPairID(ctx)
		pairID[in+">"+out] = id
		return id
	}
	for _, p := range [][2]string{{"ucmdx", "ucmst"}, {"uatom", "ucmst"}, {"weth-wei", "ucmst"}, {"wbtc-sat", "ucmst"}, {"uusdc", "ucmst"}, {"adai", "ucmst"}, {"uatom", "ucmtw"}, {"uusdc", "ucmtw"}} {
		addPair(p[0], p[1])
	}

	// products: fee / ratio configurations depend on the variant
	feeSets := [][3]string{ // drawdown, stability, closing
		{"0.01", "0.01", "0"},
		{"0", "0", "0"},
		{"0.005", "0.25", "0.01"},
		{"0", "0.1", "0.02"},
		{"0.05", "0", "0.005"},
	}
	minCrs := []string{"1.5", "1.0", "2.3", "1.2"}
	n := 0
	addProduct := func(app uint64, in, out, name string, stable bool, oraclePriceOut bool) {
		fs := feeSets[(n+o.variant)%len(feeSets)]
		mcr := minCrs[(n+o.variant)%len(minCrs)]
		n++
		floor := sdk.NewInt(1_000_000)
		if u.byDenom[out].Dec.Cmp(pow10(12)) == 0 {
			floor = sdk.NewIntFromBigInt(pow10(12))
		}
		ceil := floor.MulRaw(1_000_000_000)
		if (n+o.variant)%4 == 0 {
			ceil = floor.MulRaw(5_000) // a low ceiling that the workload reaches
		}
		m := bindings.MsgAddExtendedPairsVault{
			AppID: app, PairID: pairID[in+">"+out], StabilityFee: dec(fs[1]), ClosingFee: dec(fs[2]), LiquidationPenalty: dec("0.12"),
			DrawDownFee: dec(fs[0]), IsVaultActive: true, DebtCeiling: ceil, DebtFloor: floor, IsStableMintVault: stable, MinCr: dec(mcr),
			PairName: name, AssetOutOraclePrice: oraclePriceOut, AssetOutPrice: 1_000_000, MinUsdValueLeft: 100_000,
		}
		if !oraclePriceOut {
			// fixed debt prices at, above and below par (a non-par price makes amount*price/decimals fractional)
			m.AssetOutPrice = []uint64{1_000_000, 1_010_000, 999_999}[(n+o.variant)%3]
		}
		if stable {
			m.StabilityFee, m.ClosingFee, m.MinCr = dec("0"), dec("0"), dec("1")
			m.DebtFloor = sdk.NewInt(1000)
			if u.byDenom[out].Dec.Cmp(pow10(12)) == 0 {
				m.DebtFloor = sdk.NewInt(1_000_000_000)
			}
			m.DebtCeiling = m.DebtFloor.MulRaw(1_000_000_000_000)
		}
		must(t, c.Gov(bindings.ComdexMessages{MsgAddExtendedPairsVault: &m}))
		id := ak.GetPairsVaultID(ctx)
		p := &uProduct{ID: id, App: app, PairID: m.PairID, In: u.byDenom[in], Out: u.byDenom[out], P: m}
		u.products = append(u.products, p)
		u.prodByID[id] = p
	}
	for _, app := range u.cdpApps {
		addProduct(app, "ucmdx", "ucmst", "CMDX-A", false, true)
		addProduct(app, "uatom", "ucmst", "ATOM-A", false, true)
		addProduct(app, "weth-wei", "ucmst", "WETH-A", false, false)
		addProduct(app, "wbtc-sat", "ucmst", "WBTC-A", false, true)
		addProduct(app, "uatom", "ucmtw", "ATOM-T", false, (o.variant+int(app))%2 == 0)
		addProduct(app, "uusdc", "ucmst", "USDC-PSM", true, true)
		addProduct(app, "adai", "ucmst", "DAI-PSM", true, true)
		addProduct(app, "uusdc", "ucmtw", "USDC-PSMT", true, true)
	}

	// vault interest, fee collector, lockers, liquidation + auctions
	for _, app := range u.cdpApps {
		must(t, c.Gov(bindings.ComdexMessages{MsgWhitelistAppIDVaultInterest: &bindings.MsgWhitelistAppIDVaultInterest{AppID: app}}))
		for _, debt := range []string{"ucmst", "ucmtw"} {
			lsr := []string{"0.1", "0", "0.3"}[(o.variant+int(app))%3]
			lot := sdk.NewInt(2_000_000)
			if debt == "ucmtw" {
				lot = sdk.NewIntFromBigInt(pow10(12)).MulRaw(2)
			}
			must(t, c.Gov(bindings.ComdexMessages{MsgSetCollectorLookupTable: &bindings.MsgSetCollectorLookupTable{
				AppID: app, CollectorAssetID: u.byDenom[debt].ID, SecondaryAssetID: u.byDenom["uharbor"].ID,
				SurplusThreshold: lot.MulRaw(10), DebtThreshold: lot.MulRaw(2), LockerSavingRate: dec(lsr), LotSize: lot, BidFactor: dec("0.01"), DebtLotSize: lot}}))
			// auction flags: surplus or debt auctions (never both: the collector refuses that), in a quarter of the
			// variants neither; the distributor flag only goes with "no surplus auctions"; the oracle-price flag of the
			// mapping is read by the generation-1 hooks only
			surplus, debtAuc := (o.variant+int(app))%2 == 0, (o.variant+int(app))%2 == 1
			if (o.variant/2+int(app))%4 == 3 {
				surplus, debtAuc = false, false
			}
			must(t, c.Gov(bindings.ComdexMessages{MsgSetAuctionMappingForApp: &bindings.MsgSetAuctionMappingForApp{
				AppID: app, AssetIDs: u.byDenom[debt].ID, IsSurplusAuctions: surplus, IsDebtAuctions: debtAuc, IsDistributor: !surplus && (o.variant/4)%2 == 1,
				AssetOutOraclePrices: o.variant%3 == 0, AssetOutPrices: 1_000_000}}))
			must(t, c.Gov(bindings.ComdexMessages{MsgWhiteListAssetLocker: &bindings.MsgWhiteListAssetLocker{AppID: app, AssetID: u.byDenom[debt].ID}}))
			must(t, c.Gov(bindings.ComdexMessages{MsgWhitelistAppIDLockerRewards: &bindings.MsgWhitelistAppIDLockerRewards{AppID: app, AssetID: u.byDenom[debt].ID}}))
		}
	}
	// emergency shutdown: trigger parameters of both CDP apps (target in the governance token, cool-off, the fixed
	// redemption rates of the debt assets and of the stable collateral assets)
	for _, app := range u.cdpApps {
		must(t, c.Gov(bindings.ComdexMessages{MsgAddESMTriggerParams: &bindings.MsgAddESMTriggerParams{AppID: app, TargetValue: sdk.NewCoin("uharbor", sdk.NewInt(50_000_000)), CoolOffPeriod: 3600,
			AssetID: []uint64{u.byDenom["ucmst"].ID, u.byDenom["ucmtw"].ID, u.byDenom["uusdc"].ID, u.byDenom["adai"].ID}, Rates: []uint64{1_000_000, 1_000_000, 1_000_000, 1_000_000}}}))
	}
	// generation 1: harbor
	must(t, c.Gov(bindings.ComdexMessages{MsgWhitelistAppIDLiquidation: &bindings.MsgWhitelistAppIDLiquidation{AppID: appHarbor}}))
	must(t, c.Gov(bindings.ComdexMessages{MsgAddAuctionParams: &bindings.MsgAddAuctionParams{AppID: appHarbor, AuctionDurationSeconds: 300, Buffer: dec("1.2"), Cusp: dec("0.6"),
		Step: 1, PriceFunctionType: 1, SurplusID: 1, DebtID: 2, DutchID: 3, BidDurationSeconds: 300}}))
	// generation 2: beacon
	dutch := liqV2types.DutchAuctionParam{Premium: dec("1.2"), Discount: dec("0.7"), DecrementFactor: sdk.NewInt(1)}
	english := liqV2types.EnglishAuctionParam{DecrementFactor: sdk.NewInt(1)}
	c.App.NewliqKeeper.SetLiquidationWhiteListing(ctx, liqV2types.LiquidationWhiteListing{AppId: appBeacon, Initiator: true, IsDutchActivated: true, DutchAuctionParam: &dutch,
		IsEnglishActivated: true, EnglishAuctionParam: &english, KeeeperIncentive: dec([]string{"0.05", "0.05", "0", "0.1"}[o.variant%4])})
	// the lend app hosts no vaults here; it is whitelisted (other price band, a keeper incentive in a quarter of the
	// variants only: at this commit an external auction of an app with an incentive cannot be closed, the closing bid
	// panics on the empty keeper address) so that anyone can open externally initiated Dutch auctions for it
	dutchExt := liqV2types.DutchAuctionParam{Premium: dec("1.15"), Discount: dec("0.8"), DecrementFactor: sdk.NewInt(1)}
	c.App.NewliqKeeper.SetLiquidationWhiteListing(ctx, liqV2types.LiquidationWhiteListing{AppId: appCommodo, Initiator: false, IsDutchActivated: true, DutchAuctionParam: &dutchExt,
		IsEnglishActivated: false, KeeeperIncentive: dec([]string{"0", "0", "0.03", "0"}[o.variant%4])})
	u.aucApps = []uint64{appBeacon, appCommodo}
	// penalty and bonus of externally initiated auctions (vault seizures take the penalty from the product and carry no
	// bonus): the bonus is zero in a third of the variants
	c.App.NewaucKeeper.SetAuctionParams(ctx, auctionsV2types.AuctionParams{AuctionDurationSeconds: 3600, Step: dec("0.1"), WithdrawalFee: dec("0.01"), ClosingFee: dec("0.01"),
		MinUsdValueLeft: 100_000, BidFactor: dec("0.01"), LiquidationPenalty: dec([]string{"0.1", "0.15"}[(o.variant/3)%2]), AuctionBonus: dec([]string{"0.0", "0.05", "0.02"}[o.variant%3])})
	return u
}

// setPrice writes the published price record directly (the "direct feeder").
func (u *cdpU) setPrice(denom string, p uint64, active bool) {
	a := u.byDenom[denom]
	u.c.SetTwa(markettypes.TimeWeightedAverage{AssetID: a.ID, ScriptID: 10, Twa: p, CurrentIndex: 0, IsPriceActive: active, PriceValue: []uint64{p}, DiscardedHeightDiff: -1})
}

func (u *cdpU) price(a *uAsset) (uint64, bool) {
	t, ok := u.c.App.MarketKeeper.GetTwa(u.c.Ctx(), a.ID)
	if !ok {
		return 0, false
	}
	return t.Twa, t.IsPriceActive
}

func (u *cdpU) String() string {
	return fmt.Sprintf("cdpU(variant=%d, %d products)", u.variant, len(u.products))
}
