package props

import (
	"fmt"
	"math/big"
	"sort"
	"testing"
	"time"

	sdk "github.com/cosmos/cosmos-sdk/types"

	"github.com/comdex-official/comdex/app/wasm/bindings"
	assettypes "github.com/comdex-official/comdex/x/asset/types"
	lendtypes "github.com/comdex-official/comdex/x/lend/types"
	liqV2types "github.com/comdex-official/comdex/x/liquidationsV2/types"
	vaulttypes "github.com/comdex-official/comdex/x/vault/types"

	"verif/ev"
	"verif/sim"
)

// C09, second universe: borrows of the lend module AND vaults of a CDP product
// live on the same chain, so both generation-2 sweeps (vaults, borrows) run in
// every block and share the liquidation module's offset records.

type c09LendMon struct {
	e         *c08Env
	rec       *ev.Rec
	batch     int
	prodID    uint64
	atom      *lendAsset
	vusdID    uint64
	minCr     *big.Rat
	survivedB map[uint64]int
	maxLenB   map[uint64]int
	survivedV map[uint64]int
	maxLenV   map[uint64]int
	missing   map[uint64]bool // open borrows already reported as missing from the sweep's list
}

// borrowRatio returns debt value Y and collateral value X at the current prices, and the applicable threshold.
func (m *c09LendMon) borrowRatio(b lendtypes.BorrowAsset) (X, Y, thr *big.Rat, class string, ok bool) {
	e := m.e
	p, found := e.pair(b.PairID)
	if !found {
		return nil, nil, nil, "", false
	}
	in, out := e.u.Assets[p.AssetIn], e.u.Assets[p.AssetOut]
	if in == nil || out == nil {
		return nil, nil, nil, "", false
	}
	pin, actIn := e.u.Price(in.ID)
	pout, actOut := e.u.Price(out.ID)
	if !actIn || !actOut || pin == 0 || pout == 0 {
		return nil, nil, nil, "", false
	}
	ctx := e.c.Ctx()
	par, found := e.c.App.LendKeeper.GetAssetRatesParams(ctx, p.AssetIn)
	if !found {
		return nil, nil, nil, "", false
	}
	thr = c08DecRat(par.LiquidationThreshold)
	class = "same-pool"
	if p.IsEModeEnabled {
		thr = c08DecRat(par.ELiquidationThreshold)
		class = "same-pool-emode"
	}
	if !b.BridgedAssetAmount.Amount.IsNil() && b.BridgedAssetAmount.Amount.IsPositive() {
		tr := e.u.ByDenom[b.BridgedAssetAmount.Denom]
		if tr == nil {
			return nil, nil, nil, "", false
		}
		tpar, found := e.c.App.LendKeeper.GetAssetRatesParams(ctx, tr.ID)
		if !found {
			return nil, nil, nil, "", false
		}
		thr = new(big.Rat).Mul(thr, c08DecRat(tpar.LiquidationThreshold))
		class = "inter-pool-via-" + tr.Denom
	}
	X = exactValue(b.AmountIn.Amount.BigInt(), pin, in.Decimals)
	Y = exactValue(b.AmountOut.Amount.Add(b.InterestAccumulated.TruncateInt()).BigInt(), pout, out.Decimals)
	return X, Y, thr, class, true
}

var twoUnits = new(big.Rat).Mul(decUnit, big.NewRat(2, 1))

// debtRatioAbove: Y/X > thr even after granting the rounding slack of the code's path.
func debtRatioAbove(X, Y, thr *big.Rat) bool {
	yy := new(big.Rat).Sub(Y, decUnit)
	xx := new(big.Rat).Add(X, decUnit)
	if yy.Sign() <= 0 || xx.Sign() <= 0 {
		return false
	}
	r := new(big.Rat).Quo(yy, xx)
	r.Sub(r, decUnit)
	return r.Cmp(new(big.Rat).Add(thr, twoUnits)) > 0
}

// debtRatioAtOrBelow: Y/X <= thr even after taking the slack away.
func debtRatioAtOrBelow(X, Y, thr *big.Rat) bool {
	xx := new(big.Rat).Sub(X, decUnit)
	if xx.Sign() <= 0 {
		return false
	}
	r := new(big.Rat).Quo(new(big.Rat).Add(Y, decUnit), xx)
	r.Add(r, decUnit)
	return r.Cmp(new(big.Rat).Sub(thr, twoUnits)) <= 0
}

func (m *c09LendMon) vaults() map[uint64]vaulttypes.Vault {
	out := map[uint64]vaulttypes.Vault{}
	for _, v := range m.e.c.App.VaultKeeper.GetVaults(m.e.c.Ctx()) {
		out[v.Id] = v
	}
	return out
}

func (m *c09LendMon) vaultUnsafe(v vaulttypes.Vault) (unsafe, safe bool) {
	pin, act := m.e.u.Price(m.atom.ID)
	tw, found := m.e.c.App.MarketKeeper.GetTwa(m.e.c.Ctx(), m.vusdID)
	if !act || !found || !tw.IsPriceActive || pin == 0 || tw.Twa == 0 {
		return false, false
	}
	X := exactValue(v.AmountIn.BigInt(), pin, m.atom.Decimals)
	Y := exactValue(v.AmountOut.Add(v.InterestAccumulated).Add(v.ClosingFeeAccumulated).BigInt(), tw.Twa, big.NewInt(1_000_000))
	below, ok1 := crBelow(X, Y, m.minCr)
	above, ok2 := crAbove(X, Y, m.minCr)
	return ok1 && below, ok2 && above
}

// block runs one real block and decides safety / bounded liveness / hand-over for borrows and vaults.
func (m *c09LendMon) block(dt time.Duration) {
	e := m.e
	pre := e.snap()
	preV := m.vaults()
	// classification at the prices the sweep will see
	type cls struct {
		unsafe, safe bool
		class        string
	}
	bc := map[uint64]cls{}
	for id, b := range pre.borrows {
		if b.IsLiquidated {
			continue
		}
		X, Y, thr, class, ok := m.borrowRatio(b)
		if ok {
			bc[id] = cls{debtRatioAbove(X, Y, thr), debtRatioAtOrBelow(X, Y, thr), class}
		}
	}
	vc := map[uint64]cls{}
	for id, v := range preV {
		u, s := m.vaultUnsafe(v)
		vc[id] = cls{u, s, "vault"}
	}
	breaker, _ := e.c.App.EsmKeeper.GetKillSwitchData(e.c.Ctx(), e.u.App)
	preA := m.aux()
	inactive := 0
	for _, id := range e.u.Order {
		if _, act := e.u.Price(id); !act {
			inactive++
		}
	}
	e.c.NextBlock(dt)
	m.rec.Count("blocks", 1)
	if inactive > 0 {
		m.rec.Count("blocks_with_an_inactive_price", 1)
	}
	if e.panicked {
		return
	}
	post := e.snap()
	postV := m.vaults()
	m.handOver(pre, post, preA, m.aux(), "sweep", fmt.Sprintf("block at height %d", e.c.Header.Height))
	// the sweep walks the borrow ids of the pools' statistics records: an open borrow that is not on that list can
	// never be seized, however unsafe it becomes
	if m.missing != nil {
		swept, _ := e.c.App.LendKeeper.GetBorrows(e.c.Ctx())
		on := map[uint64]bool{}
		for _, id := range swept {
			on[id] = true
		}
		for id, b := range post.borrows {
			if b.IsLiquidated {
				continue
			}
			m.rec.Eval(1)
			if !on[id] && !m.missing[id] {
				m.missing[id] = true
				m.rec.Violate("C09/liveness/borrow-gen2/open-borrow-not-on-the-list-the-sweep-walks", "an open borrow is missing from the borrow-id lists of the pool statistics, the only list the liquidation sweep walks",
					map[string]interface{}{"borrow": id, "pair": b.PairID, "lend_position": b.LendingID, "sweep_list": fmt.Sprint(swept), "history_tail": e.tail(6)})
			}
		}
		m.rec.Count("sweep_list_membership_checks", 1)
	}
	nB, nV := len(pre.borrows), len(preV)
	// ---- borrows
	ids := make([]uint64, 0, len(pre.borrows))
	for id := range pre.borrows {
		ids = append(ids, id)
	}
	sort.Slice(ids, func(i, j int) bool { return ids[i] < ids[j] })
	for _, id := range ids {
		b := pre.borrows[id]
		if b.IsLiquidated {
			continue
		}
		pb, still := post.borrows[id]
		seized := still && pb.IsLiquidated
		c, classified := bc[id]
		m.rec.Eval(1)
		w := map[string]interface{}{"borrow": id, "pair": b.PairID, "collateral": b.AmountIn.String(), "debt": b.AmountOut.String(), "interest": b.InterestAccumulated.String(), "bridged": b.BridgedAssetAmount.String(), "prices": e.priceString(), "history_tail": e.tail(4)}
		if seized {
			m.rec.Count("borrow_seizures_by_sweep", 1)
			if !post.locked[id] {
				m.rec.Violate("C09/hand-over/borrow-flagged-without-seizure-record", "a borrow was flagged as liquidated but no locked vault / auction exists for it (half-applied seizure)", w)
			}
			if classified {
				// safety with the post-accrual debt recorded at seizure
				X, Y, thr, class, ok := m.borrowRatioAt(pb, b)
				if ok && debtRatioAtOrBelow(X, Y, thr) {
					w["class"] = class
					m.rec.Violate("C09/safety/seized-while-safe/borrow/"+class+"/sweep", "a borrow at or below its liquidation threshold was seized", w)
				}
				m.rec.Distinct("C09-borrow-seize", class, b.PairID)
				m.rec.Count("borrow_seizures_"+class, 1)
				if inactive > 0 {
					m.rec.Count("borrow_seizures_by_sweep_while_another_price_inactive", 1)
				}
			} else {
				// a price the position needs was inactive when the sweep ran (judged by C14, counted here)
				m.rec.Count("borrow_seizures_by_sweep_unclassified", 1)
			}
			delete(m.survivedB, id)
			delete(m.maxLenB, id)
			continue
		}
		if !classified || breaker.BreakerEnable {
			delete(m.survivedB, id)
			continue
		}
		// a seizure moves the pledged collateral out of the lend position's pool account and burns the pledged
		// cTokens there; when the pool is illiquid (the coins are lent out) the seizure cannot be carried out.
		// The statement's premises do not cover that situation, so it is counted, not judged.
		if lp, ok := pre.lends[b.LendingID]; ok {
			pa := e.u.PoolAddr(lp.PoolID)
			if pr, found := e.pair(b.PairID); found {
				in := e.u.Assets[pr.AssetIn]
				if in != nil && (e.c.Bal(pa, in.Denom).LT(b.AmountIn.Amount) || e.c.Bal(pa, in.CDenom).LT(b.AmountIn.Amount)) {
					m.rec.Count("unsafe_borrow_not_seizable_pool_illiquid", 1)
					delete(m.survivedB, id)
					continue
				}
			}
		}
		if c.safe {
			m.rec.Count("safe_side_borrow_sweeps_observed", 1)
		}
		if !c.unsafe {
			delete(m.survivedB, id)
			delete(m.maxLenB, id)
			continue
		}
		m.survivedB[id]++
		if nB > m.maxLenB[id] {
			m.maxLenB[id] = nB
		}
		bound := 2*((m.maxLenB[id]+m.batch-1)/m.batch) + 2
		if m.survivedB[id] > bound {
			w["class"], w["survived_sweeps"], w["bound"], w["batch"] = c.class, m.survivedB[id], bound, m.batch
			m.rec.Violate("C09/liveness/borrow-gen2/unsafe-not-seized-within-two-sweeps", fmt.Sprintf("borrow above its liquidation threshold and eligible for %d consecutive blocks (bound %d, %d borrows, batch %d)", m.survivedB[id], bound, m.maxLenB[id], m.batch), w)
			delete(m.survivedB, id)
		}
	}
	// ---- vaults sharing the chain with the borrows
	vids := make([]uint64, 0, len(preV))
	for id := range preV {
		vids = append(vids, id)
	}
	sort.Slice(vids, func(i, j int) bool { return vids[i] < vids[j] })
	for _, id := range vids {
		v := preV[id]
		_, still := postV[id]
		c := vc[id]
		m.rec.Eval(1)
		w := map[string]interface{}{"vault": id, "in": v.AmountIn.String(), "out": v.AmountOut.String(), "prices": e.priceString(), "open_borrows": nB, "vaults": nV, "batch": m.batch}
		if !still {
			m.rec.Count("vault_seizures_by_sweep_in_mixed_universe", 1)
			if c.safe {
				m.rec.Violate("C09/safety/seized-while-safe/gen2/sweep", "a vault at or above the liquidation ratio was seized", w)
			}
			delete(m.survivedV, id)
			delete(m.maxLenV, id)
			continue
		}
		if !c.unsafe || breaker.BreakerEnable {
			delete(m.survivedV, id)
			delete(m.maxLenV, id)
			continue
		}
		m.survivedV[id]++
		if nV > m.maxLenV[id] {
			m.maxLenV[id] = nV
		}
		bound := 2*((m.maxLenV[id]+m.batch-1)/m.batch) + 2
		if m.survivedV[id] > bound {
			w["survived_sweeps"], w["bound"] = m.survivedV[id], bound
			lab := "C09/liveness/vault-gen2/unsafe-not-seized-within-two-sweeps"
			if nB > 0 {
				lab += "/with-open-borrows"
			}
			m.rec.Violate(lab, fmt.Sprintf("vault unsafe and eligible for %d consecutive blocks (bound %d, %d vaults, batch %d, %d borrows on the chain)", m.survivedV[id], bound, m.maxLenV[id], m.batch, nB), w)
			delete(m.survivedV, id)
		}
	}
	m.rec.Distinct("C09-mixed-block", nB/3, nV, len(m.survivedB), len(m.survivedV))
}

// borrowRatioAt: ratio of the seized record `pb` (post-accrual debt) with the pledged collateral of `b`.
func (m *c09LendMon) borrowRatioAt(pb, b lendtypes.BorrowAsset) (X, Y, thr *big.Rat, class string, ok bool) {
	x := b
	x.InterestAccumulated = pb.InterestAccumulated
	x.AmountOut = pb.AmountOut
	return m.borrowRatio(x)
}

func c09LendRun(t *testing.T, rec *ev.Rec, run int) {
	variant := ev.ShardNo()*3 + run
	e := c08Setup(t, ev.NewScratch(), rng("C09-lend-setup", variant), run, variant%6, true)
	defer e.c.Close()
	e.rnd = rng("C09-lend", variant)
	c := e.c
	batch := []int{1, 2, 5, 200}[variant%4]
	c.App.NewliqKeeper.SetParams(c.Ctx(), liqV2types.Params{LiquidationBatchSize: uint64(batch)})
	// a CDP product on the lend app: ATOM -> VUSD
	must(t, c.App.AssetKeeper.AddAssetRecords(c.Ctx(), assettypes.Asset{Name: "VUSD", Denom: "uvusd", Decimals: sdk.NewInt(1_000_000), IsOnChain: true, IsOraclePriceRequired: true, IsCdpMintable: true}))
	vusd, _ := c.App.AssetKeeper.GetAssetForDenom(c.Ctx(), "uvusd")
	atom := e.u.ByDenom["uatom"]
	e.u.SetPrice(vusd.Id, 1_000_000, true)
	must(t, c.App.AssetKeeper.AddPairsRecords(c.Ctx(), assettypes.Pair{AssetIn: atom.ID, AssetOut: vusd.Id}))
	pairID := c.App.AssetKeeper.GetPairID(c.Ctx())
	must(t, c.Gov(bindings.ComdexMessages{MsgAddExtendedPairsVault: &bindings.MsgAddExtendedPairsVault{AppID: e.u.App, PairID: pairID, StabilityFee: dec("0"), ClosingFee: dec("0"), LiquidationPenalty: dec("0.1"), DrawDownFee: dec("0"),
		IsVaultActive: true, DebtCeiling: sdk.NewInt(1_000_000_000_000_000), DebtFloor: sdk.NewInt(1_000_000), MinCr: dec("1.5"), PairName: "ATOM-V", AssetOutOraclePrice: true, AssetOutPrice: 1_000_000, MinUsdValueLeft: 100_000}}))
	prodID := c.App.AssetKeeper.GetPairsVaultID(c.Ctx())
	m := &c09LendMon{e: e, rec: rec, batch: batch, prodID: prodID, atom: atom, vusdID: vusd.Id, minCr: big.NewRat(3, 2), survivedB: map[uint64]int{}, maxLenB: map[uint64]int{}, survivedV: map[uint64]int{}, maxLenV: map[uint64]int{}, missing: map[uint64]bool{}}
	createVault := func(a int, crPermille int64) {
		pin, _ := e.u.Price(atom.ID)
		debt := int64(5_000_000 + e.rnd.Intn(50_000_000))
		in := debt * crPermille / 1000 * 1_000_000 / int64(pin)
		ac := c.Accts[a%len(c.Accts)]
		res := c.Deliver(ac, &vaulttypes.MsgCreateRequest{From: ac.Addr.String(), AppId: e.u.App, ExtendedPairVaultId: prodID, AmountIn: sdk.NewInt(in + 1), AmountOut: sdk.NewInt(debt)})
		if res.OK() {
			rec.Count("mixed_vaults_created", 1)
		}
	}
	for a := 0; a < 5; a++ {
		createVault(a, int64(1510+e.rnd.Intn(600)))
	}
	// the e-mode pair lends out the pool's second transit asset, which is the scarce one in half of the variants
	if ep, ok := e.pair(e.u.EModePair); ok {
		out := e.u.Assets[ep.AssetOut]
		c.Deliver(c.Accts[5], lendtypes.NewMsgFundModuleAccounts(ep.AssetOutPoolID, out.ID, c.Accts[5].Addr.String(), sdk.NewCoin(out.Denom, sdk.NewInt(1_000_000_000_000))))
	}
	startPrice := map[uint64]uint64{}
	for _, id := range e.u.Order {
		startPrice[id], _ = e.u.Price(id)
	}
	m.idCoincidence()
	for id, p := range startPrice {
		e.u.SetPrice(id, p, true)
	}
	steps := ev.Pick(700, 4000)
	for i := 0; i < steps && !e.panicked; i++ {
		switch x := e.rnd.Intn(100); {
		case x < 50:
			if e.rnd.Intn(12) == 0 {
				e.force = "emode"
			}
			e.txStep()
		case x < 57:
			if e.rnd.Intn(8) == 0 {
				m.exactThresholdProbe(2)
			} else {
				m.liquidateMsg(2)
			}
		case x < 61:
			if e.rnd.Intn(5) == 0 {
				m.exactThresholdProbe(1)
			} else {
				m.liquidateMsg(1)
			}
		case x < 62:
			if !m.bidGen1() {
				e.txStep()
			}
		case x < 70:
			// close / reopen vaults so that list positions shift
			vs := c.App.VaultKeeper.GetVaults(c.Ctx())
			if len(vs) > 0 && e.rnd.Intn(2) == 0 {
				v := vs[e.rnd.Intn(len(vs))]
				for _, ac := range c.Accts {
					if ac.Addr.String() == v.Owner {
						c.Deliver(ac, &vaulttypes.MsgCloseRequest{From: v.Owner, AppId: v.AppId, ExtendedPairVaultId: v.ExtendedPairVaultID, UserVaultId: v.Id})
					}
				}
			} else {
				createVault(e.rnd.Intn(7), int64(1505+e.rnd.Intn(700)))
			}
		case x < 80:
			// price move
			ids := e.u.Order
			id := ids[e.rnd.Intn(len(ids))]
			p, _ := e.u.Price(id)
			var np uint64
			switch e.rnd.Intn(6) {
			case 0:
				np = p * uint64(40+e.rnd.Intn(40)) / 100
			case 1, 2:
				np = p * uint64(80+e.rnd.Intn(19)) / 100
			case 3:
				np = p * uint64(101+e.rnd.Intn(60)) / 100
			default:
				np = p * uint64(95+e.rnd.Intn(10)) / 100
			}
			if np == 0 {
				np = 1
			}
			e.u.SetPrice(id, np, true)
			e.log(fmt.Sprintf("price %s %d -> %d", e.u.Assets[id].Denom, p, np))
			rec.Count("price_moves", 1)
		default:
			gap := time.Duration(1+e.rnd.Intn(30)) * time.Second
			if e.rnd.Intn(8) == 0 {
				gap = time.Duration(1+e.rnd.Intn(72)) * time.Hour
			}
			m.block(gap)
		}
	}
	// slow ramps: one volatile asset at a time falls 1.5 % per block (the other stays), so every position's ratio
	// -- also that of an inter-pool borrow whose collateral and debt are the two volatile assets -- passes through
	// the band just below and just above its own threshold with the sweep looking at it in every block
	for _, falling := range []string{"uatom", "uosmo"} {
		for j := 0; j < 8 && !e.panicked; j++ {
			e.force = []string{"inter-pool", "inter-pool-2"}[j%2]
			e.txStep()
		}
		for i := 0; i < ev.Pick(30, 80) && !e.panicked; i++ {
			for _, id := range e.u.Order {
				if e.u.Assets[id].Denom == falling {
					p, _ := e.u.Price(id)
					e.u.SetPrice(id, p*985/1000+1, true)
				}
			}
			m.block(6 * time.Second)
			if i%5 == 0 { // new positions keep entering the band
				e.txStep()
				e.force = []string{"inter-pool", "inter-pool-2"}[(i/5)%2]
				e.txStep()
			}
		}
	}
	// price outage: the feed of one volatile asset goes inactive while the other one crashes. Positions that need the
	// inactive price are not eligible (the monitor does not classify them, so no liveness count runs for them); the
	// positions that do not need it must still be seized within the bound -- one position the sweep cannot handle
	// must not starve the ones behind it.
	if !e.panicked {
		for id, p := range startPrice {
			e.u.SetPrice(id, p, true)
		}
		m.block(6 * time.Second)
		for j := 0; j < 12 && !e.panicked; j++ {
			e.force = []string{"same-pool", "inter-pool", "inter-pool-2"}[j%3]
			e.txStep()
		}
		out, crash := "uosmo", "uatom"
		if variant%2 == 1 {
			out, crash = "uatom", "uosmo"
		}
		var outID uint64
		var outPrice uint64
		for _, id := range e.u.Order {
			switch e.u.Assets[id].Denom {
			case out:
				outID = id
				outPrice, _ = e.u.Price(id)
				e.u.SetPrice(id, outPrice, false)
			case crash:
				p, _ := e.u.Price(id)
				e.u.SetPrice(id, p*62/100+1, true)
			}
		}
		e.log(fmt.Sprintf("feed of %s inactive, %s crashes to 62%%", out, crash))
		ids, _ := c.App.LendKeeper.GetBorrows(c.Ctx())
		quiet := 2*((len(ids)+batch-1)/batch) + 5
		if quiet > 100 {
			quiet = 100
		}
		for i := 0; i < quiet && !e.panicked; i++ {
			m.block(6 * time.Second)
			if i == quiet/2 { // the list shifts while the outage lasts
				e.txStep()
			}
		}
		rec.Count("price_outage_probe_blocks", int64(quiet))
		e.u.SetPrice(outID, outPrice, true)
		e.log(fmt.Sprintf("feed of %s active again", out))
		m.block(6 * time.Second)
	}
	// liveness probe: a market crash makes many positions unsafe at once; with no further user activity
	// every one of them must be seized within the bound (the monitor counts survived sweeps)
	if !e.panicked {
		for _, id := range e.u.Order {
			if e.u.Assets[id].Denom == "ucmst" || e.u.Assets[id].Denom == "uusdc" {
				continue
			}
			p, _ := e.u.Price(id)
			e.u.SetPrice(id, p*45/100+1, true)
		}
		e.log("crash of all volatile prices to 45% (liveness probe)")
		nB, _ := c.App.LendKeeper.GetBorrows(c.Ctx())
		nV := len(c.App.VaultKeeper.GetVaults(c.Ctx()))
		L := len(nB)
		if nV > L {
			L = nV
		}
		quiet := 2*((L+batch-1)/batch) + 5
		if quiet > 150 {
			quiet = 150
		}
		for i := 0; i < quiet && !e.panicked; i++ {
			m.block(6 * time.Second)
		}
		rec.Count("liveness_probe_blocks", int64(quiet))
	}
	// tail probe: prices back at their start, then round after round one more borrow is opened close to its bound
	// (the last of the borrow list), its collateral slips by 9 %, and nobody does anything for a little more than
	// two full sweeps of the borrow list
	if !e.panicked {
		for id, p := range startPrice {
			e.u.SetPrice(id, p, true)
		}
		m.block(6 * time.Second)
		rounds := batch + 2
		if rounds > 6 {
			rounds = 3
		}
		for round := 0; round < rounds && !e.panicked; round++ {
			before, _ := c.App.LendKeeper.GetBorrows(c.Ctx())
			e.force = []string{"same-pool", "inter-pool"}[round%2]
			e.txStep()
			after, _ := c.App.LendKeeper.GetBorrows(c.Ctx())
			if len(after) <= len(before) {
				continue
			}
			nb, found := c.App.LendKeeper.GetBorrow(c.Ctx(), after[len(after)-1])
			if !found {
				continue
			}
			pr, _ := e.pair(nb.PairID)
			pin, _ := e.u.Price(pr.AssetIn)
			e.u.SetPrice(pr.AssetIn, pin*91/100, true)
			e.log(fmt.Sprintf("tail probe: collateral asset %d slips to 91%%", pr.AssetIn))
			quiet := 2*((len(after)+batch-1)/batch) + 6
			if quiet > 120 {
				quiet = 120
			}
			for b := 0; b < quiet && !e.panicked; b++ {
				m.block(6 * time.Second)
			}
			rec.Count("borrow_tail_probe_rounds", 1)
			e.u.SetPrice(pr.AssetIn, pin, true)
			m.block(6 * time.Second)
		}
	}
	rec.Floor("liquidate_msg_gen2_sent", 20)
	rec.Floor("liquidate_msg_gen2_on_safe_borrow", 5)
	rec.Floor("borrow_seizures_by_message_gen2", 5)
	rec.Floor("liquidate_msg_gen1_sent", 10)
	rec.Floor("borrow_seizures_by_message_gen1", 3)
	rec.Floor("borrow_handover_checks", 10)
	rec.Floor("borrow_handover_coin_checks", 20)
	rec.Floor("blocks_with_an_inactive_price", 20)
	if run == 0 {
		rec.Sample(map[string]interface{}{"universe": "lend+vault", "variant": variant, "batch": batch, "history_tail": e.tail(8)})
	}
}

// idCoincidence: lend ids and borrow ids come from separate counters, so a lend position and somebody else's borrow can
// carry the same number. On the fresh chain: lend 1 (A, ATOM), lend 2 (B, CMST), borrows 1 and 2 on lend 1 (debts USDC and
// CMST), borrow 3 pledging the whole of lend 2. CMST then falls: borrow 3 is seized and its lend position, now empty, is
// closed -- lend position 2 of (pool 1, CMST) goes while borrow 2, which owes CMST out of pool 1, must stay on the list
// the sweep walks (the membership law of block() decides).
func (m *c09LendMon) idCoincidence() {
	e := m.e
	c := e.c
	k := c.App.LendKeeper
	if len(k.GetAllLend(c.Ctx())) > 0 || len(k.GetAllBorrow(c.Ctx())) > 0 {
		return
	}
	A, B := c.Accts[0], c.Accts[1]
	atom, cmst, usdc := e.u.ByDenom["uatom"], e.u.ByDenom["ucmst"], e.u.ByDenom["uusdc"]
	pairOf := func(in, out uint64) (lendtypes.Extended_Pair, bool) {
		for _, id := range e.pairsFor(in, 1) {
			if p, ok := e.pair(id); ok && p.AssetOut == out && !p.IsInterPool && !p.IsEModeEnabled && p.AssetOutPoolID == 1 {
				return p, true
			}
		}
		return lendtypes.Extended_Pair{}, false
	}
	// X = the asset of lend 2 and the debt of borrow 2; borrow 3 pledges X for any other asset of the pool
	var pAU, pAC, pCU lendtypes.Extended_Pair
	found := false
	for _, x := range []*lendAsset{cmst, usdc} {
		y := usdc
		if x == usdc {
			y = cmst
		}
		var ok1, ok2 bool
		pAU, ok1 = pairOf(atom.ID, y.ID)
		pAC, ok2 = pairOf(atom.ID, x.ID)
		for _, id := range e.pairsFor(x.ID, 1) {
			if p, ok := e.pair(id); ok && ok1 && ok2 && !found && !p.IsInterPool && !p.IsEModeEnabled && p.AssetOutPoolID == 1 && p.AssetOut != x.ID {
				pCU, found = p, true
				cmst, usdc = x, e.u.Assets[p.AssetOut]
			}
		}
		if found {
			break
		}
	}
	if !found {
		m.rec.Note("id-coincidence scenario: no suitable pairs in pool 1")
		return
	}
	send := func(who *sim.Acct, msg sdk.Msg, what string) bool {
		res, _ := e.deliver(who, msg)
		e.log(fmt.Sprintf("id-coincidence: %s -> ok=%v %s", what, res.OK(), c08ShortLog(res.Log)))
		if !res.OK() {
			m.rec.Note(fmt.Sprintf("id-coincidence scenario stopped: %s: %s", what, c08ShortLog(res.Log)))
		}
		return res.OK()
	}
	big1 := func(v int64) *big.Int { return big.NewInt(v) }
	if !send(A, lendtypes.NewMsgLend(A.Addr.String(), atom.ID, c08coin(atom.Denom, big1(2_000_000_000)), 1, e.u.App), "A lends ATOM (lend 1)") ||
		!send(B, lendtypes.NewMsgLend(B.Addr.String(), cmst.ID, c08coin(cmst.Denom, big1(700_000_000)), 1, e.u.App), "B lends CMST (lend 2)") {
		return
	}
	in := big1(300_000_000)
	loan := func(p lendtypes.Extended_Pair, x *big.Int, permille int64) *big.Int {
		mx := e.maxLoan(p, 1, p.AssetIn, x)
		mx.Mul(mx, big1(permille)).Quo(mx, big1(1000))
		if permille < 900 { // the helper borrows: never more than a third of what the pool holds (one transit asset is scarce)
			if third := new(big.Int).Quo(c08bi(e.poolBal(1, e.u.Assets[p.AssetOut].Denom)), big1(3)); mx.Cmp(third) > 0 {
				mx = third
			}
		}
		return mx
	}
	if !send(A, lendtypes.NewMsgBorrow(A.Addr.String(), 1, pAU.Id, false, c08coin(atom.CDenom, in), c08coin(e.u.Assets[pAU.AssetOut].Denom, loan(pAU, in, 500))), "A borrows on lend 1 (borrow 1)") ||
		!send(A, lendtypes.NewMsgBorrow(A.Addr.String(), 1, pAC.Id, false, c08coin(atom.CDenom, in), c08coin(cmst.Denom, loan(pAC, in, 500))), "A borrows CMST on lend 1 (borrow 2)") {
		return
	}
	all := big1(700_000_000)
	if !send(B, lendtypes.NewMsgBorrow(B.Addr.String(), 2, pCU.Id, false, c08coin(cmst.CDenom, all), c08coin(usdc.Denom, loan(pCU, all, 995))), "B borrows USDC pledging the whole of lend 2 (borrow 3)") {
		return
	}
	m.block(6 * time.Second)
	pc, _ := e.u.Price(cmst.ID)
	e.u.SetPrice(cmst.ID, pc*70/100, true)
	e.log(fmt.Sprintf("id-coincidence: price ucmst %d -> %d", pc, pc*70/100))
	for i := 0; i < 4 && !e.panicked; i++ {
		m.block(6 * time.Second)
	}
	if _, still := k.GetLend(c.Ctx(), 2); !still {
		m.rec.Count("id_coincidence_lend_position_closed_by_a_seizure_while_a_borrow_carries_its_number", 1)
	}
}
