package props

import (
	"fmt"
	"math/big"
	"math/rand"
	"sort"
	"strings"
	"testing"
	"time"

	sdk "github.com/cosmos/cosmos-sdk/types"

	lendtypes "github.com/comdex-official/comdex/x/lend/types"
	liqV2types "github.com/comdex-official/comdex/x/liquidationsV2/types"

	"verif/ev"
	"verif/mon"
	"verif/sim"
)

// C08 — lending books balance and borrowing is bounded by loan-to-value.
//
// Workload: real signed lend-module transactions by five users over two pools
// (same-pool, inter-pool, e-mode, stable and variable borrows), amounts chosen
// by class (tiny / typical / boundary solved from the state / whole / more
// than available), real blocks with time gaps 1 s .. 2 y, price moves between
// blocks and, in some runs, price crashes that make the generation-2
// liquidation begin blocker seize borrows.
//
// Monitor (after every transaction and every block), all in math/big:
//   (a) TotalLend(pool,asset) == sum over the lend positions of (pool,asset) of
//       AvailableToBorrow + collateral pledged to their open, not liquidated borrows
//   (b) TotalBorrowed / TotalStableBorrowed(pool,asset) == sum of principal
//       (AmountOut) of the open, not liquidated variable / stable borrows booked there
//   (c) after a successful borrow / borrow-alternate / draw: debt value
//       (principal + floor(accrued interest), new loan included) <= collateral value *
//       applicable LTV (+ rounding slack), and the pool held the loan before the tx
//   (d) after a successful withdraw / close-lend / repay-withdraw: paid out <=
//       AvailableToBorrow(pre) + rewards credited by the tx (+ collateral released
//       by the closed borrow), collateral of the other open borrows untouched

type c08Snap struct {
	lends        map[uint64]lendtypes.LendAsset
	borrows      map[uint64]lendtypes.BorrowAsset
	stats        map[[2]uint64]lendtypes.PoolAssetLBMapping
	outToLenders map[uint64]*big.Int
	locked       map[uint64]bool // borrow id -> a generation-2 locked vault (seizure record) exists for it
	lockedV1     map[uint64]bool // borrow id -> a generation-1 locked vault (partial liquidation in progress) exists for it
}

// handedOver: the borrow is under liquidation, i.e. flagged AND a seizure
// record exists (its collateral was handed to the auction module). A borrow
// that is only flagged (half-applied seizure: flag written, hand-over failed)
// still has its collateral in the pool and is counted as an open borrow.
func (s *c08Snap) handedOver(b lendtypes.BorrowAsset) bool { return b.IsLiquidated && s.locked[b.ID] }

// underLiquidation: flagged and a seizure record of either generation exists. A generation-1 seizure (liquidate
// message of x/liquidation) hands over only the part of the collateral that is to be sold and reduces the borrow's
// recorded collateral by it: what the record still shows is pledged collateral that has NOT been handed over, but the
// borrow is under liquidation until its auction has ended and the position has been re-opened or removed.
func (s *c08Snap) underLiquidation(b lendtypes.BorrowAsset) bool {
	return b.IsLiquidated && (s.locked[b.ID] || s.lockedV1[b.ID])
}

type c08Env struct {
	t       *testing.T
	c       *sim.Chain
	u       *lendU
	rec     *ev.Rec
	rnd     *rand.Rand
	hist    []string
	run     int
	variant int
	liqRun  bool
	step    int
	// last reported discrepancy per identity, so that a broken book is
	// reported once, attributed to the step that changed it
	lastDiff map[string]string
	pairs    map[uint64]lendtypes.Extended_Pair
	sampled  map[string]bool
	force    string // "inter-pool" / "inter-pool-2": the next txStep opens an inter-pool borrow close to its LTV bound (second form: through the second transit asset); "same-pool": a plain same-pool borrow close to its bound; "emode": a borrow on the e-mode pair close to its bound
	panicked bool
	gen1ForceID uint64 // the next gen1Liquidate takes this borrow and moves its collateral price to just above the threshold
	lastPre  *c08Snap // state before the transaction whose books are being checked (witness only)
	outage   map[uint64]int // asset id -> steps until its price feed is re-activated (C08's own runs only)
}

func (e *c08Env) log(s string) {
	e.hist = append(e.hist, fmt.Sprintf("#%d %s", e.step, s))
	if len(e.hist) > 60 {
		e.hist = e.hist[len(e.hist)-60:]
	}
}

func (e *c08Env) tail(n int) []string {
	if n > len(e.hist) {
		n = len(e.hist)
	}
	return append([]string(nil), e.hist[len(e.hist)-n:]...)
}

func (e *c08Env) witness(extra map[string]interface{}) map[string]interface{} {
	w := map[string]interface{}{
		"run": e.run, "variant": e.variant, "liquidation_run": e.liqRun, "step": e.step,
		"height": e.c.Header.Height, "time": e.c.Header.Time.UTC().Format(time.RFC3339),
		"prices": e.priceString(), "last_ops": append([]string(nil), e.hist...),
	}
	if e.liqRun {
		var lvs []string
		for _, lv := range e.c.App.LiquidationKeeper.GetLockedVaults(e.c.Ctx()) {
			lvs = append(lvs, fmt.Sprintf("locked%d{app=%d borrow=%d in=%s out=%s updated-out=%s complete=%v in-progress=%v}", lv.LockedVaultId, lv.AppId, lv.OriginalVaultId, lv.AmountIn, lv.AmountOut, lv.UpdatedAmountOut, lv.IsAuctionComplete, lv.IsAuctionInProgress))
		}
		for _, a := range e.c.App.AuctionKeeper.GetDutchLendAuctions(e.c.Ctx(), e.u.App) {
			lvs = append(lvs, fmt.Sprintf("auction%d{locked=%d left=%s raised=%s target=%s}", a.AuctionId, a.LockedVaultId, a.OutflowTokenCurrentAmount, a.InflowTokenCurrentAmount, a.InflowTokenTargetAmount))
		}
		w["generation1_records"] = strings.Join(lvs, " ")
	}
	for k, v := range extra {
		w[k] = v
	}
	return w
}

func (e *c08Env) beforeString(pk [2]uint64) string {
	if e.lastPre == nil {
		return ""
	}
	st := e.lastPre.stats[pk]
	return fmt.Sprintf("total-lend=%s total-borrowed=%s total-stable-borrowed=%s positions: %s", st.TotalLend, st.TotalBorrowed, st.TotalStableBorrowed, e.positionsString(e.lastPre, pk[0], pk[1]))
}

func (e *c08Env) priceString() string {
	var s []string
	for _, id := range e.u.Order {
		p, act := e.u.Price(id)
		s = append(s, fmt.Sprintf("%s=%d/%s active=%v", e.u.Assets[id].Denom, p, e.u.Assets[id].Decimals, act))
	}
	return strings.Join(s, " ")
}

func (e *c08Env) snap() *c08Snap {
	ctx := e.c.Ctx()
	k := e.c.App.LendKeeper
	s := &c08Snap{lends: map[uint64]lendtypes.LendAsset{}, borrows: map[uint64]lendtypes.BorrowAsset{}, stats: map[[2]uint64]lendtypes.PoolAssetLBMapping{}, outToLenders: map[uint64]*big.Int{}, locked: map[uint64]bool{}, lockedV1: map[uint64]bool{}}
	for _, lv := range e.c.App.NewliqKeeper.GetLockedVaults(ctx) {
		if lv.InitiatorType == "lend" {
			s.locked[lv.OriginalVaultId] = true
		}
	}
	for _, lv := range e.c.App.LiquidationKeeper.GetLockedVaults(ctx) {
		if lv.GetBorrowMetaData() != nil {
			s.lockedV1[lv.OriginalVaultId] = true
		}
	}
	for _, l := range k.GetAllLend(ctx) {
		s.lends[l.ID] = l
	}
	for _, b := range k.GetAllBorrow(ctx) {
		s.borrows[b.ID] = b
	}
	for pid, p := range e.u.Pools {
		for _, aid := range p.Assets {
			st, _ := k.GetAssetStatsByPoolIDAndAssetID(ctx, pid, aid)
			s.stats[[2]uint64{pid, aid}] = st
		}
	}
	for _, id := range e.u.Order {
		rs, found := k.GetAllReserveStatsByAssetID(ctx, id)
		v := new(big.Int)
		if found && !rs.TotalAmountOutToLenders.IsNil() {
			v = rs.TotalAmountOutToLenders.BigInt()
		}
		s.outToLenders[id] = v
	}
	return s
}

func c08bi(i sdk.Int) *big.Int {
	if i.IsNil() {
		return new(big.Int)
	}
	return i.BigInt()
}

func (e *c08Env) pair(id uint64) (lendtypes.Extended_Pair, bool) {
	if p, ok := e.pairs[id]; ok {
		return p, true
	}
	p, found := e.u.Pair(id)
	if found {
		e.pairs[id] = p
	}
	return p, found
}

// checkBooks evaluates identities (a) and (b) on a snapshot.
func (e *c08Env) checkBooks(s *c08Snap, after string, causes map[[2]uint64]string) {
	type key struct {
		pool, asset uint64
	}
	sumLend := map[key]*big.Int{}
	sumVar := map[key]*big.Int{}
	sumStable := map[key]*big.Int{}
	get := func(m map[key]*big.Int, k key) *big.Int {
		if m[k] == nil {
			m[k] = new(big.Int)
		}
		return m[k]
	}
	pledged := map[uint64]*big.Int{} // lend id -> collateral pledged to open, not liquidated borrows
	for _, b := range s.borrows {
		if s.handedOver(b) {
			continue
		}
		if b.IsLiquidated {
			e.rec.Max("flagged_borrows_without_seizure_record_seen", 1)
		}
		if pledged[b.LendingID] == nil {
			pledged[b.LendingID] = new(big.Int)
		}
		pledged[b.LendingID].Add(pledged[b.LendingID], c08bi(b.AmountIn.Amount))
		p, found := e.pair(b.PairID)
		if !found || s.underLiquidation(b) {
			continue
		}
		k := key{p.AssetOutPoolID, p.AssetOut}
		if b.IsStableBorrow {
			get(sumStable, k).Add(get(sumStable, k), c08bi(b.AmountOut.Amount))
		} else {
			get(sumVar, k).Add(get(sumVar, k), c08bi(b.AmountOut.Amount))
		}
	}
	for _, l := range s.lends {
		k := key{l.PoolID, l.AssetID}
		get(sumLend, k).Add(get(sumLend, k), c08bi(l.AvailableToBorrow))
		if pl := pledged[l.ID]; pl != nil {
			get(sumLend, k).Add(get(sumLend, k), pl)
		}
	}
	keys := make([][2]uint64, 0, len(s.stats))
	for k := range s.stats {
		keys = append(keys, k)
	}
	sort.Slice(keys, func(i, j int) bool {
		return keys[i][0] < keys[j][0] || (keys[i][0] == keys[j][0] && keys[i][1] < keys[j][1])
	})
	for _, pk := range keys {
		st := s.stats[pk]
		k := key{pk[0], pk[1]}
		cmp := func(which string, published sdk.Int, derived *big.Int) {
			e.rec.Eval(1)
			e.rec.Count("books_checks", 1)
			d := new(big.Int).Sub(c08bi(published), derived)
			id := fmt.Sprintf("%s/%d/%d", which, pk[0], pk[1])
			prev, seen := e.lastDiff[id]
			if !seen {
				prev = "0"
			}
			if d.String() == prev {
				return
			}
			e.lastDiff[id] = d.String()
			if d.Sign() == 0 && prev != "0" {
				// discrepancy went away again: note, not a new violation
				e.rec.Count("books_discrepancy_healed", 1)
				return
			}
			where := after
			if c := causes[pk]; c != "" && which == "total-lend" {
				where = c
			}
			e.rec.Violate(fmt.Sprintf("C08/books/%s/after-%s", which, where),
				fmt.Sprintf("pool %d asset %d: published %s = %s but positions give %s (difference %s, previous difference %s)", pk[0], pk[1], which, c08bi(published), derived, d, prev),
				e.witness(map[string]interface{}{"pool": pk[0], "asset": pk[1], "published": c08bi(published).String(), "derived": derived.String(), "positions": e.positionsString(s, pk[0], pk[1]), "before": e.beforeString(pk)}))
		}
		cmp("total-lend", st.TotalLend, get(sumLend, k))
		cmp("total-borrowed", st.TotalBorrowed, get(sumVar, k))
		cmp("total-stable-borrowed", st.TotalStableBorrowed, get(sumStable, k))
	}
}

func (e *c08Env) positionsString(s *c08Snap, pool, asset uint64) string {
	var out []string
	var ids []uint64
	for id := range s.lends {
		ids = append(ids, id)
	}
	sort.Slice(ids, func(i, j int) bool { return ids[i] < ids[j] })
	for _, id := range ids {
		l := s.lends[id]
		if l.PoolID == pool && l.AssetID == asset {
			out = append(out, fmt.Sprintf("lend%d{in=%s atb=%s}", l.ID, l.AmountIn.Amount, l.AvailableToBorrow))
		}
	}
	ids = ids[:0]
	for id := range s.borrows {
		ids = append(ids, id)
	}
	sort.Slice(ids, func(i, j int) bool { return ids[i] < ids[j] })
	for _, id := range ids {
		b := s.borrows[id]
		p, _ := e.pair(b.PairID)
		l, ok := s.lends[b.LendingID]
		if (ok && l.PoolID == pool && l.AssetID == asset) || (p.AssetOutPoolID == pool && p.AssetOut == asset) {
			out = append(out, fmt.Sprintf("borrow%d{lend=%d pair=%d in=%s out=%s int=%s stable=%v liq=%v}", b.ID, b.LendingID, b.PairID, b.AmountIn, b.AmountOut, b.InterestAccumulated, b.IsStableBorrow, b.IsLiquidated))
		}
	}
	return strings.Join(out, " ")
}

// ---- applicable loan-to-value ----

func c08DecRat(d sdk.Dec) *big.Rat {
	if d.IsNil() {
		return new(big.Rat)
	}
	return mon.RatFromDec18(d.BigInt())
}

// applicableLTV returns the ratio and a class string for a borrow position.
func (e *c08Env) applicableLTV(b lendtypes.BorrowAsset, p lendtypes.Extended_Pair) (*big.Rat, string, bool) {
	ctx := e.c.Ctx()
	par, found := e.c.App.LendKeeper.GetAssetRatesParams(ctx, p.AssetIn)
	if !found {
		return nil, "", false
	}
	ltv := c08DecRat(par.Ltv)
	class := "same-pool"
	if p.IsEModeEnabled {
		ltv = c08DecRat(par.ELtv)
		class = "same-pool-emode"
	}
	if p.IsInterPool {
		class = "inter-pool"
		if p.IsEModeEnabled {
			class = "inter-pool-emode"
		}
		tr := e.u.ByDenom[b.BridgedAssetAmount.Denom]
		if tr == nil {
			return nil, "", false
		}
		tpar, found := e.c.App.LendKeeper.GetAssetRatesParams(ctx, tr.ID)
		if !found {
			return nil, "", false
		}
		ltv = new(big.Rat).Mul(ltv, c08DecRat(tpar.Ltv))
	}
	return ltv, class, true
}

// checkLTV is oracle (c) for the borrow position affected by a successful borrow-type tx.
func (e *c08Env) checkLTV(post *c08Snap, borrowID uint64, path string, loan sdk.Coin, poolBalPre sdk.Int) {
	b, ok := post.borrows[borrowID]
	if !ok {
		return
	}
	p, found := e.pair(b.PairID)
	if !found {
		return
	}
	e.rec.Eval(1)
	e.rec.Count("ltv_checks", 1)
	ltv, class, ok := e.applicableLTV(b, p)
	if !ok {
		return
	}
	collAsset := e.u.ByDenom[b.AmountIn.Denom]
	debtAsset := e.u.Assets[p.AssetOut]
	if collAsset == nil || debtAsset == nil {
		return
	}
	mismatched := false
	if l, ok := post.lends[b.LendingID]; ok && l.AssetID != p.AssetIn {
		mismatched = true
	}
	debt := new(big.Int).Add(c08bi(b.AmountOut.Amount), b.InterestAccumulated.TruncateInt().BigInt())
	debtVal := e.u.Value(debtAsset.ID, debt)
	collVal := e.u.Value(collAsset.ID, c08bi(b.AmountIn.Amount))
	bound := mon.LtvBound(collVal, ltv)
	e.rec.Count("ltv_checks_"+class, 1)
	e.rec.Distinct("ltv", path, class, b.IsStableBorrow, debtVal.Cmp(bound), b.InterestAccumulated.IsPositive(), e.variant)
	if debtVal.Cmp(bound) == 0 {
		e.rec.Count("accepted_at_exactly_ltv", 1)
		if !e.sampled["exact"] {
			e.sampled["exact"] = true
			e.rec.Sample(map[string]interface{}{"case": "accepted at exactly LTV", "path": path, "class": class, "collateral": b.AmountIn.String(), "debt": debt.String() + b.AmountOut.Denom, "interest": b.InterestAccumulated.String(), "ltv": ltv.FloatString(6), "prices": e.priceString()})
		}
	}
	if b.InterestAccumulated.TruncateInt().IsPositive() {
		e.rec.Count("ltv_checks_with_accrued_interest", 1)
	}
	if mon.LtvExceeded(debtVal, collVal, ltv) {
		label := fmt.Sprintf("C08/ltv/%s/%s", path, class)
		if mismatched {
			// the pair's collateral asset is not the asset of the lend position the borrow hangs on
			label = "C08/ltv/mismatched-pair"
		}
		e.rec.Violate(label,
			fmt.Sprintf("borrow %d: debt value %s exceeds collateral value %s x LTV %s = %s", b.ID, debtVal.FloatString(6), collVal.FloatString(6), ltv.FloatString(6), bound.FloatString(6)),
			e.witness(map[string]interface{}{"borrow": fmt.Sprintf("%+v", b), "pair": fmt.Sprintf("%+v", p), "new_loan": loan.String()}))
	}
	if loan.Amount.GT(poolBalPre) {
		e.rec.Violate(fmt.Sprintf("C08/pool-balance/%s", path),
			fmt.Sprintf("loan %s released while pool %d held only %s before the tx", loan, p.AssetOutPoolID, poolBalPre),
			e.witness(map[string]interface{}{"borrow": fmt.Sprintf("%+v", b)}))
	}
}

// checkPayout is oracle (d).
func (e *c08Env) checkPayout(pre, post *c08Snap, kind string, user *sim.Acct, lendID uint64, closedBorrow uint64, balPre sdk.Int) {
	l, ok := pre.lends[lendID]
	if !ok {
		return
	}
	e.rec.Eval(1)
	e.rec.Count("payout_checks", 1)
	a := e.u.Assets[l.AssetID]
	paid := new(big.Int).Sub(c08bi(e.c.Bal(user.Addr, a.Denom)), c08bi(balPre))
	reward := new(big.Int).Sub(post.outToLenders[l.AssetID], pre.outToLenders[l.AssetID])
	bound := new(big.Int).Add(c08bi(l.AvailableToBorrow), reward)
	if closedBorrow != 0 {
		if cb, ok := pre.borrows[closedBorrow]; ok && cb.LendingID == lendID && !pre.handedOver(cb) {
			bound.Add(bound, c08bi(cb.AmountIn.Amount))
		}
	}
	if paid.Cmp(bound) > 0 {
		e.rec.Violate(fmt.Sprintf("C08/payout/%s/more-than-available", kind),
			fmt.Sprintf("lend %d paid out %s%s but only %s was available to borrow (+%s rewards credited)", lendID, paid, a.Denom, c08bi(l.AvailableToBorrow), reward),
			e.witness(map[string]interface{}{"lend_pre": fmt.Sprintf("%+v", l)}))
	}
	if paid.Cmp(bound) == 0 {
		e.rec.Count("payout_whole_available", 1)
		if reward.Sign() > 0 && !e.sampled["payout"] {
			e.sampled["payout"] = true
			e.rec.Sample(map[string]interface{}{"case": "pay-out of the whole available balance including rewards credited by the same tx", "kind": kind, "lend": fmt.Sprintf("id=%d in=%s atb(pre)=%s", l.ID, l.AmountIn, l.AvailableToBorrow), "paid": paid.String() + a.Denom, "rewards_credited": reward.String()})
		}
	}
	for id, b := range pre.borrows {
		if b.LendingID != lendID || id == closedBorrow || pre.handedOver(b) {
			continue
		}
		if kind == "close-lend" {
			e.rec.Violate("C08/payout/close-lend/with-open-borrow", fmt.Sprintf("lend %d closed while borrow %d with collateral %s was open", lendID, id, b.AmountIn),
				e.witness(map[string]interface{}{"lend_pre": fmt.Sprintf("%+v", l), "borrow_pre": fmt.Sprintf("%+v", b)}))
			continue
		}
		pb, ok := post.borrows[id]
		if !ok || !pb.AmountIn.IsEqual(b.AmountIn) {
			e.rec.Violate(fmt.Sprintf("C08/payout/%s/pledged-collateral-changed", kind), fmt.Sprintf("collateral of open borrow %d changed from %s", id, b.AmountIn),
				e.witness(map[string]interface{}{"borrow_pre": fmt.Sprintf("%+v", b), "borrow_post": fmt.Sprintf("%+v", pb)}))
		}
	}
}

// ---- workload ----

var c08Gaps = []time.Duration{time.Second, 6 * time.Second, time.Minute, time.Hour, 24 * time.Hour, 30 * 24 * time.Hour, 365 * 24 * time.Hour, 2 * 365 * 24 * time.Hour}

func (e *c08Env) amountClass(max *big.Int) (*big.Int, string) {
	// max is the "whole" quantity of the class (available / balance); may be zero
	switch x := e.rnd.Intn(100); {
	case x < 12:
		return big.NewInt(int64(1 + e.rnd.Intn(100))), "tiny"
	case x < 22 && max.Sign() > 0:
		return new(big.Int).Set(max), "whole"
	case x < 30:
		return new(big.Int).Add(max, big.NewInt(1)), "whole+1"
	case x < 36 && max.Sign() > 1:
		return new(big.Int).Sub(max, big.NewInt(1)), "whole-1"
	case x < 42:
		return new(big.Int).Add(new(big.Int).Mul(max, big.NewInt(2)), big.NewInt(int64(e.rnd.Intn(1000)))), "more-than-available"
	}
	if max.Sign() <= 0 {
		return big.NewInt(int64(1_000_000 + e.rnd.Intn(1_000_000_000))), "typical"
	}
	// typical: a random fraction of max
	f := big.NewInt(int64(1 + e.rnd.Intn(999)))
	v := new(big.Int).Mul(max, f)
	v.Quo(v, big.NewInt(1000))
	if v.Sign() == 0 {
		v.SetInt64(1)
	}
	return v, "typical"
}

func (e *c08Env) typicalAmount() *big.Int {
	// 1 .. 1e5 whole tokens, log-uniform
	exp := e.rnd.Intn(6)
	v := int64(1)
	for i := 0; i < exp; i++ {
		v *= 10
	}
	return big.NewInt((v + e.rnd.Int63n(9*v)) * 1_000_000)
}

func c08coin(denom string, v *big.Int) sdk.Coin {
	if v.Sign() <= 0 {
		v = big.NewInt(1)
	}
	return sdk.NewCoin(denom, sdk.NewIntFromBigInt(v))
}

type c08User struct {
	acct    *sim.Acct
	lends   []lendtypes.LendAsset
	borrows []lendtypes.BorrowAsset // not liquidated, lend position exists
}

func (e *c08Env) userState(s *c08Snap, a *sim.Acct) *c08User {
	u := &c08User{acct: a}
	var ids []uint64
	for id, l := range s.lends {
		if l.Owner == a.Addr.String() {
			ids = append(ids, id)
		}
	}
	sort.Slice(ids, func(i, j int) bool { return ids[i] < ids[j] })
	own := map[uint64]bool{}
	for _, id := range ids {
		u.lends = append(u.lends, s.lends[id])
		own[id] = true
	}
	ids = ids[:0]
	for id, b := range s.borrows {
		if own[b.LendingID] {
			ids = append(ids, id)
		}
	}
	sort.Slice(ids, func(i, j int) bool { return ids[i] < ids[j] })
	for _, id := range ids {
		u.borrows = append(u.borrows, s.borrows[id])
	}
	return u
}

// maxLoan: the largest loan the statement allows for pledging x of collateral
// asset `in` under pair p (code-like floors for the inter-pool bridge), given debt already there.
func (e *c08Env) maxLoan(p lendtypes.Extended_Pair, lendPool uint64, collAsset uint64, x *big.Int) *big.Int {
	ctx := e.c.Ctx()
	par, found := e.c.App.LendKeeper.GetAssetRatesParams(ctx, p.AssetIn)
	if !found {
		return new(big.Int)
	}
	ltv := c08DecRat(par.Ltv)
	if p.IsEModeEnabled {
		ltv = c08DecRat(par.ELtv)
	}
	unitOut := e.u.Value(p.AssetOut, big.NewInt(1))
	if !p.IsInterPool {
		return mon.MaxUnits(mon.LtvBound(e.u.Value(collAsset, x), ltv), unitOut)
	}
	pool := e.u.Pools[lendPool]
	if pool == nil {
		return new(big.Int)
	}
	// the bridge goes through the first transit asset when the lend's pool holds enough of it, otherwise
	// through the second one (same rule as the code; only used to aim the amounts, never to judge)
	t1 := pool.T1
	xl := mon.FloorRat(new(big.Rat).Mul(new(big.Rat).SetInt(x), ltv))
	q := mon.MaxUnits(e.u.Value(collAsset, xl), e.u.Value(t1, big.NewInt(1)))
	if q.Cmp(c08bi(e.poolBal(lendPool, e.u.Assets[t1].Denom))) >= 0 {
		t1 = pool.T2
		q = mon.MaxUnits(e.u.Value(collAsset, xl), e.u.Value(t1, big.NewInt(1)))
	}
	tpar, found := e.c.App.LendKeeper.GetAssetRatesParams(ctx, t1)
	if !found {
		return new(big.Int)
	}
	return mon.MaxUnits(mon.LtvBound(e.u.Value(t1, q), c08DecRat(tpar.Ltv)), unitOut)
}

func (e *c08Env) loanClass(max *big.Int, poolBal *big.Int) (*big.Int, string) {
	switch x := e.rnd.Intn(100); {
	case x < 8:
		return big.NewInt(int64(1 + e.rnd.Intn(1000))), "tiny"
	case x < 30:
		return new(big.Int).Set(max), "boundary"
	case x < 45:
		return new(big.Int).Add(max, big.NewInt(1)), "boundary+1"
	case x < 50 && max.Sign() > 1:
		return new(big.Int).Sub(max, big.NewInt(1)), "boundary-1"
	case x < 56:
		v := new(big.Int).Mul(max, big.NewInt(int64(101+e.rnd.Intn(30))))
		return v.Quo(v, big.NewInt(100)), "over-ltv"
	case x < 60:
		return new(big.Int).Add(poolBal, big.NewInt(1)), "pool+1"
	}
	f := big.NewInt(int64(50 + e.rnd.Intn(900)))
	v := new(big.Int).Mul(max, f)
	v.Quo(v, big.NewInt(1000))
	if v.Sign() == 0 {
		v.SetInt64(1)
	}
	return v, "typical"
}

func (e *c08Env) deliver(user *sim.Acct, msg sdk.Msg) (res sim.TxResult, panicked bool) {
	defer func() {
		if r := recover(); r != nil {
			panicked = true
			res = sim.TxResult{Code: 111222, Log: fmt.Sprint(r)}
			e.rec.Count("deliver_panics_escaped", 1)
		}
	}()
	return e.c.Deliver(user, msg), false
}

func c08ShortLog(s string) string {
	if i := strings.Index(s, "\n"); i >= 0 {
		s = s[:i]
	}
	if len(s) > 90 {
		s = s[len(s)-90:]
	}
	return s
}

// pairsFor lists the pair ids mapped to (asset, pool).
func (e *c08Env) pairsFor(asset, pool uint64) []uint64 {
	m, _ := e.c.App.LendKeeper.GetAssetToPair(e.c.Ctx(), asset, pool)
	return m.PairID
}

func (e *c08Env) poolBal(pool uint64, denom string) sdk.Int {
	return e.c.Bal(e.u.PoolAddr(pool), denom)
}

// one workload step: one transaction by one user
func (e *c08Env) txStep() {
	e.step++
	pre := e.snap()
	users := e.c.Accts[:5]
	acct := users[e.rnd.Intn(len(users))]
	us := e.userState(pre, acct)
	rec := e.rec
	k := e.c.App.LendKeeper
	addr := acct.Addr.String()

	// foreign ids for cross-user attempts
	foreign := e.rnd.Intn(100) < 4
	pickLend := func() (lendtypes.LendAsset, bool) {
		if foreign {
			for _, l := range pre.lends {
				if l.Owner != addr {
					return l, true
				}
			}
		}
		if len(us.lends) == 0 {
			return lendtypes.LendAsset{}, false
		}
		return us.lends[e.rnd.Intn(len(us.lends))], true
	}
	pickBorrow := func() (lendtypes.BorrowAsset, bool) {
		if foreign {
			var ids []uint64
			for id, b := range pre.borrows {
				if l, ok := pre.lends[b.LendingID]; ok && l.Owner != addr {
					ids = append(ids, id)
				}
			}
			sort.Slice(ids, func(i, j int) bool { return ids[i] < ids[j] })
			if len(ids) > 0 {
				return pre.borrows[ids[e.rnd.Intn(len(ids))]], true
			}
		}
		if len(us.borrows) == 0 {
			return lendtypes.BorrowAsset{}, false
		}
		return us.borrows[e.rnd.Intn(len(us.borrows))], true
	}

	ops := []string{"lend", "lend", "deposit", "withdraw", "withdraw", "close-lend", "borrow", "borrow", "borrow", "borrow-alternate", "deposit-borrow", "draw", "draw", "draw", "repay", "repay", "close-borrow", "calc", "repay-withdraw"}
	op := ops[e.rnd.Intn(len(ops))]
	if len(us.lends) == 0 && e.rnd.Intn(4) != 0 {
		op = "lend"
	}
	forced := e.force
	e.force = ""
	if forced != "" {
		op, foreign = "borrow-alternate", false
	}
	if foreign {
		rec.Count("cross_user_attempts", 1)
	}

	switch op {
	case "lend":
		pool := e.u.Pools[uint64(1+e.rnd.Intn(2))]
		asset := e.u.Assets[pool.Assets[e.rnd.Intn(len(pool.Assets))]]
		cls := "typical"
		amt := e.typicalAmount()
		if x := e.rnd.Intn(20); x == 0 {
			amt, cls = big.NewInt(int64(1+e.rnd.Intn(50))), "tiny"
		} else if x == 1 {
			amt, cls = new(big.Int).Add(c08bi(e.c.Bal(acct.Addr, asset.Denom)), big.NewInt(1)), "more-than-balance"
		} else if x == 2 { // asset not in the pool
			other := e.u.Pools[3-pool.ID]
			asset, cls = e.u.Assets[other.Main], "asset-not-in-pool"
		}
		msg := lendtypes.NewMsgLend(addr, asset.ID, c08coin(asset.Denom, amt), pool.ID, e.u.App)
		res, _ := e.deliver(acct, msg)
		e.finishTx(pre, op, cls, res, fmt.Sprintf("%s lend pool=%d %s%s [%s]", acct.Name, pool.ID, amt, asset.Denom, cls))

	case "deposit":
		l, ok := pickLend()
		if !ok {
			return
		}
		a := e.u.Assets[l.AssetID]
		amt := e.typicalAmount()
		cls := "typical"
		if e.rnd.Intn(10) == 0 {
			amt, cls = big.NewInt(int64(1+e.rnd.Intn(50))), "tiny"
		}
		res, _ := e.deliver(acct, lendtypes.NewMsgDeposit(addr, l.ID, c08coin(a.Denom, amt)))
		e.finishTx(pre, op, cls, res, fmt.Sprintf("%s deposit lend=%d %s%s [%s]", acct.Name, l.ID, amt, a.Denom, cls))

	case "withdraw":
		l, ok := pickLend()
		if !ok {
			return
		}
		a := e.u.Assets[l.AssetID]
		amt, cls := e.amountClass(c08bi(l.AvailableToBorrow))
		if e.rnd.Intn(8) == 0 && l.AmountIn.Amount.GT(l.AvailableToBorrow) {
			amt, cls = c08bi(l.AmountIn.Amount), "amount-in(pledged-part-included)"
		}
		balPre := e.c.Bal(acct.Addr, a.Denom)
		res, _ := e.deliver(acct, lendtypes.NewMsgWithdraw(addr, l.ID, c08coin(a.Denom, amt)))
		post := e.finishTx(pre, op, cls, res, fmt.Sprintf("%s withdraw lend=%d %s%s (atb=%s in=%s) [%s]", acct.Name, l.ID, amt, a.Denom, l.AvailableToBorrow, l.AmountIn.Amount, cls))
		if res.OK() {
			e.checkPayout(pre, post, "withdraw", acct, l.ID, 0, balPre)
		} else if cls == "whole+1" || strings.HasPrefix(cls, "amount-in") {
			rec.Count("withdraw_beyond_available_rejected", 1)
		}

	case "close-lend":
		l, ok := pickLend()
		if !ok {
			return
		}
		a := e.u.Assets[l.AssetID]
		open := 0
		for _, b := range pre.borrows {
			if b.LendingID == l.ID {
				open++
			}
		}
		cls := "no-borrows"
		if open > 0 {
			cls = "with-open-borrows"
		}
		balPre := e.c.Bal(acct.Addr, a.Denom)
		res, _ := e.deliver(acct, lendtypes.NewMsgCloseLend(addr, l.ID))
		post := e.finishTx(pre, op, cls, res, fmt.Sprintf("%s close-lend lend=%d (atb=%s in=%s borrows=%d)", acct.Name, l.ID, l.AvailableToBorrow, l.AmountIn.Amount, open))
		if res.OK() {
			e.checkPayout(pre, post, "close-lend", acct, l.ID, 0, balPre)
		} else if open > 0 {
			rec.Count("close_lend_with_open_borrow_rejected", 1)
		}

	case "borrow", "borrow-alternate":
		var l lendtypes.LendAsset
		var poolID, assetID uint64
		var x *big.Int
		var xcls string
		if op == "borrow" {
			var ok bool
			l, ok = pickLend()
			if !ok {
				return
			}
			poolID, assetID = l.PoolID, l.AssetID
			x, xcls = e.amountClass(c08bi(l.AvailableToBorrow))
			if xcls == "tiny" || xcls == "more-than-available" {
				if e.rnd.Intn(2) == 0 {
					x, xcls = e.amountClass(c08bi(l.AvailableToBorrow))
				}
			}
		} else {
			pool := e.u.Pools[uint64(1+e.rnd.Intn(2))]
			poolID, assetID = pool.ID, pool.Assets[e.rnd.Intn(len(pool.Assets))]
			x, xcls = e.typicalAmount(), "typical"
			if forced != "" {
				assetID = pool.Main
			}
			if forced == "same-pool-round" {
				x = big.NewInt(int64(1+e.rnd.Intn(9)) * 1_000_000_000)
			}
			if forced == "emode" {
				if ep, ok := e.pair(e.u.EModePair); ok {
					poolID, assetID = ep.AssetOutPoolID, ep.AssetIn
				}
			}
			if forced == "inter-pool-2" {
				// collateral large enough that the pool's first transit asset cannot carry the bridge
				if par, found := k.GetAssetRatesParams(e.c.Ctx(), assetID); found {
					need := e.u.Value(pool.T1, c08bi(e.poolBal(poolID, e.u.Assets[pool.T1].Denom)))
					need.Mul(need, big.NewRat(int64(1010+e.rnd.Intn(200)), 1000))
					need.Quo(need, c08DecRat(par.Ltv))
					x = new(big.Int).Add(mon.MaxUnits(need, e.u.Value(assetID, big.NewInt(1))), big.NewInt(1_000_000))
				}
			}
		}
		pairIDs := e.pairsFor(assetID, poolID)
		if forced != "" {
			var ip []uint64
			for _, id := range pairIDs {
				if p, ok := e.pair(id); ok && ((p.IsInterPool && forced != "same-pool" && forced != "same-pool-round" && forced != "emode") || ((forced == "same-pool" || forced == "same-pool-round") && !p.IsInterPool && !p.IsEModeEnabled) || (forced == "emode" && p.IsEModeEnabled)) {
					ip = append(ip, id)
				}
			}
			pairIDs = ip
		}
		mismatch := false
		if op == "borrow" && e.rnd.Intn(100) < 6 {
			// a pair of the same pool whose collateral asset is not the lend's asset
			pool := e.u.Pools[poolID]
			other := pool.Assets[e.rnd.Intn(len(pool.Assets))]
			if other != assetID {
				pairIDs = e.pairsFor(other, poolID)
				mismatch = true
			}
		}
		if len(pairIDs) == 0 {
			return
		}
		pid := pairIDs[e.rnd.Intn(len(pairIDs))]
		if e.rnd.Intn(40) == 0 && forced == "" {
			pid = uint64(1 + e.rnd.Intn(20))
		}
		p, found := e.pair(pid)
		if !found {
			return
		}
		collAsset := e.u.Assets[p.AssetIn]
		outAsset := e.u.Assets[p.AssetOut]
		if collAsset == nil || outAsset == nil {
			return
		}
		// existing borrow of this user for the pair -> the message is a top-up (deposit + draw)
		var existing *lendtypes.BorrowAsset
		for i := range us.borrows {
			if us.borrows[i].PairID == pid {
				existing = &us.borrows[i]
			}
		}
		stable := e.rnd.Intn(100) < 30
		poolBal := e.poolBal(p.AssetOutPoolID, outAsset.Denom)
		var max *big.Int
		if existing == nil {
			max = e.maxLoan(p, poolID, collAsset.ID, x)
		} else {
			tot := new(big.Int).Add(c08bi(existing.AmountIn.Amount), x)
			max = e.maxLoan(p, poolID, collAsset.ID, tot)
			if p.IsInterPool {
				// the bridge of a top-up is computed per deposit; use the plain product bound
				max = e.maxLoanProduct(p, *existing, tot)
			}
			max.Sub(max, c08bi(existing.AmountOut.Amount))
			max.Sub(max, existing.InterestAccumulated.TruncateInt().BigInt())
			if max.Sign() < 0 {
				max = new(big.Int)
			}
		}
		loan, lcls := e.loanClass(max, c08bi(poolBal))
		if forced != "" {
			loan, lcls = new(big.Int).Quo(new(big.Int).Mul(max, big.NewInt(int64(930+e.rnd.Intn(71)))), big.NewInt(1000)), "typical"
		}
		if forced == "same-pool-round" && loan.Cmp(big.NewInt(2_000_000)) > 0 {
			loan.Quo(loan, big.NewInt(1_000_000)).Mul(loan, big.NewInt(1_000_000)) // a round amount
		}
		path := op + "-new"
		if existing != nil {
			path = "topup" // deposit-borrow + draw on the existing position of the pair
		}
		var msg sdk.Msg
		if op == "borrow" {
			msg = lendtypes.NewMsgBorrow(addr, l.ID, pid, stable, c08coin(collAsset.CDenom, x), c08coin(outAsset.Denom, loan))
		} else {
			msg = lendtypes.NewMsgBorrowAlternate(addr, assetID, poolID, c08coin(e.u.Assets[assetID].Denom, x), pid, stable, c08coin(outAsset.Denom, loan), e.u.App)
		}
		counter := k.GetUserBorrowIDCounter(e.c.Ctx())
		res, _ := e.deliver(acct, msg)
		desc := fmt.Sprintf("%s %s lend=%d pool=%d asset=%d pair=%d(in=%d out=%d outpool=%d inter=%v emode=%v) stable=%v in=%s%s out=%s%s [in:%s loan:%s max=%s existing=%v mismatch=%v]",
			acct.Name, op, l.ID, poolID, assetID, pid, p.AssetIn, p.AssetOut, p.AssetOutPoolID, p.IsInterPool, p.IsEModeEnabled, stable, x, collAsset.CDenom, loan, outAsset.Denom, xcls, lcls, max, existing != nil, mismatch)
		post := e.finishTx(pre, op, lcls, res, desc)
		inOK := xcls == "typical" || xcls == "whole" || xcls == "whole-1" || (xcls == "tiny")
		if res.OK() {
			bid := counter + 1
			if existing != nil {
				bid = existing.ID
			}
			nb := post.borrows[bid]
			e.checkLTV(post, bid, path, c08coin(outAsset.Denom, loan), poolBal)
			if p.IsInterPool {
				rec.Count("ok_inter_pool_borrows", 1)
			}
			if nb.IsStableBorrow {
				rec.Count("ok_stable_borrows", 1)
			}
			if p.IsEModeEnabled {
				rec.Count("ok_emode_borrows", 1)
			}
			if mismatch {
				rec.Count("ok_mismatched_pair_borrows", 1)
			}
			if lcls == "boundary" {
				rec.Count("boundary_max_accepted", 1)
				if p.IsInterPool && !e.sampled["interpool"] {
					e.sampled["interpool"] = true
					rec.Sample(map[string]interface{}{"case": "inter-pool borrow accepted at the solved maximum", "op": desc, "borrow": fmt.Sprintf("%+v", nb), "prices": e.priceString()})
				}
			}
			if lcls == "boundary+1" && !(p.IsInterPool && existing != nil) {
				rec.Count("boundary_plus1_accepted", 1) // judged by checkLTV only
			}
		} else if inOK && !mismatch && !foreign && c08bi(poolBal).Cmp(loan) >= 0 {
			switch lcls {
			case "boundary+1":
				if strings.Contains(res.Log, "Collateralization") {
					rec.Count("boundary_plus1_rejected", 1)
				}
			case "over-ltv":
				if strings.Contains(res.Log, "Collateralization") {
					rec.Count("over_ltv_rejected", 1)
				}
			case "boundary":
				if strings.Contains(res.Log, "Collateralization") {
					rec.Count("boundary_max_rejected_by_rounding", 1)
				}
			}
		}
		if !res.OK() && lcls == "pool+1" {
			rec.Count("loan_more_than_pool_rejected", 1)
		}

	case "deposit-borrow":
		b, ok := pickBorrow()
		if !ok {
			return
		}
		l := pre.lends[b.LendingID]
		amt, cls := e.amountClass(c08bi(l.AvailableToBorrow))
		res, _ := e.deliver(acct, lendtypes.NewMsgDepositBorrow(addr, b.ID, c08coin(b.AmountIn.Denom, amt)))
		e.finishTx(pre, op, cls, res, fmt.Sprintf("%s deposit-borrow borrow=%d %s%s (lend atb=%s) [%s]", acct.Name, b.ID, amt, b.AmountIn.Denom, l.AvailableToBorrow, cls))

	case "draw":
		b, ok := pickBorrow()
		if !ok {
			return
		}
		p, found := e.pair(b.PairID)
		if !found {
			return
		}
		// settle interest first in the same block, so the boundary can be solved from the state
		settled := false
		if e.rnd.Intn(100) < 70 && !foreign {
			r0, _ := e.deliver(acct, lendtypes.NewMsgCalculateInterestAndRewards(addr))
			mid := e.finishTx(pre, "calc", "before-draw", r0, fmt.Sprintf("%s calc (before draw)", acct.Name))
			pre = mid
			if nb, ok := pre.borrows[b.ID]; ok {
				b = nb
				settled = true
			} else {
				return
			}
		}
		l := pre.lends[b.LendingID]
		outAsset := e.u.Assets[p.AssetOut]
		collAsset := e.u.ByDenom[b.AmountIn.Denom]
		if outAsset == nil || collAsset == nil {
			return
		}
		var room *big.Int
		if p.IsInterPool {
			room = e.maxLoanProduct(p, b, c08bi(b.AmountIn.Amount))
		} else {
			room = e.maxLoan(p, l.PoolID, collAsset.ID, c08bi(b.AmountIn.Amount))
		}
		intr := b.InterestAccumulated.TruncateInt().BigInt()
		room.Sub(room, c08bi(b.AmountOut.Amount))
		room.Sub(room, intr)
		if room.Sign() < 0 {
			room = new(big.Int)
		}
		poolBal := e.poolBal(p.AssetOutPoolID, outAsset.Denom)
		amt, cls := e.loanClass(room, c08bi(poolBal))
		if e.rnd.Intn(100) < 12 && intr.Sign() > 0 {
			amt, cls = new(big.Int).Add(room, intr), "boundary-ignoring-interest"
		}
		res, _ := e.deliver(acct, lendtypes.NewMsgDraw(addr, b.ID, c08coin(outAsset.Denom, amt)))
		post := e.finishTx(pre, op, cls, res, fmt.Sprintf("%s draw borrow=%d pair=%d(inter=%v emode=%v) %s%s (in=%s out=%s int=%s room=%s settled=%v) [%s]", acct.Name, b.ID, b.PairID, p.IsInterPool, p.IsEModeEnabled, amt, outAsset.Denom, b.AmountIn, b.AmountOut, b.InterestAccumulated, room, settled, cls))
		if res.OK() {
			e.checkLTV(post, b.ID, "draw", c08coin(outAsset.Denom, amt), poolBal)
			if cls == "boundary" {
				rec.Count("boundary_max_accepted", 1)
			}
			if intr.Sign() > 0 {
				rec.Count("ok_draws_with_accrued_interest", 1)
			}
		} else if !foreign && c08bi(poolBal).Cmp(amt) >= 0 && strings.Contains(res.Log, "Collateralization") {
			switch cls {
			case "boundary+1":
				if settled {
					rec.Count("boundary_plus1_rejected", 1)
				}
			case "boundary-ignoring-interest":
				rec.Count("boundary_ignoring_interest_rejected", 1)
			case "over-ltv":
				rec.Count("over_ltv_rejected", 1)
			}
		}

	case "repay":
		b, ok := pickBorrow()
		if !ok {
			return
		}
		debt := new(big.Int).Add(c08bi(b.AmountOut.Amount), b.InterestAccumulated.TruncateInt().BigInt())
		var amt *big.Int
		var cls string
		switch x := e.rnd.Intn(100); {
		case x < 15:
			amt, cls = big.NewInt(int64(1+e.rnd.Intn(100))), "tiny"
		case x < 30 && b.InterestAccumulated.TruncateInt().IsPositive():
			amt, cls = b.InterestAccumulated.TruncateInt().BigInt(), "interest-only"
		case x < 45:
			amt, cls = debt, "whole-debt(stored)"
		case x < 55:
			amt, cls = new(big.Int).Add(debt, big.NewInt(int64(1+e.rnd.Intn(1000)))), "more-than-debt"
		default:
			f := big.NewInt(int64(1 + e.rnd.Intn(999)))
			amt = new(big.Int).Mul(debt, f)
			amt.Quo(amt, big.NewInt(1000))
			cls = "typical"
		}
		res, _ := e.deliver(acct, lendtypes.NewMsgRepay(addr, b.ID, c08coin(b.AmountOut.Denom, amt)))
		e.finishTx(pre, op, cls, res, fmt.Sprintf("%s repay borrow=%d %s%s (out=%s int=%s) [%s]", acct.Name, b.ID, amt, b.AmountOut.Denom, b.AmountOut, b.InterestAccumulated, cls))

	case "close-borrow":
		b, ok := pickBorrow()
		if !ok {
			return
		}
		res, _ := e.deliver(acct, lendtypes.NewMsgCloseBorrow(addr, b.ID))
		e.finishTx(pre, op, "", res, fmt.Sprintf("%s close-borrow borrow=%d (in=%s out=%s int=%s)", acct.Name, b.ID, b.AmountIn, b.AmountOut, b.InterestAccumulated))

	case "calc":
		res, _ := e.deliver(acct, lendtypes.NewMsgCalculateInterestAndRewards(addr))
		e.finishTx(pre, op, "", res, fmt.Sprintf("%s calc", acct.Name))

	case "repay-withdraw":
		b, ok := pickBorrow()
		if !ok {
			return
		}
		l := pre.lends[b.LendingID]
		a := e.u.Assets[l.AssetID]
		if a == nil {
			return
		}
		balPre := e.c.Bal(acct.Addr, a.Denom)
		res, _ := e.deliver(acct, lendtypes.NewMsgRepayWithdraw(addr, b.ID))
		post := e.finishTx(pre, op, "", res, fmt.Sprintf("%s repay-withdraw borrow=%d lend=%d (in=%s out=%s atb=%s)", acct.Name, b.ID, l.ID, b.AmountIn, b.AmountOut, l.AvailableToBorrow))
		if res.OK() {
			p, _ := e.pair(b.PairID)
			if p.AssetOut != l.AssetID { // otherwise the debt payment and the pay-out are in the same denom
				e.checkPayout(pre, post, "repay-withdraw", acct, l.ID, b.ID, balPre)
			}
		}
	}
}

// maxLoanProduct: statement bound for an inter-pool position: value(collateral) * LTV_in(*e) * LTV_transit.
func (e *c08Env) maxLoanProduct(p lendtypes.Extended_Pair, b lendtypes.BorrowAsset, coll *big.Int) *big.Int {
	ltv, _, ok := e.applicableLTV(b, p)
	if !ok {
		return new(big.Int)
	}
	ca := e.u.ByDenom[b.AmountIn.Denom]
	if ca == nil {
		return new(big.Int)
	}
	return mon.MaxUnits(mon.LtvBound(e.u.Value(ca.ID, coll), ltv), e.u.Value(p.AssetOut, big.NewInt(1)))
}

// finishTx records the outcome, takes the post snapshot and evaluates the books.
func (e *c08Env) finishTx(pre *c08Snap, op, cls string, res sim.TxResult, desc string) *c08Snap {
	e.rec.Count("att_"+op, 1)
	outcome := "ok"
	if res.OK() {
		e.rec.Count("ok_"+op, 1)
	} else {
		e.rec.Count("rej_"+op, 1)
		outcome = "rejected: " + c08ShortLog(res.Log)
		if strings.Contains(res.Log, "panic") || res.Code == 111222 {
			e.rec.Count("tx_panics_recovered", 1)
			if e.rec.Get("tx_panics_recovered") <= 3 {
				e.rec.Note(fmt.Sprintf("tx panic (recovered by the app): %s -> %s", desc, c08ShortLog(res.Log)))
			}
		}
	}
	e.log(desc + " -> " + outcome)
	post := e.snap()
	e.rec.Distinct("tx", op, cls, res.OK(), len(post.borrows) > 0, e.variant)
	after := op
	e.lastPre = pre
	e.checkBooks(post, after, nil)
	e.lastPre = nil
	if !res.OK() {
		// a rejected transaction must not have changed positions or totals
		e.rec.Eval(1)
		if d := c08SnapDiff(pre, post); d != "" {
			e.rec.Violate(fmt.Sprintf("C08/rejected-tx-changed-state/%s", op), d, e.witness(nil))
		}
	}
	return post
}

func c08SnapDiff(a, b *c08Snap) string {
	if len(a.lends) != len(b.lends) || len(a.borrows) != len(b.borrows) {
		return fmt.Sprintf("number of positions changed: lends %d->%d borrows %d->%d", len(a.lends), len(b.lends), len(a.borrows), len(b.borrows))
	}
	for id, l := range a.lends {
		m, ok := b.lends[id]
		if !ok || !m.AvailableToBorrow.Equal(l.AvailableToBorrow) || !m.AmountIn.IsEqual(l.AmountIn) {
			return fmt.Sprintf("lend %d changed: %+v -> %+v", id, l, m)
		}
	}
	for id, x := range a.borrows {
		y, ok := b.borrows[id]
		if !ok || !x.AmountIn.IsEqual(y.AmountIn) || !x.AmountOut.IsEqual(y.AmountOut) || !x.InterestAccumulated.Equal(y.InterestAccumulated) || x.IsLiquidated != y.IsLiquidated {
			return fmt.Sprintf("borrow %d changed: %+v -> %+v", id, x, y)
		}
	}
	for k, s := range a.stats {
		t := b.stats[k]
		if c08bi(s.TotalLend).Cmp(c08bi(t.TotalLend)) != 0 || c08bi(s.TotalBorrowed).Cmp(c08bi(t.TotalBorrowed)) != 0 || c08bi(s.TotalStableBorrowed).Cmp(c08bi(t.TotalStableBorrowed)) != 0 {
			return fmt.Sprintf("totals of pool %d asset %d changed", k[0], k[1])
		}
	}
	return ""
}

// blockStep closes the block, optionally moves prices, opens the next one dt later.
func (e *c08Env) blockStep() {
	e.step++
	dt := c08Gaps[e.rnd.Intn(len(c08Gaps))]
	pre := e.snap()
	openBorrows := 0
	for _, b := range pre.borrows {
		if !b.IsLiquidated {
			openBorrows++
		}
	}
	// price moves are applied at the end of the block: they are in force for
	// the begin blocker (liquidation sweep) and the transactions of the next block
	move := ""
	if x := e.rnd.Intn(100); x < 25 {
		id := e.u.Order[e.rnd.Intn(len(e.u.Order))]
		p, _ := e.u.Price(id)
		pct := int64(e.rnd.Intn(9)) - 4 // -4 .. +4 %
		np := uint64(int64(p) + int64(p)*pct/100)
		if np < 100_000 {
			np = 100_000
		}
		e.u.SetPrice(id, np, true)
		move = fmt.Sprintf(" price %s %d->%d", e.u.Assets[id].Denom, p, np)
		e.rec.Count("price_moves", 1)
	} else if e.liqRun && x < 32 && openBorrows > 0 {
		id := e.u.Order[e.rnd.Intn(len(e.u.Order))]
		p, _ := e.u.Price(id)
		np := p * uint64(45+e.rnd.Intn(30)) / 100
		if np < 100_000 {
			np = 100_000
		}
		e.u.SetPrice(id, np, true)
		move = fmt.Sprintf(" CRASH %s %d->%d", e.u.Assets[id].Denom, p, np)
		e.rec.Count("price_crashes", 1)
	}
	e.c.NextBlock(dt)
	e.rec.Count("blocks", 1)
	if dt >= time.Hour && openBorrows > 0 {
		e.rec.Count("accrual_blocks", 1)
	}
	post := e.snap()
	liq := 0
	var seized []string
	for id, b := range post.borrows {
		if b.IsLiquidated && !pre.borrows[id].IsLiquidated {
			liq++
			lp, lq := pre.lends[b.LendingID], post.lends[b.LendingID]
			seized = append(seized, fmt.Sprintf("borrow %d (lend=%d pair=%d in=%s out=%s int=%s record=%v; lend pre{asset=%d in=%s atb=%s} post{in=%s atb=%s})", id, b.LendingID, b.PairID, b.AmountIn, b.AmountOut, b.InterestAccumulated, post.locked[id], lp.AssetID, lp.AmountIn.Amount, lp.AvailableToBorrow, lq.AmountIn.Amount, lq.AvailableToBorrow))
		}
	}
	sort.Strings(seized)
	e.log(fmt.Sprintf("block +%s%s -> height %d, %d borrows seized %s", dt, move, e.c.Header.Height, liq, strings.Join(seized, "; ")))
	after := "block"
	causes := map[[2]uint64]string{}
	if liq > 0 {
		after = "block-with-liquidation"
		e.rec.Count("borrows_seized_by_liquidation", int64(liq))
		for id, l := range pre.lends {
			if _, still := post.lends[id]; still {
				continue
			}
			// the sweep deleted a lend position; was it still backing something?
			inUse := ""
			if l.AvailableToBorrow.IsPositive() {
				inUse = fmt.Sprintf("available balance %s", l.AvailableToBorrow)
			}
			for bid, b := range post.borrows {
				if b.LendingID == id && !post.handedOver(b) {
					inUse += fmt.Sprintf(" open borrow %d with collateral %s", bid, b.AmountIn)
				}
			}
			if inUse != "" {
				causes[[2]uint64{l.PoolID, l.AssetID}] = "liquidation/lend-position-deleted-while-in-use"
				e.rec.Count("lend_positions_deleted_while_in_use", 1)
				e.log(fmt.Sprintf("lend %d (in=%s) deleted by the liquidation sweep while in use: %s", id, l.AmountIn.Amount, inUse))
			}
		}
	}
	e.rec.Distinct("block", dt, liq > 0, openBorrows > 0, e.variant)
	e.checkBooks(post, after, causes)
}

func TestC08(t *testing.T) {
	rec := ev.New("C08", "exploration", "seeded random histories of real signed lend-module transactions (all 12 user messages) by 5 users over 2 pools sharing their transit assets; amounts by class (tiny/typical/boundary solved from state/+-1/whole/more than available); blocks with gaps 1s..2y, price moves, price crashes with generation-2 liquidation in part of the runs, there also bidders (tiny / partial / exact / oversized market bids) settling the auctions of seized borrows, an app reserve fund that is large / small / absent, and a final phase with the generation-1 liquidate-borrow message and bids on its lend auctions; fund messages, rate-model updates and price-feed outages in the middle of every history; 3 universe variants (round prices, odd prices + 1e8 decimals, steep rates). distinct = (message, amount class, outcome, variant) and (LTV path, class, sign of debt-bound, interest>0) tuples")
	defer finish(t, rec)
	rnd := rng("C08")
	runs := ev.Pick(4, 14)
	steps := ev.Pick(1500, 6000)
	for run := 0; run < runs; run++ {
		variant := (run+ev.ShardNo())%3 + 3*(((run+ev.ShardNo())/3)%2)
		liqRun := (run+ev.ShardNo()/3)%2 == 1
		c08Run(t, rec, rnd, run, variant, liqRun, steps)
	}
	for _, m := range []string{"lend", "deposit", "withdraw", "close-lend", "borrow", "borrow-alternate", "deposit-borrow", "draw", "repay", "close-borrow", "calc", "repay-withdraw"} {
		rec.Floor("ok_"+m, 10)
	}
	rec.Floor("books_checks", 10000)
	rec.Floor("ltv_checks", 200)
	rec.Floor("payout_checks", 50)
	rec.Floor("boundary_max_accepted", 20)
	rec.Floor("boundary_plus1_rejected", 10)
	rec.Floor("accepted_at_exactly_ltv", 5)
	rec.Floor("ok_inter_pool_borrows", 5)
	rec.Floor("ok_stable_borrows", 5)
	rec.Floor("accrual_blocks", 50)
	rec.Floor("ltv_checks_with_accrued_interest", 10)
	rec.Floor("ok_emode_borrows", 3)
	rec.Floor("boundary_ignoring_interest_rejected", 5)
	rec.Floor("withdraw_beyond_available_rejected", 10)
	rec.Floor("close_lend_with_open_borrow_rejected", 10)
	rec.Floor("borrows_seized_by_liquidation", 5)
	rec.Floor("lend_auction_bids_ok", 20)
	rec.Floor("lend_auctions_settled", 5)
	rec.Floor("borrows_seized_by_gen1_message", 3)
	rec.Floor("gen1_lend_auctions_closed", 2)
	rec.Floor("rate_param_updates_mid_run", 10)
	rec.Floor("ok_fund-module", 10)
	rec.Floor("ok_fund-reserve", 5)
	rec.Floor("steps_with_an_inactive_price", 50)
	rec.Assume("oracle prices are the TWA records read through MarketKeeper.GetTwa; they are set by the harness between blocks and stay active (no band-oracle feed is installed)")
	rec.Assume("applicable LTV: collateral asset's Ltv (ELtv for an e-mode pair); for an inter-pool borrow multiplied by the Ltv of the transit asset that was bridged; accrued interest is counted as floor(InterestAccumulated) after the accrual done by the transaction itself")
	rec.Assume("rewards credited to a lend position inside a withdraw / close-lend transaction are read from the module's AllReserveStats.TotalAmountOutToLenders delta")
}

// c08Setup builds the lend universe on a fresh chain (deterministic given variant).
// c08InitialHeight: when set, the next lend universes start at this height (used to reach the daily hook of the lend
// begin blocker, which fires at multiples of 14400).
var c08InitialHeight int64

func c08Setup(t *testing.T, rec *ev.Rec, rnd *rand.Rand, run, variant int, liqRun bool) *c08Env {
	c := sim.New(sim.Options{NAccts: 7, Balances: lendBalances(), InitialHeight: c08InitialHeight})
	e := &c08Env{t: t, c: c, rec: rec, rnd: rnd, run: run, variant: variant, liqRun: liqRun, lastDiff: map[string]string{}, pairs: map[uint64]lendtypes.Extended_Pair{}, sampled: map[string]bool{}}
	c.PanicHook = func(phase string, h int64, r interface{}) {
		e.panicked = true
		rec.Count("block_panics", 1)
		rec.Count("block_panics_"+phase+"_"+panicClass(r), 1)
		if rec.Get("block_panics") <= 3 {
			rec.Note(fmt.Sprintf("run %d variant %d: %s at height %d panicked: %v | last ops: %s", run, variant, phase, h, r, strings.Join(e.tail(4), " ;; ")))
		}
		e.log(fmt.Sprintf("%s at height %d panicked: %v", phase, h, r))
	}
	// variant = universe variant (0..2) + 3 when the FIRST transit asset is the scarce one, so that inter-pool
	// borrows are routed through the second transit asset as well
	scarceFirst := (variant/3)%2 == 1
	// every second variant: the lend app has id 3 as on the production chain (some handlers name that id)
	lendAppSlot := 1
	if variant%2 == 0 {
		lendAppSlot = 3
	}
	e.u = lendUniverseApp(t, c, variant%3, lendAppSlot)
	c.NextBlock(6 * time.Second)
	// liquidity: the funder (account 5) funds pools and the reserve through real transactions
	funder := c.Accts[5]
	for _, pid := range c08SortedPools(e.u) {
		p := e.u.Pools[pid]
		for _, aid := range p.Assets {
			a := e.u.Assets[aid]
			amt := sdk.NewInt(50_000_000_000)
			if (aid == p.T2 && !scarceFirst) || (aid == p.T1 && scarceFirst) {
				amt = sdk.NewInt(3_000_000) // one scarce transit asset: "pool does not hold the coins" is reachable
			}
			res := c.Deliver(funder, lendtypes.NewMsgFundModuleAccounts(pid, aid, funder.Addr.String(), sdk.NewCoin(a.Denom, amt)))
			if !res.OK() {
				t.Fatalf("harness set-up: fund module account failed: %s", res.Log)
			}
		}
	}
	for _, aid := range e.u.Order {
		res := c.Deliver(funder, lendtypes.NewMsgFundReserveAccounts(aid, funder.Addr.String(), sdk.NewCoin(e.u.Assets[aid].Denom, sdk.NewInt(10_000_000_000_000))))
		if !res.OK() {
			t.Fatalf("harness set-up: fund reserve failed: %s", res.Log)
		}
	}
	c.NextBlock(6 * time.Second)
	for _, id := range e.u.Order {
		if _, act := e.u.Price(id); !act {
			t.Fatalf("harness set-up: price of asset %d not active after a block", id)
		}
	}
	return e
}

func c08SortedPools(u *lendU) []uint64 {
	var ids []uint64
	for id := range u.Pools {
		ids = append(ids, id)
	}
	sort.Slice(ids, func(i, j int) bool { return ids[i] < ids[j] })
	return ids
}

func c08Run(t *testing.T, rec *ev.Rec, rnd *rand.Rand, run, variant int, liqRun bool, steps int) {
	e := c08Setup(t, rec, rnd, run, variant, liqRun)
	c := e.c
	defer c.Close()
	e.checkBooks(e.snap(), "setup", nil)
	if liqRun {
		// the app's reserve fund (auctions of seized borrows draw on it when the collateral does not cover the
		// target): large, small or absent, so that "covers the shortage" and "cannot cover it" both occur
		for _, id := range e.u.Order {
			amt := sdk.NewInt(200_000_000_000)
			switch (run + ev.ShardNo()) % 3 {
			case 1:
				amt = sdk.NewInt(50_000)
			case 2:
				continue
			}
			pre := e.snap()
			res, _ := e.deliver(c.Accts[5], &liqV2types.MsgAppReserveFundsRequest{From: c.Accts[5].Addr.String(), AppId: e.u.App, AssetId: id, TokenQuantity: sdk.NewCoin(e.u.Assets[id].Denom, amt)})
			e.finishTx(pre, "fund-app-reserve", "set-up", res, fmt.Sprintf("app reserve %s%s", amt, e.u.Assets[id].Denom))
		}
	}
	main := steps
	if liqRun {
		main = steps * 85 / 100
	}
	for i := 0; i < main && !e.panicked; i++ {
		e.tickOutages()
		switch x := e.rnd.Intn(100); {
		case x < 29:
			e.blockStep()
		case x < 32:
			e.adminStep()
		case x < 42 && liqRun:
			if !e.bidStep() {
				e.txStep()
			}
		default:
			e.txStep()
		}
	}
	e.endOutages()
	if liqRun {
		e.gen1Phase(steps - main)
	}
	rec.Count("runs", 1)
	if liqRun {
		rec.Count("runs_with_liquidation", 1)
	}
	if run == 0 {
		n := len(e.hist)
		if n > 12 {
			n = 12
		}
		rec.Sample(map[string]interface{}{"case": "tail of a history", "variant": variant, "ops": append([]string(nil), e.hist[len(e.hist)-n:]...)})
	}
}
