package props

import (
	"fmt"
	"math/big"
	"math/rand"
	"strings"
	"testing"

	sdkmath "cosmossdk.io/math"

	"github.com/comdex-official/comdex/x/liquidity/amm"

	"verif/ev"
	"verif/mon"
)

// C06 — pool shares are fair. The real amm.Deposit / amm.Withdraw /
// amm.CreateRangedPool / amm.NewRangedPool / Price() are driven on an
// exhaustive small domain, on scaled copies of it (so that the 18-decimal
// roundings inside the code are hit), on seeded wide random inputs up to 10^40
// and on operation sequences; every answer is decided by mon.C06* in big.Int.

var (
	c06Max  = new(big.Int).Exp(big.NewInt(10), big.NewInt(40), nil) // amm.MaxCoinAmount
	c06One  = big.NewInt(1)
	c06Dec  = new(big.Int).Exp(big.NewInt(10), big.NewInt(18), nil)
	c06Fees = []string{"0", "0.003", "0.5"}
)

func c06Pow10(m int) *big.Int { return new(big.Int).Exp(big.NewInt(10), big.NewInt(int64(m)), nil) }
func c06I(b *big.Int) sdkmath.Int {
	return sdkmath.NewIntFromBigInt(b)
}
func c06B(v int64) *big.Int { return big.NewInt(v) }
func c06Digits(b *big.Int) int {
	if b.Sign() == 0 {
		return 0
	}
	return len(b.Text(10))
}
func c06Cap(b *big.Int) *big.Int {
	if b.Cmp(c06Max) > 0 {
		return new(big.Int).Set(c06Max)
	}
	if b.Sign() < 0 {
		return new(big.Int)
	}
	return b
}

func c06Shape(rx, ry *big.Int) string {
	switch {
	case rx.Sign() == 0 && ry.Sign() == 0:
		return "empty"
	case rx.Sign() == 0:
		return "one-sided-y"
	case ry.Sign() == 0:
		return "one-sided-x"
	}
	return "two-sided"
}

// c06Amt draws an amount in [0, 10^40] with boundary-heavy structure.
func c06Amt(rnd *rand.Rand) *big.Int {
	switch rnd.Intn(12) {
	case 0:
		return c06B(int64(rnd.Intn(13)))
	case 1:
		return c06Pow10(rnd.Intn(41))
	case 2:
		return new(big.Int).Sub(c06Pow10(rnd.Intn(41)), c06One)
	case 3:
		return c06Cap(new(big.Int).Add(c06Pow10(rnd.Intn(41)), c06One))
	case 4:
		return new(big.Int).Mul(c06B(int64(rnd.Intn(9)+1)), c06Pow10(rnd.Intn(40)))
	case 5:
		return new(big.Int).Lsh(c06One, uint(rnd.Intn(133)))
	case 6:
		return new(big.Int).Exp(c06B(3), c06B(int64(rnd.Intn(84))), nil)
	}
	m := rnd.Intn(41)
	lo := c06Pow10(m)
	v := new(big.Int).Rand(rnd, new(big.Int).Mul(lo, c06B(9)))
	return c06Cap(v.Add(v, lo))
}

func c06AmtPos(rnd *rand.Rand) *big.Int {
	for {
		if v := c06Amt(rnd); v.Sign() > 0 {
			return v
		}
	}
}

// c06Frac returns floor(v*a/b) + d, clamped to [0, 10^40].
func c06Frac(v *big.Int, a, b, d int64) *big.Int {
	r := new(big.Int).Mul(v, c06B(a))
	r.Quo(r, c06B(b))
	r.Add(r, c06B(d))
	return c06Cap(r)
}

type c06Run struct {
	rec *ev.Rec
	// per mode sample bookkeeping
	sampled map[string]int
}

func (e *c06Run) sample(kind string, v map[string]interface{}) {
	if e.sampled[kind] >= 1 {
		return
	}
	e.sampled[kind]++
	e.rec.Sample(v)
}

// deposit runs the real amm.Deposit and decides the answer. accepted mirrors
// the keeper: a deposit is executed iff pc > 0.
func (e *c06Run) deposit(mode string, rx, ry, ps, x, y *big.Int, ctxNote string) (ax, ay, pc *big.Int, accepted bool) {
	rec := e.rec
	rec.Count("deposit_attempted", 1)
	var iax, iay, ipc sdkmath.Int
	panicked := false
	func() {
		defer func() {
			if r := recover(); r != nil {
				panicked = true
				rec.Count("deposit_panicked_"+panicClass(r), 1)
			}
		}()
		iax, iay, ipc = amm.Deposit(c06I(rx), c06I(ry), c06I(ps), c06I(x), c06I(y))
	}()
	if panicked {
		return nil, nil, nil, false
	}
	ax, ay, pc = iax.BigInt(), iay.BigInt(), ipc.BigInt()
	if pc.Sign() == 0 {
		rec.Count("deposit_rejected_zero_shares", 1)
		return ax, ay, pc, false
	}
	shape := c06Shape(rx, ry)
	rec.Eval(1)
	rec.Count("deposit_accepted", 1)
	rec.Count("deposit_accepted_"+mode, 1)
	rec.Count("deposit_accepted_"+shape, 1)
	if ax.Cmp(x) < 0 || ay.Cmp(y) < 0 {
		rec.Count("deposit_accepted_with_refund", 1)
	} else {
		rec.Count("deposit_accepted_exact_fit", 1)
	}
	if pc.Cmp(ps) >= 0 {
		rec.Count("deposit_accepted_at_least_doubling_supply", 1)
	}
	br, strict := mon.C06Deposit(rx, ry, ps, x, y, ax, ay, pc)
	if strict {
		rec.Count("deposit_rate_dust_to_depositor_within_1e-17", 1)
	}
	detail := func() map[string]interface{} {
		return map[string]interface{}{"mode": mode, "call": "amm.Deposit(rx,ry,ps,x,y)", "rx": rx.String(), "ry": ry.String(), "ps": ps.String(), "x": x.String(), "y": y.String(),
			"ax": ax.String(), "ay": ay.String(), "pc": pc.String(), "context": ctxNote}
	}
	for _, b := range br {
		rec.Violate("C06/deposit/"+shape+"/"+b.Law, b.What, detail())
	}
	if mode == "small" {
		rec.Distinct("D", rx, ry, ps, x, y)
	} else {
		rec.Distinct("D", shape, c06Digits(rx), c06Digits(ry), c06Digits(ps), c06Digits(x), c06Digits(y), c06Digits(pc), strict, ax.Cmp(x), ay.Cmp(y))
	}
	if mode == "wide" || (mode == "small" && rx.Cmp(c06B(5)) == 0 && ps.Cmp(c06B(3)) == 0 && x.Cmp(c06B(2)) == 0 && y.Cmp(c06B(7)) == 0) {
		e.sample("deposit-"+mode, detail())
	}
	if strict && mode == "wide" {
		e.sample("deposit-dust-to-depositor", detail())
	}
	return ax, ay, pc, true
}

// withdraw runs the real amm.Withdraw for pc <= ps shares. accepted mirrors the
// keeper: executed iff something is returned.
func (e *c06Run) withdraw(mode string, rx, ry, ps, pc, feeNum *big.Int, ctxNote string) (x, y *big.Int, accepted bool) {
	rec := e.rec
	rec.Count("withdraw_attempted", 1)
	fee := sdkmath.LegacyNewDecFromBigIntWithPrec(feeNum, 18)
	var ix, iy sdkmath.Int
	panicked := false
	func() {
		defer func() {
			if r := recover(); r != nil {
				panicked = true
				rec.Count("withdraw_panicked_"+panicClass(r), 1)
			}
		}()
		ix, iy = amm.Withdraw(c06I(rx), c06I(ry), c06I(ps), c06I(pc), fee)
	}()
	if panicked {
		return nil, nil, false
	}
	x, y = ix.BigInt(), iy.BigInt()
	if x.Sign() == 0 && y.Sign() == 0 {
		rec.Count("withdraw_rejected_nothing_returned", 1)
		return x, y, false
	}
	shape := c06Shape(rx, ry)
	last := pc.Cmp(ps) == 0
	rec.Eval(1)
	rec.Count("withdraw_accepted", 1)
	rec.Count("withdraw_accepted_"+mode, 1)
	rec.Count("withdraw_accepted_"+shape, 1)
	if last {
		rec.Count("withdraw_last_shares", 1)
		if feeNum.Sign() > 0 {
			rec.Count("withdraw_last_shares_with_fee", 1)
		}
	}
	if feeNum.Sign() > 0 {
		rec.Count("withdraw_accepted_with_fee", 1)
	}
	br := mon.C06Withdraw(rx, ry, ps, pc, feeNum, x, y)
	detail := func() map[string]interface{} {
		return map[string]interface{}{"mode": mode, "call": "amm.Withdraw(rx,ry,ps,pc,fee)", "rx": rx.String(), "ry": ry.String(), "ps": ps.String(), "pc": pc.String(), "fee": fee.String(),
			"x": x.String(), "y": y.String(), "context": ctxNote}
	}
	for _, b := range br {
		rec.Violate("C06/withdraw/"+shape+"/"+b.Law, b.What, detail())
	}
	if mode == "small" {
		rec.Distinct("W", rx, ry, ps, pc, feeNum)
	} else {
		rec.Distinct("W", shape, c06Digits(rx), c06Digits(ry), c06Digits(ps), c06Digits(pc), c06Digits(feeNum), last, c06Digits(x), c06Digits(y))
	}
	if (mode == "wide" && !last && feeNum.Sign() > 0) || (mode == "sequence" && last) {
		e.sample("withdraw-"+mode, detail())
	}
	return x, y, true
}

func c06FeeNum(s string) *big.Int {
	return sdkmath.LegacyMustNewDecFromStr(s).BigInt()
}

func c06RandFee(rnd *rand.Rand) *big.Int {
	switch rnd.Intn(10) {
	case 0, 1, 2:
		return new(big.Int)
	case 3, 4:
		return c06FeeNum("0.003")
	case 5:
		return c06FeeNum("0.5")
	case 6:
		return c06B(1) // 10^-18
	case 7:
		return new(big.Int).Sub(c06Dec, c06One) // 1 - 10^-18
	case 8:
		return new(big.Int).Set(c06Dec) // 1
	}
	return new(big.Int).Rand(rnd, c06Dec)
}

// c06Small enumerates the small domain, optionally scaled: reserves and offers
// of x by sx, of y by sy, share amounts by sp.
func (e *c06Run) small(mode string, B int64, sx, sy, sp *big.Int, caseNo *int) {
	fees := make([]*big.Int, len(c06Fees))
	for i, f := range c06Fees {
		fees[i] = c06FeeNum(f)
	}
	sc := func(v int64, s *big.Int) *big.Int { return new(big.Int).Mul(c06B(v), s) }
	for a := int64(0); a <= B; a++ {
		for b := int64(0); b <= B; b++ {
			if a == 0 && b == 0 {
				continue // the keeper never calls Deposit/Withdraw on a pool without reserves (IsDepleted)
			}
			for c := int64(1); c <= B; c++ {
				*caseNo++
				if !mine(*caseNo) {
					continue
				}
				rx, ry, ps := sc(a, sx), sc(b, sy), sc(c, sp)
				for d := int64(0); d <= B; d++ {
					for f := int64(0); f <= B; f++ {
						e.deposit(mode, rx, ry, ps, sc(d, sx), sc(f, sy), "")
					}
				}
				for p := int64(1); p <= c; p++ {
					for _, fee := range fees {
						e.withdraw(mode, rx, ry, ps, sc(p, sp), fee, "")
					}
				}
			}
		}
	}
}

// c06WideDeposit draws one wide deposit case.
func c06WideDeposit(rnd *rand.Rand) (rx, ry, ps, x, y *big.Int) {
	rx, ry, ps = c06Amt(rnd), c06Amt(rnd), c06AmtPos(rnd)
	switch rnd.Intn(12) {
	case 0:
		rx = new(big.Int)
	case 1:
		ry = new(big.Int)
	}
	if rx.Sign() == 0 && ry.Sign() == 0 {
		rx = c06AmtPos(rnd)
	}
	huge := func(r *big.Int) *big.Int { return new(big.Int).Sub(c06Max, r) }
	a, b := int64(rnd.Intn(12)+1), int64(rnd.Intn(12)+1)
	dx, dy := int64(rnd.Intn(3)-1), int64(rnd.Intn(3)-1)
	switch rnd.Intn(7) {
	case 0:
		x, y = c06Amt(rnd), c06Amt(rnd)
	case 1:
		x, y = c06Frac(rx, a, b, dx), c06Frac(ry, a, b, dy)
	case 2:
		k := c06Pow10(rnd.Intn(20))
		x = c06Cap(new(big.Int).Add(new(big.Int).Quo(rx, k), c06B(dx)))
		y = c06Cap(new(big.Int).Add(new(big.Int).Quo(ry, k), c06B(dy)))
	case 3:
		x, y = c06Frac(rx, a, b, dx), huge(ry)
	case 4:
		x, y = huge(rx), c06Frac(ry, a, b, dy)
	case 5: // aim at a target share amount t: offer about reserve*t/ps
		var t *big.Int
		switch rnd.Intn(4) {
		case 0:
			t = c06B(int64(rnd.Intn(5) + 1))
		case 1:
			t = c06Frac(ps, a, b, 0)
		case 2:
			t = new(big.Int).Add(ps, c06B(int64(rnd.Intn(3)-1)))
		default:
			t = c06Amt(rnd)
		}
		if t.Sign() <= 0 {
			t = c06B(1)
		}
		cx := new(big.Int).Mul(rx, t)
		cx.Add(cx, new(big.Int).Sub(ps, c06One)).Quo(cx, ps)
		cy := new(big.Int).Mul(ry, t)
		cy.Add(cy, new(big.Int).Sub(ps, c06One)).Quo(cy, ps)
		x = c06Cap(cx.Add(cx, c06B(dx)))
		y = c06Cap(cy.Add(cy, c06B(dy)))
	default: // same ratio a/b applied as a multiple
		x, y = c06Cap(new(big.Int).Mul(rx, c06B(a))), c06Cap(new(big.Int).Mul(ry, c06B(a)))
	}
	// module bound: reserve + offer <= 10^40 (ValidateMsgDeposit)
	if h := huge(rx); x.Cmp(h) > 0 {
		x = h
	}
	if h := huge(ry); y.Cmp(h) > 0 {
		y = h
	}
	return
}

func c06WideShares(rnd *rand.Rand, ps *big.Int) *big.Int {
	var pc *big.Int
	switch rnd.Intn(8) {
	case 0:
		pc = new(big.Int).Set(ps)
	case 1:
		pc = new(big.Int).Sub(ps, c06One)
	case 2:
		pc = c06B(int64(rnd.Intn(5) + 1))
	case 3, 4:
		pc = c06Frac(ps, int64(rnd.Intn(12)+1), int64(rnd.Intn(12)+2), int64(rnd.Intn(3)-1))
	case 5:
		pc = new(big.Int).Quo(ps, c06Pow10(rnd.Intn(20)))
	default:
		pc = new(big.Int).Rand(rnd, ps)
	}
	if pc.Sign() <= 0 {
		pc = c06B(1)
	}
	if pc.Cmp(ps) > 0 {
		pc = new(big.Int).Set(ps)
	}
	return pc
}

// ---- ranged pools ----

type c06Range struct{ min, max sdkmath.LegacyDec }

// price checks pool.Price() against [min,max]. stage: create | state | deposit | withdraw.
// Returns whether the price is inside (false also when it could not be computed).
func (e *c06Run) price(stage string, pool *amm.RangedPool, rg c06Range, flag bool, detail func() map[string]interface{}) bool {
	rec := e.rec
	var p sdkmath.LegacyDec
	panicked := false
	func() {
		defer func() {
			if r := recover(); r != nil {
				panicked = true
				rec.Count("ranged_price_panicked_"+panicClass(r), 1)
			}
		}()
		p = pool.Price()
	}()
	if panicked {
		return false
	}
	rec.Eval(1)
	rec.Count("ranged_price_checked_"+stage, 1)
	side, rel, big9 := mon.C06PriceSide(p.BigInt(), rg.min.BigInt(), rg.max.BigInt())
	if side == "" {
		if p.Equal(rg.min) || p.Equal(rg.max) {
			rec.Count("ranged_price_exactly_on_bound", 1)
		}
		return true
	}
	rec.Count("ranged_price_outside_"+stage, 1)
	if !flag {
		return false
	}
	class := "within-1e-9"
	if big9 {
		class = "beyond-1e-9"
	}
	d := detail()
	d["price"] = p.String()
	d["min"] = rg.min.String()
	d["max"] = rg.max.String()
	d["relative_distance"] = rel.FloatString(30)
	rx, ry := pool.Balances()
	d["pool_rx"], d["pool_ry"] = rx.String(), ry.String()
	rec.Violate("C06/ranged-price/"+stage+"/"+side+"/"+class, fmt.Sprintf("ranged pool price %s outside [%s, %s]", p, rg.min, rg.max), d)
	return false
}

func (e *c06Run) newRanged(rx, ry, ps *big.Int, rg c06Range) (pool *amm.RangedPool) {
	defer func() {
		if r := recover(); r != nil {
			e.rec.Count("ranged_rebuild_panicked_"+panicClass(r), 1)
			pool = nil
		}
	}()
	return amm.NewRangedPool(c06I(rx), c06I(ry), c06I(ps), rg.min, rg.max)
}

// rangedLife: create a ranged pool with the real CreateRangedPool, then run a few
// deposits / withdrawals (and reserve drifts, as swaps leave them) on it, rebuilding
// the pool from (rx, ry, ps) like the keeper does before every use.
func (e *c06Run) rangedLife(rnd *rand.Rand, mode string, x, y *big.Int, rg c06Range, initial sdkmath.LegacyDec, nOps int) {
	rec := e.rec
	rec.Count("ranged_create_attempted", 1)
	var pool *amm.RangedPool
	var err error
	panicked := false
	func() {
		defer func() {
			if r := recover(); r != nil {
				panicked = true
				rec.Count("ranged_create_panicked_"+panicClass(r), 1)
			}
		}()
		pool, err = amm.CreateRangedPool(c06I(x), c06I(y), rg.min, rg.max, initial)
	}()
	if panicked {
		return
	}
	if err != nil {
		rec.Count("ranged_create_rejected", 1)
		return
	}
	var ops []string
	base := func() map[string]interface{} {
		return map[string]interface{}{"mode": mode, "create": fmt.Sprintf("amm.CreateRangedPool(x=%s, y=%s, min=%s, max=%s, initial=%s)", x, y, rg.min, rg.max, initial), "then": strings.Join(ops, "; ")}
	}
	irx, iry := pool.Balances()
	rx, ry, ps := irx.BigInt(), iry.BigInt(), pool.PoolCoinSupply().BigInt()
	shape := c06Shape(rx, ry)
	if shape == "empty" {
		rec.Count("ranged_create_returned_empty_pool", 1) // the keeper refuses it (MinInitialDepositAmount)
		return
	}
	rec.Count("ranged_created", 1)
	rec.Count("ranged_created_"+shape, 1)
	if shape != "two-sided" {
		rec.Count("ranged_created_one_sided", 1)
	}
	rec.Distinct("R", shape, c06Digits(rg.min.BigInt()), c06Digits(rg.max.BigInt()), c06Digits(rx), c06Digits(ry), initial.Equal(rg.min), initial.Equal(rg.max))
	// creation is the first deposit: it may not take more than offered, and must issue shares
	rec.Eval(1)
	if rx.Sign() < 0 || ry.Sign() < 0 || ps.Sign() <= 0 {
		rec.Violate("C06/ranged-create/bad-output", fmt.Sprintf("rx=%s ry=%s ps=%s", rx, ry, ps), base())
		return
	}
	if rx.Cmp(x) > 0 {
		rec.Violate("C06/ranged-create/takes-more-than-offered/x", fmt.Sprintf("accepted x %s > offered %s", rx, x), base())
	}
	if ry.Cmp(y) > 0 {
		rec.Violate("C06/ranged-create/takes-more-than-offered/y", fmt.Sprintf("accepted y %s > offered %s", ry, y), base())
	}
	if initial.Equal(rg.min) && rx.Sign() != 0 || initial.Equal(rg.max) && ry.Sign() != 0 {
		rec.Count("ranged_one_sided_expected_but_two_sided", 1)
	}
	inside := e.price("create", pool, rg, true, base)
	if shape != "two-sided" {
		defer func() { e.sample("ranged-one-sided", base()) }()
	}

	for i := 0; i < nOps; i++ {
		if rx.Sign() == 0 && ry.Sign() == 0 {
			break
		}
		switch k := rnd.Intn(10); {
		case k < 4: // deposit
			var dx, dy *big.Int
			a, b := int64(rnd.Intn(12)+1), int64(rnd.Intn(12)+1)
			switch rnd.Intn(4) {
			case 0:
				dx, dy = c06Amt(rnd), c06Amt(rnd)
			case 1:
				dx, dy = c06Frac(rx, a, b, int64(rnd.Intn(3)-1)), c06Frac(ry, a, b, int64(rnd.Intn(3)-1))
			case 2:
				dx, dy = c06Frac(rx, a, b, 0), new(big.Int).Sub(c06Max, ry)
			default:
				dx, dy = new(big.Int).Sub(c06Max, rx), c06Frac(ry, a, b, 0)
			}
			if h := new(big.Int).Sub(c06Max, rx); dx.Cmp(h) > 0 {
				dx = h
			}
			if h := new(big.Int).Sub(c06Max, ry); dy.Cmp(h) > 0 {
				dy = h
			}
			ops = append(ops, fmt.Sprintf("Deposit(rx=%s,ry=%s,ps=%s,x=%s,y=%s)", rx, ry, ps, dx, dy))
			ax, ay, pc, ok := e.deposit("ranged", rx, ry, ps, dx, dy, strings.Join(ops, "; "))
			if !ok {
				ops[len(ops)-1] += "=rejected"
				continue
			}
			ops[len(ops)-1] += fmt.Sprintf("=>(ax=%s,ay=%s,pc=%s)", ax, ay, pc)
			rx, ry, ps = new(big.Int).Add(rx, ax), new(big.Int).Add(ry, ay), new(big.Int).Add(ps, pc)
			np := e.newRanged(rx, ry, ps, rg)
			if np == nil {
				return
			}
			inside = e.price("deposit", np, rg, inside, base)
		case k < 8: // withdraw
			pc := c06WideShares(rnd, ps)
			fee := c06RandFee(rnd)
			ops = append(ops, fmt.Sprintf("Withdraw(rx=%s,ry=%s,ps=%s,pc=%s,fee=%s/1e18)", rx, ry, ps, pc, fee))
			wx, wy, ok := e.withdraw("ranged", rx, ry, ps, pc, fee, strings.Join(ops, "; "))
			if !ok {
				ops[len(ops)-1] += "=rejected"
				continue
			}
			ops[len(ops)-1] += fmt.Sprintf("=>(x=%s,y=%s)", wx, wy)
			if wx.Cmp(rx) > 0 || wy.Cmp(ry) > 0 {
				return // reported by the withdraw oracle
			}
			rx, ry, ps = new(big.Int).Sub(rx, wx), new(big.Int).Sub(ry, wy), new(big.Int).Sub(ps, pc)
			if ps.Sign() == 0 || (rx.Sign() == 0 && ry.Sign() == 0) {
				return
			}
			np := e.newRanged(rx, ry, ps, rg)
			if np == nil {
				return
			}
			inside = e.price("withdraw", np, rg, inside, base)
		default: // drift: reserves as swaps leave them (any non-empty pair is a state of the pool)
			switch rnd.Intn(4) {
			case 0:
				rx = c06Amt(rnd)
			case 1:
				ry = c06Amt(rnd)
			case 2:
				rx, ry = c06Frac(rx, int64(rnd.Intn(12)+1), int64(rnd.Intn(12)+1), 0), c06Frac(ry, int64(rnd.Intn(12)+1), int64(rnd.Intn(12)+1), 0)
			default:
				if rnd.Intn(2) == 0 {
					rx = new(big.Int)
				} else {
					ry = new(big.Int)
				}
			}
			if rx.Sign() == 0 && ry.Sign() == 0 {
				rx = c06AmtPos(rnd)
			}
			ops = append(ops, fmt.Sprintf("reserves:=(rx=%s,ry=%s) via amm.NewRangedPool(rx,ry,ps=%s,min,max)", rx, ry, ps))
			np := e.newRanged(rx, ry, ps, rg)
			if np == nil {
				return
			}
			rec.Count("ranged_state_"+c06Shape(rx, ry), 1)
			inside = e.price("state", np, rg, true, base)
		}
	}
}

func c06DecPow10(e int) sdkmath.LegacyDec {
	if e >= 0 {
		return sdkmath.LegacyNewDecFromBigInt(c06Pow10(e))
	}
	return sdkmath.LegacyNewDecWithPrec(1, int64(-e))
}

// c06RandPrice: 1..6 significant digits times 10^e, e in [lo,hi] (5 digits = what the keeper's tick rule admits).
func c06RandPrice(rnd *rand.Rand, lo, hi int) sdkmath.LegacyDec {
	digs := rnd.Intn(6) + 1
	if rnd.Intn(3) == 0 {
		digs = 5
	}
	m := int64(1)
	for i := 1; i < digs; i++ {
		m *= 10
	}
	v := rnd.Int63n(9*m) + m // digs digits
	e := rnd.Intn(hi-lo+1) + lo - (digs - 1)
	if e < -18 {
		e = -18
	}
	return sdkmath.LegacyNewDec(v).Mul(c06DecPow10(e))
}

func c06RandTriple(rnd *rand.Rand) (rg c06Range, initial sdkmath.LegacyDec, ok bool) {
	mn := c06RandPrice(rnd, -15, 19)
	var mx sdkmath.LegacyDec
	switch rnd.Intn(4) {
	case 0:
		mx = mn.Mul(sdkmath.LegacyNewDecWithPrec(int64(1001+rnd.Intn(3000)), 3))
	case 1:
		mx = mn.MulInt64(int64(2 + rnd.Intn(1000)))
	case 2:
		mx = mn.Mul(sdkmath.LegacyNewDecWithPrec(1001, 3)) // smallest admissible gap
	default:
		mx = c06RandPrice(rnd, -15, 20)
	}
	if !mx.GT(mn) {
		return rg, initial, false
	}
	ulp := sdkmath.LegacySmallestDec()
	switch rnd.Intn(8) {
	case 0, 1:
		initial = mn
	case 2, 3:
		initial = mx
	case 4:
		initial = mn.Add(ulp)
	case 5:
		initial = mx.Sub(ulp)
	default:
		initial = mn.Add(mx.Sub(mn).Mul(sdkmath.LegacyNewDecWithPrec(int64(rnd.Intn(1001)), 3)))
	}
	rg = c06Range{mn, mx}
	if amm.ValidateRangedPoolParams(mn, mx, initial) != nil {
		return rg, initial, false
	}
	return rg, initial, true
}

func TestC06(t *testing.T) {
	rec := ev.New("C06", "exploration", "pure: real amm.Deposit/Withdraw on (1) every (rx,ry,ps,x,y) and (rx,ry,ps,pc,fee) with entries <= 8 (quick) / 12 (thorough), fees {0,0.003,0.5}, (2) the same domain (smaller B) with reserves/offers/shares scaled by powers of ten up to 10^30 so the 18-decimal roundings inside the code bite, (3) seeded boundary-heavy random inputs with magnitudes 10^0..10^40 (independent, proportional +-1, one side binding, aimed at a target share amount), (4) seeded operation sequences on basic pools, (5) ranged pools: real CreateRangedPool over a grid and random admissible (min,max,initial) triples incl. initial==min / initial==max, followed by deposits / withdrawals / reserve drifts with the pool rebuilt by NewRangedPool like the keeper does, (6) in situ: keeper.Deposit/Withdraw + ExecuteDepositRequest/ExecuteWithdrawRequest on basic, ranged and one-sided ranged pools of a real app, judged on reserve bank balances and pool-coin supply, (7) in situ on the three-app liquidity world (all 15 message kinds, many accounts): every request the end blocker or a deposit-and-farm / unfarm-and-withdraw transaction executed is replayed per pool against the same laws with the pool-coin supply read from the bank, and every ranged pool's price is checked against its range after every tx / EndBlock / BeginBlock. distinct = the tuple (small) or (shape, decimal lengths of all inputs and outputs, which side bound, dust direction) (wide)")
	defer finish(t, rec)
	e := &c06Run{rec: rec, sampled: map[string]int{}}
	rnd := rng("C06")

	// (1) exhaustive small domain
	caseNo := 0
	B := int64(ev.Pick(8, 12))
	e.small("small", B, c06One, c06One, c06One, &caseNo)

	// (2) scaled small domain
	B2 := int64(ev.Pick(4, 6))
	scales := []int{0, 9, 17, 18, 19, 30}
	for _, ex := range scales {
		eys := []int{ex}
		if ex != 0 {
			eys = append(eys, 0)
		}
		for _, ey := range eys {
			for _, ep := range scales {
				if ex == 0 && ep == 0 {
					continue // that is domain (1)
				}
				e.small("scaled", B2, c06Pow10(ex), c06Pow10(ey), c06Pow10(ep), &caseNo)
				rec.Count("scaled_domains", 1)
			}
		}
	}

	// (3) wide random
	nW := ev.Pick(300_000, 6_000_000)
	for i := 0; i < nW; i++ {
		rx, ry, ps, x, y := c06WideDeposit(rnd)
		e.deposit("wide", rx, ry, ps, x, y, "")
	}
	for i := 0; i < nW; i++ {
		rx, ry, ps := c06Amt(rnd), c06Amt(rnd), c06AmtPos(rnd)
		switch rnd.Intn(12) {
		case 0:
			rx = new(big.Int)
		case 1:
			ry = new(big.Int)
		}
		if rx.Sign() == 0 && ry.Sign() == 0 {
			ry = c06AmtPos(rnd)
		}
		e.withdraw("wide", rx, ry, ps, c06WideShares(rnd, ps), c06RandFee(rnd), "")
	}

	// (4) sequences on basic pools, started by the real CreateBasicPool
	nSeq := ev.Pick(6_000, 150_000)
	for i := 0; i < nSeq; i++ {
		x0, y0 := c06AmtPos(rnd), c06AmtPos(rnd)
		var bp *amm.BasicPool
		var err error
		func() {
			defer func() {
				if r := recover(); r != nil {
					err = fmt.Errorf("panic %v", r)
				}
			}()
			bp, err = amm.CreateBasicPool(c06I(x0), c06I(y0))
		}()
		if err != nil {
			rec.Count("basic_create_rejected", 1)
			continue
		}
		rec.Count("basic_created", 1)
		irx, iry := bp.Balances()
		rx, ry, ps := irx.BigInt(), iry.BigInt(), bp.PoolCoinSupply().BigInt()
		fee := c06RandFee(rnd)
		var ops []string
		ops = append(ops, fmt.Sprintf("CreateBasicPool(%s,%s)=>ps=%s", x0, y0, ps))
		for j := 0; j < 24; j++ {
			if rnd.Intn(2) == 0 {
				_, _, _, dx, dy := c06WideDeposit(rnd)
				a, b := int64(rnd.Intn(12)+1), int64(rnd.Intn(12)+1)
				if rnd.Intn(3) > 0 {
					dx, dy = c06Frac(rx, a, b, int64(rnd.Intn(3)-1)), c06Frac(ry, a, b, int64(rnd.Intn(3)-1))
				}
				if h := new(big.Int).Sub(c06Max, rx); dx.Cmp(h) > 0 {
					dx = h
				}
				if h := new(big.Int).Sub(c06Max, ry); dy.Cmp(h) > 0 {
					dy = h
				}
				ops = append(ops, fmt.Sprintf("Deposit(x=%s,y=%s)", dx, dy))
				ax, ay, pc, ok := e.deposit("sequence", rx, ry, ps, dx, dy, strings.Join(ops, "; "))
				if ok {
					rx, ry, ps = new(big.Int).Add(rx, ax), new(big.Int).Add(ry, ay), new(big.Int).Add(ps, pc)
				}
			} else {
				pc := c06WideShares(rnd, ps)
				if j < 20 && pc.Cmp(ps) == 0 && rnd.Intn(4) > 0 {
					pc = c06Frac(ps, 1, 2, 0)
					if pc.Sign() == 0 {
						pc = new(big.Int).Set(ps)
					}
				}
				ops = append(ops, fmt.Sprintf("Withdraw(pc=%s,fee=%s/1e18)", pc, fee))
				wx, wy, ok := e.withdraw("sequence", rx, ry, ps, pc, fee, strings.Join(ops, "; "))
				if ok {
					if wx.Cmp(rx) > 0 || wy.Cmp(ry) > 0 {
						break
					}
					rx, ry, ps = new(big.Int).Sub(rx, wx), new(big.Int).Sub(ry, wy), new(big.Int).Sub(ps, pc)
				}
			}
			if ps.Sign() == 0 || rx.Sign() == 0 || ry.Sign() == 0 {
				break // depleted: the keeper disables the pool
			}
		}
	}

	// (5) ranged pools: grid of admissible triples ...
	d := sdkmath.LegacyMustNewDecFromStr
	mins := []sdkmath.LegacyDec{d("0.000000000000001"), d("0.000000001234"), d("0.000001"), d("0.0005"), d("0.5"), d("1"), d("1.5"), d("99.99"), d("12345"), d("1000000000"), d("1000000000000000"), d("50000000000000000000")}
	gaps := []sdkmath.LegacyDec{d("1.001"), d("1.0011"), d("1.01"), d("1.5"), d("2"), d("10"), d("1000"), d("10000000000"), d("0")}
	amts := []*big.Int{new(big.Int), c06B(1), c06B(7), c06B(100), c06Pow10(6), c06B(123456789), c06Pow10(12), c06Pow10(18), c06Pow10(24), c06Pow10(30), c06Pow10(40)}
	ulp := sdkmath.LegacySmallestDec()
	nPairs := ev.Pick(12, 121)
	nOps := 5
	tripleNo := 0
	for _, mn := range mins {
		for _, g := range gaps {
			mx := amm.MaxPoolPrice
			if !g.IsZero() {
				mx = mn.Mul(g)
			}
			if mx.GT(amm.MaxPoolPrice) {
				continue
			}
			sq, _ := mn.Mul(mx).ApproxSqrt()
			for _, initial := range []sdkmath.LegacyDec{mn, mn.Add(ulp), sq, mn.Add(mx).QuoInt64(2), mx.Sub(ulp), mx} {
				if amm.ValidateRangedPoolParams(mn, mx, initial) != nil {
					continue
				}
				tripleNo++
				if !mine(tripleNo) {
					continue
				}
				rec.Count("ranged_grid_triples", 1)
				for k := 0; k < nPairs; k++ {
					x, y := amts[rnd.Intn(len(amts))], amts[rnd.Intn(len(amts))]
					e.rangedLife(rnd, "ranged-grid", x, y, c06Range{mn, mx}, initial, nOps)
				}
			}
		}
	}
	// ... and seeded random admissible triples
	nR := ev.Pick(25_000, 800_000)
	for i := 0; i < nR; i++ {
		rg, initial, ok := c06RandTriple(rnd)
		if !ok {
			rec.Count("ranged_random_triple_not_admissible", 1)
			continue
		}
		x, y := c06Amt(rnd), c06Amt(rnd)
		e.rangedLife(rnd, "ranged-random", x, y, rg, initial, nOps)
	}

	// (6) in situ through the keeper
	c06Keeper(t, e, rng("C06-keeper"))

	// (7) in situ on the shared three-app liquidity world: requests executed by the real end blocker next to swaps,
	// ranged pools traded against by real orders (price-range clause after every block)
	c06World(t, rec)

	rec.Floor("keeper_deposit_executed", 200)
	rec.Floor("keeper_withdraw_executed", 200)
	rec.Floor("keeper_withdraw_last_shares", 8)
	rec.Floor("deposit_accepted", 100_000)
	rec.Floor("deposit_accepted_wide", 20_000)
	rec.Floor("withdraw_accepted", 50_000)
	rec.Floor("withdraw_accepted_wide", 20_000)
	rec.Floor("withdraw_last_shares", 2_000)
	rec.Floor("withdraw_last_shares_with_fee", 1_000)
	rec.Floor("ranged_created", 5_000)
	rec.Floor("ranged_created_one_sided", 1_000)
	rec.Floor("ranged_created_one-sided-x", 300)
	rec.Floor("ranged_created_one-sided-y", 300)
	rec.Floor("deposit_accepted_ranged", 2_000)
	rec.Floor("withdraw_accepted_ranged", 2_000)
	rec.Assume("fee rates are in [0,1] with 18 decimals; withdrawn shares pc <= ps; reserve+offer <= 10^40 (ValidateMsgDeposit); a deposit is 'accepted' iff minted shares > 0 and a withdrawal iff something is returned (the keeper's rule); pools without any reserve are never passed to Deposit/Withdraw (keeper IsDepleted guard)")
	rec.Assume("the statement's tolerance (relative 10^-17 of the reserve) is applied to the share-rate / reserves-per-share clauses; 'takes <= offered', the withdrawal bound, last-share redemption and the ranged price range are checked exactly")
	rec.Note("deposit_rate_dust_to_depositor_within_1e-17 counts accepted deposits where pc/ps > accepted/reserve exactly (mint proportion rounded to 18 decimals before the ceil) but inside the stated tolerance")
}
