package props

import (
	"fmt"
	"math/big"
	"testing"
	"time"

	sdk "github.com/cosmos/cosmos-sdk/types"

	"github.com/comdex-official/comdex/app/wasm/bindings"
	vaulttypes "github.com/comdex-official/comdex/x/vault/types"

	"verif/ev"
)

// ---- exact valuation helpers (shared with C09) ----

var decUnit = big.NewRat(1, 1_000_000_000_000_000_000) // 10^-18: one unit in the last sdk.Dec place

// value = amount*price/decimals as an exact rational
func exactValue(amt *big.Int, price uint64, decimals *big.Int) *big.Rat {
	return new(big.Rat).SetFrac(new(big.Int).Mul(amt, new(big.Int).SetUint64(price)), decimals)
}

// outPrice returns the price the product uses for its debt asset.
func (u *cdpU) outPrice(p *uProduct, s *cdpSnap) (uint64, bool) {
	if !p.P.AssetOutOraclePrice {
		return p.P.AssetOutPrice, true
	}
	return s.Price[p.Out.ID], s.Active[p.Out.ID]
}

// crBelow reports whether collateral/debt is below `min` even after granting
// the rounding slack of the three Dec roundings on the code's path
// ((X+u)/(Y-u) + u < min). ok=false when the ratio is undefined (Y <= u).
func crBelow(X, Y *big.Rat, min *big.Rat) (below bool, ok bool) {
	yy := new(big.Rat).Sub(Y, decUnit)
	if yy.Sign() <= 0 {
		return false, false
	}
	r := new(big.Rat).Quo(new(big.Rat).Add(X, decUnit), yy)
	r.Add(r, decUnit)
	return r.Cmp(min) < 0, true
}

// crAbove: collateral/debt is >= min even after taking the slack away ((X-u)/(Y+u) - u >= min).
func crAbove(X, Y *big.Rat, min *big.Rat) (above bool, ok bool) {
	xx := new(big.Rat).Sub(X, decUnit)
	if Y.Sign() <= 0 || xx.Sign() <= 0 {
		return false, false
	}
	r := new(big.Rat).Quo(xx, new(big.Rat).Add(Y, decUnit))
	r.Sub(r, decUnit)
	return r.Cmp(min) >= 0, true
}

func decRat(d sdk.Dec) *big.Rat {
	return new(big.Rat).SetFrac(d.BigInt(), big.NewInt(1_000_000_000_000_000_000))
}

// ---- C03 monitor ----

// stableCeiling: after a successful stable-mint create / deposit the principal recorded on the product's stable-mint
// vaults does not exceed the product's debt ceiling (the ceiling in force is read from the chain: governance may
// have changed it).
func (m *c03Mon) stableCeiling(post *cdpSnap, e *cdpEvent, prodID uint64) {
	p := m.u.prodByID[prodID]
	if p == nil || !p.P.IsStableMintVault || !e.Res.OK() {
		return
	}
	if es, ok := post.ESM[p.App]; ok && es.Status {
		return
	}
	cur, found := m.u.c.App.AssetKeeper.GetPairsVault(m.u.c.Ctx(), prodID)
	if !found {
		return
	}
	m.rec.Eval(1)
	sum := new(big.Int)
	for _, sv := range post.Stable {
		if sv.ExtendedPairVaultID == prodID {
			sum.Add(sum, sv.AmountOut.BigInt())
		}
	}
	m.rec.Count("stable_ceiling_checked", 1)
	if room := new(big.Int).Sub(cur.DebtCeiling.BigInt(), sum); room.Sign() >= 0 && room.Cmp(new(big.Int).Mul(p.Out.Dec, big.NewInt(10))) <= 0 {
		m.rec.Count("stable_mints_accepted_within_10_tokens_of_the_ceiling", 1)
	}
	if sum.Cmp(cur.DebtCeiling.BigInt()) > 0 {
		m.rec.Violate(fmt.Sprintf("C03/%s/principal-exceeds-debt-ceiling", e.Op), fmt.Sprintf("stable-mint principal outstanding %s > ceiling %s", sum, cur.DebtCeiling),
			map[string]interface{}{"event": e.String(), "product": p.ID, "pair": p.P.PairName, "draw_down_fee": cur.DrawDownFee.String()})
	}
}

type c03Mon struct {
	u   *cdpU
	rec *ev.Rec
}

func (m *c03Mon) Observe(pre, post *cdpSnap, e *cdpEvent) {
	if e.Kind != "tx" || e.Signer == nil {
		return
	}
	var prodID, vaultID uint64
	needsPrice := false
	mint := false
	switch x := e.Msg.(type) {
	case *vaulttypes.MsgCreateRequest:
		prodID, needsPrice, mint = x.ExtendedPairVaultId, true, true
		if e.Res.OK() {
			for id, v := range post.Vaults {
				if _, was := pre.Vaults[id]; !was && v.Owner == x.From && v.ExtendedPairVaultID == prodID {
					vaultID = id
				}
			}
		}
	case *vaulttypes.MsgDrawRequest:
		prodID, vaultID, needsPrice, mint = x.ExtendedPairVaultId, x.UserVaultId, true, true
	case *vaulttypes.MsgWithdrawRequest:
		prodID, vaultID, needsPrice = x.ExtendedPairVaultId, x.UserVaultId, true
	case *vaulttypes.MsgDepositAndDrawRequest:
		prodID, vaultID, needsPrice, mint = x.ExtendedPairVaultId, x.UserVaultId, true, true
	case *vaulttypes.MsgRepayRequest:
		prodID, vaultID = x.ExtendedPairVaultId, x.UserVaultId
	case *vaulttypes.MsgDepositRequest:
		prodID, vaultID = x.ExtendedPairVaultId, x.UserVaultId
	case *vaulttypes.MsgCreateStableMintRequest:
		m.stableCeiling(post, e, x.ExtendedPairVaultId)
		return
	case *vaulttypes.MsgDepositStableMintRequest:
		m.stableCeiling(post, e, x.ExtendedPairVaultId)
		return
	default:
		return
	}
	p := m.u.prodByID[prodID]
	if p == nil || p.P.IsStableMintVault {
		return
	}
	if es, ok := post.ESM[p.App]; ok && es.Status {
		return // outside emergency shutdown only
	}
	m.rec.Eval(1)
	pout, outActive := m.u.outPrice(p, pre)
	inActive := pre.Active[p.In.ID]
	tag := e.Op
	if needsPrice && (!inActive || !outActive) {
		m.rec.Count("attempts_with_inactive_price", 1)
		if e.Res.OK() {
			m.rec.Violate(fmt.Sprintf("C03/%s/succeeded-with-inactive-price", tag), "operation succeeded although a required oracle price is not active",
				map[string]interface{}{"event": e.String(), "collateral_price_active": inActive, "debt_price_active": outActive})
		}
		return
	}
	if !e.Res.OK() {
		m.rec.Count("rejected_"+tag, 1)
		return
	}
	v, ok := post.Vaults[vaultID]
	if !ok {
		return
	}
	det := func() map[string]interface{} {
		return map[string]interface{}{"event": e.String(), "product": p.ID, "pair": p.P.PairName, "min_cr": p.P.MinCr.String(), "debt_floor": p.P.DebtFloor.String(), "debt_ceiling": p.P.DebtCeiling.String(),
			"vault": fmt.Sprintf("in=%s out=%s interest=%s closing=%s", v.AmountIn, v.AmountOut, v.InterestAccumulated, v.ClosingFeeAccumulated),
			"price_in": pre.Price[p.In.ID], "price_out": pout, "dec_in": p.In.Dec.String(), "dec_out": p.Out.Dec.String()}
	}
	// (a) debt floor: a vault touched by a successful owner message is never left below the floor
	if v.AmountOut.LT(p.P.DebtFloor) {
		m.rec.Violate(fmt.Sprintf("C03/%s/principal-below-debt-floor", tag), fmt.Sprintf("principal %s < floor %s", v.AmountOut, p.P.DebtFloor), det())
	}
	// (b) minimum collateralization ratio after create / draw / withdraw / deposit-and-draw
	if needsPrice {
		X := exactValue(v.AmountIn.BigInt(), pre.Price[p.In.ID], p.In.Dec)
		Y := exactValue(v.AmountOut.Add(v.InterestAccumulated).BigInt(), pout, p.Out.Dec)
		below, ok := crBelow(X, Y, decRat(p.P.MinCr))
		if ok {
			m.rec.Count("cr_checked_"+tag, 1)
			// how close to the boundary was this accepted operation?
			if ab, ok2 := crAbove(X, Y, new(big.Rat).Mul(decRat(p.P.MinCr), big.NewRat(1001, 1000))); ok2 && !ab {
				m.rec.Count("accepted_within_0.1pct_of_min_cr", 1)
			}
			if below {
				m.rec.Violate(fmt.Sprintf("C03/%s/cr-below-minimum", tag), "accepted although collateral value / debt value < minimum collateralization ratio (beyond rounding)", det())
			}
		}
	}
	// (c) debt ceiling after a successful mint
	if mint {
		sum := new(big.Int)
		for _, ov := range post.Vaults {
			if ov.ExtendedPairVaultID == p.ID {
				sum.Add(sum, ov.AmountOut.BigInt())
			}
		}
		if sum.Cmp(p.P.DebtCeiling.BigInt()) > 0 {
			m.rec.Violate(fmt.Sprintf("C03/%s/principal-exceeds-debt-ceiling", tag), fmt.Sprintf("outstanding principal %s > ceiling %s", sum, p.P.DebtCeiling), det())
		}
		m.rec.Count("ceiling_checked", 1)
	}
	m.rec.Distinct("C03", tag, p.ID, pre.Price[p.In.ID], v.InterestAccumulated.IsZero(), v.AmountIn.BigInt().BitLen()/4, v.AmountOut.BigInt().BitLen()/4)
}

// solveCollateral returns the smallest collateral amount with exact CR >= min for the given debt.
func solveCollateral(p *uProduct, debt *big.Int, pin, pout uint64, min *big.Rat) *big.Int {
	// in >= min * debt*pout/dout * din / pin
	num := new(big.Rat).Mul(min, exactValue(debt, pout, p.Out.Dec))
	num.Mul(num, new(big.Rat).SetFrac(p.In.Dec, new(big.Int).SetUint64(pin)))
	q := new(big.Int).Quo(num.Num(), num.Denom())
	if new(big.Int).Mul(q, num.Denom()).Cmp(num.Num()) < 0 {
		q.Add(q, big.NewInt(1))
	}
	return q
}

func TestC03(t *testing.T) {
	rec := ev.New("C03", "exploration", "boundary-directed: for each product, oracle price pair and debt size the collateral amount that makes the exact ratio equal to the minimum is solved with rationals and create/withdraw/draw/deposit-and-draw are attempted at boundary-1, boundary, boundary+1, after 0..3 interest accruals; debt floor and ceiling boundaries likewise; prices toggled inactive; plus the mixed workload. distinct = (op, product, price, interest present, magnitude classes)")
	defer finish(t, rec)
	rnd := rng("C03")
	rounds := ev.Pick(6, 20)
	for round := 0; round < rounds; round++ {
		variant := ev.ShardNo()*rounds + round
		u := newCDP(t, cdpOpts{variant: variant})
		mon := &c03Mon{u: u, rec: rec}
		r := newCdpRunner(u, rnd, rec, cdpCfg{}, mon)
		c := u.c
		prices := []uint64{1, 7, 999_999, 1_000_000, 3_333_333, 123_456_789, 30_000_000_000, 1 << 40}
		cases := ev.Pick(120, 300)
		for i := 0; i < cases && !r.panicked; i++ {
			var p *uProduct
			for p == nil || p.P.IsStableMintVault {
				p = u.products[rnd.Intn(len(u.products))]
			}
			a := c.Accts[rnd.Intn(len(c.Accts))]
			// choose prices
			pin := prices[rnd.Intn(len(prices))]
			pout := prices[2+rnd.Intn(3)]
			r.env("price", fmt.Sprintf("%s=%d", p.In.Denom, pin), func() { u.setPrice(p.In.Denom, pin, true) })
			if p.P.AssetOutOraclePrice {
				r.env("price", fmt.Sprintf("%s=%d", p.Out.Denom, pout), func() { u.setPrice(p.Out.Denom, pout, true) })
			} else {
				pout = p.P.AssetOutPrice
			}
			// debt size classes around the floor
			var debt *big.Int
			switch rnd.Intn(6) {
			case 0:
				debt = new(big.Int).Sub(p.P.DebtFloor.BigInt(), big.NewInt(1))
			case 1:
				debt = new(big.Int).Set(p.P.DebtFloor.BigInt())
			case 2:
				debt = new(big.Int).Add(p.P.DebtFloor.BigInt(), big.NewInt(int64(rnd.Intn(5))))
			case 3:
				debt = new(big.Int).Mul(p.P.DebtFloor.BigInt(), big.NewInt(int64(2+rnd.Intn(3000))))
			default:
				debt = new(big.Int).Add(new(big.Int).Mul(p.P.DebtFloor.BigInt(), big.NewInt(int64(1+rnd.Intn(50)))), big.NewInt(int64(rnd.Intn(1_000_000))))
			}
			min := decRat(p.P.MinCr)
			b := solveCollateral(p, debt, pin, pout, min)
			// existing vault of this user for this product?
			var mine *vaulttypes.Vault
			for _, v := range r.last.Vaults {
				if v.Owner == a.Addr.String() && v.ExtendedPairVaultID == p.ID {
					vv := v
					mine = &vv
				}
			}
			if mine == nil {
				for _, delta := range []int64{-1, 0, 1} {
					in := new(big.Int).Add(b, big.NewInt(delta))
					if in.Sign() <= 0 {
						continue
					}
					res := r.tx("vault_create", a, &vaulttypes.MsgCreateRequest{From: a.Addr.String(), AppId: p.App, ExtendedPairVaultId: p.ID, AmountIn: sdk.NewIntFromBigInt(in), AmountOut: sdk.NewIntFromBigInt(debt)},
						fmt.Sprintf("prod=%d in=boundary%+d=%s out=%s pin=%d pout=%d", p.ID, delta, in, debt, pin, pout))
					rec.Count(fmt.Sprintf("create_at_boundary%+d_ok_%v", delta, res.OK()), 1)
					if res.OK() {
						break
					}
				}
				continue
			}
			v := *mine
			// let some interest accrue first (0..3 accruals with gaps up to 5 years)
			for k := rnd.Intn(4); k > 0; k-- {
				r.block(time.Duration(1+rnd.Intn(5*365)) * 24 * time.Hour)
				r.tx("vault_interest_calc", a, &vaulttypes.MsgVaultInterestCalcRequest{From: a.Addr.String(), AppId: v.AppId, UserVaultId: v.Id}, fmt.Sprintf("vault=%d", v.Id))
			}
			var still bool
			if v, still = r.last.Vaults[v.Id]; !still {
				continue // seized by a sweep meanwhile
			}
			total := new(big.Int).Add(v.AmountOut.BigInt(), v.InterestAccumulated.BigInt())
			total.Add(total, v.ClosingFeeAccumulated.BigInt())
			switch rnd.Intn(4) {
			case 0: // withdraw down to the boundary
				need := solveCollateral(p, total, pin, pout, min)
				w := new(big.Int).Sub(v.AmountIn.BigInt(), need)
				for _, delta := range []int64{1, 0, -1} {
					amt := new(big.Int).Add(w, big.NewInt(delta))
					if amt.Sign() <= 0 {
						continue
					}
					res := r.tx("vault_withdraw", a, &vaulttypes.MsgWithdrawRequest{From: a.Addr.String(), AppId: v.AppId, ExtendedPairVaultId: p.ID, UserVaultId: v.Id, Amount: sdk.NewIntFromBigInt(amt)},
						fmt.Sprintf("vault=%d amt=boundary%+d=%s", v.Id, delta, amt))
					rec.Count(fmt.Sprintf("withdraw_at_boundary%+d_ok_%v", delta, res.OK()), 1)
					if res.OK() {
						break
					}
				}
			case 1: // draw up to the boundary: largest d with CR(in, total+d) >= min
				X := exactValue(v.AmountIn.BigInt(), pin, p.In.Dec)
				maxDebtVal := new(big.Rat).Quo(X, min)
				md := new(big.Rat).Mul(maxDebtVal, new(big.Rat).SetFrac(p.Out.Dec, new(big.Int).SetUint64(pout)))
				maxDebt := new(big.Int).Quo(md.Num(), md.Denom())
				d := new(big.Int).Sub(maxDebt, total)
				for _, delta := range []int64{1, 0, -1} {
					amt := new(big.Int).Add(d, big.NewInt(delta))
					if amt.Sign() <= 0 {
						continue
					}
					res := r.tx("vault_draw", a, &vaulttypes.MsgDrawRequest{From: a.Addr.String(), AppId: v.AppId, ExtendedPairVaultId: p.ID, UserVaultId: v.Id, Amount: sdk.NewIntFromBigInt(amt)},
						fmt.Sprintf("vault=%d amt=boundary%+d=%s", v.Id, delta, amt))
					rec.Count(fmt.Sprintf("draw_at_boundary%+d_ok_%v", delta, res.OK()), 1)
					if res.OK() {
						break
					}
				}
			case 2: // repay down to the floor
				d := new(big.Int).Sub(new(big.Int).Add(v.AmountOut.BigInt(), v.InterestAccumulated.BigInt()), p.P.DebtFloor.BigInt())
				for _, delta := range []int64{1, 0} {
					amt := new(big.Int).Add(d, big.NewInt(delta))
					if amt.Sign() <= 0 {
						continue
					}
					r.topUpDebt(a, p.Out.Denom, sdk.NewIntFromBigInt(amt))
					res := r.tx("vault_repay", a, &vaulttypes.MsgRepayRequest{From: a.Addr.String(), AppId: v.AppId, ExtendedPairVaultId: p.ID, UserVaultId: v.Id, Amount: sdk.NewIntFromBigInt(amt)},
						fmt.Sprintf("vault=%d amt=to-floor%+d=%s", v.Id, delta, amt))
					rec.Count(fmt.Sprintf("repay_to_floor%+d_ok_%v", delta, res.OK()), 1)
					if res.OK() {
						break
					}
				}
			case 3: // deposit-and-draw, sometimes with an inactive price
				inactive := rnd.Intn(3) == 0
				// the feed that goes down: the collateral's, or (for products whose debt is priced by the oracle) the debt asset's
				down, downPx := p.In, pin
				if p.P.AssetOutOraclePrice && rnd.Intn(2) == 0 {
					down = p.Out
					downPx, _ = u.price(p.Out)
				}
				if inactive {
					r.env("price-inactive", down.Denom, func() { u.setPrice(down.Denom, downPx, false) })
				}
				amt := sdk.NewIntFromBigInt(new(big.Int).Quo(v.AmountIn.BigInt(), big.NewInt(int64(1+rnd.Intn(10)))))
				r.tx("vault_deposit_draw", a, &vaulttypes.MsgDepositAndDrawRequest{From: a.Addr.String(), AppId: v.AppId, ExtendedPairVaultId: p.ID, UserVaultId: v.Id, Amount: amt}, fmt.Sprintf("vault=%d amt=%s inactive=%v", v.Id, amt, inactive))
				if inactive {
					r.tx("vault_draw", a, &vaulttypes.MsgDrawRequest{From: a.Addr.String(), AppId: v.AppId, ExtendedPairVaultId: p.ID, UserVaultId: v.Id, Amount: sdk.NewInt(1)}, "inactive price")
					r.tx("vault_withdraw", a, &vaulttypes.MsgWithdrawRequest{From: a.Addr.String(), AppId: v.AppId, ExtendedPairVaultId: p.ID, UserVaultId: v.Id, Amount: sdk.NewInt(1)}, "inactive price")
					// opening a new vault in the product needs the same prices
					for _, b := range c.Accts {
						has := false
						for _, x := range r.last.Vaults {
							if x.Owner == b.Addr.String() && x.ExtendedPairVaultID == p.ID {
								has = true
							}
						}
						if !has {
							d2 := p.P.DebtFloor.MulRaw(int64(2 + rnd.Intn(20)))
							r.tx("vault_create", b, &vaulttypes.MsgCreateRequest{From: b.Addr.String(), AppId: p.App, ExtendedPairVaultId: p.ID, AmountIn: r.collateralFor(p, d2, p.P.MinCr.MulInt64(1000).TruncateInt64()*2), AmountOut: d2}, "inactive price "+down.Denom)
							break
						}
					}
					r.env("price-active", down.Denom, func() { u.setPrice(down.Denom, downPx, true) })
				}
			}
			if i%10 == 9 {
				r.block(time.Duration(1+rnd.Intn(3600)) * time.Second)
			}
		}
		// ceiling: products with a low ceiling get hammered with floor-multiple creations
		for _, p := range u.products {
			if p.P.IsStableMintVault || p.P.DebtCeiling.GT(p.P.DebtFloor.MulRaw(10_000)) {
				continue
			}
			for ai, a := range c.Accts {
				debt := p.P.DebtFloor.MulRaw(int64(700 + 100*ai))
				pin, _ := u.price(p.In)
				pout, _ := u.outPrice(p, r.last)
				in := solveCollateral(p, debt.BigInt(), pin, pout, decRat(p.P.MinCr))
				r.tx("vault_create", a, &vaulttypes.MsgCreateRequest{From: a.Addr.String(), AppId: p.App, ExtendedPairVaultId: p.ID, AmountIn: sdk.NewIntFromBigInt(in).AddRaw(10), AmountOut: debt}, fmt.Sprintf("ceiling prod=%d out=%s", p.ID, debt))
			}
		}
		// stable-mint products against a ceiling that governance has just set 1000 tokens above what is outstanding:
		// mint 900, redeem 500 (with a draw-down fee the fee part stays in circulation), then mints around the room left
		for _, p := range u.products {
			if !p.P.IsStableMintVault {
				continue
			}
			cur, found := c.App.AssetKeeper.GetPairsVault(c.Ctx(), p.ID)
			if !found {
				continue
			}
			outstanding := func() *big.Int {
				s := new(big.Int)
				for _, sv := range r.last.Stable {
					if sv.ExtendedPairVaultID == p.ID {
						s.Add(s, sv.AmountOut.BigInt())
					}
				}
				return s
			}
			tok := func(n int64) *big.Int { return new(big.Int).Mul(p.Out.Dec, big.NewInt(n)) }
			toIn := func(out *big.Int) sdk.Int { // collateral units that mint `out` (whole tokens keep it exact)
				return sdk.NewIntFromBigInt(new(big.Int).Quo(new(big.Int).Mul(out, p.In.Dec), p.Out.Dec))
			}
			ceiling := sdk.NewIntFromBigInt(new(big.Int).Add(outstanding(), tok(1000)))
			r.env("gov-product", fmt.Sprintf("product %d: debt ceiling %s", p.ID, ceiling), func() {
				_ = c.Gov(bindings.ComdexMessages{MsgUpdatePairsVault: &bindings.MsgUpdatePairsVault{AppID: p.App, ExtPairID: p.ID, StabilityFee: cur.StabilityFee, ClosingFee: cur.ClosingFee, LiquidationPenalty: cur.LiquidationPenalty,
					DrawDownFee: cur.DrawDownFee, IsVaultActive: true, MinCr: cur.MinCr, DebtCeiling: ceiling, DebtFloor: cur.DebtFloor, MinUsdValueLeft: cur.MinUsdValueLeft}})
			})
			if now, ok := c.App.AssetKeeper.GetPairsVault(c.Ctx(), p.ID); !ok || !now.DebtCeiling.Equal(ceiling) {
				continue
			}
			p.P.DebtCeiling = ceiling
			a := c.Accts[rnd.Intn(len(c.Accts))]
			mintOp := func(out *big.Int, why string) {
				var sid uint64
				for _, sv := range r.last.Stable {
					if sv.ExtendedPairVaultID == p.ID {
						sid = sv.Id
					}
				}
				if sid == 0 {
					r.tx("stable_create", a, &vaulttypes.MsgCreateStableMintRequest{From: a.Addr.String(), AppId: p.App, ExtendedPairVaultId: p.ID, Amount: toIn(out)}, fmt.Sprintf("ceiling prod=%d out=%s (%s)", p.ID, out, why))
				} else {
					r.tx("stable_deposit", a, &vaulttypes.MsgDepositStableMintRequest{From: a.Addr.String(), AppId: p.App, ExtendedPairVaultId: p.ID, Amount: toIn(out), StableVaultId: sid}, fmt.Sprintf("ceiling prod=%d out=%s (%s)", p.ID, out, why))
				}
			}
			mintOp(tok(900), "first")
			for k := 0; k < 3; k++ {
				var sid uint64
				for _, sv := range r.last.Stable {
					if sv.ExtendedPairVaultID == p.ID {
						sid = sv.Id
					}
				}
				if sid == 0 {
					break
				}
				r.tx("stable_withdraw", a, &vaulttypes.MsgWithdrawStableMintRequest{From: a.Addr.String(), AppId: p.App, ExtendedPairVaultId: p.ID, Amount: sdk.NewIntFromBigInt(tok(int64(150 + 50*k))), StableVaultId: sid}, fmt.Sprintf("ceiling prod=%d redeem", p.ID))
			}
			// room left by the records; whole tokens around it, from clearly too much down to what fits
			for _, extra := range []int64{20, 8, 3, 1, 0, -1} {
				room := new(big.Int).Sub(ceiling.BigInt(), outstanding())
				room.Quo(room, p.Out.Dec).Mul(room, p.Out.Dec) // whole tokens
				amt := new(big.Int).Add(room, tok(extra))
				if amt.Sign() <= 0 {
					continue
				}
				mintOp(amt, fmt.Sprintf("room %s, %+d tokens", room, extra))
			}
		}
		// and a stretch of the mixed workload under the same monitor
		r.cfg = cdpCfg{maxGap: 400 * 24 * time.Hour, govChanges: variant%2 == 0}
		r.run(ev.Pick(600, 3000))
		if round == 0 {
			rec.Sample(map[string]interface{}{"variant": variant, "oplog_tail": r.tail(14)})
		}
		u.c.Close()
	}
	rec.Floor("cr_checked_vault_create", 30)
	rec.Floor("cr_checked_vault_withdraw", 10)
	rec.Floor("cr_checked_vault_draw", 10)
	rec.Floor("accepted_within_0.1pct_of_min_cr", 20)
	rec.Floor("attempts_with_inactive_price", 5)
	rec.Floor("ceiling_checked", 30)
}
