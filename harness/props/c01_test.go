package props

import (
	"fmt"
	"math/big"
	"sort"
	"strings"
	"testing"

	banktypes "github.com/cosmos/cosmos-sdk/x/bank/types"

	vaulttypes "github.com/comdex-official/comdex/x/vault/types"

	"verif/ev"
)

// ---- C01: vault custody and published totals ----

type awaitEntry struct {
	Prod uint64
	In   *big.Int
	Out  *big.Int // principal
}

type awaitKey struct {
	Gen int
	ID  uint64
}

// settleTracker is the shared "awaiting auction settlement" shadow set: it is
// advanced from observed seizures (vault vanishes, locked vault referring to it
// appears) and observed settlements (locked vault vanishes).
type settleTracker struct {
	await map[awaitKey]awaitEntry
	// per-event context, recomputed by advance()
	seizedV1, seizedV2, settledV1, settledV2, esmHandBackV2 int
	esmHandBackPaidV2                                           int // hand-backs of auctions that had received bids
	// extraV2[product] = sum over generation-2 settlements of this event of
	// (total debt recorded at seizure - principal): interest + closing fee
	extraV2 map[uint64]*big.Int
	// seizures observed in this event
	seized []seizure
}

type seizure struct {
	Gen      int
	LockedID uint64
	VaultID  uint64
}

func newSettleTracker() *settleTracker { return &settleTracker{await: map[awaitKey]awaitEntry{}} }

func (s *settleTracker) advance(pre, post *cdpSnap) {
	s.seizedV1, s.seizedV2, s.settledV1, s.settledV2, s.esmHandBackV2, s.esmHandBackPaidV2 = 0, 0, 0, 0, 0, 0
	s.extraV2 = map[uint64]*big.Int{}
	s.seized = nil
	for id, lv := range post.LockedV1 {
		if _, was := pre.LockedV1[id]; was {
			continue
		}
		if v, ok := pre.Vaults[lv.OriginalVaultId]; ok {
			if _, still := post.Vaults[lv.OriginalVaultId]; !still {
				s.await[awaitKey{1, id}] = awaitEntry{Prod: v.ExtendedPairVaultID, In: v.AmountIn.BigInt(), Out: v.AmountOut.BigInt()}
				s.seizedV1++
				s.seized = append(s.seized, seizure{1, id, lv.OriginalVaultId})
			}
		}
	}
	for id, lv := range post.LockedV2 {
		if _, was := pre.LockedV2[id]; was {
			continue
		}
		if lv.InitiatorType != "vault" {
			continue
		}
		if v, ok := pre.Vaults[lv.OriginalVaultId]; ok {
			if _, still := post.Vaults[lv.OriginalVaultId]; !still {
				s.await[awaitKey{2, id}] = awaitEntry{Prod: v.ExtendedPairVaultID, In: v.AmountIn.BigInt(), Out: v.AmountOut.BigInt()}
				s.seizedV2++
				s.seized = append(s.seized, seizure{2, id, lv.OriginalVaultId})
			}
		}
	}
	for k := range s.await {
		if k.Gen == 1 {
			if _, ok := post.LockedV1[k.ID]; !ok {
				delete(s.await, k)
				s.settledV1++
			}
		} else {
			if _, ok := post.LockedV2[k.ID]; !ok {
				e := s.await[k]
				if lv, ok := pre.LockedV2[k.ID]; ok {
					if s.extraV2[e.Prod] == nil {
						s.extraV2[e.Prod] = new(big.Int)
					}
					s.extraV2[e.Prod].Add(s.extraV2[e.Prod], bigSub(lv.DebtToken.Amount.BigInt(), e.Out))
				}
				delete(s.await, k)
				if lv, ok := pre.LockedV2[k.ID]; ok && pre.ESM[lv.AppId].Status && post.Height != pre.Height {
					// the app is in emergency shutdown and no bid closed the auction: the seized vault is handed back
					s.esmHandBackV2++
					for _, a := range pre.AucV2 {
						if a.LockedVaultId == k.ID && len(a.BiddingIds) > 0 {
							s.esmHandBackPaidV2++
						}
					}
				} else {
					s.settledV2++
				}
			}
		}
	}
}

func (s *settleTracker) context(pre, post *cdpSnap) string {
	var parts []string
	if s.seizedV1 > 0 {
		parts = append(parts, "seizure-v1")
	}
	if s.seizedV2 > 0 {
		parts = append(parts, "seizure-v2")
	}
	if s.settledV1 > 0 {
		parts = append(parts, "settlement-v1")
	}
	if s.settledV2 > 0 {
		parts = append(parts, "settlement-v2")
	}
	if s.esmHandBackV2 > 0 {
		parts = append(parts, "esm-hand-back-v2")
	}
	for app, e := range post.ESM {
		if e.Status && !pre.ESM[app].Status {
			parts = append(parts, "esm-executed")
		}
	}
	// a vault that (re)appears without a create message: ESM hand-back
	if len(parts) == 0 {
		return ""
	}
	sort.Strings(parts)
	return "+" + strings.Join(parts, "+")
}

type c01Mon struct {
	u    *cdpU
	rec  *ev.Rec
	st   *settleTracker
	unso map[string]*big.Int // unsolicited coins sent to the vault custody account, per denom
	disc map[string]*big.Int // last seen discrepancy per identity key
	coll map[string]bool     // collateral denoms
}

func newC01Mon(u *cdpU, rec *ev.Rec) *c01Mon {
	m := &c01Mon{u: u, rec: rec, st: newSettleTracker(), unso: map[string]*big.Int{}, disc: map[string]*big.Int{}, coll: map[string]bool{}}
	for _, p := range u.products {
		m.coll[p.In.Denom] = true
	}
	return m
}

func opTag(e *cdpEvent) string {
	if e.Kind == "tx" {
		return "tx:" + e.Op
	}
	return e.Kind
}

// check reports when the discrepancy of identity `key` changed during this event.
func (m *c01Mon) check(key, label string, d *big.Int, e *cdpEvent, ctx string, detail func() map[string]interface{}) {
	m.checkL(key, label, d, e, ctx, e, detail)
}

// checkL: like check, with the event used for the label (le) separate from the witnessed event (e).
func (m *c01Mon) checkL(key, label string, d *big.Int, le *cdpEvent, ctx string, e *cdpEvent, detail func() map[string]interface{}) {
	old, ok := m.disc[key]
	if !ok {
		old = new(big.Int)
	}
	m.rec.Eval(1)
	if d.Cmp(old) != 0 {
		det := detail()
		det["event"] = e.String()
		det["discrepancy_before"] = old.String()
		det["discrepancy_after"] = d.String()
		lab := fmt.Sprintf("C01/%s/%s%s", label, opTag(le), ctx)
		if le.Kind == "settlement" {
			lab = "C01/" + label
		}
		m.rec.Violate(lab, fmt.Sprintf("identity %s broke: discrepancy %s -> %s", key, old, d), det)
	}
	m.disc[key] = new(big.Int).Set(d)
}

func (m *c01Mon) Observe(pre, post *cdpSnap, e *cdpEvent) {
	u := m.u
	m.st.advance(pre, post)
	ctx := m.st.context(pre, post)
	// unsolicited coins: plain bank sends to the custody account
	if e.Kind == "tx" && e.Res.OK() {
		if ms, ok := e.Msg.(*banktypes.MsgSend); ok && ms.ToAddress == u.c.ModAddr(vaulttypes.ModuleName).String() {
			for _, c := range ms.Amount {
				if m.unso[c.Denom] == nil {
					m.unso[c.Denom] = new(big.Int)
				}
				m.unso[c.Denom].Add(m.unso[c.Denom], c.Amount.BigInt())
			}
			m.rec.Count("unsolicited_to_custody", 1)
		}
	}
	// (1) custody per collateral denom
	sumIn := map[string]*big.Int{}
	for d := range m.coll {
		sumIn[d] = new(big.Int)
	}
	perProdIn := map[uint64]*big.Int{}
	perProdOut := map[uint64]*big.Int{}
	for _, p := range u.products {
		perProdIn[p.ID] = new(big.Int)
		perProdOut[p.ID] = new(big.Int)
	}
	for _, v := range post.Vaults {
		p := u.prodByID[v.ExtendedPairVaultID]
		if p == nil {
			continue
		}
		sumIn[p.In.Denom].Add(sumIn[p.In.Denom], v.AmountIn.BigInt())
		perProdIn[p.ID].Add(perProdIn[p.ID], v.AmountIn.BigInt())
		perProdOut[p.ID].Add(perProdOut[p.ID], v.AmountOut.BigInt())
	}
	for _, v := range post.Stable {
		p := u.prodByID[v.ExtendedPairVaultID]
		if p == nil {
			continue
		}
		sumIn[p.In.Denom].Add(sumIn[p.In.Denom], v.AmountIn.BigInt())
		perProdIn[p.ID].Add(perProdIn[p.ID], v.AmountIn.BigInt())
		perProdOut[p.ID].Add(perProdOut[p.ID], v.AmountOut.BigInt())
	}
	denoms := make([]string, 0, len(m.coll))
	for d := range m.coll {
		denoms = append(denoms, d)
	}
	sort.Strings(denoms)
	for _, d := range denoms {
		bal := post.bal(modLabel(vaulttypes.ModuleName), d)
		un := m.unso[d]
		if un == nil {
			un = new(big.Int)
		}
		disc := bigSub(bigSub(bal, un), sumIn[d])
		d := d
		m.check("custody:"+d, "custody", disc, e, ctx, func() map[string]interface{} {
			return map[string]interface{}{"denom": d, "custody_balance": bal.String(), "unsolicited": un.String(), "sum_recorded_collateral": sumIn[d].String(), "oplog_tail": ""}
		})
	}
	// (2) vault count
	cnt := big.NewInt(int64(len(post.Vaults)))
	m.check("count", "vault-count", bigSub(new(big.Int).SetUint64(post.LenVault), cnt), e, ctx, func() map[string]interface{} {
		return map[string]interface{}{"published_count": post.LenVault, "open_vaults": len(post.Vaults)}
	})
	// (3) per product totals = open + awaiting settlement
	awIn := map[uint64]*big.Int{}
	awOut := map[uint64]*big.Int{}
	for _, a := range m.st.await {
		if awIn[a.Prod] == nil {
			awIn[a.Prod] = new(big.Int)
			awOut[a.Prod] = new(big.Int)
		}
		awIn[a.Prod].Add(awIn[a.Prod], a.In)
		awOut[a.Prod].Add(awOut[a.Prod], a.Out)
	}
	for _, p := range u.products {
		mp, ok := post.Mappings[appAsset{p.App, p.ID}]
		pubIn, pubOut := new(big.Int), new(big.Int)
		if ok {
			pubIn, pubOut = mp.CollateralLockedAmount.BigInt(), mp.TokenMintedAmount.BigInt()
		}
		wantIn, wantOut := new(big.Int).Set(perProdIn[p.ID]), new(big.Int).Set(perProdOut[p.ID])
		if awIn[p.ID] != nil {
			wantIn.Add(wantIn, awIn[p.ID])
			wantOut.Add(wantOut, awOut[p.ID])
		}
		p := p
		m.check(fmt.Sprintf("total-in:%d", p.ID), "product-total/collateral-locked", bigSub(pubIn, wantIn), e, ctx, func() map[string]interface{} {
			return map[string]interface{}{"app": p.App, "product": p.ID, "published": pubIn.String(), "sum_open": perProdIn[p.ID].String(), "sum_open_plus_awaiting": wantIn.String()}
		})
		outLabel, outCtx, outEv := "product-total/tokens-minted", ctx, e
		if ex := m.st.extraV2[p.ID]; ex != nil && ex.Sign() > 0 {
			old := m.disc[fmt.Sprintf("total-out:%d", p.ID)]
			if old == nil {
				old = new(big.Int)
			}
			if bigSub(bigSub(pubOut, wantOut), old).Cmp(new(big.Int).Neg(ex)) == 0 {
				// exactly the accrued interest + closing fee of the settled vault(s) was subtracted on top of the principal
				outLabel, outCtx, outEv = "product-total/tokens-minted/v2-settlement-subtracts-interest-and-closing-fee", "", &cdpEvent{Kind: "settlement", Desc: e.String()}
			}
		}
		m.checkL(fmt.Sprintf("total-out:%d", p.ID), outLabel, bigSub(pubOut, wantOut), outEv, outCtx, e, func() map[string]interface{} {
			return map[string]interface{}{"app": p.App, "product": p.ID, "published": pubOut.String(), "sum_open": perProdOut[p.ID].String(), "sum_open_plus_awaiting": wantOut.String()}
		})
	}
	m.rec.Distinct("C01", len(post.Vaults)/3, len(post.Stable), len(m.st.await), e.Op, e.Res.OK(), ctx)
	m.rec.Count("seizures_v1", int64(m.st.seizedV1))
	m.rec.Count("seizures_v2", int64(m.st.seizedV2))
	m.rec.Count("settlements_v1", int64(m.st.settledV1))
	m.rec.Count("settlements_v2", int64(m.st.settledV2))
	m.rec.Max("max_open_vaults", int64(len(post.Vaults)))
}

func cdpSteps() int { return ev.Pick(2500, 20000) }

func TestC01(t *testing.T) {
	rec := ev.New("C01", "exploration", "seeded mixed CDP workload (vault/stable-mint/locker messages with class-drawn amounts, time gaps, oracle price moves, sweeps of both liquidation generations, bids) on several fee configurations; after every tx and block the custody, count and per-product total identities are recomputed from the records; distinct = (open-vault bucket, stable vaults, awaiting set size, op, outcome, block context)")
	defer finish(t, rec)
	runs := ev.Pick(2, 4)
	for run := 0; run < runs; run++ {
		variant := ev.ShardNo()*runs + run
		u := newCDP(t, cdpOpts{variant: variant})
		rnd := rng("C01", run)
		cfg := cdpCfg{priceMoves: run%2 == 1 || variant%3 == 0, bids: true, lockers: true, unsolicited: true, liquidateMsg: true, reserve: variant%2 == 0, govChanges: variant%3 != 1}
		r := newCdpRunner(u, rnd, rec, cfg, newC01Mon(u, rec))
		r.run(cdpSteps())
		// emergency shutdown of one app at the end of every second run
		if variant%2 == 1 {
			r.esmPhase(u.cdpApps[(variant/2)%len(u.cdpApps)])
		}
		if run == 0 {
			rec.Sample(map[string]interface{}{"variant": variant, "oplog_tail": r.tail(12)})
		}
		u.c.Close()
	}
	rec.Floor("op_vault_create_ok", 20)
	rec.Floor("op_vault_close_ok", 3)
	rec.Floor("blocks", 50)
}
