package props

import (
	"fmt"
	"strings"
	"time"

	abci "github.com/cometbft/cometbft/abci/types"
	"github.com/cometbft/cometbft/libs/log"
	storetypes "github.com/cosmos/cosmos-sdk/store/types"
	sdk "github.com/cosmos/cosmos-sdk/types"

	"verif/ev"
	"verif/inject"
	"verif/sim"
)

// storeKeys returns the KV store keys of the application by name.
func storeKeys(c *sim.Chain) map[string]*storetypes.KVStoreKey {
	out := map[string]*storetypes.KVStoreKey{}
	type byName interface {
		StoreKeysByName() map[string]storetypes.StoreKey
	}
	if bn, ok := c.App.CommitMultiStore().(byName); ok {
		for n, k := range bn.StoreKeysByName() {
			if kv, ok := k.(*storetypes.KVStoreKey); ok {
				out[n] = kv
			}
		}
	}
	return out
}

type hookRun struct {
	spy      *inject.Spy
	per      map[string]string
	all      string
	panicked interface{}
	stack    string
}

// runHookOnFork runs the begin (or end) block hooks of all modules on a fork of
// the committed state decorated with the spy multistore. Nothing is written back.
func runHookOnFork(c *sim.Chain, keys map[string]*storetypes.KVStoreKey, end bool, targetOrd, targetK int) *hookRun {
	spy := inject.NewSpy()
	spy.TargetOrd, spy.TargetK = targetOrd, targetK
	fork := c.App.CommitMultiStore().CacheMultiStore()
	cp := c.App.BaseApp.GetConsensusParams(c.App.BaseApp.NewContext(true, c.Header))
	r := &hookRun{spy: spy}
	if end {
		// the end-block hooks run on the state the begin-block hooks of the same block leave behind
		bctx := sdk.NewContext(fork, c.Header, false, log.NewNopLogger()).WithBlockGasMeter(sdk.NewInfiniteGasMeter())
		if cp != nil {
			bctx = bctx.WithConsensusParams(cp)
		}
		func() {
			defer func() {
				if p := recover(); p != nil {
					r.panicked = p
				}
			}()
			c.App.BeginBlocker(bctx, abci.RequestBeginBlock{Header: c.Header})
		}()
		if r.panicked != nil {
			r.per, r.all = inject.Dump(fork, keys)
			return r
		}
	}
	root := spy.Root(fork)
	ctx := sdk.NewContext(root, c.Header, false, log.NewNopLogger()).WithBlockGasMeter(sdk.NewInfiniteGasMeter())
	if cp != nil {
		ctx = ctx.WithConsensusParams(cp)
	}
	func() {
		defer func() {
			if p := recover(); p != nil {
				r.panicked = p
			}
		}()
		if end {
			c.App.EndBlocker(ctx, abci.RequestEndBlock{Height: c.Header.Height})
		} else {
			c.App.BeginBlocker(ctx, abci.RequestBeginBlock{Header: c.Header})
		}
	}()
	r.per, r.all = inject.Dump(root, keys)
	return r
}

// exploreCrashPoints enumerates, for the block hook about to run on the
// chain's committed state (c.Header is the next block's header, no block
// open), a store fault at every KV operation of every wrapped step.
// Returns the number of injected runs.
func exploreCrashPoints(c *sim.Chain, rec *ev.Rec, end bool, tag string, maxRuns int) int {
	keys := storeKeys(c)
	phase := "begin"
	if end {
		phase = "end"
	}
	base := runHookOnFork(c, keys, end, 0, 0)
	if base.panicked != nil {
		rec.Violate(fmt.Sprintf("C15/panic-escape/%s-block-on-fork/%s", phase, panicClass(base.panicked)), fmt.Sprintf("%s-block hooks panicked on a fork of the committed state: %v", phase, base.panicked), map[string]interface{}{"universe": tag, "height": c.Header.Height})
		return 0
	}
	steps := base.spy.WrappedSteps()
	rec.Count("explored_blocks_"+phase, 1)
	rec.Count("wrapped_steps_seen", int64(len(steps)))
	for _, st := range steps {
		out := "returned-error"
		if st.Written {
			out = "committed"
		}
		rec.Count("step:"+st.Caller+":"+out, 1)
		if st.OuterWr > 0 {
			rec.Violate("C15/step-writes-outside-its-branch/"+st.Caller, fmt.Sprintf("%d writes went to an enclosing context while the wrapped step was running: they survive a failure of the step", st.OuterWr),
				map[string]interface{}{"universe": tag, "height": c.Header.Height, "keys": firstN(st.OuterKeys, 5)})
		}
	}
	runs := 0
	for ord, st := range steps {
		var ref *hookRun
		for k := 1; k <= st.Ops; k++ {
			if maxRuns > 0 && runs >= maxRuns {
				rec.Count("crash_points_skipped_budget", int64(st.Ops-k+1))
				break
			}
			r := runHookOnFork(c, keys, end, ord+1, k)
			runs++
			rec.Eval(1)
			rec.Count("crash_points_injected", 1)
			rec.Distinct("C15-cp", tag, st.Caller, k, st.Written, len(st.Writes))
			w := map[string]interface{}{"universe": tag, "height": c.Header.Height, "phase": phase, "step_caller": st.Caller, "step_ordinal": ord + 1, "fault_at_op": k, "ops_in_step": st.Ops, "fired_at": r.spy.FiredAt}
			if !r.spy.Fired {
				// the faulted run diverged before reaching the k-th operation (cannot happen on a deterministic hook)
				rec.Violate("C15/crash-point/nondeterministic-step/"+st.Caller, "the injected run did not reach the operation recorded in the recording run", w)
				continue
			}
			if r.panicked != nil {
				rec.Violate("C15/crash-point/panic-escaped-wrapper/"+st.Caller, fmt.Sprintf("a failure inside a wrapped step escaped the block hook: %v", r.panicked), w)
				continue
			}
			var tgt *inject.Step
			if ws := r.spy.WrappedSteps(); ord < len(ws) {
				tgt = ws[ord]
			}
			if tgt != nil && tgt.Written {
				rec.Violate("C15/crash-point/failed-step-was-committed/"+st.Caller, "the step's branch was written although the step failed", w)
			}
			if tgt != nil && tgt.OuterWr > 0 {
				w["keys"] = firstN(tgt.OuterKeys, 5)
				rec.Violate("C15/crash-point/failed-step-left-writes-outside-its-branch/"+st.Caller, "writes of the failed step are visible on an enclosing context", w)
			}
			// a unit's failure stays the unit's: the wrapped steps that ENCLOSE it (the hook's own outer step, a sweep
			// wrapped as a whole) committed in the recording run and must still commit, otherwise the work of all the
			// other units of that sweep is dropped together with the failing one
			if tgt != nil {
				byID := map[int]*inject.Step{}
				ordOf := map[int]int{}
				n := 0
				for _, x := range r.spy.Steps {
					byID[x.ID] = x
					if x.Wrapped {
						ordOf[x.ID] = n
						n++
					}
				}
				for anc := byID[tgt.Parent]; anc != nil; anc = byID[anc.Parent] {
					if !anc.Wrapped {
						continue
					}
					rec.Eval(1)
					rec.Count("enclosing_steps_checked_after_a_unit_failure", 1)
					if o := ordOf[anc.ID]; o < len(steps) && steps[o].Written && steps[o].Caller == anc.Caller && !anc.Written {
						w["enclosing_step_caller"] = anc.Caller
						rec.Violate("C15/crash-point/unit-failure-dropped-the-enclosing-step/"+anc.Caller+"<-"+st.Caller, "a failure inside one unit made the enclosing wrapped step fail as well: the work of the other units of that step is dropped", w)
					}
				}
			}
			if ref == nil {
				ref = r // k == 1: the step did nothing, everything else proceeded
				continue
			}
			if r.all != ref.all {
				w["stores_differing"] = inject.DiffStores(ref.per, r.per)
				rec.Violate("C15/crash-point/state-depends-on-where-the-step-failed/"+st.Caller, "state after the block hook differs between a failure at the first and at a later operation of the step: part of the failed step is visible or the remaining units were processed differently", w)
			}
		}
	}
	rec.Count("max_crash_points_in_one_block", 0)
	rec.Max("max_crash_points_in_one_block", int64(runs))
	return runs
}

func firstN(s []string, n int) []string {
	if len(s) > n {
		return s[:n]
	}
	return s
}

// exploreAtBoundary ends the open block, explores the next begin block on forks, then really begins it
// and checks that the recording run on the fork reproduced the real hook.
func exploreAtBoundary(c *sim.Chain, rec *ev.Rec, dt time.Duration, tag string, maxRuns int) {
	// end-block exploration first: needs the state before EndBlock; the committed state lacks this
	// block's deliver-state writes, so the end hook is explored on the next boundary's committed state instead
	c.EndAndCommit()
	c.Header.Time = c.Header.Time.Add(dt)
	keys := storeKeys(c)
	base := runHookOnFork(c, keys, false, 0, 0)
	exploreCrashPoints(c, rec, false, tag, maxRuns)
	exploreCrashPoints(c, rec, true, tag, maxRuns/4)
	c.Begin()
	if base.panicked == nil {
		per, all := inject.Dump(c.Ctx().MultiStore(), keys)
		rec.Eval(1)
		if all != base.all {
			diff := inject.DiffStores(per, base.per)
			// the real ABCI call additionally writes nothing to KV stores; a difference invalidates the fork set-up
			rec.Note(fmt.Sprintf("fork validation: recording run differs from the real BeginBlock in stores %s at height %d (%s)", strings.Join(diff, ","), c.Header.Height, tag))
			rec.Count("fork_validation_mismatch", 1)
		} else {
			rec.Count("fork_validation_ok", 1)
		}
	}
}
