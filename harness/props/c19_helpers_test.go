package props

import (
	"fmt"
	"math/big"
	"sort"

	sdkmath "cosmossdk.io/math"
	sdk "github.com/cosmos/cosmos-sdk/types"

	"github.com/comdex-official/comdex/x/liquidity/amm"
	liquiditytypes "github.com/comdex-official/comdex/x/liquidity/types"
	rewardstypes "github.com/comdex-official/comdex/x/rewards/types"

	"verif/sim"
)

// ---------------------------------------------------------------------------
// exact share oracle
//
// A farmer's "farmed value" in a pool is what the chain itself says the farmed
// pool coins are worth: the pool-coin redemption amount (amm.Withdraw, no fee)
// of the priced side of the pair, times two, times the oracle price, divided by
// the asset's decimals.  The oracle evaluates this in exact rationals on the
// committed state the epoch hook saw (no Dec arithmetic is re-implemented: for
// decimals = 10^k, k <= 18, the chain's Dec value is exactly this rational).
// For a master-pool gauge the eligible value is min(value in master pool, sum
// of values in the child pools), as the gauge metadata defines.
// ---------------------------------------------------------------------------

type c19Share struct {
	none    bool // nothing may be paid for this gauge in this state
	skip    bool // state outside the configurations where the definition is certain
	why     string
	master  bool
	shares  map[string]*big.Rat // bech32 -> share in [0,1]; absent == 0
	total   *big.Rat
	nPos    int
	farmers int
}

type c19Kit struct {
	pool   liquiditytypes.Pool
	pair   liquiditytypes.Pair
	rx, ry sdkmath.Int
	ps     sdkmath.Int
}

func c19PoolKit(c *sim.Chain, S sdk.Context, appID, poolID uint64) (c19Kit, string) {
	k := c.App.LiquidityKeeper
	pool, found := k.GetPool(S, appID, poolID)
	if !found {
		return c19Kit{}, "pool-not-found"
	}
	if pool.Disabled {
		return c19Kit{}, "pool-disabled"
	}
	pair, found := k.GetPair(S, pool.AppId, pool.PairId)
	if !found {
		return c19Kit{}, "pair-not-found"
	}
	rx, ry := k.GetPoolBalances(S, pool)
	ps := k.GetPoolCoinSupply(S, pool)
	if ps.IsZero() || rx.Amount.IsZero() || ry.Amount.IsZero() {
		return c19Kit{}, "pool-depleted"
	}
	return c19Kit{pool: pool, pair: pair, rx: rx.Amount, ry: ry.Amount, ps: ps}, ""
}

type c19Price struct {
	denom string
	twa   uint64
	dec   *big.Int
}

// c19PricedAsset: which side of the pair is valued (quote first, then base).
// ok=false: no usable price. ambiguous=true: a record that is active with value 0
// (the selection would depend on begin-block ordering) -- not generated, but guarded.
func c19PricedAsset(c *sim.Chain, S sdk.Context, pair liquiditytypes.Pair) (p c19Price, ok bool, ambiguous bool) {
	for _, denom := range []string{pair.QuoteCoinDenom, pair.BaseCoinDenom} {
		asset, found := c.App.AssetKeeper.GetAssetForDenom(S, denom)
		if !found {
			continue
		}
		twa, found := c.App.MarketKeeper.GetTwa(S, asset.Id)
		if !found {
			continue
		}
		if twa.Twa == 0 {
			if twa.IsPriceActive {
				return c19Price{}, false, true
			}
			continue
		}
		return c19Price{denom: denom, twa: twa.Twa, dec: asset.Decimals.BigInt()}, true, false
	}
	return c19Price{}, false, false
}

func c19IsPow10UpTo18(d *big.Int) bool {
	x := big.NewInt(1)
	ten := big.NewInt(10)
	for i := 0; i <= 18; i++ {
		if x.Cmp(d) == 0 {
			return true
		}
		x = new(big.Int).Mul(x, ten)
	}
	return false
}

// c19Value: value of pc pool coins of the kit's pool; ok=false when the chain skips the position.
func c19Value(kit c19Kit, p c19Price, pc sdkmath.Int) (*big.Rat, bool) {
	x, y := amm.Withdraw(kit.rx, kit.ry, kit.ps, pc, sdkmath.LegacyZeroDec())
	if x.IsZero() && y.IsZero() {
		return nil, false
	}
	amt := y
	if kit.pair.QuoteCoinDenom == p.denom {
		amt = x
	}
	num := new(big.Int).Mul(amt.BigInt(), new(big.Int).SetUint64(p.twa))
	num.Mul(num, big.NewInt(2))
	return new(big.Rat).SetFrac(num, p.dec), true
}

func c19ShareOracle(c *sim.Chain, S sdk.Context, g rewardstypes.Gauge) c19Share {
	meta := g.GetLiquidityMetaData()
	if meta == nil {
		return c19Share{none: true, why: "no-liquidity-metadata"}
	}
	kit, why := c19PoolKit(c, S, g.AppId, meta.PoolId)
	if why != "" {
		return c19Share{none: true, why: why}
	}
	price, ok, amb := c19PricedAsset(c, S, kit.pair)
	if amb {
		return c19Share{skip: true, why: "active-zero-price"}
	}
	if !ok {
		return c19Share{none: true, why: "no-oracle-price"}
	}
	if !c19IsPow10UpTo18(price.dec) {
		return c19Share{skip: true, why: "decimals-not-power-of-ten"}
	}
	k := c.App.LiquidityKeeper
	type lp struct {
		addr  string
		acc   sdk.AccAddress
		value *big.Rat
	}
	var lps []lp
	for _, af := range k.GetAllActiveFarmers(S, g.AppId, kit.pool.Id) {
		acc, err := sdk.AccAddressFromBech32(af.Farmer)
		if err != nil {
			continue
		}
		v, ok := c19Value(kit, price, af.FarmedPoolCoin.Amount)
		if !ok {
			continue
		}
		lps = append(lps, lp{addr: af.Farmer, acc: acc, value: v})
	}
	res := c19Share{shares: map[string]*big.Rat{}, farmers: len(lps)}
	elig := make([]*big.Rat, len(lps))
	for i := range lps {
		elig[i] = lps[i].value
	}
	if meta.IsMasterPool {
		var childIDs []uint64
		if len(meta.ChildPoolIds) == 0 {
			for _, p := range k.GetAllPools(S, g.AppId) {
				if p.Id != meta.PoolId && !p.Disabled {
					childIDs = append(childIDs, p.Id)
				}
			}
		} else {
			for _, id := range meta.ChildPoolIds {
				if id != meta.PoolId {
					childIDs = append(childIDs, id)
				}
			}
		}
		if len(childIDs) != 0 {
			res.master = true
			child := make([]*big.Rat, len(lps))
			for i := range child {
				child[i] = new(big.Rat)
			}
			for _, cid := range childIDs {
				ckit, why := c19PoolKit(c, S, g.AppId, cid)
				if why != "" {
					continue
				}
				cprice, ok, amb := c19PricedAsset(c, S, ckit.pair)
				if amb {
					return c19Share{skip: true, why: "active-zero-price-child"}
				}
				if !ok {
					continue
				}
				if !c19IsPow10UpTo18(cprice.dec) {
					return c19Share{skip: true, why: "decimals-not-power-of-ten-child"}
				}
				for i, f := range lps {
					af, found := k.GetActiveFarmer(S, g.AppId, cid, f.acc)
					if !found {
						continue
					}
					v, ok := c19Value(ckit, cprice, af.FarmedPoolCoin.Amount)
					if !ok {
						continue
					}
					child[i] = new(big.Rat).Add(child[i], v)
				}
			}
			for i := range lps {
				if child[i].Cmp(elig[i]) < 0 {
					elig[i] = child[i]
				}
			}
		}
	}
	total := new(big.Rat)
	for _, v := range elig {
		total.Add(total, v)
	}
	res.total = total
	if total.Sign() == 0 {
		res.none = true
		res.why = "zero-eligible-value"
		return res
	}
	for i, f := range lps {
		if elig[i].Sign() > 0 {
			res.nPos++
			res.shares[f.addr] = new(big.Rat).Quo(elig[i], total)
		}
	}
	return res
}

// valueDigits: number of decimal digits of the integer part of the total eligible value (0 when none).
func (s c19Share) valueDigits() int {
	if s.total == nil || s.total.Sign() == 0 {
		return 0
	}
	q := new(big.Int).Quo(s.total.Num(), s.total.Denom())
	if q.Sign() == 0 {
		return 0
	}
	return len(q.Text(10))
}

// c19Bound = share*alloc*(1+10^-12) + 1 (0 when the share is 0).
func c19Bound(share *big.Rat, alloc *big.Int) *big.Rat {
	if share == nil || share.Sign() == 0 {
		return new(big.Rat)
	}
	b := new(big.Rat).Mul(share, new(big.Rat).SetInt(alloc))
	tol := new(big.Rat).SetFrac(big.NewInt(1_000_000_000_001), big.NewInt(1_000_000_000_000))
	b.Mul(b, tol)
	return b.Add(b, big.NewRat(1, 1))
}

// ---------------------------------------------------------------------------
// snapshots
// ---------------------------------------------------------------------------

type c19Snap struct {
	gauges map[uint64]rewardstypes.Gauge
	ids    []uint64
	epochs map[int64]rewardstypes.EpochInfo
	mod    sdk.Coins
	accts  []sdk.Coins
}

func c19TakeSnap(c *sim.Chain, ctx sdk.Context) c19Snap {
	s := c19Snap{gauges: map[uint64]rewardstypes.Gauge{}, epochs: map[int64]rewardstypes.EpochInfo{}}
	for _, g := range c.App.Rewardskeeper.GetAllGauges(ctx) {
		s.gauges[g.Id] = g
		s.ids = append(s.ids, g.Id)
	}
	sort.Slice(s.ids, func(i, j int) bool { return s.ids[i] < s.ids[j] })
	for _, e := range c.App.Rewardskeeper.GetAllEpochInfos(ctx) {
		s.epochs[int64(e.Duration)] = e
	}
	s.mod = c.App.BankKeeper.GetAllBalances(ctx, c.ModAddr(rewardstypes.ModuleName))
	for _, a := range c.Accts {
		s.accts = append(s.accts, c.App.BankKeeper.GetAllBalances(ctx, a.Addr))
	}
	return s
}

// c19Custody: what the rewards account must at least hold, per denom.
func c19Custody(c *sim.Chain, ctx sdk.Context) (need map[string]*big.Int, parts map[string]string) {
	need = map[string]*big.Int{}
	parts = map[string]string{}
	add := func(denom string, amt *big.Int, what string) {
		if amt.Sign() <= 0 {
			return
		}
		if need[denom] == nil {
			need[denom] = new(big.Int)
		}
		need[denom].Add(need[denom], amt)
		parts[denom] += fmt.Sprintf("%s=%s ", what, amt)
	}
	k := c.App.Rewardskeeper
	for _, g := range k.GetAllGauges(ctx) {
		if g.ForSwapFee {
			add(g.DepositAmount.Denom, g.DepositAmount.Amount.BigInt(), fmt.Sprintf("swapfee-gauge#%d", g.Id))
			continue
		}
		if !g.IsActive {
			continue
		}
		rem := new(big.Int).Sub(g.DepositAmount.Amount.BigInt(), g.DistributedAmount.Amount.BigInt())
		add(g.DepositAmount.Denom, rem, fmt.Sprintf("gauge#%d", g.Id))
	}
	for _, p := range k.GetExternalRewardsLockers(ctx) {
		if p.IsActive {
			add(p.AvailableRewards.Denom, p.AvailableRewards.Amount.BigInt(), fmt.Sprintf("locker-program#%d", p.Id))
		}
	}
	for _, p := range k.GetExternalRewardVaults(ctx) {
		if p.IsActive {
			add(p.AvailableRewards.Denom, p.AvailableRewards.Amount.BigInt(), fmt.Sprintf("vault-program#%d", p.Id))
		}
	}
	for _, p := range k.GetExternalRewardLends(ctx) {
		if p.IsActive {
			add(p.AvailableRewards.Denom, p.AvailableRewards.Amount.BigInt(), fmt.Sprintf("lend-program#%d", p.Id))
		}
	}
	for _, p := range k.GetAllExternalRewardStableVault(ctx) {
		if p.IsActive {
			add(p.AvailableRewards.Denom, p.AvailableRewards.Amount.BigInt(), fmt.Sprintf("stable-program#%d", p.Id))
		}
	}
	return need, parts
}
