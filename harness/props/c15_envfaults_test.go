package props

import (
	"fmt"
	"testing"
	"time"

	sdk "github.com/cosmos/cosmos-sdk/types"

	auctionsV2types "github.com/comdex-official/comdex/x/auctionsV2/types"
	lendtypes "github.com/comdex-official/comdex/x/lend/types"
	liqtypes "github.com/comdex-official/comdex/x/liquidity/types"
	rewardstypes "github.com/comdex-official/comdex/x/rewards/types"

	"verif/ev"
)

// c15EnvFaultsOther: environment faults on the lend and the liquidity universes (the CDP universe has its own):
// prices inactive / absent / zero, pool and custody accounts drained (fully or down to one coin), parameters
// missing, right before real blocks. No begin/end blocker may panic, and a borrow must never be left flagged as
// seized without a seizure record (a half-applied unit) by a block that ran under a fault.
func c15EnvFaultsOther(t *testing.T, rec *ev.Rec) {
	sink := sdk.AccAddress([]byte("verif-fault-sink----"))
	// ---- lend
	for epi := 0; epi < ev.Pick(4, 24); epi++ {
		v := ev.ShardNo()*24 + epi
		e := c08Setup(t, ev.NewScratch(), rng("C15-lendfault-setup", v), 0, v%6, true)
		e.rnd = rng("C15-lendfault", v)
		c := e.c
		c.PanicHook = func(phase string, h int64, p interface{}) {
			e.panicked = true
			rec.Violate(fmt.Sprintf("C15/panic-escape/%s/%s", phase, panicClass(p)), fmt.Sprintf("lend universe under an environment fault: %s at height %d panicked: %v", phase, h, p),
				map[string]interface{}{"stack": comdexFrames(c.LastPanicStack), "history_tail": e.tail(8)})
		}
		for i := 0; i < 150+e.rnd.Intn(ev.Pick(300, 900)) && !e.panicked; i++ {
			if e.rnd.Intn(100) < 25 {
				e.blockStep()
			} else {
				e.txStep()
			}
		}
		for f := 0; f < 4 && !e.panicked; f++ {
			// positions turn unsafe ...
			for _, id := range e.u.Order {
				if d := e.u.Assets[id].Denom; d == "uatom" || d == "uosmo" {
					p, _ := e.u.Price(id)
					e.u.SetPrice(id, p*(55+uint64(e.rnd.Intn(40)))/100+1, true)
				}
			}
			// ... and something is wrong with the environment
			kind := ""
			switch e.rnd.Intn(6) {
			case 0:
				id := e.u.Order[e.rnd.Intn(len(e.u.Order))]
				p, _ := e.u.Price(id)
				e.u.SetPrice(id, p, false)
				kind = "price-inactive"
				e.log(fmt.Sprintf("fault: price of asset %d inactive", id))
			case 1:
				id := e.u.Order[e.rnd.Intn(len(e.u.Order))]
				c.App.MarketKeeper.DeleteTwaData(c.Ctx(), id)
				kind = "price-absent"
				e.log(fmt.Sprintf("fault: price record of asset %d deleted", id))
			case 2:
				id := e.u.Order[e.rnd.Intn(len(e.u.Order))]
				e.u.SetPrice(id, 0, true)
				kind = "price-zero"
				e.log(fmt.Sprintf("fault: price of asset %d is zero", id))
			case 3, 4:
				mods := []string{auctionsV2types.ModuleName, lendtypes.ModuleName}
				for _, pid := range c08SortedPools(e.u) {
					mods = append(mods, e.u.Pools[pid].Module)
				}
				mod := mods[e.rnd.Intn(len(mods))]
				bals := c.App.BankKeeper.GetAllBalances(c.Ctx(), c.ModAddr(mod))
				if len(bals) == 0 {
					kind = "drain-nothing-to-drain"
					break
				}
				coin := bals[e.rnd.Intn(len(bals))]
				if e.rnd.Intn(2) == 0 && coin.Amount.GT(sdk.OneInt()) {
					coin.Amount = coin.Amount.SubRaw(1)
				}
				_ = c.App.BankKeeper.SendCoinsFromModuleToAccount(c.Ctx(), mod, sink, sdk.NewCoins(coin))
				kind = "module-account-drained"
				e.log(fmt.Sprintf("fault: %s drained of %s", mod, coin))
			default:
				c.Ctx().KVStore(c.App.GetKey(auctionsV2types.StoreKey)).Delete(auctionsV2types.AuctionParamsKey)
				kind = "auction-params-missing"
				e.log("fault: auctionsV2 params deleted")
			}
			rec.Count("env_fault_lend_"+kind, 1)
			for b := 0; b < 3 && !e.panicked; b++ {
				c.NextBlock(time.Duration(5+e.rnd.Intn(2000)) * time.Second)
				rec.Eval(1)
				rec.Count("env_faulted_blocks_lend", 1)
				if e.panicked {
					break
				}
				s := e.snap()
				for id, bo := range s.borrows {
					if bo.IsLiquidated && !s.locked[id] {
						rec.Violate("C15/unit-half-applied/borrow-flagged-without-seizure-record", "after a block that ran under an environment fault a borrow is flagged as seized but no seizure record / auction exists for it",
							map[string]interface{}{"borrow": id, "fault": kind, "history_tail": e.tail(6)})
					}
				}
			}
			rec.Distinct("C15-env-lend", kind, v%6)
			for i := 0; i < 10 && !e.panicked; i++ {
				e.txStep()
			}
		}
		c.Close()
	}
	// ---- liquidity
	for epi := 0; epi < ev.Pick(4, 24); epi++ {
		v := ev.ShardNo()*24 + epi
		w := liqNewWorld(t, ev.NewScratch(), rng("C15-liqfault-setup", v), v, nil)
		w.rnd = rng("C15-liqfault", v)
		c := w.c
		panicked := false
		c.PanicHook = func(phase string, h int64, p interface{}) {
			panicked = true
			rec.Violate(fmt.Sprintf("C15/panic-escape/%s/%s", phase, panicClass(p)), fmt.Sprintf("liquidity universe under an environment fault: %s at height %d panicked: %v", phase, h, p),
				map[string]interface{}{"stack": comdexFrames(c.LastPanicStack), "last_ops": append([]string(nil), w.trace...)})
		}
		for b := 0; b < 20+w.rnd.Intn(ev.Pick(40, 120)) && !panicked; b++ {
			for k := w.rnd.Intn(7); k > 0; k-- {
				w.randomOp()
			}
			w.nextBlock(w.blockGap())
		}
		for f := 0; f < 4 && !panicked; f++ {
			for k := 0; k < 8; k++ {
				w.randomOp() // requests and orders pending for the faulted end block
			}
			kind := ""
			lk := c.App.LiquidityKeeper
			app := w.apps[w.rnd.Intn(len(w.apps))]
			switch w.rnd.Intn(5) {
			case 0, 1: // a pair escrow, a pool reserve or the global escrow loses coins
				var addrs []sdk.AccAddress
				for _, p := range lk.GetAllPairs(w.ctx(), app) {
					addrs = append(addrs, p.GetEscrowAddress())
				}
				for _, p := range lk.GetAllPools(w.ctx(), app) {
					addrs = append(addrs, p.GetReserveAddress())
				}
				addrs = append(addrs, liqtypes.GlobalEscrowAddress)
				a := addrs[w.rnd.Intn(len(addrs))]
				bals := c.App.BankKeeper.GetAllBalances(w.ctx(), a)
				if len(bals) == 0 {
					kind = "drain-nothing-to-drain"
					break
				}
				coin := bals[w.rnd.Intn(len(bals))]
				if w.rnd.Intn(2) == 0 && coin.Amount.GT(sdk.OneInt()) {
					coin.Amount = coin.Amount.QuoRaw(2)
				}
				_ = c.App.BankKeeper.SendCoins(w.ctx(), a, sink, sdk.NewCoins(coin))
				kind = "custody-drained"
			case 2: // the module account that holds farmed pool coins is drained
				bals := c.App.BankKeeper.GetAllBalances(w.ctx(), c.ModAddr(liqtypes.ModuleName))
				if len(bals) == 0 {
					kind = "drain-nothing-to-drain"
					break
				}
				_ = c.App.BankKeeper.SendCoinsFromModuleToAccount(w.ctx(), liqtypes.ModuleName, sink, sdk.NewCoins(bals[w.rnd.Intn(len(bals))]))
				kind = "farm-custody-drained"
			case 3: // the app's parameters are gone
				store := w.ctx().KVStore(c.App.GetKey(liqtypes.StoreKey))
				store.Delete(liqtypes.GetGenericParamsKey(app))
				kind = "generic-params-missing"
			default: // rewards custody drained (gauges cannot pay)
				bals := c.App.BankKeeper.GetAllBalances(w.ctx(), c.ModAddr(rewardstypes.ModuleName))
				if len(bals) == 0 {
					kind = "drain-nothing-to-drain"
					break
				}
				_ = c.App.BankKeeper.SendCoinsFromModuleToAccount(w.ctx(), rewardstypes.ModuleName, sink, bals)
				kind = "rewards-custody-drained"
			}
			rec.Count("env_fault_liquidity_"+kind, 1)
			w.pushTrace("fault: " + kind)
			for b := 0; b < 3 && !panicked; b++ {
				w.nextBlock(6 * time.Second)
				rec.Eval(1)
				rec.Count("env_faulted_blocks_liquidity", 1)
			}
			rec.Distinct("C15-env-liq", kind, app)
		}
		c.Close()
	}
	rec.Floor("env_faulted_blocks_lend", 20)
	rec.Floor("env_faulted_blocks_liquidity", 20)
}
