package props

// C07 — every order is settled exactly: coins taken at placement == offer +
// swap-fee reserve; returned over its life == fills + unspent offer + fee
// reserve not attributable to the executed part; nothing of a terminated order
// stays in the pair escrow; owner cancel of an order outside its placement
// batch always works; MM cancel / replace cancels and refunds every earlier MM
// order of that owner in that pair.

import (
	"fmt"
	"math/big"
	"sort"
	"strings"
	"testing"

	sdk "github.com/cosmos/cosmos-sdk/types"

	liqtypes "github.com/comdex-official/comdex/x/liquidity/types"

	"verif/ev"
)

type c07Ord struct {
	App, Pair, ID uint64
	Orderer       string
	Type          liqtypes.OrderType
	Dir           liqtypes.OrderDirection
	OfferDenom    string
	DemandDenom   string
	Offer         *big.Int
	Rem           *big.Int
	Recv          *big.Int
	Status        liqtypes.OrderStatus
	Batch         uint64
}

func (o *c07Ord) live() bool {
	switch o.Status {
	case liqtypes.OrderStatusNotExecuted, liqtypes.OrderStatusNotMatched, liqtypes.OrderStatusPartiallyMatched:
		return true
	}
	return false
}

func (o *c07Ord) String() string {
	return fmt.Sprintf("order{app=%d pair=%d id=%d %s %s orderer=%s offer=%s%s remaining=%s received=%s%s status=%s batch=%d}",
		o.App, o.Pair, o.ID, strings.TrimPrefix(o.Type.String(), "ORDER_TYPE_"), strings.TrimPrefix(o.Dir.String(), "ORDER_DIRECTION_"), o.Orderer, o.Offer, o.OfferDenom, o.Rem, o.Recv, o.DemandDenom, strings.TrimPrefix(o.Status.String(), "ORDER_STATUS_"), o.Batch)
}

type c07Pair struct {
	App, ID   uint64
	Batch     uint64
	Escrow    sdk.AccAddress
	Collector sdk.AccAddress
}

type c07Snap struct {
	orders map[[3]uint64]*c07Ord
	pairs  map[[2]uint64]*c07Pair
	bal    map[string]map[string]*big.Int // address -> denom -> amount
	taken  bool
}

type c07Mon struct {
	rec       *ev.Rec
	prev      c07Snap
	lastDisc  map[string]string
	fillBatch map[[3]uint64]int // number of distinct steps in which the order received coins
	samples   int
	names     map[string]string // address -> short name
	// swap-fee rate (x 1e18) in force when the order was placed: the fee reserve taken from the orderer was
	// floor(offer * that rate), whatever governance does to the rate afterwards
	placedRate map[[3]uint64]*big.Int
	// pairs in which an order placed under another swap-fee rate has been settled: their escrow may be off from then on
	tainted map[[2]uint64]bool
}

func (m *c07Mon) Init(w *liqWorld) {
	m.lastDisc = map[string]string{}
	m.fillBatch = map[[3]uint64]int{}
	m.placedRate = map[[3]uint64]*big.Int{}
	m.tainted = map[[2]uint64]bool{}
	m.prev = c07Snap{}
	m.names = map[string]string{}
	for _, a := range w.c.Accts {
		m.names[a.Addr.String()] = a.Name
	}
}

func (m *c07Mon) fee(w *liqWorld, o *c07Ord, amount *big.Int) *big.Int {
	return m.feeAt(o, amount, w.rateNum[o.App])
}

func (m *c07Mon) feeAt(o *c07Ord, amount, rate *big.Int) *big.Int {
	if o.Type == liqtypes.OrderTypeMM {
		return new(big.Int)
	}
	return liqFee(amount, rate)
}

// rateOf: the rate the order's fee reserve was computed with (the current one for orders first seen live).
func (m *c07Mon) rateOf(w *liqWorld, o *c07Ord) *big.Int {
	if r := m.placedRate[[3]uint64{o.App, o.Pair, o.ID}]; r != nil {
		return r
	}
	return w.rateNum[o.App]
}

func (m *c07Mon) snapshot(w *liqWorld) c07Snap {
	ctx := w.ctx()
	k := w.c.App.LiquidityKeeper
	bank := w.c.App.BankKeeper
	s := c07Snap{orders: map[[3]uint64]*c07Ord{}, pairs: map[[2]uint64]*c07Pair{}, bal: map[string]map[string]*big.Int{}, taken: true}
	track := func(addr sdk.AccAddress) {
		b := map[string]*big.Int{}
		for _, c := range bank.GetAllBalances(ctx, addr) {
			b[c.Denom] = c.Amount.BigInt()
		}
		s.bal[addr.String()] = b
	}
	for _, a := range w.orderers {
		track(a.Addr)
	}
	for _, app := range w.apps {
		for _, p := range k.GetAllPairs(ctx, app) {
			cp := &c07Pair{App: app, ID: p.Id, Batch: p.CurrentBatchId, Escrow: p.GetEscrowAddress(), Collector: p.GetSwapFeeCollectorAddress()}
			s.pairs[[2]uint64{app, p.Id}] = cp
			track(cp.Escrow)
			track(cp.Collector)
		}
		for _, o := range k.GetAllOrders(ctx, app) {
			s.orders[[3]uint64{app, o.PairId, o.Id}] = &c07Ord{App: app, Pair: o.PairId, ID: o.Id, Orderer: o.Orderer, Type: o.Type, Dir: o.Direction,
				OfferDenom: o.OfferCoin.Denom, DemandDenom: o.ReceivedCoin.Denom, Offer: o.OfferCoin.Amount.BigInt(), Rem: o.RemainingOfferCoin.Amount.BigInt(),
				Recv: o.ReceivedCoin.Amount.BigInt(), Status: o.Status, Batch: o.BatchId}
		}
	}
	return s
}

func c07Get(m map[string]map[string]*big.Int, addr, denom string) *big.Int {
	if b, ok := m[addr]; ok {
		if v, ok := b[denom]; ok {
			return v
		}
	}
	return new(big.Int)
}

func c07Add(m map[string]map[string]*big.Int, addr, denom string, v *big.Int) {
	if m[addr] == nil {
		m[addr] = map[string]*big.Int{}
	}
	if m[addr][denom] == nil {
		m[addr][denom] = new(big.Int)
	}
	m[addr][denom].Add(m[addr][denom], v)
}

func c07StatusName(s liqtypes.OrderStatus) string {
	return strings.ToLower(strings.TrimPrefix(s.String(), "ORDER_STATUS_"))
}

func (m *c07Mon) violate(w *liqWorld, st *liqStep, law, what string, detail map[string]interface{}) {
	detail["observed_after"] = st.Kind + ":" + st.Desc
	m.rec.Violate(fmt.Sprintf("C07/%s/%s", st.Op, law), what, w.witness(detail))
}

func (m *c07Mon) Observe(w *liqWorld, st *liqStep) {
	rec := m.rec
	cur := m.snapshot(w)
	prev := m.prev
	m.prev = cur
	rec.Count("observation_points/"+st.Kind, 1)
	if !prev.taken {
		return
	}
	signer := ""
	if st.Signer != nil {
		signer = st.Signer.Addr.String()
	}

	// ---- expected balance movements derived from the order records
	exp := map[string]map[string]*big.Int{}
	expB := map[string]map[string]*big.Int{}  // the same with reading B for orders that lived through a fee-rate change
	rateChanged := false                      // such an order terminated in this step
	termKinds := map[string]map[string]bool{} // address|denom -> terminal statuses contributing in this step
	var transitions []string
	note := func(addr, denom, kind string) {
		k := addr + "|" + denom
		if termKinds[k] == nil {
			termKinds[k] = map[string]bool{}
		}
		termKinds[k][kind] = true
	}
	keys := map[[3]uint64]bool{}
	for k := range prev.orders {
		keys[k] = true
	}
	for k := range cur.orders {
		keys[k] = true
	}
	sorted := make([][3]uint64, 0, len(keys))
	for k := range keys {
		sorted = append(sorted, k)
	}
	sort.Slice(sorted, func(i, j int) bool {
		a, b := sorted[i], sorted[j]
		if a[0] != b[0] {
			return a[0] < b[0]
		}
		if a[1] != b[1] {
			return a[1] < b[1]
		}
		return a[2] < b[2]
	})
	for _, key := range sorted {
		pre, post := prev.orders[key], cur.orders[key]
		pk := [2]uint64{key[0], key[1]}
		switch {
		case pre == nil && post != nil:
			// placement: offer + fee reserve leaves the orderer
			rec.Eval(1)
			m.placedRate[key] = new(big.Int).Set(w.rateNum[post.App])
			taken := new(big.Int).Add(post.Offer, m.fee(w, post, post.Offer))
			c07Add(exp, post.Orderer, post.OfferDenom, new(big.Int).Neg(taken))
			c07Add(expB, post.Orderer, post.OfferDenom, new(big.Int).Neg(taken))
			note(post.Orderer, post.OfferDenom, "placed")
			rec.Count("orders_observed_placed/"+strings.ToLower(strings.TrimPrefix(post.Type.String(), "ORDER_TYPE_")), 1)
			if post.App != post.Pair {
				rec.Count("orders_observed_placed_app_ne_pair", 1)
			}
			rec.Distinct("combo", post.App, post.Pair, post.Type)
			if p := cur.pairs[pk]; p != nil && post.Orderer == p.Collector.String() {
				rec.Count("orders_placed_by_swap_fee_collector", 1)
			}
			pre = &c07Ord{App: post.App, Pair: post.Pair, ID: post.ID, Orderer: post.Orderer, Type: post.Type, Dir: post.Dir, OfferDenom: post.OfferDenom, DemandDenom: post.DemandDenom,
				Offer: post.Offer, Rem: post.Offer, Recv: new(big.Int), Status: liqtypes.OrderStatusNotExecuted, Batch: post.Batch}
			fallthrough
		case pre != nil && post != nil:
			if !pre.live() {
				if pre.Status != post.Status || pre.Rem.Cmp(post.Rem) != 0 || pre.Recv.Cmp(post.Recv) != 0 {
					m.violate(w, st, "terminated-order-changed", "an order record changed after termination", map[string]interface{}{"before": pre.String(), "after": post.String()})
				}
				continue
			}
			rec.Eval(1)
			dRecv := new(big.Int).Sub(post.Recv, pre.Recv)
			dRem := new(big.Int).Sub(pre.Rem, post.Rem)
			if dRecv.Sign() < 0 || dRem.Sign() < 0 || post.Offer.Cmp(pre.Offer) != 0 || post.Rem.Sign() < 0 {
				m.violate(w, st, "order-record-regressed", "received coin decreased, remaining offer coin increased or offer coin changed", map[string]interface{}{"before": pre.String(), "after": post.String()})
				continue
			}
			if dRecv.Sign() > 0 {
				c07Add(exp, post.Orderer, post.DemandDenom, dRecv)
				c07Add(expB, post.Orderer, post.DemandDenom, dRecv)
				note(post.Orderer, post.DemandDenom, "fill")
				m.fillBatch[key]++
				rec.Count("fills_observed", 1)
				if m.fillBatch[key] == 2 {
					rec.Count("orders_filled_over_several_batches", 1)
				}
			}
			if !post.live() {
				executed := new(big.Int).Sub(post.Offer, post.Rem)
				// the reserve is what was taken at placement; the part "attributable to the executed portion" is
				// floor(executed * rate) -- with the rate of the placement (reading A) or, when governance changed the
				// rate in between, possibly with the rate in force now (reading B). Either way the refund plus the
				// forwarded fee is exactly remaining + reserve.
				r0, r1 := m.rateOf(w, post), w.rateNum[post.App]
				reserve := m.feeAt(post, post.Offer, r0)
				earned := m.feeAt(post, executed, r0)
				earnedB := m.feeAt(post, executed, r1)
				if earnedB.Cmp(reserve) > 0 {
					earnedB = reserve
				}
				refund := new(big.Int).Add(post.Rem, new(big.Int).Sub(reserve, earned))
				refundB := new(big.Int).Add(post.Rem, new(big.Int).Sub(reserve, earnedB))
				c07Add(exp, post.Orderer, post.OfferDenom, refund)
				c07Add(expB, post.Orderer, post.OfferDenom, refundB)
				sn := c07StatusName(post.Status)
				note(post.Orderer, post.OfferDenom, sn)
				if r0.Cmp(r1) != 0 && post.Type != liqtypes.OrderTypeMM {
					rateChanged = true
					m.tainted[pk] = true
					note(post.Orderer, post.OfferDenom, "fee-rate-changed")
					rec.Count("orders_terminated_after_fee_rate_change", 1)
					if r1.Cmp(r0) > 0 {
						rec.Count("orders_terminated_after_fee_rate_rise", 1)
					} else {
						rec.Count("orders_terminated_after_fee_rate_cut", 1)
					}
					if p := cur.pairs[pk]; p != nil {
						note(p.Collector.String(), post.OfferDenom, "fee-rate-changed")
					}
				}
				if p := cur.pairs[pk]; p != nil {
					if earned.Sign() > 0 {
						c07Add(exp, p.Collector.String(), post.OfferDenom, earned)
						note(p.Collector.String(), post.OfferDenom, sn)
					}
					if earnedB.Sign() > 0 {
						c07Add(expB, p.Collector.String(), post.OfferDenom, earnedB)
						note(p.Collector.String(), post.OfferDenom, sn)
					}
				}
				delete(m.placedRate, key)
				fillShape := "none"
				switch {
				case post.Rem.Sign() == 0:
					fillShape = "offer-spent"
				case executed.Sign() > 0:
					fillShape = "offer-partly-spent"
				}
				rec.Count("orders_terminated/"+sn, 1)
				rec.Count("orders_terminated/"+sn+"/fill="+fillShape, 1)
				if post.App != post.Pair {
					rec.Count("orders_terminated_app_ne_pair", 1)
				}
				if post.Type == liqtypes.OrderTypeMM {
					rec.Count("mm_orders_terminated/"+sn, 1)
				}
				if fillShape == "offer-partly-spent" && earned.Sign() > 0 && m.samples < 3 && post.App != post.Pair && post.Status != liqtypes.OrderStatusCompleted {
					m.samples++
					rec.Sample(map[string]interface{}{"case": "order ended while partly filled, fee > 0", "order": post.String(), "fee_reserve_taken": reserve.String(), "fee_for_executed_part": earned.String(),
						"refund_expected_and_observed": refund.String(), "ended_by": st.Op, "fills_in_batches": m.fillBatch[key], "swap_fee_rate_x1e18": w.rateNum[post.App].String()})
				}
				rec.Distinct("life", post.App, post.Pair, post.Type, post.Dir, sn, fillShape, m.fillBatch[key] > 1, st.Op)
				transitions = append(transitions, post.String())
				delete(m.fillBatch, key)
				// a transaction may only terminate orders of its signer
				if st.Kind == "tx" && post.Orderer != signer {
					d := w.witness(map[string]interface{}{"signer": signer, "before": pre.String(), "after": post.String(), "observed_after": st.Kind + ":" + st.Desc})
					site := st.Op
					switch st.Op { // same call-site names as the MM laws below
					case "cancel-mm-order":
						site = "mm-cancel"
					case "mm-order":
						site = "mm-replace"
					}
					rec.Violate(fmt.Sprintf("C07/%s/foreign-order-terminated", site), "a transaction terminated an order that does not belong to its signer", d)
				}
			} else if st.Kind == "tx" && post.Status != pre.Status {
				transitions = append(transitions, post.String())
			}
		case pre != nil && post == nil:
			if pre.live() {
				m.violate(w, st, "live-order-vanished", "an order record disappeared while the order was live (never seen terminated)", map[string]interface{}{"before": pre.String()})
			} else {
				rec.Count("terminated_orders_deleted", 1)
			}
		}
	}

	// ---- law A: exact balance accounting of the dedicated orderer accounts (every step),
	// and of the pairs' swap-fee collectors (tx and end-block steps: begin blocks also move
	// collector funds to the rewards module, which is outside this property)
	check := func(addr, who string, denoms []string) {
		for _, d := range denoms {
			rec.Eval(1)
			got := new(big.Int).Sub(c07Get(cur.bal, addr, d), c07Get(prev.bal, addr, d))
			want := c07Get(exp, addr, d)
			if got.Cmp(want) == 0 || got.Cmp(c07Get(expB, addr, d)) == 0 {
				continue
			}
			// input class: the terminal statuses involved, else fill, else placement
			var kinds []string
			tk := termKinds[addr+"|"+d]
			for kd := range tk {
				if kd != "fill" && kd != "placed" {
					kinds = append(kinds, kd)
				}
			}
			sort.Strings(kinds)
			cls := strings.Join(kinds, "+")
			switch {
			case cls != "":
			case tk["fill"]:
				cls = "fill"
			case tk["placed"]:
				cls = "placed"
			default:
				cls = "no-order-event"
			}
			if tk["fee-rate-changed"] {
				// its own call site: the label does not depend on which message or block ended the order
				wantB := c07Get(expB, addr, d)
				wit := w.witness(map[string]interface{}{"address": addr, "name": m.names[addr], "denom": d, "balance_before": c07Get(prev.bal, addr, d).String(), "balance_after": c07Get(cur.bal, addr, d).String(),
					"expected_delta_fee_at_placement_rate": want.String(), "expected_delta_fee_at_current_rate": wantB.String(), "order_transitions_in_step": transitions, "observed_after": st.Kind + ":" + st.Desc})
				rec.Violate("C07/fee-rate-changed/"+who+"-balance-mismatch", fmt.Sprintf("%s %s balance moved by %s; an order placed under another swap-fee rate ended here: remaining offer + fee reserve taken at placement - fee on the executed part is %s (rate of the placement) or %s (current rate)", who, d, got, want, wantB), wit)
				continue
			}
			m.violate(w, st, who+"-balance-mismatch/"+cls, fmt.Sprintf("%s %s balance moved by %s, order records explain %s (difference %s)", who, d, got, want, new(big.Int).Sub(got, want)),
				map[string]interface{}{"address": addr, "name": m.names[addr], "denom": d, "balance_before": c07Get(prev.bal, addr, d).String(), "balance_after": c07Get(cur.bal, addr, d).String(), "expected_delta": want.String(), "order_transitions_in_step": transitions})
		}
	}
	for _, a := range w.orderers {
		check(a.Addr.String(), "orderer", w.denoms)
	}
	if st.Kind != "begin-block" {
		for _, pk := range c07SortedPairs(cur.pairs) {
			check(cur.pairs[pk].Collector.String(), "swap-fee-collector", w.denoms)
		}
	}

	// ---- law B: the pair escrow holds exactly remaining offer + fee reserve of its live orders
	// (so nothing of a terminated order remains; with no live order it is empty)
	liveSum := map[[2]uint64]map[string]*big.Int{}
	liveCnt := map[[2]uint64]int{}
	for _, o := range cur.orders {
		if !o.live() {
			continue
		}
		pk := [2]uint64{o.App, o.Pair}
		if liveSum[pk] == nil {
			liveSum[pk] = map[string]*big.Int{}
		}
		if liveSum[pk][o.OfferDenom] == nil {
			liveSum[pk][o.OfferDenom] = new(big.Int)
		}
		liveSum[pk][o.OfferDenom].Add(liveSum[pk][o.OfferDenom], new(big.Int).Add(o.Rem, m.feeAt(o, o.Offer, m.rateOf(w, o))))
		liveCnt[pk]++
	}
	for _, pk := range c07SortedPairs(cur.pairs) {
		p := cur.pairs[pk]
		rec.Eval(1)
		disc, excess := "", ""
		denoms := map[string]bool{}
		for d := range cur.bal[p.Escrow.String()] {
			denoms[d] = true
		}
		for d := range liveSum[pk] {
			denoms[d] = true
		}
		var ds []string
		for d := range denoms {
			ds = append(ds, d)
		}
		sort.Strings(ds)
		for _, d := range ds {
			have := c07Get(cur.bal, p.Escrow.String(), d)
			want := new(big.Int)
			if v := liveSum[pk][d]; v != nil {
				want = v
			}
			if have.Cmp(want) != 0 {
				disc += fmt.Sprintf("%s:escrow=%s,live_orders=%s,excess=%s;", d, have, want, new(big.Int).Sub(have, want))
				excess += fmt.Sprintf("%s:%s;", d, new(big.Int).Sub(have, want))
			}
		}
		if liveCnt[pk] == 0 {
			rec.Count("obs_escrow_with_no_live_order", 1)
		} else {
			rec.Count("obs_escrow_with_live_orders", 1)
		}
		key := fmt.Sprintf("escrow|%d|%d", pk[0], pk[1])
		if m.lastDisc[key] != excess { // report when the excess/shortfall changes, not when balances move
			m.lastDisc[key] = excess
			if excess != "" {
				law := "escrow-differs-from-live-orders"
				if liveCnt[pk] == 0 {
					law = "escrow-not-empty-without-live-orders"
				}
				if rateChanged || m.tainted[pk] {
					detail := w.witness(map[string]interface{}{"pair": fmt.Sprintf("app=%d/pair=%d", pk[0], pk[1]), "difference": disc, "live_orders": liveCnt[pk], "order_transitions_in_step": transitions, "observed_after": st.Kind + ":" + st.Desc})
					rec.Violate("C07/fee-rate-changed/"+law, "an order placed under another swap-fee rate ended in this step and the pair escrow no longer equals the remaining offer coins plus the fee reserves (taken at placement) of its live orders", detail)
					continue
				}
				m.violate(w, st, law, "pair escrow balance differs from the remaining offer coins plus fee reserves of its live orders", map[string]interface{}{"pair": fmt.Sprintf("app=%d/pair=%d", pk[0], pk[1]), "difference": disc, "live_orders": liveCnt[pk], "order_transitions_in_step": transitions})
			}
		}
	}

	// ---- law C: cancellation rules (transactions only)
	if st.Kind != "tx" {
		return
	}
	switch msg := st.Msg.(type) {
	case *liqtypes.MsgCancelOrder:
		pre := prev.orders[[3]uint64{msg.AppId, msg.PairId, msg.OrderId}]
		p := prev.pairs[[2]uint64{msg.AppId, msg.PairId}]
		if pre != nil && p != nil && pre.live() && pre.Orderer == msg.Orderer && pre.Batch < p.Batch {
			rec.Eval(1)
			rec.Count("owner_cancels_of_older_batch_orders", 1)
			if msg.AppId != msg.PairId {
				rec.Count("owner_cancels_of_older_batch_orders_app_ne_pair", 1)
			}
			post := cur.orders[[3]uint64{msg.AppId, msg.PairId, msg.OrderId}]
			if !st.OK && strings.Contains(st.Res.Log, "is smaller than") && (m.tainted[[2]uint64{msg.AppId, msg.PairId}] || (pre.Type != liqtypes.OrderTypeMM && m.rateOf(w, pre).Cmp(w.rateNum[pre.App]) != 0)) {
				// consequence of the settlement under a changed fee rate: the escrow paid out more than it had taken
				rec.Violate("C07/fee-rate-changed/owner-cancel-rejected", "the owner could not cancel a live order of an earlier batch: the refund computed with the current swap-fee rate exceeds what the pair escrow holds (this order, or one settled earlier in this pair, was placed under another rate): "+liqShort(st.Res.Log),
					w.witness(map[string]interface{}{"order": pre.String(), "pair_current_batch": p.Batch, "log": st.Res.Log, "observed_after": st.Kind + ":" + st.Desc}))
			} else if !st.OK {
				m.violate(w, st, "owner-cancel-rejected", "the owner could not cancel a live order placed in an earlier batch: "+liqShort(st.Res.Log), map[string]interface{}{"order": pre.String(), "pair_current_batch": p.Batch, "log": st.Res.Log})
			} else if post != nil && post.live() {
				m.violate(w, st, "order-still-live", "cancel succeeded but the order is still live", map[string]interface{}{"before": pre.String(), "after": post.String()})
			}
		} else if pre != nil && p != nil && pre.live() && pre.Orderer == msg.Orderer {
			rec.Count("owner_cancels_in_placement_batch", 1)
		}
	case *liqtypes.MsgCancelAllOrders:
		if !st.OK {
			return
		}
		sel := map[uint64]bool{}
		for _, id := range msg.PairIds {
			sel[id] = true
		}
		for key, pre := range prev.orders {
			if key[0] != msg.AppId || pre.Orderer != msg.Orderer || !pre.live() {
				continue
			}
			if len(sel) > 0 && !sel[pre.Pair] {
				continue
			}
			p := prev.pairs[[2]uint64{pre.App, pre.Pair}]
			if p == nil || pre.Batch >= p.Batch {
				continue
			}
			rec.Eval(1)
			rec.Count("cancel_all_orders_covered", 1)
			if post := cur.orders[key]; post != nil && post.live() {
				m.violate(w, st, "order-still-live", "cancel-all succeeded but an older-batch order of the signer in a selected pair is still live", map[string]interface{}{"before": pre.String(), "after": post.String()})
			}
		}
	case *liqtypes.MsgCancelMMOrder:
		m.mmCheck(w, st, prev, cur, msg.AppId, msg.PairId, msg.Orderer, "mm-cancel")
	case *liqtypes.MsgMMOrder:
		m.mmCheck(w, st, prev, cur, msg.AppId, msg.PairId, msg.Orderer, "mm-replace")
	}
}

// mmCheck: after a successful MM cancel / MM replace no previously placed MM
// order of that owner in that pair may still be live (order store, not index).
func (m *c07Mon) mmCheck(w *liqWorld, st *liqStep, prev, cur c07Snap, app, pair uint64, owner, mode string) {
	if !st.OK {
		return
	}
	n := 0
	var still []string
	for key, pre := range prev.orders {
		if key[0] != app || key[1] != pair || pre.Type != liqtypes.OrderTypeMM || pre.Orderer != owner || !pre.live() {
			continue
		}
		n++
		if post := cur.orders[key]; post != nil && post.live() {
			still = append(still, post.String())
		}
	}
	if n == 0 {
		return
	}
	m.rec.Eval(1)
	m.rec.Count(mode+"_with_previous_live_mm_orders", 1)
	if app != pair {
		m.rec.Count(mode+"_with_previous_live_mm_orders_app_ne_pair", 1)
	}
	if app != pair && m.samples < 5 && len(still) == 0 {
		m.samples++
		m.rec.Sample(map[string]interface{}{"case": mode + " with previous live MM orders, app id != pair id", "app": app, "pair": pair, "previous_live_mm_orders": n, "still_live_after": 0, "tx": st.Desc})
	}
	if len(still) > 0 {
		sort.Strings(still)
		detail := map[string]interface{}{"app": app, "pair": pair, "owner": owner, "previous_live_mm_orders": n, "still_live": still}
		detail["observed_after"] = st.Kind + ":" + st.Desc
		// label fixed by the design: C07/mm-cancel/... and C07/mm-replace/...
		m.rec.Violate(fmt.Sprintf("C07/%s/previous-mm-order-still-live", mode), fmt.Sprintf("%d of %d previously placed market-making orders of the owner in app %d pair %d are still live after a successful %s", len(still), n, app, pair, mode), w.witness(detail))
	}
}

func c07SortedPairs(m map[[2]uint64]*c07Pair) [][2]uint64 {
	ks := make([][2]uint64, 0, len(m))
	for k := range m {
		ks = append(ks, k)
	}
	sort.Slice(ks, func(i, j int) bool {
		if ks[i][0] != ks[j][0] {
			return ks[i][0] < ks[j][0]
		}
		return ks[i][1] < ks[j][1]
	})
	return ks
}

func TestC07(t *testing.T) {
	rec := ev.New("C07", "exploration", liqRule())
	defer finish(t, rec)
	runs := ev.Pick(3, 10)
	blocks := ev.Pick(230, 800)
	for run := 0; run < runs; run++ {
		rnd := rng("liq-workload", run)
		liqRun(t, rec, rnd, run, blocks, &c07Mon{rec: rec})
	}
	// governance changes the swap-fee rate while orders are live (own runs: once an order placed under another rate has
	// been settled the escrow is off for good, see known_findings.json)
	for run := 0; run < ev.Pick(1, 4); run++ {
		liqRunOpts(t, rec, rng("liq-workload-feegov", run), 100+run, ev.Pick(120, 500), &c07Mon{rec: rec}, true)
	}
	rec.Floor("gov_swap_fee_rate_changes", 4)
	rec.Floor("orders_terminated_after_fee_rate_change", 10)
	rec.Floor("msg/limit-order/succeeded", 200)
	rec.Floor("msg/market-order/succeeded", 40)
	rec.Floor("msg/mm-order/succeeded", 50)
	rec.Floor("msg/cancel-order/succeeded", 30)
	rec.Floor("msg/cancel-all-orders/succeeded", 30)
	rec.Floor("msg/cancel-mm-order/succeeded", 10)
	rec.Floor("orders_terminated/completed", 100)
	rec.Floor("orders_terminated/expired", 100)
	rec.Floor("orders_terminated/canceled", 100)
	rec.Floor("orders_terminated/expired/fill=offer-partly-spent", 5)
	rec.Floor("orders_terminated/canceled/fill=offer-partly-spent", 5)
	rec.Floor("orders_terminated/completed/fill=offer-partly-spent", 20)
	rec.Floor("orders_filled_over_several_batches", 10)
	rec.Floor("orders_terminated_app_ne_pair", 200)
	rec.Floor("owner_cancels_of_older_batch_orders", 20)
	rec.Floor("owner_cancels_of_older_batch_orders_app_ne_pair", 10)
	rec.Floor("mm-cancel_with_previous_live_mm_orders_app_ne_pair", 3)
	rec.Floor("mm-replace_with_previous_live_mm_orders_app_ne_pair", 3)
	rec.Floor("obs_escrow_with_no_live_order", 100)
	rec.Floor("batches_executed_app_ne_pair", 300)
	rec.Assume("fills are read from the order record (ReceivedCoin / RemainingOfferCoin deltas between consecutive observation points); payments are read from bank balances")
	rec.Assume("swap-fee reserve of a limit/market order = floor(offer * SwapFeeRate); fee attributable to the executed part = floor((offer - remaining) * SwapFeeRate); the rate is the one in force when the order was placed (the reserve) -- for the executed part of an order that lived through a governance change of the rate, the rate of the placement or the current one are both accepted")
	rec.Assume("market-making orders carry no swap-fee reserve (the code takes none at placement and forwards none; the statement does not say otherwise)")
	rec.Assume("the 5 orderer accounts do nothing but place and cancel orders and transaction fees are zero, so their balances are fully explained by their orders")
}
