package props

import (
	"fmt"
	"math/big"
	"math/rand"
	"sort"
	"testing"
	"time"

	sdk "github.com/cosmos/cosmos-sdk/types"

	auctiontypes "github.com/comdex-official/comdex/x/auction/types"
	auctionsV2types "github.com/comdex-official/comdex/x/auctionsV2/types"
	liqV2types "github.com/comdex-official/comdex/x/liquidationsV2/types"
	vaulttypes "github.com/comdex-official/comdex/x/vault/types"

	"verif/ev"
	"verif/sim"
)

// ---- C09: liquidation safety, bounded liveness, hand-over (vault side) ----

type c09Mon struct {
	u        *cdpU
	rec      *ev.Rec
	st       *settleTracker
	batch    int
	survived map[uint64]int // consecutive sweeps a clearly unsafe, eligible vault survived
	maxLen   map[uint64]int
	prefix   string // label prefix ("C09"; C15 reuses the hand-over part as "C15/unit-half-applied")
	handOnly bool   // only the hand-over / half-applied implications
}

func newC09Mon(u *cdpU, rec *ev.Rec, batch int) *c09Mon {
	return &c09Mon{u: u, rec: rec, st: newSettleTracker(), batch: batch, survived: map[uint64]int{}, maxLen: map[uint64]int{}, prefix: "C09"}
}

// vaultRatio returns collateral value X and total debt value Y (principal + interest + closing fee) at the snapshot's prices.
func (m *c09Mon) vaultRatio(v vaulttypes.Vault, s *cdpSnap) (X, Y *big.Rat, p *uProduct, pricesOK bool) {
	p = m.u.prodByID[v.ExtendedPairVaultID]
	if p == nil {
		return nil, nil, nil, false
	}
	pout, outActive := m.u.outPrice(p, s)
	pin, inActive := s.Price[p.In.ID], s.Active[p.In.ID]
	if !inActive || !outActive || pin == 0 || pout == 0 {
		return nil, nil, p, false
	}
	X = exactValue(v.AmountIn.BigInt(), pin, p.In.Dec)
	Y = exactValue(v.AmountOut.Add(v.InterestAccumulated).Add(v.ClosingFeeAccumulated).BigInt(), pout, p.Out.Dec)
	return X, Y, p, true
}

func (m *c09Mon) Observe(pre, post *cdpSnap, e *cdpEvent) {
	u := m.u
	m.st.advance(pre, post)
	how := "sweep"
	if e.Kind == "tx" {
		how = "message"
	}
	// ---- safety: a seized vault was on the unsafe side (with the post-accrual debt recorded at seizure)
	for _, sz := range m.st.seized {
		var coll, debt *big.Int
		var prodID uint64
		if sz.Gen == 1 {
			lv := post.LockedV1[sz.LockedID]
			coll, debt, prodID = lv.AmountIn.BigInt(), lv.AmountOut.Add(lv.InterestAccumulated).BigInt(), lv.ExtendedPairId
		} else {
			lv := post.LockedV2[sz.LockedID]
			coll, debt, prodID = lv.CollateralToken.Amount.BigInt(), lv.DebtToken.Amount.BigInt(), lv.ExtendedPairId
		}
		p := u.prodByID[prodID]
		if p == nil {
			continue
		}
		pout, _ := u.outPrice(p, pre)
		X := exactValue(coll, pre.Price[p.In.ID], p.In.Dec)
		Y := exactValue(debt, pout, p.Out.Dec)
		m.rec.Eval(1)
		m.rec.Count(fmt.Sprintf("seizures_gen%d_by_%s", sz.Gen, how), 1)
		if above, ok := crAbove(X, Y, decRat(p.P.MinCr)); ok && above && !m.handOnly {
			m.rec.Violate(fmt.Sprintf("C09/safety/seized-while-safe/gen%d/%s", sz.Gen, how), "a vault at or above the liquidation ratio was seized",
				map[string]interface{}{"event": e.String(), "vault": sz.VaultID, "collateral": coll.String(), "total_debt": debt.String(), "liq_ratio": p.P.MinCr.String(), "price_in": pre.Price[p.In.ID], "price_out": pout})
		}
		m.rec.Distinct("C09-seize", sz.Gen, how, p.ID, pre.Price[p.In.ID])
		// ---- hand-over: exactly one auction for the locked vault
		n := 0
		if sz.Gen == 1 {
			for _, a := range post.DutchV1 {
				if a.LockedVaultId == sz.LockedID && a.AppId == post.LockedV1[sz.LockedID].AppId {
					n++
				}
			}
		} else {
			for _, a := range post.AucV2 {
				if a.LockedVaultId == sz.LockedID {
					n++
				}
			}
		}
		if n != 1 {
			m.rec.Violate(fmt.Sprintf(m.prefix+"/hand-over/auctions-for-seizure-not-one/gen%d/%s", sz.Gen, how), fmt.Sprintf("%d auctions opened for the seized vault", n), map[string]interface{}{"event": e.String(), "vault": sz.VaultID})
		}
	}
	// hand-over of coins: exact when the event did nothing but seize (a liquidate message, or a block without settlements / fills)
	if len(m.st.seized) > 0 {
		quiet := m.st.settledV1 == 0 && m.st.settledV2 == 0
		for id, a := range pre.AucV2 {
			if b, ok := post.AucV2[id]; ok && !b.CollateralToken.Amount.Equal(a.CollateralToken.Amount) {
				quiet = false
			}
		}
		if quiet {
			want := map[int]map[string]*big.Int{1: {}, 2: {}}
			for _, sz := range m.st.seized {
				var denom string
				var amt *big.Int
				if sz.Gen == 1 {
					lv := post.LockedV1[sz.LockedID]
					denom, amt = u.prodByID[lv.ExtendedPairId].In.Denom, lv.AmountIn.BigInt()
				} else {
					lv := post.LockedV2[sz.LockedID]
					denom, amt = lv.CollateralToken.Denom, lv.CollateralToken.Amount.BigInt()
				}
				if want[sz.Gen][denom] == nil {
					want[sz.Gen][denom] = new(big.Int)
				}
				want[sz.Gen][denom].Add(want[sz.Gen][denom], amt)
			}
			for gen, mod := range map[int]string{1: auctiontypes.ModuleName, 2: auctionsV2types.ModuleName} {
				for denom, w := range want[gen] {
					got := bigSub(post.bal(modLabel(mod), denom), pre.bal(modLabel(mod), denom))
					left := bigSub(pre.bal(modLabel(vaulttypes.ModuleName), denom), post.bal(modLabel(vaulttypes.ModuleName), denom))
					m.rec.Eval(1)
					m.rec.Count("handover_coin_checks", 1)
					if got.Cmp(w) != 0 || left.Cmp(w) != 0 {
						m.rec.Violate(fmt.Sprintf(m.prefix+"/hand-over/collateral-moved-not-recorded-collateral/gen%d/%s", gen, how), fmt.Sprintf("recorded collateral of seizures %s, auction custody received %s, vault custody released %s (%s)", w, got, left, denom),
							map[string]interface{}{"event": e.String()})
					}
				}
			}
		}
	}
	// a vault that vanishes in a block must have been seized (locked vault exists)
	if e.Kind == "block" {
		seizedIDs := map[uint64]bool{}
		for _, sz := range m.st.seized {
			seizedIDs[sz.VaultID] = true
		}
		for id := range pre.Vaults {
			if _, still := post.Vaults[id]; !still && !seizedIDs[id] {
				m.rec.Violate(m.prefix+"/hand-over/vault-vanished-in-block-without-locked-vault", "a vault disappeared during block processing but no locked vault refers to it", map[string]interface{}{"event": e.String(), "vault": id})
			}
		}
		// ---- bounded liveness for generation-2-enabled apps
		for id, v := range pre.Vaults {
			if m.handOnly {
				break
			}
			if v.AppId != appBeacon {
				continue
			}
			X, Y, p, ok := m.vaultRatio(v, pre)
			eligible := ok && !pre.Breaker[v.AppId] && !pre.ESM[v.AppId].Status
			unsafe := false
			if eligible {
				below, ok2 := crBelow(X, Y, decRat(p.P.MinCr))
				unsafe = ok2 && below
			}
			m.rec.Eval(1)
			if !unsafe {
				if eligible {
					m.rec.Count("safe_side_sweeps_observed", 1)
				}
				delete(m.survived, id)
				delete(m.maxLen, id)
				continue
			}
			if _, still := post.Vaults[id]; !still {
				m.rec.Count("unsafe_vault_seized_after_sweeps_"+fmt.Sprint(m.survived[id]), 1)
				delete(m.survived, id)
				delete(m.maxLen, id)
				continue
			}
			m.survived[id]++
			if l := len(pre.Vaults); l > m.maxLen[id] {
				m.maxLen[id] = l
			}
			bound := 2*((m.maxLen[id]+m.batch-1)/m.batch) + 2
			if m.survived[id] > bound {
				// witness only: what the chain's own per-vault step answers when it is run for this vault right now
				why := ""
				func() {
					defer func() {
						if x := recover(); x != nil {
							why = fmt.Sprintf("panic: %v", x)
						}
					}()
					cctx, _ := m.u.c.Ctx().CacheContext()
					if err := m.u.c.App.NewliqKeeper.LiquidateIndividualVault(cctx, id, "", false); err != nil {
						why = "error: " + err.Error()
					} else {
						why = "no error"
					}
				}()
				m.rec.Violate("C09/liveness/vault-gen2/unsafe-not-seized-within-two-sweeps", fmt.Sprintf("vault unsafe and eligible for %d consecutive blocks (bound %d, list length <= %d, batch %d)", m.survived[id], bound, m.maxLen[id], m.batch),
					map[string]interface{}{"event": e.String(), "vault": id, "product": p.ID, "in": v.AmountIn.String(), "out": v.AmountOut.String(), "interest": v.InterestAccumulated.String(), "price_in": pre.Price[p.In.ID], "per_vault_step_run_directly": trunc(why)})
				delete(m.survived, id) // report once per episode
			}
		}
		m.rec.Distinct("C09-block", len(pre.Vaults)/2, len(m.survived), len(m.st.seized))
	}
}

// c09TailProbe: bounded liveness at the END of the position list with a population that does not move. Prices go
// back to their base, a head of comfortably safe vaults is opened, and then, round after round, one more vault is
// opened just above its minimum ratio (it is the last of the list), its collateral price slips so that this vault
// alone becomes unsafe, and nobody does anything for a little more than two full sweeps. The list length grows by
// one per round, so every residue of (length mod batch size) is seen.
func c09TailProbe(r *cdpRunner, rnd *rand.Rand, rec *ev.Rec, batch int, basePrice map[string]uint64) {
	u := r.u
	c := u.c
	if r.panicked {
		return
	}
	for _, as := range u.assets {
		as := as
		r.env("price", "restore "+as.Denom, func() { u.setPrice(as.Denom, basePrice[as.Denom], true) })
	}
	r.block(6 * time.Second)
	var prods []*uProduct
	for _, p := range u.products {
		if p.App == appBeacon && !p.P.IsStableMintVault && p.P.MinCr.GT(sdk.OneDec()) {
			prods = append(prods, p)
		}
	}
	if len(prods) == 0 {
		return
	}
	open := func(a *sim.Acct, p *uProduct, crPermilleOfMin int64) bool {
		for _, v := range r.last.Vaults {
			if v.Owner == a.Addr.String() && v.ExtendedPairVaultID == p.ID {
				return false
			}
		}
		debt := p.P.DebtFloor.MulRaw(int64(30 + rnd.Intn(40)))
		in := r.collateralFor(p, debt, p.P.MinCr.MulInt64(crPermilleOfMin).TruncateInt64())
		res := r.tx("vault_create", a, &vaulttypes.MsgCreateRequest{From: a.Addr.String(), AppId: p.App, ExtendedPairVaultId: p.ID, AmountIn: in, AmountOut: debt}, fmt.Sprintf("tail probe: %s product %d cr=%d permille of min", a.Name, p.ID, crPermilleOfMin))
		return res.OK()
	}
	// a safe head
	for i, a := range c.Accts {
		if i >= 3 {
			break
		}
		for _, p := range prods {
			open(a, p, 3000)
		}
	}
	rounds := batch + 2
	if rounds > 7 {
		rounds = 3
	}
	done := 0
	for i := 3; i < len(c.Accts) && done < rounds && !r.panicked; i++ {
		for _, p := range prods {
			if done >= rounds || r.panicked {
				break
			}
			if !open(c.Accts[i], p, 1040) {
				continue
			}
			done++
			pin, _ := u.price(p.In)
			in := p.In
			r.env("price", "tail probe: slip of "+in.Denom, func() { u.setPrice(in.Denom, pin*93/100, true) })
			quiet := 2*((len(r.last.Vaults)+batch-1)/batch) + 6
			for b := 0; b < quiet && !r.panicked; b++ {
				r.block(6 * time.Second)
			}
			rec.Count("tail_probe_rounds", 1)
			rec.Count("tail_probe_quiet_blocks", int64(quiet))
			r.env("price", "tail probe: restore "+in.Denom, func() { u.setPrice(in.Denom, pin, true) })
			r.block(6 * time.Second)
		}
	}
}

// c09StarvationProbe: one collateral feed is inactive (its vaults cannot be judged and are not counted) while the
// other collateral assets fall: the unsafe vaults whose prices ARE active must still be seized within the bound, the
// positions that cannot be priced must not stall the sweep.
func c09StarvationProbe(r *cdpRunner, rnd *rand.Rand, rec *ev.Rec, batch int, basePrice map[string]uint64) {
	u := r.u
	c := u.c
	if r.panicked {
		return
	}
	for _, as := range u.assets {
		as := as
		r.env("price", "restore "+as.Denom, func() { u.setPrice(as.Denom, basePrice[as.Denom], true) })
	}
	r.block(6 * time.Second)
	var prods []*uProduct
	for _, p := range u.products {
		if p.App == appBeacon && !p.P.IsStableMintVault && p.P.MinCr.GT(sdk.OneDec()) {
			prods = append(prods, p)
		}
	}
	if len(prods) < 2 {
		return
	}
	// fresh vaults a little above their minimum in every product
	for i, a := range c.Accts {
		p := prods[i%len(prods)]
		has := false
		for _, v := range r.last.Vaults {
			if v.Owner == a.Addr.String() && v.ExtendedPairVaultID == p.ID {
				has = true
			}
		}
		if has {
			continue
		}
		debt := p.P.DebtFloor.MulRaw(int64(30 + rnd.Intn(40)))
		in := r.collateralFor(p, debt, p.P.MinCr.MulInt64(1060).TruncateInt64())
		r.tx("vault_create", a, &vaulttypes.MsgCreateRequest{From: a.Addr.String(), AppId: p.App, ExtendedPairVaultId: p.ID, AmountIn: in, AmountOut: debt}, fmt.Sprintf("starvation probe: %s product %d", a.Name, p.ID))
	}
	// one collateral asset loses its feed, all collateral assets lose 10 %
	colls := map[string]*uAsset{}
	for _, p := range prods {
		colls[p.In.Denom] = p.In
	}
	var names []string
	for d := range colls {
		names = append(names, d)
	}
	sort.Strings(names)
	down := colls[names[rnd.Intn(len(names))]]
	for _, d := range names {
		as := colls[d]
		px, _ := u.price(as)
		r.env("price", "starvation probe: "+as.Denom+" -10%", func() { u.setPrice(as.Denom, px*90/100, as != down) })
	}
	rec.Count("starvation_probes", 1)
	quiet := 2*((len(r.last.Vaults)+batch-1)/batch) + 6
	for b := 0; b < quiet && !r.panicked; b++ {
		r.block(6 * time.Second)
	}
	px, _ := u.price(down)
	r.env("price", "starvation probe: feed of "+down.Denom+" back", func() { u.setPrice(down.Denom, px, true) })
	for b := 0; b < quiet && !r.panicked; b++ {
		r.block(6 * time.Second)
	}
}

func TestC09(t *testing.T) {
	rec := ev.New("C09", "exploration", "vault populations of two CDP apps (generation-1: liquidate messages only, generation-2: per-block sweep with batch size {1,2,5,200} + messages), oracle price paths (drops, crashes, recoveries), other vaults created/closed between sweeps; at every seizure the exact ratio with the recorded post-accrual debt decides safety; every block advances the per-vault 'survived sweeps while clearly unsafe' counter (bound 2*ceil(L/batch)+2); hand-over coin and auction-count checks. distinct = (generation, message|sweep, product, price) at seizures and (population, unsafe set size) at blocks")
	defer finish(t, rec)
	runs := ev.Pick(2, 4)
	for run := 0; run < runs; run++ {
		variant := ev.ShardNo()*runs + run
		batch := []int{1, 2, 5, 200}[variant%4]
		u := newCDP(t, cdpOpts{variant: variant})
		u.c.App.NewliqKeeper.SetParams(u.c.Ctx(), liqV2types.Params{LiquidationBatchSize: uint64(batch)})
		rnd := rng("C09", run)
		cfg := cdpCfg{priceMoves: true, bids: true, lockers: false, unsolicited: false, liquidateMsg: true, unsafeBias: true, maxGap: 0}
		r := newCdpRunner(u, rnd, rec, cfg, newC09Mon(u, rec, batch))
		basePrice := map[string]uint64{}
		for _, as := range u.assets {
			basePrice[as.Denom], _ = u.price(as)
		}
		r.run(cdpSteps())
		// slow ramp: collateral prices fall 1.5 % per block, every vault passes through the band around its own ratio
		for i := 0; i < ev.Pick(40, 120) && !r.panicked; i++ {
			for _, as := range u.assets {
				if as.Mint || as.Denom == "uusdc" || as.Denom == "adai" {
					continue
				}
				p, _ := u.price(as)
				as := as
				r.env("price", "ramp "+as.Denom, func() { u.setPrice(as.Denom, p*985/1000+1, true) })
			}
			r.block(6 * time.Second)
		}
		c09TailProbe(r, rnd, rec, batch, basePrice)
		c09StarvationProbe(r, rnd, rec, batch, basePrice)
		if run == 0 {
			rec.Sample(map[string]interface{}{"variant": variant, "batch": batch, "oplog_tail": r.tail(10)})
		}
		u.c.Close()
	}
	for run := 0; run < ev.Pick(1, 3); run++ {
		c09LendRun(t, rec, run)
	}
	rec.Floor("borrow_seizures_by_sweep", 3)
	rec.Floor("safe_side_borrow_sweeps_observed", 50)
	rec.Floor("seizures_gen2_by_sweep", 5)
	rec.Floor("seizures_gen1_by_message", 2)
	rec.Floor("safe_side_sweeps_observed", 20)
	rec.Floor("handover_coin_checks", 5)
	_ = sdk.ZeroInt
}
