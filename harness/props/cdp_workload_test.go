package props

import (
	"fmt"
	"github.com/comdex-official/comdex/app/wasm/bindings"
	esmtypes "github.com/comdex-official/comdex/x/esm/types"
	"math/big"
	"math/rand"
	"sort"
	"strings"
	"time"

	sdk "github.com/cosmos/cosmos-sdk/types"
	banktypes "github.com/cosmos/cosmos-sdk/x/bank/types"

	auctiontypes "github.com/comdex-official/comdex/x/auction/types"
	auctionsV2types "github.com/comdex-official/comdex/x/auctionsV2/types"
	liqtypes "github.com/comdex-official/comdex/x/liquidation/types"
	liqV2types "github.com/comdex-official/comdex/x/liquidationsV2/types"
	lockertypes "github.com/comdex-official/comdex/x/locker/types"
	vaulttypes "github.com/comdex-official/comdex/x/vault/types"

	"verif/ev"
	"verif/sim"
)

// cdpRunner executes a generated hostile workload on a CDP universe and feeds
// (pre, event, post) to the monitors at every quiescent point.
type cdpRunner struct {
	u        *cdpU
	rnd      *rand.Rand
	rec      *ev.Rec
	mons     []cdpMonitor
	last     *cdpSnap
	oplog    []string
	cfg      cdpCfg
	panicked bool
	// panicIsViolation: only C15 turns an escaping block-hook panic into a violation
	panicIsViolation bool
	// beforeEsmRedemption, when set, is called instead of the block whose begin blocker performs the redemption
	beforeEsmRedemption func()
}

type cdpCfg struct {
	priceMoves   bool // oracle prices move (liquidations happen)
	bids         bool // bidders bid on auctions
	lockers      bool
	unsolicited  bool // occasional plain bank sends to module accounts
	liquidateMsg bool
	limitBids    bool // limit-bid deposit / withdraw / cancel with hostile amount and denom
	reserve      bool // app reserve funds get topped up now and then
	govChanges   bool // governance changes fees / minimum ratio / penalty of products while vaults are open
	unsafeBias   bool // liquidate messages prefer vaults that are currently unsafe
	gen2Only     bool // only products of the generation-2 app are used
	maxGap       time.Duration
}

func newCdpRunner(u *cdpU, rnd *rand.Rand, rec *ev.Rec, cfg cdpCfg, mons ...cdpMonitor) *cdpRunner {
	r := &cdpRunner{u: u, rnd: rnd, rec: rec, mons: mons, cfg: cfg}
	u.c.PanicHook = func(phase string, h int64, p interface{}) {
		r.panicked = true
		rec.Count("block_hook_panics", 1)
		if r.panicIsViolation {
			rec.Violate(fmt.Sprintf("C15/panic-escape/%s/%s", phase, panicClass(p)), fmt.Sprintf("%s at height %d panicked: %v", phase, h, p), map[string]interface{}{"oplog_tail": r.tail(40), "stack": comdexFrames(u.c.LastPanicStack)})
		} else {
			// a halting block hook is C15's business; for this property the run simply ends here
			rec.Note(fmt.Sprintf("run ended early: %s at height %d panicked (%s) -- see C15", phase, h, panicClass(p)))
		}
	}
	r.last = u.snap()
	return r
}

func (r *cdpRunner) tail(n int) []string {
	if len(r.oplog) <= n {
		return append([]string(nil), r.oplog...)
	}
	return append([]string(nil), r.oplog[len(r.oplog)-n:]...)
}

func (r *cdpRunner) log(s string) {
	r.oplog = append(r.oplog, s)
	if len(r.oplog) > 400 {
		r.oplog = r.oplog[len(r.oplog)-300:]
	}
}

func (r *cdpRunner) observe(e *cdpEvent) {
	post := r.u.snap()
	r.log(e.String())
	for _, m := range r.mons {
		m.Observe(r.last, post, e)
	}
	r.last = post
}

// tx delivers one signed transaction and observes.
func (r *cdpRunner) tx(op string, signer *sim.Acct, msg sdk.Msg, desc string) sim.TxResult {
	res := r.u.c.Deliver(signer, msg)
	r.rec.Count("op_"+op+"_attempted", 1)
	if res.OK() {
		r.rec.Count("op_"+op+"_ok", 1)
	} else {
		r.rec.Count("op_"+op+"_rejected", 1)
	}
	r.observe(&cdpEvent{Kind: "tx", Op: op, Signer: signer, Msg: msg, Res: res, Desc: desc})
	return res
}

func (r *cdpRunner) block(dt time.Duration) {
	r.u.c.NextBlock(dt)
	r.rec.Count("blocks", 1)
	r.observe(&cdpEvent{Kind: "block", Op: "next", Desc: fmt.Sprintf("h=%d dt=%s", r.u.c.Header.Height, dt)})
}

func (r *cdpRunner) env(op, desc string, f func()) {
	f()
	r.observe(&cdpEvent{Kind: "env", Op: op, Desc: desc})
}

// ---- amount classes ----

func (r *cdpRunner) amt(typical *big.Int) sdk.Int {
	x := r.rnd.Intn(100)
	switch {
	case x < 3:
		return sdk.ZeroInt()
	case x < 7:
		return sdk.NewInt(int64(1 + r.rnd.Intn(3)))
	case x < 12: // huge
		e := 18 + r.rnd.Intn(13)
		return sdk.NewIntFromBigInt(new(big.Int).Mul(big.NewInt(int64(1+r.rnd.Intn(9))), pow10(e)))
	case x < 20: // tiny fraction of typical
		return sdk.NewIntFromBigInt(new(big.Int).Quo(typical, big.NewInt(int64(1000+r.rnd.Intn(100000))))).AddRaw(1)
	default:
		// typical * [0.05, 3)
		f := big.NewInt(int64(50 + r.rnd.Intn(2950)))
		v := new(big.Int).Mul(typical, f)
		return sdk.NewIntFromBigInt(v.Quo(v, big.NewInt(1000)))
	}
}

func (r *cdpRunner) pickAcct() *sim.Acct { return r.u.c.Accts[r.rnd.Intn(len(r.u.c.Accts))] }

func (r *cdpRunner) pickProduct(stable bool) *uProduct {
	var c []*uProduct
	for _, p := range r.u.products {
		if p.P.IsStableMintVault == stable && (!r.cfg.gen2Only || p.App == appBeacon) {
			c = append(c, p)
		}
	}
	return c[r.rnd.Intn(len(c))]
}

func (r *cdpRunner) vaultsSorted() []vaulttypes.Vault {
	var out []vaulttypes.Vault
	for _, v := range r.last.Vaults {
		out = append(out, v)
	}
	sort.Slice(out, func(i, j int) bool { return out[i].Id < out[j].Id })
	return out
}

func (r *cdpRunner) acctByAddr(addr string) *sim.Acct {
	for _, a := range r.u.c.Accts {
		if a.Addr.String() == addr {
			return a
		}
	}
	return nil
}

// collateral amount that gives roughly cr at current prices for debt d
func (r *cdpRunner) collateralFor(p *uProduct, debt sdk.Int, crPermille int64) sdk.Int {
	pin, _ := r.u.price(p.In)
	pout := p.P.AssetOutPrice
	if p.P.AssetOutOraclePrice {
		pout, _ = r.u.price(p.Out)
	}
	if pin == 0 {
		pin = 1
	}
	// in = cr * debt*pout/dout * din / pin
	n := new(big.Int).Mul(debt.BigInt(), new(big.Int).SetUint64(pout))
	n.Mul(n, p.In.Dec)
	n.Mul(n, big.NewInt(crPermille))
	d := new(big.Int).Mul(p.Out.Dec, new(big.Int).SetUint64(pin))
	d.Mul(d, big.NewInt(1000))
	return sdk.NewIntFromBigInt(n.Quo(n, d)).AddRaw(1)
}

// step performs one generated operation.
func (r *cdpRunner) step() {
	u := r.u
	x := r.rnd.Intn(1000)
	vaults := r.vaultsSorted()
	pickVault := func() (vaulttypes.Vault, bool) {
		if len(vaults) == 0 {
			return vaulttypes.Vault{}, false
		}
		return vaults[r.rnd.Intn(len(vaults))], true
	}
	switch {
	case x < 120: // create
		a := r.pickAcct()
		p := r.pickProduct(false)
		debt := r.amt(new(big.Int).Mul(p.P.DebtFloor.BigInt(), big.NewInt(20)))
		var in sdk.Int
		minCr := p.P.MinCr.MulInt64(1000).TruncateInt64()
		switch r.rnd.Intn(10) {
		case 0:
			in = r.collateralFor(p, debt, minCr-10) // slightly under
		case 1, 2:
			in = r.collateralFor(p, debt, minCr+1) // barely over: first candidates for liquidation
		case 3, 4, 5:
			in = r.collateralFor(p, debt, minCr+int64(20+r.rnd.Intn(200)))
		default:
			in = r.collateralFor(p, debt, minCr+int64(300+r.rnd.Intn(3000)))
		}
		r.tx("vault_create", a, &vaulttypes.MsgCreateRequest{From: a.Addr.String(), AppId: p.App, ExtendedPairVaultId: p.ID, AmountIn: in, AmountOut: debt},
			fmt.Sprintf("app=%d prod=%d in=%s out=%s", p.App, p.ID, in, debt))
	case x < 200: // deposit
		v, ok := pickVault()
		if !ok {
			return
		}
		a := r.ownerOrOther(v.Owner)
		amt := r.amt(v.AmountIn.BigInt())
		r.tx("vault_deposit", a, &vaulttypes.MsgDepositRequest{From: a.Addr.String(), AppId: v.AppId, ExtendedPairVaultId: r.prodFor(v), UserVaultId: v.Id, Amount: amt},
			fmt.Sprintf("vault=%d amt=%s", v.Id, amt))
	case x < 280: // withdraw
		v, ok := pickVault()
		if !ok {
			return
		}
		a := r.ownerOrOther(v.Owner)
		amt := r.amt(new(big.Int).Quo(v.AmountIn.BigInt(), big.NewInt(4)))
		if r.rnd.Intn(10) == 0 {
			amt = v.AmountIn
		}
		r.tx("vault_withdraw", a, &vaulttypes.MsgWithdrawRequest{From: a.Addr.String(), AppId: v.AppId, ExtendedPairVaultId: r.prodFor(v), UserVaultId: v.Id, Amount: amt},
			fmt.Sprintf("vault=%d amt=%s", v.Id, amt))
	case x < 360: // draw
		v, ok := pickVault()
		if !ok {
			return
		}
		a := r.ownerOrOther(v.Owner)
		amt := r.amt(new(big.Int).Quo(v.AmountOut.BigInt(), big.NewInt(3)))
		r.tx("vault_draw", a, &vaulttypes.MsgDrawRequest{From: a.Addr.String(), AppId: v.AppId, ExtendedPairVaultId: r.prodFor(v), UserVaultId: v.Id, Amount: amt},
			fmt.Sprintf("vault=%d amt=%s", v.Id, amt))
	case x < 440: // repay
		v, ok := pickVault()
		if !ok {
			return
		}
		a := r.ownerOrOther(v.Owner)
		amt := r.amt(new(big.Int).Quo(v.AmountOut.BigInt(), big.NewInt(3)))
		switch r.rnd.Intn(8) {
		case 0:
			amt = v.InterestAccumulated
		case 1:
			amt = v.AmountOut.Add(v.InterestAccumulated).Sub(u.prodByID[v.ExtendedPairVaultID].P.DebtFloor) // down to the floor exactly
		case 2:
			amt = v.AmountOut.Add(v.InterestAccumulated)
		}
		r.tx("vault_repay", a, &vaulttypes.MsgRepayRequest{From: a.Addr.String(), AppId: v.AppId, ExtendedPairVaultId: r.prodFor(v), UserVaultId: v.Id, Amount: amt},
			fmt.Sprintf("vault=%d amt=%s", v.Id, amt))
	case x < 490: // close (needs debt coins: top the owner up from other users' mints first)
		v, ok := pickVault()
		if !ok {
			return
		}
		a := r.ownerOrOther(v.Owner)
		r.topUpDebt(a, u.prodByID[v.ExtendedPairVaultID].Out.Denom, v.AmountOut.Add(v.InterestAccumulated).Add(v.ClosingFeeAccumulated).AddRaw(1000))
		r.tx("vault_close", a, &vaulttypes.MsgCloseRequest{From: a.Addr.String(), AppId: v.AppId, ExtendedPairVaultId: r.prodFor(v), UserVaultId: v.Id},
			fmt.Sprintf("vault=%d", v.Id))
	case x < 540: // deposit and draw
		v, ok := pickVault()
		if !ok {
			return
		}
		a := r.ownerOrOther(v.Owner)
		amt := r.amt(new(big.Int).Quo(v.AmountIn.BigInt(), big.NewInt(2)))
		r.tx("vault_deposit_draw", a, &vaulttypes.MsgDepositAndDrawRequest{From: a.Addr.String(), AppId: v.AppId, ExtendedPairVaultId: r.prodFor(v), UserVaultId: v.Id, Amount: amt},
			fmt.Sprintf("vault=%d amt=%s", v.Id, amt))
	case x < 570: // interest calc (anyone)
		v, ok := pickVault()
		if !ok {
			return
		}
		a := r.pickAcct()
		r.tx("vault_interest_calc", a, &vaulttypes.MsgVaultInterestCalcRequest{From: a.Addr.String(), AppId: v.AppId, UserVaultId: v.Id}, fmt.Sprintf("vault=%d", v.Id))
	case x < 640: // stable mint create / deposit / withdraw
		p := r.pickProduct(true)
		a := r.pickAcct()
		var sid uint64
		for _, s := range r.last.Stable {
			if s.ExtendedPairVaultID == p.ID {
				sid = s.Id
			}
		}
		typ := new(big.Int).Mul(p.In.Dec, big.NewInt(50))
		switch {
		case sid == 0:
			amt := r.amt(typ)
			r.tx("stable_create", a, &vaulttypes.MsgCreateStableMintRequest{From: a.Addr.String(), AppId: p.App, ExtendedPairVaultId: p.ID, Amount: amt}, fmt.Sprintf("prod=%d amt=%s", p.ID, amt))
		case r.rnd.Intn(2) == 0:
			amt := r.amt(typ)
			r.tx("stable_deposit", a, &vaulttypes.MsgDepositStableMintRequest{From: a.Addr.String(), AppId: p.App, ExtendedPairVaultId: p.ID, Amount: amt, StableVaultId: sid}, fmt.Sprintf("prod=%d amt=%s", p.ID, amt))
		default:
			amt := r.amt(new(big.Int).Mul(p.Out.Dec, big.NewInt(20)))
			r.tx("stable_withdraw", a, &vaulttypes.MsgWithdrawStableMintRequest{From: a.Addr.String(), AppId: p.App, ExtendedPairVaultId: p.ID, Amount: amt, StableVaultId: sid}, fmt.Sprintf("prod=%d amt=%s", p.ID, amt))
		}
	case x < 700 && r.cfg.lockers:
		r.lockerOp()
	case x < 720 && r.cfg.unsolicited:
		a := r.pickAcct()
		mod := cdpModules[r.rnd.Intn(4)]
		d := cdpDenoms[r.rnd.Intn(len(cdpDenoms))]
		bal := r.last.bal(a.Name, d)
		if bal.Sign() <= 0 {
			return
		}
		amt := sdk.NewIntFromBigInt(new(big.Int).Quo(bal, big.NewInt(int64(1000+r.rnd.Intn(100000))))).AddRaw(1)
		r.tx("unsolicited_send", a, &banktypes.MsgSend{FromAddress: a.Addr.String(), ToAddress: u.c.ModAddr(mod).String(), Amount: sdk.NewCoins(sdk.NewCoin(d, amt))}, fmt.Sprintf("to=%s %s%s", mod, amt, d))
	case x < 760 && r.cfg.liquidateMsg:
		r.liquidateMsg(vaults)
	case x < 860 && r.cfg.bids:
		r.bidOp()
	case x < 890 && r.cfg.limitBids:
		r.limitBidOp()
	case x < 900 && r.cfg.priceMoves:
		r.priceMove()
	case x < 912 && r.cfg.reserve:
		r.reserveOp()
	case x < 926 && r.cfg.reserve && r.cfg.liquidateMsg:
		r.externalLiqOp()
	case x >= 926 && x < 932 && r.cfg.govChanges:
		if r.cfg.lockers && r.rnd.Intn(3) == 0 {
			r.govSavingRateChange()
		} else {
			r.govProductChange()
		}
	default:
		gap := time.Duration(1+r.rnd.Intn(20)) * time.Second
		switch r.rnd.Intn(12) {
		case 0:
			gap = time.Duration(1+r.rnd.Intn(48)) * time.Hour
		case 1:
			gap = time.Duration(1+r.rnd.Intn(400)) * 24 * time.Hour
		case 2, 3:
			gap = time.Duration(60+r.rnd.Intn(400)) * time.Second
		}
		if r.cfg.maxGap > 0 && gap > r.cfg.maxGap {
			gap = r.cfg.maxGap
		}
		r.block(gap)
	}
}

// esmPhase drives the whole emergency shutdown of one app with real messages and blocks: governance-token holders
// deposit until the target is reached, somebody executes the shutdown, the esm begin blocker snapshots the prices,
// users act during the cool-off period, the begin blocker then moves every vault of the app into redemption, and
// holders of the debt asset redeem collateral. The other app keeps working throughout.
func (r *cdpRunner) esmPhase(app uint64) {
	u := r.u
	c := u.c
	if r.panicked {
		return
	}
	// prefer the CDP app that has the most running generation-2 auctions with bids already placed on them: the shutdown
	// then meets partly paid auctions, which it has to hand back when their time runs out
	{
		n := map[uint64]int{}
		for _, a := range r.last.AucV2 {
			if lv, ok := r.last.LockedV2[a.LockedVaultId]; ok && lv.InitiatorType == "vault" && len(a.BiddingIds) > 0 && !r.last.ESM[a.AppId].Status {
				n[a.AppId]++
			}
		}
		best := 0
		for _, id := range u.cdpApps {
			if n[id] > best {
				app, best = id, n[id]
			}
		}
		if best > 0 {
			r.rec.Count("esm_executed_with_partly_paid_auctions_running", 1)
		}
	}
	if st, ok := r.last.ESM[app]; ok && st.Status {
		return
	}
	holder := c.Accts[0]
	for i := 0; i < 3; i++ {
		amt := sdk.NewInt(int64(20_000_000 + r.rnd.Intn(9_000_000)))
		r.tx("esm_deposit", holder, &esmtypes.MsgDepositESM{AppId: app, Depositor: holder.Addr.String(), Amount: sdk.NewCoin("uharbor", amt)}, fmt.Sprintf("app=%d %suharbor", app, amt))
		if i == 0 { // too early
			ex := r.pickAcct()
			r.tx("esm_execute", ex, &esmtypes.MsgExecuteESM{AppId: app, Depositor: ex.Addr.String()}, fmt.Sprintf("app=%d (target not reached)", app))
		}
	}
	ex := r.pickAcct()
	if res := r.tx("esm_execute", ex, &esmtypes.MsgExecuteESM{AppId: app, Depositor: ex.Addr.String()}, fmt.Sprintf("app=%d", app)); !res.OK() {
		return
	}
	r.rec.Count("esm_executed", 1)
	r.block(6 * time.Second) // price snapshot
	r.block(6 * time.Second)
	// cool-off: ordinary traffic (withdrawals of this app are still possible, nothing may be minted)
	saved := r.cfg.maxGap
	r.cfg.maxGap = 5 * time.Minute
	for i := 0; i < 40+r.rnd.Intn(60) && !r.panicked; i++ {
		r.step()
	}
	r.cfg.maxGap = saved
	// the cool-off period ends; the begin blocker redeems vaults, stable-mint vaults and the collector, then the shares
	for c.Header.Time.Before(r.last.ESM[app].EndTime.Add(time.Minute)) && !r.panicked {
		if r.beforeEsmRedemption != nil && !c.Header.Time.Add(20*time.Minute).Before(r.last.ESM[app].EndTime.Add(time.Second)) {
			r.beforeEsmRedemption() // explores and runs the block in which the redemption hooks do their work
			r.beforeEsmRedemption = nil
			r.last = u.snap()
			continue
		}
		r.block(20 * time.Minute)
	}
	for i := 0; i < 4 && !r.panicked; i++ {
		r.block(6 * time.Second)
	}
	r.rec.Count("esm_cool_off_passed", 1)
	// redemption by holders of the debt assets
	for round := 0; round < 6 && !r.panicked; round++ {
		a := r.pickAcct()
		for _, d := range []string{"ucmst", "ucmtw"} {
			bal := r.last.bal(a.Name, d)
			if bal.Sign() <= 0 {
				continue
			}
			var amt *big.Int
			switch r.rnd.Intn(4) {
			case 0:
				amt = new(big.Int).Set(bal)
			case 1:
				amt = big.NewInt(int64(1 + r.rnd.Intn(1000)))
			default:
				amt = new(big.Int).Quo(bal, big.NewInt(int64(2+r.rnd.Intn(9))))
			}
			if amt.Sign() <= 0 {
				continue
			}
			r.tx("esm_redeem", a, &esmtypes.MsgCollateralRedemptionRequest{AppId: app, Amount: sdk.NewCoin(d, sdk.NewIntFromBigInt(amt)), From: a.Addr.String()}, fmt.Sprintf("app=%d %s%s", app, amt, d))
		}
		if round%2 == 1 {
			r.block(6 * time.Second)
		}
	}
	for i := 0; i < 30 && !r.panicked; i++ {
		r.step()
	}
}

// govProductChange: a governance contract message changes the fees, the minimum collateralization ratio or the
// liquidation penalty of a product while vaults are open (debt floor and ceiling are left alone: the statements that
// name them do not quantify over parameter changes). The fixture's copy of the parameters is refreshed.
func (r *cdpRunner) govProductChange() {
	u := r.u
	c := u.c
	var prods []*uProduct
	for _, p := range u.products {
		if !p.P.IsStableMintVault {
			prods = append(prods, p)
		}
	}
	if len(prods) == 0 {
		return
	}
	p := prods[r.rnd.Intn(len(prods))]
	cur, found := c.App.AssetKeeper.GetPairsVault(c.Ctx(), p.ID)
	if !found {
		return
	}
	m := bindings.MsgUpdatePairsVault{AppID: p.App, ExtPairID: p.ID, StabilityFee: cur.StabilityFee, ClosingFee: cur.ClosingFee, LiquidationPenalty: cur.LiquidationPenalty, DrawDownFee: cur.DrawDownFee,
		IsVaultActive: true, MinCr: cur.MinCr, DebtCeiling: cur.DebtCeiling, DebtFloor: cur.DebtFloor, MinUsdValueLeft: cur.MinUsdValueLeft}
	what := ""
	switch r.rnd.Intn(5) {
	case 0:
		m.StabilityFee = dec([]string{"0", "0.01", "0.1", "0.25", "0.5"}[r.rnd.Intn(5)])
		what = "stability fee " + m.StabilityFee.String()
	case 1:
		m.ClosingFee = dec([]string{"0", "0.005", "0.01", "0.02"}[r.rnd.Intn(4)])
		what = "closing fee " + m.ClosingFee.String()
	case 2:
		m.DrawDownFee = dec([]string{"0", "0.005", "0.01", "0.05"}[r.rnd.Intn(4)])
		what = "draw-down fee " + m.DrawDownFee.String()
	case 3:
		m.MinCr = dec([]string{"1.2", "1.5", "1.7", "2.3"}[r.rnd.Intn(4)])
		what = "min cr " + m.MinCr.String()
	default:
		m.LiquidationPenalty = dec([]string{"0.05", "0.12", "0.15"}[r.rnd.Intn(3)])
		what = "liquidation penalty " + m.LiquidationPenalty.String()
	}
	r.env("gov-product", fmt.Sprintf("product %d (app %d): %s", p.ID, p.App, what), func() {
		if err := c.Gov(bindings.ComdexMessages{MsgUpdatePairsVault: &m}); err == nil {
			if nw, ok := c.App.AssetKeeper.GetPairsVault(c.Ctx(), p.ID); ok {
				p.P.StabilityFee, p.P.ClosingFee, p.P.DrawDownFee, p.P.MinCr, p.P.LiquidationPenalty = nw.StabilityFee, nw.ClosingFee, nw.DrawDownFee, nw.MinCr, nw.LiquidationPenalty
			}
			r.rec.Count("gov_product_changes", 1)
		} else {
			r.rec.Count("gov_product_changes_rejected", 1)
		}
	})
}

// govSavingRateChange: a governance contract message changes the locker saving rate of one (app, asset); the collector
// settles every locker of it at the old rate first.
func (r *cdpRunner) govSavingRateChange() {
	u := r.u
	c := u.c
	app := u.cdpApps[r.rnd.Intn(len(u.cdpApps))]
	as := u.byDenom[[]string{"ucmst", "ucmtw"}[r.rnd.Intn(2)]]
	cl, found := c.App.CollectorKeeper.GetCollectorLookupTable(c.Ctx(), app, as.ID)
	if !found {
		return
	}
	nr := dec([]string{"0", "0.05", "0.1", "0.3", "0.5"}[r.rnd.Intn(5)])
	if nr.Equal(cl.LockerSavingRate) {
		return
	}
	r.env("gov-saving-rate", fmt.Sprintf("app=%d asset=%d %s -> %s", app, as.ID, cl.LockerSavingRate, nr), func() {
		err := c.Gov(bindings.ComdexMessages{MsgUpdateCollectorLookupTable: &bindings.MsgUpdateCollectorLookupTable{AppID: app, AssetID: as.ID, DebtThreshold: cl.DebtThreshold, SurplusThreshold: cl.SurplusThreshold,
			LotSize: cl.LotSize, DebtLotSize: cl.DebtLotSize, BidFactor: cl.BidFactor, LSR: nr}})
		if err == nil {
			r.rec.Count("gov_saving_rate_changes", 1)
		}
	})
}

// reserveOp: somebody tops up an app's reserve fund (the generation-2 auctions draw on it when the collateral of an
// auction does not cover its target); small and large amounts, so that both "covers the shortage" and "does not" occur.
func (r *cdpRunner) reserveOp() {
	u := r.u
	a := r.pickAcct()
	d := []string{"ucmst", "ucmst", "ucmtw"}[r.rnd.Intn(3)]
	as := u.byDenom[d]
	if as == nil {
		return
	}
	bal := r.last.bal(a.Name, d)
	if bal.Sign() <= 0 {
		return
	}
	var amt *big.Int
	switch r.rnd.Intn(5) {
	case 0:
		amt = big.NewInt(int64(1 + r.rnd.Intn(1000)))
	case 1:
		amt = new(big.Int).Quo(bal, big.NewInt(1000))
	case 2, 3:
		amt = new(big.Int).Quo(bal, big.NewInt(int64(3+r.rnd.Intn(20))))
	default:
		amt = new(big.Int).Add(bal, big.NewInt(1)) // more than the sender has
	}
	if amt.Sign() <= 0 {
		amt = big.NewInt(1)
	}
	app := uint64(appBeacon)
	if r.rnd.Intn(8) == 0 {
		apps := u.reserveApps()
		app = apps[r.rnd.Intn(len(apps))]
	}
	r.tx("reserve_fund", a, &liqV2types.MsgAppReserveFundsRequest{From: a.Addr.String(), AppId: app, AssetId: as.ID, TokenQuantity: sdk.NewCoin(d, sdk.NewIntFromBigInt(amt))}, fmt.Sprintf("app=%d %s%s", app, amt, d))
}

// ownerOrOther returns the owner most of the time, sometimes another account (authorization noise).
func (r *cdpRunner) ownerOrOther(owner string) *sim.Acct {
	if r.rnd.Intn(12) == 0 {
		return r.pickAcct()
	}
	if a := r.acctByAddr(owner); a != nil {
		return a
	}
	return r.pickAcct()
}

// topUpDebt moves existing debt coins from other users to a (never mints): users
// obtain the coins they need to pay interest from other users' vault mints.
func (r *cdpRunner) topUpDebt(a *sim.Acct, denom string, need sdk.Int) {
	have := sdk.NewIntFromBigInt(r.last.bal(a.Name, denom))
	if have.GTE(need) {
		return
	}
	missing := need.Sub(have)
	for _, o := range r.u.c.Accts {
		if o == a || !missing.IsPositive() {
			continue
		}
		ob := sdk.NewIntFromBigInt(r.last.bal(o.Name, denom))
		if !ob.IsPositive() {
			continue
		}
		give := sdk.MinInt(ob, missing)
		res := r.tx("bank_send_debt", o, &banktypes.MsgSend{FromAddress: o.Addr.String(), ToAddress: a.Addr.String(), Amount: sdk.NewCoins(sdk.NewCoin(denom, give))}, fmt.Sprintf("%s -> %s %s%s", o.Name, a.Name, give, denom))
		if res.OK() {
			missing = missing.Sub(give)
		}
	}
}

func (r *cdpRunner) lockerOp() {
	u := r.u
	a := r.pickAcct()
	app := u.cdpApps[r.rnd.Intn(len(u.cdpApps))]
	as := u.byDenom[[]string{"ucmst", "ucmst", "ucmtw"}[r.rnd.Intn(3)]]
	var mine []lockertypes.Locker
	var all []lockertypes.Locker
	for _, l := range r.last.Lockers {
		all = append(all, l)
		if l.Depositor == a.Addr.String() {
			mine = append(mine, l)
		}
	}
	sort.Slice(all, func(i, j int) bool { return all[i].LockerId < all[j].LockerId })
	sort.Slice(mine, func(i, j int) bool { return mine[i].LockerId < mine[j].LockerId })
	bal := r.last.bal(a.Name, as.Denom)
	typ := new(big.Int).Quo(bal, big.NewInt(5))
	switch k := r.rnd.Intn(10); {
	case k < 3 || len(all) == 0:
		amt := r.amt(typ)
		r.tx("locker_create", a, &lockertypes.MsgCreateLockerRequest{Depositor: a.Addr.String(), Amount: amt, AssetId: as.ID, AppId: app}, fmt.Sprintf("app=%d asset=%d amt=%s", app, as.ID, amt))
	default:
		var l lockertypes.Locker
		if len(mine) > 0 && r.rnd.Intn(8) != 0 {
			l = mine[r.rnd.Intn(len(mine))]
		} else {
			l = all[r.rnd.Intn(len(all))]
		}
		switch {
		case k < 5:
			amt := r.amt(typ)
			r.tx("locker_deposit", a, &lockertypes.MsgDepositAssetRequest{Depositor: a.Addr.String(), LockerId: l.LockerId, Amount: amt, AssetId: l.AssetDepositId, AppId: l.AppId}, fmt.Sprintf("locker=%d amt=%s", l.LockerId, amt))
		case k < 7:
			amt := r.amt(new(big.Int).Quo(l.NetBalance.BigInt(), big.NewInt(2)))
			if r.rnd.Intn(6) == 0 {
				amt = l.NetBalance
			}
			r.tx("locker_withdraw", a, &lockertypes.MsgWithdrawAssetRequest{Depositor: a.Addr.String(), LockerId: l.LockerId, Amount: amt, AssetId: l.AssetDepositId, AppId: l.AppId}, fmt.Sprintf("locker=%d amt=%s", l.LockerId, amt))
		case k < 8:
			r.tx("locker_close", a, &lockertypes.MsgCloseLockerRequest{Depositor: a.Addr.String(), AppId: l.AppId, AssetId: l.AssetDepositId, LockerId: l.LockerId}, fmt.Sprintf("locker=%d", l.LockerId))
		default:
			r.tx("locker_reward_calc", a, &lockertypes.MsgLockerRewardCalcRequest{From: a.Addr.String(), AppId: l.AppId, LockerId: l.LockerId}, fmt.Sprintf("locker=%d", l.LockerId))
		}
	}
}

func (r *cdpRunner) priceMove() {
	u := r.u
	as := u.assets[r.rnd.Intn(len(u.assets))]
	if as.Denom == "ucmst" || as.Denom == "ucmtw" {
		if r.rnd.Intn(4) != 0 {
			return
		}
	}
	p, _ := u.price(as)
	if p == 0 {
		p = 1_000_000
	}
	var np uint64
	switch k := r.rnd.Intn(10); {
	case k < 4:
		np = p * uint64(70+r.rnd.Intn(30)) / 100 // drop up to 30%
	case k < 6:
		np = p * uint64(30+r.rnd.Intn(40)) / 100 // crash
	case k < 9:
		np = p * uint64(100+r.rnd.Intn(40)) / 100
	default:
		np = p * 3
	}
	if np == 0 {
		np = 1
	}
	if np > 1<<50 {
		np = 1 << 50
	}
	r.env("price", fmt.Sprintf("%s %d -> %d", as.Denom, p, np), func() { u.setPrice(as.Denom, np, true) })
	r.rec.Count("price_moves", 1)
}

func (r *cdpRunner) liquidateMsg(vaults []vaulttypes.Vault) {
	a := r.pickAcct()
	if len(vaults) == 0 {
		return
	}
	v := vaults[r.rnd.Intn(len(vaults))]
	if r.cfg.unsafeBias && r.rnd.Intn(3) != 0 {
		// prefer a vault that is currently on the unsafe side (harness-side exact valuation)
		for _, c := range vaults {
			p := r.u.prodByID[c.ExtendedPairVaultID]
			pout, okOut := r.u.outPrice(p, r.last)
			if p == nil || !okOut || !r.last.Active[p.In.ID] {
				continue
			}
			X := exactValue(c.AmountIn.BigInt(), r.last.Price[p.In.ID], p.In.Dec)
			Y := exactValue(c.AmountOut.Add(c.InterestAccumulated).Add(c.ClosingFeeAccumulated).BigInt(), pout, p.Out.Dec)
			if below, ok := crBelow(X, Y, decRat(p.P.MinCr)); ok && below {
				v = c
				break
			}
		}
	}
	id := v.Id
	if r.rnd.Intn(10) == 0 {
		id += 1000 // invalid id
	}
	if v.AppId == appBeacon || r.rnd.Intn(6) == 0 {
		r.tx("liquidate_v2_msg", a, &liqV2types.MsgLiquidateInternalKeeperRequest{From: a.Addr.String(), LiqType: 0, Id: id}, fmt.Sprintf("vault=%d", id))
	} else {
		r.tx("liquidate_v1_msg", a, &liqtypes.MsgLiquidateVaultRequest{From: a.Addr.String(), AppId: v.AppId, VaultId: id}, fmt.Sprintf("vault=%d", id))
	}
}

func (r *cdpRunner) bidOp() {
	u := r.u
	a := r.pickAcct()
	// generation 1 dutch
	var d1 []auctiontypes.DutchAuction
	for _, d := range r.last.DutchV1 {
		d1 = append(d1, d)
	}
	sort.Slice(d1, func(i, j int) bool { return d1[i].AuctionId < d1[j].AuctionId })
	var d2 []auctionsV2types.Auction
	for _, d := range r.last.AucV2 {
		d2 = append(d2, d)
	}
	sort.Slice(d2, func(i, j int) bool { return d2[i].AuctionId < d2[j].AuctionId })
	if len(d1) > 0 && (len(d2) == 0 || r.rnd.Intn(2) == 0) {
		d := d1[r.rnd.Intn(len(d1))]
		// bid is in collateral units the bidder wants to buy
		rem := d.OutflowTokenCurrentAmount.Amount
		var amt sdk.Int
		switch r.rnd.Intn(6) {
		case 0:
			amt = sdk.NewInt(1)
		case 1:
			amt = rem
		case 2:
			amt = rem.AddRaw(1)
		case 3:
			amt = rem.QuoRaw(2)
		default:
			amt = r.amt(new(big.Int).Quo(rem.BigInt(), big.NewInt(3)))
		}
		// the bidder pays in the debt denom: top up from other users
		need := d.InflowTokenTargetAmount.Amount.Sub(d.InflowTokenCurrentAmount.Amount)
		r.topUpDebt(a, d.InflowTokenTargetAmount.Denom, need)
		r.tx("bid_dutch_v1", a, &auctiontypes.MsgPlaceDutchBidRequest{AuctionId: d.AuctionId, Bidder: a.Addr.String(), Amount: sdk.NewCoin(d.OutflowTokenCurrentAmount.Denom, amt), AppId: d.AppId, AuctionMappingId: d.AuctionMappingId},
			fmt.Sprintf("auction=%d amt=%s rem=%s", d.AuctionId, amt, rem))
		return
	}
	if len(d2) > 0 {
		d := d2[r.rnd.Intn(len(d2))]
		if !d.AuctionType {
			r.englishBid(a, d)
			return
		}
		rem := d.DebtToken.Amount // remaining target debt
		var amt sdk.Int
		switch r.rnd.Intn(6) {
		case 0:
			amt = sdk.NewInt(1)
		case 1:
			amt = rem
		case 2:
			amt = rem.AddRaw(1)
		case 3:
			amt = rem.QuoRaw(2)
		default:
			amt = r.amt(new(big.Int).Quo(rem.BigInt(), big.NewInt(3)))
		}
		r.topUpDebt(a, d.DebtToken.Denom, sdk.MinInt(amt, rem.MulRaw(2)))
		r.tx("bid_market_v2", a, &auctionsV2types.MsgPlaceMarketBidRequest{AuctionId: d.AuctionId, Bidder: a.Addr.String(), Amount: sdk.NewCoin(d.DebtToken.Denom, amt)},
			fmt.Sprintf("auction=%d amt=%s rem=%s", d.AuctionId, amt, rem))
	}
	_ = u
}

// run executes n steps.
func (r *cdpRunner) run(n int) {
	for i := 0; i < n && !r.panicked; i++ {
		r.step()
	}
}

// comdexFrames keeps the comdex frames of a goroutine stack (witness for panics).
func comdexFrames(stack string) []string {
	var out []string
	for _, l := range splitLines(stack) {
		if len(out) < 14 && (containsStr(l, "comdex-official/comdex") || containsStr(l, "/repo/")) {
			out = append(out, l)
		}
	}
	return out
}

func splitLines(s string) []string {
	var out []string
	cur := ""
	for _, ch := range s {
		if ch == '\n' {
			out = append(out, cur)
			cur = ""
		} else {
			cur += string(ch)
		}
	}
	return append(out, cur)
}

func containsStr(s, sub string) bool {
	for i := 0; i+len(sub) <= len(s); i++ {
		if s[i:i+len(sub)] == sub {
			return true
		}
	}
	return false
}

// prodFor: the product id a vault message carries. Nearly always the vault's own; now and then (hostile, but a valid
// message) the id of ANOTHER ordinary product of the same app.
func (r *cdpRunner) prodFor(v vaulttypes.Vault) uint64 {
	if r.rnd.Intn(25) != 0 {
		return v.ExtendedPairVaultID
	}
	var others []uint64
	for _, p := range r.u.products {
		if p.App == v.AppId && p.ID != v.ExtendedPairVaultID && !p.P.IsStableMintVault {
			others = append(others, p.ID)
		}
	}
	if len(others) == 0 {
		return v.ExtendedPairVaultID
	}
	r.rec.Count("vault_messages_naming_another_product_of_the_app", 1)
	return others[r.rnd.Intn(len(others))]
}

// englishBid bids on a generation-2 English-style auction (surplus / debt).
func (r *cdpRunner) englishBid(a *sim.Acct, d auctionsV2types.Auction) {
	lv := r.last.LockedV2[d.LockedVaultId]
	factor := int64(1) // BidFactor 0.01 in the fixture
	if lv.InitiatorType == "debt" {
		// bids name the amount of collateral (governance token) the bidder accepts, decreasing; the bidder pays the fixed debt lot
		cur := d.CollateralToken.Amount
		var amt sdk.Int
		switch r.rnd.Intn(6) {
		case 0:
			amt = cur // equal (non-improving once there is a bid)
		case 1:
			amt = cur.Sub(cur.MulRaw(factor).QuoRaw(100)) // barely improving
		case 2:
			amt = cur.Sub(cur.MulRaw(factor).QuoRaw(100)).AddRaw(1) // just not improving
		case 3:
			amt = cur.AddRaw(1)
		default:
			amt = cur.MulRaw(int64(50 + r.rnd.Intn(49))).QuoRaw(100)
		}
		if amt.IsNegative() {
			amt = sdk.ZeroInt()
		}
		r.topUpDebt(a, d.DebtToken.Denom, d.DebtToken.Amount)
		r.tx("bid_english_debt_v2", a, &auctionsV2types.MsgPlaceMarketBidRequest{AuctionId: d.AuctionId, Bidder: a.Addr.String(), Amount: sdk.NewCoin(d.CollateralToken.Denom, amt)},
			fmt.Sprintf("auction=%d amt=%s cur=%s", d.AuctionId, amt, cur))
		return
	}
	// surplus (or generic): bids are in the debt token of the auction record, increasing
	cur := d.DebtToken.Amount
	var amt sdk.Int
	switch r.rnd.Intn(6) {
	case 0:
		amt = cur
	case 1:
		amt = cur.Add(cur.MulRaw(factor).QuoRaw(100)).AddRaw(1)
	case 2:
		amt = cur.Add(cur.MulRaw(factor).QuoRaw(100)).SubRaw(1)
	case 3:
		amt = sdk.NewInt(int64(1 + r.rnd.Intn(1000)))
	default:
		amt = cur.MulRaw(int64(102 + r.rnd.Intn(100))).QuoRaw(100).AddRaw(int64(r.rnd.Intn(100000)))
	}
	if amt.IsNegative() {
		amt = sdk.ZeroInt()
	}
	denom := d.DebtToken.Denom
	if r.rnd.Intn(8) == 0 {
		// hostile: the same number of units of another coin the bidder holds (first bid and outbid alike)
		for _, alt := range []string{"ucmdx", "uatom", "uusdc", "ucmst", "uharbor"} {
			if alt != denom && alt != d.CollateralToken.Denom && r.last.bal(a.Name, alt).Cmp(amt.BigInt()) >= 0 {
				denom = alt
				break
			}
		}
	}
	cls := ""
	if denom != d.DebtToken.Denom {
		cls = " foreign-denom"
		if len(d.BiddingIds) == 0 {
			cls += " first-bid"
		}
		r.rec.Count("english_surplus_bids_in_a_foreign_denom"+strings.ReplaceAll(cls, " ", "_"), 1)
	}
	r.tx("bid_english_surplus_v2", a, &auctionsV2types.MsgPlaceMarketBidRequest{AuctionId: d.AuctionId, Bidder: a.Addr.String(), Amount: sdk.NewCoin(denom, amt)},
		fmt.Sprintf("auction=%d amt=%s%s cur=%s%s", d.AuctionId, amt, denom, cur, cls))
}

// limitBidOp issues limit-bid deposit / withdraw / cancel messages; withdrawals carry attacker-chosen amount and denom.
func (r *cdpRunner) limitBidOp() {
	u := r.u
	a := r.pickAcct()
	debt := u.byDenom[[]string{"ucmst", "ucmst", "ucmtw"}[r.rnd.Intn(3)]]
	coll := u.byDenom[[]string{"uatom", "ucmdx", "weth-wei", "wbtc-sat"}[r.rnd.Intn(4)]]
	prem := sdk.NewInt(int64([]int{0, 1, 5, 10, 17, 30, 31}[r.rnd.Intn(7)]))
	var mine []auctionsV2types.LimitOrderBid
	for _, lb := range r.last.LimitBids {
		if lb.BidderAddress == a.Addr.String() {
			mine = append(mine, lb)
		}
	}
	custody := func(d string) sdk.Int {
		return sdk.NewIntFromBigInt(r.last.bal(modLabel(auctionsV2types.ModuleName), d))
	}
	// aimed deposit: a live Dutch auction whose posted price is already under the oracle price; the bid goes to the
	// discount bucket the price is about to enter (the automatic fill needs the truncated discount percentage to
	// EQUAL the bid's bucket in the begin block), smaller or larger than the auction's remaining debt, and a few
	// short blocks follow
	if r.rnd.Intn(3) == 0 {
		var live []auctionsV2types.Auction
		for _, x := range r.last.AucV2 {
			if x.AuctionType && x.CollateralTokenOraclePrice.IsPositive() && x.CollateralTokenAuctionPrice.IsPositive() {
				live = append(live, x)
			}
		}
		sort.Slice(live, func(i, j int) bool { return live[i].AuctionId < live[j].AuctionId })
		if len(live) > 0 {
			x := live[r.rnd.Intn(len(live))]
			if x.CollateralTokenAuctionPrice.GT(x.CollateralTokenOraclePrice) && x.CollateralTokenInitialPrice.IsPositive() {
				// nobody bids until the posted price has fallen to the oracle price: one long block gap
				// (linear decrease: price(t) = initial * (1 - t*(1-discount)/duration), the app's discount, duration 3600 s)
				disc := dec("0.7")
				if w, ok := u.c.App.NewliqKeeper.GetLiquidationWhiteListing(u.c.Ctx(), x.AppId); ok && w.DutchAuctionParam != nil && w.DutchAuctionParam.Discount.LT(sdk.OneDec()) {
					disc = w.DutchAuctionParam.Discount
				}
				frac := sdk.OneDec().Sub(x.CollateralTokenOraclePrice.Quo(x.CollateralTokenInitialPrice))
				need := frac.Mul(sdk.NewDec(3600).Quo(sdk.OneDec().Sub(disc))).TruncateInt64() - int64(u.c.Header.Time.Sub(x.StartTime).Seconds()) + 20
				if need > 0 && need < 3500 {
					r.block(time.Duration(need) * time.Second)
					if y, ok := r.last.AucV2[x.AuctionId]; ok {
						x = y
					} else {
						return
					}
				}
			}
			bucket := int64(0)
			if x.CollateralTokenOraclePrice.GT(x.CollateralTokenAuctionPrice) {
				bucket = x.CollateralTokenOraclePrice.Sub(x.CollateralTokenAuctionPrice).Quo(x.CollateralTokenOraclePrice).MulInt64(100).TruncateInt64() + 1
			}
			if bucket <= 29 {
				var amt sdk.Int
				switch r.rnd.Intn(3) {
				case 0:
					amt = x.DebtToken.Amount.MulRaw(2)
				case 1:
					amt = x.DebtToken.Amount.QuoRaw(int64(2 + r.rnd.Intn(5))).AddRaw(1)
				default:
					amt = x.DebtToken.Amount
				}
				if r.rnd.Intn(2) == 0 {
					r.topUpDebt(a, x.DebtToken.Denom, amt.MulRaw(2)) // the bidder keeps coins in his wallet as well
				} else {
					r.topUpDebt(a, x.DebtToken.Denom, amt)
				}
				r.tx("limit_deposit", a, &auctionsV2types.MsgDepositLimitBidRequest{CollateralTokenId: x.CollateralAssetId, DebtTokenId: x.DebtAssetId, PremiumDiscount: sdk.NewInt(bucket), Bidder: a.Addr.String(), Amount: sdk.NewCoin(x.DebtToken.Denom, amt)},
					fmt.Sprintf("aimed at auction %d: coll=%d debt=%d bucket=%d amt=%s (auction debt left %s)", x.AuctionId, x.CollateralAssetId, x.DebtAssetId, bucket, amt, x.DebtToken.Amount))
				for i := 0; i < 5 && !r.panicked; i++ {
					r.block(25 * time.Second)
				}
				return
			}
		}
	}
	k := r.rnd.Intn(10)
	switch {
	case k < 4 || len(mine) == 0:
		bal := r.last.bal(a.Name, debt.Denom)
		if bal.Sign() <= 0 {
			r.topUpDebt(a, debt.Denom, sdk.NewIntFromBigInt(debt.Dec).MulRaw(5))
			bal = r.last.bal(a.Name, debt.Denom)
		}
		amt := r.amt(new(big.Int).Quo(bal, big.NewInt(4)))
		r.tx("limit_deposit", a, &auctionsV2types.MsgDepositLimitBidRequest{CollateralTokenId: coll.ID, DebtTokenId: debt.ID, PremiumDiscount: prem, Bidder: a.Addr.String(), Amount: sdk.NewCoin(debt.Denom, amt)},
			fmt.Sprintf("coll=%d debt=%d prem=%s amt=%s", coll.ID, debt.ID, prem, amt))
	case k < 8:
		lb := mine[r.rnd.Intn(len(mine))]
		dep := lb.DebtToken.Amount
		denom := lb.DebtToken.Denom
		var amt sdk.Int
		cls := ""
		switch r.rnd.Intn(8) {
		case 0:
			amt, cls = dep, "all"
		case 1:
			amt, cls = dep.AddRaw(1), "deposit+1"
		case 2:
			amt, cls = custody(denom), "whole-custody"
		case 3: // another denom the module holds (seized collateral)
			for _, d := range []string{"uatom", "ucmdx", "weth-wei", "wbtc-sat", "uharbor"} {
				if custody(d).IsPositive() {
					denom = d
				}
			}
			amt, cls = sdk.MinInt(custody(denom), dep), "other-denom"
			if !amt.IsPositive() {
				amt = sdk.NewInt(1)
			}
		case 4:
			amt, cls = dep.MulRaw(1000), "1000x"
		default:
			amt, cls = r.amt(new(big.Int).Quo(dep.BigInt(), big.NewInt(2))), "partial"
		}
		if !amt.IsPositive() {
			amt = sdk.NewInt(1)
		}
		r.tx("limit_withdraw", a, &auctionsV2types.MsgWithdrawLimitBidRequest{CollateralTokenId: lb.CollateralTokenId, DebtTokenId: lb.DebtTokenId, PremiumDiscount: lb.PremiumDiscount, Bidder: a.Addr.String(), Amount: sdk.NewCoin(denom, amt)},
			fmt.Sprintf("class=%s coll=%d debt=%d prem=%s amt=%s%s deposit=%s", cls, lb.CollateralTokenId, lb.DebtTokenId, lb.PremiumDiscount, amt, denom, dep))
	default:
		lb := mine[r.rnd.Intn(len(mine))]
		r.tx("limit_cancel", a, &auctionsV2types.MsgCancelLimitBidRequest{CollateralTokenId: lb.CollateralTokenId, DebtTokenId: lb.DebtTokenId, PremiumDiscount: lb.PremiumDiscount, Bidder: a.Addr.String()},
			fmt.Sprintf("coll=%d debt=%d prem=%s", lb.CollateralTokenId, lb.DebtTokenId, lb.PremiumDiscount))
	}
}
