package props

import (
	"fmt"
	"testing"
	"time"

	sdk "github.com/cosmos/cosmos-sdk/types"

	vaulttypes "github.com/comdex-official/comdex/x/vault/types"
	liquidationtypes "github.com/comdex-official/comdex/x/liquidation/types"
)

func TestSmokeCDP(t *testing.T) {
	u := newCDP(t, cdpOpts{})
	defer u.c.Close()
	c := u.c
	a := c.Accts[0]
	for _, p := range u.products {
		if p.P.IsStableMintVault {
			res := c.Deliver(a, &vaulttypes.MsgCreateStableMintRequest{From: a.Addr.String(), AppId: p.App, ExtendedPairVaultId: p.ID, Amount: sdk.NewIntFromBigInt(p.In.Dec).MulRaw(10)})
			fmt.Println("stable", p.ID, p.P.PairName, res.Code, trunc(res.Log))
			continue
		}
		res := c.Deliver(a, &vaulttypes.MsgCreateRequest{From: a.Addr.String(), AppId: p.App, ExtendedPairVaultId: p.ID, AmountIn: sdk.NewIntFromBigInt(p.In.Dec).MulRaw(100), AmountOut: p.P.DebtFloor.MulRaw(10)})
		fmt.Println("create", p.ID, p.P.PairName, res.Code, trunc(res.Log), res.Gas)
	}
	c.NextBlock(6 * time.Second)
	fmt.Println("vaults", len(c.App.VaultKeeper.GetVaults(c.Ctx())), "cmst", c.Bal(a.Addr, "ucmst"), "supply", c.Supply("ucmst"))
}

func trunc(s string) string {
	if len(s) > 0 && s[0] == '[' {
		return "ok"
	}
	if len(s) > 160 {
		return s[:160]
	}
	return s
}

func TestSmokeLiqV1(t *testing.T) {
	u := newCDP(t, cdpOpts{})
	defer u.c.Close()
	c := u.c
	a := c.Accts[0]
	p := u.products[1] // harbor ATOM-A
	res := c.Deliver(a, &vaulttypes.MsgCreateRequest{From: a.Addr.String(), AppId: p.App, ExtendedPairVaultId: p.ID, AmountIn: sdk.NewInt(2_000_000), AmountOut: sdk.NewInt(10_000_000)})
	fmt.Println("create", p.P.PairName, p.P.MinCr, res.Code, trunc(res.Log))
	c.NextBlock(6 * time.Second)
	u.setPrice("uatom", 4_000_000, true)
	c.NextBlock(6 * time.Second)
	fmt.Println("vaults", len(c.App.VaultKeeper.GetVaults(c.Ctx())), "lockedv1", len(c.App.LiquidationKeeper.GetLockedVaults(c.Ctx())), "dutch", len(c.App.AuctionKeeper.GetDutchAuctions(c.Ctx(), 2)))
	ctx, _ := c.Ctx().CacheContext()
	err := c.App.LiquidationKeeper.LiquidateVaults(ctx)
	fmt.Println("direct LiquidateVaults err", err, c.App.LiquidationKeeper.GetAppIdsForLiquidation(ctx), c.App.LiquidationKeeper.GetParams(ctx))
	fmt.Println("after direct: vaults", len(c.App.VaultKeeper.GetVaults(ctx)), "lockedv1", len(c.App.LiquidationKeeper.GetLockedVaults(ctx)), "dutch", len(c.App.AuctionKeeper.GetDutchAuctions(ctx, 2)), "lockedv2", len(c.App.NewliqKeeper.GetLockedVaults(ctx)))
	v, _ := c.App.VaultKeeper.GetVault(ctx, 1)
	cr, err := c.App.VaultKeeper.CalculateCollateralizationRatio(ctx, v.ExtendedPairVaultID, v.AmountIn, v.AmountOut)
	fmt.Println("cr", cr, err)
	lv := liqtypesLocked(v)
	fmt.Println("activator", c.App.AuctionKeeper.DutchActivator(ctx, lv))
}

func liqtypesLocked(v vaulttypes.Vault) liquidationtypes.LockedVault {
	return liquidationtypes.LockedVault{LockedVaultId: 1, AppId: v.AppId, OriginalVaultId: v.Id, ExtendedPairId: v.ExtendedPairVaultID, Owner: v.Owner, AmountIn: v.AmountIn, AmountOut: v.AmountOut, UpdatedAmountOut: sdk.ZeroInt(), InterestAccumulated: sdk.ZeroInt()}
}
