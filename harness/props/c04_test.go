package props

// C04 — liquidity custody: escrows, reserves and farmed pool coins are fully
// backed; pool-coin supply changes only by pool creation and executed
// deposits / withdrawals of that pool.

import (
	"fmt"
	"math/big"
	"testing"

	sdk "github.com/cosmos/cosmos-sdk/types"

	liqtypes "github.com/comdex-official/comdex/x/liquidity/types"

	"verif/ev"
)

type c04Req struct {
	Pool   [2]uint64
	Status liqtypes.RequestStatus
	Amount *big.Int // minted pool coin (deposit) / pool coin (withdraw)
}

type c04Snap struct {
	supply  map[[2]uint64]*big.Int // (app,pool) -> pool coin supply
	deps    map[[3]uint64]c04Req   // (app,pool,id)
	wds     map[[3]uint64]c04Req
	taken   bool
	nOrders int
}

type c04Mon struct {
	rec     *ev.Rec
	prev    c04Snap
	last    map[string]string // law|object -> last reported discrepancy
	samples int
}

func (m *c04Mon) Init(w *liqWorld) { m.last = map[string]string{}; m.prev = c04Snap{} }

// report fires only when the discrepancy of this (law, object) changed.
func (m *c04Mon) report(w *liqWorld, st *liqStep, law, object, discrepancy, what string, detail map[string]interface{}) {
	// discrepancy is the amount missing / the mismatch itself (not the balances), so a
	// standing violation is reported once and again only when it grows or shrinks
	key := law + "|" + object
	if m.last[key] == discrepancy {
		return
	}
	m.last[key] = discrepancy
	if discrepancy == "" {
		return
	}
	detail["object"] = object
	detail["observed_after"] = st.Kind + ":" + st.Desc
	m.rec.Violate(fmt.Sprintf("C04/%s/%s", st.Op, law), what, w.witness(detail))
}

func c04AddCoins(m map[string]*big.Int, coins ...sdk.Coin) {
	for _, c := range coins {
		if m[c.Denom] == nil {
			m[c.Denom] = new(big.Int)
		}
		m[c.Denom].Add(m[c.Denom], c.Amount.BigInt())
	}
}

func (m *c04Mon) Observe(w *liqWorld, st *liqStep) {
	ctx := w.ctx()
	k := w.c.App.LiquidityKeeper
	bank := w.c.App.BankKeeper
	rec := m.rec
	cur := c04Snap{supply: map[[2]uint64]*big.Int{}, deps: map[[3]uint64]c04Req{}, wds: map[[3]uint64]c04Req{}, taken: true}

	// ---- law 1: global escrow holds at least all pending deposit coins + pending withdraw pool coins (all apps combined)
	need := map[string]*big.Int{}
	pendingDeps, pendingWds := 0, 0
	for _, app := range w.apps {
		for _, r := range k.GetAllDepositRequests(ctx, app) {
			cur.deps[[3]uint64{app, r.PoolId, r.Id}] = c04Req{Pool: [2]uint64{app, r.PoolId}, Status: r.Status, Amount: r.MintedPoolCoin.Amount.BigInt()}
			if r.Status == liqtypes.RequestStatusNotExecuted {
				c04AddCoins(need, r.DepositCoins...)
				pendingDeps++
			}
		}
		for _, r := range k.GetAllWithdrawRequests(ctx, app) {
			cur.wds[[3]uint64{app, r.PoolId, r.Id}] = c04Req{Pool: [2]uint64{app, r.PoolId}, Status: r.Status, Amount: r.PoolCoin.Amount.BigInt()}
			if r.Status == liqtypes.RequestStatusNotExecuted {
				c04AddCoins(need, r.PoolCoin)
				pendingWds++
			}
		}
	}
	rec.Eval(1)
	disc, full := "", ""
	for _, d := range liqSortedKeys(need) {
		have := bank.GetBalance(ctx, liqtypes.GlobalEscrowAddress, d).Amount.BigInt()
		if have.Cmp(need[d]) < 0 {
			disc += fmt.Sprintf("%s:missing=%s;", d, new(big.Int).Sub(need[d], have))
			full += fmt.Sprintf("%s:have=%s,need=%s;", d, have, need[d])
		}
	}
	m.report(w, st, "global-escrow-underfunded", "global-escrow", disc, "global escrow holds less than the coins of all pending deposit and withdraw requests", map[string]interface{}{"shortfall": full, "pending_deposits": pendingDeps, "pending_withdrawals": pendingWds})
	if pendingDeps+pendingWds > 0 {
		rec.Count("obs_with_pending_requests", 1)
	}
	if pendingDeps > 0 && pendingWds > 0 {
		if m.samples < 5 && m.samples >= 3 {
			m.samples++
			held := map[string]string{}
			for _, d := range liqSortedKeys(need) {
				held[d] = fmt.Sprintf("escrow=%s pending=%s", bank.GetBalance(ctx, liqtypes.GlobalEscrowAddress, d).Amount, need[d])
			}
			rec.Sample(map[string]interface{}{"case": "global escrow vs pending requests", "pending_deposits": pendingDeps, "pending_withdrawals": pendingWds, "per_denom": held, "observed_after": st.Kind + ":" + st.Desc})
		}
		rec.Count("obs_with_pending_deposits_and_withdrawals", 1)
	}

	// ---- law 2: every pair escrow holds at least the remaining offer coins of its live orders
	for _, app := range w.apps {
		for _, pair := range k.GetAllPairs(ctx, app) {
			sum := map[string]*big.Int{}
			live := 0
			for _, o := range k.GetOrdersByPair(ctx, app, pair.Id) {
				switch o.Status {
				case liqtypes.OrderStatusNotExecuted, liqtypes.OrderStatusNotMatched, liqtypes.OrderStatusPartiallyMatched:
					c04AddCoins(sum, o.RemainingOfferCoin)
					live++
				}
			}
			cur.nOrders += live
			rec.Eval(1)
			disc, full := "", ""
			for _, d := range liqSortedKeys(sum) {
				have := bank.GetBalance(ctx, pair.GetEscrowAddress(), d).Amount.BigInt()
				if have.Cmp(sum[d]) < 0 {
					disc += fmt.Sprintf("%s:missing=%s;", d, new(big.Int).Sub(sum[d], have))
					full += fmt.Sprintf("%s:have=%s,need=%s;", d, have, sum[d])
				}
			}
			m.report(w, st, "pair-escrow-underfunded", fmt.Sprintf("app=%d/pair=%d", app, pair.Id), disc, "pair escrow holds less than the remaining offer coins of its live orders", map[string]interface{}{"shortfall": full, "live_orders": live})
			if live > 0 {
				rec.Count("obs_pair_with_live_orders", 1)
				if app != pair.Id {
					rec.Count("obs_pair_with_live_orders_app_ne_pair", 1)
				}
			}
		}
	}

	// ---- laws 3, 4, 5 per pool
	modAddr := w.c.ModAddr(liqtypes.ModuleName)
	for _, app := range w.apps {
		for _, pool := range k.GetAllPools(ctx, app) {
			key := [2]uint64{app, pool.Id}
			obj := fmt.Sprintf("app=%d/pool=%d", app, pool.Id)
			farmed := new(big.Int)
			nAct, nQ := 0, 0
			for _, f := range k.GetAllActiveFarmers(ctx, app, pool.Id) {
				farmed.Add(farmed, f.FarmedPoolCoin.Amount.BigInt())
				if f.FarmedPoolCoin.Amount.IsPositive() {
					nAct++
				}
			}
			for _, f := range k.GetAllQueuedFarmers(ctx, app, pool.Id) {
				for _, q := range f.QueudCoins {
					farmed.Add(farmed, q.FarmedPoolCoin.Amount.BigInt())
					nQ++
				}
			}
			held := bank.GetBalance(ctx, modAddr, pool.PoolCoinDenom).Amount.BigInt()
			rec.Eval(1)
			disc := ""
			full := ""
			if held.Cmp(farmed) != 0 {
				disc = "held-minus-recorded=" + new(big.Int).Sub(held, farmed).String()
				full = fmt.Sprintf("module holds %s, farmer records (active+queued) sum to %s", held, farmed)
			}
			m.report(w, st, "farmed-pool-coins-mismatch", obj, disc, "liquidity module account does not hold exactly the pool coins recorded as farmed", map[string]interface{}{"mismatch": full, "denom": pool.PoolCoinDenom})
			if nAct > 0 {
				rec.Count("obs_pool_with_active_farmers", 1)
			}
			if nQ > 0 {
				rec.Count("obs_pool_with_queued_farmers", 1)
			}

			supply := bank.GetSupply(ctx, pool.PoolCoinDenom).Amount.BigInt()
			cur.supply[key] = supply
			rec.Eval(1)
			disc = ""
			if supply.Sign() == 0 && !pool.Disabled {
				disc = "supply=0,disabled=false"
			}
			m.report(w, st, "zero-supply-pool-not-disabled", obj, disc, "pool-coin supply is zero but the pool is not marked disabled", map[string]interface{}{"denom": pool.PoolCoinDenom})
			if supply.Sign() == 0 {
				rec.Count("obs_pool_with_zero_supply", 1)
			}

			// law 5: supply change explained by creation / executed deposits / executed withdrawals of this pool
			if m.prev.taken {
				rec.Eval(1)
				before, existed := m.prev.supply[key]
				if !existed {
					rec.Count("pool_creations_observed", 1)
					if supply.Sign() <= 0 {
						m.report(w, st, "pool-created-without-supply", obj, "supply="+supply.String(), "a newly created pool has no pool-coin supply", map[string]interface{}{})
					}
				} else {
					want := new(big.Int).Set(before)
					var expl []string
					for id, r := range cur.deps {
						if r.Pool != key || r.Status != liqtypes.RequestStatusSucceeded {
							continue
						}
						if p, ok := m.prev.deps[id]; ok && p.Status == liqtypes.RequestStatusSucceeded {
							continue
						}
						want.Add(want, r.Amount)
						expl = append(expl, fmt.Sprintf("deposit#%d+%s", id[2], r.Amount))
						rec.Count("deposits_executed", 1)
					}
					for id, r := range cur.wds {
						if r.Pool != key || r.Status != liqtypes.RequestStatusSucceeded {
							continue
						}
						if p, ok := m.prev.wds[id]; ok && p.Status == liqtypes.RequestStatusSucceeded {
							continue
						}
						want.Sub(want, r.Amount)
						expl = append(expl, fmt.Sprintf("withdraw#%d-%s", id[2], r.Amount))
						rec.Count("withdrawals_executed", 1)
					}
					if want.Cmp(supply) != 0 {
						d := fmt.Sprintf("before=%s after=%s explained=%v expected_after=%s", before, supply, expl, want)
						// one-shot law (a delta): always report
						m.last["pool-coin-supply-unexplained-change|"+obj] = ""
						m.report(w, st, "pool-coin-supply-unexplained-change", obj, d, "pool-coin supply changed by an amount not explained by executed deposits/withdrawals of that pool", map[string]interface{}{"change": d, "denom": pool.PoolCoinDenom})
					}
					if before.Cmp(supply) != 0 {
						rec.Count("supply_changes_checked", 1)
						if m.samples < 3 {
							m.samples++
							rec.Sample(map[string]interface{}{"case": "pool-coin supply change", "pool": obj, "before": before.String(), "after": supply.String(), "explained_by": expl, "observed_after": st.Kind + ":" + st.Desc,
								"module_account_holds": held.String(), "farmed_active_plus_queued": farmed.String()})
						}
					}
				}
			}
		}
	}
	// failed requests (refund paths) as evidence
	for id, r := range cur.deps {
		if r.Status == liqtypes.RequestStatusFailed {
			if p, ok := m.prev.deps[id]; !ok || p.Status != liqtypes.RequestStatusFailed {
				rec.Count("deposits_failed_refunded", 1)
			}
		}
	}
	for id, r := range cur.wds {
		if r.Status == liqtypes.RequestStatusFailed {
			if p, ok := m.prev.wds[id]; !ok || p.Status != liqtypes.RequestStatusFailed {
				rec.Count("withdrawals_failed_refunded", 1)
			}
		}
	}
	rec.Count("observation_points/"+st.Kind, 1)
	m.prev = cur
}

func TestC04(t *testing.T) {
	rec := ev.New("C04", "exploration", liqRule())
	defer finish(t, rec)
	runs := ev.Pick(3, 10)
	blocks := ev.Pick(230, 800)
	for run := 0; run < runs; run++ {
		rnd := rng("liq-workload", run)
		liqRun(t, rec, rnd, run, blocks, &c04Mon{rec: rec})
	}
	rec.Floor("msg/deposit/succeeded", 40)
	rec.Floor("msg/withdraw/succeeded", 20)
	rec.Floor("msg/farm/succeeded", 20)
	rec.Floor("msg/unfarm/succeeded", 10)
	rec.Floor("msg/deposit-and-farm/succeeded", 10)
	rec.Floor("msg/unfarm-and-withdraw/succeeded", 5)
	rec.Floor("msg/limit-order/succeeded", 200)
	rec.Floor("msg/mm-order/succeeded", 50)
	rec.Floor("deposits_executed", 40)
	rec.Floor("withdrawals_executed", 20)
	rec.Floor("obs_with_pending_requests", 50)
	rec.Floor("obs_pair_with_live_orders_app_ne_pair", 500)
	rec.Floor("obs_pool_with_active_farmers", 50)
	rec.Floor("obs_pool_with_queued_farmers", 50)
	rec.Floor("obs_pool_with_zero_supply", 1)
	rec.Floor("batches_executed", 500)
	rec.Assume("bank balances and bank supply are read through the bank keeper of the instance under test")
	rec.Assume("a request counts as executed when its stored status becomes SUCCEEDED between two consecutive observation points; minted/burnt amounts are the request's MintedPoolCoin / PoolCoin fields")
	rec.Assume("live order = status NOT_EXECUTED, NOT_MATCHED or PARTIALLY_MATCHED; pending request = status NOT_EXECUTED")
}
