package props

import (
	"fmt"
	"testing"
	"time"

	lendtypes "github.com/comdex-official/comdex/x/lend/types"

	"verif/ev"
)

// c15LendDayBoundary: the lend begin blocker does its daily work (clean-up of pools that governance has depreciated:
// excess funds to the reserve, pool deleted) only at heights that are multiples of 14400. The lend universe is started
// just below such a height, governance depreciates a pool nobody uses, the chain crosses the boundary (the clean-up
// runs), traffic goes on in the other pool, and the chain is driven to the NEXT multiple (the clean-up meets the record
// of a pool that is already gone). No block may panic; the first boundary block is also explored crash point by crash
// point. Only a few shards do this (14400 empty blocks take most of a minute).
func c15LendDayBoundary(t *testing.T, rec *ev.Rec) {
	if ev.ShardNo() >= ev.Pick(1, 4) {
		return
	}
	v := ev.ShardNo()
	c08InitialHeight = 14400 - 12
	e := c08Setup(t, ev.NewScratch(), rng("C15-lendday-setup", v), 0, v%3, true)
	c08InitialHeight = 0
	e.rnd = rng("C15-lendday", v)
	c := e.c
	defer c.Close()
	c.PanicHook = func(phase string, h int64, p interface{}) {
		e.panicked = true
		rec.Violate(fmt.Sprintf("C15/panic-escape/%s/%s", phase, panicClass(p)), fmt.Sprintf("lend universe at a day boundary: %s at height %d panicked: %v", phase, h, p),
			map[string]interface{}{"stack": comdexFrames(c.LastPanicStack), "history_tail": e.tail(6)})
	}
	// a pool without positions is depreciated by governance (the proposal handler's keeper function)
	if err := c.App.LendKeeper.AddPoolDepreciate(c.Ctx(), lendtypes.PoolDepreciate{IndividualPoolDepreciate: []lendtypes.IndividualPoolDepreciate{{PoolID: 2, IsPoolDepreciated: false}}}); err != nil {
		t.Fatalf("harness set-up: pool depreciation refused: %v", err)
	}
	e.log("governance depreciates pool 2")
	for c.Header.Height < 14399 && !e.panicked {
		c.NextBlock(6 * time.Second)
	}
	if e.panicked {
		return
	}
	// the block at height 14400: explored, then run for real
	exploreAtBoundary(c, rec, 6*time.Second, "lend-day-boundary", ev.Pick(1500, 15000))
	rec.Count("lend_day_boundaries_crossed", 1)
	if _, found := c.App.LendKeeper.GetPool(c.Ctx(), 2); !found {
		rec.Count("lend_depreciated_pools_cleaned_up", 1)
	}
	// ordinary traffic (pool 1 lives on), then on to the next multiple of 14400
	for i := 0; i < 120 && !e.panicked; i++ {
		if e.rnd.Intn(100) < 25 {
			e.blockStep()
		} else {
			e.txStep()
		}
	}
	for c.Header.Height <= 28800 && !e.panicked {
		c.NextBlock(6 * time.Second)
		if c.Header.Height%2000 == 0 {
			e.txStep()
		}
	}
	if !e.panicked {
		rec.Count("lend_day_boundaries_crossed", 1)
		rec.Eval(1)
	}
	for i := 0; i < 40 && !e.panicked; i++ {
		e.txStep()
	}
}
