package mon

import (
	"fmt"
	"math/big"
)

// Exact oracles of C06 (pool shares are fair). Everything is decided on
// integers / rationals; nothing of sdk.Dec is re-implemented here.

// C06Breach is one failed law of the statement.
type C06Breach struct {
	Law  string // stable, goes into the label
	What string // one line with the numbers
}

var (
	c06TolDen = new(big.Int).Exp(big.NewInt(10), big.NewInt(17), nil) // statement: relative rounding error below 10^-17
	c06TolNum = new(big.Int).Sub(c06TolDen, big.NewInt(1))
	c06Dec    = new(big.Int).Exp(big.NewInt(10), big.NewInt(18), nil)
)

func mul(a, b *big.Int) *big.Int { return new(big.Int).Mul(a, b) }

// c06PerShareKept reports r1/ps1 >= (r0/ps0)*(1-10^-17).
func c06PerShareKept(r0, ps0, r1, ps1 *big.Int) bool {
	// r1*ps0*10^17 >= r0*ps1*(10^17-1)
	l := mul(mul(r1, ps0), c06TolDen)
	r := mul(mul(r0, ps1), c06TolNum)
	return l.Cmp(r) >= 0
}

// C06Deposit checks an accepted deposit (pc > 0) into a pool (rx, ry, ps) that
// offered (x, y) and was answered with accepted (ax, ay) and minted pc.
// strictRateBroken reports (not a breach) that pc/ps > ax/rx or ay/ry exactly,
// i.e. the dust went to the depositor but stayed inside the stated tolerance.
func C06Deposit(rx, ry, ps, x, y, ax, ay, pc *big.Int) (br []C06Breach, strictRateBroken bool) {
	if ax.Sign() < 0 || ay.Sign() < 0 || pc.Sign() < 0 {
		br = append(br, C06Breach{"negative-output", fmt.Sprintf("ax=%s ay=%s pc=%s", ax, ay, pc)})
		return
	}
	if ax.Cmp(x) > 0 {
		br = append(br, C06Breach{"takes-more-than-offered/x", fmt.Sprintf("accepted x %s > offered %s", ax, x)})
	}
	if ay.Cmp(y) > 0 {
		br = append(br, C06Breach{"takes-more-than-offered/y", fmt.Sprintf("accepted y %s > offered %s", ay, y)})
	}
	ps1 := new(big.Int).Add(ps, pc)
	for _, s := range []struct {
		n    string
		r, a *big.Int
	}{{"x", rx, ax}, {"y", ry, ay}} {
		if s.r.Sign() == 0 {
			continue // nothing of this coin backs a share: nothing to dilute
		}
		// strict: pc/ps <= a/r  <=>  pc*r <= a*ps
		if mul(pc, s.r).Cmp(mul(s.a, ps)) > 0 {
			strictRateBroken = true
		}
		r1 := new(big.Int).Add(s.r, s.a)
		if !c06PerShareKept(s.r, ps, r1, ps1) {
			br = append(br, C06Breach{"reserves-per-share-decrease/" + s.n,
				fmt.Sprintf("shares minted at pc/ps=%s/%s for accepted/reserve=%s/%s: reserve per share falls from %s/%s to %s/%s (more than 1e-17 relative)", pc, ps, s.a, s.r, s.r, ps, r1, ps1)})
		}
	}
	return
}

// C06Withdraw checks an accepted withdrawal of pc <= ps shares from (rx, ry, ps)
// with fee rate feeNum/10^18 in [0,1] that returned (x, y).
func C06Withdraw(rx, ry, ps, pc, feeNum, x, y *big.Int) (br []C06Breach) {
	if x.Sign() < 0 || y.Sign() < 0 {
		br = append(br, C06Breach{"negative-output", fmt.Sprintf("x=%s y=%s", x, y)})
		return
	}
	last := pc.Cmp(ps) == 0
	keep := new(big.Int).Sub(c06Dec, feeNum) // (1-fee)*10^18
	ps1 := new(big.Int).Sub(ps, pc)
	for _, s := range []struct {
		n    string
		r, w *big.Int
	}{{"x", rx, x}, {"y", ry, y}} {
		if last {
			if s.w.Cmp(s.r) != 0 {
				br = append(br, C06Breach{"last-shares-not-entire-reserve/" + s.n, fmt.Sprintf("all %s shares redeemed, returned %s of reserve %s", ps, s.w, s.r)})
			}
			continue
		}
		// w <= r*pc/ps*(1-fee)  <=>  w*ps*10^18 <= r*pc*keep
		if mul(mul(s.w, ps), c06Dec).Cmp(mul(mul(s.r, pc), keep)) > 0 {
			br = append(br, C06Breach{"returns-more-than-pro-rata-less-fee/" + s.n,
				fmt.Sprintf("returned %s > reserve %s * shares %s/%s * (1-fee %s/1e18)", s.w, s.r, pc, ps, feeNum)})
		}
		if s.w.Cmp(s.r) > 0 {
			continue // already reported above; r1 would be negative
		}
		r1 := new(big.Int).Sub(s.r, s.w)
		if s.r.Sign() > 0 && !c06PerShareKept(s.r, ps, r1, ps1) {
			br = append(br, C06Breach{"reserves-per-share-decrease/" + s.n,
				fmt.Sprintf("reserve per share falls from %s/%s to %s/%s (more than 1e-17 relative)", s.r, ps, r1, ps1)})
		}
	}
	return
}

// C06PriceSide classifies a ranged pool price p against [min,max]; all three
// are 18-decimal fixed point integers. side is "" when inside. rel is the
// relative distance to the violated bound and big reports rel > 10^-9.
func C06PriceSide(p, min, max *big.Int) (side string, rel *big.Rat, big9 bool) {
	var b *big.Int
	switch {
	case p.Cmp(min) < 0:
		side, b = "below-min", min
	case p.Cmp(max) > 0:
		side, b = "above-max", max
	default:
		return "", nil, false
	}
	d := new(big.Int).Sub(p, b)
	d.Abs(d)
	rel = new(big.Rat).SetFrac(d, b)
	big9 = rel.Cmp(big.NewRat(1, 1_000_000_000)) > 0
	return
}
