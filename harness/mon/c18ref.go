package mon

import (
	"math/big"
	"sync"
)

// Reference arithmetic for C18 (accrual laws). Everything here is independent
// of the code under test: exact rationals for the linear (index based) paths
// and a 320-bit big.Float evaluation of (1+r)^(t/year) for the compounding
// path (the answer is used at 2^-40 relative, so ~250 correct bits are ample).

const c18Prec = 320

var (
	c18ln2Once sync.Once
	c18ln2     *big.Float
)

func c18f() *big.Float { return new(big.Float).SetPrec(c18Prec) }

// c18atanhSeries returns 2*atanh(z) = 2*(z + z^3/3 + z^5/5 + ...) for |z| <= 1/3.
func c18atanhSeries(z *big.Float) *big.Float {
	z2 := c18f().Mul(z, z)
	term := c18f().Set(z)
	sum := c18f().Set(z)
	eps := c18f().SetMantExp(big.NewFloat(1), -c18Prec-8)
	for k := int64(3); k < 4000; k += 2 {
		term.Mul(term, z2)
		add := c18f().Quo(term, c18f().SetInt64(k))
		sum.Add(sum, add)
		if add.Sign() == 0 || c18f().Abs(add).Cmp(eps) < 0 {
			break
		}
	}
	return sum.Mul(sum, c18f().SetInt64(2))
}

func c18Ln2() *big.Float {
	c18ln2Once.Do(func() {
		// ln 2 = 2*atanh(1/3)
		z := c18f().Quo(c18f().SetInt64(1), c18f().SetInt64(3))
		c18ln2 = c18atanhSeries(z)
	})
	return c18ln2
}

// C18Ln returns ln(x) for x > 0.
func C18Ln(x *big.Float) *big.Float {
	if x.Sign() <= 0 {
		panic("C18Ln: non-positive argument")
	}
	// x = m * 2^e with m in [0.5,1); move to m in [0.75,1.5)
	m := c18f()
	e := x.MantExp(m)
	if m.Cmp(big.NewFloat(0.75)) < 0 {
		m.Mul(m, c18f().SetInt64(2))
		e--
	}
	// ln m = 2 atanh((m-1)/(m+1)), |z| <= 0.2
	one := c18f().SetInt64(1)
	z := c18f().Quo(c18f().Sub(m, one), c18f().Add(m, one))
	r := c18atanhSeries(z)
	return r.Add(r, c18f().Mul(c18f().SetInt64(int64(e)), c18Ln2()))
}

// C18Exp returns e^w.
func C18Exp(w *big.Float) *big.Float {
	// w = n*ln2 + r, |r| <= ln2/2 ; r is then halved 12 times, Taylor, squared back
	q := c18f().Quo(w, c18Ln2())
	qf, _ := q.Float64()
	n := int64(qf)
	if qf-float64(n) > 0.5 {
		n++
	} else if qf-float64(n) < -0.5 {
		n--
	}
	r := c18f().Sub(w, c18f().Mul(c18f().SetInt64(n), c18Ln2()))
	const halvings = 12
	r.SetMantExp(r, -halvings)
	sum := c18f().SetInt64(1)
	term := c18f().SetInt64(1)
	eps := c18f().SetMantExp(big.NewFloat(1), -c18Prec-8)
	for k := int64(1); k < 400; k++ {
		term.Mul(term, r)
		term.Quo(term, c18f().SetInt64(k))
		sum.Add(sum, term)
		if term.Sign() == 0 || c18f().Abs(term).Cmp(eps) < 0 {
			break
		}
	}
	for i := 0; i < halvings; i++ {
		sum.Mul(sum, sum)
	}
	return sum.SetMantExp(sum, int(n))
}

// C18Ln1p returns ln(1+r) for a rational r >= 0 (exact 1+r is formed first).
func C18Ln1p(r *big.Rat) *big.Float {
	x := new(big.Rat).Add(r, big.NewRat(1, 1))
	return C18Ln(c18f().SetRat(x))
}

// C18Growth returns (1+r)^(t/year) given ln(1+r).
func C18Growth(ln1p *big.Float, t, year int64) *big.Float {
	if t == 0 || ln1p.Sign() == 0 {
		return c18f().SetInt64(1)
	}
	w := c18f().Mul(ln1p, c18f().SetInt64(t))
	w.Quo(w, c18f().SetInt64(year))
	return C18Exp(w)
}

// C18Compound returns P*((1+r)^(t/year)-1) as a rational (the big.Float value
// converted exactly), given ln(1+r).
func C18Compound(p *big.Int, ln1p *big.Float, t, year int64) (*big.Rat, *big.Float) {
	g := C18Growth(ln1p, t, year)
	x := c18f().Sub(g, c18f().SetInt64(1))
	x.Mul(x, c18f().SetInt(p))
	out, _ := x.Rat(nil)
	if out == nil {
		out = new(big.Rat)
	}
	return out, g
}

// C18Simple returns the exact simple interest P*r*t/year.
func C18Simple(p *big.Int, r *big.Rat, t, year int64) *big.Rat {
	x := new(big.Rat).SetInt(p)
	x.Mul(x, r)
	x.Mul(x, big.NewRat(t, year))
	return x
}

var c18E18 = new(big.Int).Exp(big.NewInt(10), big.NewInt(18), nil)

// C18DecRat converts the integer representation of an 18-decimal fixed point
// number into a rational.
func C18DecRat(i *big.Int) *big.Rat { return new(big.Rat).SetFrac(i, c18E18) }

// C18Ulps returns n * 10^-18.
func C18Ulps(n int64) *big.Rat { return new(big.Rat).SetFrac(big.NewInt(n), c18E18) }
