// Package mon holds the reference models ("shadow ledgers") and exact
// arithmetic helpers used by the property monitors.
package mon

import "math/big"

// Ring is the reference model of C17: the window of the most recent positive
// samples since the last reset, with the accepted-gap rule.
type Ring struct {
	N         int
	Window    []uint64 // most recent positive samples since last reset, oldest first, at most N kept
	Active    bool
	Exists    bool  // a record exists (a positive sample was seen at some point)
	Discarded int64 // height of the first zero sample of the current outage, -1 when none
}

func NewRing(n int) *Ring { return &Ring{N: n, Discarded: -1} }

func (r *Ring) Clone() *Ring {
	c := *r
	c.Window = append([]uint64(nil), r.Window...)
	return &c
}

// Sample advances the model with one oracle sample at the given height.
func (r *Ring) Sample(rate uint64, height, gap int64) {
	if rate == 0 {
		if r.Exists && r.Discarded < 0 {
			r.Discarded = height
			r.Active = false
		}
		return
	}
	if r.Exists && r.Discarded > 0 {
		if height-r.Discarded >= gap {
			r.Window = r.Window[:0]
			r.Active = false
		}
		r.Discarded = -1
	}
	r.Exists = true
	r.Window = append(r.Window, rate)
	if len(r.Window) > r.N {
		r.Window = r.Window[len(r.Window)-r.N:]
	}
	if len(r.Window) >= r.N {
		r.Active = true
	}
}

// Stale: the feed delivered nothing new; consumers must see the price inactive.
func (r *Ring) Stale() { r.Active = false }

// DiscardAll: the feed was out for longer than accepted; the window restarts.
func (r *Ring) DiscardAll() { r.Window = r.Window[:0]; r.Active = false }

// Mean is the exact integer mean of the window (floor).
func (r *Ring) Mean() *big.Int {
	s := new(big.Int)
	for _, v := range r.Window {
		s.Add(s, new(big.Int).SetUint64(v))
	}
	return s.Quo(s, big.NewInt(int64(r.N)))
}

func (r *Ring) Contains(v uint64) bool {
	for _, w := range r.Window {
		if w == v {
			return true
		}
	}
	return false
}
